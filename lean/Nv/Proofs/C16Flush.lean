import Nv.Proofs.C16Sess
/-!
C16 — what the peer reads: in order always (`GInv`), and complete when nothing but a local Close
ends the session (`FOk`). Proved configuration, exit callback returns.
-/
set_option linter.unusedSimpArgs false
namespace Nv.C16

/-- the item being written, if any -/
def inflight (s : Sess) : List Nat :=
  match s.sendPc with
  | .writing x => x
  | _ => []

def sendLooping (s : Sess) : Prop := s.sendPc = .idle ∨ ∃ x, s.sendPc = .writing x
def sendLeft (s : Sess) : Prop := (∃ st, s.sendPc = .quitting st) ∨ s.sendPc = .done

/-- ordering invariant (holds whatever happens) -/
structure GInv (s : Sess) : Prop where
  pending : sendLooping s → s.delivered ++ inflight s ++ s.q.flatten = s.accepted.flatten
  pref : s.delivered <+: s.accepted.flatten

/-- completeness invariant: as long as no terminating event other than a local Close happened -/
structure FInv (s : Sess) : Prop where
  clean : s.peerClosed = false ∧ s.wfault = false
  recv : s.recvPc = .reading ∨ s.onceTaken = true
  once : s.onceTaken = true → sendLeft s
  left : sendLeft s → s.delivered = s.accepted.flatten ∧ s.qClosed = true
  rown : ∀ p st, s.recvPc = .quitting p st → st = .enter   -- the receive loop never runs the body of the once

theorem ginv_init : GInv Sess.init := by
  constructor <;> simp [Sess.init, inflight]

theorem finv_init : FInv Sess.init := by
  constructor <;> simp [Sess.init, sendLeft]

theorem ginv_env {s : Sess} (h : GInv s) (e : Env) : GInv (envStep s e) := by
  obtain ⟨g1, g2⟩ := h
  cases e <;> simp only [envStep]
  case send bs =>
    split
    · exact ⟨g1, g2⟩
    · constructor
      · intro hl
        have := g1 hl
        simp only [inflight, List.flatten_append, List.flatten_cons, List.flatten_nil, List.append_nil] at this ⊢
        rw [← this]; simp [List.append_assoc]
      · simp only [List.flatten_append]
        exact List.IsPrefix.trans g2 (List.prefix_append _ _)
  all_goals (try split)
  all_goals (exact ⟨g1, g2⟩)

/-- a step of the send loop inside `quit` changes nothing the ordering invariant looks at -/
theorem ginv_left {s s' : Sess} (h : GInv s) (hd : s'.delivered = s.delivered) (ha : s'.accepted = s.accepted)
    (hl : ¬ sendLooping s') : GInv s' :=
  ⟨fun l => absurd l hl, by rw [hd, ha]; exact h.pref⟩

theorem ginv_sendStepP {s s' : Sess} (h : GInv s) (hs : sendStepP s = some s') : GInv s' := by
  obtain ⟨g1, g2⟩ := h
  unfold sendStepP at hs
  split at hs
  · rename_i hpc
    have hl := g1 (Or.inl hpc)
    split at hs
    · split at hs
      · cases hs
        exact ginv_left ⟨g1, g2⟩ rfl rfl (by intro l; rcases l with l | ⟨x, l⟩ <;> simp at l)
      · cases hs
    · rename_i x rest hq'
      split at hs
      · cases hs
        refine ⟨?_, g2⟩
        intro _
        simp_all [inflight]
      · cases hs
        refine ⟨?_, g2⟩
        intro _
        simp_all [inflight]
  · rename_i x hpc
    have hl := g1 (Or.inr ⟨x, hpc⟩)
    split at hs
    · cases hs
      -- a failing write hands over at most a prefix of the item that was next anyway
      simp only [inflight, hpc] at hl
      constructor
      · intro l; rcases l with l | ⟨y, l⟩ <;> simp at l
      · simp only
        rw [← hl]
        have hp : partialWrite s x <+: x := by
          unfold partialWrite; split
          · exact List.take_prefix _ _
          · exact List.nil_prefix
        obtain ⟨t, ht⟩ := hp
        refine ⟨t ++ s.q.flatten, ?_⟩
        have e : s.delivered ++ partialWrite s x ++ (t ++ s.q.flatten) = s.delivered ++ (partialWrite s x ++ t) ++ s.q.flatten := by
          simp [List.append_assoc]
        rw [e, ht]
    · split at hs
      · cases hs
        simp only [inflight, hpc] at hl
        constructor
        · intro _; simp [inflight]; rw [← hl]; simp [List.append_assoc]
        · simp only; rw [← hl]; simp [List.append_assoc]
      · cases hs
  · split at hs
    · cases hs; exact ginv_left ⟨g1, g2⟩ rfl rfl (by intro l; rcases l with l | ⟨x, l⟩ <;> simp at l)
    · split at hs
      · cases hs
      · cases hs; exact ginv_left ⟨g1, g2⟩ rfl rfl (by intro l; rcases l with l | ⟨x, l⟩ <;> simp at l)
  · cases hs; exact ginv_left ⟨g1, g2⟩ rfl rfl (by intro l; rcases l with l | ⟨x, l⟩ <;> simp at l)
  · cases hs; exact ginv_left ⟨g1, g2⟩ rfl rfl (by intro l; rcases l with l | ⟨x, l⟩ <;> simp at l)
  · cases hs; exact ginv_left ⟨g1, g2⟩ rfl rfl (by intro l; rcases l with l | ⟨x, l⟩ <;> simp at l)
  · cases hs
  · cases hs

/-- a step of the receive loop never touches the send side -/
theorem ginv_recvStepP {s s' : Sess} (h : GInv s) (hs : recvStepP s = some s') : GInv s' := by
  have key : s'.sendPc = s.sendPc ∧ s'.q = s.q ∧ s'.delivered = s.delivered ∧ s'.accepted = s.accepted := by
    unfold recvStepP at hs
    split at hs
    · split at hs <;> cases hs; simp
    · split at hs
      · cases hs; simp
      · split at hs <;> cases hs; simp
    · cases hs; simp
    · cases hs; simp
    · cases hs; simp
    · cases hs
    · cases hs
  obtain ⟨k1, k2, k3, k4⟩ := key
  obtain ⟨g1, g2⟩ := h
  constructor
  · intro hl
    have : sendLooping s := by unfold sendLooping at hl ⊢; rw [k1] at hl; exact hl
    have := g1 this
    simp only [inflight, k1, k2, k3, k4] at this ⊢
    exact this
  · rw [k3, k4]; exact g2

/-- the completeness invariant, conditional on "nothing but a local Close so far" -/
def FOk (s : Sess) : Prop := s.faulted = false → FInv s

theorem fok_init : FOk Sess.init := fun _ => finv_init

theorem fok_env {s : Sess} (h : FOk s) (e : Env) : FOk (envStep s e) := by
  cases e <;> simp only [envStep]
  case send bs =>
    split
    · exact h
    · rename_i hc
      intro hf
      obtain ⟨f1, f2, f3, f4, f5⟩ := h hf
      exact ⟨f1, f2, f3, fun hl => by have := (f4 hl).2; simp_all, f5⟩
  case close =>
    intro hf
    obtain ⟨f1, f2, f3, f4, f5⟩ := h hf
    exact ⟨f1, f2, f3, fun hl => ⟨(f4 hl).1, rfl⟩, f5⟩
  case peerDrain => intro hf; obtain ⟨f1, f2, f3, f4, f5⟩ := h hf; exact ⟨f1, f2, f3, f4, f5⟩
  case peerHold => intro hf; obtain ⟨f1, f2, f3, f4, f5⟩ := h hf; exact ⟨f1, f2, f3, f4, f5⟩
  case peerData => split <;> (intro hf; obtain ⟨f1, f2, f3, f4, f5⟩ := h hf; exact ⟨f1, f2, f3, f4, f5⟩)
  case peerClose => intro hf; simp at hf
  case readFail => split <;> (intro hf; simp at hf)
  case handlerPanic => split <;> (intro hf; simp at hf)
  case writeFail => intro hf; simp at hf
  case writeFailAfter n => split <;> (intro hf; simp at hf)

theorem taken_of_closes {s : Sess} (hS : SInv s) (h : s.closes ≠ 0) : s.onceTaken = true :=
  (hS.fin (once_of_closes hS h)).1

theorem fok_sendStepP {s s' : Sess} (hS : SInv s) (hG : GInv s) (h : FOk s) (hs : sendStepP s = some s') : FOk s' := by
  unfold sendStepP at hs
  split at hs
  · rename_i hpc
    have hnl : ¬ sendLeft s := by unfold sendLeft; simp [hpc]
    split at hs
    · rename_i hq'
      split at hs
      · rename_i hcl
        cases hs
        intro hf
        obtain ⟨f1, f2, f3, f4, f5⟩ := h hf
        refine ⟨f1, f2, fun _ => Or.inl ⟨_, rfl⟩, fun _ => ⟨?_, hcl⟩, f5⟩
        have := hG.pending (Or.inl hpc)
        simpa [inflight, hpc, hq'] using this
      · cases hs
    · split at hs <;>
      · cases hs
        intro hf
        obtain ⟨f1, f2, f3, f4, f5⟩ := h hf
        refine ⟨f1, f2, fun ho => absurd (f3 ho) hnl, fun hl => ?_, f5⟩
        unfold sendLeft at hl; simp_all
  · rename_i x hpc
    have hnl : ¬ sendLeft s := by unfold sendLeft; simp [hpc]
    split at hs
    · rename_i hcond
      cases hs
      intro hf
      obtain ⟨f1, f2, f3, f4, f5⟩ := h hf
      exfalso
      have hcl : s.closes ≠ 0 := by simp_all
      exact hnl (f3 (taken_of_closes hS hcl))
    · split at hs
      · cases hs
        intro hf
        obtain ⟨f1, f2, f3, f4, f5⟩ := h hf
        refine ⟨f1, f2, fun ho => absurd (f3 ho) hnl, fun hl => ?_, f5⟩
        unfold sendLeft at hl; simp at hl
      · cases hs
  · rename_i hpc
    have hl : sendLeft s := Or.inl ⟨_, hpc⟩
    split at hs
    · cases hs; intro hf; obtain ⟨f1, f2, f3, f4, f5⟩ := h hf
      exact ⟨f1, f2, fun _ => Or.inr rfl, fun _ => f4 hl, f5⟩
    · split at hs
      · cases hs
      · cases hs; intro hf; obtain ⟨f1, f2, f3, f4, f5⟩ := h hf
        exact ⟨f1, Or.inr rfl, fun _ => Or.inl ⟨_, rfl⟩, fun _ => f4 hl, f5⟩
  · rename_i hpc
    have hl : sendLeft s := Or.inl ⟨_, hpc⟩
    cases hs; intro hf; obtain ⟨f1, f2, f3, f4, f5⟩ := h hf
    exact ⟨f1, f2, fun _ => Or.inl ⟨_, rfl⟩, fun _ => f4 hl, f5⟩
  · rename_i hpc
    have hl : sendLeft s := Or.inl ⟨_, hpc⟩
    cases hs; intro hf; obtain ⟨f1, f2, f3, f4, f5⟩ := h hf
    exact ⟨f1, f2, fun _ => Or.inl ⟨_, rfl⟩, fun _ => ⟨(f4 hl).1, rfl⟩, f5⟩
  · rename_i hpc
    have hl : sendLeft s := Or.inl ⟨_, hpc⟩
    cases hs; intro hf; obtain ⟨f1, f2, f3, f4, f5⟩ := h hf
    exact ⟨f1, f2, fun _ => Or.inr rfl, fun _ => f4 hl, f5⟩
  · cases hs
  · cases hs

theorem fok_recvStepP {s s' : Sess} (hS : SInv s) (h : FOk s) (hs : recvStepP s = some s') : FOk s' := by
  unfold recvStepP at hs
  split at hs
  · split at hs
    · rename_i hcond
      cases hs
      intro hf
      obtain ⟨f1, f2, f3, f4, f5⟩ := h hf
      have hcl : s.closes ≠ 0 := by simp_all
      have ho := taken_of_closes hS hcl
      exact ⟨f1, Or.inr ho, f3, f4, by intro p st e; cases e; rfl⟩
    · cases hs
  · -- quitting enter: without a fault the once is already taken (by the send loop): blocked, or it leaves
    rename_i p hpc
    split at hs
    · cases hs; intro hf; obtain ⟨f1, f2, f3, f4, f5⟩ := h hf
      have ho : s.onceTaken = true := by rcases f2 with f2 | f2; (rw [hpc] at f2; cases f2); exact f2
      exact ⟨f1, Or.inr ho, f3, f4, by intro p st e; cases e⟩
    · split at hs
      · cases hs
      · rename_i ht
        cases hs; intro hf; obtain ⟨f1, f2, f3, f4, f5⟩ := h hf
        exfalso
        rcases f2 with f2 | f2
        · rw [hpc] at f2; cases f2
        · simp [f2] at ht
  · rename_i p hpc; cases hs; intro hf; have := (h hf).rown p _ hpc; cases this
  · rename_i p hpc; cases hs; intro hf; have := (h hf).rown p _ hpc; cases this
  · rename_i p hpc; cases hs; intro hf; have := (h hf).rown p _ hpc; cases this
  · cases hs
  · cases hs

end Nv.C16
