import Nv.Proofs.C16Sess
/-!
C16 — what the peer reads: in order always (`GInv`), and complete when nothing but a local Close
ends the session (`FInv`). Proved configuration.
-/
namespace Nv.C16

/-- the item being written, if any -/
def inflight (s : Sess) : List Nat :=
  match s.sendPc with
  | .writing x => x
  | _ => []

def sendLooping (s : Sess) : Prop := s.sendPc = .idle ∨ ∃ x, s.sendPc = .writing x
def sendLeft (s : Sess) : Prop := s.sendPc = .quitting ∨ s.sendPc = .done

/-- ordering invariant (holds whatever happens) -/
structure GInv (s : Sess) : Prop where
  pending : sendLooping s → s.delivered ++ inflight s ++ s.q.flatten = s.accepted.flatten
  pref : s.delivered <+: s.accepted.flatten

/-- completeness invariant: as long as no terminating event other than a local Close happened -/
structure FInv (s : Sess) : Prop where
  clean : s.peerClosed = false ∧ s.wfault = false
  recv : s.recvPc = .reading ∨ s.onceDone = true
  once : s.onceDone = true → sendLeft s
  left : sendLeft s → s.delivered = s.accepted.flatten ∧ s.qClosed = true

theorem ginv_init : GInv Sess.init := by
  constructor <;> simp [Sess.init, inflight]

theorem finv_init : FInv Sess.init := by
  constructor <;> simp [Sess.init, sendLeft]

theorem quitP_same (s : Sess) :
    (quitP s).q = s.q ∧ (quitP s).sendPc = s.sendPc ∧ (quitP s).recvPc = s.recvPc ∧ (quitP s).delivered = s.delivered ∧
    (quitP s).accepted = s.accepted ∧ (quitP s).peerClosed = s.peerClosed ∧ (quitP s).wfault = s.wfault ∧
    (quitP s).faulted = s.faulted ∧ (quitP s).onceDone = true ∧ (s.qClosed = true → (quitP s).qClosed = true) ∧
    (s.onceDone = true → quitP s = s) := by
  unfold quitP; split <;> simp_all

theorem ginv_env {s : Sess} (h : GInv s) (e : Env) : GInv (envStep s e) := by
  obtain ⟨g1, g2⟩ := h
  cases e <;> simp only [envStep]
  case send bs =>
    split
    · exact ⟨g1, g2⟩
    · constructor
      · intro hl
        have := g1 hl
        simp only [inflight, List.flatten_append, List.flatten_cons, List.flatten_nil, List.append_nil] at this ⊢
        rw [← this]; simp [List.append_assoc]
      · simp only [List.flatten_append]
        exact List.IsPrefix.trans g2 (List.prefix_append _ _)
  all_goals (try split)
  all_goals (exact ⟨g1, g2⟩)

theorem ginv_sendStepP {s s' : Sess} (h : GInv s) (hs : sendStepP s = some s') : GInv s' := by
  obtain ⟨g1, g2⟩ := h
  have hq := quitP_same s
  unfold sendStepP at hs
  split at hs
  · rename_i hpc
    have hl := g1 (Or.inl hpc)
    split at hs
    · split at hs
      · cases hs
        refine ⟨?_, g2⟩
        intro hl'; rcases hl' with h' | ⟨x, h'⟩ <;> simp at h'
      · cases hs
    · rename_i x rest hq'
      split at hs
      · cases hs
        refine ⟨?_, g2⟩
        intro _
        simp_all [inflight]
      · cases hs
        refine ⟨?_, g2⟩
        intro _
        simp_all [inflight]
  · rename_i x hpc
    have hl := g1 (Or.inr ⟨x, hpc⟩)
    split at hs
    · cases hs
      refine ⟨?_, g2⟩
      intro hl'; rcases hl' with h' | ⟨x, h'⟩ <;> simp at h'
    · split at hs
      · cases hs
        simp only [inflight, hpc] at hl
        constructor
        · intro _; simp [inflight]; rw [← hl]; simp [List.append_assoc]
        · simp only; rw [← hl]; simp [List.append_assoc]
      · cases hs
  · rename_i hpc
    cases hs
    constructor
    · intro hl'; rcases hl' with h' | ⟨x, h'⟩ <;> simp at h'
    · simp only [hq.2.2.2.1, hq.2.2.2.2.1]; exact g2
  · cases hs

theorem ginv_recvStepP {s s' : Sess} (h : GInv s) (hs : recvStepP s = some s') : GInv s' := by
  obtain ⟨g1, g2⟩ := h
  have hq := quitP_same s
  unfold recvStepP at hs
  split at hs
  · split at hs
    · cases hs; exact ⟨g1, g2⟩
    · cases hs
  · cases hs
    constructor
    · intro hl
      have : sendLooping s := by
        unfold sendLooping at hl ⊢; simpa [hq.2.1] using hl
      have := g1 this
      simp only [inflight, hq.1, hq.2.1, hq.2.2.2.1, hq.2.2.2.2.1] at this ⊢
      exact this
    · simp only [hq.2.2.2.1, hq.2.2.2.2.1]; exact g2
  · cases hs

end Nv.C16

namespace Nv.C16

theorem once_of_closes {s : Sess} (hS : SInv s) (h : s.closes ≠ 0) : s.onceDone = true := by
  obtain ⟨h1, _, h3, _⟩ := hS
  cases ho : s.onceDone
  · simp [ho] at h1; omega
  · rfl

/-- the completeness invariant, conditional on "nothing but a local Close so far" -/
def FOk (s : Sess) : Prop := s.faulted = false → FInv s

theorem fok_init : FOk Sess.init := fun _ => finv_init

theorem fok_env {s : Sess} (h : FOk s) (e : Env) : FOk (envStep s e) := by
  cases e <;> simp only [envStep]
  case send bs =>
    split
    · exact h
    · rename_i hc
      intro hf
      obtain ⟨f1, f2, f3, f4⟩ := h hf
      exact ⟨f1, f2, f3, fun hl => by have := (f4 hl).2; simp_all⟩
  case close =>
    intro hf
    obtain ⟨f1, f2, f3, f4⟩ := h hf
    exact ⟨f1, f2, f3, fun hl => ⟨(f4 hl).1, rfl⟩⟩
  case peerDrain => intro hf; obtain ⟨f1, f2, f3, f4⟩ := h hf; exact ⟨f1, f2, f3, f4⟩
  case peerHold => intro hf; obtain ⟨f1, f2, f3, f4⟩ := h hf; exact ⟨f1, f2, f3, f4⟩
  case peerData => split <;> (intro hf; obtain ⟨f1, f2, f3, f4⟩ := h hf; exact ⟨f1, f2, f3, f4⟩)
  case peerClose => intro hf; simp at hf
  case readFail => split <;> (intro hf; simp at hf)
  case handlerPanic => split <;> (intro hf; simp at hf)
  case writeFail => intro hf; simp at hf

theorem fok_sendStepP {s s' : Sess} (hS : SInv s) (hG : GInv s) (h : FOk s) (hs : sendStepP s = some s') : FOk s' := by
  have hq := quitP_same s
  unfold sendStepP at hs
  split at hs
  · rename_i hpc
    have hnl : ¬ sendLeft s := by unfold sendLeft; simp [hpc]
    split at hs
    · rename_i hq'
      split at hs
      · rename_i hcl
        cases hs
        intro hf
        obtain ⟨f1, f2, f3, f4⟩ := h hf
        refine ⟨f1, f2, fun _ => Or.inl rfl, fun _ => ⟨?_, hcl⟩⟩
        have := hG.pending (Or.inl hpc)
        simpa [inflight, hpc, hq'] using this
      · cases hs
    · split at hs <;>
      · cases hs
        intro hf
        obtain ⟨f1, f2, f3, f4⟩ := h hf
        refine ⟨f1, f2, fun ho => absurd (f3 ho) hnl, fun hl => ?_⟩
        unfold sendLeft at hl; simp_all
  · rename_i x hpc
    have hnl : ¬ sendLeft s := by unfold sendLeft; simp [hpc]
    split at hs
    · rename_i hcond
      cases hs
      intro hf
      obtain ⟨f1, f2, f3, f4⟩ := h hf
      exfalso
      have hcl : s.closes ≠ 0 := by simp_all
      exact hnl (f3 (once_of_closes hS hcl))
    · split at hs
      · cases hs
        intro hf
        obtain ⟨f1, f2, f3, f4⟩ := h hf
        refine ⟨f1, f2, fun ho => absurd (f3 ho) hnl, fun hl => ?_⟩
        unfold sendLeft at hl; simp at hl
      · cases hs
  · rename_i hpc
    cases hs
    intro hf
    have hf' : s.faulted = false := by simpa [hq.2.2.2.2.2.2.2.1] using hf
    obtain ⟨f1, f2, f3, f4⟩ := h hf'
    have hl : sendLeft s := Or.inl hpc
    obtain ⟨l1, l2⟩ := f4 hl
    refine ⟨?_, Or.inr ?_, fun _ => Or.inr rfl, fun _ => ⟨?_, ?_⟩⟩
    · simpa [hq.2.2.2.2.2.1, hq.2.2.2.2.2.2.1] using f1
    · simpa using hq.2.2.2.2.2.2.2.2.1
    · simpa [hq.2.2.2.1, hq.2.2.2.2.1] using l1
    · simpa using hq.2.2.2.2.2.2.2.2.2.1 l2
  · cases hs

theorem fok_recvStepP {s s' : Sess} (hS : SInv s) (h : FOk s) (hs : recvStepP s = some s') : FOk s' := by
  have hq := quitP_same s
  unfold recvStepP at hs
  split at hs
  · split at hs
    · rename_i hcond
      cases hs
      intro hf
      obtain ⟨f1, f2, f3, f4⟩ := h hf
      have hcl : s.closes ≠ 0 := by simp_all
      have ho := once_of_closes hS hcl
      exact ⟨f1, Or.inr ho, f3, f4⟩
    · cases hs
  · rename_i p hpc
    cases hs
    intro hf
    have hf' : s.faulted = false := by simpa [hq.2.2.2.2.2.2.2.1] using hf
    obtain ⟨f1, f2, f3, f4⟩ := h hf'
    have ho : s.onceDone = true := by
      rcases f2 with f2 | f2
      · rw [hpc] at f2; cases f2
      · exact f2
    have he := hq.2.2.2.2.2.2.2.2.2.2 ho
    rw [he]
    exact ⟨f1, Or.inr ho, f3, f4⟩
  · cases hs

end Nv.C16
