import Nv.Model.C07
set_option linter.unusedSimpArgs false
set_option linter.unusedVariables false
/-! C07 — zero-padded decimal text: `atoi (padInt w n) = n` and the slices of the 24-character date form. -/
namespace Nv.C07

theorem lastDigits_length : ∀ (w n : Nat), (lastDigits w n).length = w
  | 0, _ => rfl
  | w + 1, n => by simp [lastDigits, lastDigits_length w]

theorem digitVal_digitChar (n : Nat) : digitVal (digitChar n) = some (n % 10) := by
  have key : ∀ d : Fin 10, digitVal (Char.ofNat (48 + d.val)) = some d.val := by decide
  have := key ⟨n % 10, Nat.mod_lt _ (by decide)⟩
  simpa [digitChar] using this

theorem digitChar_not_sign (n : Nat) : digitChar n ≠ '-' ∧ digitChar n ≠ '+' := by
  have key : ∀ d : Fin 10, Char.ofNat (48 + d.val) ≠ '-' ∧ Char.ofNat (48 + d.val) ≠ '+' := by decide
  exact key ⟨n % 10, Nat.mod_lt _ (by decide)⟩

theorem digitsVal_append : ∀ (xs ys : List Char) (acc : Nat),
    digitsVal (xs ++ ys) acc = (digitsVal xs acc).bind (fun a => digitsVal ys a)
  | [], _, _ => rfl
  | c :: xs, ys, acc => by
    simp only [List.cons_append, digitsVal]
    cases digitVal c with
    | none => rfl
    | some d => exact digitsVal_append xs ys _

theorem digitsVal_lastDigits : ∀ (w n acc : Nat), digitsVal (lastDigits w n) acc = some (acc * 10 ^ w + n % 10 ^ w)
  | 0, n, acc => by simp [lastDigits, digitsVal, Nat.mod_one]
  | w + 1, n, acc => by
    rw [lastDigits, digitsVal_append, digitsVal_lastDigits w (n / 10) acc]
    simp only [Option.bind_some, digitsVal, digitVal_digitChar]
    congr 1
    have : n % 10 ^ (w + 1) = n % 10 + 10 * (n / 10 % 10 ^ w) := by
      rw [Nat.pow_succ, Nat.mul_comm (10 ^ w) 10, Nat.mod_mul]
    rw [this, Nat.pow_succ]
    generalize n / 10 % 10 ^ w = a
    generalize 10 ^ w = p
    rw [Nat.add_mul, Nat.mul_assoc]; omega

theorem head_lastDigits_not_sign : ∀ (w n : Nat) (c : Char) (cs : List Char), lastDigits w n = c :: cs → c ≠ '-' ∧ c ≠ '+'
  | 0, _, _, _, h => by simp [lastDigits] at h
  | w + 1, n, c, cs, h => by
    rw [lastDigits] at h
    cases hl : lastDigits w (n / 10) with
    | nil => rw [hl] at h; simp at h; rw [← h.1]; exact digitChar_not_sign n
    | cons c' cs' =>
      rw [hl] at h; simp at h
      rw [← h.1]; exact head_lastDigits_not_sign w (n / 10) c' cs' hl

theorem atoi_of_not_sign (c : Char) (cs : List Char) (h : c ≠ '-' ∧ c ≠ '+') :
    atoi (c :: cs) = (digitsVal (c :: cs) 0).map (fun n => (n : Int)) := by
  unfold atoi
  split
  · rename_i heq; cases heq
  · rename_i heq; simp only [List.cons.injEq] at heq; exact absurd heq.1 h.1
  · rename_i heq; simp only [List.cons.injEq] at heq; exact absurd heq.1 h.2
  · rfl

/-- parsing the zero-padded form gives the number back -/
theorem atoi_padInt (w : Nat) (hw : 0 < w) (n : Int) (h0 : 0 ≤ n) (h1 : n < 10 ^ w) : atoi (padInt w n) = some n := by
  unfold padInt
  rw [if_pos ⟨h0, h1⟩]
  cases hl : lastDigits w n.toNat with
  | nil => have := lastDigits_length w n.toNat; rw [hl] at this; simp at this; omega
  | cons c cs =>
    rw [atoi_of_not_sign c cs (head_lastDigits_not_sign w _ c cs hl), ← hl, digitsVal_lastDigits]
    have hlt : n.toNat < 10 ^ w := by
      have : (n.toNat : Int) < ((10 ^ w : Nat) : Int) := by rw [Int.toNat_of_nonneg h0]; simpa using h1
      exact Int.ofNat_lt.1 this
    show some ((0 * 10 ^ w + n.toNat % 10 ^ w : Nat) : Int) = some n
    rw [Nat.zero_mul, Nat.zero_add, Nat.mod_eq_of_lt hlt, Int.toNat_of_nonneg h0]

theorem padInt_length (w : Nat) (n : Int) (h0 : 0 ≤ n) (h1 : n < 10 ^ w) : (padInt w n).length = w := by
  unfold padInt; rw [if_pos ⟨h0, h1⟩]; exact lastDigits_length w _

/-- the eight slices `FromChStyle` takes of a text built from eight segments of widths 4,2,2,2,2,2,3,7 -/
theorem slices (a b c d e f g h : List Char) (ha : a.length = 4) (hb : b.length = 2) (hc : c.length = 2) (hd : d.length = 2)
    (he : e.length = 2) (hf : f.length = 2) (hg : g.length = 3) (hh : h.length = 7) :
    let v := a ++ b ++ c ++ d ++ e ++ f ++ g ++ h
    v.length = 24 ∧ v.take 4 = a ∧ (v.drop 4).take 2 = b ∧ (v.drop 6).take 2 = c ∧ (v.drop 8).take 2 = d ∧
      (v.drop 10).take 2 = e ∧ (v.drop 12).take 2 = f ∧ (v.drop 14).take 3 = g ∧ v.drop 17 = h := by
  intro v
  have hv : v = a ++ (b ++ (c ++ (d ++ (e ++ (f ++ (g ++ h)))))) := by simp [v, List.append_assoc]
  have d4 : v.drop 4 = b ++ (c ++ (d ++ (e ++ (f ++ (g ++ h))))) := by rw [hv]; exact List.drop_left' ha
  have d6 : v.drop 6 = c ++ (d ++ (e ++ (f ++ (g ++ h)))) := by
    rw [show 6 = 4 + 2 from rfl, ← List.drop_drop, d4]; exact List.drop_left' hb
  have d8 : v.drop 8 = d ++ (e ++ (f ++ (g ++ h))) := by
    rw [show 8 = 6 + 2 from rfl, ← List.drop_drop, d6]; exact List.drop_left' hc
  have d10 : v.drop 10 = e ++ (f ++ (g ++ h)) := by
    rw [show 10 = 8 + 2 from rfl, ← List.drop_drop, d8]; exact List.drop_left' hd
  have d12 : v.drop 12 = f ++ (g ++ h) := by
    rw [show 12 = 10 + 2 from rfl, ← List.drop_drop, d10]; exact List.drop_left' he
  have d14 : v.drop 14 = g ++ h := by
    rw [show 14 = 12 + 2 from rfl, ← List.drop_drop, d12]; exact List.drop_left' hf
  have d17 : v.drop 17 = h := by
    rw [show 17 = 14 + 3 from rfl, ← List.drop_drop, d14]; exact List.drop_left' hg
  refine ⟨by rw [hv]; simp [ha, hb, hc, hd, he, hf, hg, hh], by rw [hv]; exact List.take_left' ha, ?_, ?_, ?_, ?_, ?_, ?_, d17⟩
  · rw [d4]; exact List.take_left' hb
  · rw [d6]; exact List.take_left' hc
  · rw [d8]; exact List.take_left' hd
  · rw [d10]; exact List.take_left' he
  · rw [d12]; exact List.take_left' hf
  · rw [d14]; exact List.take_left' hg

end Nv.C07
