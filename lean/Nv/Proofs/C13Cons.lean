import Nv.Model.C13
import Nv.Proofs.C13
/-! C13 — conservation in the concurrent system: what consumers were handed plus what is queued is what was accepted. -/
namespace Nv.C13
open Nv.C12

def items (q : LQ) : List Nat := q.ctrl ++ q.req

/-- item values carried by the results of returned consumers -/
def vals : List (Tid × Out) → List Nat
  | [] => []
  | (_, .val v) :: r => v :: vals r
  | _ :: r => vals r

def outVal : Out → List Nat
  | .val v => [v]
  | _ => []

theorem vals_cons (t : Tid) (o : Out) (r : List (Tid × Out)) : vals ((t, o) :: r) = outVal o ++ vals r := by
  cases o <;> simp [vals, outVal]

/-! effects of the C12 critical sections on the item lists, for every shape -/

theorem addReq_items (sh : Shape) (s : LQ) (x : Nat) :
    ((addReq sh s x).2 = .ok → items (addReq sh s x).1 = items s ++ [x]) ∧
    ((addReq sh s x).2 ≠ .ok → (addReq sh s x).1 = s) := by
  unfold addReq
  cases sh.addClosedFirst <;> cases s.closed <;> cases fullAt s.reqCap s.req.length <;> simp [items]

theorem addCtrl_items (sh : Shape) (s : LQ) (x : Nat) (y : Nat) :
    ((addCtrl sh s x).2 = .ok → (items (addCtrl sh s x).1).count y = (items s ++ [x]).count y) ∧
    ((addCtrl sh s x).2 ≠ .ok → (addCtrl sh s x).1 = s) := by
  unfold addCtrl
  cases sh.addClosedFirst <;> cases s.closed <;> cases fullAt s.ctrlCap s.ctrl.length <;>
    simp [items, List.count_append, List.count_cons] <;> omega

theorem addPrior_items (sh : Shape) (s : LQ) (x : Nat) (y : Nat) :
    ((addPrior sh s x).2 = .ok → (items (addPrior sh s x).1).count y = (items s ++ [x]).count y) ∧
    ((addPrior sh s x).2 ≠ .ok → (addPrior sh s x).1 = s) := by
  unfold addPrior
  cases sh.priorBounded <;> cases s.closed <;> cases fullAt s.reqCap s.req.length <;>
    simp [items, List.count_append, List.count_cons] <;> omega

theorem addPriorCtrl_items (sh : Shape) (s : LQ) (x : Nat) (y : Nat) :
    ((addPriorCtrl sh s x).2 = .ok → (items (addPriorCtrl sh s x).1).count y = (items s ++ [x]).count y) ∧
    ((addPriorCtrl sh s x).2 ≠ .ok → (addPriorCtrl sh s x).1 = s) := by
  unfold addPriorCtrl
  cases sh.priorBounded <;> cases s.closed <;> cases fullAt s.ctrlCap s.ctrl.length <;>
    simp [items, List.count_append, List.count_cons] <;> omega

theorem takeFront_items (sh : Shape) (s : LQ) (hne : s.size ≠ 0) (y : Nat) :
    (items (takeFront sh s).1).count y + (outVal (takeFront sh s).2).count y = (items s).count y := by
  unfold takeFront
  cases sh.ctrlFirst <;> cases hc : s.ctrl <;> cases hr : s.req <;>
    simp [LQ.size, hc, hr, items, outVal, List.count_cons, List.count_append] at hne ⊢ <;> omega

theorem popNow_items (sh : Shape) (a : Bool) (s : LQ) (r : LQ × Out) (h : popNow sh a s = some r) (y : Nat) :
    (items r.1).count y + (outVal r.2).count y = (items s).count y := by
  unfold popNow at h
  cases he : s.isEmpty with
  | true =>
    cases hc : s.closed <;> simp [he, hc] at h
    subst h; simp [outVal]
  | false =>
    have hne : s.size ≠ 0 := fun h => by rw [(isEmpty_iff s).2 h] at he; cases he
    simp only [he, Bool.false_eq_true, if_false] at h
    split at h
    · simp at h; subst h; simp [outVal]
    · simp at h; subst h; exact takeFront_items sh s hne y

theorem syncPopNow_items (s : LQ) (r : LQ × Out) (h : syncPopNow s = some r) (y : Nat) :
    (items r.1).count y + (outVal r.2).count y = (items s).count y := by
  unfold syncPopNow at h
  cases hr : s.req with
  | nil =>
    cases hcl : s.closed <;> simp [hr, hcl] at h
    subst h; simp [outVal]
  | cons x rest =>
    simp [hr] at h; subst h
    simp [items, outVal, hr, List.count_cons, List.count_append]; omega

theorem attempt_items (k : Kind) (sh : Shape) (a : Bool) (q : LQ) (r : LQ × Out) (h : attempt k sh a q = some r)
    (y : Nat) : (items r.1).count y + (outVal r.2).count y = (items q).count y := by
  unfold attempt at h
  cases k <;> simp only at h
  all_goals first
    | exact popNow_items sh a q r h y
    | exact syncPopNow_items q r h y

/-- the conservation invariant -/
def Cons (s : CS) : Prop := ∀ y, (vals s.done).count y + (items s.q).count y = s.accepted.count y

theorem cons_init (q : LQ) (h : q.ctrl = [] ∧ q.req = []) : Cons (CS.init q) := by
  intro y; simp [CS.init, vals, items, h.1, h.2]

theorem cons_wake (p : Wake) (w : Tid) (s s' : CS) (h : wake p w s = some s') (hC : Cons s) : Cons s' := by
  obtain ⟨h1, h2, h3⟩ := wake_q p w s s' h
  intro y; rw [h1, h2, h3]; exact hC y

theorem cons_enter (k : Kind) (sh : Shape) (t : Tid) (a : Bool) (s : CS) (hC : Cons s) :
    Cons (enter k sh t a s) := by
  unfold enter
  cases hat : attempt k sh a s.q with
  | none => exact hC
  | some r =>
    intro y
    have := attempt_items k sh a s.q r hat y
    have := hC y
    simp only [vals_cons, List.count_append]
    omega

theorem cons_addLike (s s' : CS) (r : LQ × Out) (x : Nat) (p : Wake) (w : Tid) (hC : Cons s)
    (hr : ∀ y, (r.2 = .ok → (items r.1).count y = (items s.q ++ [x]).count y) ∧ (r.2 ≠ .ok → r.1 = s.q))
    (h : addLike s r x p w = some s') : Cons s' := by
  unfold addLike at h
  split at h
  · rename_i hok
    refine cons_wake p w _ s' h ?_
    intro y
    have := (hr y).1 hok
    have := hC y
    simp only [List.count_append] at *
    omega
  · rename_i hno
    cases h
    have := (hr 0).2 hno
    intro y; simp only; rw [this]; exact hC y

/-- every step other than an outsider's `TryPop` preserves conservation -/
theorem cons_step (P : Par) (s s' : CS) (a : Act) (ha : a ≠ .tryPop) (hC : Cons s) (h : step P s a = some s') :
    Cons s' := by
  cases a with
  | add x w =>
    simp only [step] at h
    cases hk : P.kind <;> simp only [hk] at h
    case syncq =>
      split at h
      · cases h; exact hC
      · refine cons_wake _ w _ s' h ?_
        intro y
        have := hC y
        rename_i hg
        have e : syncPush P.ssh s.q x = { s.q with req := s.q.req ++ [x] } := by
          unfold syncPush; rw [if_neg hg]
        simp only [e, items, List.count_append] at *
        omega
    all_goals
      refine cons_addLike s s' _ x _ w hC (fun y => ?_) h
      have := addReq_items P.sh s.q x
      exact ⟨fun hok => by rw [this.1 hok], this.2⟩
  | prior x w =>
    simp only [step] at h
    cases hk : P.kind <;> simp only [hk] at h
    case syncq => cases h
    all_goals exact cons_addLike s s' _ x _ w hC (fun y => addPrior_items P.sh s.q x y) h
  | addCtrl x w =>
    simp only [step] at h
    cases hk : P.kind <;> simp only [hk] at h
    case mq => exact cons_addLike s s' _ x _ w hC (fun y => addCtrl_items P.sh s.q x y) h
    all_goals cases h
  | priorCtrl x w =>
    simp only [step] at h
    cases hk : P.kind <;> simp only [hk] at h
    case mq => exact cons_addLike s s' _ x _ w hC (fun y => addPriorCtrl_items P.sh s.q x y) h
    all_goals cases h
  | close w =>
    simp only [step] at h
    split at h
    · cases h; exact hC
    · exact cons_wake _ w _ s' h (fun y => hC y)
  | tryClose w =>
    simp only [step] at h
    cases hk : P.kind <;> simp only [hk] at h
    case mq =>
      split at h
      · cases h; exact hC
      · split at h
        · exact cons_wake _ w _ s' h (fun y => hC y)
        · cases h; exact hC
    all_goals cases h
  | tryClear =>
    simp only [step] at h
    cases hk : P.kind <;> simp only [hk] at h
    case mq =>
      cases h
      intro y
      have : items (tryClear s.q).1 = items s.q := by
        unfold tryClear; split
        · rfl
        · split <;> rfl
      simp only; rw [this]; exact hC y
    all_goals cases h
  | tryPop => exact absurd rfl ha
  | popCall t anyway =>
    simp only [step] at h
    split at h
    · split at h
      · cases h
      · cases h; exact cons_enter _ _ _ _ s hC
    · cases h
  | resume t =>
    simp only [step] at h
    split at h
    · cases h; exact cons_enter _ _ _ _ _ (fun y => hC y)
    · cases h

end Nv.C13

namespace Nv.C13
open Nv.C12

/-! ### on an open queue every returned consumer carries an item -/

def DoneVal (s : CS) : Prop := s.q.closed = false → ∀ d ∈ s.done, ∃ v, d.2 = .val v

theorem takeFront_val (sh : Shape) (s : LQ) (hne : s.size ≠ 0) : ∃ v, (takeFront sh s).2 = .val v := by
  unfold takeFront
  cases sh.ctrlFirst <;> cases hc : s.ctrl <;> cases hr : s.req <;> simp [LQ.size, hc, hr] at hne ⊢

theorem attempt_val (k : Kind) (sh : Shape) (a : Bool) (q : LQ) (r : LQ × Out) (h : attempt k sh a q = some r)
    (ho : q.closed = false) : ∃ v, r.2 = .val v := by
  unfold attempt at h
  cases k <;> simp only at h
  case syncq =>
    unfold syncPopNow at h
    cases hr : q.req with
    | nil => simp [hr, ho] at h
    | cons x rest => simp [hr] at h; subst h; exact ⟨x, rfl⟩
  all_goals
    unfold popNow at h
    cases he : q.isEmpty with
    | true => simp [he, ho] at h
    | false =>
      have hne : q.size ≠ 0 := fun h0 => by rw [(isEmpty_iff q).2 h0] at he; cases he
      simp only [he, Bool.false_eq_true, if_false, ho, Bool.and_false] at h
      simp at h; subst h
      exact takeFront_val sh q hne

theorem doneVal_enter (k : Kind) (sh : Shape) (t : Tid) (a : Bool) (s : CS) (h : DoneVal s) : DoneVal (enter k sh t a s) := by
  unfold enter
  cases hat : attempt k sh a s.q with
  | none => exact h
  | some r =>
    intro hc d hd
    have hcl := (attempt_some k sh a s.q r hat).1
    simp only at hc hd
    rw [hcl] at hc
    rcases List.mem_cons.1 hd with rfl | hd
    · exact attempt_val k sh a s.q r hat hc
    · exact h hc d hd

/-- every step keeps "open ⇒ all returned consumers carry an item" (closed is never reset, `step_closed`) -/
theorem doneVal_step (P : Par) (s s' : CS) (a : Act) (hD : DoneVal s) (h : step P s a = some s') : DoneVal s' := by
  have back : s'.q.closed = false → s.q.closed = false := by
    intro h'
    cases hc : s.q.closed with
    | false => rfl
    | true => rw [step_closed P s s' a h hc] at h'; cases h'
  -- steps that leave `done` alone
  have keep : s'.done = s.done → DoneVal s' := fun hd hc d hm => hD (back hc) d (by rw [← hd]; exact hm)
  cases a with
  | popCall t anyway =>
    simp only [step] at h
    split at h
    · split at h
      · cases h
      · cases h; exact doneVal_enter _ _ _ _ s hD
    · cases h
  | resume t =>
    simp only [step] at h
    split at h
    · cases h; exact doneVal_enter _ _ _ _ _ (fun hc d hd => hD hc d hd)
    · cases h
  | add x w =>
    apply keep
    simp only [step] at h
    cases hk : P.kind <;> simp only [hk] at h
    case syncq =>
      split at h
      · cases h; rfl
      · exact (wake_q _ w _ s' h).2.1
    all_goals
      unfold addLike at h
      split at h
      · exact (wake_q _ w _ s' h).2.1
      · cases h; rfl
  | prior x w =>
    apply keep
    simp only [step] at h
    cases hk : P.kind <;> simp only [hk] at h
    case syncq => cases h
    all_goals
      unfold addLike at h
      split at h
      · exact (wake_q _ w _ s' h).2.1
      · cases h; rfl
  | addCtrl x w =>
    apply keep
    simp only [step] at h
    cases hk : P.kind <;> simp only [hk] at h
    case mq =>
      unfold addLike at h
      split at h
      · exact (wake_q _ w _ s' h).2.1
      · cases h; rfl
    all_goals cases h
  | priorCtrl x w =>
    apply keep
    simp only [step] at h
    cases hk : P.kind <;> simp only [hk] at h
    case mq =>
      unfold addLike at h
      split at h
      · exact (wake_q _ w _ s' h).2.1
      · cases h; rfl
    all_goals cases h
  | close w =>
    apply keep
    simp only [step] at h
    split at h
    · cases h; rfl
    · exact (wake_q _ w _ s' h).2.1
  | tryClose w =>
    apply keep
    simp only [step] at h
    cases hk : P.kind <;> simp only [hk] at h
    case mq =>
      split at h
      · cases h; rfl
      · split at h
        · exact (wake_q _ w _ s' h).2.1
        · cases h; rfl
    all_goals cases h
  | tryClear =>
    apply keep
    simp only [step] at h
    cases hk : P.kind <;> simp only [hk] at h
    case mq => cases h; rfl
    all_goals cases h
  | tryPop =>
    apply keep
    simp only [step] at h
    cases hk : P.kind <;> simp only [hk] at h
    case syncq => cases h; rfl
    all_goals cases h

theorem vals_length_of_all_val : ∀ (l : List (Tid × Out)), (∀ d ∈ l, ∃ v, d.2 = .val v) → (vals l).length = l.length
  | [], _ => rfl
  | (t, o) :: r, h => by
    obtain ⟨v, hv⟩ := h (t, o) List.mem_cons_self
    simp only at hv; subst hv
    simp [vals, vals_length_of_all_val r (fun d hd => h d (List.mem_cons_of_mem _ hd))]

end Nv.C13
