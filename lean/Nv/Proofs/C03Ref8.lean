import Nv.Proofs.C03Ref7
/-! C03 — refinement B → A, part 8: `insertB` computes what `insertH` computes. -/
namespace Nv.C03.Cow
open Nv.C03

/-- `insertH` on an inner node, without the `match` -/
theorem insertH_inner (mx : Nat) (x : Item) (f : Nat) (is : List Item) (cs : List Node) (hne : cs ≠ []) :
    insertH mx x (f + 1) (.mk is cs) =
      if (findIdx is x.key).2 then (.mk (setAt is (findIdx is x.key).1 x) cs, is[(findIdx is x.key).1]?)
      else if (cs.getD (findIdx is x.key).1 default).items.length < mx then
        (.mk is (setAt cs (findIdx is x.key).1 (insertH mx x f (cs.getD (findIdx is x.key).1 default)).1),
         (insertH mx x f (cs.getD (findIdx is x.key).1 default)).2)
      else if x.key < ((cs.getD (findIdx is x.key).1 default).split (mx / 2)).2.1.key then
        (.mk (insertAt is (findIdx is x.key).1 ((cs.getD (findIdx is x.key).1 default).split (mx / 2)).2.1)
          (cs.take (findIdx is x.key).1 ++
            (insertH mx x f ((cs.getD (findIdx is x.key).1 default).split (mx / 2)).1).1 ::
            ((cs.getD (findIdx is x.key).1 default).split (mx / 2)).2.2 :: cs.drop ((findIdx is x.key).1 + 1)),
         (insertH mx x f ((cs.getD (findIdx is x.key).1 default).split (mx / 2)).1).2)
      else if ((cs.getD (findIdx is x.key).1 default).split (mx / 2)).2.1.key < x.key then
        (.mk (insertAt is (findIdx is x.key).1 ((cs.getD (findIdx is x.key).1 default).split (mx / 2)).2.1)
          (cs.take (findIdx is x.key).1 ++ ((cs.getD (findIdx is x.key).1 default).split (mx / 2)).1 ::
            (insertH mx x f ((cs.getD (findIdx is x.key).1 default).split (mx / 2)).2.2).1 ::
            cs.drop ((findIdx is x.key).1 + 1)),
         (insertH mx x f ((cs.getD (findIdx is x.key).1 default).split (mx / 2)).2.2).2)
      else
        (.mk (setAt (insertAt is (findIdx is x.key).1 ((cs.getD (findIdx is x.key).1 default).split (mx / 2)).2.1)
            (findIdx is x.key).1 x)
          (cs.take (findIdx is x.key).1 ++ ((cs.getD (findIdx is x.key).1 default).split (mx / 2)).1 ::
            ((cs.getD (findIdx is x.key).1 default).split (mx / 2)).2.2 :: cs.drop ((findIdx is x.key).1 + 1)),
         some ((cs.getD (findIdx is x.key).1 default).split (mx / 2)).2.1) := by
  cases cs with
  | nil => exact absurd rfl hne
  | cons c0 rest => simp only [insertH]

/-- `insertB` on an inner cell, as a chain of store steps -/
theorem insertB_inner (cow mx : Nat) (x : Item) (f n : Nat) (H : Heap) (hne : (H.get n).children ≠ []) :
    (Cow.insertB cow mx x (f + 1) n) H =
      if (findIdx (H.get n).items x.key).2 then (Cow.insertHere n (H.get n) x) H
      else if (H.get ((H.get n).children.getD (findIdx (H.get n).items x.key).1 n)).items.length < mx then
        (Cow.insertB cow mx x f ((Cow.mutableChild cow n (findIdx (H.get n).items x.key).1) H).1)
          ((Cow.mutableChild cow n (findIdx (H.get n).items x.key).1) H).2
      else
        let i := (findIdx (H.get n).items x.key).1
        let r1 := (Cow.mutableChild cow n i) H
        let r2 := (Cow.splitB cow r1.1 (mx / 2)) r1.2
        let H3 := ((Cow.wr n (insertAt (r2.2.get n).items i r2.1.1) (insertAt (r2.2.get n).children (i + 1) r2.1.2)) r2.2).2
        if x.key < r2.1.1.key then
          (Cow.insertB cow mx x f ((Cow.mutableChild cow n i) H3).1) ((Cow.mutableChild cow n i) H3).2
        else if r2.1.1.key < x.key then
          (Cow.insertB cow mx x f ((Cow.mutableChild cow n (i + 1)) H3).1) ((Cow.mutableChild cow n (i + 1)) H3).2
        else (some r2.1.1, ((Cow.wr n (setAt (H3.get n).items i x) (H3.get n).children) H3).2) := by
  have hemp : (H.get n).children.isEmpty = false := by
    cases hc : (H.get n).children with
    | nil => exact absurd hc hne
    | cons _ _ => rfl
  rw [Cow.insertB]
  rw [run_bind, run_rd]
  simp only [hemp, Bool.or_false]
  rw [run_ite]
  split
  · rfl
  · rw [run_bind, run_rd]
    simp only []
    rw [run_ite]
    split
    · rfl
    · simp only [run_bind, run_rd, run_ite]
      split
      · rfl
      · split
        · rfl
        · rfl

end Nv.C03.Cow

namespace Nv.C03.Cow
open Nv.C03

theorem children_of_abs {H : Heap} {f n : Nat} {is : List Item} {cs : List Node}
    (h : absNode H (f + 1) n = .mk is cs) : (H.get n).items = is ∧ (H.get n).children.map (absNode H f) = cs := by
  rw [abs_succ] at h
  injection h with h1 h2
  exact ⟨h1, h2⟩

theorem insertB_refines (mn cow : Nat) (hmn : 1 ≤ mn) (x : Item) : ∀ (fuel n : Nat) (H : Heap),
    Sub mn cow H fuel n → (H.get n).items.length < 2 * mn + 1 →
    InsOut mn cow x H fuel n ((Cow.insertB cow (2 * mn + 1) x fuel n) H) := by
  intro fuel
  induction fuel with
  | zero => intro n H h _; exact insertB_leaf mn cow x n H h
  | succ f ih =>
    intro n H h hroom
    have hin := h.inner
    have hlen := hin.len
    have hne : (H.get n).children ≠ [] := by intro e; rw [e] at hlen; simp at hlen
    have hcsne : (H.get n).children.map (absNode H f) ≠ [] := by simpa using hne
    have hA := insertH_inner (2 * mn + 1) x f (H.get n).items ((H.get n).children.map (absNode H f)) hcsne
    have hdiv : (2 * mn + 1) / 2 = mn := by omega
    rw [hdiv] at hA
    have hi : (findIdx (H.get n).items x.key).1 < (H.get n).children.length := by
      have := findIdx_le (H.get n).items x.key; omega
    have hgd := getD_map (absNode H f) (H.get n).children (findIdx (H.get n).items x.key).1 n hi
    rw [hgd] at hA
    rw [insertB_inner cow (2 * mn + 1) x f n H hne, hdiv]
    by_cases hf : (findIdx (H.get n).items x.key).2 = true
    · -- the key is in this node
      rw [if_pos hf, insertHere_eq, if_pos hf]
      rw [if_pos hf] at hA
      obtain ⟨w1, w2, w3, w4⟩ := wr_get H n (setAt (H.get n).items (findIdx (H.get n).items x.key).1 x) (H.get n).children h.lt
      have hwf := wr_wfree H n (setAt (H.get n).items (findIdx (H.get n).items x.key).1 x) (H.get n).children h.lt h.wf h.notFree
      generalize ((Cow.wr n (setAt (H.get n).items (findIdx (H.get n).items x.key).1 x) (H.get n).children) H).2 = H' at w1 w2 w3 w4 hwf
      have hfr : Frame H H' (fun y => y = n) := fun y hy _ => w2 y hy
      refine ⟨?_, ?_, by simp only [Heap.tag]; rw [w1]; exact h.own, hwf, by rw [w3]; exact Nat.le_refl _,
        hfr.mono (fun y e => e ▸ InSub.self H (f + 1) n), ?_⟩
      rotate_left 2
      · intro y hy
        rcases hy with rfl | ⟨c, hc, hy⟩
        · exact Or.inl (Or.inl rfl)
        · rw [w1] at hc
          exact Or.inl (Or.inr ⟨c, hc, (hin.child_frame hmn hfr hc).2 y hy⟩)
      · rw [abs_succ H f n, hA, abs_succ, w1]
        simp only
        congr 1
        exact List.map_congr_left (fun c hc => (hin.child_frame hmn hfr hc).1)
      · rw [abs_succ H f n, hA]
    · rw [if_neg hf]
      rw [if_neg hf] at hA
      generalize hidx : (findIdx (H.get n).items x.key).1 = i at *
      have hcm : (H.get n).children.getD i n ∈ (H.get n).children := getD_mem _ i n hi
      by_cases hchild : (H.get ((H.get n).children.getD i n)).items.length < 2 * mn + 1
      · -- the child has room: descend
        rw [if_pos hchild]
        rw [abs_items, if_pos hchild] at hA
        obtain ⟨d1, d0, d2, d3, d4, d5, d6, _⟩ := descend_abs mn cow hmn H f n i hin hi
          (fun ch => Cow.insertB cow (2 * mn + 1) x f ch)
          (insertH (2 * mn + 1) x f (absNode H f ((H.get n).children.getD i n))).1
          (insertH (2 * mn + 1) x f (absNode H f ((H.get n).children.getD i n))).2
          (by
            intro ch H1 hsub habs
            have hl : (H1.get ch).items.length < 2 * mn + 1 := by
              rw [← abs_items H1 f ch, habs, abs_items]; exact hchild
            have o := ih ch H1 hsub hl
            exact ⟨by rw [← habs]; exact o.abs, by rw [← habs]; exact o.ret, o.own, o.wf, o.size, o.frame, o.subs⟩)
        refine ⟨?_, ?_, by simp only [Heap.tag]; rw [d2], d3, d4, d5, d6⟩
        · rw [abs_succ H f n, hA]; exact d1
        · rw [abs_succ H f n, hA]; exact d0
      · -- the child is full: split it first
        rw [if_neg hchild]
        rw [abs_items, if_neg hchild] at hA
        have hfull : (H.get ((H.get n).children.getD i n)).items.length = 2 * mn + 1 := by
          have := ((nodeOk_iff _ _ _ _).1 (hin.childOk hcm)).2.1
          rw [abs_items] at this; omega
        obtain ⟨first, next, P⟩ := splitChild_abs mn cow hmn H f n i hin hi hroom hfull
        have hitem := P.item
        unfold splitChildItem at hitem
        have hrun : splitChildRun cow mn n i H =
            ((Cow.wr n (insertAt (((Cow.splitB cow ((Cow.mutableChild cow n i) H).1 mn) ((Cow.mutableChild cow n i) H).2).2.get n).items i
                ((Cow.splitB cow ((Cow.mutableChild cow n i) H).1 mn) ((Cow.mutableChild cow n i) H).2).1.1)
              (insertAt (((Cow.splitB cow ((Cow.mutableChild cow n i) H).1 mn) ((Cow.mutableChild cow n i) H).2).2.get n).children (i + 1)
                ((Cow.splitB cow ((Cow.mutableChild cow n i) H).1 mn) ((Cow.mutableChild cow n i) H).2).1.2))
              ((Cow.splitB cow ((Cow.mutableChild cow n i) H).1 mn) ((Cow.mutableChild cow n i) H).2).2).2 := rfl
        simp only []
        rw [← hrun, hitem]
        generalize splitChildRun cow mn n i H = H3 at P
        -- abbreviations for the layer-A split
        generalize hsp : (absNode H f ((H.get n).children.getD i n)).split mn = sp at *
        obtain ⟨c1, m, c2⟩ := sp
        simp only at hA P ⊢
        have hcell := P.cell
        have habs3 := P.abs
        simp only [hsp] at hcell habs3
        have hI3 := P.inner
        have hkids3 := (children_of_abs habs3).2
        have hilen : i ≤ ((H.get n).children.map (absNode H f)).length := by simp; omega
        have hic : i ≤ (H.get n).children.length := by omega
        have hlen3 : (H3.get n).children.length = (H.get n).children.length + 1 := by
          rw [hcell]; simp; omega
        obtain ⟨hin_c, hl1, hl2, hk1, hk2, _⟩ := split_spec mn f (absNode H f ((H.get n).children.getD i n))
          ((nodeOk_iff _ _ _ _).1 (hin.childOk hcm)).2.2 (by rw [abs_items]; exact hfull)
        rw [hsp] at hl1 hl2
        simp only at hl1 hl2
        have hcomp : ∀ (H5 : Heap), (∀ y, InSub H5 (f + 1) n y → InSub H3 (f + 1) n y ∨ H3.get y = HNode.empty) →
            ∀ y, InSub H5 (f + 1) n y → InSub H (f + 1) n y ∨ H.get y = HNode.empty := by
          intro H5 h5 y hy
          rcases h5 y hy with e | e
          · exact P.subs y e
          · exact frame_empty P.frame y e
        by_cases hxm : x.key < m.key
        · rw [if_pos hxm]
          rw [if_pos hxm] at hA
          have hg3 : (H3.get n).children.getD i n = first := by
            rw [hcell]; exact getD_pre _ _ _ _ _ (length_take_le _ i hic)
          have hab3 : absNode H3 f first = c1 := by
            have := getD_map (absNode H3 f) (H3.get n).children i n (by omega)
            rw [hkids3, hg3, getD_pre _ _ _ _ _ (length_take_le _ i hilen)] at this
            exact this.symm
          obtain ⟨d1, d0, d2, d3, d4, d5, d6, _⟩ := descend_abs mn cow hmn H3 f n i hI3 (by omega)
            (fun ch => Cow.insertB cow (2 * mn + 1) x f ch) (insertH (2 * mn + 1) x f c1).1 (insertH (2 * mn + 1) x f c1).2
            (by
              intro ch H1 hsub habs
              rw [hg3, hab3] at habs
              have hl : (H1.get ch).items.length < 2 * mn + 1 := by
                rw [← abs_items H1 f ch, habs]; omega
              have o := ih ch H1 hsub hl
              exact ⟨by rw [← habs]; exact o.abs, by rw [← habs]; exact o.ret, o.own, o.wf, o.size, o.frame, o.subs⟩)
          refine ⟨?_, ?_, by simp only [Heap.tag]; rw [d2], d3, Nat.le_trans P.size d4,
            Frame.trans P.frame d5 P.subs, hcomp _ d6⟩
          · rw [abs_succ H f n, hA, d1, hkids3, hcell, setAt_splice2 _ _ _ _ _ hilen]
          · rw [abs_succ H f n, hA]; exact d0
        · rw [if_neg hxm]
          rw [if_neg hxm] at hA
          by_cases hmx : m.key < x.key
          · rw [if_pos hmx]
            rw [if_pos hmx] at hA
            have hg3 : (H3.get n).children.getD (i + 1) n = next := by
              rw [hcell]; exact getD_pre1 _ _ _ _ _ _ (length_take_le _ i hic)
            have hab3 : absNode H3 f next = c2 := by
              have := getD_map (absNode H3 f) (H3.get n).children (i + 1) n (by omega)
              rw [hkids3, hg3, getD_pre1 _ _ _ _ _ _ (length_take_le _ i hilen)] at this
              exact this.symm
            obtain ⟨d1, d0, d2, d3, d4, d5, d6, _⟩ := descend_abs mn cow hmn H3 f n (i + 1) hI3 (by omega)
              (fun ch => Cow.insertB cow (2 * mn + 1) x f ch) (insertH (2 * mn + 1) x f c2).1 (insertH (2 * mn + 1) x f c2).2
              (by
                intro ch H1 hsub habs
                rw [hg3, hab3] at habs
                have hl : (H1.get ch).items.length < 2 * mn + 1 := by
                  rw [← abs_items H1 f ch, habs]; omega
                have o := ih ch H1 hsub hl
                exact ⟨by rw [← habs]; exact o.abs, by rw [← habs]; exact o.ret, o.own, o.wf, o.size, o.frame, o.subs⟩)
            refine ⟨?_, ?_, by simp only [Heap.tag]; rw [d2], d3, Nat.le_trans P.size d4,
              Frame.trans P.frame d5 P.subs, hcomp _ d6⟩
            · rw [abs_succ H f n, hA, d1, hkids3, hcell, setAt_splice2' _ _ _ _ _ hilen]
            · rw [abs_succ H f n, hA]; exact d0
          · -- the separator itself has the key: replace it
            rw [if_neg hmx]
            rw [if_neg hmx] at hA
            have hlt3 : n < H3.size := tag_some_lt H3 n cow hI3.own
            obtain ⟨w1, w2, w3, w4⟩ := wr_get H3 n (setAt (H3.get n).items i x) (H3.get n).children hlt3
            have hwf := wr_wfree H3 n (setAt (H3.get n).items i x) (H3.get n).children hlt3 hI3.wf hI3.notFree
            generalize ((Cow.wr n (setAt (H3.get n).items i x) (H3.get n).children) H3).2 = H4 at w1 w2 w3 w4 hwf
            have hfr : Frame H3 H4 (fun y => y = n) := fun y hy _ => w2 y hy
            refine ⟨?_, ?_, by simp only [Heap.tag]; rw [w1]; exact hI3.own, hwf, by rw [w3]; exact P.size,
              Frame.trans P.frame (hfr.mono (fun y e => e ▸ InSub.self H3 (f + 1) n)) P.subs, hcomp H4 ?_⟩
            rotate_left 2
            · intro y hy
              rcases hy with rfl | ⟨c, hc, hy⟩
              · exact Or.inl (Or.inl rfl)
              · rw [w1] at hc
                exact Or.inl (Or.inr ⟨c, hc, (hI3.child_frame hmn hfr hc).2 y hy⟩)
            · rw [abs_succ H f n, hA, abs_succ, w1]
              simp only
              rw [hcell]
              congr 1
              rw [← hkids3, hcell]
              exact List.map_congr_left (fun c hc => (hI3.child_frame hmn hfr (by rw [hcell]; exact hc)).1)
            · rw [abs_succ H f n, hA]

end Nv.C03.Cow
