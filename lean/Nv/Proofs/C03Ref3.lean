import Nv.Proofs.C03Ref2
/-! C03 — refinement B → A, part 3: what the store primitives do to individual cells, and the frame notion used to
compose operations on subtrees. -/
namespace Nv.C03.Cow
open Nv.C03

/-- the free list is duplicate-free and holds existing, cleared cells -/
def WFree (H : Heap) : Prop := H.free.Nodup ∧ ∀ id ∈ H.free, id < H.size ∧ H.get id = HNode.empty

/-- `H'` differs from `H` only at cells of `W` and at cells that held no item in `H` (fresh or parked cells) -/
def Frame (H H' : Heap) (W : Nat → Prop) : Prop := ∀ x, ¬ W x → H.get x ≠ HNode.empty → H'.get x = H.get x

theorem ne_empty {H : Heap} {x : Nat} (h : (H.get x).items ≠ []) : H.get x ≠ HNode.empty := fun e => h (by rw [e]; rfl)

theorem Frame.refl (H : Heap) (W : Nat → Prop) : Frame H H W := fun _ _ _ => rfl

theorem Frame.mono {H H' : Heap} {W W' : Nat → Prop} (h : Frame H H' W) (hw : ∀ x, W x → W' x) : Frame H H' W' :=
  fun x hx hne => h x (fun hwx => hx (hw x hwx)) hne

theorem frame_empty {H H' : Heap} {W : Nat → Prop} (hf : Frame H H' W) (y : Nat) (he : H'.get y = HNode.empty) :
    W y ∨ H.get y = HNode.empty := by
  by_cases hw : W y
  · exact Or.inl hw
  · by_cases hne : H.get y = HNode.empty
    · exact Or.inr hne
    · have := hf y hw hne; rw [this] at he; exact absurd he hne

/-- composing two steps: the second step's exempt cells must be exempt cells or item-less cells of the first store -/
theorem Frame.trans {H H1 H2 : Heap} {W W1 : Nat → Prop} (h1 : Frame H H1 W) (h2 : Frame H1 H2 W1)
    (hw : ∀ x, W1 x → W x ∨ H.get x = HNode.empty) : Frame H H2 W := by
  intro x hx hne
  have e1 := h1 x hx hne
  have : ¬ W1 x := fun hw1 => by
    rcases hw x hw1 with h | h
    · exact hx h
    · exact hne h
  rw [h2 x this (by rw [e1]; exact hne), e1]

/-- a subtree all of whose nodes hold items, and none of whose cells is exempt, denotes the same node afterwards -/
theorem abs_frame (mn mx : Nat) (hmn : 1 ≤ mn) {H H' : Heap} {W : Nat → Prop} (hf : Frame H H' W) (fuel c : Nat)
    (hok : nodeOk mn mx fuel (absNode H fuel c) = true) (hw : ∀ x, InSub H fuel c x → ¬ W x) :
    absNode H' fuel c = absNode H fuel c ∧ ∀ y, InSub H' fuel c y → InSub H fuel c y := by
  have hcok := (nodeOk_iff _ _ _ _).1 hok
  have hall : ∀ x, InSub H fuel c x → H'.get x = H.get x := by
    intro x hx
    apply hf x (hw x hx)
    apply ne_empty
    by_cases hxc : x = c
    · subst hxc; intro e; have := hcok.1; rw [abs_items, e] at this; simp at this; omega
    · intro e; have := (sub_items mn mx H fuel c x hcok.2.2 hx hxc).1; rw [e] at this; simp at this; omega
  exact ⟨abs_agree H H' fuel c hall, inSub_agree H H' fuel c hall⟩

/-! ### primitives, cell by cell -/

theorem wr_get (H : Heap) (id : Nat) (is : List Item) (cs : List Nat) (h : id < H.size) :
    ((Cow.wr id is cs) H).2.get id = ⟨is, cs, (H.get id).cow⟩ ∧
    (∀ j, j ≠ id → ((Cow.wr id is cs) H).2.get j = H.get j) ∧
    ((Cow.wr id is cs) H).2.size = H.size ∧ ((Cow.wr id is cs) H).2.free = H.free := by
  refine ⟨?_, ?_, by simp [Cow.wr, Heap.size], rfl⟩
  · rw [get_wr]; simp [h]
  · intro j hj; rw [get_wr]; simp [hj]

theorem wr_wfree (H : Heap) (id : Nat) (is : List Item) (cs : List Nat) (h : id < H.size) (hw : WFree H)
    (hnf : id ∉ H.free) : WFree ((Cow.wr id is cs) H).2 := by
  obtain ⟨_, h2, h3, h4⟩ := wr_get H id is cs h
  refine ⟨by rw [h4]; exact hw.1, ?_⟩
  intro j hj
  rw [h4] at hj
  have hne : j ≠ id := fun e => hnf (e ▸ hj)
  rw [h3, h2 j hne]; exact hw.2 j hj

/-- `newNode`: the cell handed out held nothing before; every other cell is untouched -/
theorem newNode_spec (cow : Nat) (H : Heap) (hw : WFree H) :
    let r := (Cow.newNode cow) H
    r.2.get r.1 = ⟨[], [], some cow⟩ ∧ H.get r.1 = HNode.empty ∧ (∀ j, j ≠ r.1 → r.2.get j = H.get j) ∧
    H.size ≤ r.2.size ∧ r.1 < r.2.size ∧ WFree r.2 ∧ r.1 ∉ r.2.free := by
  unfold Cow.newNode
  cases hf : H.free with
  | nil =>
    simp only
    have hlen : H.nodes.length = H.size := rfl
    refine ⟨?_, get_ge _ _ (Nat.le_refl _), ?_, by simp [Heap.size], by simp [Heap.size], ?_, by simp⟩
    · simp [Heap.get, List.getD]
    · intro j hj
      by_cases hjl : j < H.nodes.length
      · simp [Heap.get, List.getD, List.getElem?_append_left hjl]
      · have h1 : (H.nodes ++ [(⟨[], [], some cow⟩ : HNode)]).length ≤ j := by simp; omega
        show (H.nodes ++ [(⟨[], [], some cow⟩ : HNode)]).getD j HNode.empty = H.nodes.getD j HNode.empty
        rw [get_ge _ _ h1, get_ge _ _ (by omega)]
    · refine ⟨by simp, fun j hj => by simp at hj⟩
  | cons id rest =>
    simp only
    have hid := hw.2 id (by rw [hf]; simp)
    have hnd : (id :: rest).Nodup := hf ▸ hw.1
    have hnr : id ∉ rest := (List.nodup_cons.1 hnd).1
    refine ⟨get_set_self _ _ _ hid.1, hid.2, fun j hj => get_set_ne _ _ _ _ hj, by simp [Heap.size],
      by simpa [Heap.size] using hid.1, ⟨(List.nodup_cons.1 hnd).2, ?_⟩, hnr⟩
    intro j hj
    have hjf := hw.2 j (by rw [hf]; simp [hj])
    have hne : j ≠ id := fun e => hnr (e ▸ hj)
    refine ⟨by simpa [Heap.size] using hjf.1, ?_⟩
    show (H.nodes.set id _).getD j HNode.empty = HNode.empty
    rw [get_set_ne _ _ _ _ hne]; exact hjf.2

/-! ### running store programs -/

theorem run_bind {α β : Type} (m : M α) (f : α → M β) (H : Heap) : (m >>= f) H = f (m H).1 (m H).2 := rfl
theorem run_pure {α : Type} (a : α) (H : Heap) : (pure a : M α) H = (a, H) := rfl
theorem run_rd (id : Nat) (H : Heap) : (Cow.rd id) H = (H.get id, H) := rfl
theorem run_ite {α : Type} (p : Prop) [Decidable p] (m1 m2 : M α) (H : Heap) :
    (if p then m1 else m2) H = if p then m1 H else m2 H := by split <;> rfl

theorem mutableFor_eq (cow c : Nat) (H : Heap) :
    (Cow.mutableFor cow c) H = if (H.get c).cow = some cow then (c, H)
      else ((Cow.newNode cow H).1,
        ((Cow.wr (Cow.newNode cow H).1 (H.get c).items (H.get c).children) (Cow.newNode cow H).2).2) := by
  unfold Cow.mutableFor
  rw [run_bind, run_rd]
  simp only []
  rw [run_ite]
  split
  · rfl
  · rfl

/-- `mutableFor`: an owned cell is returned as it is; otherwise an item-less cell receives a copy -/
theorem mutableFor_spec (cow : Nat) (c : Nat) (H : Heap) (hw : WFree H) :
    let r := (Cow.mutableFor cow c) H
    r.2.tag r.1 = some cow ∧ (r.2.get r.1).items = (H.get c).items ∧ (r.2.get r.1).children = (H.get c).children ∧
    (∀ j, j ≠ r.1 → r.2.get j = H.get j) ∧ (r.1 = c ∨ H.get r.1 = HNode.empty) ∧
    H.size ≤ r.2.size ∧ WFree r.2 ∧ r.1 ∉ r.2.free ∧ (H.tag c = some cow → r.1 = c ∧ r.2 = H) ∧
    Frame H r.2 (fun _ => False) := by
  rw [mutableFor_eq]
  by_cases ho : (H.get c).cow = some cow
  · rw [if_pos ho]
    have hnf : c ∉ H.free := by
      intro hm; have := (hw.2 c hm).2; rw [this] at ho; simp [HNode.empty] at ho
    exact ⟨ho, rfl, rfl, fun _ _ => rfl, Or.inl rfl, Nat.le_refl _, hw, hnf, fun _ => ⟨rfl, rfl⟩, Frame.refl _ _⟩
  · rw [if_neg ho]
    obtain ⟨n1, n2, n3, n4, n5, n6, n7⟩ := newNode_spec cow H hw
    generalize (Cow.newNode cow) H = r at n1 n2 n3 n4 n5 n6 n7
    obtain ⟨out, H1⟩ := r
    simp only at n1 n2 n3 n4 n5 n6 n7 ⊢
    obtain ⟨w1, w2, w3, w4⟩ := wr_get H1 out (H.get c).items (H.get c).children n5
    refine ⟨by simp [Heap.tag, w1, n1], by rw [w1], by rw [w1], ?_, Or.inr n2, by rw [w3]; exact n4,
      wr_wfree H1 out _ _ n5 n6 n7, by rw [w4]; exact n7, fun h => absurd h ho, ?_⟩
    · intro j hj; rw [w2 j hj, n3 j hj]
    · intro j _ hne
      have hj : j ≠ out := fun e => hne (by rw [e, n2])
      rw [w2 j hj, n3 j hj]

end Nv.C03.Cow
