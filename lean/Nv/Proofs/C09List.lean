import Nv.Proofs.C09Order
import Nv.Proofs.C08Chain
/-! C09 — the list forms (`BigU32s.getNAsI64`, `U32BitTips.GetNAsU32/RGetNAsU32`): the block loop with its
`iterN/pos/left` bookkeeping writes the concatenation of the per-block iterations, truncated to `n`. Core only. -/
namespace Nv.C09
open Nv.C08

/-- invariant of the block loop for any per-block iterator `it` that meets the single-block specification with full
    output `full b` (position `pos` is always `iterN`, `left` is always `n - iterN`) -/
theorem listChain_spec {w : Nat} (it : Block → List (BitVec w) → Int → Int → Option (List (BitVec w) × Nat))
    (full : Block → List (BitVec w))
    (hit : ∀ (b : Block) (s : List (BitVec w)) (pos left : Int), 0 ≤ pos →
      pos.toNat + ((full b).take left.toNat).length ≤ s.length →
      it b s pos left = some (writeAt s pos.toNat ((full b).take left.toNat), ((full b).take left.toNat).length))
    (n : Int) :
    ∀ (bs : List Block) (s : List (BitVec w)) (iterN : Nat),
      iterN + ((bs.flatMap full).take (n.toNat - iterN)).length ≤ s.length →
      listChain it n bs s iterN =
        some (writeAt s iterN ((bs.flatMap full).take (n.toNat - iterN)),
              iterN + ((bs.flatMap full).take (n.toNat - iterN)).length) := by
  intro bs
  induction bs with
  | nil =>
    intro s iterN hroom
    simp [listChain, writeAt]
  | cons b rest ih =>
    intro s iterN hroom
    unfold listChain
    by_cases hstop : (iterN : Int) ≥ n
    · have : n.toNat - iterN = 0 := by omega
      simp [hstop, this, writeAt]
    · simp only [hstop, if_false]
      have hm : (n - (iterN : Int)).toNat = n.toNat - iterN := by omega
      simp only [List.flatMap_cons, List.take_append] at hroom ⊢
      simp only [List.length_append] at hroom
      generalize hB : full b = B at hroom ⊢
      generalize hm' : n.toNat - iterN = m at hroom hm ⊢
      have hcall := hit b s (iterN : Int) (n - iterN) (by omega) (by rw [hm, hB]; simp only [Int.toNat_natCast]; omega)
      rw [hm, hB, Int.toNat_natCast] at hcall
      rw [hcall]
      simp only
      have hlen : (B.take m).length = min m B.length := by simp
      have hrest : n.toNat - (iterN + (B.take m).length) = m - B.length := by omega
      have hroom2 : (iterN + (B.take m).length) +
          ((rest.flatMap full).take (n.toNat - (iterN + (B.take m).length))).length ≤ (writeAt s iterN (B.take m)).length := by
        rw [hrest]
        have : (writeAt s iterN (B.take m)).length = s.length := by
          unfold writeAt; simp; omega
        rw [this]; omega
      rw [ih _ _ hroom2, hrest, writeAt_append _ _ _ _ (by omega)]
      simp only [List.length_append]
      congr 2
      omega

/-- the list forms' result from the loop invariant: `nil` for an empty list, a panic for a negative count on a non-empty
    list (`make`), otherwise the first `n` values of the concatenation (possibly empty, non-nil) -/
theorem listGetN_spec {w : Nat} (it : Block → List (BitVec w) → Int → Int → Option (List (BitVec w) × Nat))
    (full : Block → List (BitVec w))
    (hit : ∀ (b : Block) (s : List (BitVec w)) (pos left : Int), 0 ≤ pos →
      pos.toNat + ((full b).take left.toNat).length ≤ s.length →
      it b s pos left = some (writeAt s pos.toNat ((full b).take left.toNat), ((full b).take left.toNat).length))
    (n : Int) (bs : List Block) :
    listGetN it n bs =
      if bs = [] then .nil else if n < 0 then .panic else .slice ((bs.flatMap full).take n.toNat) := by
  unfold listGetN
  cases bs with
  | nil => simp
  | cons b rest =>
    simp only [List.isEmpty_cons, Bool.false_eq_true, if_false, reduceCtorEq]
    by_cases hn : n < 0
    · simp [hn]
    · simp only [hn, if_false]
      have hroom : 0 + (((b :: rest).flatMap full).take (n.toNat - 0)).length ≤ (List.replicate n.toNat (0 : BitVec w)).length := by
        simp; omega
      rw [listChain_spec it full hit n (b :: rest) _ 0 hroom]
      simp [writeAt]

/-- everything one block contributes, in the direction's order: `ofNat m + base` for its members -/
def blockAll {w : Nat} (rev : Bool) (bits : Bit1024) (add : BitVec w) : List (BitVec w) :=
  (if rev then (members1024 bits).reverse else members1024 bits).map (fun i => BitVec.ofNat w i + add)

theorem expected_eq_take_blockAll {w : Nat} (rev : Bool) (bits : Bit1024) (add : BitVec w) (n : Int) :
    expected rev (members1024 bits) add n = (blockAll rev bits add).take n.toNat := by
  unfold expected blockAll
  rw [List.map_take]

end Nv.C09
