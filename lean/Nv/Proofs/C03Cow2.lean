import Nv.Proofs.C03Cow
/-! C03, layer B — every write operation keeps the frame invariant. -/
namespace Nv.C03.Cow
open Nv.C03

variable {H0 : Heap} {cow : Nat}

/-- reading a cell: if what was read is owned by `cow`, the cell is writable -/
theorem Pres.rd_bind {β : Type} (id : Nat) (f : HNode → M β) (R : β → Prop)
    (hf : ∀ n : HNode, (n.cow = some cow → Writable H0 cow id) → Pres H0 cow (f n) R) :
    Pres H0 cow (Cow.rd id >>= f) R :=
  fun H hi => hf (H.get id) (fun h => hi.tagW id h) H hi

theorem Pres.mutableFor (id : Nat) : Pres H0 cow (mutableFor cow id) (Writable H0 cow) := by
  unfold Cow.mutableFor
  apply Pres.rd_bind; intro n hn
  apply Pres.ite
  · intro h; exact Pres.pure _ (hn h)
  · intro _
    apply Pres.bind Pres.newNode; intro out hout
    apply Pres.bind (Pres.wr out _ _ hout); intro _ _
    exact Pres.pure _ hout

theorem Pres.mutableChild (n i : Nat) (hn : Writable H0 cow n) :
    Pres H0 cow (mutableChild cow n i) (Writable H0 cow) := by
  unfold Cow.mutableChild
  apply Pres.rd_bind; intro nd _
  apply Pres.bind (Pres.mutableFor _); intro c hc
  apply Pres.bind (Pres.wr n _ _ hn); intro _ _
  exact Pres.pure _ hc

theorem Pres.splitB (n i : Nat) (hn : Writable H0 cow n) :
    Pres H0 cow (splitB cow n i) (fun s => Writable H0 cow s.2) := by
  unfold Cow.splitB
  apply Pres.rd_bind; intro nd _
  apply Pres.bind Pres.newNode; intro next hnext
  apply Pres.bind (Pres.wr next _ _ hnext); intro _ _
  apply Pres.bind (Pres.wr n _ _ hn); intro _ _
  exact Pres.pure _ hnext

theorem Pres.insertHere (n : Nat) (nd : HNode) (x : Item) (hn : Writable H0 cow n) :
    Pres H0 cow (insertHere n nd x) (fun _ => True) := by
  unfold Cow.insertHere
  apply Pres.ite
  · intro _
    apply Pres.bind (Pres.wr n _ _ hn); intro _ _
    exact Pres.pure _ trivial
  · intro _
    apply Pres.bind (Pres.wr n _ _ hn); intro _ _
    exact Pres.pure _ trivial

theorem Pres.insertB (mx : Nat) (x : Item) : ∀ (fuel n : Nat), Writable H0 cow n →
    Pres H0 cow (insertB cow mx x fuel n) (fun _ => True) := by
  intro fuel
  induction fuel with
  | zero =>
    intro n hn
    unfold Cow.insertB
    apply Pres.rd_bind; intro nd _
    apply Pres.ite
    · intro _; exact Pres.insertHere _ _ _ hn
    · intro _; exact Pres.pure _ trivial
  | succ fuel ih =>
    intro n hn
    unfold Cow.insertB
    apply Pres.rd_bind; intro nd _
    apply Pres.ite
    · intro _; exact Pres.insertHere _ _ _ hn
    · intro _
      apply Pres.rd_bind; intro cn _
      apply Pres.ite
      · intro _
        apply Pres.bind (Pres.mutableChild _ _ hn); intro ch hch
        exact ih ch hch
      · intro _
        apply Pres.bind (Pres.mutableChild _ _ hn); intro first hfirst
        apply Pres.bind (Pres.splitB _ _ hfirst); intro s hs
        apply Pres.rd_bind; intro nd1 _
        apply Pres.bind (Pres.wr n _ _ hn); intro _ _
        apply Pres.ite
        · intro _
          apply Pres.bind (Pres.mutableChild _ _ hn); intro ch hch
          exact ih ch hch
        · intro _
          apply Pres.ite
          · intro _
            apply Pres.bind (Pres.mutableChild _ _ hn); intro ch hch
            exact ih ch hch
          · intro _
            apply Pres.rd_bind; intro nd2 _
            apply Pres.bind (Pres.wr n _ _ hn); intro _ _
            exact Pres.pure _ trivial

theorem Pres.growB (mn n i : Nat) (hn : Writable H0 cow n) : Pres H0 cow (growB cow mn n i) (fun _ => True) := by
  unfold Cow.growB
  apply Pres.rd_bind; intro nd _
  apply Pres.rd_bind; intro left _
  apply Pres.rd_bind; intro right _
  apply Pres.ite
  · intro _
    apply Pres.bind (Pres.mutableChild _ _ hn); intro child hchild
    apply Pres.bind (Pres.mutableChild _ _ hn); intro sfid hsf
    apply Pres.rd_bind; intro sf _
    apply Pres.rd_bind; intro ch _
    apply Pres.rd_bind; intro nd1 _
    apply Pres.bind (Pres.wr sfid _ _ hsf); intro _ _
    apply Pres.bind (Pres.wr child _ _ hchild); intro _ _
    exact Pres.wr n _ _ hn
  · intro _
    apply Pres.ite
    · intro _
      apply Pres.bind (Pres.mutableChild _ _ hn); intro child hchild
      apply Pres.bind (Pres.mutableChild _ _ hn); intro sfid hsf
      apply Pres.rd_bind; intro sf _
      apply Pres.rd_bind; intro ch _
      apply Pres.rd_bind; intro nd1 _
      apply Pres.bind (Pres.wr sfid _ _ hsf); intro _ _
      apply Pres.bind (Pres.wr child _ _ hchild); intro _ _
      exact Pres.wr n _ _ hn
    · intro _
      apply Pres.bind (Pres.mutableChild _ _ hn); intro child hchild
      apply Pres.rd_bind; intro nd1 _
      apply Pres.rd_bind; intro mc _
      apply Pres.rd_bind; intro ch _
      apply Pres.bind (Pres.wr n _ _ hn); intro _ _
      apply Pres.bind (Pres.wr child _ _ hchild); intro _ _
      exact Pres.freeNode _

theorem Pres.removeLeaf (n : Nat) (nd : HNode) (typ : Rm) (hn : Writable H0 cow n) :
    Pres H0 cow (removeLeaf n nd typ) (fun _ => True) := by
  unfold Cow.removeLeaf
  apply Pres.bind (Pres.wr n _ _ hn); intro _ _
  exact Pres.pure _ trivial

theorem Pres.removeB (mn : Nat) : ∀ (fuel n : Nat) (typ : Rm), Writable H0 cow n →
    Pres H0 cow (removeB cow mn fuel n typ) (fun _ => True) := by
  intro fuel
  induction fuel with
  | zero =>
    intro n typ hn
    unfold Cow.removeB
    apply Pres.rd_bind; intro nd _
    apply Pres.ite
    · intro _; exact Pres.removeLeaf _ _ _ hn
    · intro _; exact Pres.pure _ trivial
  | succ fuel ih =>
    intro n typ hn
    unfold Cow.removeB
    apply Pres.rd_bind; intro nd _
    apply Pres.ite
    · intro _; exact Pres.removeLeaf _ _ _ hn
    · intro _
      apply Pres.rd_bind; intro cn _
      apply Pres.bind (Q := fun _ => True)
      · apply Pres.ite
        · intro _; exact Pres.growB _ _ _ hn
        · intro _; exact Pres.pure _ trivial
      · intro _ _
        apply Pres.rd_bind; intro nd1 _
        apply Pres.bind (Pres.mutableChild _ _ hn); intro child hchild
        apply Pres.ite
        · intro _
          apply Pres.bind (ih child .max hchild); intro p _
          apply Pres.rd_bind; intro nd2 _
          apply Pres.bind (Pres.wr n _ _ hn); intro _ _
          exact Pres.pure _ trivial
        · intro _; exact ih child typ hchild

end Nv.C03.Cow
