import Nv.Proofs.C03Ref9
import Nv.Proofs.C03Insert3

/-! C03 refinement, part 10: `ReplaceOrInsert` on the store computes what `Tree.replaceOrInsert` computes on the
denoted tree (root copy and root split included). -/

namespace Nv.C03.Cow
open Nv.C03

/-- `mutableFor` on the root of a well-formed subtree: the returned cell denotes the same node -/
theorem mutableFor_abs (mn mx cow : Nat) (hmn : 1 ≤ mn) (H : Heap) (f c : Nat) (hw : WFree H)
    (hk : KidsOk mn mx f (absNode H f c)) :
    let r := (Cow.mutableFor cow c) H
    absNode r.2 f r.1 = absNode H f c ∧ (∀ y, InSub r.2 f r.1 y → y = r.1 ∨ InSub H f c y) := by
  obtain ⟨m1, m2, m3, m4, m5, m6, m7, m8, _, m10⟩ := mutableFor_spec cow c H hw
  generalize (Cow.mutableFor cow c) H = r at m1 m2 m3 m4 m5 m6 m7 m8 m10
  obtain ⟨ch, H1⟩ := r
  simp only at m1 m2 m3 m4 m5 m6 m7 m8 m10 ⊢
  cases f with
  | zero => exact ⟨by simp [absNode, m2, m3], fun y hy => Or.inl hy⟩
  | succ f =>
    have hk' := hk
    rw [abs_succ] at hk'
    simp only [KidsOk, children_mk, items_mk] at hk'
    have hg : ∀ g ∈ (H.get c).children, absNode H1 f g = absNode H f g ∧ ∀ y, InSub H1 f g y → InSub H f g y :=
      fun g hg => abs_frame mn mx hmn m10 f g (hk'.2 _ (List.mem_map.2 ⟨g, hg, rfl⟩)) (fun _ _ e => e)
    refine ⟨?_, ?_⟩
    · rw [abs_succ, abs_succ, m2, m3]
      congr 1
      exact List.map_congr_left (fun g hg' => (hg g hg').1)
    · intro y hy
      rcases hy with rfl | ⟨g, hg', hy⟩
      · exact Or.inl rfl
      · rw [m3] at hg'
        exact Or.inr (Or.inr ⟨g, hg', (hg g hg').2 y hy⟩)

/-- the root `insert` is called on, and the store at that moment -/
def rootPrep (t : HTree) (r0 : Nat) (H : Heap) : Nat × Heap :=
  if t.maxItems ≤ (((Cow.mutableFor t.cow r0) H).2.get ((Cow.mutableFor t.cow r0) H).1).items.length then
    (((Cow.newNode t.cow) ((Cow.splitB t.cow ((Cow.mutableFor t.cow r0) H).1 (t.maxItems / 2)) ((Cow.mutableFor t.cow r0) H).2).2).1,
      ((Cow.wr ((Cow.newNode t.cow) ((Cow.splitB t.cow ((Cow.mutableFor t.cow r0) H).1 (t.maxItems / 2)) ((Cow.mutableFor t.cow r0) H).2).2).1
        [((Cow.splitB t.cow ((Cow.mutableFor t.cow r0) H).1 (t.maxItems / 2)) ((Cow.mutableFor t.cow r0) H).2).1.1]
        [((Cow.mutableFor t.cow r0) H).1, ((Cow.splitB t.cow ((Cow.mutableFor t.cow r0) H).1 (t.maxItems / 2)) ((Cow.mutableFor t.cow r0) H).2).1.2])
        ((Cow.newNode t.cow) ((Cow.splitB t.cow ((Cow.mutableFor t.cow r0) H).1 (t.maxItems / 2)) ((Cow.mutableFor t.cow r0) H).2).2).2).2)
  else (Cow.mutableFor t.cow r0) H

def insOut (t : HTree) (x : Item) (p : Nat × Heap) : Option Item × Heap :=
  (Cow.insertB t.cow t.maxItems x (heightB p.2 p.2.size p.1) p.1) p.2

theorem replaceOrInsertB_some (t : HTree) (r0 : Nat) (x : Item) (H : Heap) (hr : t.root = some r0) :
    (replaceOrInsertB t x) H =
      (({ t with root := some (rootPrep t r0 H).1,
                 length := if (insOut t x (rootPrep t r0 H)).1.isNone then t.length + 1 else t.length },
        (insOut t x (rootPrep t r0 H)).1), (insOut t x (rootPrep t r0 H)).2) := by
  unfold replaceOrInsertB rootPrep insOut
  rw [hr]
  show ((Cow.mutableFor t.cow r0) >>= _) H = _
  rw [run_bind, run_bind, run_rd, run_bind]
  by_cases hc : t.maxItems ≤ (((Cow.mutableFor t.cow r0) H).2.get ((Cow.mutableFor t.cow r0) H).1).items.length
  · rw [if_pos hc, if_pos hc]; rfl
  · rw [if_neg hc, if_neg hc]; rfl

/-- a root in the store: what `Tree.ok` says about the denoted node, plus the store facts -/
structure RootWF (mn : Nat) (H : Heap) (h r : Nat) : Prop where
  len : (H.get r).items.length ≤ 2 * mn + 1
  kids : KidsOk mn (2 * mn + 1) h (absNode H h r)
  ne : (H.get r).items ≠ [] ∨ h = 0
  sorted : Sorted (absNode H h r).inorder
  wf : WFree H
  lt : r < H.size

/-- the node `insert` is called on at layer A -/
def rootPrepA (mn : Nat) (rA : Node) : Node :=
  if 2 * mn + 1 ≤ rA.items.length then .mk [(rA.split mn).2.1] [(rA.split mn).1, (rA.split mn).2.2] else rA

theorem rootPrep_abs (t : HTree) (mn : Nat) (hmn : 1 ≤ mn) (hmx : t.maxItems = 2 * mn + 1) (H : Heap) (h r0 : Nat)
    (w : RootWF mn H h r0) :
    ∃ h', Sub mn t.cow (rootPrep t r0 H).2 h' (rootPrep t r0 H).1 ∧
      ((rootPrep t r0 H).2.get (rootPrep t r0 H).1).items.length < 2 * mn + 1 ∧
      absNode (rootPrep t r0 H).2 h' (rootPrep t r0 H).1 = rootPrepA mn (absNode H h r0) ∧
      height (rootPrepA mn (absNode H h r0)) = h' ∧ H.size ≤ (rootPrep t r0 H).2.size ∧
      Frame H (rootPrep t r0 H).2 (InSub H h r0) ∧
      (∀ y, InSub (rootPrep t r0 H).2 h' (rootPrep t r0 H).1 y → InSub H h r0 y ∨ H.get y = HNode.empty) := by
  have hdiv : (2 * mn + 1) / 2 = mn := by omega
  unfold rootPrep rootPrepA
  rw [hmx, hdiv]
  obtain ⟨m1, m2, m3, m4, m5, m6, m7, m8, _, m10⟩ := mutableFor_spec t.cow r0 H w.wf
  obtain ⟨a1, a2⟩ := mutableFor_abs mn (2 * mn + 1) t.cow hmn H h r0 w.wf w.kids
  generalize (Cow.mutableFor t.cow r0) H = r1 at m1 m2 m3 m4 m5 m6 m7 m8 m10 a1 a2
  obtain ⟨r, H1⟩ := r1
  simp only at m1 m2 m3 m4 m5 m6 m7 m8 m10 a1 a2 ⊢
  have hsub : Sub mn t.cow H1 h r := ⟨by rw [a1]; exact w.kids, by rw [a1]; exact w.sorted, m1, m7, by rw [m2]; exact w.ne⟩
  have hr_in : ∀ y, y = r → InSub H h r0 y ∨ H.get y = HNode.empty := by
    intro y e
    rcases m5 with e2 | e2
    · exact Or.inl (by rw [e, e2]; exact InSub.self H h r0)
    · exact Or.inr (by rw [e, e2])
  have hsub_in : ∀ y, InSub H1 h r y → InSub H h r0 y ∨ H.get y = HNode.empty := by
    intro y hy
    rcases a2 y hy with e | e
    · exact hr_in y e
    · exact Or.inl e
  have hF1 : Frame H H1 (InSub H h r0) := m10.mono (fun _ e => e.elim)
  rw [abs_items, ← m2]
  by_cases hfull : 2 * mn + 1 ≤ (H1.get r).items.length
  · rw [if_pos hfull, if_pos hfull]
    have hlen : (H1.get r).items.length = 2 * mn + 1 := by have := w.len; rw [← m2] at this; omega
    have hne : (H1.get r).items ≠ [] := by intro e; rw [e] at hlen; simp at hlen
    obtain ⟨s1, s2, s3, s4, s5, s6, s7, s8, s9, s10, s11, s12⟩ := splitB_abs mn t.cow hmn H1 h r mn hsub hne
    generalize (Cow.splitB t.cow r mn) H1 = sp at s1 s2 s3 s4 s5 s6 s7 s8 s9 s10 s11 s12
    obtain ⟨⟨mid, nx⟩, H2⟩ := sp
    simp only at s1 s2 s3 s4 s5 s6 s7 s8 s9 s10 s11 s12 ⊢
    obtain ⟨n1, n2, n3, n4, n5, n6, n7⟩ := newNode_spec t.cow H2 s6
    generalize (Cow.newNode t.cow) H2 = nn at n1 n2 n3 n4 n5 n6 n7
    obtain ⟨nr, H3⟩ := nn
    simp only at n1 n2 n3 n4 n5 n6 n7 ⊢
    obtain ⟨w1, w2, w3, w4⟩ := wr_get H3 nr [mid] [r, nx] n5
    have hwf4 := wr_wfree H3 nr [mid] [r, nx] n5 n6 n7
    generalize ((Cow.wr nr [mid] [r, nx]) H3).2 = H4 at w1 w2 w3 w4 hwf4
    have hF24 : Frame H2 H4 (fun _ => False) := by
      intro x _ hx
      have hxn : x ≠ nr := fun e => hx (by rw [e, n2])
      rw [w2 x hxn, n3 x hxn]
    obtain ⟨hin, hl1, hl2, hk1, hk2, hh⟩ := split_spec mn h (absNode H1 h r) hsub.kids (by rw [abs_items]; exact hlen)
    have hok1 : nodeOk mn (2 * mn + 1) h (absNode H2 h r) = true := by
      rw [s1]; exact (nodeOk_iff _ _ _ _).2 ⟨by omega, by omega, hk1⟩
    have hok2 : nodeOk mn (2 * mn + 1) h (absNode H2 h nx) = true := by
      rw [s3]; exact (nodeOk_iff _ _ _ _).2 ⟨by omega, by omega, hk2⟩
    obtain ⟨f1, f2⟩ := abs_frame mn (2 * mn + 1) hmn hF24 h r hok1 (fun _ _ e => e)
    obtain ⟨g1, g2⟩ := abs_frame mn (2 * mn + 1) hmn hF24 h nx hok2 (fun _ _ e => e)
    have habs : absNode H4 (h + 1) nr =
        .mk [((absNode H h r0).split mn).2.1] [((absNode H h r0).split mn).1, ((absNode H h r0).split mn).2.2] := by
      rw [abs_succ, w1]
      simp only [List.map_cons, List.map_nil]
      rw [f1, g1, s1, s2, s3, a1]
    have hF : Frame H H4 (InSub H h r0) :=
      Frame.trans (Frame.trans hF1 s8 hr_in) hF24 (fun _ e => e.elim)
    refine ⟨h + 1, ⟨?_, ?_, ?_, hwf4, Or.inl (by rw [w1]; simp)⟩, by rw [w1]; simp; omega, habs, ?_,
      by rw [w3]; omega, hF, ?_⟩
    · rw [habs, ← a1]
      simp only [KidsOk, children_mk, items_mk, List.length_cons, List.length_nil, List.mem_cons, List.not_mem_nil, or_false]
      refine ⟨trivial, ?_⟩
      rintro c (rfl | rfl)
      · exact (nodeOk_iff _ _ _ _).2 ⟨by omega, by omega, hk1⟩
      · exact (nodeOk_iff _ _ _ _).2 ⟨by omega, by omega, hk2⟩
    · rw [habs, ← a1]
      have hs := hsub.sorted
      rw [hin] at hs
      simpa using hs
    · simp only [Heap.tag]; rw [w1, n1]
    · simp only [height]
      rw [← a1, hh, height_of_kidsOk _ _ _ _ hsub.kids]
    · intro y hy
      rcases hy with e | ⟨c, hc, hy⟩
      · have : H2.get y = HNode.empty := by rw [e, n2]
        rcases frame_empty (Frame.trans hF1 s8 hr_in) y this with e2 | e2
        · exact Or.inl e2
        · exact Or.inr e2
      · rw [w1] at hc
        simp only [List.mem_cons, List.not_mem_nil, or_false] at hc
        rcases hc with rfl | rfl
        · exact hsub_in y (s11 y (f2 y hy))
        · rcases s12 y (g2 y hy) with e | e
          · have : H1.get y = HNode.empty := by rw [e, s9]
            rcases frame_empty hF1 y this with e2 | e2
            · exact Or.inl e2
            · exact Or.inr e2
          · exact hsub_in y e
  · rw [if_neg hfull, if_neg hfull]
    exact ⟨h, hsub, Nat.lt_of_not_le hfull, a1, height_of_kidsOk _ _ _ _ w.kids, m6, hF1, hsub_in⟩

theorem not_free_of_tag {H : Heap} {x c : Nat} (hw : WFree H) (ht : H.tag x = some c) : x ∉ H.free := by
  intro hm
  have := (hw.2 x hm).2
  simp [Heap.tag, this, HNode.empty] at ht

/-- the tree a handle denotes when its root is read to depth `h` -/
def HTree.absAt (t : HTree) (H : Heap) (h : Nat) : Tree := ⟨t.degree, t.root.map (absNode H h), t.length⟩

/-- the handle denotes a well-formed tree of height `h`, and the free list holds item-less cells only -/
structure TreeWF (t : HTree) (H : Heap) (h : Nat) : Prop where
  ok : (t.absAt H h).ok = true
  height : ∀ r, t.root = some r → height (absNode H h r) = h ∧ r < H.size ∧ r ∉ H.free
  wf : WFree H

theorem TreeWF.degree {t : HTree} {H : Heap} {h : Nat} (w : TreeWF t H h) : 2 ≤ t.degree := by
  have := w.ok; unfold Tree.ok at this
  simp only [Bool.and_eq_true, decide_eq_true_eq] at this; exact this.1

theorem TreeWF.rootWF {t : HTree} {H : Heap} {h r : Nat} (w : TreeWF t H h) (hr : t.root = some r) :
    RootWF (t.degree - 1) H h r := by
  have hroot : (t.absAt H h).root = some (absNode H h r) := by simp [HTree.absAt, hr]
  obtain ⟨hd, hro, hs, _⟩ := ok_root _ _ hroot w.ok
  obtain ⟨hmx, hmn, _⟩ := tree_bounds (t.absAt H h) hd
  rw [hmx, hmn] at hro
  obtain ⟨a, b, c⟩ := (rootOk_iff _ _ _).1 hro
  obtain ⟨hh, hlt, _⟩ := w.height r hr
  rw [hh] at b
  refine ⟨by rw [abs_items] at a; exact a, b, ?_, hs, w.wf, hlt⟩
  cases h with
  | zero => exact Or.inr rfl
  | succ h =>
    left
    have hk := b
    rw [abs_succ] at hk c
    simp only [KidsOk, children_mk, items_mk, List.length_map] at hk
    simp only [children_mk, items_mk] at c
    intro e
    have : (H.get r).children ≠ [] := by intro e2; rw [e2] at hk; simp at hk
    have := c (by simpa using this)
    rw [e] at this; simp at this

theorem replaceOrInsertB_refines (t : HTree) (H : Heap) (x : Item) (h : Nat) (w : TreeWF t H h) :
    ∃ h', ((replaceOrInsertB t x) H).1.1.absAt ((replaceOrInsertB t x) H).2 h' = ((t.absAt H h).replaceOrInsert x).1 ∧
      ((replaceOrInsertB t x) H).1.2 = ((t.absAt H h).replaceOrInsert x).2 ∧
      TreeWF ((replaceOrInsertB t x) H).1.1 ((replaceOrInsertB t x) H).2 h' ∧
      ((replaceOrInsertB t x) H).1.1.cow = t.cow ∧
      H.size ≤ ((replaceOrInsertB t x) H).2.size ∧
      Frame H ((replaceOrInsertB t x) H).2 (fun y => ∃ r, t.root = some r ∧ InSub H h r y) ∧
      (∀ r', ((replaceOrInsertB t x) H).1.1.root = some r' → ((replaceOrInsertB t x) H).2.tag r' = some t.cow ∧
        ∀ y, InSub ((replaceOrInsertB t x) H).2 h' r' y → (∃ r, t.root = some r ∧ InSub H h r y) ∨ H.get y = HNode.empty) := by
  have hd := w.degree
  obtain ⟨hvok, _⟩ : ((t.absAt H h).replaceOrInsert x).1.ok = true ∧ True :=
    ⟨(tree_insert_spec (t.absAt H h) x w.ok).2.2.1, trivial⟩
  cases hr : t.root with
  | none =>
    have hrun : (replaceOrInsertB t x) H =
        (({ t with root := some ((Cow.newNode t.cow) H).1, length := t.length + 1 }, none),
          ((Cow.wr ((Cow.newNode t.cow) H).1 [x] []) ((Cow.newNode t.cow) H).2).2) := by
      unfold replaceOrInsertB; rw [hr]; rfl
    have hval : (t.absAt H h).replaceOrInsert x =
        (⟨t.degree, some (.mk [x] []), t.length + 1⟩, none) := by
      simp [Tree.replaceOrInsert, HTree.absAt, hr]
    rw [hval] at hvok
    rw [hrun, hval]
    obtain ⟨n1, n2, n3, n4, n5, n6, n7⟩ := newNode_spec t.cow H w.wf
    generalize (Cow.newNode t.cow) H = nn at n1 n2 n3 n4 n5 n6 n7
    obtain ⟨nr, H1⟩ := nn
    simp only at n1 n2 n3 n4 n5 n6 n7 ⊢
    obtain ⟨w1, w2, w3, w4⟩ := wr_get H1 nr [x] [] n5
    have hwf2 := wr_wfree H1 nr [x] [] n5 n6 n7
    generalize ((Cow.wr nr [x] []) H1).2 = H2 at w1 w2 w3 w4 hwf2
    have habs : absNode H2 0 nr = .mk [x] [] := by simp [absNode, w1]
    have habsT : HTree.absAt { t with root := some nr, length := t.length + 1 } H2 0 = ⟨t.degree, some (.mk [x] []), t.length + 1⟩ := by
      simp [HTree.absAt, habs]
    refine ⟨0, habsT, trivial, ⟨by rw [habsT]; exact hvok, ?_, hwf2⟩, trivial, by rw [w3]; exact n4, ?_, ?_⟩
    rotate_left 2
    · intro r' e
      simp only [Option.some.injEq] at e
      subst e
      refine ⟨by simp only [Heap.tag]; rw [w1, n1], ?_⟩
      intro y hy
      have : y = nr := hy
      exact Or.inr (by rw [this, n2])
    · intro r e
      simp only [Option.some.injEq] at e
      subst e
      rw [habs]; exact ⟨rfl, by rw [w3]; exact n5, by rw [w4]; exact n7⟩
    · intro y _ hy
      have hyn : y ≠ nr := fun e => hy (by rw [e, n2])
      rw [w2 y hyn, n3 y hyn]
  | some r0 =>
    have hmn : 1 ≤ t.degree - 1 := by omega
    have hmx : t.maxItems = 2 * (t.degree - 1) + 1 := by unfold HTree.maxItems; omega
    have hdiv : (2 * (t.degree - 1) + 1) / 2 = t.degree - 1 := by omega
    have rw0 := w.rootWF hr
    obtain ⟨h', p1, p2, p3, p4, p5, p6, p7⟩ := rootPrep_abs t (t.degree - 1) hmn hmx H h r0 rw0
    rw [replaceOrInsertB_some t r0 x H hr]
    -- the value side
    have hval : (t.absAt H h).replaceOrInsert x =
        (⟨t.degree, some (insertH (2 * (t.degree - 1) + 1) x h' (rootPrepA (t.degree - 1) (absNode H h r0))).1,
            if (insertH (2 * (t.degree - 1) + 1) x h' (rootPrepA (t.degree - 1) (absNode H h r0))).2.isNone
              then t.length + 1 else t.length⟩,
          (insertH (2 * (t.degree - 1) + 1) x h' (rootPrepA (t.degree - 1) (absNode H h r0))).2) := by
      have e1 : (t.absAt H h).maxItems = 2 * (t.degree - 1) + 1 := hmx
      have e2 : (t.absAt H h).root = some (absNode H h r0) := by simp [HTree.absAt, hr]
      rw [← p4]
      unfold Tree.replaceOrInsert rootPrepA
      rw [e2]
      simp only [e1, hdiv]
      rfl
    rw [hval] at hvok
    rw [hval]
    -- the store side
    have hfuel : heightB (rootPrep t r0 H).2 (rootPrep t r0 H).2.size (rootPrep t r0 H).1 = h' :=
      heightB_eq (t.degree - 1) (2 * (t.degree - 1) + 1) hmn _ h' _ p1.kids p1.sorted p1.nonempty p1.lt
    have o := insertB_refines (t.degree - 1) t.cow hmn x h' (rootPrep t r0 H).1 (rootPrep t r0 H).2 p1 p2
    unfold insOut
    rw [hfuel, hmx]
    generalize (Cow.insertB t.cow (2 * (t.degree - 1) + 1) x h' (rootPrep t r0 H).1) (rootPrep t r0 H).2 = out at o
    have oabs := o.abs
    have oret := o.ret
    rw [p3] at oabs oret
    have hpost := insertH_spec (t.degree - 1) hmn x h' (rootPrepA (t.degree - 1) (absNode H h r0))
      (by rw [← p3]; exact p1.kids) (by rw [← p3, abs_items]; exact p2) (by rw [← p3]; exact p1.sorted)
    have habsT : HTree.absAt (HTree.mk t.degree (some (rootPrep t r0 H).1) (if out.1.isNone then t.length + 1 else t.length) t.cow) out.2 h' =
        ⟨t.degree, some (insertH (2 * (t.degree - 1) + 1) x h' (rootPrepA (t.degree - 1) (absNode H h r0))).1,
            if (insertH (2 * (t.degree - 1) + 1) x h' (rootPrepA (t.degree - 1) (absNode H h r0))).2.isNone
              then t.length + 1 else t.length⟩ := by
      simp only [HTree.absAt, Option.map, oabs, oret]
    refine ⟨h', habsT, oret, ⟨by rw [habsT]; exact hvok, ?_, o.wf⟩, rfl, Nat.le_trans p5 o.size, ?_, ?_⟩
    rotate_left 2
    · intro r' e
      simp only [Option.some.injEq] at e
      subst e
      refine ⟨o.own, ?_⟩
      intro y hy
      rcases o.subs y hy with e | e
      · rcases p7 y e with e | e
        · exact Or.inl ⟨r0, rfl, e⟩
        · exact Or.inr e
      · rcases frame_empty p6 y e with e | e
        · exact Or.inl ⟨r0, rfl, e⟩
        · exact Or.inr e
    · intro r e
      simp only [Option.some.injEq] at e
      subst e
      rw [oabs]
      exact ⟨height_of_kidsOk _ _ _ _ hpost.kids, tag_some_lt _ _ _ o.own, not_free_of_tag o.wf o.own⟩
    · exact (Frame.trans p6 o.frame p7).mono (fun y hy => ⟨r0, rfl, hy⟩)

end Nv.C03.Cow
