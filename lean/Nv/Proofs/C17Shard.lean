import Nv.Model.C17
import Nv.Proofs.C04
/-!
C17 — the generic sharding argument: a per-key-independent container behind any routing function
answers every request as the single container does; and the association-list map is such a container.
-/
namespace Nv.C17
open Nv.C04 (sim_outs)

theorem sharded_sim {S K R A V} (C : Keyed S K R A V) (idx : K → Nat) :
    ∀ (reqs : List (K × R)) (sh : Nat → S) (s : S), (∀ k, C.slot (sh (idx k)) k = C.slot s k) →
      outs (shardedStep C idx) sh reqs = outs (singleStep C) s reqs ∧
      (∀ k, C.slot (final (shardedStep C idx) sh reqs (idx k)) k = C.slot (final (singleStep C) s reqs) k) := by
  intro reqs sh s hrel
  have := sim_outs (shardedStep C idx) (singleStep C) (fun sh s => ∀ k, C.slot (sh (idx k)) k = C.slot s k)
    (fun _ => True) (fun sh s req hr _ => by
      obtain ⟨k, r⟩ := req
      refine ⟨?_, ?_⟩
      · intro k'
        simp only [shardedStep, singleStep]
        by_cases hk : k' = k
        · subst hk
          simp only [if_true, C.step_slot, hr]
        · rw [C.step_other s k k' r hk]
          by_cases hi : idx k' = idx k
          · simp only [hi, if_true]
            rw [C.step_other _ k k' r hk, ← hi]; exact hr k'
          · simp only [hi, if_false]; exact hr k'
      · simp only [shardedStep, singleStep, C.step_resp, hr])
    reqs sh s hrel (fun _ _ => trivial)
  exact this

/-! ### the map instance -/

theorem mlookup_merase_self (k : Key) (s : MapSt) : mlookup k (merase k s) = none := by
  induction s with
  | nil => rfl
  | cons p s ih =>
    obtain ⟨k', v⟩ := p
    simp only [merase]
    split
    · exact ih
    · simp [mlookup, *]

theorem mlookup_merase_other (k k' : Key) (s : MapSt) (h : k' ≠ k) : mlookup k' (merase k s) = mlookup k' s := by
  induction s with
  | nil => rfl
  | cons p s ih =>
    obtain ⟨k2, v⟩ := p
    simp only [merase]
    split
    · rename_i h2
      subst h2
      have : ¬ (k2 = k') := fun e => h e.symm
      simp [mlookup, this, ih]
    · simp only [mlookup]
      split
      · rfl
      · exact ih

def mapKeyed : Keyed MapSt Key MReq MResp (Option Nat) where
  step := mapStep
  slot := fun s k => mlookup k s
  local_ := mapLocal
  step_slot := by
    intro s k r
    cases r <;> simp [mapStep, mapLocal, mlookup, mlookup_merase_self]
  step_resp := by
    intro s k r
    cases r <;> simp [mapStep, mapLocal]
  step_other := by
    intro s k k' r h
    have h' : ¬ (k = k') := fun e => h e.symm
    cases r <;> simp [mapStep, mlookup, h', mlookup_merase_other k k' s h]

end Nv.C17
