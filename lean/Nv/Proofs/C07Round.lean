import Nv.Proofs.C07Codec
import Nv.Proofs.C07Text
set_option linter.unusedSimpArgs false
set_option linter.unusedVariables false
/-! C07 — `FromChStyle (CnStyle id) = id` over a lawful calendar. -/
namespace Nv.C07
open Nv.C06

/-- the timestamp shifted back up, or-ed with the remaining bits, is the id -/
theorem shift_or_rest {nb : BitVec 8} (hl : LayoutOk nb) {id : BitVec 64} (h : id.toNat < 2 ^ 63) :
    ((BitVec.sshiftRight id (nb + 12#8).toNat) <<< (nb + 12#8).toNat) ||| rest id nb = id := by
  have e : BitVec.sshiftRight id (nb + 12#8).toNat = (idFields id nb false).1 := rfl
  have hr := (idFields_ranges hl false h).1
  apply BitVec.eq_of_toNat_eq
  rw [e, BitVec.toNat_or, shl_toNat hl hr, ts_toNat hl false h, rest_toNat hl,
    or_eq_add_nat _ _ _ (Nat.mod_lt _ (Nat.pos_of_ne_zero (by simp)))]
  exact (id_eq_ts_rest hl id).symm

theorem rest_toInt {nb : BitVec 8} (hl : LayoutOk nb) (id : BitVec 64) :
    0 ≤ (rest id nb).toInt ∧ (rest id nb).toInt < 10 ^ 7 := by
  have h := rest_lt hl id
  have h22 : 2 ^ tsShift nb ≤ 2 ^ 22 := by rcases hl with rfl | rfl | rfl <;> decide
  rw [toInt_eq_toNat_of_lt (by omega)]
  omega

theorem cn_roundtrip_aux {c : Cfg} (hc : Proved c) (cal : Calendar) (D : Int → Prop) (law : cal.Lawful D)
    {nb : BitVec 8} (hl : LayoutOk nb) (epoch id : BitVec 64) (hid : 0 ≤ id.toInt) (hD : D (cnMs nb epoch id).toInt) :
    (cnStyle cal nb epoch id).length = 24 ∧
    fromChStyle c cal nb epoch (cnStyle cal nb epoch id) = some id := by
  have hid' := toNat_lt_of_toInt_nonneg hid
  have hy := law.year4 _ hD
  have hmo := law.month2 _ hD
  have hd := law.day2 _ hD
  have hh := law.hour2 _ hD
  have hmi := law.minute2 _ hD
  have hs := law.second2 _ hD
  have hms := law.milli3 _ hD
  have hround := law.round _ hD
  have hrest := rest_toInt hl id
  generalize hciv : cal.toCivil (cnMs nb epoch id).toInt = civ at *
  simp only at hround
  have b2 : ∀ n : Nat, n ≤ 99 → (0 : Int) ≤ (n : Int) ∧ (n : Int) < 10 ^ 2 := fun n h => ⟨by omega, by omega⟩
  have b3 : (0 : Int) ≤ (civ.milli : Int) ∧ (civ.milli : Int) < 10 ^ 3 := ⟨by omega, by omega⟩
  have b4 : (0 : Int) ≤ civ.year ∧ civ.year < 10 ^ 4 := ⟨hy.1, by omega⟩
  have sl := slices (padInt 4 civ.year) (padInt 2 civ.month) (padInt 2 civ.day) (padInt 2 civ.hour) (padInt 2 civ.minute)
    (padInt 2 civ.second) (padInt 3 civ.milli) (padInt 7 (rest id nb).toInt)
    (padInt_length 4 _ b4.1 b4.2) (padInt_length 2 _ (b2 _ hmo).1 (b2 _ hmo).2) (padInt_length 2 _ (b2 _ hd).1 (b2 _ hd).2)
    (padInt_length 2 _ (b2 _ hh).1 (b2 _ hh).2) (padInt_length 2 _ (b2 _ hmi).1 (b2 _ hmi).2)
    (padInt_length 2 _ (b2 _ hs).1 (b2 _ hs).2) (padInt_length 3 _ b3.1 b3.2) (padInt_length 7 _ hrest.1 hrest.2)
  simp only at sl
  obtain ⟨slen, s1, s2, s3, s4, s5, s6, s7, s8⟩ := sl
  have hcn : cnStyle cal nb epoch id = padInt 4 civ.year ++ padInt 2 civ.month ++ padInt 2 civ.day ++ padInt 2 civ.hour ++
      padInt 2 civ.minute ++ padInt 2 civ.second ++ padInt 3 civ.milli ++ padInt 7 (rest id nb).toInt := by
    unfold cnStyle; rw [hciv]
  refine ⟨by rw [hcn]; exact slen, ?_⟩
  unfold fromChStyle
  rw [hcn, if_neg (by rw [slen]; simp), s1, s2, s3, s4, s5, s6, s7, s8,
    atoi_padInt 4 (by decide) _ b4.1 b4.2, atoi_padInt 2 (by decide) _ (b2 _ hmo).1 (b2 _ hmo).2,
    atoi_padInt 2 (by decide) _ (b2 _ hd).1 (b2 _ hd).2, atoi_padInt 2 (by decide) _ (b2 _ hh).1 (b2 _ hh).2,
    atoi_padInt 2 (by decide) _ (b2 _ hmi).1 (b2 _ hmi).2, atoi_padInt 2 (by decide) _ (b2 _ hs).1 (b2 _ hs).2,
    atoi_padInt 3 (by decide) _ b3.1 b3.2, atoi_padInt 7 (by decide) _ hrest.1 hrest.2]
  simp only
  rw [hround, hc]
  simp only [fromMsWord, BitVec.ofInt_toInt]
  unfold cnMs
  rw [BitVec.add_sub_cancel, shift_or_rest hl hid']

end Nv.C07
