import Nv.Proofs.C03Cow6
/-!
C03, layer B — programs of clones and writes over any number of handles, in stores whose free list has capacity 0:
the invariant `World.WI` (every cell reachable from a handle's root exists and carries no OTHER handle's current tag)
holds in every reachable world, and a write through one handle leaves every reading of every other handle unchanged —
for arbitrary interleavings of writers.
-/
namespace Nv.C03.Cow
open Nv.C03

/-- `cc` is the current tag of some handle -/
def IsCur (w : World) (cc : Nat) : Prop := ∃ (j : Nat) (u : HTree), w.hs[j]? = some u ∧ u.cow = cc

structure World.WI (w : World) : Prop where
  good : w.Good
  nofree : w.H.free = [] ∧ w.H.cap = 0
  distinct : ∀ (i j : Nat) (a b : HTree), w.hs[i]? = some a → w.hs[j]? = some b → i ≠ j → a.cow ≠ b.cow
  own : ∀ (j : Nat) (u : HTree), w.hs[j]? = some u → ∀ r, u.root = some r → ∀ id, Reach w.H r id →
    id < w.H.size ∧ ∀ cc, w.H.tag id = some cc → IsCur w cc → cc = u.cow

theorem get_set_cases {α} {l : List α} {i j : Nat} {a u : α} (h : (l.set i a)[j]? = some u) :
    (j = i ∧ u = a ∧ i < l.length) ∨ (j ≠ i ∧ l[j]? = some u) := by
  rw [List.getElem?_set] at h
  split at h
  · rename_i hij
    split at h
    · rename_i hl; left; exact ⟨hij.symm, (Option.some.inj h).symm, hl⟩
    · cases h
  · rename_i hij; right; exact ⟨fun e => hij e.symm, h⟩

/-- a root of another handle is separated from the writer's tag -/
theorem World.WI.sep {w : World} (h : w.WI) {i j : Nat} {t u : HTree} (hi : w.hs[i]? = some t) (hj : w.hs[j]? = some u)
    (hij : j ≠ i) {r : Nat} (hr : u.root = some r) : Sep w.H t.cow r := by
  intro id hid
  obtain ⟨h1, h2⟩ := h.own j u hj r hr id hid
  refine ⟨h1, ?_, by rw [h.nofree.1]; simp⟩
  intro htag
  have := h2 t.cow htag ⟨i, t, hi, rfl⟩
  exact h.distinct i j t u hi hj (fun e => hij e.symm) this

/-- **one write**: the world invariant is kept, and every other handle reads the same tree at every depth -/
theorem World.WI.write {w : World} (h : w.WI) (i : Nat) (op : WOp) (t : HTree) (hi : w.hs[i]? = some t) :
    (w.step (.write i op)).WI ∧
    ∀ (j : Nat) (u : HTree) (r : Nat), j ≠ i → w.hs[j]? = some u → u.root = some r → ∀ fuel,
      absNode (w.step (.write i op)).H fuel r = absNode w.H fuel r ∧
      heightB (w.step (.write i op)).H fuel r = heightB w.H fuel r := by
  have hstep : w.step (.write i op) =
      { w with H := ((applyW t op) w.H).2, hs := w.hs.set i ((applyW t op) w.H).1.1 } := by
    simp only [World.step, hi]
  have hgood := World.good_step w (.write i op) h.good
  rw [hstep] at hgood ⊢
  -- the writer's operation, in both frameworks
  let c : Ctx := ⟨w.H, t.cow, t.root⟩
  have hInv0 : Inv2 c w.H := Inv2.init c h.nofree (fun r hr id hreach => (h.own i t hi r hr id hreach).1)
  have hk0 : ∀ r0, t.root = some r0 → K c w.H.size r0 :=
    fun r0 hr => ⟨Or.inr ⟨r0, hr, Reach.refl r0⟩, (h.own i t hi r0 hr r0 (Reach.refl r0)).1⟩
  obtain ⟨P1, P2, P3⟩ := Pres2.applyW (c := c) t op rfl hk0 w.H hInv0 rfl
  have hcow : ((applyW t op) w.H).1.1.cow = t.cow := P3.2
  -- what the other handles see
  have hother : ∀ (j : Nat) (u : HTree) (r : Nat), j ≠ i → w.hs[j]? = some u → u.root = some r →
      (∀ id, Reach w.H r id → ((applyW t op) w.H).2.get id = w.H.get id) := by
    intro j u r hji hj hr id hid
    have hs := h.sep hi hj hji hr id hid
    exact frame_write t op w.H id hs.1 hs.2.1 hs.2.2
  have hcur : ∀ cc, IsCur { w with H := ((applyW t op) w.H).2, hs := w.hs.set i ((applyW t op) w.H).1.1 } cc →
      IsCur w cc := by
    rintro cc ⟨j, u, hj, hu⟩
    rcases get_set_cases hj with ⟨rfl, rfl, _⟩ | ⟨_, hj'⟩
    · exact ⟨j, t, hi, by rw [← hu, hcow]⟩
    · exact ⟨j, u, hj', hu⟩
  refine ⟨⟨hgood, P1.nofree, ?_, ?_⟩, fun j u r hji hj hr fuel => read_agree w.H _ fuel r (hother j u r hji hj hr)⟩
  · -- distinct tags
    intro a b x y ha hb hab
    rcases get_set_cases ha with ⟨rfl, rfl, _⟩ | ⟨hai, ha'⟩
    · rcases get_set_cases hb with ⟨rfl, _, _⟩ | ⟨_, hb'⟩
      · exact absurd rfl hab
      · rw [hcow]; exact h.distinct a b t y hi hb' hab
    · rcases get_set_cases hb with ⟨rfl, rfl, _⟩ | ⟨_, hb'⟩
      · rw [hcow]; exact h.distinct a b x t ha' hi hab
      · exact h.distinct a b x y ha' hb' hab
  · -- every handle's reachable cells
    intro j u hj r hr id hid
    rcases get_set_cases hj with ⟨rfl, rfl, _⟩ | ⟨hji, hj'⟩
    · -- the writer: everything reachable from the new root is good
      have hkr := P3.1 r hr
      have hkid := reach_good _ P1 r hkr id hid
      refine ⟨hkid.2, ?_⟩
      intro cc htag hc
      rw [hcow]
      rcases P1.base.tagF id cc htag with h0 | h0
      · rcases hkid.1 with hfresh | ⟨r0, hr0, hreach⟩
        · have := tag_some_lt w.H id cc h0
          exact absurd this (Nat.not_lt.2 hfresh)
        · exact (h.own j t hi r0 hr0 id hreach).2 cc h0 (hcur cc hc)
      · exact h0
    · -- another handle: nothing it reaches was touched
      have hag := hother j u r hji hj' hr
      have hold := reach_agree w.H _ r hag id hid
      obtain ⟨h1, h2⟩ := h.own j u hj' r hr id hold
      refine ⟨Nat.lt_of_lt_of_le h1 P2, ?_⟩
      intro cc htag hc
      have : w.H.tag id = some cc := by
        have := hag id hold
        simp only [Heap.tag] at htag ⊢
        rw [← this]; exact htag
      exact h2 cc this (hcur cc hc)

end Nv.C03.Cow
