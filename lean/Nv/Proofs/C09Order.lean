import Nv.Proofs.C09Block
/-! C09 — forward iteration of a block is ascending, reverse iteration descending. Core only. -/
namespace Nv.C09
open Nv.C08

theorem expected_pairwise {w : Nat} (val : BitVec w → Int) (base : Int) (ms : List Nat)
    (hms : ms.Pairwise (· < ·)) (hlt : ∀ i ∈ ms, i < 1024) (add : BitVec w)
    (hval : ∀ i, i < 1024 → val (BitVec.ofNat w i + add) = base + i) (n : Int) :
    ((expected false ms add n).map val).Pairwise (· < ·) ∧ ((expected true ms add n).map val).Pairwise (· > ·) := by
  unfold expected
  simp only [Bool.false_eq_true, if_false, if_true, List.map_map]
  constructor
  · rw [List.pairwise_map]
    have hsub : (ms.take n.toNat).Pairwise (· < ·) := hms.sublist (List.take_sublist _ _)
    apply hsub.imp_of_mem
    intro a b ha hb hab
    have ha' := hlt a (List.mem_of_mem_take ha)
    have hb' := hlt b (List.mem_of_mem_take hb)
    simp only [Function.comp, hval a ha', hval b hb']
    omega
  · rw [List.pairwise_map]
    have hrev : ms.reverse.Pairwise (· > ·) := List.pairwise_reverse.2 hms
    have hsub : (ms.reverse.take n.toNat).Pairwise (· > ·) := hrev.sublist (List.take_sublist _ _)
    apply hsub.imp_of_mem
    intro a b ha hb hab
    have ha' := hlt a (List.mem_reverse.1 (List.mem_of_mem_take ha))
    have hb' := hlt b (List.mem_reverse.1 (List.mem_of_mem_take hb))
    simp only [Function.comp, hval a ha', hval b hb']
    omega

/-- the values an iterator writes, exactly: `base + i` for the first `n` members in the direction's order -/
theorem expected_values {w : Nat} (val : BitVec w → Int) (base : Int) (ms : List Nat)
    (hlt : ∀ i ∈ ms, i < 1024) (add : BitVec w)
    (hval : ∀ i, i < 1024 → val (BitVec.ofNat w i + add) = base + i) (rev : Bool) (n : Int) :
    (expected rev ms add n).map val = ((if rev then ms.reverse else ms).take n.toNat).map (fun (i : Nat) => base + (i : Int)) := by
  unfold expected
  rw [List.map_map]
  apply List.map_congr_left
  intro i hi
  have hi' : i ∈ (if rev then ms.reverse else ms) := List.mem_of_mem_take hi
  have : i ∈ ms := by cases rev <;> simpa using hi'
  simp only [Function.comp, hval i (hlt i this)]

theorem members1024_lt (b : Bit1024) : ∀ i ∈ members1024 b, i < 1024 := by
  intro i hi
  unfold members1024 at hi
  exact List.mem_range.1 (List.mem_filter.1 hi).1

theorem members1024_asc (b : Bit1024) : (members1024 b).Pairwise (· < ·) :=
  List.Pairwise.filter _ List.pairwise_lt_range

/-- value of a BigU32 element under the repaired offset: `Start·1024 + i`, no wrap-around for any `uint32` start -/
theorem big_value (start : BitVec 32) (i : Nat) (hi : i < 1024) :
    (BitVec.ofNat 64 i + BitVec.setWidth 64 start * 1024#64).toInt = (start.toNat * 1024 : Nat) + i := by
  have hs := start.isLt
  have c := BitVec.toInt_eq_toNat_cond (BitVec.ofNat 64 i + BitVec.setWidth 64 start * 1024#64)
  simp only [BitVec.toNat_add, BitVec.toNat_mul, BitVec.toNat_setWidth, BitVec.toNat_ofNat] at c
  rw [c]
  split <;> omega

/-- value of a U32BitTip element: `Start·1024 + i` as long as `Start ≤ MaxU32TipStart` -/
theorem tip_value (start : BitVec 32) (hst : start.toNat ≤ 4194303) (i : Nat) (hi : i < 1024) :
    ((BitVec.ofNat 32 i + start * 1024#32).toNat : Int) = (start.toNat * 1024 : Nat) + i := by
  simp only [BitVec.toNat_add, BitVec.toNat_mul, BitVec.toNat_ofNat]
  omega

end Nv.C09
