import Nv.Spec.C20
/-! C20 — helper lemmas: base64.RawStdEncoding decode ∘ encode = id. -/
namespace Nv.C20

/-- the 6-bit groups of a byte string (encode without the alphabet) -/
def b64Vals : Bytes → List Nat
  | [] => []
  | [a] => [a / 4, a % 4 * 16]
  | [a, b] => [a / 4, a % 4 * 16 + b / 16, b % 16 * 4]
  | a :: b :: c :: rest => a / 4 :: (a % 4 * 16 + b / 16) :: (b % 16 * 4 + c / 64) :: c % 64 :: b64Vals rest

theorem b64Encode_eq_map : ∀ bs : Bytes, b64Encode bs = (b64Vals bs).map b64Char
  | [] => rfl
  | [_] => rfl
  | [_, _] => rfl
  | a :: b :: c :: rest => by simp only [b64Encode, b64Vals, List.map_cons, b64Encode_eq_map rest]

theorem b64Vals_lt : ∀ bs : Bytes, (∀ x ∈ bs, x < 256) → ∀ v ∈ b64Vals bs, v < 64
  | [], _ => by intro v hv; cases hv
  | [a], h => by
    have := h a (by simp)
    intro v hv; simp only [b64Vals, List.mem_cons, List.not_mem_nil, or_false] at hv
    rcases hv with rfl | rfl <;> omega
  | [a, b], h => by
    have := h a (by simp); have := h b (by simp)
    intro v hv; simp only [b64Vals, List.mem_cons, List.not_mem_nil, or_false] at hv
    rcases hv with rfl | rfl | rfl <;> omega
  | a :: b :: c :: rest, h => by
    have := h a (by simp); have := h b (by simp); have := h c (by simp)
    intro v hv; simp only [b64Vals, List.mem_cons] at hv
    rcases hv with rfl | rfl | rfl | rfl | hv
    · omega
    · omega
    · omega
    · omega
    · exact b64Vals_lt rest (fun x hx => h x (by simp [hx])) v hv

theorem b64Val_b64Char {v : Nat} (h : v < 64) : b64Val (b64Char v) = some v := by
  unfold b64Char
  split
  · unfold b64Val; rw [if_pos (by omega)]; congr 1; omega
  · split
    · unfold b64Val; rw [if_neg (by omega), if_pos (by omega)]; congr 1; omega
    · split
      · unfold b64Val; rw [if_neg (by omega), if_neg (by omega), if_pos (by omega)]; congr 1; omega
      · split
        · rename_i h62; subst h62; rfl
        · have : v = 63 := by omega
          subst this; rfl

theorem b64Char_not_newline (v : Nat) : b64Char v ≠ 10 ∧ b64Char v ≠ 13 := by
  unfold b64Char
  split
  · omega
  · split
    · omega
    · split
      · omega
      · split <;> omega

theorem mapVals_map : ∀ vs : List Nat, (∀ v ∈ vs, v < 64) → mapVals (vs.map b64Char) = some vs
  | [], _ => rfl
  | v :: vs, h => by
    simp only [List.map_cons, mapVals, b64Val_b64Char (h v (by simp)),
      mapVals_map vs (fun x hx => h x (by simp [hx]))]

theorem b64Groups_vals : ∀ bs : Bytes, (∀ x ∈ bs, x < 256) → b64Groups (b64Vals bs) = some bs
  | [], _ => rfl
  | [a], h => by
    have := h a (by simp)
    simp only [b64Vals, b64Groups, Option.some.injEq, List.cons.injEq, and_true]
    omega
  | [a, b], h => by
    have := h a (by simp); have := h b (by simp)
    simp only [b64Vals, b64Groups, Option.some.injEq, List.cons.injEq, and_true]
    constructor <;> omega
  | a :: b :: c :: rest, h => by
    have := h a (by simp); have := h b (by simp); have := h c (by simp)
    simp only [b64Vals, b64Groups, b64Groups_vals rest (fun x hx => h x (by simp [hx])), Option.some.injEq,
      List.cons.injEq, and_true]
    refine ⟨?_, ?_, ?_⟩ <;> omega

theorem filter_encode (bs : Bytes) : (b64Encode bs).filter (fun c => c != 10 && c != 13) = b64Encode bs := by
  apply List.filter_eq_self.2
  intro c hc
  rw [b64Encode_eq_map] at hc
  obtain ⟨v, _, rfl⟩ := List.mem_map.1 hc
  have := b64Char_not_newline v
  simp [this.1, this.2]

/-- `Scan(Value(bs)) = bs` on the text level -/
theorem b64Decode_encode (bs : Bytes) (h : ∀ x ∈ bs, x < 256) : b64Decode (b64Encode bs) = .ok bs := by
  unfold b64Decode
  rw [filter_encode, b64Encode_eq_map, mapVals_map _ (b64Vals_lt bs h)]
  simp only [b64Groups_vals bs h]

end Nv.C20
