import Nv.Model.C07
import Nv.Proofs.C07Yoe
set_option linter.unusedVariables false
/-!
C07 — the proleptic Gregorian calendar of the model: `daysOfCivil (civilOfDays z) = z` for every day number with
month 1…12 and day 1…31, and the instance `shanghai` is lawful on the instants 2000-01-01 … 9999-12-31 (local time),
so that `cn_roundtrip` holds for the concrete calendar without a hypothesis.
-/
namespace Nv.C07

/-- days ↔ civil date round trip, every day number (all eras) -/
theorem civil_round (z : Int) :
    daysOfCivil (civilOfDays z).1 (civilOfDays z).2.1 (civilOfDays z).2.2 = z ∧
    1 ≤ (civilOfDays z).2.1 ∧ (civilOfDays z).2.1 ≤ 12 ∧ 1 ≤ (civilOfDays z).2.2 ∧ (civilOfDays z).2.2 ≤ 31 := by
  have hd0 : 0 ≤ z + 719468 - (z + 719468) / 146097 * 146097 := by omega
  have hd1 : z + 719468 - (z + 719468) / 146097 * 146097 < 146097 := by omega
  have hy := yoe_spec _ hd0 hd1
  unfold YoeOk at hy
  unfold daysOfCivil civilOfDays
  simp only []
  generalize hdoe : z + 719468 - (z + 719468) / 146097 * 146097 = doe at *
  generalize hera : (z + 719468) / 146097 = era at *
  generalize hyoe : (doe - doe / 1460 + doe / 36524 - doe / 146096) / 365 = yoe at *
  obtain ⟨y0, y1, d0, d1⟩ := hy
  generalize hdoy : doe - (365 * yoe + yoe / 4 - yoe / 100) = doy at *
  have hz : z = era * 146097 + doe - 719468 := by omega
  subst hz
  clear hdoe hera hyoe hd0
  have hmp0 : 0 ≤ (5 * doy + 2) / 153 := by omega
  have hmp1 : (5 * doy + 2) / 153 ≤ 11 := by omega
  generalize hmp : (5 * doy + 2) / 153 = mp at *
  by_cases hm : mp < 10
  · simp only [if_pos hm]
    have h3 : ¬ (mp + 3 ≤ 2) := by omega
    simp only [if_neg h3]
    refine ⟨?_, by omega, by omega, by omega, by omega⟩
    omega
  · simp only [if_neg hm]
    have h3 : mp - 9 ≤ 2 := by omega
    simp only [if_pos h3]
    refine ⟨?_, by omega, by omega, by omega, by omega⟩
    omega

/-- the year of a day between 2000-01-01 and 9999-12-31 -/
theorem civil_year_bounds (z : Int) (h0 : 10957 ≤ z) (h1 : z ≤ 2932896) :
    0 ≤ (civilOfDays z).1 ∧ (civilOfDays z).1 ≤ 9999 := by
  have hd0 : 0 ≤ z + 719468 - (z + 719468) / 146097 * 146097 := by omega
  have hd1 : z + 719468 - (z + 719468) / 146097 * 146097 < 146097 := by omega
  have hy := yoe_spec _ hd0 hd1
  unfold YoeOk at hy
  unfold civilOfDays
  simp only []
  generalize hdoe : z + 719468 - (z + 719468) / 146097 * 146097 = doe at *
  generalize hera : (z + 719468) / 146097 = era at *
  generalize hyoe : (doe - doe / 1460 + doe / 36524 - doe / 146096) / 365 = yoe at *
  obtain ⟨y0, y1, d0, d1⟩ := hy
  generalize hdoy : doe - (365 * yoe + yoe / 4 - yoe / 100) = doy at *
  have hz : z = era * 146097 + doe - 719468 := by omega
  subst hz
  clear hdoe hera hyoe hd0
  have hmp0 : 0 ≤ (5 * doy + 2) / 153 := by omega
  have hmp1 : (5 * doy + 2) / 153 ≤ 11 := by omega
  generalize hmp : (5 * doy + 2) / 153 = mp at *
  by_cases hm : mp < 10
  · simp only [if_pos hm]
    have h3 : ¬ (mp + 3 ≤ 2) := by omega
    simp only [if_neg h3]
    omega
  · simp only [if_neg hm]
    have h3 : mp - 9 ≤ 2 := by omega
    simp only [if_pos h3]
    omega

/-- `time.Date` carries the day of the month linearly -/
theorem daysOfCivil_day (y m d : Int) : daysOfCivil y m 1 + (d - 1) = daysOfCivil y m d := by
  unfold daysOfCivil; simp only []; omega

/-- the instants the property speaks of: 2000-01-01T00:00:00Z … 9999-12-31T23:59:59.999+08:00 -/
def InCalendar (t : Int) : Prop := 946684800000 ≤ t ∧ t ≤ 253402271999999
instance (t : Int) : Decidable (InCalendar t) := by unfold InCalendar; exact inferInstance

/-- the calendar the oracle runs is lawful on those instants -/
theorem shanghai_lawful : shanghai.Lawful InCalendar := by
  have key : ∀ t, InCalendar t →
      let c := shanghaiToCivil t
      shanghaiOfCivil c.year c.month c.day c.hour c.minute c.second c.milli = t ∧
      (0 ≤ c.year ∧ c.year ≤ 9999) ∧ c.month ≤ 99 ∧ c.day ≤ 99 ∧ c.hour ≤ 99 ∧ c.minute ≤ 99 ∧ c.second ≤ 99 ∧ c.milli ≤ 999 := by
    intro t ht
    obtain ⟨t0, t1⟩ := ht
    have hdays0 : 10957 ≤ (t + shanghaiOffsetMs) / 86400000 := by unfold shanghaiOffsetMs; omega
    have hdays1 : (t + shanghaiOffsetMs) / 86400000 ≤ 2932896 := by unfold shanghaiOffsetMs; omega
    obtain ⟨hr, hm1, hm12, hdd1, hdd31⟩ := civil_round ((t + shanghaiOffsetMs) / 86400000)
    obtain ⟨hy0, hy1⟩ := civil_year_bounds _ hdays0 hdays1
    have hr0 : 0 ≤ (t + shanghaiOffsetMs) % 86400000 := by omega
    have hr1 : (t + shanghaiOffsetMs) % 86400000 < 86400000 := by omega
    simp only [shanghaiToCivil]
    generalize hymd : civilOfDays ((t + shanghaiOffsetMs) / 86400000) = ymd at *
    generalize hrr : (t + shanghaiOffsetMs) % 86400000 = r at *
    have hsplit : t + shanghaiOffsetMs = (t + shanghaiOffsetMs) / 86400000 * 86400000 + r := by omega
    generalize hdd : (t + shanghaiOffsetMs) / 86400000 = days at *
    have cm : ((ymd.2.1.toNat : Nat) : Int) = ymd.2.1 := Int.toNat_of_nonneg (by omega)
    have cd : ((ymd.2.2.toNat : Nat) : Int) = ymd.2.2 := Int.toNat_of_nonneg (by omega)
    have ch : (((r / 3600000).toNat : Nat) : Int) = r / 3600000 := Int.toNat_of_nonneg (by omega)
    have cmi : (((r / 60000 % 60).toNat : Nat) : Int) = r / 60000 % 60 := Int.toNat_of_nonneg (by omega)
    have cs : (((r / 1000 % 60).toNat : Nat) : Int) = r / 1000 % 60 := Int.toNat_of_nonneg (by omega)
    have cms : (((r % 1000).toNat : Nat) : Int) = r % 1000 := Int.toNat_of_nonneg (by omega)
    refine ⟨?_, ⟨by omega, hy1⟩, ?_, ?_, ?_, ?_, ?_, ?_⟩
    · unfold shanghaiOfCivil
      simp only [cm, cd, ch, cmi, cs, cms]
      have e1 : (ymd.2.1 - 1) / 12 = 0 := by omega
      have e2 : (ymd.2.1 - 1) % 12 + 1 = ymd.2.1 := by omega
      rw [e1, e2, Int.add_zero, daysOfCivil_day, hr]
      unfold shanghaiOffsetMs at hsplit ⊢
      omega
    all_goals omega
  exact ⟨fun t ht => (key t ht).1, fun t ht => (key t ht).2.1, fun t ht => (key t ht).2.2.1,
    fun t ht => (key t ht).2.2.2.1, fun t ht => (key t ht).2.2.2.2.1, fun t ht => (key t ht).2.2.2.2.2.1,
    fun t ht => (key t ht).2.2.2.2.2.2.1, fun t ht => (key t ht).2.2.2.2.2.2.2⟩

end Nv.C07
