import Nv.Proofs.C05Mem
/-! C05 — the redis-backed cache agrees with the in-memory one inside the comparison domain (simulation). -/
namespace Nv.C05

/-! ### go-redis formatting of a positive number of seconds -/

theorem fmt_pos (t : Int) (h : 0 < t) :
    goSetExpiry (t * nsPerSec) = .ex t ∧ goSetNXExpiry (t * nsPerSec) = .ex t ∧ formatSec (t * nsPerSec) = t := by
  have h1 : Int.tmod (t * nsPerSec) nsPerSec = 0 := Int.mul_tmod_left _ _
  have h2 : Int.tdiv (t * nsPerSec) nsPerSec = t := Int.mul_tdiv_cancel _ (by decide)
  have h3 : ¬ (t * nsPerSec < nsPerSec) := by simp only [nsPerSec]; omega
  have h4 : t * nsPerSec > 0 := by simp only [nsPerSec]; omega
  have h5 : ¬ (t * nsPerSec = 0) := by omega
  have h6 : ¬ (t * nsPerSec = -1) := by omega
  refine ⟨?_, ?_, ?_⟩
  · simp [goSetExpiry, usePrecise, formatSec, h1, h2, h3, h4]
  · simp [goSetNXExpiry, usePrecise, formatSec, h1, h2, h3, h5, h6]
  · simp [formatSec, h2, h3]

/-! ### the redis store -/

theorem rFind_erase_self (k : Key) (st : List REntry) : rFind k (rErase k st) = none := by
  induction st with
  | nil => rfl
  | cons e st ih =>
    simp only [rErase]; split
    · exact ih
    · rename_i h; simp [rFind, h, ih]

theorem rFind_erase_ne {k k' : Key} (h : k' ≠ k) (st : List REntry) : rFind k' (rErase k st) = rFind k' st := by
  induction st with
  | nil => rfl
  | cons e st ih =>
    simp only [rErase]; split
    · rename_i h2
      have : ¬ e.key = k' := fun e' => h (e'.symm.trans h2)
      simp [rFind, this, ih]
    · simp only [rFind, ih]

theorem rFind_put_self (k : Key) (v : Val) (x : Option Int) (st : List REntry) :
    rFind k (⟨k, v, x⟩ :: rErase k st) = some ⟨k, v, x⟩ := by simp [rFind]

theorem rFind_put_ne {k k' : Key} (h : k' ≠ k) (v : Val) (x : Option Int) (st : List REntry) :
    rFind k' (⟨k, v, x⟩ :: rErase k st) = rFind k' st := by
  have : ¬ k = k' := fun e => h e.symm
  simp [rFind, this, rFind_erase_ne h]

/-! ### the simulation relation -/

/-- deadline in seconds ↔ expiry in ms set at the same instant: `d*1000 ≤ x < (d+1)*1000` -/
def DlRel : Deadline → Option Int → Prop
  | some d, some x => d * 1000 ≤ x ∧ x < (d + 1) * 1000
  | _, _ => False

def RelK : Option Node → Option REntry → Prop
  | none, none => True
  | some n, some e => n.val = e.val ∧ DlRel n.dl e.exp
  | _, _ => False

def Rel (s : Sys) : Prop :=
  (∀ k, RelK (s.mem.lookup k) (rFind k s.rds.store)) ∧ s.rds.dttl = s.mem.dttl ∧ Bounded s.mem

/-- no call on a key at a clock reading equal to its deadline -/
def offDeadline (m : Mem) (sec : Int) (k : Key) : Prop := ∀ n, m.lookup k = some n → n.dl ≠ some sec

/-- the comparison domain of the property, per call -/
def admOp (s : Sys) : Op → Prop
  | .set k _ o =>
    ((o.keepTTL = true ∧ o.mustNotExist = false) ∨ 0 < o.ttl.getD s.mem.dttl) ∧ offDeadline s.mem (secOf s.clock) k ∧
    (o.keepTTL = true → o.mustNotExist = false →
      ∃ n, s.mem.lookup k = some n ∧ expired (secOf s.clock) n.dl = false) ∧
    (s.mem.lookup k = none → s.mem.live.length < s.mem.size)
  | .get k o => offDeadline s.mem (secOf s.clock) k ∧ ∀ t, o.update = some t → 0 < getTtl s.mem.dttl t
  | _ => True

theorem expired_iff {clock : Nat} {d x : Int} (h : DlRel (some d) (some x)) (hoff : (some d : Deadline) ≠ some (secOf clock)) :
    expired (secOf clock) (some d) = rExpired (clock : Int) (some x) := by
  simp only [DlRel] at h
  have hne : d ≠ secOf clock := fun e => hoff (by rw [e])
  simp only [expired, rExpired, secOf] at *
  rw [Bool.eq_iff_iff]; simp only [decide_eq_true_eq]
  constructor
  · intro h'; have := of_decide_eq_true h'; omega
  · intro h'; apply decide_eq_true; omega

theorem dlrel_fresh (clock : Nat) (t : Int) : DlRel (some (secOf clock + t)) (some ((clock : Int) + t * 1000)) := by
  simp only [DlRel, secOf]; omega

/-- both sides see the key dead, or both see it live with related entries -/
theorem live_agree {m : Mem} {st : List REntry} {clock : Nat} {k : Key}
    (hr : RelK (m.lookup k) (rFind k st)) (hoff : offDeadline m (secOf clock) k) :
    (m.lookup k = none ∧ rLive clock k st = none) ∨
    (∃ n e, m.lookup k = some n ∧ rFind k st = some e ∧ expired (secOf clock) n.dl = true ∧ rLive clock k st = none) ∨
    (∃ n e, m.lookup k = some n ∧ rFind k st = some e ∧ expired (secOf clock) n.dl = false ∧ rLive clock k st = some e ∧
      n.val = e.val ∧ DlRel n.dl e.exp) := by
  cases hl : m.lookup k with
  | none =>
    cases hf : rFind k st with
    | none => left; simp [rLive, hf]
    | some e => rw [hl, hf] at hr; exact hr.elim
  | some n =>
    cases hf : rFind k st with
    | none => rw [hl, hf] at hr; exact hr.elim
    | some e =>
      rw [hl, hf] at hr
      obtain ⟨hv, hd⟩ := hr
      right
      cases hnd : n.dl with
      | none => rw [hnd] at hd; exact hd.elim
      | some d =>
        cases hex : e.exp with
        | none => rw [hnd, hex] at hd; exact hd.elim
        | some x =>
          rw [hnd, hex] at hd
          have hne : (some d : Deadline) ≠ some (secOf clock) := by rw [← hnd]; exact hoff n hl
          have := expired_iff hd hne
          cases he : expired (secOf clock) (some d)
          · right; refine ⟨n, e, rfl, rfl, by rw [hnd]; exact he, ?_, hv, by rw [hnd, hex]; exact hd⟩
            rw [he] at this
            simp [rLive, hf, hex, ← this]
          · left; refine ⟨n, e, rfl, rfl, by rw [hnd]; exact he, ?_⟩
            rw [he] at this
            simp [rLive, hf, hex, ← this]

theorem relK_frame_removeKey {m : Mem} {st st' : List REntry} {k : Key}
    (h : ∀ k', RelK (m.lookup k') (rFind k' st)) (hs : ∀ k', k' ≠ k → rFind k' st' = rFind k' st)
    (hk : rFind k st' = none) : ∀ k', RelK ((m.removeKey k).lookup k') (rFind k' st') := by
  intro k'
  by_cases e : k' = k
  · subst e; rw [lookup_removeKey_self, hk]; trivial
  · rw [lookup_removeKey_ne m e, hs k' e]; exact h k'

theorem relK_frame_touch {m : Mem} {st st' : List REntry} {n : Node} {e : REntry}
    (h : ∀ k', RelK (m.lookup k') (rFind k' st)) (hs : ∀ k', k' ≠ n.key → rFind k' st' = rFind k' st)
    (hk : rFind n.key st' = some e) (hv : n.val = e.val) (hd : DlRel n.dl e.exp) :
    ∀ k', RelK ((m.touch n).lookup k') (rFind k' st') := by
  intro k'
  by_cases e' : k' = n.key
  · subst e'; rw [lookup_touch_self, hk]; exact ⟨hv, hd⟩
  · rw [lookup_touch_ne m n e', hs k' e']; exact h k'

theorem agree_get {c : Cfg} (hc : Proved c) {m : Mem} {r : Rds} {clock : Nat} {k : Key} {o : GetOpt}
    (hrel : ∀ k', RelK (m.lookup k') (rFind k' r.store)) (hd : r.dttl = m.dttl)
    (hoff : offDeadline m (secOf clock) k) (hupd : ∀ t, o.update = some t → 0 < getTtl m.dttl t) :
    (m.get (secOf clock) k o).2 = (r.get c clock k o).2 ∧
    (∀ k', RelK ((m.get (secOf clock) k o).1.lookup k') (rFind k' (r.get c clock k o).1.store)) ∧
    (r.get c clock k o).1.dttl = r.dttl := by
  have hunit : c.rdsUnit = .seconds := hc.2.2
  rcases live_agree (hrel k) hoff with ⟨hl, hr⟩ | ⟨n, e, hl, hf, he, hr⟩ | ⟨n, e, hl, hf, he, hr, hv, hdl⟩
  · -- absent on both sides
    have hres : (if o.remove = true then rGetDel (↑clock) k r.store else rGet (↑clock) k r.store) =
        (rErase k r.store, Reply.nil) := by split <;> simp [rGetDel, rGet, hr]
    simp only [Mem.get, hl, Rds.get, hres]
    refine ⟨by trivial, ?_, by trivial⟩
    intro k'
    by_cases e : k' = k
    · subst e; rw [hl, rFind_erase_self]; trivial
    · simp only [rFind_erase_ne e]; exact hrel k'
  · -- elapsed on both sides
    have hres : (if o.remove = true then rGetDel (↑clock) k r.store else rGet (↑clock) k r.store) =
        (rErase k r.store, Reply.nil) := by split <;> simp [rGetDel, rGet, hr]
    simp only [Mem.get, hl, he, if_true, Rds.get, hres]
    exact ⟨by trivial, relK_frame_removeKey hrel (fun k' e => rFind_erase_ne e _) (rFind_erase_self _ _), by trivial⟩
  · -- live on both sides
    have hkn := lookup_key hl
    by_cases hrm : o.remove = true
    · -- consumed: GETDEL (a following EXPIRE finds nothing)
      cases hu : o.update with
      | none =>
        simp only [Mem.get, hl, he, hrm, hu, if_true, Bool.false_eq_true, if_false, Rds.get, rGetDel, hr]
        exact ⟨by rw [hv], relK_frame_removeKey hrel (fun k' e => rFind_erase_ne e _) (rFind_erase_self _ _), by trivial⟩
      | some t =>
        have hr2 : rLive (↑clock) k (rErase k r.store) = none := by simp [rLive, rFind_erase_self]
        simp only [Mem.get, hl, he, hrm, hu, if_true, Bool.false_eq_true, if_false, Rds.get, rGetDel, hr, rExpire, hr2]
        refine ⟨by rw [hv], ?_, by trivial⟩
        apply relK_frame_removeKey hrel
        · intro k' e; rw [rFind_erase_ne e, rFind_erase_ne e]
        · rw [rFind_erase_self]
    · simp only [Mem.get, hl, he, hrm, Bool.false_eq_true, if_false, Rds.get, rGet, hr]
      cases hu : o.update with
      | none =>
        simp only [hu]
        refine ⟨by rw [hv], ?_, by trivial⟩
        exact relK_frame_touch (n := n) (e := e) hrel (fun _ _ => rfl) (by rw [hkn]; exact hf) hv hdl
      | some t =>
        have htp : 0 < getTtl m.dttl t := hupd t hu
        have hfm := (fmt_pos _ htp).2.2
        have hnp : ¬ (getTtl m.dttl t ≤ 0) := by omega
        simp only [hu, durOf, hunit, hd, hfm, rExpire, hr, hnp, if_false]
        refine ⟨by rw [hv], ?_, by trivial⟩
        apply relK_frame_touch (n := { n with dl := deadline (secOf clock) (getTtl m.dttl t) })
          (e := ⟨k, e.val, some ((clock : Int) + getTtl m.dttl t * 1000)⟩) hrel
        · intro k' e'; simp only [hkn] at e'; exact rFind_put_ne e' _ _ _
        · simp only [hkn]; exact rFind_put_self _ _ _ _
        · exact hv
        · simp only [deadline, hnp, if_false]; exact dlrel_fresh clock _

theorem lookup_insertNew_room {c : Cfg} (hc : c.indexOrder = .beforeEvict) {m : Mem} (h : m.live.length + 1 ≤ m.size)
    (n : Node) (k' : Key) : (m.insertNew c n).lookup k' = if k' = n.key then some n else m.lookup k' := by
  rcases insertNew_cases c m n with ⟨hgt, _⟩ | ⟨_, hne, _⟩ | ⟨_, e⟩
  · omega
  · exact absurd hc hne
  · rw [e]
    by_cases hk : k' = n.key
    · subst hk; simp [Mem.lookup, findKey]
    · have : ¬ n.key = k' := fun e => hk e.symm
      simp [Mem.lookup, findKey, hk, this]

/-- Set on a key that is absent on both sides (never set, removed, or elapsed and purged) -/
theorem agree_set_absent {c : Cfg} (hc : Proved c) {m0 : Mem} {r : Rds} {clock : Nat} {k : Key} (v : Val) {o : SetOpt}
    (hl0 : m0.lookup k = none) (hroom : m0.live.length + 1 ≤ m0.size)
    (hrel : ∀ k', k' ≠ k → RelK (m0.lookup k') (rFind k' r.store)) (hr : rLive clock k r.store = none)
    (hd : r.dttl = m0.dttl) (httl : 0 < o.ttl.getD m0.dttl) (hkeep : o.keepTTL = true → o.mustNotExist = true) :
    (m0.setCore c (secOf clock) k v o).2 = (r.set c clock k v o).2 ∧
    (∀ k', RelK ((m0.setCore c (secOf clock) k v o).1.lookup k') (rFind k' (r.set c clock k v o).1.store)) ∧
    (r.set c clock k v o).1.dttl = r.dttl := by
  have hunit : c.rdsUnit = .seconds := hc.2.2
  have hnp : ¬ (o.ttl.getD m0.dttl ≤ 0) := by omega
  obtain ⟨f1, f2, _⟩ := fmt_pos _ httl
  have hmem : m0.setCore c (secOf clock) k v o =
      (m0.insertNew c ⟨k, v, some (secOf clock + o.ttl.getD m0.dttl)⟩, .ok) := by
    simp only [Mem.setCore, hl0, setTtl, deadline, hnp, if_false]
  have hrds : r.set c clock k v o =
      ({ r with store := ⟨k, v, some ((clock : Int) + o.ttl.getD m0.dttl * 1000)⟩ :: rErase k r.store }, .ok) := by
    cases hm : o.mustNotExist
    · have hk : o.keepTTL = false := by
        cases hk : o.keepTTL
        · rfl
        · have := hkeep hk; rw [hm] at this; cases this
      simp [Rds.set, hm, hk, hd, durOf, hunit, f1, rSet, hnp, hr]
    · simp [Rds.set, hm, hd, durOf, hunit, f2, rSet, hnp, hr]
  rw [hmem, hrds]
  refine ⟨rfl, ?_, rfl⟩
  intro k'
  simp only
  rw [lookup_insertNew_room hc.2.1 hroom]
  by_cases e : k' = k
  · subst e
    simp only [if_true, rFind_put_self]
    exact ⟨rfl, dlrel_fresh clock _⟩
  · simp only [e, if_false, rFind_put_ne e]
    exact hrel k' e

theorem agree_set {c : Cfg} (hc : Proved c) {m : Mem} {r : Rds} {clock : Nat} {k : Key} (v : Val) {o : SetOpt}
    (hrel : ∀ k', RelK (m.lookup k') (rFind k' r.store)) (hd : r.dttl = m.dttl) (hb : Bounded m)
    (httl : (o.keepTTL = true ∧ o.mustNotExist = false) ∨ 0 < o.ttl.getD m.dttl) (hoff : offDeadline m (secOf clock) k)
    (hkeep : o.keepTTL = true → o.mustNotExist = false →
      ∃ n, m.lookup k = some n ∧ expired (secOf clock) n.dl = false)
    (hroom : m.lookup k = none → m.live.length < m.size) :
    (m.set c (secOf clock) k v o).2 = (r.set c clock k v o).2 ∧
    (∀ k', RelK ((m.set c (secOf clock) k v o).1.lookup k') (rFind k' (r.set c clock k v o).1.store)) ∧
    (r.set c clock k v o).1.dttl = r.dttl := by
  have hunit : c.rdsUnit = .seconds := hc.2.2
  have hpurge : c.setExpiry = .purge := hc.1
  have pos_of : ¬ (o.keepTTL = true ∧ o.mustNotExist = false) → 0 < o.ttl.getD m.dttl := fun h => httl.resolve_left h
  rcases live_agree (hrel k) hoff with ⟨hl, hr⟩ | ⟨n, e, hl, hf, he, hr⟩ | ⟨n, e, hl, hf, he, hr, hv, hdl⟩
  · -- absent
    have hp : m.preSet c (secOf clock) k = m := by simp only [Mem.preSet, hpurge, purge_absent hl]
    simp only [Mem.set, hp]
    have hpos : 0 < o.ttl.getD m.dttl := pos_of (fun ⟨hk, hm⟩ => by
      obtain ⟨n, hn, _⟩ := hkeep hk hm; rw [hl] at hn; cases hn)
    apply agree_set_absent hc v hl (by have := hroom hl; omega) (fun k' _ => hrel k') hr hd hpos
    intro hk
    cases hm : o.mustNotExist
    · obtain ⟨n, hn, _⟩ := hkeep hk hm; rw [hl] at hn; cases hn
    · rfl
  · -- elapsed: purged first, then like absent
    have hp : m.preSet c (secOf clock) k = m.removeKey k := by simp only [Mem.preSet, hpurge, purge_expired hl he]
    simp only [Mem.set, hp]
    have hlive : findKey k m.live = some n := by
      have := hl
      simp only [Mem.lookup, hb.1, findKey] at this
      split at this
      · rename_i y hy; rw [hy, this]
      · cases this
    have hpos : 0 < o.ttl.getD m.dttl := pos_of (fun ⟨hk, hm⟩ => by
      obtain ⟨n', hn', he'⟩ := hkeep hk hm
      rw [hl] at hn'; cases hn'; rw [he] at he'; cases he')
    apply agree_set_absent hc v (lookup_removeKey_self m k)
      (by have := eraseKey_length_lt hlive; have := hb.2; simp only [Mem.removeKey]; omega)
      (fun k' e' => by rw [lookup_removeKey_ne m e']; exact hrel k') hr hd hpos
    intro hk
    cases hm : o.mustNotExist
    · obtain ⟨n', hn', he'⟩ := hkeep hk hm
      rw [hl] at hn'; cases hn'; rw [he] at he'; cases he'
    · rfl
  · -- live on both sides
    have hkn := lookup_key hl
    have hp : m.preSet c (secOf clock) k = m := by
      simp only [Mem.preSet, hpurge, Mem.purgeIfExpired, hl, he, Bool.false_eq_true, if_false]
    simp only [Mem.set, hp]
    cases hm : o.mustNotExist
    · cases hk : o.keepTTL
      · -- overwrite with a fresh deadline
        have hpos : 0 < o.ttl.getD m.dttl := pos_of (fun ⟨h1, _⟩ => by rw [hk] at h1; cases h1)
        have hnp : ¬ (o.ttl.getD m.dttl ≤ 0) := by omega
        obtain ⟨f1, _, _⟩ := fmt_pos _ hpos
        simp only [Mem.setCore, hl, hm, hk, Bool.false_eq_true, if_false, setTtl, deadline, hnp,
          Rds.set, hd, durOf, hunit, f1, rSet, decide_false, Bool.false_and, hr]
        refine ⟨by trivial, ?_, by trivial⟩
        apply relK_frame_touch (n := { n with val := v, dl := some (secOf clock + o.ttl.getD m.dttl) })
          (e := ⟨k, v, some ((clock : Int) + o.ttl.getD m.dttl * 1000)⟩) hrel
        · intro k' e'; simp only [hkn] at e'; exact rFind_put_ne e' _ _ _
        · simp only [hkn]; exact rFind_put_self _ _ _ _
        · rfl
        · exact dlrel_fresh clock _
      · -- keep-ttl on a live key
        have hks : goSetExpiry (-1) = .keepttl := by decide
        simp only [Mem.setCore, hl, hm, hk, Bool.false_eq_true, if_false, if_true,
          Rds.set, hks, rSet, Bool.false_and, hr]
        refine ⟨by trivial, ?_, by trivial⟩
        apply relK_frame_touch (n := { n with val := v }) (e := ⟨k, v, e.exp⟩) hrel
        · intro k' e'; simp only [hkn] at e'; exact rFind_put_ne e' _ _ _
        · simp only [hkn]; exact rFind_put_self _ _ _ _
        · rfl
        · exact hdl
    · -- must-not-exist: both report already-exists, nothing changes
      have hpos : 0 < o.ttl.getD m.dttl := pos_of (fun ⟨_, h2⟩ => by rw [hm] at h2; cases h2)
      have hnp : ¬ (o.ttl.getD m.dttl ≤ 0) := by omega
      obtain ⟨_, f2, _⟩ := fmt_pos _ hpos
      simp only [Mem.setCore, hl, hm, if_true, Rds.set, hd, durOf, hunit, f2, rSet, hnp, decide_false,
        Bool.true_and, hr, Option.isSome_some, Bool.false_eq_true, if_false]
      exact ⟨by trivial, hrel, by trivial⟩

theorem dttl_touch (m : Mem) (n : Node) : (m.touch n).dttl = m.dttl := by unfold Mem.touch; split <;> rfl
theorem dttl_insertNew (c : Cfg) (m : Mem) (n : Node) : (m.insertNew c n).dttl = m.dttl := by
  rcases insertNew_cases c m n with ⟨_, e⟩ | ⟨_, _, e⟩ | ⟨_, e⟩ <;> rw [e]

theorem step_dttl (c : Cfg) (m : Mem) (now : Int) (op : Op) : (m.step c now op).1.dttl = m.dttl := by
  cases op with
  | set k v o =>
    simp only [Mem.step, Mem.set, Mem.setCore]
    have hp := dttl_preSet c m now k
    split
    · split
      · exact hp
      · rw [dttl_touch]; exact hp
    · rw [dttl_insertNew]; exact hp
  | get k o =>
    simp only [Mem.step, Mem.get]
    split
    · rfl
    · split
      · rfl
      · split
        · rfl
        · rw [dttl_touch]
  | remove k => rfl
  | clear => rfl
  | tick _ => rfl

/-- a history inside the comparison domain: every call is admissible in the state it is issued in -/
def Admissible (c : Cfg) : Sys → List Op → Prop
  | _, [] => True
  | s, op :: ops => admOp s op ∧ Admissible c (Sys.step c s op).1 ops

theorem agree_sys_step {c : Cfg} (hc : Proved c) {s : Sys} (hR : Rel s) {op : Op} (ha : admOp s op) :
    (Sys.step c s op).2.1 = (Sys.step c s op).2.2 ∧ Rel (Sys.step c s op).1 := by
  obtain ⟨hrel, hd, hb⟩ := hR
  cases op with
  | tick n => exact ⟨rfl, hrel, hd, hb⟩
  | clear =>
    refine ⟨rfl, ?_, hd, ⟨rfl, Nat.zero_le _⟩⟩
    intro k; simp [Sys.step, Mem.step, Rds.step, Mem.clear, Mem.lookup, findKey, rFind, RelK]
  | remove k =>
    refine ⟨rfl, ?_, hd, bounded_removeKey hb k⟩
    simp only [Sys.step, Mem.step, Rds.step]
    exact relK_frame_removeKey hrel (fun k' e => rFind_erase_ne e _) (rFind_erase_self _ _)
  | get k o =>
    obtain ⟨hoff, hupd⟩ := ha
    obtain ⟨h1, h2, h3⟩ := agree_get (o := o) hc hrel hd hoff hupd
    refine ⟨h1, h2, ?_, bounded_get hb _ k o⟩
    simp only [Sys.step, Mem.step, Rds.step]
    rw [h3, hd]; exact (step_dttl c s.mem (secOf s.clock) (.get k o)).symm
  | set k v o =>
    obtain ⟨httl, hoff, hkeep, hroom⟩ := ha
    obtain ⟨h1, h2, h3⟩ := agree_set (o := o) hc v hrel hd hb httl hoff hkeep hroom
    refine ⟨h1, h2, ?_, bounded_set hc.2.1 hb _ k v o⟩
    simp only [Sys.step, Mem.step, Rds.step]
    rw [h3, hd]; exact (step_dttl c s.mem (secOf s.clock) (.set k v o)).symm

theorem agree_run {c : Cfg} (hc : Proved c) : ∀ (ops : List Op) (s : Sys), Rel s → Admissible c s ops →
    ∀ o ∈ outs (Sys.step c) s ops, o.1 = o.2 := by
  intro ops
  induction ops with
  | nil => intro s _ _ o ho; simp at ho
  | cons op ops ih =>
    intro s hR ha o ho
    obtain ⟨h1, h2⟩ := agree_sys_step hc hR ha.1
    rw [outs_cons] at ho
    rcases List.mem_cons.1 ho with e | e
    · rw [e]; exact h1
    · exact ih _ h2 ha.2 o e

theorem rel_new (clock size : Nat) (dttl : Int) : Rel (Sys.new clock size dttl) := by
  refine ⟨?_, rfl, bounded_new size dttl⟩
  intro k; simp [Sys.new, Mem.new, Rds.new, Mem.lookup, findKey, rFind, RelK]

/-! ### a computable check of admissibility (used for the non-vacuity examples) -/

def offDeadlineB (m : Mem) (sec : Int) (k : Key) : Bool :=
  match m.lookup k with
  | some n => decide (n.dl ≠ some sec)
  | none => true

def admOpB (s : Sys) : Op → Bool
  | .set k _ o =>
    ((o.keepTTL && !o.mustNotExist) || decide (0 < o.ttl.getD s.mem.dttl)) && offDeadlineB s.mem (secOf s.clock) k &&
    (!(o.keepTTL && !o.mustNotExist) ||
      (match s.mem.lookup k with
        | some n => !expired (secOf s.clock) n.dl
        | none => false)) &&
    ((s.mem.lookup k).isSome || decide (s.mem.live.length < s.mem.size))
  | .get k o => offDeadlineB s.mem (secOf s.clock) k &&
    (match o.update with
      | some t => decide (0 < getTtl s.mem.dttl t)
      | none => true)
  | _ => true

def admissibleB (c : Cfg) : Sys → List Op → Bool
  | _, [] => true
  | s, op :: ops => admOpB s op && admissibleB c (Sys.step c s op).1 ops

theorem offDeadlineB_sound {m : Mem} {sec : Int} {k : Key} (h : offDeadlineB m sec k = true) : offDeadline m sec k := by
  intro n hn
  simp only [offDeadlineB, hn] at h
  exact of_decide_eq_true h

theorem admOpB_sound {s : Sys} {op : Op} (h : admOpB s op = true) : admOp s op := by
  cases op with
  | set k v o =>
    simp only [admOpB, Bool.and_eq_true, Bool.or_eq_true, decide_eq_true_eq] at h
    obtain ⟨⟨⟨h1, h2⟩, h3⟩, h4⟩ := h
    refine ⟨h1.imp (fun ⟨a, b⟩ => ⟨a, by simpa using b⟩) id, offDeadlineB_sound h2, ?_, ?_⟩
    · intro hk hm
      rcases h3 with h3 | h3
      · simp [hk, hm] at h3
      · cases hl : s.mem.lookup k with
        | none => simp [hl] at h3
        | some n => rw [hl] at h3; exact ⟨n, rfl, by simpa using h3⟩
    · intro hl
      rcases h4 with h4 | h4
      · simp [hl] at h4
      · exact h4
  | get k o =>
    simp only [admOpB, Bool.and_eq_true] at h
    refine ⟨offDeadlineB_sound h.1, ?_⟩
    intro t ht
    have := h.2
    simp only [ht, decide_eq_true_eq] at this
    exact this
  | remove k => trivial
  | clear => trivial
  | tick n => trivial

theorem admissibleB_sound {c : Cfg} : ∀ (ops : List Op) (s : Sys), admissibleB c s ops = true → Admissible c s ops := by
  intro ops
  induction ops with
  | nil => intro _ _; trivial
  | cons op ops ih =>
    intro s h
    simp only [admissibleB, Bool.and_eq_true] at h
    exact ⟨admOpB_sound h.1, ih _ h.2⟩

end Nv.C05
