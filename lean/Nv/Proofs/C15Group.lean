import Nv.Proofs.C15Handlers
/-! C15 — the group invariant: every cached entry is in its key's worker and equals the store's value. -/
namespace Nv.C15

def Inv (loc : Loc) (s : State) : Prop :=
  ∀ w c, s.caches[w]? = some c → ∀ k v, (k, v) ∈ c.ents →
    sGet s.store k = some v ∧ workerOf loc s.caches.length k = some w

theorem inv_init (loc : Loc) (lru sized : Bool) (cap workers : Nat) : Inv loc (State.init lru sized cap workers) := by
  intro w c hc k v hm
  simp only [State.init] at hc
  rw [List.getElem?_replicate] at hc
  split at hc
  · cases hc; simp at hm
  · cases hc

theorem inv_step (cfg : Cfg) (hd : DelOk cfg) (loc : Loc) (s : State) (inp : Op × List Bool) (h : Inv loc s) :
    Inv loc (step cfg loc s inp).1 := by
  unfold step
  split
  · exact h
  · rename_i w hw
    split
    · exact h
    · rename_i ca hca
      have hok := handle_ok cfg hd ⟨s.store, ca, inp.2, []⟩ inp.1
      have hcoh : CohC s.store ca := fun k v hm => (h w ca hca k v hm).1
      intro w' c' hc' k v hm
      simp only [List.length_set] at hc' ⊢
      by_cases hww : w' = w
      · subst hww
        have hlt : w' < s.caches.length := by
          rcases List.getElem?_eq_some_iff.1 hca with ⟨hl, _⟩; exact hl
        rw [List.getElem?_set_self hlt] at hc'
        cases hc'
        refine ⟨hok.coh hcoh k v hm, ?_⟩
        rcases hok.ents (k, v) hm with e | e
        · exact (h w' ca hca k v e).2
        · simp only at e; rw [e]; exact hw
      · have hne : w ≠ w' := fun e => hww e.symm
        rw [List.getElem?_set_ne hne] at hc'
        have hold := h w' c' hc' k v hm
        refine ⟨?_, hold.2⟩
        have hk : k ≠ inp.1.key := by
          intro e; rw [e, hw] at hold; exact hww (Option.some.inj hold.2).symm
        rw [hok.frame k hk]; exact hold.1

theorem inv_final (cfg : Cfg) (hd : DelOk cfg) (loc : Loc) (ops : List (Op × List Bool)) (s : State) (h : Inv loc s) :
    Inv loc (final (step cfg loc) s ops) :=
  final_inv (step cfg loc) (Inv loc) (fun _ => True) (fun s i hs _ => inv_step cfg hd loc s i hs) ops s h
    (fun _ _ => trivial)

theorem coherent_of_inv {loc : Loc} {s : State} (h : Inv loc s) : Coherent s := by
  intro c hc k v hm
  rcases List.mem_iff_getElem?.1 hc with ⟨w, hw⟩
  exact (h w c hw k v hm).1

end Nv.C15
