import Nv.Model.C01
/-!
C01 — lemmas about one `*Weighted`: `notifyWaiters` admits a maximal fitting prefix of the queue,
and the numeric invariant `SemOk` is preserved by acquire / release / cancel.
-/
namespace Nv.C01

theorem wsum_nil : wsum [] = 0 := rfl
theorem wsum_cons (x : W) (l : List W) : wsum (x :: l) = x.2 + wsum l := by simp [wsum]
theorem wsum_append (a b : List W) : wsum (a ++ b) = wsum a + wsum b := by
  simp [wsum, List.map_append, List.sum_append]
theorem wsum_single (x : W) : wsum [x] = x.2 := by simp [wsum]

theorem wsum_filter_split (l : List W) (t : Tid) :
    wsum (l.filter (·.1 = t)) + wsum (l.filter (·.1 ≠ t)) = wsum l := by
  induction l with
  | nil => simp [wsum]
  | cons x xs ih =>
    by_cases h : x.1 = t <;> simp [List.filter, h, wsum] at * <;> omega

theorem wsum_zero_nil (l : List W) (hp : ∀ h ∈ l, 1 ≤ h.2) (hz : wsum l = 0) : l = [] := by
  cases l with
  | nil => rfl
  | cons x xs =>
    have := hp x (by simp)
    simp [wsum] at hz
    omega

/-- number of waiters `notify` admits: the longest prefix that fits, one by one -/
def grantCount (size : Nat) : Nat → List W → Nat
  | _, [] => 0
  | cur, w :: ws => if size - cur < w.2 then 0 else grantCount size (cur + w.2) ws + 1

/-- `notifyWaiters` moves a prefix of the queue, in order, to the holders -/
theorem notify_eq (size : Nat) : ∀ (ws : List W) (cur : Nat) (hs : List W),
    notify size cur hs ws =
      ⟨cur + wsum (ws.take (grantCount size cur ws)), hs ++ ws.take (grantCount size cur ws),
        ws.drop (grantCount size cur ws)⟩
  | [], cur, hs => by simp [notify, grantCount, wsum]
  | w :: ws, cur, hs => by
    unfold notify grantCount
    split
    · simp [wsum]
    · rw [notify_eq size ws]
      simp [wsum_cons, Nat.add_assoc]

theorem notify_waiters (size : Nat) (ws : List W) (cur : Nat) (hs : List W) :
    (notify size cur hs ws).waiters = ws.drop (grantCount size cur ws) := by rw [notify_eq]

theorem notify_holders (size : Nat) (ws : List W) (cur : Nat) (hs : List W) :
    (notify size cur hs ws).holders = hs ++ ws.take (grantCount size cur ws) := by rw [notify_eq]

theorem notify_cur (size : Nat) (ws : List W) (cur : Nat) (hs : List W) :
    (notify size cur hs ws).cur = cur + wsum (ws.take (grantCount size cur ws)) := by rw [notify_eq]

/-- what is left at the head after `notify` does not fit -/
theorem notify_head_blocked (size : Nat) : ∀ (ws : List W) (cur : Nat) (hs : List W) (w : W) (rest : List W),
    (notify size cur hs ws).waiters = w :: rest → size - (notify size cur hs ws).cur < w.2
  | [], cur, hs, w, rest, h => by simp [notify] at h
  | x :: xs, cur, hs, w, rest, h => by
    unfold notify at h ⊢
    split
    · rename_i hb
      simp only [hb, if_true] at h
      cases h
      exact hb
    · rename_i hb
      simp only [hb, if_false] at h
      exact notify_head_blocked size xs _ _ w rest h

/-- a blocked head stays blocked: `notify` admits nobody -/
theorem grantCount_blocked (size cur : Nat) (w : W) (ws : List W) (h : size - cur < w.2) :
    grantCount size cur (w :: ws) = 0 := by simp [grantCount, h]

/-! ### the numeric invariant of one object -/

structure SemOk (size : Nat) (o : Sem) : Prop where
  cur_eq : o.cur = wsum o.holders
  cur_le : o.cur ≤ size
  hpos : ∀ h ∈ o.holders, 1 ≤ h.2
  wpos : ∀ w ∈ o.waiters, 1 ≤ w.2 ∧ w.2 ≤ size
  head : ∀ w ws, o.waiters = w :: ws → size - o.cur < w.2

/-- with a non-empty queue somebody holds -/
theorem SemOk.cur_pos_of_waiters {size : Nat} {o : Sem} (h : SemOk size o) (hw : o.waiters ≠ []) : 0 < o.cur := by
  cases hws : o.waiters with
  | nil => exact absurd hws hw
  | cons w ws =>
    have h1 := h.head w ws hws
    have h2 := (h.wpos w (by simp [hws])).2
    omega

theorem notify_ok (size : Nat) : ∀ (ws : List W) (cur : Nat) (hs : List W),
    cur = wsum hs → cur ≤ size → (∀ h ∈ hs, 1 ≤ h.2) → (∀ w ∈ ws, 1 ≤ w.2 ∧ w.2 ≤ size) →
    SemOk size (notify size cur hs ws) := by
  intro ws cur hs h1 h2 h3 h4
  refine ⟨?_, ?_, ?_, ?_, ?_⟩
  · rw [notify_cur, notify_holders, wsum_append, h1]
  · -- by induction: every admitted waiter fitted
    clear h1 h3 h4
    induction ws generalizing cur hs with
    | nil => simpa [notify] using h2
    | cons w ws ih =>
      unfold notify
      split
      · exact h2
      · exact ih _ _ (by omega)
  · intro h hh
    rw [notify_holders] at hh
    rcases List.mem_append.1 hh with hh | hh
    · exact h3 h hh
    · exact (h4 h (List.mem_of_mem_take hh)).1
  · intro w hw
    rw [notify_waiters] at hw
    exact h4 w (List.mem_of_mem_drop hw)
  · intro w rest hw
    exact notify_head_blocked size ws cur hs w rest hw

theorem acquire_ok (size : Nat) (o : Sem) (t : Tid) (n : Nat) (hn1 : 1 ≤ n) (hn2 : n ≤ size) (h : SemOk size o) :
    SemOk size (o.acquire size t n) := by
  obtain ⟨h1, h2, h3, h4, h5⟩ := h
  unfold Sem.acquire
  split
  · rename_i hc
    refine ⟨?_, ?_, ?_, h4, ?_⟩
    · simp only [wsum_append, h1, wsum_single]
    · simp only; omega
    · intro h hh
      rcases List.mem_append.1 hh with hh | hh
      · exact h3 h hh
      · simp at hh; subst hh; exact hn1
    · intro w ws hw; simp only at hw; rw [hc.2] at hw; cases hw
  · rename_i hc
    split
    · exact ⟨h1, h2, h3, h4, h5⟩
    · refine ⟨h1, h2, h3, ?_, ?_⟩
      · intro w hw
        rcases List.mem_append.1 hw with hw | hw
        · exact h4 w hw
        · simp at hw; subst hw; exact ⟨hn1, hn2⟩
      · intro w ws hw
        simp only at hw
        cases hws : o.waiters with
        | nil =>
          rw [hws] at hw; simp at hw
          obtain ⟨rfl, _⟩ := hw
          have : ¬ (size - o.cur ≥ n) := fun hge => hc ⟨hge, hws⟩
          simp only; omega
        | cons x xs =>
          rw [hws] at hw; simp at hw
          obtain ⟨rfl, _⟩ := hw
          exact h5 x xs hws

/-- the first acquire on a fresh object is granted at once -/
theorem acquire_fresh (size : Nat) (t : Tid) (n : Nat) (hn2 : n ≤ size) :
    (⟨0, [], []⟩ : Sem).acquire size t n = ⟨n, [(t, n)], []⟩ := by
  simp [Sem.acquire, hn2]

theorem fresh_ok (size : Nat) (t : Tid) (n : Nat) (hn1 : 1 ≤ n) (hn2 : n ≤ size) :
    SemOk size ⟨n, [(t, n)], []⟩ := by
  refine ⟨by simp [wsum], hn2, by simp [hn1], by simp, by simp⟩

theorem release_ok (size : Nat) (o : Sem) (t : Tid) (h : SemOk size o) :
    SemOk size (o.release size t) := by
  obtain ⟨h1, h2, h3, h4, _⟩ := h
  unfold Sem.release
  apply notify_ok
  · have := wsum_filter_split o.holders t
    rw [h1]; omega
  · omega
  · intro x hx; exact h3 x (List.mem_filter.1 hx).1
  · exact h4

theorem filter_head_ne (t : Tid) (w : W) (ws : List W) (h : (w.1 == t) = false) :
    (w :: ws).filter (·.1 ≠ t) = w :: ws.filter (·.1 ≠ t) := by
  have : w.1 ≠ t := by simpa using h
  simp [List.filter, this]

theorem cancel_ok (size : Nat) (o : Sem) (t : Tid) (h : SemOk size o) :
    SemOk size (o.cancel size t) := by
  obtain ⟨h1, h2, h3, h4, h5⟩ := h
  have h4' : ∀ w ∈ o.waiters.filter (·.1 ≠ t), 1 ≤ w.2 ∧ w.2 ≤ size :=
    fun w hw => h4 w (List.mem_filter.1 hw).1
  unfold Sem.cancel
  split
  · exact notify_ok size _ _ _ h1 h2 h3 h4'
  · rename_i hc
    refine ⟨h1, h2, h3, h4', ?_⟩
    intro w ws hw
    simp only at hw ⊢
    cases hws : o.waiters with
    | nil => rw [hws] at hw; simp at hw
    | cons x xs =>
      cases hf : (x.1 == t) with
      | false =>
        rw [hws, filter_head_ne t x xs hf] at hw
        cases hw
        exact h5 _ xs hws
      | true =>
        -- t was the head, so no token is left: nothing fits
        have hfront : isFront t o.waiters = true := by simp [isFront, hws, hf]
        have hle : ¬ size > o.cur := fun hgt => hc ⟨hfront, hgt⟩
        have hmem : w ∈ o.waiters.filter (·.1 ≠ t) := by rw [hw]; simp
        have := (h4' w hmem).1
        omega

end Nv.C01
