import Nv.Spec.C20
/-! C20 — helper lemmas: the strconv model returns exactly the denoted number or an error. -/
namespace Nv.C20

theorem baseVal_nil (base n : Nat) : baseVal base n [] = n := rfl
theorem baseVal_cons (base n c : Nat) (cs : Bytes) :
    baseVal base n (c :: cs) = baseVal base (n * base + (digitVal c).getD 0) cs := rfl

theorem baseVal_ge (base : Nat) (hb : 1 ≤ base) : ∀ (s : Bytes) (n : Nat), n ≤ baseVal base n s
  | [], n => Nat.le_refl n
  | c :: cs, n => by
    rw [baseVal_cons]
    have h1 : n ≤ n * base := Nat.le_mul_of_pos_right n hb
    exact Nat.le_trans (Nat.le_trans h1 (Nat.le_add_right _ _)) (baseVal_ge base hb cs _)

theorem baseVal_append (base n : Nat) (s t : Bytes) :
    baseVal base n (s ++ t) = baseVal base (baseVal base n s) t := by
  simp [baseVal, List.foldl_append]

/-- soundness of the digit loop: a result is the exact value of an all-digit string, below 2^bits -/
theorem parseUintLoop_ok (base bits : Nat) : ∀ (s : Bytes) (n m : Nat), n < 2 ^ bits →
    parseUintLoop base bits n s = .ok m → BaseDigits base s ∧ baseVal base n s = m ∧ m < 2 ^ bits
  | [], n, m, hn, h => by
    simp only [parseUintLoop, Res.ok.injEq] at h
    subst h
    exact ⟨fun c hc => (by cases hc), rfl, hn⟩
  | c :: cs, n, m, hn, h => by
    simp only [parseUintLoop] at h
    cases hd : digitVal c with
    | none => simp [hd] at h
    | some d =>
      simp only [hd] at h
      split at h
      · cases h
      · split at h
        · cases h
        · rename_i hlt hov
          have ih := parseUintLoop_ok base bits cs (n * base + d) m (by omega) h
          refine ⟨?_, ?_, ih.2.2⟩
          · intro x hx
            rcases List.mem_cons.1 hx with rfl | hx
            · exact ⟨d, hd, by omega⟩
            · exact ih.1 x hx
          · rw [baseVal_cons, hd]; exact ih.2.1

/-- completeness of the digit loop: an all-digit string whose value fits is parsed to that value -/
theorem parseUintLoop_complete (base bits : Nat) (hb : 1 ≤ base) : ∀ (s : Bytes) (n : Nat),
    BaseDigits base s → baseVal base n s < 2 ^ bits → parseUintLoop base bits n s = .ok (baseVal base n s)
  | [], n, _, _ => rfl
  | c :: cs, n, hd, hv => by
    obtain ⟨d, hdc, hdb⟩ := hd c (by simp)
    have hmono := baseVal_ge base hb cs (n * base + d)
    rw [baseVal_cons, hdc] at hv ⊢
    simp only [Option.getD_some] at hv ⊢
    simp only [parseUintLoop, hdc]
    rw [if_neg (by omega), if_neg (by omega)]
    exact parseUintLoop_complete base bits hb cs _ (fun x hx => hd x (by simp [hx])) hv

/-- an all-digit string whose value does not fit is a range error — never a wrapped value -/
theorem parseUintLoop_overflow (base bits : Nat) (hb : 1 ≤ base) : ∀ (s : Bytes) (n : Nat),
    BaseDigits base s → 2 ^ bits ≤ baseVal base n s → n < 2 ^ bits → parseUintLoop base bits n s = .err .range
  | [], n, _, hv, hn => by simp [baseVal] at hv; omega
  | c :: cs, n, hd, hv, hn => by
    obtain ⟨d, hdc, hdb⟩ := hd c (by simp)
    rw [baseVal_cons, hdc] at hv
    simp only [Option.getD_some] at hv
    simp only [parseUintLoop, hdc]
    rw [if_neg (by omega)]
    split
    · rfl
    · exact parseUintLoop_overflow base bits hb cs _ (fun x hx => hd x (by simp [hx])) hv (by omega)

/-! ### decimal: `BaseDigits 10` is `DecDigits`, `baseVal 10 0` is `decVal` -/

theorem digitVal_dec {c d : Nat} (h : digitVal c = some d) (hd : d < 10) : 48 ≤ c ∧ c ≤ 57 ∧ d = c - 48 := by
  unfold digitVal at h
  split at h
  · simp at h; omega
  · split at h
    · simp at h; omega
    · split at h
      · simp at h; omega
      · cases h

theorem digitVal_of_dec {c : Nat} (h : 48 ≤ c ∧ c ≤ 57) : digitVal c = some (c - 48) := by
  unfold digitVal; simp [h]

theorem baseDigits10_iff (s : Bytes) : BaseDigits 10 s ↔ ∀ c ∈ s, 48 ≤ c ∧ c ≤ 57 := by
  constructor
  · intro h c hc
    obtain ⟨d, h1, h2⟩ := h c hc
    have := digitVal_dec h1 h2
    omega
  · intro h c hc
    exact ⟨c - 48, digitVal_of_dec (h c hc), by have := h c hc; omega⟩

theorem baseVal10_eq (s : Bytes) (h : ∀ c ∈ s, 48 ≤ c ∧ c ≤ 57) : ∀ n, baseVal 10 n s = s.foldl (fun n c => n * 10 + (c - 48)) n := by
  induction s with
  | nil => intro n; rfl
  | cons c cs ih =>
    intro n
    rw [baseVal_cons, digitVal_of_dec (h c (by simp))]
    simp only [Option.getD_some, List.foldl_cons]
    exact ih (fun x hx => h x (by simp [hx])) _

theorem baseVal10_decVal (s : Bytes) (h : ∀ c ∈ s, 48 ≤ c ∧ c ≤ 57) : baseVal 10 0 s = decVal s :=
  baseVal10_eq s h 0

/-- `ParseUint(s, 10, bits)`: exactly the denoted number or an error -/
theorem parseUint10_ok {bits : Nat} {s : Bytes} {m : Nat} (h : parseUint 10 bits s = .ok m) :
    DecDigits s ∧ m = decVal s ∧ m < 2 ^ bits := by
  cases s with
  | nil => simp [parseUint] at h
  | cons c cs =>
    simp only [parseUint] at h
    have := parseUintLoop_ok 10 bits (c :: cs) 0 m (Nat.two_pow_pos bits) h
    have hd := (baseDigits10_iff _).1 this.1
    exact ⟨⟨by simp, hd⟩, by rw [← baseVal10_decVal _ hd]; exact this.2.1.symm, this.2.2⟩

theorem parseUint10_complete {bits : Nat} {s : Bytes} (hd : DecDigits s) (hv : decVal s < 2 ^ bits) :
    parseUint 10 bits s = .ok (decVal s) := by
  cases s with
  | nil => exact absurd rfl hd.1
  | cons c cs =>
    simp only [parseUint]
    rw [← baseVal10_decVal _ hd.2] at hv ⊢
    exact parseUintLoop_complete 10 bits (by omega) _ 0 ((baseDigits10_iff _).2 hd.2) hv

theorem parseUint10_overflow {bits : Nat} {s : Bytes} (hd : DecDigits s) (hv : 2 ^ bits ≤ decVal s) :
    parseUint 10 bits s = .err .range := by
  cases s with
  | nil => exact absurd rfl hd.1
  | cons c cs =>
    simp only [parseUint]
    rw [← baseVal10_decVal _ hd.2] at hv
    exact parseUintLoop_overflow 10 bits (by omega) _ 0 ((baseDigits10_iff _).2 hd.2) hv (Nat.two_pow_pos bits)

end Nv.C20
