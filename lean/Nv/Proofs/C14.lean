import Nv.Model.C14
/-! C14 — helper lemmas and the inductive invariant of one lane. -/
namespace Nv.C14

/-! ### log observers distribute over append -/

theorem startIds_append (a b : List Ev) : startIds (a ++ b) = startIds a ++ startIds b := by
  induction a with
  | nil => rfl
  | cons e es ih => cases e <;> simp [startIds, ih]

theorem runEvents_append (a b : List Ev) : runEvents (a ++ b) = runEvents a ++ runEvents b := by
  induction a with
  | nil => rfl
  | cons e es ih => cases e <;> simp [runEvents, ih]

theorem runState_append (a : List (Bool × Nat)) (x : Bool × Nat) : runState (a ++ [x]) = runStep (runState a) x := by
  simp [runState, List.foldl_append]

theorem mem_startIds {log : List Ev} {id : Nat} : id ∈ startIds log ↔ ∃ ln, Ev.start id ln ∈ log := by
  induction log with
  | nil => simp [startIds]
  | cons e es ih =>
    cases e with
    | start i ln =>
      simp only [startIds, List.mem_cons, ih]
      constructor
      · rintro (h | ⟨ln', h⟩)
        · exact ⟨ln, Or.inl (by rw [h])⟩
        · exact ⟨ln', Or.inr h⟩
      · rintro ⟨ln', h | h⟩
        · left; cases h; rfl
        · right; exact ⟨ln', h⟩
    | fin i r => simp [startIds, ih]
    | ret i r => simp [startIds, ih]
    | exit ln => simp [startIds, ih]

/-! ### what each action can do -/

theorem submit_effect (cfg : Cfg) (l l' : Lane) (id : Nat) (enq : Bool)
    (h : l.step cfg (.submit id enq) = some l') :
    l.next ≤ id ∧ ((l' = l.accept id ∧ (l.stopped = false ∨ (l.kind = .pchan ∧ cfg.pchanAccept ≠ .stopFirst))) ∨
      ∃ r, l' = l.reject id r ∧ (r = .full ∨ (r = .closed ∧ l.stopped = true))) := by
  simp only [Lane.step] at h
  split at h
  · cases h
  · rename_i hid
    refine ⟨by omega, ?_⟩
    split at h
    · rename_i hk
      have hk' : l.kind = .pchan := by simpa using hk
      split at h
      · rename_i hs
        have hs' : l.stopped = false := by simpa using hs
        split at h
        · cases h; exact Or.inl ⟨rfl, Or.inl hs'⟩
        · cases h; exact Or.inr ⟨_, rfl, Or.inl rfl⟩
      · rename_i hs
        have hs' : l.stopped = true := by simpa using hs
        split at h
        · cases h; exact Or.inr ⟨_, rfl, Or.inr ⟨rfl, hs'⟩⟩
        · rename_i hne
          split at h
          · cases h
            refine Or.inl ⟨rfl, Or.inr ⟨hk', ?_⟩⟩
            intro e; exact hne e
          · cases h; exact Or.inr ⟨_, rfl, Or.inr ⟨rfl, hs'⟩⟩
    · split at h
      · rename_i hs; cases h; exact Or.inr ⟨_, rfl, Or.inr ⟨rfl, hs⟩⟩
      · rename_i hs
        have hs' : l.stopped = false := by simpa using hs
        split at h
        · cases h; exact Or.inr ⟨_, rfl, Or.inl rfl⟩
        · cases h; exact Or.inl ⟨rfl, Or.inl hs'⟩

theorem pop_effect (cfg : Cfg) (l l' : Lane) (take : Bool) (h : l.step cfg (.pop take) = some l') :
    l.cons = .idle ∧ ((l' = l.doExit ∧ l.stopped = true ∧ (l.queue = [] ∨ l.kind = .pchan)) ∨
      ∃ c rest, l.queue = c :: rest ∧ l' = l.take c rest) := by
  simp only [Lane.step] at h
  split at h
  · cases h
  split at h
  · rename_i hc
    refine ⟨hc, ?_⟩
    split at h
    · rename_i hq
      split at h
      · rename_i hs; cases h; exact Or.inl ⟨rfl, hs, Or.inl hq⟩
      · cases h
    · rename_i c rest hq
      split at h
      · rename_i hcond
        cases h
        simp only [Bool.and_eq_true, beq_iff_eq] at hcond
        exact Or.inl ⟨rfl, hcond.1.2, Or.inr hcond.1.1⟩
      · cases h; exact Or.inr ⟨c, rest, hq, rfl⟩
  · cases h

theorem finish_effect (cfg : Cfg) (l l' : Lane) (id : Nat) (r : Res) (h2 : l.cons2 = none)
    (h : l.step cfg (.finish id r) = some l') :
    l.cons = .running id ∧ isCalleeRes r = true ∧
    l' = { l with cons := .idle, log := l.log ++ [.fin id r],
                  calls := updCall l.calls id (fun c => { c with cell := some r }) } := by
  simp only [Lane.step] at h
  split at h
  · rename_i hc
    simp only [Bool.and_eq_true, beq_iff_eq] at hc
    cases h; exact ⟨hc.1, hc.2, rfl⟩
  · simp [h2] at h

theorem run_effect (cfg : Cfg) (l l' : Lane) (h : l.step cfg .run = some l') :
    l' = { l with started := true } ∨ l' = l ∨
    (l' = { l with cons2 := some .idle } ∧ l.kind = .mline ∧ cfg.mlineRun ≠ .once) := by
  simp only [Lane.step] at h
  split at h
  · cases h; exact Or.inl rfl
  · split at h
    · rename_i hc
      simp only [Bool.and_eq_true, beq_iff_eq, bne_iff_ne, ne_eq] at hc
      cases h; exact Or.inr (Or.inr ⟨rfl, hc.1.1, hc.1.2⟩)
    · cases h; exact Or.inr (Or.inl rfl)

theorem pop2_disabled (cfg : Cfg) (l : Lane) (h2 : l.cons2 = none) : l.step cfg .pop2 = none := by
  simp [Lane.step, h2]

theorem recv_effect (cfg : Cfg) (l l' : Lane) (id pick : Nat) (h : l.step cfg (.recv id pick) = some l') :
    ∃ c r, getCall l id = some c ∧ c.waiting = true ∧
      l' = { l with log := l.log ++ [.ret id r], calls := updCall l.calls id (fun c => { c with waiting := false }) } ∧
      ((pick = 0 ∧ c.cell = some r) ∨ (pick = 1 ∧ c.ctxDone = true ∧ r = .ctx) ∨
       (pick = 2 ∧ l.kind = .pchan ∧ l.stopped = true ∧ r = .closed)) := by
  simp only [Lane.step] at h
  split at h
  · cases h
  · rename_i c hc
    split at h
    · cases h
    · rename_i hw
      have hw' : c.waiting = true := by simpa using hw
      split at h
      · split at h
        · rename_i r hr; cases h; exact ⟨c, r, hc, hw', rfl, Or.inl ⟨rfl, hr⟩⟩
        · cases h
      · split at h
        · rename_i hd; cases h; exact ⟨c, .ctx, hc, hw', rfl, Or.inr (Or.inl ⟨rfl, hd, rfl⟩)⟩
        · cases h
      · split at h
        · rename_i hd
          simp only [Bool.and_eq_true, beq_iff_eq] at hd
          cases h; exact ⟨c, .closed, hc, hw', rfl, Or.inr (Or.inr ⟨rfl, hd.1, hd.2, rfl⟩)⟩
        · cases h
      · cases h

theorem cancel_effect (cfg : Cfg) (l l' : Lane) (id : Nat) (h : l.step cfg (.cancel id) = some l') :
    l' = { l with calls := updCall l.calls id (fun c => { c with ctxDone := true }) } := by
  simp only [Lane.step] at h
  split at h
  · cases h
  · cases h; rfl

theorem stop_effect (cfg : Cfg) (l l' : Lane) (h : l.step cfg .stop = some l') : l' = { l with stopped := true } := by
  simp only [Lane.step] at h; cases h; rfl

/-! ### static fields -/

theorem take_static (l : Lane) (c : Nat) (rest : List Nat) :
    (l.take c rest).kind = l.kind ∧ (l.take c rest).idx = l.idx ∧ (l.take c rest).cap = l.cap ∧
    (l.take c rest).stopped = l.stopped ∧ (l.take c rest).next = l.next ∧ (l.take c rest).accepted = l.accepted := by
  unfold Lane.take; split <;> simp

theorem step_static (cfg : Cfg) (l l' : Lane) (a : LAct) (h : l.step cfg a = some l') :
    l'.kind = l.kind ∧ l'.idx = l.idx ∧ l'.cap = l.cap := by
  cases a with
  | submit id enq =>
    rcases (submit_effect cfg l l' id enq h).2 with ⟨e, _⟩ | ⟨r, e, _⟩ <;> subst e <;> simp [Lane.accept, Lane.reject]
  | pop take =>
    rcases (pop_effect cfg l l' take h).2 with ⟨e, _⟩ | ⟨c, rest, _, e⟩
    · subst e; simp [Lane.doExit]
    · subst e; have := take_static l c rest; exact ⟨this.1, this.2.1, this.2.2.1⟩
  | finish id r =>
    simp only [Lane.step] at h
    split at h
    · cases h; simp
    · split at h
      · cases h; simp
      · cases h
  | recv id pick => obtain ⟨c, r, _, _, e, _⟩ := recv_effect cfg l l' id pick h; subst e; simp
  | cancel id => rw [cancel_effect cfg l l' id h]; simp
  | stop => rw [stop_effect cfg l l' h]; simp
  | run => rcases run_effect cfg l l' h with e | e | ⟨e, _⟩ <;> subst e <;> simp
  | pop2 =>
    simp only [Lane.step] at h
    repeat' split at h
    all_goals first
      | (cases h; done)
      | (cases h; simp)

/-! ### the invariant -/

structure LInv (l : Lane) : Prop where
  acc_split : l.accepted = l.popped ++ l.queue
  acc_sorted : l.accepted.Pairwise (· < ·)
  acc_lt : ∀ id ∈ l.accepted, id < l.next
  starts_sub : (startIds l.log).Sublist l.popped
  run_state : runState (runEvents l.log) = some (consRunning l.cons)
  exited_drained : l.cons = .exited → l.stopped = true ∧ (l.kind ≠ .pchan → l.queue = [])
  idx_ok : ∀ id ln, Ev.start id ln ∈ l.log → ln = l.idx
  starts_eq : (l.kind = .line ∨ l.kind = .mline) → startIds l.log = l.popped
  cons2_none : l.cons2 = none

theorem linv_init (k : Kind) (cap idx : Nat) : LInv (Lane.init k cap idx) := by
  refine ⟨rfl, by simp [Lane.init], by simp [Lane.init], by simp [Lane.init, startIds], rfl, ?_, ?_, ?_, rfl⟩
  · intro h; simp [Lane.init] at h
  · intro id ln h; simp [Lane.init] at h
  · intro _; rfl

theorem linv_reject {l : Lane} (h : LInv l) (id : Nat) (r : Res) (hid : l.next ≤ id) : LInv (l.reject id r) := by
  obtain ⟨h1, h2, h3, h4, h5, h6, h7, h8, h9⟩ := h
  refine ⟨h1, h2, ?_, ?_, ?_, h6, ?_, ?_, h9⟩
  · intro x hx; have := h3 x hx; simp only [Lane.reject]; omega
  · simpa [Lane.reject, startIds_append, startIds] using h4
  · simpa [Lane.reject, runEvents_append, runEvents] using h5
  · intro x ln hx
    simp only [Lane.reject, List.mem_append, List.mem_singleton] at hx
    rcases hx with hx | hx
    · exact h7 x ln hx
    · cases hx
  · intro hk; simpa [Lane.reject, startIds_append, startIds] using h8 hk

theorem linv_accept {l : Lane} (h : LInv l) (id : Nat) (hid : l.next ≤ id) (hne : l.stopped = false ∨ l.kind = .pchan) :
    LInv (l.accept id) := by
  obtain ⟨h1, h2, h3, h4, h5, h6, h7, h8, h9⟩ := h
  refine ⟨?_, ?_, ?_, h4, h5, ?_, h7, h8, h9⟩
  · simp only [Lane.accept, h1, List.append_assoc]
  · simp only [Lane.accept]
    rw [List.pairwise_append]
    refine ⟨h2, by simp, ?_⟩
    intro a ha b hb
    simp at hb; subst hb
    have := h3 a ha; omega
  · intro x hx
    simp only [Lane.accept, List.mem_append, List.mem_singleton] at hx ⊢
    rcases hx with hx | hx
    · have := h3 x hx; omega
    · omega
  · intro he
    simp only [Lane.accept] at he ⊢
    rcases hne with hne | hne
    · have := (h6 he).1; rw [hne] at this; cases this
    · exact ⟨(h6 he).1, fun hk => absurd hne hk⟩


theorem skips_kind {l : Lane} {c : Nat} (h : l.skips c = true) : l.kind = .runner ∨ l.kind = .pchan := by
  unfold Lane.skips at h
  simp only [Bool.and_eq_true, Bool.or_eq_true, beq_iff_eq] at h
  exact h.1

theorem linv_take {l : Lane} (h : LInv l) (c : Nat) (rest : List Nat) (hq : l.queue = c :: rest)
    (hc : l.cons = .idle) : LInv (l.take c rest) := by
  obtain ⟨h1, h2, h3, h4, h5, h6, h7, h8, h9⟩ := h
  have hsplit : l.accepted = (l.popped ++ [c]) ++ rest := by rw [h1, hq]; simp
  unfold Lane.take
  split
  · rename_i hsk
    refine ⟨hsplit, h2, h3, ?_, h5, ?_, h7, ?_, h9⟩
    · exact h4.trans (List.sublist_append_left _ _)
    · intro he; simp only at he; rw [hc] at he; cases he
    · intro hk
      rcases skips_kind hsk with e | e <;> rcases hk with k | k <;> rw [k] at e <;> cases e
  · refine ⟨hsplit, h2, h3, ?_, ?_, ?_, ?_, ?_, h9⟩
    · simp only [startIds_append, startIds]
      exact List.Sublist.append h4 (List.Sublist.refl _)
    · simp only [runEvents_append, runEvents, runState_append, h5, hc, consRunning, runStep]
    · intro he; simp at he
    · intro id ln hm
      simp only [List.mem_append, List.mem_singleton] at hm
      rcases hm with hm | hm
      · exact h7 id ln hm
      · cases hm; rfl
    · intro hk
      simp only [startIds_append, startIds, h8 hk]

theorem linv_step (cfg : Cfg) (l l' : Lane) (a : LAct) (hg : RunGuarded cfg l.kind) (h : LInv l)
    (hs : l.step cfg a = some l') : LInv l' := by
  cases a with
  | submit id enq =>
    obtain ⟨hid, he⟩ := submit_effect cfg l l' id enq hs
    rcases he with ⟨e, hc⟩ | ⟨r, e, _⟩
    · subst e
      refine linv_accept h id hid ?_
      rcases hc with hc | hc
      · exact Or.inl hc
      · exact Or.inr hc.1
    · subst e; exact linv_reject h id r hid
  | pop take =>
    obtain ⟨hc, he⟩ := pop_effect cfg l l' take hs
    rcases he with ⟨e, hst, hq⟩ | ⟨c, rest, hq, e⟩
    · subst e
      obtain ⟨h1, h2, h3, h4, h5, h6, h7, h8, h9⟩ := h
      refine ⟨h1, h2, h3, ?_, ?_, ?_, ?_, ?_, h9⟩
      · simpa [Lane.doExit, startIds_append, startIds] using h4
      · simp only [Lane.doExit, runEvents_append, runEvents, List.append_nil, h5, hc, consRunning]
      · intro _
        refine ⟨hst, fun hk => ?_⟩
        rcases hq with hq | hq
        · exact hq
        · exact absurd hq hk
      · intro id ln hm
        simp only [Lane.doExit, List.mem_append, List.mem_singleton] at hm
        rcases hm with hm | hm
        · exact h7 id ln hm
        · cases hm
      · intro hk; simpa [Lane.doExit, startIds_append, startIds] using h8 hk
    · subst e; exact linv_take h c rest hq hc
  | finish id r =>
    obtain ⟨hc, _, e⟩ := finish_effect cfg l l' id r h.cons2_none hs
    subst e
    obtain ⟨h1, h2, h3, h4, h5, h6, h7, h8, h9⟩ := h
    refine ⟨h1, h2, h3, ?_, ?_, ?_, ?_, ?_, h9⟩
    · simpa [startIds_append, startIds] using h4
    · simp only [runEvents_append, runEvents, runState_append, h5, hc, consRunning, runStep, if_true]
    · intro he; simp at he
    · intro x ln hm
      simp only [List.mem_append, List.mem_singleton] at hm
      rcases hm with hm | hm
      · exact h7 x ln hm
      · cases hm
    · intro hk; simpa [startIds_append, startIds] using h8 hk
  | recv id pick =>
    obtain ⟨c, r, _, _, e, _⟩ := recv_effect cfg l l' id pick hs
    subst e
    obtain ⟨h1, h2, h3, h4, h5, h6, h7, h8, h9⟩ := h
    refine ⟨h1, h2, h3, ?_, ?_, h6, ?_, ?_, h9⟩
    · simpa [startIds_append, startIds] using h4
    · simpa [runEvents_append, runEvents] using h5
    · intro x ln hm
      simp only [List.mem_append, List.mem_singleton] at hm
      rcases hm with hm | hm
      · exact h7 x ln hm
      · cases hm
    · intro hk; simpa [startIds_append, startIds] using h8 hk
  | cancel id =>
    rw [cancel_effect cfg l l' id hs]
    obtain ⟨h1, h2, h3, h4, h5, h6, h7, h8, h9⟩ := h
    exact ⟨h1, h2, h3, h4, h5, h6, h7, h8, h9⟩
  | stop =>
    rw [stop_effect cfg l l' hs]
    obtain ⟨h1, h2, h3, h4, h5, h6, h7, h8, h9⟩ := h
    exact ⟨h1, h2, h3, h4, h5, fun he => ⟨rfl, (h6 he).2⟩, h7, h8, h9⟩
  | run =>
    obtain ⟨h1, h2, h3, h4, h5, h6, h7, h8, h9⟩ := h
    rcases run_effect cfg l l' hs with e | e | ⟨e, hk, hne⟩
    · subst e; exact ⟨h1, h2, h3, h4, h5, h6, h7, h8, h9⟩
    · subst e; exact ⟨h1, h2, h3, h4, h5, h6, h7, h8, h9⟩
    · rcases hg with hg | hg
      · exact absurd hg hne
      · exact absurd hk hg
  | pop2 => rw [pop2_disabled cfg l h.cons2_none] at hs; cases hs

theorem linv_reach (cfg : Cfg) (k : Kind) (cap idx : Nat) (hg : RunGuarded cfg k) (l : Lane)
    (hr : (laneLTS cfg k cap idx).Reach l) : LInv l := by
  have : LInv l ∧ l.kind = k := by
    induction hr with
    | init => exact ⟨linv_init k cap idx, rfl⟩
    | step _ hstep ih =>
      exact ⟨linv_step cfg _ _ _ (by rw [ih.2]; exact hg) ih.1 hstep, (step_static cfg _ _ _ hstep).1.trans ih.2⟩
  exact this.1

end Nv.C14
