import Nv.Model.C07
set_option linter.unusedVariables false
/-!
C07 — the year-of-era formula of `civilOfDays`: for a day `doe` of the 400-year era it yields a year 0…399 and a day of
year 0…365. Settled by a case split over the values of `doe / 1460` (each case is linear arithmetic for `omega`; the
cases that straddle a century also split on `doe / 36524`), in chunks of ten to keep elaboration fast.
-/
namespace Nv.C07

/-- the statement about one day of the era -/
def YoeOk (doe : Int) : Prop :=
    0 ≤ (doe - doe / 1460 + doe / 36524 - doe / 146096) / 365 ∧ (doe - doe / 1460 + doe / 36524 - doe / 146096) / 365 ≤ 399 ∧
    0 ≤ doe - (365 * ((doe - doe / 1460 + doe / 36524 - doe / 146096) / 365) + (doe - doe / 1460 + doe / 36524 - doe / 146096) / 365 / 4 - (doe - doe / 1460 + doe / 36524 - doe / 146096) / 365 / 100) ∧
    doe - (365 * ((doe - doe / 1460 + doe / 36524 - doe / 146096) / 365) + (doe - doe / 1460 + doe / 36524 - doe / 146096) / 365 / 4 - (doe - doe / 1460 + doe / 36524 - doe / 146096) / 365 / 100) ≤ 365

theorem yoe_chunk_0 (doe : Int) (h0 : 0 ≤ doe) (h1 : doe < 14600) : YoeOk doe := by
  unfold YoeOk
  have he : doe / 1460 = 0 ∨ doe / 1460 = 1 ∨ doe / 1460 = 2 ∨ doe / 1460 = 3 ∨ doe / 1460 = 4 ∨ doe / 1460 = 5 ∨ doe / 1460 = 6 ∨ doe / 1460 = 7 ∨ doe / 1460 = 8 ∨ doe / 1460 = 9 := by omega
  rcases he with he | he | he | he | he | he | he | he | he | he <;> first
    | omega
    | (have hf : doe / 36524 = 0 ∨ doe / 36524 = 1 ∨ doe / 36524 = 2 ∨ doe / 36524 = 3 ∨ doe / 36524 = 4 := by omega
       have hg : doe / 146096 = 0 ∨ doe / 146096 = 1 := by omega
       rcases hf with hf | hf | hf | hf | hf <;> rcases hg with hg | hg <;> omega)

theorem yoe_chunk_1 (doe : Int) (h0 : 14600 ≤ doe) (h1 : doe < 29200) : YoeOk doe := by
  unfold YoeOk
  have he : doe / 1460 = 10 ∨ doe / 1460 = 11 ∨ doe / 1460 = 12 ∨ doe / 1460 = 13 ∨ doe / 1460 = 14 ∨ doe / 1460 = 15 ∨ doe / 1460 = 16 ∨ doe / 1460 = 17 ∨ doe / 1460 = 18 ∨ doe / 1460 = 19 := by omega
  rcases he with he | he | he | he | he | he | he | he | he | he <;> first
    | omega
    | (have hf : doe / 36524 = 0 ∨ doe / 36524 = 1 ∨ doe / 36524 = 2 ∨ doe / 36524 = 3 ∨ doe / 36524 = 4 := by omega
       have hg : doe / 146096 = 0 ∨ doe / 146096 = 1 := by omega
       rcases hf with hf | hf | hf | hf | hf <;> rcases hg with hg | hg <;> omega)

theorem yoe_chunk_2 (doe : Int) (h0 : 29200 ≤ doe) (h1 : doe < 43800) : YoeOk doe := by
  unfold YoeOk
  have he : doe / 1460 = 20 ∨ doe / 1460 = 21 ∨ doe / 1460 = 22 ∨ doe / 1460 = 23 ∨ doe / 1460 = 24 ∨ doe / 1460 = 25 ∨ doe / 1460 = 26 ∨ doe / 1460 = 27 ∨ doe / 1460 = 28 ∨ doe / 1460 = 29 := by omega
  rcases he with he | he | he | he | he | he | he | he | he | he <;> first
    | omega
    | (have hf : doe / 36524 = 0 ∨ doe / 36524 = 1 ∨ doe / 36524 = 2 ∨ doe / 36524 = 3 ∨ doe / 36524 = 4 := by omega
       have hg : doe / 146096 = 0 ∨ doe / 146096 = 1 := by omega
       rcases hf with hf | hf | hf | hf | hf <;> rcases hg with hg | hg <;> omega)

theorem yoe_chunk_3 (doe : Int) (h0 : 43800 ≤ doe) (h1 : doe < 58400) : YoeOk doe := by
  unfold YoeOk
  have he : doe / 1460 = 30 ∨ doe / 1460 = 31 ∨ doe / 1460 = 32 ∨ doe / 1460 = 33 ∨ doe / 1460 = 34 ∨ doe / 1460 = 35 ∨ doe / 1460 = 36 ∨ doe / 1460 = 37 ∨ doe / 1460 = 38 ∨ doe / 1460 = 39 := by omega
  rcases he with he | he | he | he | he | he | he | he | he | he <;> first
    | omega
    | (have hf : doe / 36524 = 0 ∨ doe / 36524 = 1 ∨ doe / 36524 = 2 ∨ doe / 36524 = 3 ∨ doe / 36524 = 4 := by omega
       have hg : doe / 146096 = 0 ∨ doe / 146096 = 1 := by omega
       rcases hf with hf | hf | hf | hf | hf <;> rcases hg with hg | hg <;> omega)

theorem yoe_chunk_4 (doe : Int) (h0 : 58400 ≤ doe) (h1 : doe < 73000) : YoeOk doe := by
  unfold YoeOk
  have he : doe / 1460 = 40 ∨ doe / 1460 = 41 ∨ doe / 1460 = 42 ∨ doe / 1460 = 43 ∨ doe / 1460 = 44 ∨ doe / 1460 = 45 ∨ doe / 1460 = 46 ∨ doe / 1460 = 47 ∨ doe / 1460 = 48 ∨ doe / 1460 = 49 := by omega
  rcases he with he | he | he | he | he | he | he | he | he | he <;> first
    | omega
    | (have hf : doe / 36524 = 0 ∨ doe / 36524 = 1 ∨ doe / 36524 = 2 ∨ doe / 36524 = 3 ∨ doe / 36524 = 4 := by omega
       have hg : doe / 146096 = 0 ∨ doe / 146096 = 1 := by omega
       rcases hf with hf | hf | hf | hf | hf <;> rcases hg with hg | hg <;> omega)

theorem yoe_chunk_5 (doe : Int) (h0 : 73000 ≤ doe) (h1 : doe < 87600) : YoeOk doe := by
  unfold YoeOk
  have he : doe / 1460 = 50 ∨ doe / 1460 = 51 ∨ doe / 1460 = 52 ∨ doe / 1460 = 53 ∨ doe / 1460 = 54 ∨ doe / 1460 = 55 ∨ doe / 1460 = 56 ∨ doe / 1460 = 57 ∨ doe / 1460 = 58 ∨ doe / 1460 = 59 := by omega
  rcases he with he | he | he | he | he | he | he | he | he | he <;> first
    | omega
    | (have hf : doe / 36524 = 0 ∨ doe / 36524 = 1 ∨ doe / 36524 = 2 ∨ doe / 36524 = 3 ∨ doe / 36524 = 4 := by omega
       have hg : doe / 146096 = 0 ∨ doe / 146096 = 1 := by omega
       rcases hf with hf | hf | hf | hf | hf <;> rcases hg with hg | hg <;> omega)

theorem yoe_chunk_6 (doe : Int) (h0 : 87600 ≤ doe) (h1 : doe < 102200) : YoeOk doe := by
  unfold YoeOk
  have he : doe / 1460 = 60 ∨ doe / 1460 = 61 ∨ doe / 1460 = 62 ∨ doe / 1460 = 63 ∨ doe / 1460 = 64 ∨ doe / 1460 = 65 ∨ doe / 1460 = 66 ∨ doe / 1460 = 67 ∨ doe / 1460 = 68 ∨ doe / 1460 = 69 := by omega
  rcases he with he | he | he | he | he | he | he | he | he | he <;> first
    | omega
    | (have hf : doe / 36524 = 0 ∨ doe / 36524 = 1 ∨ doe / 36524 = 2 ∨ doe / 36524 = 3 ∨ doe / 36524 = 4 := by omega
       have hg : doe / 146096 = 0 ∨ doe / 146096 = 1 := by omega
       rcases hf with hf | hf | hf | hf | hf <;> rcases hg with hg | hg <;> omega)

theorem yoe_chunk_7 (doe : Int) (h0 : 102200 ≤ doe) (h1 : doe < 116800) : YoeOk doe := by
  unfold YoeOk
  have he : doe / 1460 = 70 ∨ doe / 1460 = 71 ∨ doe / 1460 = 72 ∨ doe / 1460 = 73 ∨ doe / 1460 = 74 ∨ doe / 1460 = 75 ∨ doe / 1460 = 76 ∨ doe / 1460 = 77 ∨ doe / 1460 = 78 ∨ doe / 1460 = 79 := by omega
  rcases he with he | he | he | he | he | he | he | he | he | he <;> first
    | omega
    | (have hf : doe / 36524 = 0 ∨ doe / 36524 = 1 ∨ doe / 36524 = 2 ∨ doe / 36524 = 3 ∨ doe / 36524 = 4 := by omega
       have hg : doe / 146096 = 0 ∨ doe / 146096 = 1 := by omega
       rcases hf with hf | hf | hf | hf | hf <;> rcases hg with hg | hg <;> omega)

theorem yoe_chunk_8 (doe : Int) (h0 : 116800 ≤ doe) (h1 : doe < 131400) : YoeOk doe := by
  unfold YoeOk
  have he : doe / 1460 = 80 ∨ doe / 1460 = 81 ∨ doe / 1460 = 82 ∨ doe / 1460 = 83 ∨ doe / 1460 = 84 ∨ doe / 1460 = 85 ∨ doe / 1460 = 86 ∨ doe / 1460 = 87 ∨ doe / 1460 = 88 ∨ doe / 1460 = 89 := by omega
  rcases he with he | he | he | he | he | he | he | he | he | he <;> first
    | omega
    | (have hf : doe / 36524 = 0 ∨ doe / 36524 = 1 ∨ doe / 36524 = 2 ∨ doe / 36524 = 3 ∨ doe / 36524 = 4 := by omega
       have hg : doe / 146096 = 0 ∨ doe / 146096 = 1 := by omega
       rcases hf with hf | hf | hf | hf | hf <;> rcases hg with hg | hg <;> omega)

theorem yoe_chunk_9 (doe : Int) (h0 : 131400 ≤ doe) (h1 : doe < 146000) : YoeOk doe := by
  unfold YoeOk
  have he : doe / 1460 = 90 ∨ doe / 1460 = 91 ∨ doe / 1460 = 92 ∨ doe / 1460 = 93 ∨ doe / 1460 = 94 ∨ doe / 1460 = 95 ∨ doe / 1460 = 96 ∨ doe / 1460 = 97 ∨ doe / 1460 = 98 ∨ doe / 1460 = 99 := by omega
  rcases he with he | he | he | he | he | he | he | he | he | he <;> first
    | omega
    | (have hf : doe / 36524 = 0 ∨ doe / 36524 = 1 ∨ doe / 36524 = 2 ∨ doe / 36524 = 3 ∨ doe / 36524 = 4 := by omega
       have hg : doe / 146096 = 0 ∨ doe / 146096 = 1 := by omega
       rcases hf with hf | hf | hf | hf | hf <;> rcases hg with hg | hg <;> omega)

theorem yoe_chunk_10 (doe : Int) (h0 : 146000 ≤ doe) (h1 : doe < 146097) : YoeOk doe := by
  unfold YoeOk
  have he : doe / 1460 = 100 := by omega
  rcases he with he <;> first
    | omega
    | (have hf : doe / 36524 = 0 ∨ doe / 36524 = 1 ∨ doe / 36524 = 2 ∨ doe / 36524 = 3 ∨ doe / 36524 = 4 := by omega
       have hg : doe / 146096 = 0 ∨ doe / 146096 = 1 := by omega
       rcases hf with hf | hf | hf | hf | hf <;> rcases hg with hg | hg <;> omega)

/-- year of era and day of year are in range for every day of the era -/
theorem yoe_spec (doe : Int) (h0 : 0 ≤ doe) (h1 : doe < 146097) : YoeOk doe := by
  have h : (0 ≤ doe ∧ doe < 14600) ∨ (14600 ≤ doe ∧ doe < 29200) ∨ (29200 ≤ doe ∧ doe < 43800) ∨ (43800 ≤ doe ∧ doe < 58400) ∨ (58400 ≤ doe ∧ doe < 73000) ∨ (73000 ≤ doe ∧ doe < 87600) ∨ (87600 ≤ doe ∧ doe < 102200) ∨ (102200 ≤ doe ∧ doe < 116800) ∨ (116800 ≤ doe ∧ doe < 131400) ∨ (131400 ≤ doe ∧ doe < 146000) ∨ (146000 ≤ doe ∧ doe < 146097) := by omega
  rcases h with h | h | h | h | h | h | h | h | h | h | h
  · exact yoe_chunk_0 doe h.1 h.2
  · exact yoe_chunk_1 doe h.1 h.2
  · exact yoe_chunk_2 doe h.1 h.2
  · exact yoe_chunk_3 doe h.1 h.2
  · exact yoe_chunk_4 doe h.1 h.2
  · exact yoe_chunk_5 doe h.1 h.2
  · exact yoe_chunk_6 doe h.1 h.2
  · exact yoe_chunk_7 doe h.1 h.2
  · exact yoe_chunk_8 doe h.1 h.2
  · exact yoe_chunk_9 doe h.1 h.2
  · exact yoe_chunk_10 doe h.1 h.2

end Nv.C07
