import Nv.Proofs.C03Basic
/-!
C03 — ascending `iterate`: (1) pruning lemma — the tree walk equals a flat loop over the in-order list
minus the pruned prefix, independent of `hit`; (2) the flat loop over a sorted list hands the callback
exactly the specified items.
-/
namespace Nv.C03
variable {σ : Type}

/-- the ascending loop body run over a plain list -/
def flatAsc (q : Q σ) : List Item → R σ → R σ
  | [], r => r
  | i :: is, r => if r.ok then flatAsc q is (stepAsc q r i) else r

theorem flatAsc_not_ok (q : Q σ) (l : List Item) (r : R σ) (h : r.ok = false) : flatAsc q l r = r := by
  cases l <;> simp [flatAsc, h]

theorem flatAsc_append (q : Q σ) (a b : List Item) (r : R σ) :
    flatAsc q (a ++ b) r = flatAsc q b (flatAsc q a r) := by
  induction a generalizing r with
  | nil => rfl
  | cons i is ih =>
    simp only [List.cons_append, flatAsc]
    split
    · exact ih _
    · rename_i h; simp at h; rw [flatAsc_not_ok q b r h]

theorem ascLoop_leaf (visit : Node → R σ → R σ) (q : Q σ) (is : List Item) (r : R σ) (hr : r.ok = true) :
    ascLoop visit q is [] r = flatAsc q is r := by
  induction is generalizing r with
  | nil => simp [ascLoop, flatAsc]
  | cons i is ih =>
    simp only [ascLoop, flatAsc, hr, if_true]
    split
    · rename_i h; exact ih _ h
    · rename_i h; simp at h; rw [flatAsc_not_ok q is _ h]

/-- the items at or after the start pivot -/
def geStart (q : Q σ) (x : Item) : Bool :=
  match q.start with
  | some s => decide (s ≤ x.key)
  | none => true

/-- the loop over items and children equals the flat loop, given that each child's walk does -/
theorem ascLoop_flat (visit : Node → R σ → R σ) (q : Q σ) (g : Item → Bool) :
    ∀ (is : List Item) (cs : List Node) (r : R σ), cs.length = is.length + 1 → (∀ i ∈ is, g i = true) →
      (∀ c ∈ cs, ∀ r, r.ok = true → visit c r = flatAsc q (c.inorder.filter g) r) → r.ok = true →
      ascLoop visit q is cs r = flatAsc q ((interleave is cs).filter g) r
  | _, [], _, hl, _, _, _ => by simp at hl
  | [], [c], r, _, _, hv, hr => by simp [ascLoop, hv c (by simp) r hr]
  | [], _ :: _ :: _, _, hl, _, _, _ => by simp at hl
  | i :: is, c :: cs, r, hl, hg, hv, hr => by
    have hgi : g i = true := hg i (by simp)
    simp only [ascLoop, interleave_cons_cons, List.filter_append, List.filter_cons, hgi, if_true,
      flatAsc_append, flatAsc]
    rw [hv c (by simp) r hr]
    split
    · rename_i h1
      split
      · rename_i h2
        exact ascLoop_flat visit q g is cs _ (by simpa using hl) (fun j hj => hg j (by simp [hj]))
          (fun d hd => hv d (by simp [hd])) h2
      · rename_i h2; simp at h2; rw [flatAsc_not_ok _ _ _ h2]
    · rfl

theorem filter_eq_nil_of_lt (q : Q σ) (s : Int) (hq : q.start = some s) (l : List Item) (h : ∀ x ∈ l, x.key < s) :
    l.filter (geStart q) = [] := by
  apply List.filter_eq_nil_iff.2
  intro x hx
  have := h x hx
  simp [geStart, hq]; omega

theorem filter_drop_findIdx (q : Q σ) (s : Int) (hq : q.start = some s) (is : List Item) (hs : Sorted is) :
    is.filter (geStart q) = is.drop (findIdx is s).1 := by
  conv => lhs; rw [← List.take_append_drop (findIdx is s).1 is]
  rw [List.filter_append, filter_eq_nil_of_lt q s hq _ (findIdx_take_lt is s), List.nil_append]
  apply List.filter_eq_self.2
  intro x hx
  have := findIdx_drop_ge is s hs x hx
  simp [geStart, hq]; omega

/-- pruning lemma: the ascending walk of a well-shaped sorted subtree is the flat loop over the in-order
    items at or after the start pivot -/
theorem iterAsc_flat (q : Q σ) : ∀ (h : Nat) (n : Node) (r : R σ), Shape h n → Sorted n.inorder → r.ok = true →
    iterAsc q h n r = flatAsc q (n.inorder.filter (geStart q)) r
  | 0, .mk is cs, r, hsh, hso, hr => by
    simp only [Shape] at hsh; subst hsh
    simp only [inorder_mk, interleave_nil_right] at hso ⊢
    cases hq : q.start with
    | none =>
      have : is.filter (geStart q) = is := List.filter_eq_self.2 (fun x _ => by simp [geStart, hq])
      simp [iterAsc, hq, this, ascLoop_leaf _ q is r hr]
    | some s =>
      simp only [iterAsc, hq, filter_drop_findIdx q s hq is hso]
      exact ascLoop_leaf _ q _ r hr
  | h + 1, .mk is cs, r, hsh, hso, hr => by
    simp only [Shape] at hsh
    simp only [inorder_mk] at hso ⊢
    have hchild : ∀ c ∈ cs, ∀ r : R σ, r.ok = true → iterAsc q h c r = flatAsc q (c.inorder.filter (geStart q)) r :=
      fun c hc r hr => iterAsc_flat q h c r (hsh.2 c hc) (sorted_child is cs hso c hc hsh.1) hr
    cases hq : q.start with
    | none =>
      simp only [iterAsc, hq, List.drop_zero]
      exact ascLoop_flat _ q _ is cs r hsh.1 (fun i _ => by simp [geStart, hq]) hchild hr
    | some s =>
      simp only [iterAsc, hq]
      have hle := findIdx_le is s
      have hitems := sorted_items is cs hso
      rw [interleave_split (findIdx is s).1 is cs hsh.1 hle] at hso ⊢
      rw [List.filter_append, filter_eq_nil_of_lt q s hq _
        (flatL_lt s _ _ _ hso (findIdx_take_lt is s)), List.nil_append]
      refine ascLoop_flat _ q _ _ _ r (by simp; omega) ?_ (fun c hc => hchild c (List.mem_of_mem_drop hc)) hr
      intro i hi
      have := findIdx_drop_ge is s hitems i hi
      simp [geStart, hq]; omega

/-! ### the flat loop against the specification -/

/-- once `hit` is set (or the scan is inclusive, or there is no start pivot) nothing is skipped: the callback
    consumes the items before `stop` -/
theorem flatAsc_run (q : Q σ) (l : List Item) (r : R σ) (hr : r.ok = true)
    (hh : q.start = none ∨ (q.incl || r.hit) = true) :
    (flatAsc q l r).st = runCb q.cb (l.takeWhile (beforeStop .asc q.stop)) r.st := by
  induction l generalizing r with
  | nil => simp [flatAsc, runCb]
  | cons x xs ih =>
    have hskip : skipAsc q r x = false := by
      unfold skipAsc
      rcases hh with hh | hh
      · simp [hh]
      · cases hi : q.incl <;> cases hh' : r.hit <;> simp_all
    simp only [flatAsc, hr, if_true, stepAsc, hskip, Bool.false_eq_true, if_false]
    by_cases hp : pastStopAsc q x = true
    · have hb : beforeStop .asc q.stop x = false := by
        unfold pastStopAsc at hp; unfold beforeStop
        cases hst : q.stop <;> simp_all
      simp only [hp, if_true, List.takeWhile_cons, hb, Bool.false_eq_true, if_false, runCb]
      rw [flatAsc_not_ok _ _ _ rfl]
    · have hb : beforeStop .asc q.stop x = true := by
        unfold pastStopAsc at hp; unfold beforeStop
        cases hst : q.stop <;> simp_all
      simp only [(by simpa using hp : pastStopAsc q x = false), Bool.false_eq_true, if_false, List.takeWhile_cons, hb, if_true, runCb]
      cases hcb : (q.cb r.st x).2 with
      | true => simp only [if_true]; rw [ih _ rfl (Or.inr (by simp))]
      | false => simp only [Bool.false_eq_true, if_false]; rw [flatAsc_not_ok _ _ _ rfl]

/-- exclusive scan, `hit` not yet set: the item equal to the pivot — necessarily the first — is skipped -/
theorem flatAsc_excl (q : Q σ) (s : Int) (hq : q.start = some s) (hi : q.incl = false) (l : List Item) (hs : Sorted l)
    (hge : ∀ x ∈ l, s ≤ x.key) (st : σ) :
    (flatAsc q l ⟨false, true, st⟩).st =
      runCb q.cb ((l.filter (fun x => decide (s < x.key))).takeWhile (beforeStop .asc q.stop)) st := by
  cases l with
  | nil => simp [flatAsc, runCb]
  | cons x xs =>
    have htail : xs.filter (fun y => decide (s < y.key)) = xs := by
      apply List.filter_eq_self.2
      intro y hy
      have := hs.head_lt hy
      have := hge x (by simp)
      simp; omega
    by_cases hx : s < x.key
    · -- nothing to skip: same as with `hit` set
      have hstep : stepAsc q ⟨false, true, st⟩ x = stepAsc q ⟨true, true, st⟩ x := by
        simp [stepAsc, skipAsc, hq, hi, hx]
      have hfl : (x :: xs).filter (fun y => decide (s < y.key)) = x :: xs := by
        simp [hx, htail]
      rw [hfl]
      have := flatAsc_run q (x :: xs) ⟨true, true, st⟩ rfl (Or.inr (by simp))
      simp only [flatAsc, if_true] at this ⊢
      rw [hstep]; exact this
    · have hfl : (x :: xs).filter (fun y => decide (s < y.key)) = xs := by
        simp [hx, htail]
      rw [hfl]
      have hstep : stepAsc q ⟨false, true, st⟩ x = ⟨true, true, st⟩ := by
        simp [stepAsc, skipAsc, hq, hi, hx]
      simp only [flatAsc, if_true, hstep]
      exact flatAsc_run q xs ⟨true, true, st⟩ rfl (Or.inr (by simp))

end Nv.C03
