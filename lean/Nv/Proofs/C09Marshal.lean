import Nv.Proofs.C09Unm
import Nv.Proofs.C09Block
/-! C09 — `Unmarshal (Marshal b) = b` for both encodings. Core only. -/
namespace Nv.C09
open Nv.C08

theorem le16_roundtrip (v : BitVec 16) : ((v >>> 8).setWidth 8 : BitVec 8) ++ (v.setWidth 8 : BitVec 8) = v := by
  apply BitVec.eq_of_getLsbD_eq
  intro i hi
  simp only [BitVec.getLsbD_append, BitVec.getLsbD_setWidth, BitVec.getLsbD_ushiftRight]
  by_cases h : i < 8
  · simp [h]
  · have : 8 + (i - 8) = i := by omega
    simp [h, this]; omega

theorem le64_roundtrip (v : BitVec 64) :
    ((v >>> 56).setWidth 8 : BitVec 8) ++ ((v >>> 48).setWidth 8 : BitVec 8) ++ ((v >>> 40).setWidth 8 : BitVec 8) ++
    ((v >>> 32).setWidth 8 : BitVec 8) ++ ((v >>> 24).setWidth 8 : BitVec 8) ++ ((v >>> 16).setWidth 8 : BitVec 8) ++
    ((v >>> 8).setWidth 8 : BitVec 8) ++ (v.setWidth 8 : BitVec 8) = v := by
  apply BitVec.eq_of_getLsbD_eq
  intro i hi
  simp only [BitVec.getLsbD_append, BitVec.getLsbD_setWidth, BitVec.getLsbD_ushiftRight]
  by_cases h1 : i < 8
  · simp [h1]
  by_cases h2 : i < 16
  · have e : 8 + (i - 8) = i := by omega
    have : i - 8 < 8 := by omega
    simp [h1, this, e]
  by_cases h3 : i < 24
  · have e : 16 + (i - 8 - 8) = i := by omega
    have a1 : ¬ i - 8 < 8 := by omega
    have a2 : i - 8 - 8 < 8 := by omega
    simp [h1, a1, a2, e]
  by_cases h4 : i < 32
  · have e : 24 + (i - 8 - 8 - 8) = i := by omega
    have a1 : ¬ i - 8 < 8 := by omega
    have a2 : ¬ i - 8 - 8 < 8 := by omega
    have a3 : i - 8 - 8 - 8 < 8 := by omega
    simp [h1, a1, a2, a3, e]
  by_cases h5 : i < 40
  · have e : 32 + (i - 8 - 8 - 8 - 8) = i := by omega
    have a1 : ¬ i - 8 < 8 := by omega
    have a2 : ¬ i - 8 - 8 < 8 := by omega
    have a3 : ¬ i - 8 - 8 - 8 < 8 := by omega
    have a4 : i - 8 - 8 - 8 - 8 < 8 := by omega
    simp [h1, a1, a2, a3, a4, e]
  by_cases h6 : i < 48
  · have e : 40 + (i - 8 - 8 - 8 - 8 - 8) = i := by omega
    have a1 : ¬ i - 8 < 8 := by omega
    have a2 : ¬ i - 8 - 8 < 8 := by omega
    have a3 : ¬ i - 8 - 8 - 8 < 8 := by omega
    have a4 : ¬ i - 8 - 8 - 8 - 8 < 8 := by omega
    have a5 : i - 8 - 8 - 8 - 8 - 8 < 8 := by omega
    simp [h1, a1, a2, a3, a4, a5, e]
  by_cases h7 : i < 56
  · have e : 48 + (i - 8 - 8 - 8 - 8 - 8 - 8) = i := by omega
    have a1 : ¬ i - 8 < 8 := by omega
    have a2 : ¬ i - 8 - 8 < 8 := by omega
    have a3 : ¬ i - 8 - 8 - 8 < 8 := by omega
    have a4 : ¬ i - 8 - 8 - 8 - 8 < 8 := by omega
    have a5 : ¬ i - 8 - 8 - 8 - 8 - 8 < 8 := by omega
    have a6 : i - 8 - 8 - 8 - 8 - 8 - 8 < 8 := by omega
    simp [h1, a1, a2, a3, a4, a5, a6, e]
  · have e : 56 + (i - 8 - 8 - 8 - 8 - 8 - 8 - 8) = i := by omega
    have a1 : ¬ i - 8 < 8 := by omega
    have a2 : ¬ i - 8 - 8 < 8 := by omega
    have a3 : ¬ i - 8 - 8 - 8 < 8 := by omega
    have a4 : ¬ i - 8 - 8 - 8 - 8 < 8 := by omega
    have a5 : ¬ i - 8 - 8 - 8 - 8 - 8 < 8 := by omega
    have a6 : ¬ i - 8 - 8 - 8 - 8 - 8 - 8 < 8 := by omega
    have a7 : i - 8 - 8 - 8 - 8 - 8 - 8 - 8 < 8 := by omega
    simp [h1, a1, a2, a3, a4, a5, a6, a7, e]

theorem rd16_flatMap : ∀ (vs : List (BitVec 16)) (k : Nat) (h : k < vs.length),
    rd16 (vs.flatMap le16) (k * 2) = some vs[k]
  | v :: vs, 0, _ => by
    simp only [List.flatMap_cons, le16, rd16, Nat.zero_mul, List.drop_zero, List.cons_append, List.nil_append,
      List.getElem_cons_zero, le16_roundtrip]
  | v :: vs, k + 1, h => by
    have ih := rd16_flatMap vs k (by simpa using h)
    have e : (k + 1) * 2 = k * 2 + 1 + 1 := by omega
    simp only [List.flatMap_cons, le16, rd16, List.cons_append, List.nil_append, e, List.drop_succ_cons,
      List.getElem_cons_succ] at ih ⊢
    exact ih

theorem rd64_flatMap : ∀ (vs : List (BitVec 64)) (k : Nat) (h : k < vs.length),
    rd64 (vs.flatMap le64) (k * 8) = some vs[k]
  | v :: vs, 0, _ => by
    simp only [List.flatMap_cons, le64, rd64, Nat.zero_mul, List.drop_zero, List.cons_append, List.nil_append,
      List.getElem_cons_zero, le64_roundtrip]
  | v :: vs, k + 1, h => by
    have ih := rd64_flatMap vs k (by simpa using h)
    have e : (k + 1) * 8 = k * 8 + 1 + 1 + 1 + 1 + 1 + 1 + 1 + 1 := by omega
    simp only [List.flatMap_cons, le64, rd64, List.cons_append, List.nil_append, e, List.drop_succ_cons,
      List.getElem_cons_succ] at ih ⊢
    exact ih

theorem length_flatMap_le16 (vs : List (BitVec 16)) : (vs.flatMap le16).length = 2 * vs.length := by
  induction vs with
  | nil => rfl
  | cons v vs ih => simp [List.flatMap_cons, le16, ih]; omega

theorem length_flatMap_le64 (vs : List (BitVec 64)) : (vs.flatMap le64).length = 8 * vs.length := by
  induction vs with
  | nil => rfl
  | cons v vs ih => simp [List.flatMap_cons, le64, ih]; omega

/-- the sparse decoder succeeds when every element read is in 0..1023 -/
theorem unmSparse_isOk (buf : List Byte) : ∀ (idxs : List Nat) (b : Bit1024),
    (∀ i ∈ idxs, ∃ v, rd16 buf (i * 2) = some v ∧ 0 ≤ v.toInt ∧ v.toInt ≤ 1023) → ∃ b', unmSparse buf idxs b = .ok b'
  | [], b, _ => ⟨b, rfl⟩
  | i :: is, b, h => by
    obtain ⟨v, hv, h1, h2⟩ := h i (by simp)
    unfold unmSparse
    rw [hv]
    have : ¬ (v.toInt < 0 ∨ v.toInt > 1023) := by omega
    simp only [this, if_false]
    exact unmSparse_isOk buf is _ (fun j hj => h j (by simp [hj]))

theorem unmDense_isOk (buf : List Byte) : ∀ (idxs : List Nat) (b : Bit1024),
    (∀ i ∈ idxs, i < 16 ∧ ∃ v, rd64 buf (i * 8) = some v) → ∃ b', unmDense buf idxs b = .ok b'
  | [], b, _ => ⟨b, rfl⟩
  | i :: is, b, h => by
    obtain ⟨hi, v, hv⟩ := h i (by simp)
    unfold unmDense
    rw [hv]
    simp only [hi, dite_true]
    exact unmDense_isOk buf is _ (fun j hj => h j (by simp [hj]))

theorem ofNat16_toInt (j : Nat) (hj : j < 1024) : (BitVec.ofNat 16 j).toInt = (j : Int) := by
  have c := BitVec.toInt_eq_toNat_cond (BitVec.ofNat 16 j)
  rw [BitVec.toNat_ofNat] at c
  split at c <;> omega

theorem ofNat16_inj (i j : Nat) (hi : i < 1024) (hj : j < 1024) (h : BitVec.ofNat 16 i = BitVec.ofNat 16 j) : i = j := by
  have := congrArg BitVec.toNat h
  simp only [BitVec.toNat_ofNat] at this
  omega

/-- sparse encoding of any list enumerating the members decodes to the bitmap with exactly those members -/
theorem sparse_roundtrip_gen (b : Bit1024) (ms : List Nat) (hlt : ∀ m ∈ ms, m < 1024)
    (hmem : ∀ j, j < 1024 → (j ∈ ms ↔ mem1024 b j = true)) (hlen : ms.length < 64) (hne : ms.length ≠ 0) :
    unmarshal empty1024 ((ms.map (BitVec.ofNat 16)).flatMap le16) = .ok b := by
  generalize hvs : ms.map (BitVec.ofNat 16) = vs
  have hvl : vs.length = ms.length := by rw [← hvs]; simp
  have hbl := length_flatMap_le16 vs
  unfold unmarshal
  simp only
  have h0 : ¬ (vs.flatMap le16).length = 0 := by omega
  have h1 : ¬ (vs.flatMap le16).length > 128 := by omega
  have h2 : ¬ (vs.flatMap le16).length % 2 ≠ 0 := by omega
  have h3 : (vs.flatMap le16).length < 128 := by omega
  simp only [h0, h1, h2, h3, if_false, if_true]
  have hhalf : (vs.flatMap le16).length / 2 = vs.length := by omega
  rw [hhalf]
  have hrd : ∀ k, k < vs.length → ∃ m, m ∈ ms ∧ rd16 (vs.flatMap le16) (k * 2) = some (BitVec.ofNat 16 m) := by
    intro k hk
    have hk' : k < ms.length := by omega
    refine ⟨ms[k]'hk', List.getElem_mem _, ?_⟩
    rw [rd16_flatMap vs k hk]
    have : vs[k]'hk = BitVec.ofNat 16 (ms[k]'hk') := by subst hvs; exact List.getElem_map _
    rw [this]
  obtain ⟨b', hb'⟩ := unmSparse_isOk (vs.flatMap le16) (List.range vs.length) empty1024 (by
    intro i hi
    obtain ⟨m, hm, hr⟩ := hrd i (List.mem_range.1 hi)
    have hm' := hlt m hm
    exact ⟨_, hr, by rw [ofNat16_toInt m hm']; omega, by rw [ofNat16_toInt m hm']; omega⟩)
  rw [hb']
  suffices hs : b' = b by rw [hs]
  apply ext1024
  intro j hj
  have hchar := unmSparse_ok _ _ _ _ hb' j hj
  apply Bool.eq_iff_iff.2
  rw [hchar]
  simp only [mem_empty1024, Bool.false_eq_true, false_or, List.mem_range]
  constructor
  · rintro ⟨k, hk, hr⟩
    obtain ⟨m, hm, hr'⟩ := hrd k hk
    rw [hr'] at hr
    have : m = j := ofNat16_inj m j (hlt m hm) hj (by simpa using hr)
    subst this
    exact (hmem m hj).1 hm
  · intro hmemj
    have hin : j ∈ ms := (hmem j hj).2 hmemj
    obtain ⟨k, hk, hkj⟩ := List.getElem_of_mem hin
    refine ⟨k, by omega, ?_⟩
    rw [rd16_flatMap vs k (by omega)]
    have : vs[k]'(by omega) = BitVec.ofNat 16 j := by subst hvs; rw [List.getElem_map, hkj]
    rw [this]

theorem sparse_roundtrip (b : Bit1024) (hlen : (members1024 b).length < 64) (hne : (members1024 b).length ≠ 0) :
    unmarshal empty1024 (((members1024 b).map (BitVec.ofNat 16)).flatMap le16) = .ok b :=
  sparse_roundtrip_gen b (members1024 b)
    (fun _ hm => List.mem_range.1 (List.mem_filter.1 hm).1)
    (fun _ hj => ⟨fun h => (List.mem_filter.1 h).2, fun h => List.mem_filter.2 ⟨List.mem_range.2 hj, h⟩⟩) hlen hne

/-- dense encoding decodes to the same 16 words -/
theorem dense_roundtrip (b : Bit1024) : unmarshal empty1024 (b.toList.flatMap le64) = .ok b := by
  have hbl := length_flatMap_le64 b.toList
  have h16 : b.toList.length = 16 := by simp
  unfold unmarshal
  simp only
  have h0 : ¬ (b.toList.flatMap le64).length = 0 := by omega
  have h1 : ¬ (b.toList.flatMap le64).length > 128 := by omega
  have h2 : ¬ (b.toList.flatMap le64).length % 2 ≠ 0 := by omega
  have h3 : ¬ (b.toList.flatMap le64).length < 128 := by omega
  simp only [h0, h1, h2, h3, if_false]
  obtain ⟨b', hb'⟩ := unmDense_isOk (b.toList.flatMap le64) (List.range 16) empty1024 (by
    intro i hi
    have hi' := List.mem_range.1 hi
    exact ⟨hi', _, rd64_flatMap b.toList i (by omega)⟩)
  rw [hb']
  suffices hs : b' = b by rw [hs]
  apply Vector.ext
  intro k hk
  have := unmDense_ok _ _ _ _ hb' k hk
  simp only [List.mem_range, hk, if_true, rd64_flatMap b.toList k (by omega), Option.getD_some] at this
  simpa [word, hk] using this

theorem expected_all (ms : List Nat) (n : Int) (hn : n.toNat = ms.length) :
    expected false ms (0 : BitVec 16) n = ms.map (BitVec.ofNat 16) := by
  unfold expected
  simp only [Bool.false_eq_true, if_false, hn, List.take_length]
  apply List.map_congr_left
  intro i _
  simp

/-- what `Marshal` returns, explicitly: nothing for the empty set, the members as little-endian 16-bit values when
    there are fewer than 64, the 16 words as little-endian 64-bit values otherwise; it never panics -/
theorem marshal_eq (c : Cfg) (hc : Proved c) (magic : Int) (b : Bit1024) :
    marshal c magic b = some (
      if (members1024 b).length = 0 then []
      else if (members1024 b).length < 64 then ((members1024 b).map (BitVec.ofNat 16)).flatMap le16
      else b.toList.flatMap le64) := by
  unfold marshal
  simp only [len1024_eq, hc.2.2.2.2.2.1]
  by_cases h0 : (members1024 b).length = 0
  · simp [h0]
  · simp only [h0, if_false]
    by_cases hs : (members1024 b).length < 64
    · simp only [hs, if_true]
      have hn : (0 : Int) ≤ ((members1024 b).length : Nat) := by omega
      rw [getN1024_spec c.base hc.1 magic false b _ hn]
      have hE := expected_all (members1024 b) ((members1024 b).length : Nat) (by simp)
      rw [hE]
      generalize members1024 b = ms at *
      have hne : ms.map (BitVec.ofNat 16) ≠ [] := by
        intro e
        have := congrArg List.length e
        simp at this
        exact h0 (by rw [this]; rfl)
      simp only [hne, if_false, List.length_map, if_true]
    · simp only [hs, if_false]

/-- encoding sizes: 0 bytes for the empty set, 2 bytes per member below 64 members, 128 bytes otherwise -/
theorem marshal_size_all (c : Cfg) (hc : Proved c) (magic : Int) (b : Bit1024) :
    ∃ bs, marshal c magic b = some bs ∧
      bs.length = (if (members1024 b).length = 0 then 0 else if (members1024 b).length < 64 then 2 * (members1024 b).length else 128) := by
  refine ⟨_, marshal_eq c hc magic b, ?_⟩
  generalize members1024 b = ms
  split
  · rfl
  · split
    · rw [length_flatMap_le16]; simp
    · rw [length_flatMap_le64]; simp

/-- **Unmarshal (Marshal b) = b** for every bitmap, every threshold, both encodings -/
theorem marshal_roundtrip_all (c : Cfg) (hc : Proved c) (magic : Int) (b : Bit1024) :
    ∃ bs, marshal c magic b = some bs ∧ unmarshal empty1024 bs = .ok b := by
  refine ⟨_, marshal_eq c hc magic b, ?_⟩
  by_cases h0 : (members1024 b).length = 0
  · simp only [h0, if_true]
    have hnil : members1024 b = [] := List.length_eq_zero_iff.1 h0
    have : b = empty1024 := by
      apply ext1024
      intro j hj
      rw [mem_empty1024]
      cases hm : mem1024 b j with
      | false => rfl
      | true =>
        have : j ∈ members1024 b := List.mem_filter.2 ⟨List.mem_range.2 hj, hm⟩
        rw [hnil] at this; cases this
    rw [this]; rfl
  · simp only [h0, if_false]
    by_cases hs : (members1024 b).length < 64
    · simp only [hs, if_true]
      exact sparse_roundtrip b hs h0
    · simp only [hs, if_false]
      exact dense_roundtrip b

end Nv.C09
