import Nv.Proofs.C03Cow3
/-!
C03, layer B — closure of the writer's own tree (stores whose free list has capacity 0).

Fix the store `H0` at the start of an operation of the tree tagged `cow` with root `root`. A cell is *good* if it
lies beyond `H0` (allocated during the operation) or was reachable from the writer's root in `H0`. `Inv2` adds to the
frame invariant: the free list stays empty, and the children of every good cell are good and exist. Every primitive
keeps `Inv2` provided the child lists it writes consist of good, existing cells; so at the end everything reachable
from the writer's new root is good — in particular carries no other handle's current tag.
-/
namespace Nv.C03.Cow
open Nv.C03

structure Ctx where
  H0 : Heap
  cow : Nat
  root : Option Nat

def Good (c : Ctx) (id : Nat) : Prop := c.H0.size ≤ id ∨ ∃ r, c.root = some r ∧ Reach c.H0 r id

/-- good and existing in a store of size `s` -/
def K (c : Ctx) (s : Nat) (id : Nat) : Prop := Good c id ∧ id < s

theorem K.mono {c : Ctx} {s s' id : Nat} (h : K c s id) (hs : s ≤ s') : K c s' id := ⟨h.1, Nat.lt_of_lt_of_le h.2 hs⟩

structure Inv2 (c : Ctx) (H : Heap) : Prop where
  base : Inv c.H0 c.cow H
  nofree : H.free = [] ∧ H.cap = 0
  closed : ∀ y, Good c y → ∀ x ∈ (H.get y).children, K c H.size x

theorem Inv2.init (c : Ctx) (hfree : c.H0.free = [] ∧ c.H0.cap = 0)
    (hlive : ∀ r, c.root = some r → ∀ id, Reach c.H0 r id → id < c.H0.size) : Inv2 c c.H0 := by
  refine ⟨Inv.init _ _, hfree, ?_⟩
  intro y hy x hx
  rcases hy with hy | ⟨r, hr, hreach⟩
  · have : c.H0.get y = HNode.empty := get_ge _ _ hy
    rw [this] at hx; simp [HNode.empty] at hx
  · have hx' : Reach c.H0 r x := Reach.step hreach hx
    exact ⟨Or.inr ⟨r, hr, hx'⟩, hlive r hr x hx'⟩

/-- running `m` from a store of size `s` keeps `Inv2`, never shrinks the store, and `Q result finalSize` holds -/
def Pres2 {α : Type} (c : Ctx) (s : Nat) (m : M α) (Q : α → Nat → Prop) : Prop :=
  ∀ H, Inv2 c H → H.size = s → Inv2 c (m H).2 ∧ s ≤ (m H).2.size ∧ Q (m H).1 (m H).2.size

variable {c : Ctx}

theorem Pres2.pure {α : Type} {s : Nat} {Q : α → Nat → Prop} (a : α) (h : Q a s) : Pres2 c s (Pure.pure a : M α) Q :=
  fun _ hi hs => ⟨hi, by rw [← hs]; exact Nat.le_refl _, by rw [← hs] at h; exact h⟩

theorem Pres2.bind {α β : Type} {s : Nat} {m : M α} {f : α → M β} {Q : α → Nat → Prop} {R : β → Nat → Prop}
    (hm : Pres2 c s m Q) (hf : ∀ a s', s ≤ s' → Q a s' → Pres2 c s' (f a) R) : Pres2 c s (m >>= f) R := by
  intro H hi hs
  obtain ⟨h1, h2, h3⟩ := hm H hi hs
  obtain ⟨g1, g2, g3⟩ := hf _ _ h2 h3 _ h1 rfl
  exact ⟨g1, Nat.le_trans h2 g2, g3⟩

theorem Pres2.weaken {α : Type} {s : Nat} {m : M α} {Q R : α → Nat → Prop} (hm : Pres2 c s m Q)
    (h : ∀ a s', s ≤ s' → Q a s' → R a s') : Pres2 c s m R :=
  fun H hi hs => ⟨(hm H hi hs).1, (hm H hi hs).2.1, h _ _ (hm H hi hs).2.1 (hm H hi hs).2.2⟩

theorem Pres2.ite {α : Type} {s : Nat} {p : Prop} [Decidable p] {m1 m2 : M α} {Q : α → Nat → Prop}
    (h1 : p → Pres2 c s m1 Q) (h2 : ¬ p → Pres2 c s m2 Q) : Pres2 c s (if p then m1 else m2) Q := by
  split
  · exact h1 ‹_›
  · exact h2 ‹_›

/-- reading a cell: ownership gives writability, goodness gives good existing children -/
theorem Pres2.rd_bind {β : Type} {s : Nat} (id : Nat) (f : HNode → M β) (R : β → Nat → Prop)
    (hf : ∀ nd : HNode, (nd.cow = some c.cow → Writable c.H0 c.cow id) → (Good c id → ∀ x ∈ nd.children, K c s x) →
      Pres2 c s (f nd) R) :
    Pres2 c s (Cow.rd id >>= f) R :=
  fun H hi hs => hf (H.get id) (fun h => hi.base.tagW id h) (fun hg x hx => hs ▸ hi.closed id hg x hx) H hi hs

theorem Pres2.read {α : Type} {s : Nat} (f : Heap → α) :
    Pres2 c s (fun H => (f H, H) : M α) (fun _ s' => s' = s) :=
  fun _ hi hs => ⟨hi, by rw [hs]; exact Nat.le_refl _, hs⟩

/-! ### primitives -/

theorem get_wr (H : Heap) (id y : Nat) (is : List Item) (cs : List Nat) :
    ((Cow.wr id is cs) H).2.get y = if y = id ∧ id < H.size then ⟨is, cs, (H.get id).cow⟩ else H.get y := by
  show (H.nodes.set id _).getD y HNode.empty = _
  by_cases hy : y = id
  · subst hy
    by_cases hl : y < H.size
    · rw [get_set_self _ _ _ hl]; simp [hl]
    · have h1 : (H.nodes.set y ⟨is, cs, (H.get y).cow⟩).getD y HNode.empty = HNode.empty :=
        get_ge _ _ (by simp; exact Nat.le_of_not_lt hl)
      rw [h1]; simp [hl]; exact (get_ge _ _ (Nat.le_of_not_lt hl)).symm
  · rw [get_set_ne _ _ _ _ hy, if_neg (fun h => hy h.1)]; rfl

theorem Pres2.wr {s : Nat} (id : Nat) (is : List Item) (cs : List Nat) (hw : Writable c.H0 c.cow id)
    (hcs : ∀ x ∈ cs, K c s x) : Pres2 c s (Cow.wr id is cs) (fun _ s' => s' = s) := by
  intro H hi hs
  have hsz : ((Cow.wr id is cs) H).2.size = H.size := by simp [Cow.wr, Heap.size]
  refine ⟨⟨(Pres.wr id is cs hw H hi.base).1, hi.nofree, ?_⟩, by rw [hsz, hs]; exact Nat.le_refl _, by rw [hsz, hs]⟩
  intro y hy x hx
  rw [hsz]
  rw [get_wr] at hx
  split at hx
  · exact hs ▸ hcs x hx
  · exact hi.closed y hy x hx

theorem Pres2.newNode {s : Nat} :
    Pres2 c s (Cow.newNode c.cow) (fun id s' => id = s ∧ s' = s + 1 ∧ Writable c.H0 c.cow id ∧ Good c id) := by
  intro H hi hs
  have hb := Pres.newNode (H0 := c.H0) (cow := c.cow) H hi.base
  have hfree := hi.nofree.1
  have hres : (Cow.newNode c.cow H) = (H.nodes.length, { H with nodes := H.nodes ++ [⟨[], [], some c.cow⟩] }) := by
    unfold Cow.newNode; rw [hfree]
  have hlen : H.nodes.length = s := hs
  have h0 : c.H0.size ≤ s := hs ▸ hi.base.size
  rw [hres] at hb ⊢
  refine ⟨⟨hb.1, ⟨hfree, hi.nofree.2⟩, ?_⟩, by simp [Heap.size]; omega,
    hlen, by simp [Heap.size]; omega, Or.inl (by rw [hlen]; exact h0), Or.inl (by rw [hlen]; exact h0)⟩
  intro y hy x hx
  have hsz : (Heap.size { H with nodes := H.nodes ++ [(⟨[], [], some c.cow⟩ : HNode)] }) = H.size + 1 := by
    simp [Heap.size]
  rw [hsz]
  by_cases hyl : y < H.nodes.length
  · have : (Heap.get { H with nodes := H.nodes ++ [(⟨[], [], some c.cow⟩ : HNode)] } y) = H.get y := by
      simp [Heap.get, List.getD, List.getElem?_append_left hyl]
    rw [this] at hx
    exact (hi.closed y hy x hx).mono (Nat.le_succ _)
  · by_cases hye : y = H.nodes.length
    · have : (Heap.get { H with nodes := H.nodes ++ [(⟨[], [], some c.cow⟩ : HNode)] } y) = ⟨[], [], some c.cow⟩ := by
        simp [Heap.get, List.getD, hye]
      rw [this] at hx; simp at hx
    · have hl : (H.nodes ++ [(⟨[], [], some c.cow⟩ : HNode)]).length ≤ y := by simp; omega
      have : (Heap.get { H with nodes := H.nodes ++ [(⟨[], [], some c.cow⟩ : HNode)] } y) = HNode.empty :=
        get_ge _ _ hl
      rw [this] at hx; simp [HNode.empty] at hx

theorem Pres2.freeNodeT {s : Nat} (id : Nat) : Pres2 c s (Cow.freeNodeT c.cow id) (fun _ s' => s' = s) := by
  intro H hi hs
  have hb := Pres.freeNodeT (H0 := c.H0) (cow := c.cow) id H hi.base
  have hcap : ¬ H.free.length < H.cap := by rw [hi.nofree.1, hi.nofree.2]; simp
  unfold Cow.freeNodeT at hb ⊢
  by_cases ho : (H.get id).cow = some c.cow
  · simp only [ho, if_true, hcap, if_false] at hb ⊢
    have hsz : (Heap.size { H with nodes := H.nodes.set id HNode.empty }) = H.size := by simp [Heap.size]
    refine ⟨⟨hb.1, hi.nofree, ?_⟩, by rw [hsz, hs]; exact Nat.le_refl _, by rw [hsz, hs]⟩
    intro y hy x hx
    rw [hsz]
    by_cases hyi : y = id
    · subst hyi
      by_cases hl : y < H.size
      · have : (Heap.get { H with nodes := H.nodes.set y HNode.empty } y) = HNode.empty := get_set_self _ _ _ hl
        rw [this] at hx; simp [HNode.empty] at hx
      · have : (Heap.get { H with nodes := H.nodes.set y HNode.empty } y) = HNode.empty :=
          get_ge _ _ (by simp; exact Nat.le_of_not_lt hl)
        rw [this] at hx; simp [HNode.empty] at hx
    · have : (Heap.get { H with nodes := H.nodes.set id HNode.empty } y) = H.get y := get_set_ne _ _ _ _ hyi
      rw [this] at hx; exact hi.closed y hy x hx
  · simp only [ho, if_false]
    exact ⟨hi, by rw [hs]; exact Nat.le_refl _, hs⟩

theorem Pres2.freeNode {s : Nat} (id : Nat) : Pres2 c s (Cow.freeNode c.cow id) (fun _ s' => s' = s) := by
  intro H hi hs
  have h := Pres2.freeNodeT (c := c) (s := s) id H hi hs
  have hcap : ¬ H.free.length < H.cap := by rw [hi.nofree.1, hi.nofree.2]; simp
  unfold Cow.freeNodeT at h
  unfold Cow.freeNode
  by_cases ho : (H.get id).cow = some c.cow
  · simp only [ho, if_true, hcap, if_false] at h ⊢; exact h
  · simp only [ho, if_false] at h ⊢; exact h

end Nv.C03.Cow
