import Nv.Proofs.C16Term
/-!
C16 — "whatever ends it": the conditions the terminating events establish (`Doomed`) survive every loop step and
are incompatible with a quiescent live session. Proved configuration, exit callback returns.
-/
set_option linter.unusedSimpArgs false
namespace Nv.C16

/-- a write is in progress or will be attempted (the queue holds a non-empty item) -/
def writeAhead (s : Sess) : Prop := s.sendPc ≠ .idle ∨ ∃ x ∈ s.q, x ≠ []

/-- the send loop will never again block in a write -/
def noBlockAhead (s : Sess) : Prop :=
  s.peerDrain = true ∨ s.wfault = true ∨ ((∀ x, s.sendPc ≠ .writing x) ∧ ∀ x ∈ s.q, x = [])

instance decNotWriting (pc : SendPc) : Decidable (∀ x, pc ≠ .writing x) :=
  match pc with
  | .writing y => isFalse (fun h => h y rfl)
  | .idle => isTrue (by intro x e; cases e)
  | .quitting _ => isTrue (by intro x e; cases e)
  | .done => isTrue (by intro x e; cases e)

instance (s : Sess) : Decidable (writeAhead s) := by unfold writeAhead; exact inferInstance
instance (s : Sess) : Decidable (noBlockAhead s) := by unfold noBlockAhead; exact inferInstance

/-- something has happened that must end the session -/
def Doomed (s : Sess) : Prop :=
  s.recvPc ≠ .reading ∨ s.peerClosed = true ∨ s.closes ≠ 0 ∨ (s.wfault = true ∧ writeAhead s) ∨
  (s.qClosed = true ∧ noBlockAhead s)

/-- which environment events end a session that is in state `s`:
    peer close, a failing read (error, timeout, handler error, failing SetReadDeadline), a handler panic — always;
    a failing write (error, timeout, failing SetWriteDeadline) — when there is a write: one in progress or an item queued;
    a local Close — unless a write stays blocked on a peer that does not read (it then ends with that write:
    when the peer reads again or the write times out, `Doomed` covers both) -/
def Terminating (s : Sess) : Env → Prop
  | .peerClose => True
  | .readFail => True
  | .handlerPanic => True
  | .writeFail => writeAhead s
  | .writeFailAfter _ => writeAhead s   -- … also when the failing write was a partial one
  | .close => noBlockAhead s
  | _ => False

instance (s : Sess) (e : Env) : Decidable (Terminating s e) := by
  cases e <;> unfold Terminating <;> exact inferInstance

theorem doomed_of_event {s : Sess} {e : Env} (h : Terminating s e) : Doomed (envStep s e) := by
  unfold Doomed
  cases e <;> simp only [Terminating] at h
  case close => right; right; right; right; exact ⟨rfl, h⟩
  case peerClose => right; left; rfl
  case readFail => left; simp only [envStep]; split <;> simp_all
  case handlerPanic => left; simp only [envStep]; split <;> simp_all
  case writeFail => right; right; right; left; exact ⟨rfl, h⟩
  case writeFailAfter n =>
    right; right; right; left
    simp only [envStep]
    split
    · rename_i hw; exact ⟨hw, h⟩
    · exact ⟨rfl, h⟩

theorem doomed_sendStepP {s a : Sess} (h : Doomed s) (ha : sendStepP s = some a) : Doomed a := by
  unfold Doomed writeAhead noBlockAhead at h ⊢
  unfold sendStepP at ha
  cases hs : s.sendPc with
  | done => simp [hs] at ha
  | idle =>
    simp only [hs] at ha
    split at ha
    · rename_i hq
      split at ha
      · cases ha
        rcases h with h | h | h | ⟨h1, h2⟩ | ⟨h1, h2⟩
        · exact Or.inl h
        · exact Or.inr (Or.inl h)
        · exact Or.inr (Or.inr (Or.inl h))
        · exact Or.inr (Or.inr (Or.inr (Or.inl ⟨h1, Or.inl (by simp)⟩)))
        · refine Or.inr (Or.inr (Or.inr (Or.inr ⟨h1, ?_⟩)))
          rcases h2 with h2 | h2 | ⟨_, h2⟩
          · exact Or.inl h2
          · exact Or.inr (Or.inl h2)
          · exact Or.inr (Or.inr ⟨by simp, by simpa [hq] using h2⟩)
      · cases ha
    · rename_i x rest hq
      split at ha
      · rename_i hx
        cases ha
        rcases h with h | h | h | ⟨h1, h2⟩ | ⟨h1, h2⟩
        · exact Or.inl h
        · exact Or.inr (Or.inl h)
        · exact Or.inr (Or.inr (Or.inl h))
        · refine Or.inr (Or.inr (Or.inr (Or.inl ⟨h1, ?_⟩)))
          rcases h2 with h2 | ⟨y, hy, hne⟩
          · exact absurd hs h2
          · right
            rw [hq] at hy
            rcases List.mem_cons.1 hy with e | e
            · subst e; exact absurd hx hne
            · exact ⟨y, e, hne⟩
        · refine Or.inr (Or.inr (Or.inr (Or.inr ⟨h1, ?_⟩)))
          rcases h2 with h2 | h2 | ⟨_, h2⟩
          · exact Or.inl h2
          · exact Or.inr (Or.inl h2)
          · exact Or.inr (Or.inr ⟨fun y => by simp, fun y hy => h2 y (by rw [hq]; exact List.mem_cons_of_mem _ hy)⟩)
      · rename_i hx
        cases ha
        rcases h with h | h | h | ⟨h1, h2⟩ | ⟨h1, h2⟩
        · exact Or.inl h
        · exact Or.inr (Or.inl h)
        · exact Or.inr (Or.inr (Or.inl h))
        · exact Or.inr (Or.inr (Or.inr (Or.inl ⟨h1, Or.inl (by simp)⟩)))
        · refine Or.inr (Or.inr (Or.inr (Or.inr ⟨h1, ?_⟩)))
          rcases h2 with h2 | h2 | ⟨_, h2⟩
          · exact Or.inl h2
          · exact Or.inr (Or.inl h2)
          · exact absurd (h2 x (by rw [hq]; simp)) hx
  | writing x =>
    simp only [hs] at ha
    split at ha
    · cases ha
      rcases h with h | h | h | ⟨h1, h2⟩ | ⟨h1, h2⟩
      · exact Or.inl h
      · exact Or.inr (Or.inl h)
      · exact Or.inr (Or.inr (Or.inl h))
      · exact Or.inr (Or.inr (Or.inr (Or.inl ⟨h1, Or.inl (by simp)⟩)))
      · refine Or.inr (Or.inr (Or.inr (Or.inr ⟨h1, ?_⟩)))
        rcases h2 with h2 | h2 | ⟨h2, _⟩
        · exact Or.inl h2
        · exact Or.inr (Or.inl h2)
        · exact absurd hs (h2 x)
    · rename_i hcond
      split at ha
      · rename_i hdr
        cases ha
        rcases h with h | h | h | ⟨h1, h2⟩ | ⟨h1, h2⟩
        · exact Or.inl h
        · exact Or.inr (Or.inl h)
        · exact Or.inr (Or.inr (Or.inl h))
        · simp [h1] at hcond
        · exact Or.inr (Or.inr (Or.inr (Or.inr ⟨h1, Or.inl hdr⟩)))
      · cases ha
  | quitting st =>
    have k : a.recvPc = s.recvPc ∧ a.peerClosed = s.peerClosed ∧ (s.closes ≠ 0 → a.closes ≠ 0) ∧ a.wfault = s.wfault ∧
        a.peerDrain = s.peerDrain ∧ a.q = s.q ∧ (s.qClosed = true → a.qClosed = true) ∧ a.sendPc ≠ .idle ∧
        (∀ x, a.sendPc ≠ .writing x) := by
      cases st <;> simp only [hs] at ha
      · split at ha
        · cases ha; simp
        · split at ha
          · cases ha
          · cases ha; simp
      · cases ha; simp
      · cases ha; simp
      · cases ha; simp
      · cases ha
    obtain ⟨k1, k2, k3, k4, k5, k6, k7, k8, k9⟩ := k
    rcases h with h | h | h | ⟨h1, h2⟩ | ⟨h1, h2⟩
    · left; rw [k1]; exact h
    · right; left; rw [k2]; exact h
    · right; right; left; exact k3 h
    · right; right; right; left; exact ⟨by rw [k4]; exact h1, Or.inl k8⟩
    · right; right; right; right
      refine ⟨k7 h1, ?_⟩
      rcases h2 with h2 | h2 | ⟨_, h2⟩
      · left; rw [k5]; exact h2
      · right; left; rw [k4]; exact h2
      · right; right; exact ⟨k9, by rw [k6]; exact h2⟩

theorem doomed_recvStepP {s b : Sess} (hb : recvStepP s = some b) : Doomed b := by
  have k : b.recvPc ≠ .reading := by
    unfold recvStepP at hb
    repeat' split at hb
    all_goals first | (cases hb; simp) | cases hb
  exact Or.inl k

theorem doomed_not_waiting {s : Sess} (h : Doomed s) (hw : waiting s) : False := by
  unfold Doomed writeAhead noBlockAhead at h
  unfold waiting at hw
  obtain ⟨_, _, _, w4, w5, w6, w7⟩ := hw
  rcases h with h | h | h | ⟨h1, h2⟩ | ⟨h1, h2⟩
  · exact h w5
  · simp [w6] at h
  · exact h w4
  · rcases w7 with ⟨a1, a2, _⟩ | ⟨x, _, _, a3⟩
    · rcases h2 with h2 | ⟨y, hy, _⟩
      · exact h2 a1
      · simp [a2] at hy
    · simp [a3] at h1
  · rcases w7 with ⟨_, _, a3⟩ | ⟨x, a1, a2, a3⟩
    · simp [a3] at h1
    · rcases h2 with h2 | h2 | ⟨h2, _⟩
      · simp [a2] at h2
      · simp [a3] at h2
      · exact h2 x a1

end Nv.C16
