import Nv.Proofs.C06Hard
set_option linter.unusedSimpArgs false
set_option linter.unusedVariables false
/-! C06 — one call of `MonoNode.Generate` (model `monoGen`) and of `GenIDByTS` (model `nanoGen`) as numbers. -/
namespace Nv.C06

structure MWF (nb : BitVec 8) (st : MState) : Prop where
  time : st.time.toNat < 2 ^ tsWidth nb
  node : st.node.toNat < 2 ^ nb.toNat
  step : st.step.toNat < 4096

def mVal (nb : BitVec 8) (nal : Bool) (st : MState) : Nat :=
  st.time.toNat * 2 ^ tsShift nb + lowNat nb nal st.node.toNat st.step.toNat

/-- one call under a reading that is not before the last one used (`time ≤ now`); the reading that ends the
    spin loop is accepted by the model only if it is past `time` -/
theorem monoGen_step {nb : BitVec 8} (hl : LayoutOk nb) (nal : Bool) {st st' : MState} (wf : MWF nb st)
    {now spin id : BitVec 64} (hmono : st.time.toInt ≤ now.toInt)
    (hgen : monoGen nb nal st now spin = some (st', id)) (hpost : st'.time.toNat < 2 ^ tsWidth nb) :
    MWF nb st' ∧ id.toNat = mVal nb nal st' ∧ mVal nb nal st < mVal nb nal st' ∧ st'.node = st.node ∧
      id = join nb nal st'.time st.node st'.step := by
  have hW := tsWidth_le hl
  have hst := wf.step
  have ht43 : st.time.toNat < 2 ^ 43 := Nat.lt_of_lt_of_le wf.time hW
  have htI : st.time.toInt = (st.time.toNat : Int) := toInt_eq_toNat_of_lt (by omega)
  have hs1 := step_succ_toNat wf.step
  unfold monoGen at hgen
  by_cases heq : (now == st.time) = true
  · rw [if_pos heq] at hgen
    by_cases hz : (((st.step + 1#64) &&& 4095#64) == 0#64) = true
    · rw [if_pos hz] at hgen
      by_cases hsp : BitVec.sle spin st.time = true
      · rw [if_pos hsp] at hgen; cases hgen
      · rw [if_neg hsp] at hgen
        cases hgen
        simp only at hpost
        have hgt : st.time.toInt < spin.toInt := by
          have : ¬ spin.toInt ≤ st.time.toInt := fun h => hsp (BitVec.sle_iff_toInt_le.2 h)
          omega
        have hspI : spin.toInt = (spin.toNat : Int) := toInt_eq_toNat_of_lt (by omega)
        refine ⟨⟨hpost, wf.node, by simp⟩, join_toNat hl nal hpost wf.node (by simp), ?_, rfl, rfl⟩
        unfold mVal
        exact stVal_lt_of_lex hl nal wf.node wf.step (by simp) (Or.inl (by simp only; omega))
    · rw [if_neg hz] at hgen
      cases hgen
      have hnz' : ((st.step + 1#64) &&& 4095#64).toNat ≠ 0 := by
        intro h0
        apply hz
        have : (st.step + 1#64) &&& 4095#64 = 0#64 := BitVec.eq_of_toNat_eq (by rw [h0]; rfl)
        rw [this]; rfl
      have hnow : now = st.time := eq_of_beq heq
      subst hnow
      refine ⟨⟨wf.time, wf.node, by simp only; omega⟩, join_toNat hl nal wf.time wf.node (by omega), ?_, rfl, rfl⟩
      unfold mVal
      exact stVal_lt_of_lex hl nal wf.node wf.step (by simp only; omega) (Or.inr ⟨rfl, by simp only; omega⟩)
  · rw [if_neg heq] at hgen
    cases hgen
    simp only at hpost
    have hne : now.toInt ≠ st.time.toInt := by
      intro h; apply heq; rw [BitVec.toInt_inj.1 h]; exact BEq.rfl
    have hnowI : now.toInt = (now.toNat : Int) := toInt_eq_toNat_of_lt (by omega)
    refine ⟨⟨hpost, wf.node, by simp⟩, join_toNat hl nal hpost wf.node (by simp), ?_, rfl, rfl⟩
    unfold mVal
    exact stVal_lt_of_lex hl nal wf.node wf.step (by simp) (Or.inl (by simp only; omega))

/-- `GenIDByTS` below MaxInt64: the id is above the previous one and not below the supplied timestamp -/
theorem nanoGen_step (ts cur : BitVec 64) (h : cur.toInt < 2 ^ 63 - 1) :
    cur.toInt < (nanoGen ts cur).1.toInt ∧ (nanoGen ts cur).2 = (nanoGen ts cur).1 ∧ ts.toInt ≤ (nanoGen ts cur).1.toInt := by
  unfold nanoGen
  have hlo := BitVec.le_toInt (x := cur)
  split
  · rename_i hlt
    rw [BitVec.slt_iff_toInt_lt] at hlt
    exact ⟨hlt, rfl, Int.le_refl _⟩
  · rename_i hge
    have hle : ts.toInt ≤ cur.toInt := by
      have : ¬ cur.toInt < ts.toInt := fun h => hge (BitVec.slt_iff_toInt_lt.2 h)
      omega
    have h1 : (cur + 1#64).toInt = cur.toInt + 1 := by
      rw [BitVec.toInt_add, show (1#64).toInt = 1 by decide]
      apply Int.bmod_eq_of_le <;> omega
    refine ⟨?_, rfl, ?_⟩ <;> simp only <;> rw [h1] <;> omega

end Nv.C06
