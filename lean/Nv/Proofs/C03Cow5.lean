import Nv.Proofs.C03Cow4
/-! C03, layer B — every write operation keeps the closure invariant `Inv2` (free list of capacity 0). -/
namespace Nv.C03.Cow
open Nv.C03

variable {c : Ctx}

/-! ### membership in the rebuilt child lists -/

theorem mem_setAt' {α} {l : List α} {i : Nat} {a b : α} (h : b ∈ setAt l i a) : b = a ∨ b ∈ l := by
  simp only [setAt, List.mem_append, List.mem_cons] at h
  rcases h with h | h | h
  · exact Or.inr (List.mem_of_mem_take h)
  · exact Or.inl h
  · exact Or.inr (List.mem_of_mem_drop h)

theorem mem_insertAt' {α} {l : List α} {i : Nat} {a b : α} (h : b ∈ insertAt l i a) : b = a ∨ b ∈ l := by
  simp only [insertAt, List.mem_append, List.mem_cons] at h
  rcases h with h | h | h
  · exact Or.inr (List.mem_of_mem_take h)
  · exact Or.inl h
  · exact Or.inr (List.mem_of_mem_drop h)

theorem mem_removeAt' {α} {l : List α} {i : Nat} {b : α} (h : b ∈ removeAt l i) : b ∈ l := by
  simp only [removeAt, List.mem_append] at h
  rcases h with h | h
  · exact List.mem_of_mem_take h
  · exact List.mem_of_mem_drop h

theorem getD_mem_or {α} (l : List α) (i : Nat) (d : α) : l.getD i d ∈ l ∨ l.getD i d = d := by
  by_cases h : i < l.length
  · left; simp [List.getD, h]
  · right; simp [List.getD, List.getElem?_eq_none (Nat.le_of_not_lt h)]

theorem mem_getLast?_toList {α} {l : List α} {b : α} (h : b ∈ l.getLast?.toList) : b ∈ l := by
  cases hl : l.getLast? with
  | none => rw [hl] at h; simp at h
  | some z =>
    rw [hl] at h; simp at h; subst h
    exact List.mem_of_getLast? hl

/-- all members are good and exist -/
def AllK (c : Ctx) (s : Nat) (l : List Nat) : Prop := ∀ x ∈ l, K c s x

theorem AllK.mono {s s' : Nat} {l : List Nat} (h : AllK c s l) (hs : s ≤ s') : AllK c s' l := fun x hx => (h x hx).mono hs
theorem AllK.nil {s : Nat} : AllK c s [] := fun _ h => by simp at h
theorem AllK.sub {s : Nat} {l l' : List Nat} (h : AllK c s l) (hsub : ∀ x ∈ l', x ∈ l) : AllK c s l' :=
  fun x hx => h x (hsub x hx)
theorem AllK.append {s : Nat} {l l' : List Nat} (h : AllK c s l) (h' : AllK c s l') : AllK c s (l ++ l') := by
  intro x hx; rcases List.mem_append.1 hx with hx | hx
  · exact h x hx
  · exact h' x hx
theorem AllK.setAt {s i a : Nat} {l : List Nat} (h : AllK c s l) (ha : K c s a) : AllK c s (setAt l i a) := by
  intro x hx; rcases mem_setAt' hx with rfl | hx
  · exact ha
  · exact h x hx
theorem AllK.insertAt {s i a : Nat} {l : List Nat} (h : AllK c s l) (ha : K c s a) : AllK c s (insertAt l i a) := by
  intro x hx; rcases mem_insertAt' hx with rfl | hx
  · exact ha
  · exact h x hx
theorem AllK.getD {s i d : Nat} {l : List Nat} (h : AllK c s l) (hd : K c s d) : K c s (l.getD i d) := by
  rcases getD_mem_or l i d with hm | he
  · exact h _ hm
  · rw [he]; exact hd

/-! ### the operations -/

theorem Pres2.mutableFor {s : Nat} (id : Nat) (hk : K c s id) :
    Pres2 c s (mutableFor c.cow id) (fun out s' => K c s' out ∧ Writable c.H0 c.cow out) := by
  unfold Cow.mutableFor
  apply Pres2.rd_bind; intro nd how hch
  apply Pres2.ite
  · intro h; exact Pres2.pure _ ⟨hk, how h⟩
  · intro _
    apply Pres2.bind Pres2.newNode; intro out s1 hs1 hq
    obtain ⟨e1, e2, hw, hg⟩ := hq
    apply Pres2.bind (Pres2.wr out _ _ hw (fun x hx => (hch hk.1 x hx).mono hs1)); intro _ s2 _ e
    subst e
    exact Pres2.pure _ ⟨⟨hg, by omega⟩, hw⟩

theorem Pres2.mutableChild {s : Nat} (n i : Nat) (hk : K c s n) (hw : Writable c.H0 c.cow n) :
    Pres2 c s (mutableChild c.cow n i) (fun ch s' => K c s' ch ∧ Writable c.H0 c.cow ch) := by
  unfold Cow.mutableChild
  apply Pres2.rd_bind; intro nd _ hch
  have hall : AllK c s nd.children := hch hk.1
  apply Pres2.bind (Pres2.mutableFor _ (hall.getD hk)); intro ch s1 hs1 hq
  apply Pres2.bind (Pres2.wr n _ _ hw ((hall.mono hs1).setAt hq.1)); intro _ s2 _ e
  subst e
  exact Pres2.pure _ hq

theorem Pres2.splitB {s : Nat} (n i : Nat) (hk : K c s n) (hw : Writable c.H0 c.cow n) :
    Pres2 c s (splitB c.cow n i) (fun r s' => K c s' r.2 ∧ Writable c.H0 c.cow r.2) := by
  unfold Cow.splitB
  apply Pres2.rd_bind; intro nd _ hch
  have hall : AllK c s nd.children := hch hk.1
  apply Pres2.bind Pres2.newNode; intro next s1 hs1 hq
  obtain ⟨e1, e2, hwn, hg⟩ := hq
  apply Pres2.bind (Pres2.wr next _ _ hwn ((hall.mono hs1).sub (fun x hx => List.mem_of_mem_drop hx))); intro _ s2 _ e
  subst e
  apply Pres2.bind (Pres2.wr n _ _ hw ((hall.mono hs1).sub (fun x hx => List.mem_of_mem_take hx))); intro _ s3 _ e
  subst e
  exact Pres2.pure _ ⟨⟨hg, by omega⟩, hwn⟩

theorem Pres2.insertHere {s : Nat} (n : Nat) (nd : HNode) (x : Item) (hw : Writable c.H0 c.cow n)
    (hall : AllK c s nd.children) : Pres2 c s (insertHere n nd x) (fun _ _ => True) := by
  unfold Cow.insertHere
  apply Pres2.ite
  · intro _
    apply Pres2.bind (Pres2.wr n _ _ hw hall); intro _ _ _ _
    exact Pres2.pure _ trivial
  · intro _
    apply Pres2.bind (Pres2.wr n _ _ hw AllK.nil); intro _ _ _ _
    exact Pres2.pure _ trivial

theorem Pres2.insertB (mx : Nat) (x : Item) : ∀ (fuel n s : Nat), K c s n → Writable c.H0 c.cow n →
    Pres2 c s (insertB c.cow mx x fuel n) (fun _ _ => True) := by
  intro fuel
  induction fuel with
  | zero =>
    intro n s hk hw
    unfold Cow.insertB
    apply Pres2.rd_bind; intro nd _ hch
    apply Pres2.ite
    · intro _; exact Pres2.insertHere _ _ _ hw (hch hk.1)
    · intro _; exact Pres2.pure _ trivial
  | succ fuel ih =>
    intro n s hk hw
    unfold Cow.insertB
    apply Pres2.rd_bind; intro nd _ hch
    apply Pres2.ite
    · intro _; exact Pres2.insertHere _ _ _ hw (hch hk.1)
    · intro _
      apply Pres2.rd_bind; intro cn _ _
      apply Pres2.ite
      · intro _
        apply Pres2.bind (Pres2.mutableChild _ _ hk hw); intro ch s1 _ hq
        exact ih ch s1 hq.1 hq.2
      · intro _
        apply Pres2.bind (Pres2.mutableChild _ _ hk hw); intro first s1 hs1 hq1
        apply Pres2.bind (Pres2.splitB _ _ hq1.1 hq1.2); intro sp s2 hs2 hq2
        have hk2 : K c s2 n := hk.mono (Nat.le_trans hs1 hs2)
        apply Pres2.rd_bind; intro nd1 _ hch1
        apply Pres2.bind (Pres2.wr n _ _ hw ((show AllK c s2 nd1.children from hch1 hk.1).insertAt hq2.1)); intro _ s3 _ e
        subst e
        apply Pres2.ite
        · intro _
          apply Pres2.bind (Pres2.mutableChild _ _ hk2 hw); intro ch s4 _ hq
          exact ih ch s4 hq.1 hq.2
        · intro _
          apply Pres2.ite
          · intro _
            apply Pres2.bind (Pres2.mutableChild _ _ hk2 hw); intro ch s4 _ hq
            exact ih ch s4 hq.1 hq.2
          · intro _
            apply Pres2.rd_bind; intro nd2 _ hch2
            apply Pres2.bind (Pres2.wr n _ _ hw (hch2 hk.1)); intro _ _ _ _
            exact Pres2.pure _ trivial

theorem Pres2.growB {s : Nat} (mn n i : Nat) (hk : K c s n) (hw : Writable c.H0 c.cow n) :
    Pres2 c s (growB c.cow mn n i) (fun _ _ => True) := by
  unfold Cow.growB
  apply Pres2.rd_bind; intro nd _ _
  apply Pres2.rd_bind; intro left _ _
  apply Pres2.rd_bind; intro right _ _
  apply Pres2.ite
  · intro _
    apply Pres2.bind (Pres2.mutableChild _ _ hk hw); intro child s1 hs1 hqc
    apply Pres2.bind (Pres2.mutableChild _ _ (hk.mono hs1) hw); intro sfid s2 hs2 hqs
    apply Pres2.rd_bind; intro sf _ hsf
    apply Pres2.rd_bind; intro ch _ hchc
    apply Pres2.rd_bind; intro nd1 _ hn1
    have asf : AllK c s2 sf.children := hsf hqs.1.1
    have ach : AllK c s2 ch.children := hchc hqc.1.1
    have an1 : AllK c s2 nd1.children := hn1 hk.1
    apply Pres2.bind (Pres2.wr sfid _ _ hqs.2 (asf.sub (fun x hx => (List.dropLast_sublist _).subset hx))); intro _ s3 _ e
    subst e
    apply Pres2.bind (Pres2.wr child _ _ hqc.2 ((asf.sub (fun x hx => mem_getLast?_toList hx)).append ach)); intro _ s4 _ e
    subst e
    exact Pres2.weaken (Pres2.wr n _ _ hw an1) (fun _ _ _ _ => trivial)
  · intro _
    apply Pres2.ite
    · intro _
      apply Pres2.bind (Pres2.mutableChild _ _ hk hw); intro child s1 hs1 hqc
      apply Pres2.bind (Pres2.mutableChild _ _ (hk.mono hs1) hw); intro sfid s2 hs2 hqs
      apply Pres2.rd_bind; intro sf _ hsf
      apply Pres2.rd_bind; intro ch _ hchc
      apply Pres2.rd_bind; intro nd1 _ hn1
      have asf : AllK c s2 sf.children := hsf hqs.1.1
      have ach : AllK c s2 ch.children := hchc hqc.1.1
      have an1 : AllK c s2 nd1.children := hn1 hk.1
      apply Pres2.bind (Pres2.wr sfid _ _ hqs.2 (asf.sub (fun x hx => List.mem_of_mem_drop hx))); intro _ s3 _ e
      subst e
      apply Pres2.bind (Pres2.wr child _ _ hqc.2 (ach.append (asf.sub (fun x hx => List.mem_of_mem_take hx)))); intro _ s4 _ e
      subst e
      exact Pres2.weaken (Pres2.wr n _ _ hw an1) (fun _ _ _ _ => trivial)
    · intro _
      apply Pres2.bind (Pres2.mutableChild _ _ hk hw); intro child s1 hs1 hqc
      apply Pres2.rd_bind; intro nd1 _ hn1
      have an1 : AllK c s1 nd1.children := hn1 hk.1
      have hkm : K c s1 (nd1.children.getD ((if nd.items.length ≤ i then i - 1 else i) + 1) n) := an1.getD (hk.mono hs1)
      apply Pres2.rd_bind; intro mc _ hmc
      apply Pres2.rd_bind; intro ch _ hchc
      have amc : AllK c s1 mc.children := hmc hkm.1
      have ach : AllK c s1 ch.children := hchc hqc.1.1
      apply Pres2.bind (Pres2.wr n _ _ hw (an1.sub (fun x hx => mem_removeAt' hx))); intro _ s2 _ e
      subst e
      apply Pres2.bind (Pres2.wr child _ _ hqc.2 (ach.append amc)); intro _ s3 _ e
      subst e
      exact Pres2.weaken (Pres2.freeNode _) (fun _ _ _ _ => trivial)

theorem Pres2.removeLeaf {s : Nat} (n : Nat) (nd : HNode) (typ : Rm) (hw : Writable c.H0 c.cow n) :
    Pres2 c s (removeLeaf n nd typ) (fun _ _ => True) := by
  unfold Cow.removeLeaf
  apply Pres2.bind (Pres2.wr n _ _ hw AllK.nil); intro _ _ _ _
  exact Pres2.pure _ trivial

theorem Pres2.removeB (mn : Nat) : ∀ (fuel n s : Nat) (typ : Rm), K c s n → Writable c.H0 c.cow n →
    Pres2 c s (removeB c.cow mn fuel n typ) (fun _ _ => True) := by
  intro fuel
  induction fuel with
  | zero =>
    intro n s typ hk hw
    unfold Cow.removeB
    apply Pres2.rd_bind; intro nd _ _
    apply Pres2.ite
    · intro _; exact Pres2.removeLeaf _ _ _ hw
    · intro _; exact Pres2.pure _ trivial
  | succ fuel ih =>
    intro n s typ hk hw
    unfold Cow.removeB
    apply Pres2.rd_bind; intro nd _ _
    apply Pres2.ite
    · intro _; exact Pres2.removeLeaf _ _ _ hw
    · intro _
      apply Pres2.rd_bind; intro cn _ _
      apply Pres2.bind (Q := fun _ _ => True)
      · apply Pres2.ite
        · intro _; exact Pres2.growB _ _ _ hk hw
        · intro _; exact Pres2.pure _ trivial
      · intro _ s1 hs1 _
        apply Pres2.rd_bind; intro nd1 _ _
        apply Pres2.bind (Pres2.mutableChild _ _ (hk.mono hs1) hw); intro child s2 hs2 hq
        apply Pres2.ite
        · intro _
          apply Pres2.bind (ih child s2 .max hq.1 hq.2); intro p s3 hs3 _
          apply Pres2.rd_bind; intro nd2 _ hch2
          apply Pres2.bind (Pres2.wr n _ _ hw (hch2 hk.1)); intro _ _ _ _
          exact Pres2.pure _ trivial
        · intro _; exact ih child s2 typ hq.1 hq.2

end Nv.C03.Cow
