import Nv.Proofs.C03Cow5
/-! C03, layer B — whole operations keep the closure invariant; the invariant of programs over several handles
(free list of capacity 0); clone isolation for arbitrary interleavings of writers. -/
namespace Nv.C03.Cow
open Nv.C03

variable {c : Ctx}

/-- the root of the resulting handle is good and exists; the tag is kept -/
def RootOk (c : Ctx) (r : HTree × Option Item) (s' : Nat) : Prop :=
  (∀ rt, r.1.root = some rt → K c s' rt) ∧ r.1.cow = c.cow

theorem Pres2.replaceOrInsertB {s : Nat} (t : HTree) (x : Item) (ht : t.cow = c.cow)
    (hk0 : ∀ r0, t.root = some r0 → K c s r0) : Pres2 c s (replaceOrInsertB t x) (RootOk c) := by
  unfold Cow.replaceOrInsertB
  rw [ht]
  cases hr : t.root with
  | none =>
    simp only []
    apply Pres2.bind Pres2.newNode; intro r s1 _ hq
    obtain ⟨e1, e2, hw, hg⟩ := hq
    apply Pres2.bind (Pres2.wr r _ _ hw AllK.nil); intro _ s2 _ e
    subst e
    exact Pres2.pure _ ⟨fun rt h => by simp at h; subst h; exact ⟨hg, by omega⟩, rfl⟩
  | some r0 =>
    simp only []
    apply Pres2.bind (Pres2.mutableFor _ (hk0 r0 hr)); intro r s1 hs1 hq
    apply Pres2.rd_bind; intro nd _ _
    apply Pres2.bind (Q := fun root s' => K c s' root ∧ Writable c.H0 c.cow root)
    · apply Pres2.ite
      · intro _
        apply Pres2.bind (Pres2.splitB _ _ hq.1 hq.2); intro sp s2 hs2 hq2
        apply Pres2.bind Pres2.newNode; intro nr s3 hs3 hq3
        obtain ⟨e1, e2, hwn, hgn⟩ := hq3
        have hall : AllK c s3 [r, sp.2] := by
          intro y hy
          simp only [List.mem_cons, List.not_mem_nil, or_false] at hy
          rcases hy with rfl | rfl
          · exact hq.1.mono (Nat.le_trans hs2 hs3)
          · exact hq2.1.mono hs3
        apply Pres2.bind (Pres2.wr nr _ _ hwn hall); intro _ s4 _ e
        subst e
        exact Pres2.pure _ ⟨⟨hgn, by omega⟩, hwn⟩
      · intro _; exact Pres2.pure _ hq
    · intro root s2 _ hqr
      apply Pres2.bind (Pres2.read _); intro h s3 _ e
      subst e
      apply Pres2.bind (Pres2.insertB _ _ _ _ _ hqr.1 hqr.2); intro out s4 hs4 _
      exact Pres2.pure _ ⟨fun rt h => by simp at h; subst h; exact hqr.1.mono hs4, rfl⟩

theorem Pres2.deleteItemB {s : Nat} (t : HTree) (typ : Rm) (ht : t.cow = c.cow)
    (hk0 : ∀ r0, t.root = some r0 → K c s r0) : Pres2 c s (deleteItemB t typ) (RootOk c) := by
  unfold Cow.deleteItemB
  rw [ht]
  cases hr : t.root with
  | none => simp only []; exact Pres2.pure _ ⟨fun rt h => by simp [hr] at h, ht⟩
  | some r0 =>
    simp only []
    apply Pres2.rd_bind; intro nd0 _ _
    apply Pres2.ite
    · intro _; exact Pres2.pure _ ⟨fun rt h => by rw [hr] at h; simp at h; subst h; exact hk0 _ hr, ht⟩
    · intro _
      apply Pres2.bind (Pres2.mutableFor _ (hk0 r0 hr)); intro r s1 hs1 hq
      apply Pres2.bind (Pres2.read _); intro h s2 _ e
      subst e
      apply Pres2.bind (Pres2.removeB _ _ _ _ _ hq.1 hq.2); intro out s3 hs3 _
      apply Pres2.rd_bind; intro nd _ hch
      have hall : AllK c s3 nd.children := hch hq.1.1
      apply Pres2.bind (Q := fun root s' => K c s' root)
      · cases nd.items with
        | cons a l => simp only []; exact Pres2.pure _ (hq.1.mono hs3)
        | nil =>
          cases hcs : nd.children with
          | nil => simp only []; exact Pres2.pure _ (hq.1.mono hs3)
          | cons ch cs =>
            simp only []
            apply Pres2.bind (Pres2.freeNode _); intro _ s4 _ e
            subst e
            exact Pres2.pure _ (hall ch (by rw [hcs]; simp))
      · intro root s4 _ hqr
        exact Pres2.pure _ ⟨fun rt h => by simp at h; subst h; exact hqr, rfl⟩

theorem pres2_foldlM_reset (fuel : Nat)
    (ih : ∀ id s, Pres2 c s (resetB c.cow fuel id) (fun _ _ => True)) :
    ∀ (l : List Nat) (acc : Bool) (s : Nat),
      Pres2 c s (l.foldlM (fun (acc : Bool) ch => if acc then resetB c.cow fuel ch else (Pure.pure false : M Bool)) acc)
        (fun _ _ => True)
  | [], acc, s => by simp only [List.foldlM_nil]; exact Pres2.pure _ trivial
  | ch :: l, acc, s => by
    simp only [List.foldlM_cons]
    apply Pres2.bind (Q := fun _ _ => True)
    · apply Pres2.ite
      · intro _; exact ih ch s
      · intro _; exact Pres2.pure _ trivial
    · intro acc' s' _ _; exact pres2_foldlM_reset fuel ih l acc' s'

theorem Pres2.resetB : ∀ (fuel id s : Nat), Pres2 c s (resetB c.cow fuel id) (fun _ _ => True) := by
  intro fuel
  induction fuel with
  | zero =>
    intro id s
    unfold Cow.resetB
    apply Pres2.bind (Pres2.freeNodeT _); intro _ _ _ _
    exact Pres2.pure _ trivial
  | succ fuel ih =>
    intro id s
    unfold Cow.resetB
    apply Pres2.rd_bind; intro nd _ _
    apply Pres2.bind (pres2_foldlM_reset fuel ih _ _ _); intro go s1 _ _
    apply Pres2.ite
    · intro _
      apply Pres2.bind (Pres2.freeNodeT _); intro _ _ _ _
      exact Pres2.pure _ trivial
    · intro _; exact Pres2.pure _ trivial

theorem Pres2.clearB {s : Nat} (t : HTree) (add : Bool) (ht : t.cow = c.cow) :
    Pres2 c s (clearB t add) (RootOk c) := by
  unfold Cow.clearB
  rw [ht]
  cases t.root with
  | none => simp only []; exact Pres2.pure _ ⟨fun rt h => by simp at h, rfl⟩
  | some r =>
    simp only []
    apply Pres2.bind (Pres2.read _); intro h s1 _ e
    subst e
    apply Pres2.bind (Q := fun _ _ => True)
    · apply Pres2.ite
      · intro _; exact Pres2.resetB _ _ _
      · intro _; exact Pres2.pure _ trivial
    · intro _ _ _ _; exact Pres2.pure _ ⟨fun rt h => by simp at h, rfl⟩

theorem Pres2.applyW {s : Nat} (t : HTree) (op : WOp) (ht : t.cow = c.cow)
    (hk0 : ∀ r0, t.root = some r0 → K c s r0) : Pres2 c s (applyW t op) (RootOk c) := by
  cases op with
  | insert x => exact Pres2.replaceOrInsertB t x ht hk0
  | remove typ => exact Pres2.deleteItemB t typ ht hk0
  | clear add => exact Pres2.clearB t add ht

/-- under `Inv2`, everything reachable from a good existing cell is good and exists -/
theorem reach_good (H : Heap) (hi : Inv2 c H) (r : Nat) (hr : K c H.size r) :
    ∀ id, Reach H r id → K c H.size id := by
  intro id h
  induction h with
  | refl => exact hr
  | step _ hmem ih => exact hi.closed _ ih.1 _ hmem

end Nv.C03.Cow
