import Nv.Model.C06
set_option linter.unusedSimpArgs false
/-!
Bit-field arithmetic of the snowflake layout, shared by C06 and C07: value of `join`, `idFields` of a
`join`, `join` of `idFields`. The six layouts (node width 8/9/10 × node-at-lowest) are handled by
case distinction; inside a case every shift amount is a literal.
-/
namespace Nv.C06

/-- the three node widths of the package (`Node256`, `Node512`, `Node1024`) -/
def LayoutOk (nb : BitVec 8) : Prop := nb = 8#8 ∨ nb = 9#8 ∨ nb = 10#8
instance : DecidablePred LayoutOk := fun nb => by unfold LayoutOk; exact inferInstance

/-- bits of node and step together (everything below the timestamp) -/
def lowNat (nb : BitVec 8) (nal : Bool) (n s : Nat) : Nat :=
  if nal then s * 2 ^ nb.toNat + n else n * 4096 + s

/-- number of bits below the timestamp -/
def tsShift (nb : BitVec 8) : Nat := nb.toNat + 12

/-- width of the timestamp field -/
def tsWidth (nb : BitVec 8) : Nat := 51 - nb.toNat

theorem or_eq_add_nat (a b i : Nat) (hb : b < 2 ^ i) : (a * 2 ^ i) ||| b = a * 2 ^ i + b := by
  rw [← Nat.shiftLeft_eq, ← Nat.shiftLeft_add_eq_or_of_lt hb]

theorem toInt_eq_toNat_of_lt {x : BitVec 64} (h : x.toNat < 2 ^ 63) : x.toInt = (x.toNat : Int) := by
  rw [BitVec.toInt_eq_toNat_cond]; split <;> omega

theorem toNat_lt_of_toInt_nonneg {x : BitVec 64} (h : 0 ≤ x.toInt) : x.toNat < 2 ^ 63 := by
  rw [BitVec.toInt_eq_toNat_cond] at h; split at h <;> omega

theorem lowNat_lt {nb : BitVec 8} (hl : LayoutOk nb) (nal : Bool) {n s : Nat} (hn : n < 2 ^ nb.toNat) (hs : s < 4096) :
    lowNat nb nal n s < 2 ^ tsShift nb := by
  rcases hl with rfl | rfl | rfl <;> cases nal <;>
    simp only [lowNat, tsShift, BitVec.toNat_ofNat, Nat.reduceMod, Nat.reduceAdd, Nat.reducePow, Bool.false_eq_true, if_false, if_true] at hn ⊢ <;> omega

/-- the value of the three fields packed by `Generate` -/
theorem join_toNat {nb : BitVec 8} (hl : LayoutOk nb) (nal : Bool) {t n s : BitVec 64}
    (ht : t.toNat < 2 ^ tsWidth nb) (hn : n.toNat < 2 ^ nb.toNat) (hs : s.toNat < 4096) :
    (join nb nal t n s).toNat = t.toNat * 2 ^ tsShift nb + lowNat nb nal n.toNat s.toNat := by
  rcases hl with rfl | rfl | rfl <;> cases nal <;>
    simp only [join, figureShift, lowNat, tsShift, tsWidth, Bool.false_eq_true, if_false, if_true, BitVec.toNat_or,
      BitVec.toNat_shiftLeft, BitVec.toNat_add, BitVec.toNat_ofNat, Nat.reduceMod, Nat.reduceAdd, Nat.reduceSub,
      Nat.reducePow, Nat.shiftLeft_eq, Nat.pow_zero, Nat.mul_one] at ht hn ⊢
  · rw [Nat.mod_eq_of_lt (by omega), Nat.mod_eq_of_lt (by omega), Nat.mod_eq_of_lt (by omega), Nat.or_assoc]
    have h1 := or_eq_add_nat n.toNat s.toNat 12 (by omega)
    have h2 := or_eq_add_nat t.toNat (n.toNat * 2 ^ 12 + s.toNat) 20 (by omega)
    simp only [Nat.reducePow] at h1 h2; rw [h1, h2]
  · rw [Nat.mod_eq_of_lt (by omega), Nat.mod_eq_of_lt (by omega), Nat.mod_eq_of_lt (by omega), Nat.or_assoc,
      Nat.or_comm n.toNat]
    have h1 := or_eq_add_nat s.toNat n.toNat 8 (by omega)
    have h2 := or_eq_add_nat t.toNat (s.toNat * 2 ^ 8 + n.toNat) 20 (by omega)
    simp only [Nat.reducePow] at h1 h2; rw [h1, h2]
  · rw [Nat.mod_eq_of_lt (by omega), Nat.mod_eq_of_lt (by omega), Nat.mod_eq_of_lt (by omega), Nat.or_assoc]
    have h1 := or_eq_add_nat n.toNat s.toNat 12 (by omega)
    have h2 := or_eq_add_nat t.toNat (n.toNat * 2 ^ 12 + s.toNat) 21 (by omega)
    simp only [Nat.reducePow] at h1 h2; rw [h1, h2]
  · rw [Nat.mod_eq_of_lt (by omega), Nat.mod_eq_of_lt (by omega), Nat.mod_eq_of_lt (by omega), Nat.or_assoc,
      Nat.or_comm n.toNat]
    have h1 := or_eq_add_nat s.toNat n.toNat 9 (by omega)
    have h2 := or_eq_add_nat t.toNat (s.toNat * 2 ^ 9 + n.toNat) 21 (by omega)
    simp only [Nat.reducePow] at h1 h2; rw [h1, h2]
  · rw [Nat.mod_eq_of_lt (by omega), Nat.mod_eq_of_lt (by omega), Nat.mod_eq_of_lt (by omega), Nat.or_assoc]
    have h1 := or_eq_add_nat n.toNat s.toNat 12 (by omega)
    have h2 := or_eq_add_nat t.toNat (n.toNat * 2 ^ 12 + s.toNat) 22 (by omega)
    simp only [Nat.reducePow] at h1 h2; rw [h1, h2]
  · rw [Nat.mod_eq_of_lt (by omega), Nat.mod_eq_of_lt (by omega), Nat.mod_eq_of_lt (by omega), Nat.or_assoc,
      Nat.or_comm n.toNat]
    have h1 := or_eq_add_nat s.toNat n.toNat 10 (by omega)
    have h2 := or_eq_add_nat t.toNat (s.toNat * 2 ^ 10 + n.toNat) 22 (by omega)
    simp only [Nat.reducePow] at h1 h2; rw [h1, h2]

/-- a packed id is a non-negative int64 -/
theorem join_lt {nb : BitVec 8} (hl : LayoutOk nb) (nal : Bool) {t n s : BitVec 64}
    (ht : t.toNat < 2 ^ tsWidth nb) (hn : n.toNat < 2 ^ nb.toNat) (hs : s.toNat < 4096) :
    (join nb nal t n s).toNat < 2 ^ 63 := by
  rw [join_toNat hl nal ht hn hs]
  have := lowNat_lt hl nal hn hs
  rcases hl with rfl | rfl | rfl <;>
    simp only [tsShift, tsWidth, BitVec.toNat_ofNat, Nat.reduceMod, Nat.reduceAdd, Nat.reduceSub, Nat.reducePow] at ht this ⊢ <;> omega

end Nv.C06

namespace Nv.C06

theorem sshiftRight_toNat {id : BitVec 64} (h : id.toNat < 2 ^ 63) (k : Nat) :
    (BitVec.sshiftRight id k).toNat = id.toNat / 2 ^ k := by
  rw [BitVec.sshiftRight_eq_of_msb_false (by rw [BitVec.msb_eq_false_iff_two_mul_lt]; omega),
    BitVec.toNat_ushiftRight, Nat.shiftRight_eq_div_pow]

/-- node field of a natural number laid out as an id -/
def nodeNat (nb : BitVec 8) (nal : Bool) (x : Nat) : Nat :=
  if nal then x % 2 ^ nb.toNat else x / 4096 % 2 ^ nb.toNat

/-- step field -/
def stepNat (nb : BitVec 8) (nal : Bool) (x : Nat) : Nat :=
  if nal then x / 2 ^ nb.toNat % 4096 else x % 4096

/-- `IDFields` of a non-negative id, as numbers -/
theorem idFields_toNat {nb : BitVec 8} (hl : LayoutOk nb) (nal : Bool) {id : BitVec 64} (h : id.toNat < 2 ^ 63) :
    (idFields id nb nal).1.toNat = id.toNat / 2 ^ tsShift nb ∧
    (idFields id nb nal).2.1.toNat = nodeNat nb nal id.toNat ∧
    (idFields id nb nal).2.2.toNat = stepNat nb nal id.toNat := by
  have a8 : ∀ x : Nat, x &&& (1#64 <<< 8 - 1#64).toNat = x % 256 := fun x => by
    rw [show (1#64 <<< 8 - 1#64).toNat = 2 ^ 8 - 1 by decide]; exact Nat.and_two_pow_sub_one_eq_mod x 8
  have a9 : ∀ x : Nat, x &&& (1#64 <<< 9 - 1#64).toNat = x % 512 := fun x => by
    rw [show (1#64 <<< 9 - 1#64).toNat = 2 ^ 9 - 1 by decide]; exact Nat.and_two_pow_sub_one_eq_mod x 9
  have a10 : ∀ x : Nat, x &&& (1#64 <<< 10 - 1#64).toNat = x % 1024 := fun x => by
    rw [show (1#64 <<< 10 - 1#64).toNat = 2 ^ 10 - 1 by decide]; exact Nat.and_two_pow_sub_one_eq_mod x 10
  have a12 : ∀ x : Nat, x &&& 4095 = x % 4096 := fun x => Nat.and_two_pow_sub_one_eq_mod x 12
  rcases hl with rfl | rfl | rfl <;> cases nal <;>
    simp only [idFields, figureShift, nodeNat, stepNat, tsShift, Bool.false_eq_true, if_false, if_true,
      BitVec.toNat_and, sshiftRight_toNat h, a8, a9, a10, a12,
      BitVec.toNat_add, BitVec.toNat_ofNat, Nat.reduceMod, Nat.reduceAdd, Nat.reducePow, Nat.pow_zero, Nat.div_one] <;>
    exact ⟨trivial, trivial, trivial⟩

theorem idFields_ranges {nb : BitVec 8} (hl : LayoutOk nb) (nal : Bool) {id : BitVec 64} (h : id.toNat < 2 ^ 63) :
    (idFields id nb nal).1.toNat < 2 ^ tsWidth nb ∧
    (idFields id nb nal).2.1.toNat < 2 ^ nb.toNat ∧
    (idFields id nb nal).2.2.toNat < 4096 := by
  obtain ⟨h1, h2, h3⟩ := idFields_toNat hl nal h
  rw [h1, h2, h3]
  rcases hl with rfl | rfl | rfl <;> cases nal <;>
    simp only [nodeNat, stepNat, tsShift, tsWidth, Bool.false_eq_true, if_false, if_true,
      BitVec.toNat_ofNat, Nat.reduceMod, Nat.reduceAdd, Nat.reduceSub, Nat.reducePow] <;> omega

/-- splitting a non-negative id and recombining the fields gives the id back (numbers) -/
theorem split_join_nat {nb : BitVec 8} (hl : LayoutOk nb) (nal : Bool) (x : Nat) :
    x / 2 ^ tsShift nb * 2 ^ tsShift nb + lowNat nb nal (nodeNat nb nal x) (stepNat nb nal x) = x := by
  rcases hl with rfl | rfl | rfl <;> cases nal <;>
    simp only [lowNat, nodeNat, stepNat, tsShift, Bool.false_eq_true, if_false, if_true,
      BitVec.toNat_ofNat, Nat.reduceMod, Nat.reduceAdd, Nat.reducePow] <;> omega

/-- `join (IDFields id) = id` for every non-negative id, all six layouts -/
theorem join_idFields {nb : BitVec 8} (hl : LayoutOk nb) (nal : Bool) {id : BitVec 64} (h : id.toNat < 2 ^ 63) :
    join nb nal (idFields id nb nal).1 (idFields id nb nal).2.1 (idFields id nb nal).2.2 = id := by
  apply BitVec.eq_of_toNat_eq
  obtain ⟨r1, r2, r3⟩ := idFields_ranges hl nal h
  obtain ⟨h1, h2, h3⟩ := idFields_toNat hl nal h
  rw [join_toNat hl nal r1 r2 r3, h1, h2, h3]
  exact split_join_nat hl nal id.toNat

/-- `IDFields (join t n s) = (t, n, s)` when the fields fit their widths -/
theorem idFields_join {nb : BitVec 8} (hl : LayoutOk nb) (nal : Bool) {t n s : BitVec 64}
    (ht : t.toNat < 2 ^ tsWidth nb) (hn : n.toNat < 2 ^ nb.toNat) (hs : s.toNat < 4096) :
    idFields (join nb nal t n s) nb nal = (t, n, s) := by
  have hj := join_toNat hl nal ht hn hs
  have hlt := join_lt hl nal ht hn hs
  obtain ⟨h1, h2, h3⟩ := idFields_toNat hl nal hlt
  rw [hj] at h1 h2 h3
  have e1 : (idFields (join nb nal t n s) nb nal).1 = t := by
    apply BitVec.eq_of_toNat_eq; rw [h1]
    rcases hl with rfl | rfl | rfl <;> cases nal <;>
      simp only [lowNat, tsShift, tsWidth, Bool.false_eq_true, if_false, if_true,
        BitVec.toNat_ofNat, Nat.reduceMod, Nat.reduceAdd, Nat.reduceSub, Nat.reducePow] at ht hn ⊢ <;> omega
  have e2 : (idFields (join nb nal t n s) nb nal).2.1 = n := by
    apply BitVec.eq_of_toNat_eq; rw [h2]
    rcases hl with rfl | rfl | rfl <;> cases nal <;>
      simp only [lowNat, nodeNat, tsShift, tsWidth, Bool.false_eq_true, if_false, if_true,
        BitVec.toNat_ofNat, Nat.reduceMod, Nat.reduceAdd, Nat.reduceSub, Nat.reducePow] at ht hn ⊢ <;> omega
  have e3 : (idFields (join nb nal t n s) nb nal).2.2 = s := by
    apply BitVec.eq_of_toNat_eq; rw [h3]
    rcases hl with rfl | rfl | rfl <;> cases nal <;>
      simp only [lowNat, stepNat, tsShift, tsWidth, Bool.false_eq_true, if_false, if_true,
        BitVec.toNat_ofNat, Nat.reduceMod, Nat.reduceAdd, Nat.reduceSub, Nat.reducePow] at ht hn ⊢ <;> omega
  rw [Prod.ext_iff, Prod.ext_iff]
  exact ⟨e1, e2, e3⟩

end Nv.C06
