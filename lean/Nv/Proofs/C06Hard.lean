import Nv.Proofs.C06Bits
set_option linter.unusedSimpArgs false
set_option linter.unusedVariables false
/-!
C06 — one call of `HardNode.Generate` (model `hardCore`) seen as numbers: the pair (time, step) grows
lexicographically, the returned id is exactly the packed new state, the new time is not below `now`.
-/
namespace Nv.C06

/-- a node state inside the timestamp width -/
structure WF (nb : BitVec 8) (st : HState) : Prop where
  time : st.time.toNat < 2 ^ tsWidth nb
  node : st.node.toNat < 2 ^ nb.toNat
  step : st.step.toNat < 4096

/-- the id a state stands for: its (time, node, step) packed -/
def stVal (nb : BitVec 8) (nal : Bool) (st : HState) : Nat :=
  st.time.toNat * 2 ^ tsShift nb + lowNat nb nal st.node.toNat st.step.toNat

theorem tsWidth_le {nb : BitVec 8} (hl : LayoutOk nb) : 2 ^ tsWidth nb ≤ 2 ^ 43 := by
  rcases hl with rfl | rfl | rfl <;> simp only [tsWidth, BitVec.toNat_ofNat, Nat.reduceMod, Nat.reduceSub, Nat.reducePow] <;> omega

theorem step_succ_toNat {s : BitVec 64} (hs : s.toNat < 4096) :
    ((s + 1#64) &&& 4095#64).toNat = (s.toNat + 1) % 4096 := by
  have a12 : ∀ x : Nat, x &&& 4095 = x % 4096 := fun x => Nat.and_two_pow_sub_one_eq_mod x 12
  simp only [BitVec.toNat_and, BitVec.toNat_add, BitVec.toNat_ofNat, Nat.reduceMod, Nat.reducePow, a12]
  omega

theorem time_succ_toNat {t : BitVec 64} (ht : t.toNat < 2 ^ 43) : (t + 1#64).toNat = t.toNat + 1 := by
  simp only [BitVec.toNat_add, BitVec.toNat_ofNat, Nat.reduceMod, Nat.reducePow]; omega

theorem stVal_lt_of_lex {nb : BitVec 8} (hl : LayoutOk nb) (nal : Bool) {t t' n s s' : Nat}
    (hn : n < 2 ^ nb.toNat) (_hs : s < 4096) (hs' : s' < 4096) (h : t < t' ∨ (t = t' ∧ s < s')) :
    t * 2 ^ tsShift nb + lowNat nb nal n s < t' * 2 ^ tsShift nb + lowNat nb nal n s' := by
  rcases hl with rfl | rfl | rfl <;> cases nal <;>
    simp only [lowNat, tsShift, Bool.false_eq_true, if_false, if_true, BitVec.toNat_ofNat, Nat.reduceMod,
      Nat.reduceAdd, Nat.reducePow] at hn ⊢ <;> omega

/-- one call, as numbers. The only hypothesis besides a well-formed pre-state is that the *new* time is
    still inside the timestamp width. -/
theorem hardCore_step {nb : BitVec 8} (hl : LayoutOk nb) (nal : Bool) {st : HState} (wf : WF nb st) (now : BitVec 64)
    (hpost : (hardCore nb nal st now).1.time.toNat < 2 ^ tsWidth nb) :
    WF nb (hardCore nb nal st now).1 ∧
    (hardCore nb nal st now).2.toNat = stVal nb nal (hardCore nb nal st now).1 ∧
    stVal nb nal st < stVal nb nal (hardCore nb nal st now).1 ∧
    (hardCore nb nal st now).1.node = st.node ∧ (hardCore nb nal st now).1.epoch = st.epoch ∧
    now.toInt ≤ ((hardCore nb nal st now).1.time.toNat : Int) ∧
    (hardCore nb nal st now).2 = join nb nal (hardCore nb nal st now).1.time st.node (hardCore nb nal st now).1.step := by
  have hW := tsWidth_le hl
  have hst := wf.step
  have ht43 : st.time.toNat < 2 ^ 43 := Nat.lt_of_lt_of_le wf.time hW
  have htI : st.time.toInt = (st.time.toNat : Int) := toInt_eq_toNat_of_lt (by omega)
  by_cases hlt : BitVec.slt st.time now = true
  · -- now > time
    have e : hardCore nb nal st now = ({ st with step := 0#64, time := now }, join nb nal now st.node 0#64) := by
      unfold hardCore; rw [if_pos hlt]
    rw [e] at hpost ⊢
    rw [BitVec.slt_iff_toInt_lt, htI] at hlt
    simp only at hpost
    have hnowI : now.toInt = (now.toNat : Int) := toInt_eq_toNat_of_lt (by omega)
    have wf' : WF nb { st with step := 0#64, time := now } := ⟨hpost, wf.node, by simp⟩
    refine ⟨wf', ?_, ?_, rfl, rfl, ?_, rfl⟩
    · exact join_toNat hl nal hpost wf.node (by simp)
    · show stVal nb nal st < stVal nb nal { st with step := 0#64, time := now }
      unfold stVal
      exact stVal_lt_of_lex hl nal wf.node wf.step (by simp) (Or.inl (by simp only; omega))
    · simp only; omega
  · have hle : now.toInt ≤ (st.time.toNat : Int) := by
      have : ¬ st.time.toInt < now.toInt := fun h => hlt (BitVec.slt_iff_toInt_lt.2 h)
      omega
    have hs1 := step_succ_toNat wf.step
    by_cases hz : (((st.step + 1#64) &&& 4095#64) == 0#64) = true
    · -- the step counter wrapped: carry into time
      have e : hardCore nb nal st now =
          ({ st with step := (st.step + 1#64) &&& 4095#64, time := st.time + 1#64 },
            join nb nal (st.time + 1#64) st.node ((st.step + 1#64) &&& 4095#64)) := by
        unfold hardCore; rw [if_neg hlt, if_pos hz]
      rw [e] at hpost ⊢
      simp only at hpost
      have hz' : ((st.step + 1#64) &&& 4095#64).toNat = 0 := by
        have := eq_of_beq hz; rw [this]; rfl
      have ht1 := time_succ_toNat ht43
      have wf' : WF nb { st with step := (st.step + 1#64) &&& 4095#64, time := st.time + 1#64 } :=
        ⟨hpost, wf.node, by simp only; omega⟩
      refine ⟨wf', ?_, ?_, rfl, rfl, ?_, rfl⟩
      · exact join_toNat hl nal hpost wf.node (by omega)
      · show stVal nb nal st < stVal nb nal { st with step := (st.step + 1#64) &&& 4095#64, time := st.time + 1#64 }
        unfold stVal
        exact stVal_lt_of_lex hl nal wf.node wf.step (by simp only; omega) (Or.inl (by simp only; omega))
      · simp only; omega
    · have e : hardCore nb nal st now =
          ({ st with step := (st.step + 1#64) &&& 4095#64 },
            join nb nal st.time st.node ((st.step + 1#64) &&& 4095#64)) := by
        unfold hardCore; rw [if_neg hlt, if_neg hz]
      rw [e] at hpost ⊢
      have hnz' : ((st.step + 1#64) &&& 4095#64).toNat ≠ 0 := by
        intro h0
        apply hz
        have : (st.step + 1#64) &&& 4095#64 = 0#64 := BitVec.eq_of_toNat_eq (by rw [h0]; rfl)
        rw [this]; rfl
      have wf' : WF nb { st with step := (st.step + 1#64) &&& 4095#64 } := ⟨wf.time, wf.node, by simp only; omega⟩
      refine ⟨wf', ?_, ?_, rfl, rfl, ?_, rfl⟩
      · exact join_toNat hl nal wf.time wf.node (by omega)
      · show stVal nb nal st < stVal nb nal { st with step := (st.step + 1#64) &&& 4095#64 }
        unfold stVal
        exact stVal_lt_of_lex hl nal wf.node wf.step (by simp only; omega) (Or.inr ⟨rfl, by simp only; omega⟩)
      · simp only; omega

end Nv.C06
