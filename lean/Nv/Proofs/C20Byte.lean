import Nv.Proofs.C20Json
/-! C20 — helper lemmas for JsByte: slash lists, element range, round trip. -/
namespace Nv.C20

theorem splitSlash_ne_nil : ∀ s : Bytes, splitSlash s ≠ []
  | [] => by simp [splitSlash]
  | c :: cs => by
    simp only [splitSlash]
    split
    · simp
    · split <;> simp

theorem splitSlash_noslash : ∀ p : Bytes, (∀ c ∈ p, c ≠ 47) → splitSlash p = [p]
  | [], _ => rfl
  | c :: cs, h => by
    have hc : c ≠ 47 := h c (by simp)
    simp only [splitSlash, if_neg hc, splitSlash_noslash cs (fun x hx => h x (by simp [hx]))]

theorem splitSlash_append : ∀ (p rest : Bytes), (∀ c ∈ p, c ≠ 47) →
    splitSlash (p ++ 47 :: rest) = p :: splitSlash rest
  | [], rest, _ => by simp [splitSlash]
  | c :: cs, rest, h => by
    have hc : c ≠ 47 := h c (by simp)
    simp only [List.cons_append, splitSlash, if_neg hc,
      splitSlash_append cs rest (fun x hx => h x (by simp [hx]))]

theorem splitSlash_joinSlash : ∀ (ps : List Bytes), ps ≠ [] → (∀ p ∈ ps, ∀ c ∈ p, c ≠ 47) →
    splitSlash (joinSlash ps) = ps
  | [], h, _ => absurd rfl h
  | [p], _, h => by simp only [joinSlash]; exact splitSlash_noslash p (h p (by simp))
  | p :: q :: ps, _, h => by
    simp only [joinSlash]
    rw [splitSlash_append p _ (h p (by simp)),
      splitSlash_joinSlash (q :: ps) (by simp) (fun x hx => h x (by simp [hx]))]

/-! ### exact-or-error -/

theorem convByte_range_ok {t : Int} {x : Nat} (h : convByte .rangeChecked t = .ok x) : (x : Int) = t ∧ x ≤ 255 := by
  simp only [convByte] at h
  split at h
  · simp only [Res.ok.injEq] at h; omega
  · cases h

theorem convPieces_range_ok : ∀ (ps : List Bytes) (l : List Nat), convPieces .rangeChecked ps = .ok l →
    ListRel (fun (p : Bytes) (x : Nat) => denotesCore p (x : Int) ∧ x ≤ 255) ps l
  | [], l, h => by simp only [convPieces, Res.ok.injEq] at h; subst h; exact .nil
  | p :: ps, l, h => by
    simp only [convPieces] at h
    split at h
    · cases h
    · cases h
    · rename_i t ht
      split at h
      · cases h
      · cases h
      · rename_i x hx
        split at h
        · rename_i xs hxs
          simp only [Res.ok.injEq] at h
          subst h
          have hd := (denotesCore_of_parseInt (bits := 64) (by simpa [atoi] using ht)).1
          have hc := convByte_range_ok hx
          exact .cons ⟨by rw [hc.1]; exact hd, hc.2⟩ (convPieces_range_ok ps xs hxs)
        · rename_i hr
          exact absurd h (hr l)

theorem fromString_range_ok {s : Bytes} {l : List Nat} (h : fromString .rangeChecked s = .ok l) : denotesList s l := by
  unfold fromString at h
  split at h
  · rename_i he
    simp only [Res.ok.injEq] at h
    left; exact ⟨List.isEmpty_iff.1 he, h.symm⟩
  · rename_i he
    right; exact ⟨fun hs => he (by simp [hs]), convPieces_range_ok _ _ h⟩

/-- exact-or-error for JsByte with checked quotes and a range-checked element conversion -/
theorem decodeBytes_exact {w : Wrap} (hw : w.Checked) {b : Bytes} {l : List Nat}
    (h : decodeBytes w .rangeChecked b = .ok l) : denotesBytes b l := by
  unfold decodeBytes at h
  split at h
  · cases h
  · split at h
    · cases h
    · cases h
    · rename_i s hs
      have hb := strip_checked_bare hw hs
      subst hb
      exact Or.inr (fromString_range_ok h)
    · rename_i s hs
      exact Or.inl ⟨s, strip_checked_quoted hw hs, fromString_range_ok h⟩

/-- no element is ever a wrapped value: every decoded element is the denoted number itself, within 0…255 -/
theorem listRel_le_255 {ps : List Bytes} {l : List Nat}
    (h : ListRel (fun (p : Bytes) (x : Nat) => denotesCore p (x : Int) ∧ x ≤ 255) ps l) : ∀ x ∈ l, x ≤ 255 := by
  induction h with
  | nil => intro x hx; cases hx
  | cons hab _ ih =>
    intro x hx
    rcases List.mem_cons.1 hx with rfl | hx
    · exact hab.2
    · exact ih x hx

/-! ### round trip -/

theorem fmtNat10_noslash (n : Nat) (hn : n < 2 ^ 64) : ∀ c ∈ fmtNat 10 n, c ≠ 47 := by
  intro c hc
  have := (baseDigits10_iff _).1 (fmtNat_spec 10 (by omega) (by omega) n hn).2.1 c hc
  omega

theorem atoi_fmtNat (n : Nat) (hn : n < 2 ^ 63) : atoi (fmtNat 10 n) = .ok (n : Int) := by
  have sp := fmtNat_spec 10 (by omega) (by omega) n (by omega)
  have := parseInt_complete_pos 10 64 (by omega) (by omega) sp.1 sp.2.1 (by rw [sp.2.2]; exact hn)
  rw [sp.2.2] at this
  exact this

theorem convByte_small (k : ByteConv) (hk : k = .wrap ∨ k = .rangeChecked) (x : Nat) (hx : x < 256) :
    convByte k (x : Int) = .ok x := by
  rcases hk with hk | hk <;> subst hk
  · simp only [convByte, Res.ok.injEq]; omega
  · simp only [convByte]; rw [if_pos (by omega)]; simp

theorem convPieces_map_fmt (k : ByteConv) (hk : k = .wrap ∨ k = .rangeChecked) : ∀ (l : List Nat), (∀ x ∈ l, x < 256) →
    convPieces k (l.map (fmtNat 10)) = .ok l
  | [], _ => rfl
  | x :: xs, h => by
    have hx : x < 256 := h x (by simp)
    simp only [List.map_cons, convPieces, atoi_fmtNat x (by omega), convByte_small k hk x hx,
      convPieces_map_fmt k hk xs (fun y hy => h y (by simp [hy]))]

theorem joinSlash_ne_nil : ∀ (ps : List Bytes), (∀ p ∈ ps, p ≠ []) → ps ≠ [] → joinSlash ps ≠ []
  | [], _, h => absurd rfl h
  | [p], h, _ => by simpa [joinSlash] using h p (by simp)
  | p :: q :: ps, h, _ => by
    have := h p (by simp)
    cases p with
    | nil => exact absurd rfl this
    | cons c cs => simp [joinSlash]

theorem fromString_toJS (k : ByteConv) (hk : k = .wrap ∨ k = .rangeChecked) (l : List Nat) (hl : ∀ x ∈ l, x < 256) :
    fromString k (toJS l) = .ok l := by
  cases l with
  | nil => rfl
  | cons x xs =>
    have hne : (x :: xs).map (fmtNat 10) ≠ [] := by simp
    have hpieces : ∀ p ∈ (x :: xs).map (fmtNat 10), p ≠ [] := by
      intro p hp
      obtain ⟨y, hy, rfl⟩ := List.mem_map.1 hp
      exact (fmtNat_spec 10 (by omega) (by omega) y (by have := hl y hy; omega)).1
    have hns : ∀ p ∈ (x :: xs).map (fmtNat 10), ∀ c ∈ p, c ≠ 47 := by
      intro p hp
      obtain ⟨y, hy, rfl⟩ := List.mem_map.1 hp
      exact fmtNat10_noslash y (by have := hl y hy; omega)
    have hj := joinSlash_ne_nil _ hpieces hne
    unfold fromString toJS
    rw [if_neg (by simpa [List.isEmpty_iff] using hj), splitSlash_joinSlash _ hne hns]
    exact convPieces_map_fmt k hk _ hl

/-- marshal then unmarshal for JsByte (any known strip kind, either element conversion) -/
theorem decodeBytes_encodeBytes (w : Wrap) (hkind : w.kind ≠ .unknown) (hlen : w.minLen ≤ 2) (hp : w.parser = .fromString)
    (k : ByteConv) (hk : k = .wrap ∨ k = .rangeChecked) (l : List Nat) (hl : ∀ x ∈ l, x < 256) :
    decodeBytes w k (encodeBytes l) = .ok l := by
  unfold decodeBytes encodeBytes
  simp only [quote, hp, ne_eq, not_true_eq_false, if_false]
  rw [strip_quoted w hkind _ (by omega)]
  exact fromString_toJS k hk l hl

end Nv.C20
