import Nv.Proofs.C11Read
/-! C11 — simulation of ReadRune, Unread*, Truncate, Reset, Grow. -/
namespace Nv.C11
open Spec

/-- `utf8.DecodeRune` consumes at least one byte of a non-empty slice and never more than it holds -/
theorem decodeRune_size (b : UInt8) (rest : Bytes) :
    1 ≤ (decodeRune (b :: rest)).2 ∧ (decodeRune (b :: rest)).2 ≤ rest.length + 1 := by
  unfold decodeRune
  simp only
  split
  · simp
  · split
    · simp
    · cases rest with
      | nil => simp
      | cons b1 rest1 =>
        simp only
        split
        · simp
        · split
          · simp
          · split
            · simp
            · cases rest1 with
              | nil => simp
              | cons b2 rest2 =>
                simp only
                split
                · simp
                · split
                  · simp
                  · cases rest2 with
                    | nil => simp
                    | cons b3 rest3 =>
                      simp only
                      split <;> simp


theorem sim_readRune {t : Bool} {i : St} {s : SSt} (R : Rel t i s) :
    StepOk false (readRune i) (Spec.step s .readRune) := by
  have h1 := R.inv.off_le
  have hd := R.data
  unfold readRune Spec.step
  simp only
  rw [hd]
  cases hx : i.buf.drop i.off with
  | nil =>
    refine ⟨rfl, inv_reset R.inv, ?_, fun _ => ?_⟩
    · simp [reset]
    · simp [LastRel, reset]
  | cons b rest =>
    have hlen : i.buf.length - i.off = rest.length + 1 := by
      have : (i.buf.drop i.off).length = rest.length + 1 := by rw [hx]; simp
      simpa using this
    simp only
    split
    · refine ⟨rfl, ⟨by simp; omega, R.inv.len_le, R.inv.cap_le, R.inv.nil_cap⟩, ?_, fun _ => ?_⟩
      · simp only
        rw [← List.drop_drop, hx]; rfl
      · simp only [LastRel, List.length_cons, List.length_nil]
        refine ⟨by simp, by omega, by omega, ?_⟩
        have : i.off + 1 - (0 + 1) = i.off := by omega
        rw [this, hx]; rfl
    · have sz := decodeRune_size b rest
      refine ⟨rfl, ⟨by simp; omega, R.inv.len_le, R.inv.cap_le, R.inv.nil_cap⟩, ?_, fun _ => ?_⟩
      · simp only
        rw [← List.drop_drop, hx]
      · have hl : ((b :: rest).take (decodeRune (b :: rest)).2).length = (decodeRune (b :: rest)).2 := by
          rw [List.length_take]; simp; omega
        simp only [LastRel]
        refine ⟨by rw [hl], by rw [hl]; exact sz.1, by rw [hl]; omega, ?_⟩
        rw [hl]
        have : i.off + (decodeRune (b :: rest)).2 - (decodeRune (b :: rest)).2 = i.off := by omega
        rw [this, hx]

theorem drop_pred {α} (l : List α) (k : Nat) (x : α) (hk : 1 ≤ k) (hx : l[k - 1]? = some x) :
    l.drop (k - 1) = x :: l.drop k := by
  have hlt : k - 1 < l.length := by
    rcases Nat.lt_or_ge (k - 1) l.length with h | h
    · exact h
    · rw [List.getElem?_eq_none h] at hx; cases hx
  rw [List.drop_eq_getElem_cons hlt]
  have : l[k - 1] = x := by
    rw [List.getElem?_eq_getElem hlt] at hx; exact Option.some.inj hx
  rw [this]
  congr 2; omega

theorem sim_unreadByte {i : St} {s : SSt} (R : Rel false i s) :
    StepOk false (unreadByte i) (Spec.step s .unreadByte) := by
  have hd := R.data
  have hl := R.last rfl
  unfold unreadByte Spec.step
  simp only
  cases hs : s.last with
  | invalid =>
    rw [hs] at hl
    simp only [LastRel] at hl
    simp only [hl, if_true]
    exact ⟨rfl, R.inv, hd, fun _ => by rw [hs]; exact hl⟩
  | read b =>
    rw [hs] at hl
    obtain ⟨l1, l2, l3⟩ := hl
    have hne : ¬ i.lastRead = 0 := by omega
    have hpos : i.off > 0 := by omega
    simp only [hne, if_false, hpos, if_true]
    refine ⟨rfl, ⟨by simp; have := R.inv.off_le; omega, R.inv.len_le, R.inv.cap_le, R.inv.nil_cap⟩, ?_, fun _ => rfl⟩
    simp only
    rw [hd, drop_pred i.buf i.off b l2 l3]
  | rune bs =>
    rw [hs] at hl
    obtain ⟨l1, l2, l3, l4⟩ := hl
    have hne : ¬ i.lastRead = 0 := by omega
    have hpos : i.off > 0 := by omega
    simp only [hne, if_false, hpos, if_true]
    refine ⟨rfl, ⟨by simp; have := R.inv.off_le; omega, R.inv.len_le, R.inv.cap_le, R.inv.nil_cap⟩, ?_, fun _ => rfl⟩
    simp only
    rw [hd]
    have e : bs.drop (bs.length - 1) = ((i.buf.drop (i.off - bs.length)).take bs.length).drop (bs.length - 1) := by rw [l4]
    rw [e, List.drop_take, List.drop_drop]
    have e1 : i.off - bs.length + (bs.length - 1) = i.off - 1 := by omega
    have e2 : bs.length - (bs.length - 1) = 1 := by omega
    rw [e1, e2]
    have e3 : i.buf.drop i.off = (i.buf.drop (i.off - 1)).drop 1 := by
      rw [List.drop_drop]; congr 1; omega
    rw [e3, List.take_append_drop]

theorem sim_unreadRune {i : St} {s : SSt} (R : Rel false i s) :
    StepOk false (unreadRune i) (Spec.step s .unreadRune) := by
  have hd := R.data
  have hl := R.last rfl
  unfold unreadRune Spec.step
  simp only
  cases hs : s.last with
  | invalid =>
    rw [hs] at hl
    simp only [LastRel] at hl
    have : i.lastRead ≤ 0 := by omega
    simp only [this, if_true]
    exact ⟨rfl, R.inv, hd, fun _ => by rw [hs]; exact hl⟩
  | read b =>
    rw [hs] at hl
    have : i.lastRead ≤ 0 := by have := hl.1; omega
    simp only [this, if_true]
    exact ⟨rfl, R.inv, hd, fun _ => by rw [hs]; exact hl⟩
  | rune bs =>
    rw [hs] at hl
    obtain ⟨l1, l2, l3, l4⟩ := hl
    have hne : ¬ i.lastRead ≤ 0 := by omega
    have hk : i.lastRead.toNat = bs.length := by omega
    have hge : i.off ≥ bs.length := l3
    simp only [hne, if_false, hk, hge, if_true]
    refine ⟨rfl, ⟨by simp; have := R.inv.off_le; omega, R.inv.len_le, R.inv.cap_le, R.inv.nil_cap⟩, ?_, fun _ => rfl⟩
    simp only
    rw [hd]
    have e3 : i.buf.drop i.off = (i.buf.drop (i.off - bs.length)).drop bs.length := by
      rw [List.drop_drop]; congr 1; omega
    rw [e3]
    conv => lhs; arg 1; rw [← l4]
    rw [List.take_append_drop]

theorem sim_truncate {t : Bool} {i : St} {s : SSt} (R : Rel t i s) (n : Int) :
    StepOk false (truncate i n) (Spec.step s (.truncate n)) := by
  have h1 := R.inv.off_le
  have hd := R.data
  have hlen : (s.data.length : Int) = ((i.buf.length - i.off : Nat) : Int) := by rw [hd]; simp
  unfold truncate Spec.step
  simp only
  by_cases h0 : n = 0
  · simp only [h0, if_true]
    exact ⟨rfl, inv_reset R.inv, by simp [reset], fun _ => by simp [LastRel, reset]⟩
  · simp only [h0, if_false]
    rw [hlen]
    by_cases hr : n < 0 ∨ n > ((i.buf.length - i.off : Nat) : Int)
    · simp only [hr, if_true]
      exact ⟨rfl, inv_lastRead R.inv 0, hd, fun _ => rfl⟩
    · simp only [hr, if_false]
      refine ⟨rfl, ⟨by simp; omega, ?_, R.inv.cap_le, R.inv.nil_cap⟩, ?_, fun _ => rfl⟩
      · have := R.inv.len_le; simp; omega
      · simp only
        rw [List.drop_take, hd]
        congr 1; omega

theorem sim_reset {t : Bool} {i : St} {s : SSt} (R : Rel t i s) :
    StepOk false (reset i, Out.ok) (Spec.step s .reset) := by
  unfold Spec.step
  exact ⟨rfl, inv_reset R.inv, by simp [reset], fun _ => by simp [LastRel, reset]⟩

/-- `Grow`: the result taints the relation (nothing is claimed about `lastRead` any more) -/
theorem sim_grow {c : Cfg} (hs : c.small ≤ allocLimit) {t : Bool} {i : St} {s : SSt} (R : Rel t i s) (n : Int)
    (hmem : (growOp c i n).2 = .panic .tooLarge → 0 ≤ n ∧ n.toNat > allocLimit) :
    StepOk true (growOp c i n) (Spec.step s (.grow n)) := by
  have hd := R.data
  unfold growOp at hmem ⊢
  unfold Spec.step
  simp only
  by_cases hn : n < 0
  · simp only [hn, if_true]
    exact ⟨rfl, R.inv, hd, fun h => by cases h⟩
  · simp only [hn, if_false] at hmem ⊢
    have hdata : (if s.data.length = 0 then (⟨[], .invalid⟩ : SSt) else s).data = s.data := by
      split
      · rename_i h; simp [List.eq_nil_of_length_eq_zero h]
      · rfl
    cases hg : grow c i n.toNat with
    | mk s1 r =>
      cases r with
      | none =>
        rw [hg] at hmem
        have hm := (hmem rfl).2
        have k := grow_none R.inv hg
        simp only [hm, if_true]
        exact ⟨rfl, k.inv, by rw [hdata, hd, k.data], fun h => by cases h⟩
      | some m =>
        have hle : ¬ n.toNat > allocLimit := by
          intro hgt
          have := grow_tooLarge (c := c) hs R.inv hgt
          rw [hg] at this; cases this
        have g := grow_some hs R.inv hg
        simp only [hle, if_false]
        refine ⟨rfl, ⟨?_, ?_, g.inv.cap_le, g.inv.nil_cap⟩, ?_, fun h => by cases h⟩
        · have := g.off_le; have := g.len; simp; omega
        · have := g.inv.len_le; simp; omega
        · simp only
          rw [hdata, hd, g.data]

end Nv.C11
