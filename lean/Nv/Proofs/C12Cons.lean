import Nv.Model.C12
import Nv.Proofs.C12Defs
import Nv.Proofs.C12ConsP
import Nv.Proofs.C12ConsM
/-! C12 — one-step conservation for every operation of every list queue (case analysis). -/
namespace Nv.C12

theorem addReq_count (s : LQ) (x y : Nat) :
    (addReq Shape.expected s x).1.items.count y =
      s.items.count y + (if x = y ∧ okOut (addReq Shape.expected s x).2 = true then 1 else 0) := by
  unfold addReq
  simp only [Shape.expected, if_true]
  split
  · simp [okOut]
  · split
    · simp [okOut]
    · by_cases h : x = y <;> simp [LQ.items, okOut, List.count_append, h] <;> try omega

theorem addCtrl_count (s : LQ) (x y : Nat) :
    (addCtrl Shape.expected s x).1.items.count y =
      s.items.count y + (if x = y ∧ okOut (addCtrl Shape.expected s x).2 = true then 1 else 0) := by
  unfold addCtrl
  simp only [Shape.expected, if_true]
  split
  · simp [okOut]
  · split
    · simp [okOut]
    · by_cases h : x = y <;> simp [LQ.items, okOut, List.count_append, h] <;> try omega

theorem popAnyway_count (s t : LQ) (v y : Nat) (h : popNow Shape.expected true s = some (t, .val v)) :
    t.items.count y + (if v = y then 1 else 0) = s.items.count y := by
  rw [popAnyway_spec'] at h
  cases hc : s.ctrl with
  | cons c cs =>
    simp [hc] at h
    obtain ⟨rfl, rfl⟩ := h
    simp [LQ.items, hc, List.count_cons, List.count_append]; try omega
  | nil =>
    cases hr : s.req with
    | cons r rs =>
      simp [hc, hr] at h
      obtain ⟨rfl, rfl⟩ := h
      simp [LQ.items, hc, hr, List.count_cons]
    | nil =>
      simp [hc, hr] at h

theorem closeQ_items (s : LQ) : (closeQ s).items = s.items := rfl

theorem addReq_res (s : LQ) (x : Nat) :
    (addReq Shape.expected s x).2 = .ok ∨ (addReq Shape.expected s x).2 = .closed ∨
    (addReq Shape.expected s x).2 = .full ∨ (addReq Shape.expected s x).2 = .ctrlFull := by
  unfold addReq; simp only [Shape.expected, if_true]
  split
  · simp
  · split <;> simp

theorem addCtrl_res (s : LQ) (x : Nat) :
    (addCtrl Shape.expected s x).2 = .ok ∨ (addCtrl Shape.expected s x).2 = .closed ∨
    (addCtrl Shape.expected s x).2 = .full ∨ (addCtrl Shape.expected s x).2 = .ctrlFull := by
  unfold addCtrl; simp only [Shape.expected, if_true]
  split
  · simp
  · split <;> simp

/-- an `*Anyway` add conserves items whatever the add it retries, as long as that add does and PopAnyway does -/
theorem drainFor_count (add : LQ → LQ × Out) (x y : Nat)
    (hadd : ∀ t, (add t).1.items.count y = t.items.count y + (if x = y ∧ okOut (add t).2 = true then 1 else 0))
    (hres : ∀ t, (add t).2 = .ok ∨ (add t).2 = .closed ∨ (add t).2 = .full ∨ (add t).2 = .ctrlFull) :
    ∀ (n : Nat) (s : LQ) (acc : List Nat),
      (drainFor add (popNow Shape.expected true) n s acc).1.items.count y +
        popCount y (drainFor add (popNow Shape.expected true) n s acc).2 =
      s.items.count y + acc.count y +
        (if x = y ∧ okOut (drainFor add (popNow Shape.expected true) n s acc).2 = true then 1 else 0) := by
  intro n
  induction n with
  | zero => intro s acc; simp [drainFor, popCount, okOut]
  | succ n ih =>
    intro s acc
    unfold drainFor
    split
    · rename_i s' v hp
      have hc := popAnyway_count s s' v y hp
      have e : (if (v == y) = true then 1 else 0) = (if v = y then (1 : Nat) else 0) := by
        by_cases hv : v = y <;> simp [hv]
      have ha := hadd s'
      rcases hres s' with hr | hr | hr | hr
      · simp only [hr, isFullOut, Bool.false_eq_true, if_false, spinEnd, okOut, popCount, List.count_reverse,
          List.count_cons, e] at ha ⊢
        omega
      · simp only [hr, isFullOut, Bool.false_eq_true, if_false, spinEnd, okOut, popCount, List.count_reverse,
          List.count_cons, e] at ha ⊢
        simp at ha ⊢; omega
      · simp only [hr, isFullOut, if_true]
        rw [ih s' (v :: acc)]
        simp only [List.count_cons, e]
        omega
      · simp only [hr, isFullOut, if_true]
        rw [ih s' (v :: acc)]
        simp only [List.count_cons, e]
        omega
    · simp [popCount, okOut]

theorem addAnyway_count (add : LQ → LQ × Out) (x y : Nat) (rp : Bool) (s : LQ)
    (hadd : ∀ t, (add t).1.items.count y = t.items.count y + (if x = y ∧ okOut (add t).2 = true then 1 else 0))
    (hres : ∀ t, (add t).2 = .ok ∨ (add t).2 = .closed ∨ (add t).2 = .full ∨ (add t).2 = .ctrlFull) :
    (addAnyway add (popNow Shape.expected true) rp s).1.items.count y +
        popCount y (addAnyway add (popNow Shape.expected true) rp s).2 =
      s.items.count y + (if x = y ∧ okOut (addAnyway add (popNow Shape.expected true) rp s).2 = true then 1 else 0) := by
  have key : ∀ t, (add t).1.items.count y + popCount y (add t).2 =
      t.items.count y + (if x = y ∧ okOut (add t).2 = true then 1 else 0) := by
    intro t
    have := hadd t
    rcases hres t with hr | hr | hr | hr <;> simp [hr, popCount, okOut] at this ⊢ <;> omega
  unfold addAnyway
  rcases hres s with hr | hr | hr | hr
  · simp only [hr, isFullOut, Bool.not_false, if_true]; rw [← hr]; exact key s
  · simp only [hr, isFullOut, Bool.not_false, if_true]; rw [← hr]; exact key s
  all_goals
    simp only [hr, isFullOut, Bool.not_true, Bool.false_eq_true, if_false]
    cases rp with
    | true => simpa using drainFor_count add x y hadd hres (s.size + 1) s []
    | false =>
      simp only [Bool.false_eq_true, if_false]
      have := hadd (closeQ s)
      rw [closeQ_items] at this
      rcases hres (closeQ s) with h2 | h2 | h2 | h2 <;> simp [h2, popCount, okOut, spinEnd] at this ⊢ <;> omega

theorem step_conservation (s : LQ) (op : Op) (y : Nat) :
    (step Cfg.expected s op).1.items.count y + popCount y (step Cfg.expected s op).2 =
      s.items.count y + addCount y s op (step Cfg.expected s op).2 := by
  cases op with
  | addAny x rp =>
    have h := addAnyway_count (fun t => addReq Shape.expected t x) x y rp s (fun t => addReq_count t x y)
      (fun t => addReq_res t x)
    cases hk : s.kind <;> simp only [step, hk, Cfg.expected, stepPipe, stepMQ, stepSync, addCount]
    case syncq => simp [popCount, okOut]
    all_goals
      rw [h]
      simp [hk]
  | addCtrlAny x rp =>
    have h := addAnyway_count (fun t => addCtrl Shape.expected t x) x y rp s (fun t => addCtrl_count t x y)
      (fun t => addCtrl_res t x)
    cases hk : s.kind <;> simp only [step, hk, Cfg.expected, stepPipe, stepMQ, stepSync, addCount]
    case mq =>
      rw [h]
      simp [hk]
    all_goals simp [popCount, okOut]
  | _ =>
    cases hk : s.kind
    case mq => exact step_conservation_mq s _ y hk (by simp [isAny])
    case syncq => exact step_conservation_syncq s _ y hk (by simp [isAny])
    all_goals exact step_conservation_pipe s _ y (by simp [hk]) (by simp [isAny])

end Nv.C12
