import Nv.Proofs.C20Json
/-! C20 — helper lemmas: instants, int64 wrap, SQL scanners. -/
namespace Nv.C20

theorem wrapI64_id {x : Int} (hlo : -(2 ^ 63 : Int) ≤ x) (hhi : x < 2 ^ 63) : wrapI64 x = x := by
  unfold wrapI64; omega

theorem wrapI64_range (x : Int) : -(2 ^ 63 : Int) ≤ wrapI64 x ∧ wrapI64 x < 2 ^ 63 := by
  unfold wrapI64; omega

theorem wrapI64_eq_iff (x : Int) : wrapI64 x = x ↔ (-(2 ^ 63 : Int) ≤ x ∧ x < 2 ^ 63) := by
  unfold wrapI64; omega

theorem timeUnix_nano (t : Time) (hv : t.nsec < 1000000000) : timeUnix 0 (t.sec * 1000000000 + t.nsec) = t := by
  cases t with
  | mk s n =>
    show timeUnix 0 (s * 1000000000 + (n : Int)) = ⟨s, n⟩
    have hv' : n < 1000000000 := hv
    simp only [timeUnix, Time.mk.injEq]
    constructor <;> omega

theorem timeUnix_nano_inv {a : Int} {t : Time} (h : timeUnix 0 a = t) : a = t.sec * 1000000000 + t.nsec := by
  cases t with
  | mk s n =>
    simp only [timeUnix, Time.mk.injEq] at h
    show a = s * 1000000000 + (n : Int)
    omega

theorem timeUnix_sec (v : Int) : timeUnix v 0 = ⟨v, 0⟩ := by
  simp [timeUnix]

theorem mapRes_ok {α β : Type} (f : α → β) {r : Res α} {v : α} (h : r = .ok v) : mapRes f r = .ok (f v) := by
  subst h; rfl

end Nv.C20
