import Nv.Proofs.C03Ref20

/-! C03 refinement, part 21 (delete path): `node.remove` on the store refines `removeH`. -/

namespace Nv.C03.Cow
open Nv.C03

/-- the tail of `removeH` after the rebalancing step -/
def remTailA (mn f : Nat) (typ : Rm) (g : List Item × List Node) : Node × Option Item :=
  if (locate g.1 typ).2 then
    (.mk (setAt g.1 (locate g.1 typ).1 ((removeH mn f (g.2.getD (locate g.1 typ).1 default) .max).2.getD default))
        (setAt g.2 (locate g.1 typ).1 (removeH mn f (g.2.getD (locate g.1 typ).1 default) .max).1),
      g.1[(locate g.1 typ).1]?)
  else
    (.mk g.1 (setAt g.2 (locate g.1 typ).1 (removeH mn f (g.2.getD (locate g.1 typ).1 default) typ).1),
      (removeH mn f (g.2.getD (locate g.1 typ).1 default) typ).2)

theorem removeH_inner (mn f : Nat) (is : List Item) (cs : List Node) (typ : Rm) (hne : cs ≠ []) :
    removeH mn (f + 1) (.mk is cs) typ =
      if (cs.getD (locate is typ).1 default).items.length ≤ mn then remTailA mn f typ (grow mn is cs (locate is typ).1)
      else remTailA mn f typ (is, cs) := by
  cases cs with
  | nil => exact absurd rfl hne
  | cons c0 cs0 =>
    simp only [removeH, remTailA]
    by_cases hs : ((c0 :: cs0).getD (locate is typ).1 default).items.length ≤ mn
    · simp only [hs, decide_true, if_true]
    · simp only [hs, decide_false, Bool.false_eq_true, if_false]

/-- `remTail_abs` restated against `remTailA` -/
theorem remTail_refines (mn cow : Nat) (hmn : 1 ≤ mn) (f : Nat)
    (ih : ∀ (n : Nat) (H : Heap) (typ : Rm), Sub mn cow H f n → 1 ≤ (H.get n).items.length →
      RemOut mn cow typ H f n ((Cow.removeB cow mn f n typ) H))
    (H : Heap) (n : Nat) (typ : Rm) (h : Inner mn cow H f n) (is : List Item) (cs : List Node)
    (his : (H.get n).items = is) (hcs : (H.get n).children.map (absNode H f) = cs) :
    let r := remTail cow mn f n typ (locate is typ).1 (locate is typ).2 (is[(locate is typ).1]?) H
    absNode r.2 (f + 1) n = (remTailA mn f typ (is, cs)).1 ∧ r.1 = (remTailA mn f typ (is, cs)).2 ∧
    r.2.tag n = some cow ∧ WFree r.2 ∧ H.size ≤ r.2.size ∧ Frame H r.2 (InSub H (f + 1) n) ∧
    (∀ y, InSub r.2 (f + 1) n y → InSub H (f + 1) n y ∨ H.get y = HNode.empty) := by
  have hi : (locate is typ).1 < (H.get n).children.length := by
    have := locate_le is typ; have := h.len; rw [his] at this; omega
  obtain ⟨T1, T2, T3, T4, T5, T6⟩ := remTail_abs mn cow hmn f ih H n typ (locate is typ).1 (locate is typ).2
    (is[(locate is typ).1]?) h hi
  rw [his, hcs] at T1
  unfold remTailA
  simp only
  cases hfd : (locate is typ).2 with
  | false =>
    rw [hfd] at T1 T2 T3 T4 T5 T6
    simp only [Bool.false_eq_true, if_false] at T1 ⊢
    exact ⟨T1.1, T1.2, T2, T3, T4, T5, T6⟩
  | true =>
    rw [hfd] at T1 T2 T3 T4 T5 T6
    simp only [if_true] at T1 ⊢
    exact ⟨T1.1, T1.2, T2, T3, T4, T5, T6⟩

theorem removeB_refines (mn cow : Nat) (hmn : 1 ≤ mn) : ∀ (fuel n : Nat) (H : Heap) (typ : Rm),
    Sub mn cow H fuel n → 1 ≤ (H.get n).items.length →
    RemOut mn cow typ H fuel n ((Cow.removeB cow mn fuel n typ) H) := by
  intro fuel
  induction fuel with
  | zero => intro n H typ h _; exact removeB_leaf mn cow typ n H h
  | succ f ih =>
    intro n H typ h h1
    have hin := h.inner
    have hlen := hin.len
    have hne : (H.get n).children ≠ [] := by intro e; rw [e] at hlen; simp at hlen
    have hcsne : (H.get n).children.map (absNode H f) ≠ [] := by simpa using hne
    have hloc := locate_le (H.get n).items typ
    have hi : (locate (H.get n).items typ).1 < (H.get n).children.length := by omega
    have hgd := getD_map (absNode H f) (H.get n).children (locate (H.get n).items typ).1 n hi
    have hA := removeH_inner mn f (H.get n).items ((H.get n).children.map (absNode H f)) typ hcsne
    rw [hgd, abs_items] at hA
    have hk := hin.kids
    have hs := hin.sorted
    rw [abs_succ] at hk hs
    rw [inorder_mk] at hs
    rw [removeB_inner cow mn f n typ H hne]
    by_cases hsmall : (H.get ((H.get n).children.getD (locate (H.get n).items typ).1 n)).items.length ≤ mn
    · rw [if_pos hsmall]
      rw [if_pos hsmall] at hA
      have G := growB_abs mn cow hmn H f n (locate (H.get n).items typ).1 hin hloc h1
      have Gv := grow_spec mn hmn f (H.get n).items ((H.get n).children.map (absNode H f)) typ
        (locate (H.get n).items typ).1 hk hs h1 (locIs_locate _ typ (sorted_items _ _ hs)) hloc
        (by rw [hgd, abs_items]; exact hsmall)
      generalize ((Cow.growB cow mn n (locate (H.get n).items typ).1) H).2 = Hg at G
      generalize grow mn (H.get n).items ((H.get n).children.map (absNode H f)) (locate (H.get n).items typ).1 = g
        at G Gv hA
      obtain ⟨gi, gc⟩ := g
      simp only at G Gv hA
      have hIg : Inner mn cow Hg f n :=
        ⟨by rw [G.abs]; exact Gv.kids, by rw [G.abs, inorder_mk, Gv.inorder]; exact hs, G.own, G.wf⟩
      obtain ⟨e1, e2⟩ := children_of_abs G.abs
      rw [e1]
      obtain ⟨T1, T0, T2, T3, T4, T5, T6⟩ := remTail_refines mn cow hmn f ih Hg n typ hIg gi gc e1 e2
      refine ⟨by rw [abs_succ H f n, hA]; exact T1, by rw [abs_succ H f n, hA]; exact T0, T2, T3,
        Nat.le_trans G.size T4, Frame.trans G.frame T5 G.subs, ?_⟩
      intro y hy
      rcases T6 y hy with e | e
      · exact G.subs y e
      · exact frame_empty G.frame y e
    · rw [if_neg hsmall]
      rw [if_neg hsmall] at hA
      obtain ⟨T1, T0, T2, T3, T4, T5, T6⟩ := remTail_refines mn cow hmn f ih H n typ hin _ _ rfl rfl
      exact ⟨by rw [abs_succ H f n, hA]; exact T1, by rw [abs_succ H f n, hA]; exact T0, T2, T3, T4, T5, T6⟩

end Nv.C03.Cow
