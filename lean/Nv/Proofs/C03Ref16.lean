import Nv.Proofs.C03Ref15

/-! C03 refinement, part 16 (delete path): stealing an item from the left sibling. -/

namespace Nv.C03.Cow
open Nv.C03

theorem setAt_setAt_pred {α} (l : List α) (i : Nat) (a b : α) (h0 : 0 < i) (hi : i < l.length) :
    setAt (setAt l i a) (i - 1) b = l.take (i - 1) ++ b :: a :: l.drop (i + 1) := by
  have hlen : (l.take i).length = i := by simp; omega
  have e1 : (setAt l i a).take (i - 1) = l.take (i - 1) := by
    simp only [setAt]
    rw [List.take_append_of_le_length (by omega), List.take_take]
    congr 1; omega
  have e2 : (setAt l i a).drop (i - 1 + 1) = a :: l.drop (i + 1) := by
    have : i - 1 + 1 = i := by omega
    rw [this]; exact drop_pre _ _ _ hlen
  simp only [setAt] at e1 e2 ⊢
  rw [e1, e2]

theorem toList_map {α β} (f : α → β) (o : Option α) : (o.map f).toList = o.toList.map f := by
  cases o <;> rfl

/-- what the children of a node denote after its cell and two child cells were rewritten -/
structure GrowOut (cow : Nat) (H : Heap) (fuel n : Nat) (H' : Heap) (is' : List Item) (cs' : List Node) : Prop where
  abs : absNode H' (fuel + 1) n = .mk is' cs'
  own : H'.tag n = some cow
  wf : WFree H'
  size : H.size ≤ H'.size
  frame : Frame H H' (InSub H (fuel + 1) n)
  subs : ∀ y, InSub H' (fuel + 1) n y → InSub H (fuel + 1) n y ∨ H.get y = HNode.empty

theorem stealLeft_abs (mn cow : Nat) (hmn : 1 ≤ mn) (H : Heap) (fuel n i : Nat) (h : Inner mn cow H fuel n)
    (h0 : 0 < i) (hi : i < (H.get n).children.length) :
    GrowOut cow H fuel n (stealLeftB cow n i H)
      (setAt (H.get n).items (i - 1)
        ((((H.get n).children.map (absNode H fuel)).getD (i - 1) default).items.getLast?.getD default))
      (((H.get n).children.map (absNode H fuel)).take (i - 1) ++
        .mk (((H.get n).children.map (absNode H fuel)).getD (i - 1) default).items.dropLast
            (((H.get n).children.map (absNode H fuel)).getD (i - 1) default).children.dropLast ::
        .mk ((H.get n).items.getD (i - 1) default :: (((H.get n).children.map (absNode H fuel)).getD i default).items)
            ((((H.get n).children.map (absNode H fuel)).getD (i - 1) default).children.getLast?.toList ++
              (((H.get n).children.map (absNode H fuel)).getD i default).children) ::
        ((H.get n).children.map (absNode H fuel)).drop (i + 1)) := by
  have hb : i - 1 < (H.get n).children.length := by omega
  have hab : i ≠ i - 1 := by omega
  unfold stealLeftB
  obtain ⟨t1, t2, t3, t4, t5, t6, t7, t8, t9⟩ := twoMutable mn cow hmn H fuel n i (i - 1) h hi hb hab
  generalize (Cow.mutableChild cow n i) H = r1 at t1 t2 t3 t4 t5 t6 t7 t8 t9
  obtain ⟨ca, H1⟩ := r1
  simp only at t1 t2 t3 t4 t5 t6 t7 t8 t9 ⊢
  generalize (Cow.mutableChild cow n (i - 1)) H1 = r2 at t1 t2 t3 t4 t5 t6 t7 t8 t9
  obtain ⟨cb, H2⟩ := r2
  simp only at t1 t2 t3 t4 t5 t6 t7 t8 t9 ⊢
  rw [t1, t2, t3]
  simp only
  have hpa : (H.get n).children[i]? = some ((H.get n).children.getD i n) := getD_getElem? _ i n hi
  have hpb : (H.get n).children[i - 1]? = some ((H.get n).children.getD (i - 1) n) := getD_getElem? _ (i - 1) n hb
  have hma : (H.get n).children.getD i n ∈ (H.get n).children := getD_mem _ i n hi
  have hmb : (H.get n).children.getD (i - 1) n ∈ (H.get n).children := getD_mem _ (i - 1) n hb
  generalize hca : (H.get n).children.getD i n = c_a at *
  generalize hcb : (H.get n).children.getD (i - 1) n = c_b at *
  obtain ⟨q1, q2, q3, q4, q5, q6⟩ := threeWrites cow H2 n ca cb t4 (by rw [t1]) (by rw [t2]) (by rw [t3]) t7
    (H.get c_b).items.dropLast (H.get c_b).children.dropLast
    ((H.get n).items.getD (i - 1) default :: (H.get c_a).items)
    ((H.get c_b).children.getLast?.toList ++ (H.get c_a).children)
    (setAt (H.get n).items (i - 1) ((H.get c_b).items.getLast?.getD default))
    (setAt (setAt (H.get n).children i ca) (i - 1) cb)
  generalize ((Cow.wr n (setAt (H.get n).items (i - 1) ((H.get c_b).items.getLast?.getD default))
      (setAt (setAt (H.get n).children i ca) (i - 1) cb))
    ((Cow.wr ca ((H.get n).items.getD (i - 1) default :: (H.get c_a).items)
      ((H.get c_b).children.getLast?.toList ++ (H.get c_a).children))
      ((Cow.wr cb (H.get c_b).items.dropLast (H.get c_b).children.dropLast) H2).2).2).2 = H5 at q1 q2 q3 q4 q5 q6
  -- only the node and the two children changed
  have hf : Frame H H5 (fun x => x = n ∨ x = ca ∨ x = cb) := by
    intro x hx hne
    have e1 : H2.get x = H.get x := t9 x (fun e => hx (Or.inl e)) hne
    rw [q4 x (fun e => hx (Or.inl e)) (fun e => hx (Or.inr (Or.inl e))) (fun e => hx (Or.inr (Or.inr e))), e1]
  obtain ⟨F1, _⟩ := far_frame mn cow hmn h hab hpa hpb t5 t6 hf
  obtain ⟨ra1, ra2⟩ := rebuild_cell mn cow hmn h hab hpa hpb t5 t6 hf ca _ _ _ q2 (by
    intro g hg
    simp only [List.mem_append, Option.mem_toList] at hg
    rcases hg with hg | hg
    · exact Or.inr (List.mem_of_getLast? hg)
    · exact Or.inl hg)
  obtain ⟨rb1, rb2⟩ := rebuild_cell mn cow hmn h hab hpa hpb t5 t6 hf cb _ _ _ q3
    (fun g hg => Or.inr (List.dropLast_subset _ hg))
  -- the denotations of the two children in the original store
  have eA : ((H.get n).children.map (absNode H fuel)).getD i default = absNode H fuel c_a := by
    rw [getD_map _ _ i n hi, hca]
  have eB : ((H.get n).children.map (absNode H fuel)).getD (i - 1) default = absNode H fuel c_b := by
    rw [getD_map _ _ (i - 1) n hb, hcb]
  rw [eA, eB]
  have kA := abs_kids H fuel c_a
  have kB := abs_kids H fuel c_b
  have hsib : ∀ c', (c' ∈ (H.get n).children.take (i - 1) ∨ c' ∈ (H.get n).children.drop (i + 1)) →
      absNode H5 fuel c' = absNode H fuel c' ∧ ∀ y, InSub H5 fuel c' y → InSub H fuel c' y := by
    intro c' hc'
    rcases hc' with hc' | hc'
    · obtain ⟨j, hj, e⟩ := mem_take_pos hc'; exact F1 j c' (by omega) (by omega) e
    · obtain ⟨j, hj, e⟩ := mem_drop_pos hc'; exact F1 j c' (by omega) (by omega) e
  refine ⟨?_, by simp only [Heap.tag]; rw [q1], q5, by rw [q6]; exact t8, frame_to_sub hma hmb t5 t6 hf, ?_⟩
  · rw [abs_succ, q1]
    simp only
    rw [setAt_setAt_pred _ _ _ _ h0 hi]
    simp only [List.map_append, List.map_cons]
    rw [ra1, rb1, kA, kB]
    simp only [items_mk, children_mk, List.map_dropLast, List.getLast?_map, toList_map, List.map_append, List.map_take,
      List.map_drop]
    rw [← List.map_take, ← List.map_take, ← List.map_drop, ← List.map_drop]
    congr 2
    · exact List.map_congr_left (fun y hy => (hsib y (Or.inl hy)).1)
    · congr 2
      exact List.map_congr_left (fun y hy => (hsib y (Or.inr hy)).1)
  · intro y hy
    rcases hy with e | ⟨c', hc', hy⟩
    · exact Or.inl (Or.inl e)
    · rw [q1] at hc'
      simp only at hc'
      rw [setAt_setAt_pred _ _ _ _ h0 hi] at hc'
      simp only [List.mem_append, List.mem_cons] at hc'
      have hboth : ∀ z, (z = ca ∨ z = cb) → y = z ∨ InSub H fuel c_a y ∨ InSub H fuel c_b y →
          InSub H (fuel + 1) n y ∨ H.get y = HNode.empty := by
        intro z hz hyz
        rcases hyz with e | e | e
        · rcases hz with e2 | e2
          · rcases t5 with e3 | e3
            · exact Or.inl (Or.inr ⟨c_a, hma, by rw [e, e2, e3]; exact InSub.self H fuel c_a⟩)
            · exact Or.inr (by rw [e, e2, e3])
          · rcases t6 with e3 | e3
            · exact Or.inl (Or.inr ⟨c_b, hmb, by rw [e, e2, e3]; exact InSub.self H fuel c_b⟩)
            · exact Or.inr (by rw [e, e2, e3])
        · exact Or.inl (Or.inr ⟨c_a, hma, e⟩)
        · exact Or.inl (Or.inr ⟨c_b, hmb, e⟩)
      rcases hc' with hc' | rfl | rfl | hc'
      · exact Or.inl (Or.inr ⟨c', List.mem_of_mem_take hc', (hsib c' (Or.inl hc')).2 y hy⟩)
      · exact hboth c' (Or.inr rfl) (rb2 y hy)
      · exact hboth c' (Or.inl rfl) (ra2 y hy)
      · exact Or.inl (Or.inr ⟨c', List.mem_of_mem_drop hc', (hsib c' (Or.inr hc')).2 y hy⟩)

end Nv.C03.Cow
