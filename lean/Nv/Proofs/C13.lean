import Nv.Model.C13
/-! C13 — helper lemmas: effects of the C12 critical sections on `closed` and `size`, of the wake primitive on the
thread lists, and preservation of the "no stuck waiter" invariant by every step. -/
namespace Nv.C13
open Nv.C12

/-! ### queue functions: `closed` never reset, sizes -/

theorem size_eq (s : LQ) : s.size = s.ctrl.length + s.req.length := rfl

theorem isEmpty_iff (s : LQ) : s.isEmpty = true ↔ s.size = 0 := by
  cases hc : s.ctrl <;> cases hr : s.req <;> simp [LQ.isEmpty, LQ.size, hc, hr]

theorem addReq_spec (sh : Shape) (s : LQ) (x : Nat) :
    (addReq sh s x).1.closed = s.closed ∧
    (((addReq sh s x).2 = .ok ∧ s.closed = false ∧ (addReq sh s x).1.size = s.size + 1) ∨
     ((addReq sh s x).2 ≠ .ok ∧ (addReq sh s x).1 = s)) := by
  unfold addReq
  cases sh.addClosedFirst <;> cases hc : s.closed <;> cases fullAt s.reqCap s.req.length <;>
    simp [LQ.size, hc] <;> omega

theorem addPrior_spec (sh : Shape) (s : LQ) (x : Nat) :
    (addPrior sh s x).1.closed = s.closed ∧
    (((addPrior sh s x).2 = .ok ∧ s.closed = false ∧ (addPrior sh s x).1.size = s.size + 1) ∨
     ((addPrior sh s x).2 ≠ .ok ∧ (addPrior sh s x).1 = s)) := by
  unfold addPrior
  cases sh.priorBounded <;> cases hc : s.closed <;> cases fullAt s.reqCap s.req.length <;>
    simp [LQ.size, hc] <;> omega

theorem addCtrl_spec (sh : Shape) (s : LQ) (x : Nat) :
    (addCtrl sh s x).1.closed = s.closed ∧
    (((addCtrl sh s x).2 = .ok ∧ s.closed = false ∧ (addCtrl sh s x).1.size = s.size + 1) ∨
     ((addCtrl sh s x).2 ≠ .ok ∧ (addCtrl sh s x).1 = s)) := by
  unfold addCtrl
  cases sh.addClosedFirst <;> cases hc : s.closed <;> cases fullAt s.ctrlCap s.ctrl.length <;>
    simp [LQ.size, hc] <;> omega

theorem addPriorCtrl_spec (sh : Shape) (s : LQ) (x : Nat) :
    (addPriorCtrl sh s x).1.closed = s.closed ∧
    (((addPriorCtrl sh s x).2 = .ok ∧ s.closed = false ∧ (addPriorCtrl sh s x).1.size = s.size + 1) ∨
     ((addPriorCtrl sh s x).2 ≠ .ok ∧ (addPriorCtrl sh s x).1 = s)) := by
  unfold addPriorCtrl
  cases sh.priorBounded <;> cases hc : s.closed <;> cases fullAt s.ctrlCap s.ctrl.length <;>
    simp [LQ.size, hc] <;> omega

theorem takeFront_spec (sh : Shape) (s : LQ) (hne : s.size ≠ 0) :
    (takeFront sh s).1.closed = s.closed ∧ (takeFront sh s).1.size + 1 = s.size := by
  unfold takeFront
  cases sh.ctrlFirst <;> cases hc : s.ctrl <;> cases hr : s.req <;> simp [LQ.size, hc, hr] at hne ⊢ <;> omega

/-- a pass of the wait loop parks exactly when the queue is empty and open -/
theorem popNow_none_iff (sh : Shape) (a : Bool) (s : LQ) :
    popNow sh a s = none ↔ (s.size = 0 ∧ s.closed = false) := by
  unfold popNow
  cases he : s.isEmpty with
  | true =>
    have := (isEmpty_iff s).1 he
    cases hc : s.closed <;> simp [this]
  | false =>
    have hne : s.size ≠ 0 := fun h => by rw [(isEmpty_iff s).2 h] at he; cases he
    simp only [Bool.false_eq_true, if_false]
    split <;> simp [hne]

theorem popNow_some_spec (sh : Shape) (a : Bool) (s : LQ) (r : LQ × Out) (h : popNow sh a s = some r) :
    r.1.closed = s.closed ∧ r.1.size ≤ s.size ∧ (s.closed = false → r.1.size + 1 = s.size) := by
  unfold popNow at h
  cases he : s.isEmpty with
  | true =>
    cases hc : s.closed <;> simp [he, hc] at h
    subst h; simp [hc]
  | false =>
    have hne : s.size ≠ 0 := fun h => by rw [(isEmpty_iff s).2 h] at he; cases he
    simp only [he, Bool.false_eq_true, if_false] at h
    split at h
    · rename_i hcl
      simp at h; subst h
      simp at hcl
      simp [hcl.2]
    · simp at h; subst h
      have := takeFront_spec sh s hne
      refine ⟨this.1, by omega, fun _ => this.2⟩

theorem syncPopNow_none_iff (s : LQ) (hc : s.ctrl = []) :
    syncPopNow s = none ↔ (s.size = 0 ∧ s.closed = false) := by
  unfold syncPopNow
  cases hr : s.req <;> cases hcl : s.closed <;> simp [LQ.size, hc, hr]

theorem syncPopNow_some_spec (s : LQ) (r : LQ × Out) (h : syncPopNow s = some r) :
    r.1.closed = s.closed ∧ r.1.ctrl = s.ctrl ∧ r.1.size ≤ s.size ∧ (s.closed = false → r.1.size + 1 = s.size) := by
  unfold syncPopNow at h
  cases hr : s.req with
  | nil =>
    cases hcl : s.closed <;> simp [hr, hcl] at h
    subst h; simp [hcl]
  | cons x rest =>
    simp [hr] at h; subst h
    simp [LQ.size, hr]; omega

theorem syncPush_spec (sh : SyncShape) (s : LQ) (x : Nat) :
    (syncPush sh s x).closed = s.closed ∧ (syncPush sh s x).ctrl = s.ctrl ∧ s.size ≤ (syncPush sh s x).size ∧
    (syncPush sh s x).size ≤ s.size + 1 := by
  unfold syncPush
  split <;> simp [LQ.size] <;> omega

theorem syncTryPop_spec (sh : SyncShape) (s : LQ) :
    (syncTryPop sh s).1.closed = s.closed ∧ (syncTryPop sh s).1.ctrl = s.ctrl ∧ (syncTryPop sh s).1.size ≤ s.size := by
  unfold syncTryPop
  cases sh.tryPopItemsFirst <;> cases hr : s.req <;> cases hc : s.closed <;> simp [LQ.size, hr, hc]

theorem tryClear_spec (s : LQ) : (tryClear s).1.closed = s.closed ∧ (tryClear s).1.size = s.size := by
  unfold tryClear
  split
  · simp
  · split <;> simp [LQ.size]

/-! ### the wake primitive -/

theorem wake_q (p : Wake) (w : Tid) (s s' : CS) (h : wake p w s = some s') :
    s'.q = s.q ∧ s'.done = s.done ∧ s'.accepted = s.accepted := by
  unfold wake at h
  cases p <;> simp only at h
  · cases h; simp
  · split at h
    · cases h; simp
    · split at h
      · cases h; simp
      · cases h
  · cases h; simp
  · cases h; simp

/-- what a wake does to the thread lists -/
theorem wake_threads (p : Wake) (w : Tid) (s s' : CS) (h : wake p w s = some s') :
    (p = .broadcast ∧ s'.parked = [] ∧ s'.woken = s.woken ++ s.parked) ∨
    (p = .signal ∧ s.parked = [] ∧ s'.parked = [] ∧ s'.woken = s.woken) ∨
    (p = .signal ∧ ∃ e, e ∈ s.parked ∧ s'.parked = s.parked.erase e ∧ s'.woken = s.woken ++ [e]) ∨
    ((p = .none ∨ p = .unknown) ∧ s'.parked = s.parked ∧ s'.woken = s.woken) := by
  unfold wake at h
  cases p <;> simp only at h
  · cases h; simp
  · split at h
    · rename_i hp
      cases h; simp [hp]
    · rename_i hp
      split at h
      · rename_i e he
        cases h
        right; right; left
        exact ⟨rfl, e, List.mem_of_find?_eq_some he, rfl, rfl⟩
      · cases h
  · cases h; simp
  · cases h; simp

/-- the thread set only moves between lists under a wake -/
theorem wake_tids (p : Wake) (w : Tid) (s s' : CS) (h : wake p w s = some s') (t : Tid) :
    (t ∈ tids s.parked ∨ t ∈ tids s.woken) ↔ (t ∈ tids s'.parked ∨ t ∈ tids s'.woken) := by
  rcases wake_threads p w s s' h with ⟨_, h1, h2⟩ | ⟨_, h0, h1, h2⟩ | ⟨_, e, he, h1, h2⟩ | ⟨_, h1, h2⟩
  · simp only [tids, h1, h2, List.map_append, List.mem_append, List.map_nil, List.not_mem_nil, false_or]
    exact Or.comm
  · simp [h0, h1, h2]
  · simp only [tids, h1, h2, List.map_append, List.mem_append, List.mem_map, List.map_cons, List.map_nil,
      List.mem_singleton]
    constructor
    · rintro (⟨x, hx, rfl⟩ | h)
      · by_cases hxe : x = e
        · right; right; rw [hxe]
        · left; exact ⟨x, (List.mem_erase_of_ne hxe).2 hx, rfl⟩
      · right; left; exact h
    · rintro (⟨x, hx, rfl⟩ | h | h)
      · left; exact ⟨x, List.mem_of_mem_erase hx, rfl⟩
      · right; exact h
      · left; exact ⟨e, he, h.symm⟩
  · simp [h1, h2]

/-! ### the invariant -/

/-- closed ⇒ nobody parked; open ⇒ if somebody is parked, every queued item is matched by a woken thread -/
def Inv (s : CS) : Prop :=
  (s.q.closed = true → s.parked = []) ∧
  (s.q.closed = false → s.parked ≠ [] → s.q.size ≤ s.woken.length)

theorem inv_init (q : LQ) : Inv (CS.init q) := by simp [Inv, CS.init]

/-- a producer step that leaves `closed` and does not grow the queue, without waking -/
theorem inv_of_shrink (s : CS) (q' : LQ) (hI : Inv s) (hc : q'.closed = s.q.closed) (hs : q'.size ≤ s.q.size) :
    Inv { s with q := q' } := by
  refine ⟨fun h => hI.1 (by rw [← hc]; exact h), fun h hp => ?_⟩
  have := hI.2 (by rw [← hc]; exact h) hp
  simp only; omega

/-- inserting one item and then waking with a primitive that wakes -/
theorem inv_add_wake (s s' : CS) (q' : LQ) (acc : List Nat) (p : Wake) (w : Tid) (hI : Inv s) (hp : p.wakes = true)
    (hc : q'.closed = s.q.closed) (hs : q'.size ≤ s.q.size + 1)
    (h : wake p w { s with q := q', accepted := acc } = some s') : Inv s' := by
  have hq := (wake_q p w _ s' h).1
  simp only at hq
  rcases wake_threads p w _ s' h with ⟨_, h1, _⟩ | ⟨_, _, h1, _⟩ | ⟨_, e, he, h1, h2⟩ | ⟨hn, _, _⟩
  · exact ⟨fun _ => h1, fun _ hne => absurd h1 hne⟩
  · exact ⟨fun _ => h1, fun _ hne => absurd h1 hne⟩
  · simp only at he h1 h2
    refine ⟨fun hcl => ?_, fun hop hne => ?_⟩
    · have := hI.1 (by rw [hq, hc] at hcl; exact hcl)
      rw [this] at he; cases he
    · have hpn : s.parked ≠ [] := fun h0 => by rw [h0] at he; cases he
      have := hI.2 (by rw [hq, hc] at hop; exact hop) hpn
      rw [hq, h2, List.length_append]; simp; omega
  · rcases hn with rfl | rfl <;> cases hp

/-- closing and waking everybody -/
theorem inv_close_broadcast (s s' : CS) (q' : LQ) (w : Tid)
    (h : wake .broadcast w { s with q := q' } = some s') : Inv s' := by
  rcases wake_threads _ w _ s' h with ⟨_, h1, _⟩ | ⟨hc, _⟩ | ⟨hc, _⟩ | ⟨hc, _⟩
  · exact ⟨fun _ => h1, fun _ hne => absurd h1 hne⟩
  · cases hc
  · cases hc
  · rcases hc with hc | hc <;> cases hc

theorem attempt_none (k : Kind) (sh : Shape) (a : Bool) (q : LQ) (hk : k = .syncq → q.ctrl = [])
    (h : attempt k sh a q = none) : q.size = 0 ∧ q.closed = false := by
  unfold attempt at h
  cases k <;> simp only at h
  all_goals first
    | exact (popNow_none_iff sh a q).1 h
    | exact (syncPopNow_none_iff q (hk rfl)).1 h

theorem attempt_some (k : Kind) (sh : Shape) (a : Bool) (q : LQ) (r : LQ × Out) (h : attempt k sh a q = some r) :
    r.1.closed = q.closed ∧ r.1.size ≤ q.size ∧ (q.closed = false → r.1.size + 1 = q.size) ∧
    (q.ctrl = [] → k = .syncq → r.1.ctrl = []) := by
  unfold attempt at h
  cases k <;> simp only at h
  all_goals first
    | (have := popNow_some_spec sh a q r h; exact ⟨this.1, this.2.1, this.2.2, fun _ hk => by cases hk⟩)
    | (have := syncPopNow_some_spec q r h; exact ⟨this.1, this.2.2.1, this.2.2.2, fun h0 _ => by rw [this.2.1]; exact h0⟩)

/-- a consumer at the loop test; `+ 1` because a resumed thread has just been removed from `woken` -/
theorem inv_enter (k : Kind) (sh : Shape) (t : Tid) (a : Bool) (s : CS) (hk : k = .syncq → s.q.ctrl = [])
    (h1 : s.q.closed = true → s.parked = [])
    (h2 : s.q.closed = false → s.parked ≠ [] → s.q.size ≤ s.woken.length + 1) :
    Inv (enter k sh t a s) := by
  unfold enter
  cases hat : attempt k sh a s.q with
  | none =>
    have := attempt_none k sh a s.q hk hat
    refine ⟨fun hc => ?_, fun _ _ => ?_⟩
    · simp only at hc; rw [this.2] at hc; cases hc
    · simp only; omega
  | some r =>
    have hr := attempt_some k sh a s.q r hat
    refine ⟨fun hc => h1 (by simp only at hc; rw [hr.1] at hc; exact hc), fun hop hne => ?_⟩
    simp only at hop hne ⊢
    rw [hr.1] at hop
    have := h2 hop hne
    have := hr.2.2.1 hop
    omega

/-- full invariant: `Inv` plus "SyncQueue has no control list" -/
def Inv' (P : Par) (s : CS) : Prop := Inv s ∧ (P.kind = .syncq → s.q.ctrl = [])

theorem addLike_inv (P : Par) (s s' : CS) (r : LQ × Out) (x : Nat) (p : Wake) (w : Tid) (hI : Inv' P s)
    (hp : p.wakes = true) (hk : P.kind ≠ .syncq)
    (hr : r.1.closed = s.q.closed ∧ ((r.2 = .ok ∧ s.q.closed = false ∧ r.1.size = s.q.size + 1) ∨ (r.2 ≠ .ok ∧ r.1 = s.q)))
    (h : addLike s r x p w = some s') : Inv' P s' := by
  unfold addLike at h
  refine ⟨?_, fun hk' => absurd hk' hk⟩
  rcases hr.2 with ⟨hok, _, hsz⟩ | ⟨hno, heq⟩
  · rw [if_pos hok] at h
    exact inv_add_wake s s' r.1 _ p w hI.1 hp hr.1 (by omega) h
  · rw [if_neg hno] at h
    cases h
    rw [heq]; exact hI.1

theorem inv_step (P : Par) (hP : ProvedWake P.kind P.wk) (s s' : CS) (a : Act) (hI : Inv' P s)
    (h : step P s a = some s') : Inv' P s' := by
  obtain ⟨hadd, hprior, hclose, htc⟩ := hP
  cases a with
  | add x w =>
    simp only [step] at h
    cases hk : P.kind <;> simp only [hk] at h
    case syncq =>
      split at h
      · cases h; exact hI
      · have sp := syncPush_spec P.ssh s.q x
        refine ⟨inv_add_wake s s' _ _ _ w hI.1 hadd sp.1 sp.2.2.2 h, fun _ => ?_⟩
        rw [(wake_q _ w _ s' h).1]; simp only; rw [sp.2.1]; exact hI.2 hk
    all_goals exact addLike_inv P s s' _ x _ w hI hadd (by rw [hk]; simp) (addReq_spec P.sh s.q x) h
  | prior x w =>
    simp only [step] at h
    cases hk : P.kind <;> simp only [hk] at h
    case syncq => cases h
    all_goals exact addLike_inv P s s' _ x _ w hI hprior (by rw [hk]; simp) (addPrior_spec P.sh s.q x) h
  | addCtrl x w =>
    simp only [step] at h
    cases hk : P.kind <;> simp only [hk] at h
    case mq => exact addLike_inv P s s' _ x _ w hI hadd (by rw [hk]; simp) (addCtrl_spec P.sh s.q x) h
    all_goals cases h
  | priorCtrl x w =>
    simp only [step] at h
    cases hk : P.kind <;> simp only [hk] at h
    case mq => exact addLike_inv P s s' _ x _ w hI hprior (by rw [hk]; simp) (addPriorCtrl_spec P.sh s.q x) h
    all_goals cases h
  | close w =>
    simp only [step] at h
    split at h
    · cases h; exact hI
    · rw [hclose] at h
      refine ⟨inv_close_broadcast s s' _ w h, fun hk => ?_⟩
      rw [(wake_q _ w _ s' h).1]; exact hI.2 hk
  | tryClose w =>
    simp only [step] at h
    cases hk : P.kind <;> simp only [hk] at h
    case mq =>
      split at h
      · cases h; exact hI
      · split at h
        · rw [htc hk] at h
          exact ⟨inv_close_broadcast s s' _ w h, fun hk' => by rw [hk] at hk'; cases hk'⟩
        · cases h; exact hI
    all_goals cases h
  | tryClear =>
    simp only [step] at h
    cases hk : P.kind <;> simp only [hk] at h
    case mq =>
      cases h
      have := tryClear_spec s.q
      exact ⟨inv_of_shrink s _ hI.1 this.1 (by omega), fun hk' => by rw [hk] at hk'; cases hk'⟩
    all_goals cases h
  | tryPop =>
    simp only [step] at h
    cases hk : P.kind <;> simp only [hk] at h
    case syncq =>
      cases h
      have := syncTryPop_spec P.ssh s.q
      exact ⟨inv_of_shrink s _ hI.1 this.1 this.2.2, fun _ => by simp only; rw [this.2.1]; exact hI.2 hk⟩
    all_goals cases h
  | popCall t anyway =>
    simp only [step] at h
    split at h
    · split at h
      · cases h
      · cases h
        refine ⟨inv_enter P.kind P.sh t anyway s hI.2 hI.1.1 (fun a b => by have := hI.1.2 a b; omega), fun hk => ?_⟩
        unfold enter
        cases hat : attempt P.kind P.sh anyway s.q with
        | none => exact hI.2 hk
        | some r => exact (attempt_some _ _ _ _ r hat).2.2.2 (hI.2 hk) hk
    · cases h
  | resume t =>
    simp only [step] at h
    split at h
    · rename_i e he
      cases h
      have hmem : e ∈ s.woken := List.mem_of_find?_eq_some he
      have hlen : (s.woken.erase e).length + 1 = s.woken.length := by
        rw [List.length_erase_of_mem hmem]
        have : 0 < s.woken.length := List.length_pos_of_mem hmem
        omega
      refine ⟨inv_enter P.kind P.sh e.1 e.2 { s with woken := s.woken.erase e } hI.2 hI.1.1
        (fun a b => by have := hI.1.2 a b; simp only; omega), fun hk => ?_⟩
      unfold enter
      simp only
      cases hat : attempt P.kind P.sh e.2 s.q with
      | none => exact hI.2 hk
      | some r => exact (attempt_some _ _ _ _ r hat).2.2.2 (hI.2 hk) hk
    · cases h

/-! ### threads are never lost; `closed` is never reset -/

def CS.has (s : CS) (t : Tid) : Prop := t ∈ tids s.parked ∨ t ∈ tids s.woken ∨ t ∈ tids s.done

theorem wake_has (p : Wake) (w : Tid) (s s' : CS) (h : wake p w s = some s') (t : Tid) : s.has t → s'.has t := by
  intro ht
  have hd := (wake_q p w s s' h).2.1
  have := wake_tids p w s s' h t
  unfold CS.has at *
  rw [hd]
  rcases ht with ht | ht | ht
  · rcases this.1 (Or.inl ht) with h1 | h1
    · exact Or.inl h1
    · exact Or.inr (Or.inl h1)
  · rcases this.1 (Or.inr ht) with h1 | h1
    · exact Or.inl h1
    · exact Or.inr (Or.inl h1)
  · exact Or.inr (Or.inr ht)

theorem enter_has (k : Kind) (sh : Shape) (t : Tid) (a : Bool) (s : CS) (u : Tid) :
    (u ∈ tids s.parked ∨ u ∈ tids s.woken ∨ u ∈ tids s.done ∨ u = t) → (enter k sh t a s).has u := by
  intro hu
  unfold enter CS.has
  cases attempt k sh a s.q with
  | none =>
    simp only [tids, List.map_append, List.mem_append, List.map_cons, List.map_nil, List.mem_singleton]
    rcases hu with h | h | h | h
    · exact Or.inl (Or.inl h)
    · exact Or.inr (Or.inl h)
    · exact Or.inr (Or.inr h)
    · exact Or.inl (Or.inr h)
  | some r =>
    simp only [tids, List.map_cons, List.mem_cons]
    rcases hu with h | h | h | h
    · exact Or.inl h
    · exact Or.inr (Or.inl h)
    · exact Or.inr (Or.inr (Or.inr h))
    · exact Or.inr (Or.inr (Or.inl h))

theorem addLike_has (s s' : CS) (r : LQ × Out) (x : Nat) (p : Wake) (w : Tid) (h : addLike s r x p w = some s')
    (t : Tid) : s.has t → s'.has t := by
  unfold addLike at h
  split at h
  · exact wake_has p w _ s' h t
  · cases h; exact id

theorem step_has (P : Par) (s s' : CS) (a : Act) (h : step P s a = some s') (t : Tid) : s.has t → s'.has t := by
  cases a with
  | add x w =>
    simp only [step] at h
    cases hk : P.kind <;> simp only [hk] at h
    case syncq =>
      split at h
      · cases h; exact id
      · exact wake_has _ w _ s' h t
    all_goals exact addLike_has s s' _ x _ w h t
  | prior x w =>
    simp only [step] at h
    cases hk : P.kind <;> simp only [hk] at h
    case syncq => cases h
    all_goals exact addLike_has s s' _ x _ w h t
  | addCtrl x w =>
    simp only [step] at h
    cases hk : P.kind <;> simp only [hk] at h
    case mq => exact addLike_has s s' _ x _ w h t
    all_goals cases h
  | priorCtrl x w =>
    simp only [step] at h
    cases hk : P.kind <;> simp only [hk] at h
    case mq => exact addLike_has s s' _ x _ w h t
    all_goals cases h
  | close w =>
    simp only [step] at h
    split at h
    · cases h; exact id
    · exact wake_has _ w _ s' h t
  | tryClose w =>
    simp only [step] at h
    cases hk : P.kind <;> simp only [hk] at h
    case mq =>
      split at h
      · cases h; exact id
      · split at h
        · exact wake_has _ w _ s' h t
        · cases h; exact id
    all_goals cases h
  | tryClear =>
    simp only [step] at h
    cases hk : P.kind <;> simp only [hk] at h
    case mq => cases h; exact id
    all_goals cases h
  | tryPop =>
    simp only [step] at h
    cases hk : P.kind <;> simp only [hk] at h
    case syncq => cases h; exact id
    all_goals cases h
  | popCall u anyway =>
    simp only [step] at h
    split at h
    · split at h
      · cases h
      · cases h
        intro ht
        apply enter_has
        rcases ht with ht | ht | ht
        · exact Or.inl ht
        · exact Or.inr (Or.inl ht)
        · exact Or.inr (Or.inr (Or.inl ht))
    · cases h
  | resume u =>
    simp only [step] at h
    split at h
    · rename_i e he
      cases h
      intro ht
      apply enter_has
      rcases ht with ht | ht | ht
      · exact Or.inl ht
      · simp only [tids, List.mem_map] at ht ⊢
        obtain ⟨y, hy, rfl⟩ := ht
        by_cases hye : y = e
        · right; right; right; rw [hye]
        · right; left; exact ⟨y, (List.mem_erase_of_ne hye).2 hy, rfl⟩
      · exact Or.inr (Or.inr (Or.inl ht))
    · cases h

theorem wake_closed (p : Wake) (w : Tid) (s s' : CS) (h : wake p w s = some s') : s'.q.closed = s.q.closed := by
  rw [(wake_q p w s s' h).1]

theorem enter_closed (k : Kind) (sh : Shape) (t : Tid) (a : Bool) (s : CS) : (enter k sh t a s).q.closed = s.q.closed := by
  unfold enter
  cases hat : attempt k sh a s.q with
  | none => rfl
  | some r => exact (attempt_some k sh a s.q r hat).1

/-- once closed, always closed -/
theorem step_closed (P : Par) (s s' : CS) (a : Act) (h : step P s a = some s') (hc : s.q.closed = true) :
    s'.q.closed = true := by
  cases a with
  | add x w =>
    simp only [step] at h
    cases hk : P.kind <;> simp only [hk] at h
    case syncq =>
      split at h
      · cases h; exact hc
      · rw [wake_closed _ w _ s' h]; simp only; rw [(syncPush_spec P.ssh s.q x).1]; exact hc
    all_goals
      unfold addLike at h
      split at h
      · rw [wake_closed _ w _ s' h]; simp only; rw [(addReq_spec P.sh s.q x).1]; exact hc
      · cases h; simp only; rw [(addReq_spec P.sh s.q x).1]; exact hc
  | prior x w =>
    simp only [step] at h
    cases hk : P.kind <;> simp only [hk] at h
    case syncq => cases h
    all_goals
      unfold addLike at h
      split at h
      · rw [wake_closed _ w _ s' h]; simp only; rw [(addPrior_spec P.sh s.q x).1]; exact hc
      · cases h; simp only; rw [(addPrior_spec P.sh s.q x).1]; exact hc
  | addCtrl x w =>
    simp only [step] at h
    cases hk : P.kind <;> simp only [hk] at h
    case mq =>
      unfold addLike at h
      split at h
      · rw [wake_closed _ w _ s' h]; simp only; rw [(addCtrl_spec P.sh s.q x).1]; exact hc
      · cases h; simp only; rw [(addCtrl_spec P.sh s.q x).1]; exact hc
    all_goals cases h
  | priorCtrl x w =>
    simp only [step] at h
    cases hk : P.kind <;> simp only [hk] at h
    case mq =>
      unfold addLike at h
      split at h
      · rw [wake_closed _ w _ s' h]; simp only; rw [(addPriorCtrl_spec P.sh s.q x).1]; exact hc
      · cases h; simp only; rw [(addPriorCtrl_spec P.sh s.q x).1]; exact hc
    all_goals cases h
  | close w =>
    simp only [step] at h
    rw [if_pos hc] at h
    cases h; exact hc
  | tryClose w =>
    simp only [step] at h
    cases hk : P.kind <;> simp only [hk] at h
    case mq =>
      rw [if_pos hc] at h
      cases h; exact hc
    all_goals cases h
  | tryClear =>
    simp only [step] at h
    cases hk : P.kind <;> simp only [hk] at h
    case mq => cases h; simp only; rw [(tryClear_spec s.q).1]; exact hc
    all_goals cases h
  | tryPop =>
    simp only [step] at h
    cases hk : P.kind <;> simp only [hk] at h
    case syncq => cases h; simp only; rw [(syncTryPop_spec P.ssh s.q).1]; exact hc
    all_goals cases h
  | popCall u anyway =>
    simp only [step] at h
    split at h
    · split at h
      · cases h
      · cases h; rw [enter_closed]; exact hc
    · cases h
  | resume u =>
    simp only [step] at h
    split at h
    · cases h; rw [enter_closed]; exact hc
    · cases h

/-- the close step itself sets `closed` -/
theorem close_sets_closed (P : Par) (s s' : CS) (w : Tid) (h : step P s (.close w) = some s') : s'.q.closed = true := by
  simp only [step] at h
  split at h
  · rename_i hc; cases h; exact hc
  · rw [wake_closed _ w _ s' h]; rfl

theorem run_has (P : Par) (q0 : LQ) : ∀ (as : List Act) (s s' : CS), (lts P q0).run s as = some s' →
    ∀ t, s.has t → s'.has t
  | [], s, s', h, t, ht => by simp [LTS.run] at h; subst h; exact ht
  | a :: as, s, s', h, t, ht => by
    simp only [LTS.run] at h
    split at h
    · cases h
    · rename_i s1 hs1
      exact run_has P q0 as s1 s' h t (step_has P s s1 a hs1 t ht)

theorem run_closed (P : Par) (q0 : LQ) : ∀ (as : List Act) (s s' : CS), (lts P q0).run s as = some s' →
    s.q.closed = true → s'.q.closed = true
  | [], s, s', h, hc => by simp [LTS.run] at h; subst h; exact hc
  | a :: as, s, s', h, hc => by
    simp only [LTS.run] at h
    split at h
    · cases h
    · rename_i s1 hs1
      exact run_closed P q0 as s1 s' h (step_closed P s s1 a hs1 hc)

/-! ### PriQueue: the token invariant -/

/-- a non-empty queue has a token in the channel, or somebody on the way to put one there, or a consumer
    that took one and has not popped yet -/
def PInv (s : PS) : Prop :=
  s.q.entries ≠ [] → (s.token = true ∨ 0 < s.pushGap ∨ 0 < s.popGap ∨ 0 < s.holders)

theorem pinv_init (cap : Int) : PInv (PS.init cap) := by simp [PInv, PS.init, PQ.new]

theorem pqPop_none (sh : PriShape) (q : PQ) (h : (pqPop sh q).2 = none) : (pqPop sh q).1.entries = [] := by
  unfold pqPop at h ⊢
  cases he : q.entries with
  | nil => simp [he]
  | cons e r => simp [he] at h

theorem pinv_step (sh : PriShape) (pc : PriCfg) (hp : ProvedPri pc) (s s' : PS) (a : PAct) (hI : PInv s)
    (h : pstepC sh pc s a = some s') : PInv s' := by
  obtain ⟨hpush, hpop⟩ := hp
  cases a with
  | pushLock x p =>
    simp only [pstepC] at h
    split at h
    · cases h
      intro _
      simp only [hpush, if_true]
      right; left; omega
    · rename_i hno
      cases h
      have : (pqPush sh s.q x p).1 = s.q := by
        unfold pqPush at hno ⊢
        split
        · rfl
        · rename_i hf; simp [hf] at hno
      intro hne
      simp only at hne ⊢
      rw [this] at hne
      exact hI hne
  | pushSignal =>
    simp only [pstepC] at h
    split at h
    · cases h; intro _; left; rfl
    · cases h
  | popLock hd =>
    simp only [pstepC] at h
    split at h
    · cases h
    · cases hr : (pqPop sh s.q).2 with
      | none =>
        simp only [hr] at h
        cases h
        intro hne
        simp only at hne
        exact absurd (pqPop_none sh s.q hr) hne
      | some m =>
        simp only [hr] at h
        cases h
        intro hne
        simp only at hne ⊢
        have : (pqPop sh s.q).1.entries.isEmpty = false := by
          cases he : (pqPop sh s.q).1.entries with
          | nil => exact absurd he hne
          | cons _ _ => rfl
        simp only [hpop, this, Bool.not_false, Bool.and_self, if_true]
        right; right; left; omega
  | popSignal =>
    simp only [pstepC] at h
    split at h
    · cases h; intro _; left; rfl
    · cases h
  | recv =>
    simp only [pstepC] at h
    split at h
    · cases h; intro _; right; right; right; simp only; omega
    · cases h

end Nv.C13
