import Nv.Model.C11
import Nv.Spec.C11
/-! C11 — storage invariant of the implementation model and what the growth paths preserve. -/
namespace Nv.C11

/-- storage invariant: `off ≤ len ≤ cap ≤ allocLimit`, a nil slice has capacity 0 -/
structure Inv (s : St) : Prop where
  off_le : s.off ≤ s.buf.length
  len_le : s.buf.length ≤ s.cap
  cap_le : s.cap ≤ allocLimit
  nil_cap : s.isNil = true → s.cap = 0

theorem inv_zero : Inv St.zero := ⟨by simp [St.zero], by simp [St.zero], by simp [St.zero], by simp [St.zero]⟩

theorem inv_reset {s : St} (h : Inv s) : Inv (reset s) :=
  ⟨by simp [reset], by simp [reset], h.cap_le, h.nil_cap⟩

@[simp] theorem zeros_length (n : Nat) : (zeros n).length = n := by simp [zeros]

/-- what a successful growth step guarantees: the unread bytes sit in front of index `m`, `n` fresh bytes follow -/
structure Grown (s s' : St) (n m : Nat) : Prop where
  inv : Inv s'
  off_le : s'.off ≤ m
  len : s'.buf.length = m + n
  data : (s'.buf.take m).drop s'.off = s.buf.drop s.off
  last : s'.lastRead = s.lastRead ∨ s'.lastRead = 0

/-- a growth step that panicked (or not): unread bytes and invariant survive -/
structure Kept (s s' : St) : Prop where
  inv : Inv s'
  data : s'.buf.drop s'.off = s.buf.drop s.off
  last : s'.lastRead = s.lastRead ∨ s'.lastRead = 0

theorem reslice_grown {s s' : St} {n m : Nat} (h : Inv s) (hr : tryGrowByReslice s n = some (s', m)) :
    Grown s s' n m := by
  unfold tryGrowByReslice at hr
  split at hr
  · rename_i hle
    simp only [Option.some.injEq, Prod.mk.injEq] at hr
    obtain ⟨rfl, rfl⟩ := hr
    have := h.off_le; have := h.len_le
    exact ⟨⟨by simp; omega, by simp; omega, h.cap_le, h.nil_cap⟩, h.off_le, by simp, by simp, Or.inl rfl⟩
  · cases hr


theorem slideOk_le {c : Cfg} {n cp m : Nat} (h : slideOk c n cp m = true) : n + m ≤ cp := by
  unfold slideOk at h
  split at h <;> simp at h <;> omega

/-- `grow` after its reset-if-empty prologue -/
def growCore (c : Cfg) (s1 : St) (n : Nat) : St × Option Nat :=
  let m := s1.buf.length - s1.off
  match tryGrowByReslice s1 n with
  | some (s2, i) => (s2, some i)
  | none =>
    if s1.isNil ∧ n ≤ c.small then
      ({ s1 with buf := zeros n, cap := c.small, isNil := false }, some 0)
    else
      let cp := s1.cap
      if slideOk c n cp m then
        ({ s1 with buf := s1.buf.drop s1.off ++ zeros n, off := 0 }, some m)
      else if cp + cp + n > maxInt then (s1, none)
      else if 2 * cp + n > allocLimit then (s1, none)
      else ({ s1 with buf := s1.buf.drop s1.off ++ zeros n, off := 0, cap := 2 * cp + n, isNil := false }, some m)

def pre (s : St) : St := if s.buf.length - s.off = 0 ∧ s.off ≠ 0 then reset s else s

theorem grow_eq (c : Cfg) (s : St) (n : Nat) : grow c s n = growCore c (pre s) n := by
  unfold grow growCore pre
  by_cases hc : s.buf.length - s.off = 0 ∧ s.off ≠ 0
  · have e : (reset s).buf.length - (reset s).off = s.buf.length - s.off := by simp [reset, hc.1]
    simp only [if_pos hc, e]
    rfl
  · simp only [if_neg hc]
    rfl

theorem pre_kept {s : St} (h : Inv s) : Kept s (pre s) := by
  unfold pre
  split
  · rename_i hc
    have := h.off_le
    exact ⟨inv_reset h, by simp [reset]; omega, Or.inr (by simp [reset])⟩
  · exact ⟨h, rfl, Or.inl rfl⟩

theorem growCore_some {c : Cfg} (hs : c.small ≤ allocLimit) {s s' : St} {n m : Nat} (h : Inv s)
    (hg : growCore c s n = (s', some m)) : Grown s s' n m := by
  have h1 := h.off_le; have h2 := h.len_le; have h3 := h.cap_le
  unfold growCore at hg
  simp only at hg
  split at hg
  · rename_i s2 i hr
    simp only [Prod.mk.injEq, Option.some.injEq] at hg
    obtain ⟨rfl, rfl⟩ := hg
    exact reslice_grown h hr
  · split at hg
    · rename_i hnil
      simp only [Prod.mk.injEq, Option.some.injEq] at hg
      obtain ⟨rfl, rfl⟩ := hg
      have hc0 := h.nil_cap hnil.1
      have hl : s.buf.length = 0 := by omega
      have hb : s.buf = [] := List.eq_nil_of_length_eq_zero hl
      refine ⟨⟨by simp; omega, by simp; exact hnil.2, by simpa using hs, by simp⟩, by simp; omega, by simp, ?_, Or.inl rfl⟩
      simp [hb]
    · split at hg
      · rename_i hsl
        simp only [Prod.mk.injEq, Option.some.injEq] at hg
        obtain ⟨rfl, rfl⟩ := hg
        have hle := slideOk_le hsl
        refine ⟨⟨by simp, by simp; omega, h3, h.nil_cap⟩, by simp, by simp, ?_, Or.inl rfl⟩
        simp
      · split at hg
        · cases hg
        · split at hg
          · cases hg
          · rename_i hlim
            simp only [Prod.mk.injEq, Option.some.injEq] at hg
            obtain ⟨rfl, rfl⟩ := hg
            simp at hlim
            refine ⟨⟨by simp, by simp; omega, by simp; omega, by simp⟩, by simp, by simp, ?_, Or.inl rfl⟩
            simp

theorem growCore_none {c : Cfg} {s s' : St} {n : Nat} (hg : growCore c s n = (s', none)) : s' = s := by
  unfold growCore at hg
  simp only at hg
  split at hg
  · cases hg
  · split at hg
    · cases hg
    · split at hg
      · cases hg
      · split at hg
        · simp only [Prod.mk.injEq] at hg; exact hg.1.symm
        · split at hg
          · simp only [Prod.mk.injEq] at hg; exact hg.1.symm
          · cases hg

theorem grow_some {c : Cfg} (hs : c.small ≤ allocLimit) {s s' : St} {n m : Nat} (h : Inv s)
    (hg : grow c s n = (s', some m)) : Grown s s' n m := by
  rw [grow_eq] at hg
  have k := pre_kept h
  have g := growCore_some hs k.inv hg
  refine ⟨g.inv, g.off_le, g.len, g.data.trans k.data, ?_⟩
  rcases g.last with l | l
  · rcases k.last with l2 | l2
    · left; rw [l, l2]
    · right; rw [l, l2]
  · right; exact l

theorem grow_none {c : Cfg} {s s' : St} {n : Nat} (h : Inv s) (hg : grow c s n = (s', none)) : Kept s s' := by
  rw [grow_eq] at hg
  rw [growCore_none hg]
  exact pre_kept h

theorem growFor_some {c : Cfg} (hs : c.small ≤ allocLimit) {s s' : St} {n m : Nat} (h : Inv s)
    (hg : growFor c s n = (s', some m)) : Grown s s' n m := by
  unfold growFor at hg
  split at hg
  · rename_i s2 i hr
    simp only [Prod.mk.injEq, Option.some.injEq] at hg
    obtain ⟨rfl, rfl⟩ := hg
    exact reslice_grown h hr
  · exact grow_some hs h hg

theorem growFor_none {c : Cfg} {s s' : St} {n : Nat} (h : Inv s) (hg : growFor c s n = (s', none)) : Kept s s' := by
  unfold growFor at hg
  split at hg
  · cases hg
  · exact grow_none h hg

/-- a request beyond the allocation limit always ends in `ErrTooLarge` -/
theorem grow_tooLarge {c : Cfg} (hs : c.small ≤ allocLimit) {s : St} {n : Nat} (h : Inv s) (hn : n > allocLimit) :
    (grow c s n).2 = none := by
  rw [grow_eq]
  have k := (pre_kept h).inv
  have h2 := k.len_le; have h3 := k.cap_le
  unfold growCore tryGrowByReslice
  simp only
  have e1 : ¬ n ≤ (pre s).cap - (pre s).buf.length := by omega
  simp only [if_neg e1]
  have e2 : ¬ ((pre s).isNil = true ∧ n ≤ c.small) := by omega
  simp only [if_neg e2]
  split
  · rename_i hsl
    have := slideOk_le hsl
    omega
  · split
    · rfl
    · split
      · rfl
      · rename_i hl; omega

end Nv.C11
