import Nv.Proofs.C05Hist
import Nv.Proofs.C05Agree
/-! C05 — racing remove-after-get readers, as interleavings of atomic calls. -/
namespace Nv.C05

theorem interleaving_mem {progs : List (List Op)} {sched : List Op} (h : Interleaving progs sched) :
    ∀ op ∈ sched, ∃ p ∈ progs, op ∈ p := by
  induction h with
  | done _ => intro op hop; cases hop
  | @step progs op rest sched i hi hp _ ih =>
    intro o ho
    have hmem : progs[i] ∈ progs := List.getElem_mem hi
    rcases List.mem_cons.1 ho with e | e
    · subst e; exact ⟨progs[i], hmem, by rw [hp]; exact List.mem_cons_self⟩
    · obtain ⟨p, hp', hop⟩ := ih o e
      rcases List.mem_or_eq_of_mem_set hp' with h1 | h1
      · exact ⟨p, h1, hop⟩
      · subst h1; exact ⟨progs[i], hmem, by rw [hp]; exact List.mem_cons_of_mem _ hop⟩

/-! ### in memory -/

theorem msys_get_step (c : Cfg) (s : MSys) (k : Key) (o : GetOpt) :
    MSys.step c s (.get k o) = ({ s with mem := (s.mem.get (secOf s.clock) k o).1 }, (s.mem.get (secOf s.clock) k o).2) := rfl

theorem consume_sched_absent {c : Cfg} {k : Key} : ∀ (sched : List Op) (s : MSys), s.mem.lookup k = none →
    (∀ op ∈ sched, ∃ u, op = .get k ⟨true, u⟩) → outs (MSys.step c) s sched = List.replicate sched.length .notFound := by
  intro sched
  induction sched with
  | nil => intro _ _ _; rfl
  | cons op sched ih =>
    intro s hl hall
    obtain ⟨u, rfl⟩ := hall op (by simp)
    have hg : s.mem.get (secOf s.clock) k ⟨true, u⟩ = (s.mem, .notFound) := by simp [Mem.get, hl]
    rw [outs_cons, msys_get_step, hg]
    simp only [List.length_cons, List.replicate_succ]
    congr 1
    exact ih _ hl (fun o ho => hall o (by simp [ho]))

theorem consume_sched_live {c : Cfg} {k : Key} {n : Node} (s : MSys) (hl : s.mem.lookup k = some n)
    (he : expired (secOf s.clock) n.dl = false) (op : Op) (rest : List Op)
    (hall : ∀ o ∈ op :: rest, ∃ u, o = .get k ⟨true, u⟩) :
    outs (MSys.step c) s (op :: rest) = .value n.val :: List.replicate rest.length .notFound := by
  obtain ⟨u, rfl⟩ := hall op (by simp)
  have hg : s.mem.get (secOf s.clock) k ⟨true, u⟩ = (s.mem.removeKey k, .value n.val) := by simp [Mem.get, hl, he]
  rw [outs_cons, msys_get_step, hg]
  congr 1
  exact consume_sched_absent rest _ (lookup_removeKey_self _ _) (fun o ho => hall o (by simp [ho]))

/-! ### on redis (GETDEL) -/

theorem rds_consume_absent {c : Cfg} {nowMs : Int} {k : Key} : ∀ (sched : List Op) (r : Rds),
    rLive nowMs k r.store = none → (∀ op ∈ sched, op = .get k ⟨true, none⟩) →
    outs (fun r op => r.step c nowMs op) r sched = List.replicate sched.length .notFound := by
  intro sched
  induction sched with
  | nil => intro _ _ _; rfl
  | cons op sched ih =>
    intro r hl hall
    have := hall op (by simp); subst this
    have hg : r.step c nowMs (.get k ⟨true, none⟩) = ({ r with store := rErase k r.store }, .notFound) := by
      simp [Rds.step, Rds.get, rGetDel, hl]
    rw [outs_cons, hg]
    simp only [List.length_cons, List.replicate_succ]
    congr 1
    exact ih _ (by simp [rLive, rFind_erase_self]) (fun o ho => hall o (by simp [ho]))

theorem rds_consume_live {c : Cfg} {nowMs : Int} {k : Key} {e : REntry} (r : Rds) (hl : rLive nowMs k r.store = some e)
    (op : Op) (rest : List Op) (hall : ∀ o ∈ op :: rest, o = .get k ⟨true, none⟩) :
    outs (fun r op => r.step c nowMs op) r (op :: rest) = .value e.val :: List.replicate rest.length .notFound := by
  have := hall op (by simp); subst this
  have hg : r.step c nowMs (.get k ⟨true, none⟩) = ({ r with store := rErase k r.store }, .value e.val) := by
    simp [Rds.step, Rds.get, rGetDel, hl]
  rw [outs_cons, hg]
  congr 1
  exact rds_consume_absent rest _ (by simp [rLive, rFind_erase_self]) (fun o ho => hall o (by simp [ho]))

end Nv.C05
