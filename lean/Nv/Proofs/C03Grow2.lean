import Nv.Proofs.C03Grow
/-! C03 — `grow` (the rebalancing step of `growChildAndRemove`) as a whole. -/
namespace Nv.C03

/-- `j` is the index `remove` selects in `is` for `typ` -/
def LocIs (is : List Item) (typ : Rm) (j : Nat) : Prop :=
  match typ with
  | .item k => j ≤ is.length ∧ (∀ a ∈ is.take j, a.key < k) ∧ (∀ b ∈ is.drop j, k ≤ b.key)
  | .min => j = 0
  | .max => j = is.length

theorem locate_of_locIs (is : List Item) (typ : Rm) (j : Nat) (h : LocIs is typ j) : (locate is typ).1 = j := by
  cases typ with
  | item k => exact findIdx_eq is k j h.1 h.2.1 h.2.2
  | min => simp only [LocIs] at h; simp [locate, h]
  | max => simp only [LocIs] at h; simp [locate, h]

theorem locIs_locate (is : List Item) (typ : Rm) (hs : Sorted is) : LocIs is typ (locate is typ).1 := by
  cases typ with
  | item k => exact ⟨findIdx_le is k, findIdx_take_lt is k, findIdx_drop_ge is k hs⟩
  | min => simp [LocIs, locate]
  | max => simp [LocIs, locate]

theorem locate_le (is : List Item) (typ : Rm) : (locate is typ).1 ≤ is.length := by
  cases typ with
  | item k => exact findIdx_le is k
  | min => simp [locate]
  | max => simp [locate]

structure GrowPost (mn : Nat) (h : Nat) (is : List Item) (cs : List Node) (typ : Rm) (g : List Item × List Node) : Prop where
  inorder : interleave g.1 g.2 = interleave is cs
  kids : KidsOk mn (2 * mn + 1) (h + 1) (.mk g.1 g.2)
  lo : is.length ≤ g.1.length + 1
  hi : g.1.length ≤ is.length
  big : mn < (g.2.getD (locate g.1 typ).1 default).items.length

theorem getD_mem {α} (l : List α) (i : Nat) (d : α) (h : i < l.length) : l.getD i d ∈ l := by
  rw [getD_eq_getElem l i d h]; exact List.getElem_mem h

theorem take_setAt {α} (l : List α) (j : Nat) (a : α) (hj : j ≤ l.length) : (setAt l j a).take j = l.take j :=
  take_pre _ _ _ (length_take_le l j hj)
theorem take_succ_setAt {α} (l : List α) (j : Nat) (a : α) (hj : j ≤ l.length) :
    (setAt l j a).take (j + 1) = l.take j ++ [a] := take_pre1 _ _ _ _ (length_take_le l j hj)
theorem drop_setAt {α} (l : List α) (j : Nat) (a : α) (hj : j ≤ l.length) :
    (setAt l j a).drop j = a :: l.drop (j + 1) := drop_pre _ _ _ (length_take_le l j hj)
theorem drop_succ_setAt {α} (l : List α) (j : Nat) (a : α) (hj : j ≤ l.length) :
    (setAt l j a).drop (j + 1) = l.drop (j + 1) := drop_pre1 _ _ _ _ (length_take_le l j hj)
theorem take_removeAt {α} (l : List α) (j : Nat) (hj : j ≤ l.length) : (removeAt l j).take j = l.take j :=
  take_pre _ _ _ (length_take_le l j hj)
theorem drop_removeAt {α} (l : List α) (j : Nat) (hj : j ≤ l.length) : (removeAt l j).drop j = l.drop (j + 1) :=
  drop_pre _ _ _ (length_take_le l j hj)
theorem removeAt_length {α} (l : List α) (j : Nat) (hj : j < l.length) : (removeAt l j).length = l.length - 1 := by
  simp [removeAt]; omega

theorem mem_take_succ {α} (l : List α) (j : Nat) (d : α) (hj : j < l.length) : l.getD j d ∈ l.take (j + 1) := by
  have h1 : l.take (j + 1) = l.take j ++ [l[j]] := by
    rw [List.take_add_one]; simp [List.getElem?_eq_getElem hj]
  rw [getD_eq_getElem l j d hj, h1]; exact List.mem_append_right _ (List.mem_singleton.2 rfl)

theorem mem_drop_self {α} (l : List α) (j : Nat) (d : α) (hj : j < l.length) : l.getD j d ∈ l.drop j := by
  have h1 : l.drop j = l[j] :: l.drop (j + 1) := List.drop_eq_getElem_cons hj
  rw [getD_eq_getElem l j d hj, h1]; exact List.mem_cons_self

end Nv.C03
