import Nv.Proofs.C03Basic
/-!
C03 — lemmas about the sorted-set specification (`specInsert`, `specDelete`, `specFind`) on lists split
around the position of a key, and the general in-order decomposition of a node around one child.
-/
namespace Nv.C03

/-! ### decomposition around a child -/

/-- `i₀ c₁ i₁ c₂ …` : what follows a child in its parent's in-order list -/
def rightPart : List Item → List Node → List Item
  | [], _ => []
  | y :: rest, cs => y :: interleave rest cs

@[simp] theorem rightPart_nil (cs : List Node) : rightPart [] cs = [] := rfl
@[simp] theorem rightPart_cons (y : Item) (rest : List Item) (cs : List Node) :
    rightPart (y :: rest) cs = y :: interleave rest cs := rfl

theorem interleave_child_first (is : List Item) (c : Node) (cs : List Node) :
    interleave is (c :: cs) = c.inorder ++ rightPart is cs := by
  cases is <;> simp

/-- in-order list of a node whose item and child lists are given as prefix ++ rest -/
theorem interleave_decomp : ∀ (A : List Item) (Ac : List Node) (is : List Item) (c : Node) (cs : List Node),
    Ac.length = A.length →
    interleave (A ++ is) (Ac ++ c :: cs) = flatL A Ac ++ c.inorder ++ rightPart is cs
  | [], [], is, c, cs, _ => by simp [interleave_child_first]
  | [], _ :: _, _, _, _, h => by simp at h
  | _ :: _, [], _, _, _, h => by simp at h
  | a :: A, d :: Ac, is, c, cs, h => by
    simp [interleave_decomp A Ac is c cs (by simpa using h)]

theorem getD_eq_getElem {α} (l : List α) (i : Nat) (d : α) (h : i < l.length) : l.getD i d = l[i] := by
  simp [List.getD, h]

theorem list_split_at {α} (l : List α) (i : Nat) (d : α) (h : i < l.length) :
    l = l.take i ++ l.getD i d :: l.drop (i + 1) := by
  rw [getD_eq_getElem l i d h]
  conv => lhs; rw [← List.take_append_drop i l]
  rw [List.drop_eq_getElem_cons h]

/-- the node as left part, child `i`, right part -/
theorem interleave_at' (i : Nat) (is : List Item) (cs : List Node) (h : cs.length = is.length + 1) (hi : i ≤ is.length) :
    interleave is cs = flatL (is.take i) (cs.take i) ++ (cs.getD i default).inorder ++
      rightPart (is.drop i) (cs.drop (i + 1)) := by
  have h1 : is = is.take i ++ is.drop i := (List.take_append_drop i is).symm
  have h2 := list_split_at cs i default (by omega)
  conv => lhs; rw [h1, h2]
  exact interleave_decomp _ _ _ _ _ (by simp; omega)

theorem mem_rightPart_gt (s : Int) (is : List Item) (cs : List Node) (pre : List Item)
    (hs : Sorted (pre ++ rightPart is cs)) (hgt : ∀ x ∈ is, s < x.key) : ∀ x ∈ rightPart is cs, s < x.key := by
  cases is with
  | nil => simp
  | cons y rest =>
    simp only [rightPart_cons] at hs ⊢
    intro x hx
    have hy := hgt y (by simp)
    rcases List.mem_cons.1 hx with rfl | hx
    · exact hy
    · have := hs.append_right.head_lt hx; omega

/-! ### specInsert -/

theorem specInsert_right (x : Item) : ∀ (M R : List Item), (∀ b ∈ R, x.key < b.key) →
    specInsert (M ++ R) x = specInsert M x ++ R
  | [], [], _ => by simp [specInsert]
  | [], b :: R, h => by simp [specInsert, h b (by simp)]
  | m :: M, R, h => by
    simp only [List.cons_append, specInsert]
    split
    · rfl
    · split
      · rfl
      · simp [specInsert_right x M R h]

theorem specInsert_left (x : Item) : ∀ (L M : List Item), (∀ a ∈ L, a.key < x.key) →
    specInsert (L ++ M) x = L ++ specInsert M x
  | [], _, _ => by simp
  | a :: L, M, h => by
    have ha := h a (by simp)
    have h1 : ¬ x.key < a.key := by omega
    have h2 : ¬ x.key = a.key := by omega
    simp [specInsert, h1, h2, specInsert_left x L M (fun b hb => h b (by simp [hb]))]

theorem specInsert_mid (x : Item) (L M R : List Item) (hl : ∀ a ∈ L, a.key < x.key) (hr : ∀ b ∈ R, x.key < b.key) :
    specInsert (L ++ M ++ R) x = L ++ specInsert M x ++ R := by
  rw [List.append_assoc, specInsert_left x L _ hl, specInsert_right x M R hr, List.append_assoc]

theorem specInsert_nil (x : Item) : specInsert [] x = [x] := rfl

/-- replacing the item that has the key -/
theorem specInsert_at (x y : Item) (L R : List Item) (hl : ∀ a ∈ L, a.key < x.key) (hy : y.key = x.key) :
    specInsert (L ++ y :: R) x = L ++ x :: R := by
  rw [specInsert_left x L _ hl]
  have h1 : ¬ x.key < y.key := by omega
  simp [specInsert, h1, hy]

/-- inserting a new key between two parts -/
theorem specInsert_between (x : Item) (L R : List Item) (hl : ∀ a ∈ L, a.key < x.key) (hr : ∀ b ∈ R, x.key < b.key) :
    specInsert (L ++ R) x = L ++ x :: R := by
  have := specInsert_mid x L [] R hl hr
  simpa [specInsert_nil] using this

/-! ### specFind -/

theorem specFind_none (k : Int) (l : List Item) (h : ∀ a ∈ l, a.key ≠ k) : specFind l k = none := by
  simp only [specFind, List.find?_eq_none]
  intro a ha; simpa using h a ha

theorem specFind_append (k : Int) (L M : List Item) (hl : ∀ a ∈ L, a.key ≠ k) :
    specFind (L ++ M) k = specFind M k := by
  simp only [specFind, List.find?_append]
  have := specFind_none k L hl
  simp only [specFind] at this
  simp [this]

theorem specFind_mid (k : Int) (L M R : List Item) (hl : ∀ a ∈ L, a.key ≠ k) (hr : ∀ b ∈ R, b.key ≠ k) :
    specFind (L ++ M ++ R) k = specFind M k := by
  rw [List.append_assoc, specFind_append k L _ hl]
  simp only [specFind, List.find?_append]
  have := specFind_none k R hr
  simp only [specFind] at this
  simp [this]

theorem specFind_at (k : Int) (y : Item) (L R : List Item) (hl : ∀ a ∈ L, a.key ≠ k) (hy : y.key = k) :
    specFind (L ++ y :: R) k = some y := by
  rw [specFind_append k L _ hl]; simp [specFind, hy]

/-! ### sortedness and length of specInsert -/

theorem specInsert_mem (x : Item) : ∀ (l : List Item) (y : Item), y ∈ specInsert l x → y = x ∨ y ∈ l
  | [], y, h => by simp [specInsert] at h; exact Or.inl h
  | a :: l, y, h => by
    simp only [specInsert] at h
    split at h
    · rcases List.mem_cons.1 h with h | h
      · exact Or.inl h
      · exact Or.inr h
    · split at h
      · rcases List.mem_cons.1 h with h | h
        · exact Or.inl h
        · exact Or.inr (by simp [h])
      · rcases List.mem_cons.1 h with h | h
        · exact Or.inr (by simp [h])
        · rcases specInsert_mem x l y h with h | h
          · exact Or.inl h
          · exact Or.inr (by simp [h])

theorem specInsert_sorted (x : Item) : ∀ (l : List Item), Sorted l → Sorted (specInsert l x)
  | [], _ => by simp [specInsert, Sorted]
  | a :: l, h => by
    simp only [specInsert]
    split
    · rename_i h1
      refine List.pairwise_cons.2 ⟨?_, h⟩
      intro y hy
      rcases List.mem_cons.1 hy with rfl | hy
      · exact h1
      · have := h.head_lt hy; omega
    · split
      · rename_i h1 h2
        refine List.pairwise_cons.2 ⟨?_, h.tail⟩
        intro y hy
        have := h.head_lt hy; omega
      · rename_i h1 h2
        refine List.pairwise_cons.2 ⟨?_, specInsert_sorted x l h.tail⟩
        intro y hy
        rcases specInsert_mem x l y hy with rfl | hy
        · omega
        · exact h.head_lt hy

theorem specInsert_length (x : Item) : ∀ (l : List Item), Sorted l →
    (specInsert l x).length = if (specFind l x.key).isNone then l.length + 1 else l.length
  | [], _ => by simp [specInsert, specFind]
  | a :: l, hs => by
    simp only [specInsert]
    split
    · rename_i h1
      have : specFind (a :: l) x.key = none := by
        apply specFind_none
        intro b hb
        rcases List.mem_cons.1 hb with rfl | hb
        · omega
        · have := hs.head_lt hb; omega
      simp [this]
    · split
      · rename_i h1 h2
        have : specFind (a :: l) x.key = some a := by simp [specFind, h2]
        simp [this]
      · rename_i h1 h2
        have : specFind (a :: l) x.key = specFind l x.key := by
          have hne : ¬ a.key = x.key := fun h => h2 h.symm
          simp [specFind, List.find?_cons, hne]
        rw [this, List.length_cons, specInsert_length x l hs.tail]
        split <;> simp

end Nv.C03
