import Nv.Proofs.C02Inv
/-!
C02 — invariant preservation for the registration loop, the unlock loop and call/return.
-/
namespace Nv.C02

theorem bump_fields (m : Mode) (t : Tid) (w : Wrap) :
    (bump m t w).writer = w.writer ∧ (bump m t w).wOwner = w.wOwner ∧ (bump m t w).readers = w.readers ∧
    (bump m t w).tokens = w.tokens := by cases m <;> simp [bump]

theorem mem_refs_reg {th : Thread} {m all gs acc} (h : th.phase = .reg m all gs acc) (e : Key × ObjId × Mode) :
    e ∈ refs th ↔ e ∈ th.held ∨ ∃ p ∈ acc, e = (p.1, p.2, m) := by
  simp only [refs, h, pend, List.mem_append, List.mem_map]
  constructor
  · rintro (h | ⟨p, hp, rfl⟩)
    · exact .inl h
    · exact .inr ⟨p, hp, rfl⟩
  · rintro (h | ⟨p, hp, rfl⟩)
    · exact .inl h
    · exact .inr ⟨p, hp, rfl⟩

/-- one iteration of the registration loop: `k ↦ o` is in the table afterwards and `t` is counted on `o` -/
theorem inv_addRef {s : State} (hI : Inv s) (t : Tid) (m : Mode) (all : List Key) (k : Key) (ks : List Key)
    (gs : List (List Key)) (acc : List (Key × ObjId))
    (hph : (s.th t).phase = .reg m all ((k :: ks) :: gs) acc)
    (o next' : ObjId) (table' : Key → Option ObjId)
    (hnext : s.next ≤ next') (ho : o < next')
    (htab : ∀ k', table' k' = if k' = k then some o else s.table k')
    (hinj : ∀ k', s.table k' = some o → k' = k)
    (hk : ∀ o', s.table k = some o' → o' = o)
    (s' : State) (q1 : s'.objs = upd s.objs o (bump m t (s.objs o))) (q2 : s'.next = next') (q3 : s'.table = table')
    (q4 : s'.th = upd s.th t ⟨.reg m all (ks :: gs) (acc ++ [(k, o)]), (s.th t).held⟩) (q5 : s'.fault = s.fault) :
    Inv s' := by
  have hrefsT : ∀ e, e ∈ refs (⟨.reg m all (ks :: gs) (acc ++ [(k, o)]), (s.th t).held⟩ : Thread) ↔
      e ∈ refs (s.th t) ∨ e = (k, o, m) := by
    intro e
    rw [mem_refs_reg hph, mem_refs_reg (th := ⟨.reg m all (ks :: gs) (acc ++ [(k, o)]), (s.th t).held⟩) rfl]
    simp only [List.mem_append, List.mem_singleton]
    constructor
    · rintro (h | ⟨p, (hp | rfl), rfl⟩)
      · exact .inl (.inl h)
      · exact .inl (.inr ⟨p, hp, rfl⟩)
      · exact .inr rfl
    · rintro ((h | ⟨p, hp, rfl⟩) | rfl)
      · exact .inl h
      · exact .inr ⟨p, .inl hp, rfl⟩
      · exact .inr ⟨(k, o), .inr rfl, rfl⟩
  have hrefo : ∀ u k' m', (k', o, m') ∈ refs (s.th u) → k' = k := fun u k' m' h => hinj k' (hI.refTab u k' o m' h)
  have hrefk : ∀ u o' m', (k, o', m') ∈ refs (s.th u) → o' = o := fun u o' m' h => hk o' (hI.refTab u k o' m' h)
  have hknew : ∀ o' m', (k, o', m') ∉ refs (s.th t) := by
    intro o' m' hm
    have := hI.keysNd t
    simp only [allKeys, hph, future, List.flatten_cons, List.cons_append] at this
    rw [List.nodup_append] at this
    exact this.2.2 k (List.mem_map.2 ⟨(k, o', m'), hm, rfl⟩) k (by simp) rfl
  constructor
  · intro o' h
    rw [q2] at h
    have hne : o' ≠ o := fun e => by subst e; exact absurd h (Nat.not_le.2 ho)
    rw [q1, upd_other _ _ _ _ hne]; exact hI.fresh o' (Nat.le_trans hnext h)
  · intro k' o' h
    rw [q3, htab] at h; rw [q2]; split at h
    · cases h; exact ho
    · exact Nat.lt_of_lt_of_le (hI.tRange k' o' h) hnext
  · intro k1 k2 o' h1 h2
    rw [q3, htab] at h1 h2
    split at h1 <;> split at h2
    · next e1 e2 => rw [e1, e2]
    · next e1 e2 => cases h1; exact absurd (hinj k2 h2) e2
    · next e1 e2 => cases h2; exact absurd (hinj k1 h1) e1
    · exact hI.tInj k1 k2 o' h1 h2
  · intro u k' o' m' h
    rw [q4, upd_apply] at h; rw [q3, htab]
    split at h
    · rcases (hrefsT _).1 h with h' | h'
      · split
        · next e => subst e; rw [hrefk t o' m' h']
        · exact hI.refTab t k' o' m' h'
      · cases h'; simp
    · split
      · next e => subst e; rw [hrefk u o' m' h]
      · exact hI.refTab u k' o' m' h
  · intro u o'
    rw [q1, q4, upd_apply, upd_apply]
    have hold := hI.regW u o'
    by_cases e1 : o' = o <;> by_cases e2 : u = t <;> simp only [e1, e2, if_true, if_false]
    · subst e1; subst e2
      simp only [hrefsT]
      cases m <;> simp [bump, hold]
    · subst e1
      have : u ∈ (bump m t (s.objs o')).regW ↔ u ∈ (s.objs o').regW := by cases m <;> simp [bump, e2]
      rw [this]; exact hold
    · subst e2
      simp only [hrefsT]
      rw [hold]
      constructor
      · rintro ⟨k', h⟩; exact ⟨k', .inl h⟩
      · rintro ⟨k', h | h⟩
        · exact ⟨k', h⟩
        · cases h; exact absurd rfl e1
    · exact hold
  · intro u o'
    rw [q1, q4, upd_apply, upd_apply]
    have hold := hI.regR u o'
    by_cases e1 : o' = o <;> by_cases e2 : u = t <;> simp only [e1, e2, if_true, if_false]
    · subst e1; subst e2
      simp only [hrefsT]
      cases m <;> simp [bump, hold]
    · subst e1
      have : u ∈ (bump m t (s.objs o')).regR ↔ u ∈ (s.objs o').regR := by cases m <;> simp [bump, e2]
      rw [this]; exact hold
    · subst e2
      simp only [hrefsT]
      rw [hold]
      constructor
      · rintro ⟨k', h⟩; exact ⟨k', .inl h⟩
      · rintro ⟨k', h | h⟩
        · exact ⟨k', h⟩
        · cases h; exact absurd rfl e1
    · exact hold
  · intro o'
    rw [q1, upd_apply]; split
    · next e =>
      subst e
      cases m
      · simpa [bump] using hI.ndW o'
      · simp only [bump, List.nodup_cons]
        refine ⟨?_, hI.ndW o'⟩
        intro hm
        obtain ⟨k', hk'⟩ := (hI.regW t o').1 hm
        have := hrefo t k' .w hk'
        subst this
        exact hknew _ _ hk'
    · exact hI.ndW o'
  · intro o'
    rw [q1, upd_apply]; split
    · next e =>
      subst e
      cases m
      · simp only [bump, List.nodup_cons]
        refine ⟨?_, hI.ndR o'⟩
        intro hm
        obtain ⟨k', hk'⟩ := (hI.regR t o').1 hm
        have := hrefo t k' .r hk'
        subst this
        exact hknew _ _ hk'
      · simpa [bump] using hI.ndR o'
    · exact hI.ndR o'
  · intro o'
    rw [q1, upd_apply]; split
    · next e => subst e; have := hI.cntW o'; cases m <;> simp [bump, this]
    · exact hI.cntW o'
  · intro o'
    rw [q1, upd_apply]; split
    · next e => subst e; have := hI.cntR o'; cases m <;> simp [bump, this]
    · exact hI.cntR o'
  · intro u o'
    rw [q1, q4]
    have hold := hI.holdW u o'
    have h1 : (upd s.objs o (bump m t (s.objs o)) o').writer = (s.objs o').writer := by
      rw [upd_apply]; split
      · next e => subst e; exact (bump_fields m t _).1
      · rfl
    have h2 : (upd s.th t ⟨.reg m all (ks :: gs) (acc ++ [(k, o)]), (s.th t).held⟩ u).held = (s.th u).held := by
      rw [upd_apply]; split
      · next e => subst e; rfl
      · rfl
    rw [h1, h2]; exact hold
  · intro u o'
    rw [q1, q4]
    have hold := hI.holdR u o'
    have h1 : (upd s.objs o (bump m t (s.objs o)) o').readers = (s.objs o').readers := by
      rw [upd_apply]; split
      · next e => subst e; exact (bump_fields m t _).2.2.1
      · rfl
    have h2 : (upd s.th t ⟨.reg m all (ks :: gs) (acc ++ [(k, o)]), (s.th t).held⟩ u).held = (s.th u).held := by
      rw [upd_apply]; split
      · next e => subst e; rfl
      · rfl
    rw [h1, h2]; exact hold
  · intro o'
    rw [q1, upd_apply]; split
    · next e => subst e; rw [(bump_fields m t _).2.2.1]; exact hI.rdNd o'
    · exact hI.rdNd o'
  · intro u
    rw [q4, upd_apply]; split
    · have := hI.keysNd t
      simp only [allKeys, refs, hph, pend, future, List.map_append, List.map_cons, List.map_map, List.map_nil,
        List.flatten_cons, List.append_assoc, List.cons_append, List.nil_append] at this ⊢
      exact this
    · exact hI.keysNd u
  · intro u m' gs'
    rw [q4, upd_apply]; split
    · intro h; cases h
    · exact hI.relOk u m' gs'
  · intro u m' all' todo
    rw [q4, upd_apply]; split
    · intro h; cases h
    · exact hI.acqAll u m' all' todo
  · intro u m' all' gs' acc'
    rw [q4, upd_apply]; split
    · intro h k' hk'
      cases h
      rcases hI.regAll t m all _ acc hph k' hk' with h | h
      · simp only [List.flatten_cons, List.cons_append, List.mem_cons, List.mem_append] at h
        rcases h with rfl | h | h
        · right; simp
        · left; simp [h]
        · left; simp [h]
      · right; simp only [List.map_append, List.mem_append]; exact .inl h
    · exact hI.regAll u m' all' gs' acc'
  · intro o' u
    rw [q1, upd_apply]; split
    · next e =>
      subst e
      obtain ⟨a, b, c, d⟩ := bump_fields m t (s.objs o')
      rw [a, b, c, d]; exact hI.wOk o' u
    · exact hI.wOk o' u
  · rw [q5]; exact hI.noFault
  · intro k' o' h
    rw [q3, htab] at h; rw [q1, upd_apply]
    split
    · next e => subst e; cases m <;> simp [bump]
    · next e =>
      split at h
      · cases h; exact absurd rfl e
      · exact hI.tabLive k' o' h


theorem inv_stepReg {c : Cfg} (hc : Proved c) {s s' : State} (hI : Inv s) (t : Tid)
    (h : stepReg c s t = some s') : Inv s' := by
  have hcnt : c.countAt ≠ .afterBlock := by rw [hc.2.1]; decide
  unfold stepReg at h
  split at h
  · next m all acc hph =>
    cases h
    apply inv_setTh hI t
    · rfl
    · intro e; simp [refs, pend, hph]
    · have := hI.keysNd t
      simpa [allKeys, refs, pend, future, hph] using this
    · intro m gs h; cases h
    · intro m' all' todo h k hk
      cases h
      rcases hI.regAll t m all [] acc hph k hk with h | h
      · simp at h
      · exact .inl h
    · intro m all gs acc h; cases h
  · next m all gs acc hph =>
    cases h
    apply inv_setTh hI t
    · rfl
    · intro e; simp [refs, pend, hph]
    · have := hI.keysNd t
      simpa [allKeys, refs, pend, future, hph] using this
    · intro m gs h; cases h
    · intro m all todo h; cases h
    · intro m' all' gs' acc' h k hk
      cases h
      simpa using hI.regAll t m all ([] :: gs) acc hph k hk
  · next m all k ks gs acc hph =>
    cases h
    cases htk : s.table k with
    | some o =>
      apply inv_addRef hI t m all k ks gs acc hph o s.next s.table (Nat.le_refl _) (hI.tRange k o htk)
      · intro k'; split
        · next e => rw [e, htk]
        · rfl
      · intro k' hk'; exact hI.tInj k' k o hk' htk
      · intro o' ho'; rw [htk] at ho'; cases ho'; rfl
      · simp [regKey, htk, hcnt, setObj, setTh]
      · simp [regKey, htk, hcnt, setObj, setTh]
      · simp [regKey, htk, hcnt, setObj, setTh]
      · simp [regKey, htk, hcnt, setObj, setTh]
      · simp [regKey, htk, hcnt, setObj, setTh]
    | none =>
      apply inv_addRef hI t m all k ks gs acc hph s.next (s.next + 1) (upd s.table k (some s.next))
        (Nat.le_succ _) (Nat.lt_succ_self _)
      · intro k'; rfl
      · intro k' hk'; exact absurd (hI.tRange k' _ hk') (Nat.lt_irrefl _)
      · intro o' ho'; rw [htk] at ho'; cases ho'
      · simp only [regKey, htk, hcnt, setObj, setTh, if_false]
        funext o'
        simp only [upd_apply]
        split
        · rw [hI.fresh s.next (Nat.le_refl _)]; simp
        · rfl
      · simp [regKey, htk, hcnt, setObj, setTh]
      · simp [regKey, htk, hcnt, setObj, setTh]
      · simp [regKey, htk, hcnt, setObj, setTh]
      · simp [regKey, htk, hcnt, setObj, setTh]
  · cases h

end Nv.C02
