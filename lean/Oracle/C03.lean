import Nv.OracleIO
import Nv.Model.C03
import Nv.Model.C03Cow
import Nv.Gen.C03
/-!
oracle_c03 — line protocol (items are printed `key:val`, lists `[a,b]`, absent `nil`).

First line of a script: `new <degree>` (direct `btree.BTree`, handle 0; degree 2…256), `newi <degree>` (the same with
`btree.Int` items: keys only, every value is written 0) or `neww` (wrapper `tree.BTree`).
`fill h a b` / `wfill a b`: bulk insert of a, a±1, …, b (≤ 4096 keys, value `k mod 997`, 0 for Int items) → new length.

direct:  `ins h k v` `del h k` `delmin h` `delmax h` `get h k` `min h` `max h`  → item | nil
         `has h k` → true|false      `len h` → n      `clone h` → h<new handle>     `clear h 0|1` → ok
         `chk h` → ok | bad          (structural invariant)
         `owned h` → owned=<n> total=<m>   (T: nodes reachable from the root carrying the tree's cow tag — layer B)
         `cons h` → ok | layers-differ      (T: layer B read back equals layer A)
         `free h` → free=<n>                (T: length of the shared free list — layer B)
         `parbegin` … `parend` → ok         the lines in between (ins del delmin delmax get has min max len scan) are run by
                                            one goroutine per handle, concurrently; handles are isolated, so every line's
                                            result is what the sequential reading of the script gives
         `scan h <name> <p|-> <p2|-> <cont>`  name ∈ asc ascge ascgt asclt ascrange desc descle desclt descgt descrange
                                              cont ∈ all none lt:K gt:K ne:K      → items handed to the callback
wrapper: `wins k v` → ok   `wupd old k v` `wups old k v` `wdel k` → true|false   `wget k` → item | nil
         `wscan <gte|gt|lte|lt> p <filter> n` filter ∈ all none mod3 odd lt:K gt:K → list | panic | fault | {list|fault}
             (n: any int64; at most one n in (2^24, 2^42] per script — a second one is `bad-op` — so that a harness
             process never holds two such allocations)
         `wlen` → n   `wchk` → ok | bad   `wconc lo hi` → ok   (concurrent inserts of lo..hi, val 0, with readers)
         `wrace <pos> <A> / <B>`  A, B ∈ `upd old k v` `ups old k v` `del k` `ins k v` `get k`: call A is parked inside
             its `pos`-th key comparison, B is started, A is released. Every method of the wrapper is one critical
             section, so the results and the contents must be those of A;B or of B;A:
             → `{a=<r> b=<r> items=[…]|a=<r> b=<r> items=[…]}` (the state continues as after A;B — a parked A holds the lock)
The configuration is the one regenerated from the source (`Nv.Gen.C03.cfg`).
-/
open Nv Nv.C03

structure St where
  wrapper : Bool
  trees : List Tree
  par : Bool := false
  intMode : Bool := false   -- `newi`: items are `btree.Int` (a key only; the value must be written 0)
  bigUsed : Bool := false   -- a limit in (2^24, 2^42] was already used in this script (see `wscan`)
  heap : Cow.Heap := Cow.Heap.init 32
  htrees : List Cow.HTree := []
  nextCow : Nat := 1

def cfg : Cfg := Nv.Gen.C03.cfg

/-- strict integers: optional `-`, 1 to 19 digits, within the range of Go's `int` (int64) -/
def pInt (s : String) : Option Int :=
  let cs := s.toList
  let ds := match cs with
    | '-' :: rest => rest
    | _ => cs
  if ds.isEmpty || ds.length > 19 || !ds.all Char.isDigit then none
  else
    let n : Nat := ds.foldl (fun a c => a * 10 + (c.toNat - '0'.toNat)) 0
    let v : Int := match cs with
      | '-' :: _ => -(n : Int)
      | _ => (n : Int)
    if v < -9223372036854775808 || v > 9223372036854775807 then none else some v

def pNat (s : String) : Option Nat :=
  match pInt s with
  | some i => if i < 0 then none else some i.toNat
  | none => none

def pOptInt (s : String) : Option (Option Int) :=
  if s == "-" then some none else (pInt s).map some

def showItem (i : Item) : String := s!"{i.key}:{i.val}"
def showOpt : Option Item → String
  | none => "nil"
  | some i => showItem i
def showItems (l : List Item) : String := showList showItem l
def showBool (b : Bool) : String := if b then "true" else "false"

/-- `lt:K` continue/accept while key < K, `gt:K` while key > K, `ne:K` while key ≠ K -/
def pPred (s : String) : Option (Item → Bool) :=
  if s == "all" then some (fun _ => true)
  else if s == "none" then some (fun _ => false)
  else if s == "mod3" then some (fun i => i.key % 3 != 0)
  else if s == "odd" then some (fun i => i.key % 2 != 0)
  else if s.startsWith "lt:" then (pInt (s.drop 3).toString).map (fun k => fun i => decide (i.key < k))
  else if s.startsWith "gt:" then (pInt (s.drop 3).toString).map (fun k => fun i => decide (i.key > k))
  else if s.startsWith "ne:" then (pInt (s.drop 3).toString).map (fun k => fun i => decide (i.key ≠ k))
  else none

/-- scan name → argument tuple, and which pivots it needs -/
def scanArgs (name : String) : Option (ScanArgs × Bool × Bool) :=
  if name == "asc" then some (argsAscend, false, false)
  else if name == "ascge" then some (cfg.ascGe, true, false)
  else if name == "ascgt" then some (cfg.ascGt, true, false)
  else if name == "asclt" then some (argsAscendLessThan, true, false)
  else if name == "ascrange" then some (argsAscendRange, true, true)
  else if name == "desc" then some (argsDescend, false, false)
  else if name == "descle" then some (cfg.descLe, true, false)
  else if name == "desclt" then some (cfg.descLt, true, false)
  else if name == "descgt" then some (argsDescendGreaterThan, true, false)
  else if name == "descrange" then some (argsDescendRange, true, true)
  else none

def withTree (s : St) (h : String) (f : Nat → Tree → St × String) : St × String :=
  if s.wrapper || s.trees.isEmpty then (s, "bad-op") else
  match pNat h with
  | some i => match s.trees[i]? with
    | some t => f i t
    | none => (s, "bad-op")
  | none => (s, "bad-op")

def setTree (s : St) (i : Nat) (t : Tree) : St := { s with trees := s.trees.set i t }

/-- run a layer-B write on handle `i` -/
def runB (s : St) (i : Nat) (f : Cow.HTree → Cow.M (Cow.HTree × Option Item)) : St :=
  match s.htrees[i]? with
  | some ht =>
    let r := f ht s.heap
    { s with heap := r.2, htrees := s.htrees.set i r.1.1 }
  | none => s

def withW (s : St) (f : Tree → St × String) : St × String :=
  if !s.wrapper then (s, "bad-op") else
  match s.trees with
  | [t] => f t
  | _ => (s, "bad-op")

/-- one call of the wrapper, as a script token list -/
inductive WrOp
  | upd (old : Int) (x : Item) | ups (old : Int) (x : Item) | del (k : Int) | ins (x : Item) | get (k : Int)

def pWrOp : List String → Option WrOp
  | ["upd", old, k, v] => match pInt old, pInt k, pNat v with
    | some old, some k, some v => some (.upd old ⟨k, v⟩)
    | _, _, _ => none
  | ["ups", old, k, v] => match pInt old, pInt k, pNat v with
    | some old, some k, some v => some (.ups old ⟨k, v⟩)
    | _, _, _ => none
  | ["del", k] => (pInt k).map .del
  | ["ins", k, v] => match pInt k, pNat v with
    | some k, some v => some (.ins ⟨k, v⟩)
    | _, _ => none
  | ["get", k] => (pInt k).map .get
  | _ => none

def applyWr (t : Tree) : WrOp → Tree × String
  | .upd old x => let r := wUpdate t old x; (r.1, showBool r.2)
  | .ups old x => let r := wUpdateOrInsert t old x; (r.1, showBool r.2)
  | .del k => let r := wDelete t k; (r.1, showBool r.2)
  | .ins x => (wInsert t x, "ok")
  | .get k => (t, showOpt (wGet t k))

/-- the value `fill`/`wfill` store with key `k` (0 for `btree.Int` items) -/
def fillVal (intMode : Bool) (k : Int) : Nat := if intMode then 0 else (k % 997).toNat

def showWalk : WalkOut → String
  | .items l => showItems l
  | .panic => "panic"
  | .fault => "fault"
  | .itemsOrFault l => "{" ++ showItems l ++ "|fault}"

/-- operations a handle may run inside a `parbegin … parend` block (each handle in its own goroutine) -/
def parOk (op : String) : Bool :=
  ["ins", "del", "delmin", "delmax", "get", "has", "min", "max", "len", "scan"].contains op

def step1 (s : St) (line : String) : St × String :=
  match words line with
  | ["new", d] =>
    match pNat d with
    | some d => if d < 2 || d > 256 then (s, "bad-op") else
        ({ wrapper := false, trees := [Tree.new d], heap := Cow.Heap.init 32, htrees := [⟨d, none, 0, 0⟩], nextCow := 1 }, "ok")
    | none => (s, "bad-op")
  | ["newi", d] =>
    match pNat d with
    | some d => if d < 2 || d > 256 then (s, "bad-op") else
        ({ wrapper := false, intMode := true, trees := [Tree.new d], heap := Cow.Heap.init 32, htrees := [⟨d, none, 0, 0⟩],
           nextCow := 1 }, "ok")
    | none => (s, "bad-op")
  | ["neww"] => ({ wrapper := true, trees := [wNew cfg] }, "ok")
  | ["ins", h, k, v] => withTree s h fun i t =>
    match pInt k, pNat v with
    | some k, some v =>
      if s.intMode && v != 0 then (s, "bad-op") else
      let r := t.replaceOrInsert ⟨k, v⟩
      (runB (setTree s i r.1) i (fun ht => Cow.replaceOrInsertB ht ⟨k, v⟩), showOpt r.2)
    | _, _ => (s, "bad-op")
  | ["fill", h, a, b] => withTree s h fun i t =>
    -- bulk insert of the keys a, a±1, …, b in that order (at most 4096), value `fillVal k`; answers the new length
    match pInt a, pInt b with
    | some a, some b =>
      let n := (if a ≤ b then b - a else a - b).toNat
      if n > 4095 then (s, "bad-op") else
      let keys := (List.range (n + 1)).map (fun (j : Nat) => if a ≤ b then a + Int.ofNat j else a - Int.ofNat j)
      let s' := keys.foldl (fun (st : St × Tree) k =>
          let x : Item := ⟨k, fillVal s.intMode k⟩
          let r := st.2.replaceOrInsert x
          (runB (setTree st.1 i r.1) i (fun ht => Cow.replaceOrInsertB ht x), r.1)) (s, t)
      (s'.1, toString s'.2.length)
    | _, _ => (s, "bad-op")
  | ["del", h, k] => withTree s h fun i t =>
    match pInt k with
    | some k =>
      let r := t.deleteItem (.item k)
      (runB (setTree s i r.1) i (fun ht => Cow.deleteItemB ht (.item k)), showOpt r.2)
    | none => (s, "bad-op")
  | ["delmin", h] => withTree s h fun i t =>
    let r := t.deleteItem .min
    (runB (setTree s i r.1) i (fun ht => Cow.deleteItemB ht .min), showOpt r.2)
  | ["delmax", h] => withTree s h fun i t =>
    let r := t.deleteItem .max
    (runB (setTree s i r.1) i (fun ht => Cow.deleteItemB ht .max), showOpt r.2)
  | ["owned", h] => withTree s h fun i _ =>
    match s.htrees[i]? with
    | some ht => let r := ht.owned s.heap; (s, s!"owned={r.1} total={r.2}")
    | none => (s, "bad-op")
  | ["free", h] => withTree s h fun _ _ => (s, s!"free={s.heap.free.length}")
  | ["cons", h] => withTree s h fun i t =>
    match s.htrees[i]? with
    | some ht => (s, if ht.inorder s.heap == t.inorder && ht.length == t.length then "ok" else "layers-differ")
    | none => (s, "bad-op")
  | ["get", h, k] => withTree s h fun _ t =>
    match pInt k with
    | some k => (s, showOpt (t.get k))
    | none => (s, "bad-op")
  | ["has", h, k] => withTree s h fun _ t =>
    match pInt k with
    | some k => (s, showBool (t.get k).isSome)
    | none => (s, "bad-op")
  | ["min", h] => withTree s h fun _ t => (s, showOpt t.min)
  | ["max", h] => withTree s h fun _ t => (s, showOpt t.max)
  | ["len", h] => withTree s h fun _ t => (s, toString t.length)
  | ["chk", h] => withTree s h fun _ t => (s, if t.ok then "ok" else "bad")
  | ["clone", h] => withTree s h fun _ t =>
    if s.trees.length ≥ 8 then (s, "bad-op") else
    match s.htrees[(pNat h).getD 0]? with
    | some ht =>
      let c := Cow.cloneB ht s.nextCow (s.nextCow + 1)
      ({ s with trees := s.trees ++ [t], htrees := (s.htrees.set ((pNat h).getD 0) c.1) ++ [c.2], nextCow := s.nextCow + 2 },
        s!"h{s.trees.length}")
    | none => (s, "bad-op")
  | ["clear", h, b] => withTree s h fun i t =>
    if b == "0" || b == "1" then
      (runB (setTree s i t.clear) i (fun ht => Cow.clearB ht (b == "1")), "ok")
    else (s, "bad-op")
  | ["scan", h, name, p, p2, cont] => withTree s h fun _ t =>
    match scanArgs name, pOptInt p, pOptInt p2, pPred cont with
    | some (a, needP, needP2), some p, some p2, some cont =>
      if p.isSome != needP || p2.isSome != needP2 then (s, "bad-op")
      else (s, showItems (t.scan a p p2 cont))
    | _, _, _, _ => (s, "bad-op")
  | ["wins", k, v] => withW s fun t =>
    match pInt k, pNat v with
    | some k, some v => ({ s with trees := [wInsert t ⟨k, v⟩] }, "ok")
    | _, _ => (s, "bad-op")
  | ["wfill", a, b] => withW s fun t =>
    match pInt a, pInt b with
    | some a, some b =>
      let n := (if a ≤ b then b - a else a - b).toNat
      if n > 4095 then (s, "bad-op") else
      let keys := (List.range (n + 1)).map (fun (j : Nat) => if a ≤ b then a + Int.ofNat j else a - Int.ofNat j)
      let t' := keys.foldl (fun t k => wInsert t ⟨k, fillVal false k⟩) t
      ({ s with trees := [t'] }, toString t'.length)
    | _, _ => (s, "bad-op")
  | ["wupd", old, k, v] => withW s fun t =>
    match pInt old, pInt k, pNat v with
    | some old, some k, some v => let r := wUpdate t old ⟨k, v⟩; ({ s with trees := [r.1] }, showBool r.2)
    | _, _, _ => (s, "bad-op")
  | ["wups", old, k, v] => withW s fun t =>
    match pInt old, pInt k, pNat v with
    | some old, some k, some v => let r := wUpdateOrInsert t old ⟨k, v⟩; ({ s with trees := [r.1] }, showBool r.2)
    | _, _, _ => (s, "bad-op")
  | ["wdel", k] => withW s fun t =>
    match pInt k with
    | some k => let r := wDelete t k; ({ s with trees := [r.1] }, showBool r.2)
    | none => (s, "bad-op")
  | ["wget", k] => withW s fun t =>
    match pInt k with
    | some k => (s, showOpt (wGet t k))
    | none => (s, "bad-op")
  | ["wscan", name, p, f, n] => withW s fun t =>
    match pInt p, pPred f, pInt n with
    | some p, some f, some n =>
      -- a limit the eager pre-sizing may really allocate (hundreds of GB of address space): one per script
      let big := decide (2 ^ 24 < n) && decide (n ≤ 2 ^ 42)
      if big && s.bigUsed then (s, "bad-op") else
      let s := if big then { s with bigUsed := true } else s
      if name == "gte" then (s, showWalk (wAscendGte cfg t p f n))
      else if name == "gt" then (s, showWalk (wAscendGt cfg t p f n))
      else if name == "lte" then (s, showWalk (wDescendLte cfg t p f n))
      else if name == "lt" then (s, showWalk (wDescendLt cfg t p f n))
      else (s, "bad-op")
    | _, _, _ => (s, "bad-op")
  | ["wconc", lo, hi] => withW s fun t =>
    match pInt lo, pInt hi with
    | some lo, some hi =>
      if lo > hi || hi - lo > 400 then (s, "bad-op")
      else
        -- concurrent inserts of distinct keys commute: any order yields the same set
        let keys := (List.range ((hi - lo).toNat + 1)).map (fun (i : Nat) => lo + Int.ofNat i)
        ({ s with trees := [keys.foldl (fun t k => wInsert t ⟨k, 0⟩) t] }, "ok")
    | _, _ => (s, "bad-op")
  | "wrace" :: pos :: rest => withW s fun t =>
    match pNat pos, rest.span (· != "/") with
    | some pos, (ta, "/" :: tb) =>
      match pWrOp ta, pWrOp tb with
      | some a, some b =>
        if pos < 1 || pos > 50 then (s, "bad-op") else
        let ab1 := applyWr t a
        let ab2 := applyWr ab1.1 b
        let ba1 := applyWr t b
        let ba2 := applyWr ba1.1 a
        let o1 := s!"a={ab1.2} b={ab2.2} items={showItems ab2.1.inorder}"
        let o2 := s!"a={ba2.2} b={ba1.2} items={showItems ba2.1.inorder}"
        ({ s with trees := [ab2.1] }, "{" ++ o1 ++ "|" ++ o2 ++ "}")
      | _, _ => (s, "bad-op")
    | _, _ => (s, "bad-op")
  | ["wlen"] => withW s fun t => (s, toString t.length)
  | ["wchk"] => withW s fun t => (s, if t.ok then "ok" else "bad")
  | _ => (s, "bad-op")

def step (s : St) (line : String) : St × String :=
  match words line with
  | ["parbegin"] => if s.wrapper || s.trees.isEmpty || s.par then (s, "bad-op") else ({ s with par := true }, "ok")
  | ["parend"] => if s.par then ({ s with par := false }, "ok") else (s, "bad-op")
  | ["newi", _] => step1 s line
  | ["new", _] => step1 s line      -- the first line of a script re-initialises everything, an open block included
  | ["neww"] => step1 s line
  | op :: _ => if s.par && !parOk op then (s, "bad-op") else step1 s line
  | [] => step1 s line

def main : IO Unit := oracleMain step { wrapper := false, trees := [] }
