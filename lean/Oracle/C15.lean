import Nv.OracleIO
import Nv.Model.C15
import Nv.Gen.C15
/-!
oracle_c15 — line protocol (sequential operations on one worker group):
  `new <map|lru|lrus> <cap> <workers>`   (`lrus`: LRU whose values have `Size()` = v % 3 + 1)
  `gap <add|upd|uoa|utl|utr> <k> <v>`     the operation (no faults) with the cache facade's `Set` held open; same result line                         → `ok`
  `get <k> <faults>` `del <k> <faults>`
  `add|upd|uoa|utl|utr <k> <v> <faults>`                  → `<ok:v|nil|err:dup|err:inj|err:nf|err:exists|panic> cb=<callbacks>`
        faults: string over 0/1/c (1 = that callback invocation fails, c = the caller's context is cancelled during it), `-` = none
  `peek <k>`    → `cached:<v>` for every worker cache holding k (`miss` if none)   (non-mutating; P)
  `where <k>`   → `w<i>` of the worker(s) caching k (`nowhere`)                      (T-observable)
  `keytype <t>` → `ok` (keys become mux.<t>; use with the map facade or one worker: eviction depends on routing)
  `backlog <k> <m> -` → `done` (m operations accepted behind a held callback, judged by monitors)
  `queued <k> <m> -` → `done` (m operations of every kind queued behind a held callback, judged by monitors)
  `start`       → `ok` (calls `Start()` again)        `probe <keytype>` → `ok`
  `store <k>`   → `<v>` | `none`
  `stress <seed> <n> -` / `pile <k> <m> -` → `done`   (concurrent mix / same-key pile-up on the real code, judged by monitors only)
Configuration and worker kernel: `Nv.Gen.C15`.
-/
open Nv Nv.C15

/-- strict decimal parsers (Lean's `toNat?` also accepts `_` separators; Go's `strconv` does not) -/
def natOf (s : String) : Option Nat :=
  if s.isEmpty || s.length > 9 || !s.all Char.isDigit then none else s.toNat?
def intOf (s : String) : Option Int :=
  if s.startsWith "-" then
    let d := (s.drop 1).toString
    if d.isEmpty || d.length > 19 || !d.all Char.isDigit then none else d.toNat?.map (fun n => -(n : Int))
  else if s.isEmpty || s.length > 19 || !s.all Char.isDigit then none else s.toNat?.map (fun n => (n : Int))

abbrev St := Option State

def showErr : Err → String
  | .inj => "inj" | .notFound => "nf" | .exists => "exists" | .dup => "dup"
def showRes : Res → String
  | .ok v => s!"ok:{v}" | .nil => "nil" | .err e => s!"err:{showErr e}" | .panic => "panic"
def showCb : Cb → String
  | .load => "load" | .add => "add" | .upd => "upd" | .upsert => "upsert" | .del => "del"

def inInt64 (i : Int) : Bool := decide (-(2:Int)^63 ≤ i) && decide (i < (2:Int)^63)

/-- fault tokens, one per callback invocation: `0` ok, `1` fails, `c` ok but the caller's context is cancelled while it
runs.  The handlers do not look at the context, so `c` is no fault for the model; the caller, however, may then get
its context's error instead of the result (its `select` has two ready cases). -/
def parseFaults (s : String) : Option (List Bool × List Nat) :=
  if s == "-" then some ([], [])
  else if s.length > 8 then none
  else
    match s.toList.mapM (fun c => if c == '0' || c == 'c' then some false else if c == '1' then some true else none) with
    | none => none
    | some bs => some (bs, (s.toList.zipIdx.filter (fun p => p.1 == 'c')).map (·.2))

def parseKey (s : String) : Option Int := match intOf s with
  | some i => if inInt64 i then some i else none
  | none => none

def parseVal (s : String) : Option Nat := match natOf s with
  | some v => if v < 1000 then some v else none
  | none => none

def run (s : State) (op : Op) (fc : List Bool × List Nat) : St × String :=
  let r := step Nv.Gen.C15.cfg Nv.Gen.C15.loc s (op, fc.1)
  let cbs := ",".intercalate (r.2.trace.map showCb)
  let plain := s!"{showRes r.2.res} cb={cbs}"
  -- cancelled during a callback that was actually invoked: the caller gets its result or its context's error
  if fc.2.any (fun i => i < r.2.trace.length) then
    let alt := s!"err:ctx cb={cbs}"
    (some r.1, if alt ≤ plain then "{" ++ alt ++ "|" ++ plain ++ "}" else "{" ++ plain ++ "|" ++ alt ++ "}")
  else (some r.1, plain)

/-- (worker index, cached value) for every worker cache holding k -/
def peekAll (cs : List Cache) (k : Key) (i : Nat) : List (Nat × Val) :=
  match cs with
  | [] => []
  | c :: rest => (match cPeek c k with | some v => [(i, v)] | none => []) ++ peekAll rest k (i + 1)

def step1 (st : St) (line : String) : St × String :=
  match words line with
  | ["new", f, c, w] =>
    (match natOf c, natOf w with
     | some c, some w =>
       if (f == "map" || f == "lru" || f == "lrus") && c ≤ 64 && 1 ≤ w && w ≤ 128 then
         (some (State.init (f != "map") (f == "lrus") c w), "ok")
       else (none, "bad-op")
     | _, _ => (none, "bad-op"))
  | ["keytype", t] =>    -- the script's keys are of this type from now on (routing is not fixed by the property)
    (match st with
     | some _ => (st, if ["int", "int64", "uint64", "intcrc", "int64crc", "uint64crc", "string", "strmix"].contains t then "ok" else "bad-op")
     | none => (st, "bad-op"))
  | ["queued", k, m, "-"] =>
    (match st, parseKey k, natOf m with
     | some _, some _, some m => if 1 ≤ m && m ≤ 5000 then (st, "done") else (st, "bad-op")
     | _, _, _ => (st, "bad-op"))
  | ["backlog", k, m, "-"] =>
    (match st, parseKey k, natOf m with
     | some _, some _, some m => if 1 ≤ m && m ≤ 5000 then (st, "done") else (st, "bad-op")
     | _, _, _ => (st, "bad-op"))
  | [op, k, f] =>
    (match st, parseKey k, parseFaults f with
     | some s, some k, some f =>
       if op == "get" then run s (.get k) f
       else if op == "del" then run s (.del k) f
       else (st, "bad-op")
     | _, _, _ => (st, "bad-op"))
  | ["pile", k, m, "-"] =>
    (match st, parseKey k, natOf m with
     | some _, some _, some m => if m ≤ 16 then (st, "done") else (st, "bad-op")
     | _, _, _ => (st, "bad-op"))
  | ["gap", op, k, v] =>   -- the operation with the facade's `Set` held open meanwhile (judged by a monitor): same result
    (match st, parseKey k, parseVal v with
     | some s, some k, some v =>
       if op == "add" then run s (.add k v) ([], [])
       else if op == "upd" then run s (.upd k v) ([], [])
       else if op == "uoa" then run s (.uoa k v) ([], [])
       else if op == "utl" then run s (.utl k v) ([], [])
       else if op == "utr" then run s (.utr k v) ([], [])
       else (st, "bad-op")
     | _, _, _ => (st, "bad-op"))
  | ["stress", seed, n, "-"] =>
    (match st, natOf seed, natOf n with
     | some _, some _, some n => if n ≤ 64 then (st, "done") else (st, "bad-op")
     | _, _, _ => (st, "bad-op"))
  | [op, k, v, f] =>
    (match st, parseKey k, parseVal v, parseFaults f with
     | some s, some k, some v, some f =>
       if op == "add" then run s (.add k v) f
       else if op == "upd" then run s (.upd k v) f
       else if op == "uoa" then run s (.uoa k v) f
       else if op == "utl" then run s (.utl k v) f
       else if op == "utr" then run s (.utr k v) f
       else (st, "bad-op")
     | _, _, _, _ => (st, "bad-op"))
  | ["peek", k] =>       -- P: what the group's caches hold for k (which worker holds it is not fixed by the property)
    (match st, parseKey k with
     | some s, some k =>
       let l := (peekAll s.caches k 0).map (fun p => s!"cached:{p.2}")
       (st, if l.isEmpty then "miss" else ",".intercalate l)
     | _, _ => (st, "bad-op"))
  | ["where", k] =>      -- T: the index of the worker(s) whose cache holds k
    (match st, parseKey k with
     | some s, some k =>
       let l := (peekAll s.caches k 0).map (fun p => s!"w{p.1}")
       (st, if l.isEmpty then "nowhere" else ",".intercalate l)
     | _, _ => (st, "bad-op"))
  | ["start"] =>         -- `Start()` again: the sequential behaviour does not depend on it
    (match st with
     | some _ => (st, "ok")
     | none => (st, "bad-op"))
  | ["probe", t] =>      -- the shipped key types are usable as keys (fresh group; judged by monitors)
    (match st with
     | some _ => (st, if ["int", "int64", "uint64", "intcrc", "string", "bytes"].contains t then "ok" else "bad-op")
     | none => (st, "bad-op"))
  | ["store", k] =>
    (match st, parseKey k with
     | some s, some k => (st, match sGet s.store k with | some v => toString v | none => "none")
     | _, _ => (st, "bad-op"))
  | _ => (st, "bad-op")

/-- an unrecognised configuration is never simulated: every operation answers `unknown-cfg` -/
def stepCfg (st : St) (line : String) : St × String :=
  if Nv.Gen.C15.cfg.delOrder == .unknown || Nv.Gen.C15.cfg.delOrder == .noDelete then
    (match words line with
     | "new" :: _ => step1 st line
     | [] => (st, "bad-op")
     | _ => let r := step1 st line; (r.1, if r.2 == "bad-op" then "bad-op" else "unknown-cfg"))
  else step1 st line

def main : IO Unit := oracleMain stepCfg none
