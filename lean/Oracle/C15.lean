import Nv.OracleIO
/-! oracle_c15 — stub (model not built yet): answers `bad-op` to every line. -/
def main : IO Unit := Nv.oracleMain (fun (_ : Unit) _ => ((), "bad-op")) ()
