import Nv.OracleIO
import Nv.Model.C14
import Nv.Gen.C14
/-!
oracle_c14 — line protocol (one executor at a time; every op is followed by the quiescent closure):
  `new <line|mline|runner|runner-call|runner-delegate|runner-proc|pchan> <lanes> <cap>`  → `ok`   (lanes > 1 only for mline)
  `call <id> <hash>`      id = number of calls so far; submit with a fresh cancellable context
  `recall <id> <old>`     like `call <id> <hash of old>`; the caller re-uses (and re-fills) the object it passed for call old
  `fin <id> <ok|err> <v>` the running callee of call id returns                (`not-running` otherwise)
  `cancel <id>`           cancel the context of call id
  `stop`, `run` (`Run()`; `new` does NOT start the consumers)
  `hammer <kind> <seed> <n>` → `done` (parallel stress on a fresh executor, judged by monitors only)
  `backlog <kind> <n>` → `done` (n calls accepted behind a held callee on a fresh executor, judged by monitors only)
  `boom <id>`             the running callee of call id panics → `crash`, and `crash` for every later line
  `slot <hash> <slots>`   → value of the regenerated `NormalizeSlotIndex` kernel (slots > 0)
Result line of call/fin/cancel/stop: the sorted, comma-separated new events
  `start:<id>@<lane>` `end:<id>` `ret:<id>:<ok<v>|err<v>|ctx|closed|full|panic>` `exited`   (`-` when none).
Where the implementation's `select` is random (ProcChan after Stop) the line is the set `{a|b}` of the
outcomes of all possible current states.  Configuration and slot kernel: `Nv.Gen.C14`.
-/
open Nv Nv.C14

/-- strict decimal parsers (Lean's `toNat?` also accepts `_` separators; Go's `strconv` does not) -/
def natOf (s : String) : Option Nat :=
  if s.isEmpty || s.length > 9 || !s.all Char.isDigit then none else s.toNat?
def intOf (s : String) : Option Int :=
  if s.startsWith "-" then
    let d := (s.drop 1).toString
    if d.isEmpty || d.length > 19 || !d.all Char.isDigit then none else d.toNat?.map (fun n => -(n : Int))
  else if s.isEmpty || s.length > 19 || !s.all Char.isDigit then none else s.toNat?.map (fun n => (n : Int))

def cfg : Cfg := Nv.Gen.C14.cfg
def slotK : Slot := Nv.Gen.C14.normalizeSlotIndex

def showRes : Res → String
  | .ok v => s!"ok{v}" | .err v => s!"err{v}" | .ctx => "ctx" | .closed => "closed" | .full => "full" | .panic => "panic"

def showEv : Ev → Option String
  | .start id lane => some s!"start:{id}@{lane}"
  | .fin id _ => some s!"end:{id}"
  | .ret id r => some s!"ret:{id}:{showRes r}"
  | .exit _ => none

def allExited (x : Exec) : Bool := x.lanes.all (fun l => l.cons == .exited)

def laneDelta : List Lane → List Lane → List Ev
  | o :: os, n :: ns => n.log.drop o.log.length ++ laneDelta os ns
  | _, _ => []

def render (old new : Exec) : String :=
  let evs := laneDelta old.lanes new.lanes ++ new.glog.drop old.glog.length
  let strs := evs.filterMap showEv ++ (if allExited new && !allExited old then ["exited"] else [])
  let sorted := strs.mergeSort (fun a b => decide (a ≤ b))
  if sorted.isEmpty then "-" else ",".intercalate sorted

abbrev St := Option (List Exec)

def inInt64 (i : Int) : Bool := decide (-(2:Int)^63 ≤ i) && decide (i < (2:Int)^63)

/-- apply an action (all given alternatives) to every possible state, settle, merge -/
def applyAll (xs : List Exec) (acts : Exec → List XAct) (dflt : String) : List Exec × String :=
  let outs : List (Exec × String) := xs.flatMap (fun x =>
    let succ := (acts x).filterMap (fun a => Exec.step cfg slotK x a)
    if succ.isEmpty then [(x, dflt)]
    else succ.flatMap (fun x1 => (Exec.settle cfg x1).map (fun x2 => (x2, render x x2))))
  let states := (outs.map (·.1)).eraseDups
  let strs := ((outs.map (·.2)).eraseDups).mergeSort (fun a b => decide (a ≤ b))
  let out := match strs with
    | [s] => s
    | _ => "{" ++ "|".intercalate strs ++ "}"
  (states, out)

def parseKind : String → Option Kind
  | "line" => some .line | "mline" => some .mline | "runner" => some .runner | "pchan" => some .pchan
  -- the three context kinds of RunnerQ are one model kind; `runner` alternates them by call id
  | "runner-call" => some .runner | "runner-delegate" => some .runner | "runner-proc" => some .runner
  | _ => none

/-- the consumer of call id's lane is inside the callee of id -/
def isRunning (x : Exec) (id : Nat) : Bool :=
  match ownerOf x id with
  | some i => (match x.lanes[i]? with
    | some l => l.cons == .running id || l.cons2 == some (.running id)
    | none => false)
  | none => false

def stepLive (st : St) (line : String) : St × String :=
  match words line with
  | ["new", k, n, c] =>
    (match parseKind k, natOf n, natOf c with
     | some k, some n, some c =>
       if n ≥ 1 && n ≤ 1024 && c ≤ 1024 && (k == .mline || n == 1) then (some [Exec.init k n c], "ok") else (none, "bad-op")
     | _, _, _ => (none, "bad-op"))
  | ["slot", h, s] =>
    (match intOf h, intOf s with
     | some h, some s =>
       if inInt64 h && inInt64 s && decide (0 < s) then
         (st, toString (slotK (BitVec.ofInt 64 h) (BitVec.ofInt 64 s)).toInt)
       else (st, "bad-op")
     | _, _ => (st, "bad-op"))
  | ["call", id, h] =>
    (match st, natOf id, intOf h with
     | some (x :: xs), some id, some h =>
       if id == x.next && inInt64 h then
         let r := applyAll (x :: xs) (fun _ => [.submit (BitVec.ofInt 64 h) true, .submit (BitVec.ofInt 64 h) false]) "-"
         (some r.1, r.2)
       else (st, "bad-op")
     | _, _, _ => (st, "bad-op"))
  | ["recall", id, old] =>   -- the caller re-uses the object it passed for call `old` (same hash) for a new call
    (match st, natOf id, natOf old with
     | some (x :: xs), some id, some old =>
       (match (x.hashes.find? (fun p => p.1 == old)).map (·.2) with
        | some h =>
          if id == x.next then
            let r := applyAll (x :: xs) (fun _ => [.submit h true, .submit h false]) "-"
            (some r.1, r.2)
          else (st, "bad-op")
        | none => (st, "bad-op"))
     | _, _, _ => (st, "bad-op"))
  | ["fin", id, kind, v] =>
    (match st, natOf id, natOf v with
     | some (x :: xs), some id, some v =>
       if (kind == "ok" || kind == "err") && id < x.next then
         let res := if kind == "ok" then Res.ok v else Res.err v
         let r := applyAll (x :: xs) (fun y => match ownerOf y id with
           | some i => [.lane i (.finish id res)] | none => []) "not-running"
         (some r.1, r.2)
       else (st, "bad-op")
     | _, _, _ => (st, "bad-op"))
  | ["cancel", id] =>
    (match st, natOf id with
     | some (x :: xs), some id =>
       if id < x.next then
         let r := applyAll (x :: xs) (fun y => match ownerOf y id with
           | some i => [.lane i (.cancel id)] | none => []) "-"
         (some r.1, r.2)
       else (st, "bad-op")
     | _, _ => (st, "bad-op"))
  | ["stop"] =>
    (match st with
     | some (x :: xs) => let r := applyAll (x :: xs) (fun _ => [.stop]) "-"; (some r.1, r.2)
     | _ => (st, "bad-op"))
  | ["hammer", k, seed, n] =>
    (match parseKind k, natOf seed, natOf n with
     | some _, some _, some n => if n ≤ 64 then (st, "done") else (st, "bad-op")
     | _, _, _ => (st, "bad-op"))
  | ["stocklog", k, n] =>
    (match parseKind k, natOf n with
     | some _, some n => if 1 ≤ n && n ≤ 2000 then (st, "done") else (st, "bad-op")
     | _, _ => (st, "bad-op"))
  | ["backlog", k, n] =>
    (match parseKind k, natOf n with
     | some _, some n => if 1 ≤ n && n ≤ 5000 then (st, "done") else (st, "bad-op")
     | _, _ => (st, "bad-op"))
  | ["run"] =>
    (match st with
     | some (x :: xs) => let r := applyAll (x :: xs) (fun _ => [.run]) "-"; (some r.1, r.2)
     | _ => (st, "bad-op"))
  | _ => (st, "bad-op")

/-- `boom <id>`: the running callee of call id panics. No executor recovers a callee's panic: the lane goroutine dies
and with it the process — every later line answers `crash` (the harness runs such scripts in a child process). -/
def step (st : St × Bool) (line : String) : (St × Bool) × String :=
  if st.2 && (words line).head? != some "new" then (st, "crash")
  else match words line with
    | ["boom", id] =>
      (match st.1, natOf id with
       | some (x :: xs), some id =>
         if id < x.next then
           let run := (x :: xs).filter (fun y => isRunning y id)
           if run.isEmpty then (st, "not-running")
           else if run.length == (x :: xs).length then ((st.1, true), "crash")
           else ((st.1, true), "{crash|not-running}")
         else (st, "bad-op")
       | _, _ => (st, "bad-op"))
    | _ => let r := stepLive st.1 line; ((r.1, false), r.2)

def main : IO Unit := oracleMain step (none, false)
