import Nv.OracleIO
import Nv.Model.C06
import Nv.Gen.C06
/-!
oracle_c06 — line protocol (all numbers decimal, signed 64-bit unless said otherwise):
  `cfg <epochMs> <nodeBits:8|9|10> <nodeAtLowest:0|1>`   (re)initialise                       → `ok`
  `hard <node> <min|$last>`      NewNode(node, min)                                          → `ok` | `err`
  `g <ms> <sub>`                 Generate at the clock reading ms·10^6+sub ns                → `<id>`
  `burst <ms> <sub> <n>`         n calls at that reading                                    → `<first>..<last> sum=<wrapping sum> inc=<0|1>`
  `par <ms> <sub> <g> <k>`       g goroutines × k calls at that reading (merged, sorted)    → as `burst` with n = g·k
  `state`                        (T) internal state of the hard node                         → `e=<epoch> t=<time> s=<step>`
  `nano <cur>` / `nanonl <cur>`  NewUnixNanoID / NewUnixNanoNoLockID                         → `ok`
  `n <ts>`                       GenIDByTS                                                   → `<id>`
  `nburst <ts> <n>` / `npar <ts> <g> <k>`                                                    → as `burst`
  `mono <node> <n> <g>`          MonoNode under the real clock; the runner feeds the observed
                                 ids back as `monocheck`                                      → `accepted` | `err`
  `setup <epochMs> <mode:0..255> <lowest:0|1>`  (re)initialise through the real Setup/UseEpoch/UseNodeMode/NodeAtLowest → `epoch=<e> nb=<n> nal=<b>`
  `gid <cur> <lock:0|1> <n>`     n calls of GenID (real clock) on a fresh generator, trace acceptance          → `accepted`
  `nheld <cur> <tsLast> <ts>+`   (T) fresh UnixNanoID(cur); the callers GenIDByTS(ts_i) are queued on its held mutex in
                                 this order, released, then GenIDByTS(tsLast)                → `ids=<id,…> last=<id>`
  `hheld <node> <min> <msLast> <ms>+` (T) fresh NewNode; callers queued in order, the injected clock answers one
                                 caller at a time with ms_i; then one call at msLast         → `ids=<id,…> last=<id>` | `err`
  `nstress <cur> <g> <k>` / `hstress <node> <ms> <g> <k>`  multi-goroutine stress on a fresh generator with varying
                                 timestamps / clock; monitors only                           → `ok` | `err`
  `gidpar <cur> <g> <k>` / `hreal <node> <g> <k>`  concurrent callers of GenID / of HardNode.Generate on the REAL clock
                                 (fresh generator, default clock); monitors only               → `ok` | `err`
  `monocheck <node> <id>*`       is the trace one of a fresh MonoNode(node) for some
                                 non-decreasing clock?                                        → `accepted` | `rejected@<i>` | `err`
The accessor configuration is the one regenerated from the source (`Nv.Gen.C06.cfg`).
-/
open Nv Nv.C06

structure OState where
  ready : Bool := false
  epochG : BitVec 64 := 0#64
  nb : BitVec 8 := 10#8
  nal : Bool := false
  hard : Option HState := none
  last : Option (BitVec 64) := none      -- last id of the current/previous hard node (`$last`)
  nano : Option (BitVec 64) := none

def inI64 (i : Int) : Bool := decide (-9223372036854775808 ≤ i) && decide (i ≤ 9223372036854775807)

/-- strict decimal syntax `-?[0-9]+` (what the Go runner accepts) -/
def isDec (s : String) : Bool :=
  match s.toList with
  | '-' :: d :: ds => (d :: ds).all Char.isDigit
  | d :: ds => (d :: ds).all Char.isDigit
  | [] => false

def parseI64 (s : String) : Option (BitVec 64) :=
  if !isDec s then none else
  match s.toInt? with
  | some i => if inI64 i then some (BitVec.ofInt 64 i) else none
  | none => none

def parseNatStrict (s : String) : Option Nat :=
  if isDec s && !(s.startsWith "-") then s.toNat? else none

def parseCount (s : String) (max : Nat) : Option Nat :=
  match parseNatStrict s with
  | some n => if 1 ≤ n && n ≤ max then some n else none
  | none => none

def showId (b : BitVec 64) : String := toString b.toInt

/-- n calls of `f`, ids in call order -/
def idsLoop (f : σ → σ × BitVec 64) : Nat → σ → List (BitVec 64) → σ × List (BitVec 64)
  | 0, s, acc => (s, acc.reverse)
  | n + 1, s, acc => let r := f s; idsLoop f n r.1 (r.2 :: acc)

/-- `<first>..<last> sum=<wrapping sum> inc=<strictly increasing, also from prev>` -/
def showBurst (prev : Option (BitVec 64)) (ids : List (BitVec 64)) : String :=
  match ids, ids.getLast? with
  | a :: _, some b =>
    let sum := ids.foldl (· + ·) 0#64
    let inc := (ids.foldl (fun (acc : Bool × Option (BitVec 64)) id =>
      (match acc.2 with
       | some p => acc.1 && BitVec.slt p id
       | none => acc.1, some id)) (true, prev)).1
    s!"{showId a}..{showId b} sum={showId sum} inc={if inc then 1 else 0}"
  | _, _ => "bad-op"

/-- concurrent callers: the runner can only observe the *set* of ids, so both sides sort it -/
def isIncreasing : List (BitVec 64) → Bool
  | a :: b :: rest => BitVec.slt a b && isIncreasing (b :: rest)
  | _ => true

def sortIds (ids : List (BitVec 64)) : List (BitVec 64) :=
  if isIncreasing ids then ids else (ids.toArray.qsort (fun a b => BitVec.slt a b)).toList

def parseClock (ms sub : String) : Option Clock :=
  match parseI64 ms, parseNatStrict sub with
  | some m, some s => if s < 1000000 then some ⟨m.toInt, s⟩ else none
  | _, _ => none

def monoCheck (s : OState) (node : BitVec 64) (ids : List (BitVec 64)) : String :=
  if BitVec.slt node 0#64 || BitVec.slt ((1#64 <<< s.nb.toNat) - 1#64) node then "err"
  else match monoAccept s.nb s.nal ⟨0#64, node, 0#64⟩ 0 ids with
    | none => "accepted"
    | some i => s!"rejected@{i}"

def step (s : OState) (line : String) : OState × String :=
  let c := Nv.Gen.C06.cfg
  match words line with
  | ["cfg", e, nb, nal] =>
    match parseI64 e, parseNatStrict nb, nal with
    | some e, some nb, "0" | some e, some nb, "1" =>
      if (nb == 8 || nb == 9 || nb == 10) then
        ({ ready := true, epochG := e, nb := BitVec.ofNat 8 nb, nal := nal == "1" }, "ok")
      else (s, "bad-op")
    | _, _, _ => (s, "bad-op")
  | ["setup", e, mode, lowest] =>
    -- the package's own configuration path: Setup(UseEpoch, UseNodeMode, [NodeAtLowest]) on the defaults
    match parseI64 e, parseNatStrict mode, lowest with
    | some e, some mode, "0" | some e, some mode, "1" =>
      if mode > 255 then (s, "bad-op") else
      let r := setupCfg c e (BitVec.ofNat 8 mode) (lowest == "1")
      ({ ready := true, epochG := r.1, nb := r.2.1, nal := r.2.2 },
        s!"epoch={showId r.1} nb={r.2.1.toNat} nal={if r.2.2 then 1 else 0}")
    | _, _, _ => (s, "bad-op")
  | _ =>
  if !s.ready then (s, "bad-op") else
  match words line with
  | ["hard", node, min] =>
    let minv := if min == "$last" then s.last else parseI64 min
    match parseI64 node, minv with
    | some node, some min =>
      match newNode c s.nb s.nal s.epochG node min with
      | some h => ({ s with hard := some h, last := some min }, "ok")
      | none => (s, "err")
    | _, _ => (s, "bad-op")
  | ["g", ms, sub] =>
    match s.hard, parseClock ms sub with
    | some h, some t =>
      let r := hardGen c s.nb s.nal h t
      ({ s with hard := some r.1, last := some r.2 }, showId r.2)
    | _, _ => (s, "bad-op")
  | ["burst", ms, sub, n] =>
    match s.hard, parseClock ms sub, parseCount n 100000 with
    | some h, some t, some n =>
      -- `hardGen c nb nal h t = hardCore nb nal h now`; the epoch does not change, so `now` is computed once
      let now := hardNow c h.epoch (accWord c.nowAcc t)
      let r := idsLoop (fun h => hardCore s.nb s.nal h now) n h []
      ({ s with hard := some r.1, last := r.2.getLast? }, showBurst s.last r.2)
    | _, _, _ => (s, "bad-op")
  | ["par", ms, sub, g, k] =>
    match s.hard, parseClock ms sub, parseCount g 64, parseCount k 10000 with
    | some h, some t, some g, some k =>
      let now := hardNow c h.epoch (accWord c.nowAcc t)
      let r := idsLoop (fun h => hardCore s.nb s.nal h now) (g * k) h []
      let ids := sortIds r.2
      ({ s with hard := some r.1, last := ids.getLast? }, showBurst s.last ids)
    | _, _, _, _ => (s, "bad-op")
  | ["state"] =>
    match s.hard with
    | some h => (s, s!"e={showId h.epoch} t={showId h.time} s={showId h.step}")
    | none => (s, "bad-op")
  | ["nano", cur] | ["nanonl", cur] =>
    match parseI64 cur with
    | some cur => ({ s with nano := some cur }, "ok")
    | none => (s, "bad-op")
  | ["n", ts] =>
    match s.nano, parseI64 ts with
    | some cur, some ts => let r := nanoGen ts cur; ({ s with nano := some r.2 }, showId r.1)
    | _, _ => (s, "bad-op")
  | ["nburst", ts, n] =>
    match s.nano, parseI64 ts, parseCount n 100000 with
    | some cur, some ts, some n =>
      let r := idsLoop (fun cur => let x := nanoGen ts cur; (x.2, x.1)) n cur []
      ({ s with nano := some r.1 }, showBurst (some cur) r.2)
    | _, _, _ => (s, "bad-op")
  | ["npar", ts, g, k] =>
    match s.nano, parseI64 ts, parseCount g 64, parseCount k 10000 with
    | some cur, some ts, some g, some k =>
      let r := idsLoop (fun cur => let x := nanoGen ts cur; (x.2, x.1)) (g * k) cur []
      ({ s with nano := some r.1 }, showBurst (some cur) (sortIds r.2))
    | _, _, _, _ => (s, "bad-op")
  | ["mono", node, n, g] =>
    match parseI64 node, parseCount n 100000, parseCount g 64 with
    | some node, some _, some _ =>
      -- the runner reports whether the wrap-and-spin branch was reached in this run (machine speed decides)
      let r := monoCheck s node []
      (s, if r == "accepted" then "{accepted-wrap|accepted-nowrap}" else r)
    | _, _, _ => (s, "bad-op")
  | ["gid", cur, lock, n] =>
    -- GenID on the real clock, fresh generator: any strictly increasing trace above `cur` is a run of the model
    match parseI64 cur, lock, parseCount n 100000 with
    | some _, "0", some _ | some _, "1", some _ => (s, "accepted")
    | _, _, _ => (s, "bad-op")
  | "nheld" :: cur :: tsLast :: tss =>
    -- k callers queued on the generator's mutex in this order, then one sequential call (fresh generator)
    match parseI64 cur, parseI64 tsLast, tss.mapM parseI64 with
    | some cur, some tsLast, some tss =>
      if tss.isEmpty || tss.length > 16 then (s, "bad-op") else
      let r := tss.foldl (fun (acc : BitVec 64 × List (BitVec 64)) ts => let x := nanoGen ts acc.1; (x.2, x.1 :: acc.2)) (cur, [])
      let l := nanoGen tsLast r.1
      (s, s!"ids={",".intercalate (r.2.reverse.map showId)} last={showId l.1}")
    | _, _, _ => (s, "bad-op")
  | "hheld" :: node :: min :: msLast :: mss =>
    -- k callers of a fresh node queued in this order, the clock answering them one by one with these readings
    match parseI64 node, parseI64 min, parseI64 msLast, mss.mapM parseI64 with
    | some node, some min, some msLast, some mss =>
      if mss.isEmpty || mss.length > 16 then (s, "bad-op") else
      match newNode c s.nb s.nal s.epochG node min with
      | none => (s, "err")
      | some h =>
        let r := mss.foldl (fun (acc : HState × List (BitVec 64)) ms =>
          let x := hardGen c s.nb s.nal acc.1 ⟨ms.toInt, 0⟩; (x.1, x.2 :: acc.2)) (h, [])
        let l := hardGen c s.nb s.nal r.1 ⟨msLast.toInt, 0⟩
        (s, s!"ids={",".intercalate (r.2.reverse.map showId)} last={showId l.2}")
    | _, _, _, _ => (s, "bad-op")
  | ["gidpar", cur, g, k] =>
    -- g goroutines × k calls of GenID (real clock) on a fresh UnixNanoID: judged by the monitors only
    match parseI64 cur, parseCount g 64, parseCount k 100000 with
    | some _, some _, some _ => (s, "ok")
    | _, _, _ => (s, "bad-op")
  | ["hreal", node, g, k] =>
    -- g goroutines × k calls of Generate on a fresh NewNode(node, 0) under the package's default clock
    match parseI64 node, parseCount g 64, parseCount k 100000 with
    | some node, some _, some _ =>
      if BitVec.slt node 0#64 || BitVec.slt ((1#64 <<< s.nb.toNat) - 1#64) node then (s, "err") else (s, "ok")
    | _, _, _ => (s, "bad-op")
  | ["nstress", cur, g, k] =>
    -- g goroutines × k calls with per-goroutine timestamp sequences on a fresh generator: judged by the monitors only
    match parseI64 cur, parseCount g 64, parseCount k 10000 with
    | some _, some _, some _ => (s, "ok")
    | _, _, _ => (s, "bad-op")
  | ["hstress", node, ms, g, k] =>
    match parseI64 node, parseI64 ms, parseCount g 64, parseCount k 10000 with
    | some node, some _, some _, some _ =>
      if BitVec.slt node 0#64 || BitVec.slt ((1#64 <<< s.nb.toNat) - 1#64) node then (s, "err") else (s, "ok")
    | _, _, _, _ => (s, "bad-op")
  | "monocheck" :: node :: ids =>
    match parseI64 node, ids.mapM parseI64 with
    | some node, some ids => (s, monoCheck s node ids)
    | _, _ => (s, "bad-op")
  | _ => (s, "bad-op")

def main : IO Unit := oracleMain step {}
