import Nv.OracleIO
import Nv.Model.C04
import Nv.Gen.C04
/-!
oracle_c04 — line protocol (keys and values are naturals, sizes/capacities integers):
  `new <lru|tiny> <cap>`                         → `ok`        single cache
  `wnew <lru|tiny> <cap> <n> <U> mod`            → `ok`        wide cache, n shards, key k routed to k % n
  `wnew <lru|tiny> <cap> <n> <U> tab <i0,i1,…>`  → `ok`        wide cache, key k routed to the k-th table entry
  `set k v sz` `sia k v sz` `sgr k v sz` `get k` `peek k` `exist k` `del k` `clear` `cap c` `keys` `items` `stats`
      single: `<result> | K=[k,…] I=[k:v:s,…] S=<len>,<size>,<cap>,<evictions>`
      wide (keyed ops only): `<result> | P=[k:v,…]`   (Peek of every key 0…U-1)
  `fill a n sz`   (single cache)                 → as `set` of the last of the n keys a … a+n-1 (value key+1, size sz)
  `reset`                                        → `ok`        no cache (every op answers `bad-op`)
  `conc <seed> <threads> <ops>`                  → `inv-ok`    (parallel stress run in a child process: invariants at quiescence; ends the script)
The configurations and the per-shard capacity kernel are the regenerated ones (`Nv.Gen.C04`).
-/
open Nv Nv.C04

inductive Route
  | mod (n : Nat)
  | tab (t : List Nat)

def Route.idx : Route → Nat → Nat
  | .mod n, k => k % n
  | .tab t, k => t.getD k t.length.succ.succ   -- outside the table: an index no shard has

inductive St
  | none
  | single (kd : Kind) (s : Lru)
  | wide (kd : Kind) (u : Nat) (r : Route) (w : Wide)

def cfgOf : Kind → Cfg
  | .sized => Nv.Gen.C04.cfgSized
  | .tiny => Nv.Gen.C04.cfgTiny

def parseKind (s : String) : Option Kind :=
  if s == "lru" then some .sized else if s == "tiny" then some .tiny else none

def showEntry (e : Entry) : String := s!"{e.key}:{e.val}:{e.size}"

def snapshot (s : Lru) : String :=
  s!"K={showList toString (s.list.map (·.key))} I={showList showEntry s.list} S={s.list.length},{s.size},{s.capacity},{s.evictions} A={s.list.length},{s.size},{s.capacity},{s.evictions}"

def showOut : Out → String
  | .unit => "ok"
  | .val (some v) => s!"v={v}"
  | .val none => "miss"
  | .bool b => if b then "true" else "false"
  | .removed vs => s!"rm={showList toString vs}"
  | .keys ks => s!"K={showList toString ks}"
  | .items kvs => s!"I={showList (fun (p : Nat × Nat) => s!"{p.1}:{p.2}") kvs}"
  | .stats l s c e => s!"S={l},{s},{c},{e}"
  | .panic => "panic"

def inInt64 (i : Int) : Bool := decide (-(2:Int)^63 ≤ i) && decide (i < (2:Int)^63)

/-- an `int64` argument -/
def parseI64? (s : String) : Option Int := (parseInt? s).bind fun i => if inInt64 i then some i else none

def parseOp (ws : List String) : Option Op :=
  match ws with
  | ["set", k, v, "p"] => do let _ ← parseNat? v; some (.setF (← parseNat? k))
  | ["sia", k, v, "p"] => do let _ ← parseNat? v; some (.setIfAbsentF (← parseNat? k))
  | ["sgr", k, v, "p"] => do let _ ← parseNat? v; some (.setGetRemovedF (← parseNat? k))
  | ["set", k, v, sz] => do some (.set (← parseNat? k) (← parseNat? v) (← parseI64? sz))
  | ["sia", k, v, sz] => do some (.setIfAbsent (← parseNat? k) (← parseNat? v) (← parseI64? sz))
  | ["sgr", k, v, sz] => do some (.setGetRemoved (← parseNat? k) (← parseNat? v) (← parseI64? sz))
  | ["get", k] => do some (.get (← parseNat? k))
  | ["peek", k] => do some (.peek (← parseNat? k))
  | ["exist", k] => do some (.exist (← parseNat? k))
  | ["del", k] => do some (.delete (← parseNat? k))
  | ["clear"] => some .clear
  | ["cap", c] => do some (.setCapacity (← parseI64? c))
  | ["keys"] => some .keys
  | ["items"] => some .items
  | ["stats"] => some .stats
  | _ => none

/-- per-shard capacity through the regenerated kernel (64-bit machine arithmetic) -/
def genShardCap (kd : Kind) (cap : Int) (n : Nat) : Int :=
  match kd with
  | .sized => (Nv.Gen.C04.pSize (BitVec.ofInt 64 cap) (BitVec.ofNat 64 n)).toInt
  | .tiny => (Nv.Gen.C04.pSizeTiny (BitVec.ofInt 64 cap) (BitVec.ofNat 64 n)).toInt

def widePeekDump (u : Nat) (r : Route) (w : Wide) : String :=
  let cells := (List.range u).filterMap fun k =>
    match w.shards[r.idx k]? with
    | some s => (find? k s.list).map fun e => s!"{k}:{e.val}"
    | none => some s!"{k}:panic"
  showList id cells

def step (st : St) (line : String) : St × String :=
  match words line with
  | ["reset"] => (.none, "ok")
  | ["new", kd, cap] =>
    match parseKind kd, parseInt? cap with
    | some kd, some cap => if inInt64 cap then (.single kd (Lru.new cap), "ok") else (st, "bad-op")
    | _, _ => (st, "bad-op")
  | "wnew" :: kd :: cap :: n :: u :: rest =>
    match parseKind kd, parseInt? cap, parseNat? n, parseNat? u with
    | some kd, some cap, some n, some u =>
      if n = 0 ∨ ¬ inInt64 cap ∨ n > 4096 ∨ u > 64 then (st, "bad-op") else
      let route : Option Route := match rest with
        | ["mod"] => some (.mod n)
        -- `dmod`: the cache is built WITHOUT any option — remap's documented default of 73 shards, whatever other
        -- containers were configured earlier in the process (a constructor is a function of its own arguments)
        | ["dmod"] => if n = 73 then some (.mod n) else none
        | [tk, t] =>
          if !(tk == "tab" || tk == "tabs") then none else
          match (t.splitOn ",").mapM parseNat? with
          | some tab => if tab.length = u ∧ tab.all (· < n) then some (.tab tab) else none
          | none => none
        | _ => none
      match route with
      | some r => (.wide kd u r ⟨List.replicate n (Lru.new (genShardCap kd cap n))⟩, "ok")
      | none => (st, "bad-op")
    | _, _, _, _ => (st, "bad-op")
  | ["conc", a, b, c] =>
    match st, parseNat? a, parseNat? b, parseNat? c with
    | .none, _, _, _ => (st, "bad-op")
    | _, some _, some t, some n => if t < 1 ∨ t > 16 ∨ n > 5000 then (st, "bad-op") else (.none, "inv-ok")
    | _, _, _, _ => (st, "bad-op")
  | ["fill", a, n, sz] =>
    -- `fill a n sz`: Set(a+i, value a+i+1, size sz) for i = 0 … n-1 (builds long lists in one line); answer of the last Set
    match st, parseNat? a, parseNat? n, parseI64? sz with
    | .single kd s, some a, some n, some sz =>
      if n = 0 ∨ n > 5000 ∨ a > 100000 then (st, "bad-op") else
      let r := (List.range n).foldl (fun (acc : Lru × Out) i => Nv.C04.step (cfgOf kd) kd acc.1 (.set (a + i) (a + i + 1) sz)) (s, Out.unit)
      (.single kd r.1, s!"{showOut r.2} | {snapshot r.1}")
    | _, _, _, _ => (st, "bad-op")
  | ws =>
    match parseOp ws with
    | none => (st, "bad-op")
    | some op =>
      match st with
      | .none => (st, "bad-op")
      | .single kd s =>
        -- sized cache: the script value 0 is a nil `Value` (its Size() cannot be called); tiny values are never sized
        let op : Op := match kd, op with
          | .sized, .set k 0 _ => .setF k
          | .sized, .setIfAbsent k 0 _ => .setIfAbsentF k
          | .sized, .setGetRemoved k 0 _ => .setGetRemovedF k
          | _, o => o
        if kd == .tiny && op.faults then (st, "bad-op") else
        let r := Nv.C04.step (cfgOf kd) kd s op
        (.single kd r.1, s!"{showOut r.2} | {snapshot r.1}")
      | .wide kd u rt w =>
        match op with
        | .setF .. | .setIfAbsentF .. | .setGetRemovedF .. => (st, "bad-op")
        | .set .. | .get .. | .peek .. | .exist .. | .delete .. =>
          if (op.key?.getD 0) ≥ u then (st, "bad-op") else
          match wideStep (cfgOf kd) kd rt.idx w op with
          | some (w', out) =>
            if out == .panic then (.wide kd u rt w', "panic")
            else (.wide kd u rt w', s!"{showOut out} | P={widePeekDump u rt w'}")
          | none => (st, "panic")
        | _ => (st, "bad-op")

def main : IO Unit := oracleMain step St.none
