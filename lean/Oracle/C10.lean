import Nv.OracleIO
import Nv.Model.C10
import Nv.Gen.C10
/-!
oracle_c10 — line protocol (one result line per input line; the configuration is `Nv.Gen.C10.cfg`).

initialising lines (first line of every script):
  `new`                         empty BufferX                          → `ok len=0`
  `load <hex>`                  NewReadableBufferX(bytes)              → `ok len=<n>`
  `tload <k> <write-op …>`      first k bytes of what the write emits  → `ok len=<n> full=<total>`
  `sloadf <eager:0|1> <chunks>` same, but the source fails with an I/O error (`err:io`) after the chunks instead of EOF
  `sload <eager:0|1> <chunks>`  ReaderX over a chunked io.Reader; chunks = `hex,hex,…` (`-` empty chunk, `.` none) → `ok left=<n>`
writes (buffer):  `wbool 0|1` `wu8 n` `wu16 n` `wi16 n` `wu32 n` `wi32 n` `wu64 n` `wi64 n` `wf64 <16 hex>` `wvu64 n` `wvi64 n`
                  `wvu32 n` `wvi32 n` `wstr <hex>` `wlstr <limit> <hex>` `wraw <hex>`   → `ok len=<n>` | `err:sizeLimit len=<n>`
reads (buffer or stream): `rbool` `ru8` `ru16` `ri16` `ru32` `ri32` `ru64` `ri64` `rf64` `rstr` `rlstr <limit>` `read <n>` `readn <n>` `zreadn <n>`
                  and, buffer only, `rvu64` `rvi64` `rvu32` `rvi32`          → `v=<value> len|left=<n>` | `err:<e> len|left=<n>`
`feed <chunks>` (stream): more bytes arrive on the source, behind what it still holds → `ok left=<n>`
`recheck` (buffer or stream): the raw values handed out so far, again → `recheck=<v>,<v>,…` | `recheck=.`
`sentinels` (any state) → texts of the three sentinel errors and `distinct=true`
`bigrt <str|raw|lstr> <seed> <n> <buf|s<chunk>>` (initialising; 2^20 < n ≤ 2^27) → `v=#<n>:<digest> next=7 left=0`
`rewriteself <pos> <from> <to>` (buffer): ReWrite(pos, Bytes()[from:to]) → `ok bytes=…` | `panic`
other (buffer):   `rewrite <pos> <hex>` `rewriteu32 <pos> <v>` → `ok bytes=<hex>` | `panic` ; `bytes` ; `len` ; `reset`
hex = lower-case pairs, `-` for the empty string. Counts are limited to ±2^20. Stream `rstr`/`rlstr` whose pending
length field exceeds 2^24 is answered `guard:huge` without executing (the real code would allocate that much).
-/
open Nv Nv.C10

/-- the configuration the oracle runs: the regenerated one; where the extractor could not classify the source
    (`unknown`) the oracle answers with the *proved* behaviour (io.ReadFull, empty string accepted), so that an
    unclassifiable but equivalent rewrite shows as one broken tie and not as a series of correspondence differences,
    while a non-equivalent one still differs here and on the monitors. The tie obligation is unaffected. -/
def effCfg : Cfg :=
  let c := Nv.Gen.C10.cfg
  ⟨if c.strategy = .unknown then .full else c.strategy, if c.zeroLen = .unknown then .accept else c.zeroLen,
   if c.strategy = .unknown then true else c.mapShort⟩

inductive St
  | none
  | buf (bs : Bytes)
  | stream (s : Src)

def parseDec (s : String) : Option Nat :=
  let cs := s.toList
  if cs.isEmpty || cs.length > 20 || !cs.all Char.isDigit then none
  else some (cs.foldl (fun a c => a * 10 + (c.toNat - 48)) 0)

def parseSigned (s : String) : Option Int :=
  match s.toList with
  | '-' :: rest => (parseDec (String.ofList rest)).map (fun n => -(n : Int))
  | _ => (parseDec s).map (fun n => (n : Int))

def hexDigit (c : Char) : Option Nat :=
  if '0' ≤ c ∧ c ≤ '9' then some (c.toNat - 48)
  else if 'a' ≤ c ∧ c ≤ 'f' then some (c.toNat - 87)
  else none

def parseHexL : List Char → Option Bytes
  | [] => some []
  | [_] => none
  | a :: b :: rest => do
    let x ← hexDigit a
    let y ← hexDigit b
    let r ← parseHexL rest
    pure (UInt8.ofNat (x * 16 + y) :: r)

def parsePattern (s : String) : Option Bytes :=
  match (String.ofList (s.toList.drop 1)).splitOn ":" with
  | [a, b] =>
    match parseDec a, parseDec b with
    | some seed, some n =>
      if seed < 4294967296 ∧ n ≤ 1048576 then some (pat seed n) else none
    | _, _ => none
  | _ => none

/-- `-` (empty), lower-case hex pairs, or `p<seed>:<n>` (n pattern bytes) -/
def parseHex (s : String) : Option Bytes :=
  if s == "-" then some [] else if s.isEmpty then none
  else if s.toList.head? == some 'p' then parsePattern s
  else parseHexL s.toList

def hexChar (n : Nat) : Char := if n < 10 then Char.ofNat (48 + n) else Char.ofNat (87 + n)

/-- hex up to 64 bytes, beyond that `#<length>:<digest>` -/
def showHex (bs : Bytes) : String :=
  if bs.isEmpty then "-"
  else if bs.length > 64 then s!"#{bs.length}:{digest bs}"
  else String.ofList (bs.flatMap (fun b => [hexChar (b.toNat / 16), hexChar (b.toNat % 16)]))

/-- uniform chunks of `k ≥ 1` bytes -/
def chunkEvery (k : Nat) : Nat → Bytes → List Bytes
  | 0, _ => []
  | f+1, bs => if bs.isEmpty then [] else bs.take k :: chunkEvery k f (bs.drop k)

/-- chunk sizes `1 + x mod 8192`, `x := (x*1103515245+12345) mod 2^31` -/
def chunkRandom : Nat → Nat → Bytes → List Bytes
  | 0, _, _ => []
  | f+1, x, bs =>
    if bs.isEmpty then [] else
      let x' := (x * 1103515245 + 12345) % 2147483648
      let n := 1 + x' % 8192
      bs.take n :: chunkRandom f x' (bs.drop n)

def parseChunking (spec : String) (bs : Bytes) : Option (List Bytes) :=
  match spec.toList with
  | 'r' :: rest =>
    match parseDec (String.ofList rest) with
    | some x => if x < 2147483648 then some (chunkRandom bs.length x bs) else none
    | none => none
  | _ =>
    match parseDec spec with
    | some k => if 1 ≤ k ∧ k ≤ 1048576 then some (chunkEvery k bs.length bs) else none
    | none => none

def parseChunks (s : String) : Option (List Bytes) :=
  if s == "." then some [] else (s.splitOn ",").mapM parseHex

def inRange (lo hi : Int) (x : Int) : Option Int := if lo ≤ x ∧ x ≤ hi then some x else none

def parseU (bits : Nat) (s : String) : Option Nat := do
  let n ← parseDec s
  if n < 2 ^ bits then some n else none

def parseI (bits : Nat) (s : String) : Option Int := do
  let n ← parseSigned s
  inRange (-(2 ^ (bits - 1) : Int)) (2 ^ (bits - 1) - 1) n

def parseCount (s : String) : Option Int := do
  let n ← parseSigned s
  inRange (-1048576) 1048576 n

def parseF64 (s : String) : Option UInt64 :=
  if s.length ≠ 16 then none else (parseHexL s.toList).map (fun bs => UInt64.ofNat (bs.foldl (fun a b => a * 256 + b.toNat) 0))

def showF64 (x : UInt64) : String :=
  String.ofList ((List.range 16).map (fun i => hexChar ((x.toNat / 16 ^ (15 - i)) % 16)))

def parseWrite : List String → Option Val
  | ["wbool", "0"] => some (.bool false)
  | ["wbool", "1"] => some (.bool true)
  | ["wu8", n] => (parseU 8 n).map (fun x => .u8 (UInt8.ofNat x))
  | ["wu16", n] => (parseU 16 n).map (fun x => .u16 (UInt16.ofNat x))
  | ["wi16", n] => (parseI 16 n).map (fun x => .i16 (Int16.ofInt x))
  | ["wu32", n] => (parseU 32 n).map (fun x => .u32 (UInt32.ofNat x))
  | ["wi32", n] => (parseI 32 n).map (fun x => .i32 (Int32.ofInt x))
  | ["wu64", n] => (parseU 64 n).map (fun x => .u64 (UInt64.ofNat x))
  | ["wi64", n] => (parseI 64 n).map (fun x => .i64 (Int64.ofInt x))
  | ["wf64", h] => (parseF64 h).map .f64
  | ["wvu64", n] => (parseU 64 n).map (fun x => .varU64 (UInt64.ofNat x))
  | ["wvi64", n] => (parseI 64 n).map (fun x => .varI64 (Int64.ofInt x))
  | ["wvu32", n] => (parseU 32 n).map (fun x => .varU32 (UInt32.ofNat x))
  | ["wvi32", n] => (parseI 32 n).map (fun x => .varI32 (Int32.ofInt x))
  | ["wstr", h] => (parseHex h).map .str
  | ["wlstr", l, h] => do
    let l ← parseU 32 l
    let s ← parseHex h
    pure (.lstr (UInt32.ofNat l) s)
  | ["wraw", h] => (parseHex h).map .raw
  | _ => none

/-- (type, offered by ReaderX too) -/
def parseRead : List String → Option Ty
  | ["rbool"] => some .bool | ["ru8"] => some .u8 | ["ru16"] => some .u16 | ["ri16"] => some .i16
  | ["ru32"] => some .u32 | ["ri32"] => some .i32 | ["ru64"] => some .u64 | ["ri64"] => some .i64
  | ["rf64"] => some .f64 | ["rvu64"] => some .varU64 | ["rvi64"] => some .varI64
  | ["rvu32"] => some .varU32 | ["rvi32"] => some .varI32 | ["rstr"] => some .str
  | ["rlstr", l] => (parseU 32 l).map (fun l => .lstr (UInt32.ofNat l))
  | ["read", n] => do
    let n ← parseCount n
    if n < 0 then none else some (.read n.toNat)
  | ["readn", n] => (parseCount n).map .readN
  | ["zreadn", n] => (parseCount n).map .zreadN
  | _ => none

def showErr : Err → String
  | .eof => "eof" | .empty => "empty" | .wrongNum => "wrongNum" | .sizeLimit => "sizeLimit"
  | .unexpectedEOF => "unexpectedEOF" | .overflow => "overflow" | .io => "io"

/-- the texts of the package's sentinel errors -/
def errText : Err → String
  | .empty => "byte.buffer.empty" | .wrongNum => "byte.buffer.wrong.num" | .sizeLimit => "byte.buffer.size.limit"
  | .eof => "EOF" | .unexpectedEOF => "unexpected EOF" | .overflow => "binary: varint overflows a 64-bit integer"
  | .io => "source failed"

def showVal : Val → String
  | .bool b => if b then "true" else "false"
  | .u8 x => toString x.toNat | .u16 x => toString x.toNat | .i16 x => toString x.toInt
  | .u32 x => toString x.toNat | .i32 x => toString x.toInt
  | .u64 x => toString x.toNat | .i64 x => toString x.toInt
  | .f64 x => showF64 x
  | .varU64 x => toString x.toNat | .varI64 x => toString x.toInt
  | .varU32 x => toString x.toNat | .varI32 x => toString x.toInt
  | .str s => showHex s | .lstr _ s => showHex s | .raw p => showHex p

def showOut (o : Out Val) : String :=
  match o with
  | .ok v => "v=" ++ showVal v
  | .err e => "err:" ++ showErr e

def isStrTy : Ty → Bool
  | .str => true
  | .lstr _ => true
  | _ => false

def step (st : St) (line : String) : St × String :=
  let ws := words line
  match ws with
  | ["new"] => (.buf newBuffer, s!"ok len={newBuffer.length}")
  | ["news", n] =>
    match parseDec n with
    | some n => if n ≤ 1048576 then (.buf (newSized n), s!"ok len={(newSized n).length}") else (.none, "bad-op")
    | none => (.none, "bad-op")
  | ["load", h] =>
    match parseHex h with
    | some bs => (.buf bs, s!"ok len={bs.length}")
    | none => (.none, "bad-op")
  | "tload" :: k :: w =>
    match parseDec k, parseWrite w with
    | some k, some v =>
      if k > 1048576 then (.none, "bad-op")
      else if writeOk v then
        let e := enc v
        (.buf (e.take k), s!"ok len={(e.take k).length} full={e.length}")
      else (.buf [], "err:sizeLimit len=0 full=0")
    | _, _ => (.none, "bad-op")
  | ["bigrt", kind, seed, n, via] =>
    -- a value of 1 MiB … 128 MiB written, followed by the marker byte 7, and read back (buffer or stream of uniform
    -- chunks). The oracle does not materialise it: the answer is `Nv.C10.bigrt_answer` (round trip + digest shortcut).
    match parseU 32 seed, parseDec n with
    | some seed, some n =>
      let okKind := kind == "str" || kind == "raw" || kind == "lstr"
      let viaOk : Option Bool :=   -- some true = stream
        if via == "buf" then some false
        else match via.toList with
          | 's' :: rest => match parseDec (String.ofList rest) with
            | some k => if 1024 ≤ k ∧ k ≤ 134217728 then some true else none
            | none => none
          | _ => none
      match viaOk with
      | some stream =>
        if okKind ∧ 1048577 ≤ n ∧ n ≤ 134217728 then
          if stream ∧ ¬ (effCfg.strategy = .full ∧ effCfg.zeroLen = .accept) then (.none, "skip:cfg-not-proved")
          else (.none, s!"v=#{n}:{digestPat seed n} next=7 left=0")
        else (.none, "bad-op")
      | none => (.none, "bad-op")
    | _, _ => (.none, "bad-op")
  | ["sloadf", e, cs] =>
    -- like `sload`, but after the chunks the source FAILS with an I/O error of its own instead of io.EOF
    match (if e == "0" then some false else if e == "1" then some true else none), parseChunks cs with
    | some e, some cs => let s : Src := ⟨e, cs, true⟩; (.stream s, s!"ok left={s.flat.length}")
    | _, _ => (.none, "bad-op")
  | ["sload", e, cs] =>
    match (if e == "0" then some false else if e == "1" then some true else none), parseChunks cs with
    | some e, some cs => let s : Src := ⟨e, cs, false⟩; (.stream s, s!"ok left={s.flat.length}")
    | _, _ => (.none, "bad-op")
  | _ =>
    match st with
    | .none => (st, "bad-op")
    | .buf bs =>
      match parseWrite ws with
      | some v =>
        let r := write v bs
        (.buf r.2, (match r.1 with | .ok _ => "ok" | .err e => "err:" ++ showErr e) ++ s!" len={r.2.length}")
      | none =>
        match parseRead ws with
        | some ty => let r := decBuf ty bs; (.buf r.2, showOut r.1 ++ s!" len={r.2.length}")
        | none =>
          match ws with
          | ["bytes"] => (st, "bytes=" ++ showHex bs)
          | ["len"] => (st, s!"len={bs.length}")
          | ["reset"] => (.buf (reset bs), s!"ok len={(reset bs).length}")
          | ["rewriteself", p, a, b] =>
            match parseCount p, parseDec a, parseDec b with
            | some p, some a, some b =>
              if a ≤ b ∧ b ≤ bs.length then
                match rewriteSelf p a b bs with
                | some bs' => (.buf bs', "ok bytes=" ++ showHex bs')
                | none => (st, "panic")
              else (st, "bad-op")
            | _, _, _ => (st, "bad-op")
          | ["tostream", e, spec] =>
            match (if e == "0" then some false else if e == "1" then some true else none), parseChunking spec bs with
            | some e, some cs => let s : Src := ⟨e, cs, false⟩; (.stream s, s!"ok left={s.flat.length}")
            | _, _ => (st, "bad-op")
          | ["rewrite", p, h] =>
            match parseCount p, parseHex h with
            | some p, some h =>
              match rewrite p h bs with
              | some bs' => (.buf bs', "ok bytes=" ++ showHex bs')
              | none => (st, "panic")
            | _, _ => (st, "bad-op")
          | ["rewriteu32", p, v] =>
            match parseCount p, parseU 32 v with
            | some p, some v =>
              match rewriteU32 p (UInt32.ofNat v) bs with
              | some bs' => (.buf bs', "ok bytes=" ++ showHex bs')
              | none => (st, "panic")
            | _, _ => (st, "bad-op")
          | _ => (st, "bad-op")
    | .stream s =>
      match ws with
      | ["feed", cs] =>
        match parseChunks cs with
        | some cs => let s' := s.feed cs; (.stream s', s!"ok left={s'.flat.length}")
        | none => (st, "bad-op")
      | _ =>
      match (match ws with
             | ["xrstr"] => some Ty.str
             | ["xrlstr", l] => (parseU 32 l).map (fun l => Ty.lstr (UInt32.ofNat l))
             | _ => none) with
      | some ty =>
        -- probe in a memory-capped child process (T-observable): the model's answer, or the runtime's fatal abort
        let r := decStream effCfg ty s
        (.none, "{" ++ showOut r.1 ++ s!" left={r.2.flat.length}" ++ "|fatal:out-of-memory}")
      | none =>
      match parseRead ws with
      | some ty =>
        if !ty.streamable then (st, "bad-op")
        else if isStrTy ty && decide (s.flat.length ≥ 4) && decide (leVal (s.flat.take 4) > 16777216) then (st, "guard:huge")
        else let r := decStream effCfg ty s; (.stream r.2, showOut r.1 ++ s!" left={r.2.flat.length}")
      | none => (st, "bad-op")

/-- oracle state: the machine state and the raw values (`read`/`readn`/`zreadn` results) handed out so far.
    Values are immutable in the model: `recheck` prints them again, unchanged. They are forgotten by every initialising
    line and, on a buffer, by every well-formed write / `reset` / `rewrite*` / `tostream` (BufferX.ZReadN hands out the
    buffer's own storage, valid until the buffer is written to). -/
structure OSt where
  st : St
  kept : List Bytes

def isInit : List String → Bool
  | ["new"] => true
  | ["news", _] => true
  | ["load", _] => true
  | "tload" :: _ :: _ => true
  | ["sload", _, _] => true
  | ["sloadf", _, _] => true
  | ["bigrt", _, _, _, _] => true
  | _ => false

def rawOk : Out Val → Option Bytes
  | .ok (.raw p) => some p
  | _ => none

def keptAfter (o : OSt) (ws : List String) (st' : St) : List Bytes :=
  if isInit ws then [] else
  match o.st with
  | .none => o.kept
  | .buf bs =>
    if (parseWrite ws).isSome then [] else
    match parseRead ws with
    | some ty => match rawOk (decBuf ty bs).1 with
      | some p => o.kept ++ [p]
      | none => o.kept
    | none =>
      match ws with
      | ["reset"] => []
      | ["rewrite", p, h] => if (parseCount p).isSome && (parseHex h).isSome then [] else o.kept
      | ["rewriteu32", p, v] => if (parseCount p).isSome && (parseU 32 v).isSome then [] else o.kept
      | ["rewriteself", p, a, b] =>
        match parseCount p, parseDec a, parseDec b with
        | some _, some a, some b => if a ≤ b ∧ b ≤ bs.length then [] else o.kept
        | _, _, _ => o.kept
      | ["tostream", _, _] => match st' with
        | .stream _ => []
        | _ => o.kept
      | _ => o.kept
  | .stream s =>
    match parseRead ws with
    | some ty =>
      if ty.streamable && !isStrTy ty then
        match rawOk (decStream effCfg ty s).1 with
        | some p => o.kept ++ [p]
        | none => o.kept
      else o.kept
    | none => o.kept

def stepK (o : OSt) (line : String) : OSt × String :=
  let ws := words line
  match ws, o.st with
  | ["sentinels"], _ =>
    (o, s!"empty={errText .empty} wrongNum={errText .wrongNum} sizeLimit={errText .sizeLimit} distinct=true")
  | ["recheck"], .buf _ => (o, "recheck=" ++ (if o.kept.isEmpty then "." else ",".intercalate (o.kept.map showHex)))
  | ["recheck"], .stream _ => (o, "recheck=" ++ (if o.kept.isEmpty then "." else ",".intercalate (o.kept.map showHex)))
  | _, _ =>
    let r := step o.st line
    (⟨r.1, keptAfter o ws r.1⟩, r.2)

def main : IO Unit := oracleMain stepK ⟨St.none, []⟩
