import Std.Data.HashSet
import Nv.OracleIO
import Nv.Model.C02
import Nv.Gen.C02
/-!
oracle_c02 — line protocol (threads `0..N-1`, keys `0..K-1`; `sᵢ` = shard index of key i as routed by `remap`):
  `init <kl|klg|tkl|tkg> <hash> <nShards> <N> <K> <s0> … <s(K-1)>`   → `ok`
  `lock|rlock|unlock|runlock <t> <k>`, `locks|rlocks|unlocks|runlocks <t> <k,k,…|->` (multi: tkl/tkg only)
        → status vector after quiescence, one char per thread: `-` outside any call, `P` parked in a call;
          `busy` (t is parked), `misuse` (lock of a key t holds / duplicate keys / unlock of a key t does not hold in that mode)
  `counts <k>` → `r=<readCount> w=<writeCount> p=<0|1>`     (T-observable)
  `entries`    → number of map entries                       (T-observable)
  `burst|unburst <t> <w|r> <lo> <hi>` (single-shard lockers) → lock / unlock keys lo..hi-1 one after the other; status vector
  `lockrange|unlockrange <t> <w|r> <lo> <hi>` (1-shard tkl/tkg) → ONE multi-key call over keys lo..hi-1 (up to 6500 keys)
  `remap <p>` → `ok` (another ReMap and locker with p shards are created and used; routing here is unaffected)
  `mutate <k>` → `ok` (pointer keys: the pointee changes, the key does not)
  key kinds `ptr`/`flt` on group lockers: remap cannot route them, every lock call answers `unroutable`
  `stress <G> <iters>` → `ok` (G goroutines hammer a fresh locker of the same shape; monitors only)
  `drain`      → every thread outside a call releases what it holds (lowest thread, lowest key first), repeatedly; status vector
When woken threads race for a further key the quiescent state is not unique: the oracle tracks the set of
possible states and prints the set of possible answers `{a|b}`. Sleeping writers are woken in FIFO order.
The configuration is the one regenerated from the source (`Nv.Gen.C02.cfg`).
-/
open Nv Nv.C02

structure Snap where
  objs : List Wrap
  next : Nat
  table : List (Option ObjId)
  th : List Thread
  fault : Bool
deriving DecidableEq, Hashable

structure Env where
  /-- keys of a kind remap cannot route (pointer, float) on a group locker: every lock call panics in remap before it locks -/
  unroutable : Bool
  multi : Bool
  n : Nat
  sh : List Nat
  N : Nat
  K : Nat

def snap (e : Env) (s : State) : Snap :=
  ⟨(List.range s.next).map s.objs, s.next, (List.range e.K).map s.table, (List.range e.N).map s.th, s.fault⟩

def ofSnap (p : Snap) : State :=
  -- arrays: constant-time lookups after a normalisation (scripts with thousands of keys)
  let objs := p.objs.toArray
  let table := p.table.toArray
  let th := p.th.toArray
  ⟨fun o => objs.getD o Wrap.empty, p.next, fun k => table.getD k none, fun t => th.getD t Thread.init, p.fault⟩

def cfg : Cfg := Nv.Gen.C02.cfg
def Env.shf (e : Env) : Key → Nat := fun k => e.sh.getD k 0
def Env.step (e : Env) (s : State) (a : Act) : Option State := Nv.C02.step cfg e.n e.shf s a

def nGroups : Phase → Nat
  | .reg _ _ g _ => g.length + 1
  | .rel _ g => g.length + 1
  | _ => 0

/-- run `act` for thread `t` until its group count drops (one table-mutex section of the code) -/
def runGroup (e : Env) (a : Act) (t : Tid) : Nat → State → State
  | 0, s => s
  | fuel + 1, s =>
    match e.step s a with
    | none => s
    | some s' =>
      if nGroups (s'.th t).phase < nGroups (s.th t).phase then s'
      else runGroup e a t fuel (if fuel % 128 == 0 then ofSnap (snap e s') else s')  -- cut the closure chains of long groups

/-- runtime scheduling policy the LTS leaves open: `rw.w` (a `sync.Mutex`) wakes its sleepers in FIFO order, so a
sleeping writer that is not the oldest does not compete (threads that never slept may barge, as in Go) -/
def asleepBehind (s : State) (t : Tid) : Bool :=
  match (s.th t).phase with
  | .acq .w _ ((_, o) :: _) =>
    let w := s.objs o
    decide (t ∈ w.pendW) && w.pendW.head? != some t
  | _ => false

/-- the next macro step of thread `t`, if it is enabled -/
def macroStep (e : Env) (s : State) (t : Tid) : Option State :=
  match (s.th t).phase with
  | .idle => none
  | .reg .. => some (runGroup e (.reg t) t (e.K + 2) s)
  | .rel .. => some (runGroup e (.rel t) t (e.K + 2) s)
  | .acq .. => if asleepBehind s t then none else e.step s (.lock t)

/-- objects a thread may still touch in its current call -/
def objsOf (s : State) (u : Tid) : List ObjId :=
  match (s.th u).phase with
  | .idle => []
  | .reg _ _ gs acc => acc.map (·.2) ++ gs.flatten.filterMap s.table
  | .acq _ _ todo => todo.map (·.2)
  | .rel _ gs => gs.flatten.filterMap s.table

/-- partial-order reduction: a blocking-call step of `t` on an object that no other thread's current call can touch
commutes with everything the others can do until quiescence, so exploring it alone loses no quiescent state -/
def independentLock (e : Env) (s : State) (t : Tid) : Bool :=
  match (s.th t).phase with
  | .acq _ _ ((_, o) :: _) => (List.range e.N).all fun u => u == t || !(objsOf s u).contains o
  | .acq _ _ [] => true
  | _ => false

/-- all quiescent states reachable from the frontier, exploring every order of the enabled macro steps
(every state is expanded once: `seen` holds everything already put on the frontier) -/
def settleLoop (e : Env) : Nat → List State → Std.HashSet Snap → List Snap → List Snap
  | 0, _, _, quiet => quiet
  | _, [], _, quiet => quiet
  | fuel + 1, s :: rest, seen, quiet =>
    let succs :=
      match (List.range e.N).find? (fun t => independentLock e s t && (macroStep e s t).isSome) with
      | some t => (macroStep e s t).toList
      | none => (List.range e.N).filterMap (macroStep e s)
    if succs.isEmpty then settleLoop e fuel rest seen (snap e s :: quiet)
    else
      let (seen', fresh) := succs.foldl (fun (acc : Std.HashSet Snap × List State) s' =>
        let p := snap e s'
        if acc.1.contains p then acc else (acc.1.insert p, ofSnap p :: acc.2)) (seen, [])
      settleLoop e fuel (fresh ++ rest) seen' quiet

def settle (e : Env) (s : State) : List State :=
  ((settleLoop e 1000000 [s] (Std.HashSet.emptyWithCapacity.insert (snap e s)) []).reverse).map ofSnap

def statusVec (e : Env) (s : State) : String :=
  if s.fault then "fault" else
  String.ofList ((List.range e.N).map fun t => if (s.th t).phase = .idle then '-' else 'P')

/-- one call op on one possible state: resulting states, or a refusal -/
def doCall (e : Env) (s : State) (a : Act) (t : Tid) : List State ⊕ String :=
  if s.fault then .inr "fault" else
  if (s.th t).phase ≠ .idle then .inr "busy" else
  match e.step s a with
  | none => .inr "misuse"
  | some s' => if e.unroutable then .inr "unroutable" else .inl (settle e s')

/-- first (thread, key, mode) to release in a drain: lowest thread outside a call that holds something, its lowest key -/
def drainPick (e : Env) (s : State) : Option (Tid × Key × Mode) :=
  (List.range e.N).findSome? fun t =>
    if (s.th t).phase = .idle then
      (List.range e.K).findSome? fun k =>
        (s.th t).held.findSome? fun h => if h.1 = k then some (t, k, h.2.2) else none
    else none

def drainLoop (e : Env) : Nat → List State → List Snap → List Snap
  | 0, _, done => done
  | _, [], done => done
  | fuel + 1, s :: rest, done =>
    match (if s.fault then none else drainPick e s) with
    | none => let p := snap e s; drainLoop e fuel rest (if p ∈ done then done else p :: done)
    | some (t, k, m) =>
      match e.step s (.uncall t m [k]) with
      | none => let p := snap e s; drainLoop e fuel rest (if p ∈ done then done else p :: done)
      | some s' => drainLoop e fuel (settle e s' ++ rest) done

def dedupStr : List String → List String
  | [] => []
  | x :: xs => if x ∈ dedupStr xs then dedupStr xs else x :: dedupStr xs

def showSet (l : List String) : String :=
  match dedupStr l with
  | [x] => x
  | xs => "{" ++ "|".intercalate xs ++ "}"

def dedupStates (e : Env) (l : List State) : List State :=
  (l.foldl (fun (acc : List Snap) s => let p := snap e s; if p ∈ acc then acc else acc ++ [p]) []).map ofSnap

structure OS where
  env : Option Env
  states : List State

/-- decimal digits only, no leading zero (the runner parses the same way) -/
def strictNat? (s : String) : Option Nat :=
  let cs := s.toList
  if cs.isEmpty || !cs.all Char.isDigit || (cs.length > 1 && cs.head? == some '0') || cs.length > 6 then none
  else some (cs.foldl (fun n c => 10 * n + (c.toNat - '0'.toNat)) 0)

def parseKeys (K : Nat) (s : String) : Option (List Key) :=
  if s == "-" then some [] else
  (s.splitOn ",").mapM fun w => match strictNat? w with
    | some k => if k < K then some k else none
    | none => none

def parseInit (ws : List String) : Option Env :=
  match ws with
  | kind :: hash :: n :: nT :: nK :: shs =>
    match strictNat? n, strictNat? nT, strictNat? nK, shs.mapM strictNat? with
    | some n, some nT, some nK, some shs =>
      let single := kind == "kl" || kind == "tkl"
      let multi := kind == "tkl" || kind == "tkg"
      let known := single || kind == "klg" || kind == "tkg"
      if known && (hash == "mod" || hash == "xh" || hash == "str" || hash == "neg" || hash == "n64" || hash == "hit" || hash == "ptr" || hash == "flt" || hash == "bsx" || hash == "col") && n ≥ 1 && n ≤ 100 && nT ≥ 1 && nT ≤ 48 && nK ≥ 1 && nK ≤ 48 && shs.length == nK && shs.all (· < n) && (!single || n == 1) && (hash != "flt" || !single) && (hash != "bsx" || kind == "klg") && (hash != "col" || kind == "klg" || kind == "tkg") && (hash != "hit" || !multi) && (hash != "n64" || multi) && ((hash != "neg" && hash != "n64") || nK ≤ 12)
      then some ⟨(hash == "ptr" || hash == "flt") && !single, multi, n, shs, nT, nK⟩ else none
    | _, _, _, _ => none
  | _ => none

def callOp (os : OS) (e : Env) (t : Tid) (mk : Tid → Act) : OS × String :=
  let rs := os.states.map fun s => (s, doCall e s (mk t) t)
  let next := rs.flatMap fun (s, r) => match r with | .inl l => l | .inr _ => [s]
  let outs := rs.flatMap fun (_, r) => match r with | .inl l => l.map (statusVec e) | .inr m => [m]
  ({ os with states := dedupStates e next }, showSet outs)

/-- thread `t` runs alone until it is idle or asleep (no other thread is inside a call: nothing to interleave with) -/
def runAlone (e : Env) (t : Tid) : Nat → State → State
  | 0, s => s
  | fuel + 1, s =>
    match macroStep e s t with
    | none => s
    | some s' => runAlone e t fuel s'

/-- `burst`/`unburst`: the fold of single-key calls over the keys `lo..hi-1` by thread `t`, stopping when `t` parks;
keys `t` already holds (burst) or does not hold in that mode (unburst) are skipped -/
def burstState (e : Env) (t : Tid) (m : Mode) (un : Bool) : List Key → Nat → State → List State
  | [], _, s => [s]
  | k :: ks, i, s =>
    if s.fault || (s.th t).phase ≠ .idle then [s] else
    let skip := if un then !(decide (holdsIn (s.th t) m k)) else decide (k ∈ heldKeys (s.th t))
    if skip then burstState e t m un ks i s else
    match e.step s (if un then .uncall t m [k] else .call t m [k]) with
    | none => burstState e t m un ks i s
    | some s1 =>
      if (List.range e.N).all (fun u => u == t || (s1.th u).phase = .idle) then
        let s2 := runAlone e t 64 s1
        -- keep the closure chains short
        let s3 := if i % 32 == 31 then ofSnap (snap e s2) else s2
        burstState e t m un ks (i + 1) s3
      else (settle e s1).flatMap (burstState e t m un ks (i + 1))

/-- thread `t` runs alone through a long call; the closure chains are cut every 128 steps -/
def runAloneN (e : Env) (t : Tid) : Nat → Nat → State → State
  | 0, _, s => s
  | fuel + 1, i, s =>
    match macroStep e s t with
    | none => s
    | some s' => runAloneN e t fuel (i + 1) (if i % 128 == 127 then ofSnap (snap e s') else s')

/-- `lockrange`/`unlockrange`: ONE Locks/RLocks/Unlocks/RUnlocks call over the keys `lo..hi-1` -/
def rangeOp (os : OS) (e : Env) (t : Tid) (m : Mode) (un : Bool) (lo hi : Nat) : OS × String :=
  let e' : Env := { e with K := max e.K hi }
  let keys := (List.range (hi - lo)).map (· + lo)
  let a : Act := if un then .uncall t m keys else .call t m keys
  let rs := os.states.map fun s =>
    if s.fault then (s, (.inr "fault" : List State ⊕ String)) else
    if (s.th t).phase ≠ .idle then (s, .inr "busy") else
    match e'.step s a with
    | none => (s, .inr "misuse")
    | some s1 =>
      if (List.range e'.N).all (fun u => u == t || (s1.th u).phase = .idle) then
        (s, .inl [ofSnap (snap e' (runAloneN e' t (3 * (hi - lo) + 64) 0 s1))])
      else (s, .inl (settle e' s1))
  let next := rs.flatMap fun (s, r) => match r with | .inl l => l | .inr _ => [s]
  let outs := rs.flatMap fun (_, r) => match r with | .inl l => l.map (statusVec e') | .inr x => [x]
  (⟨some e', dedupStates e' next⟩, showSet outs)

def burstOp (os : OS) (e : Env) (t : Tid) (m : Mode) (un : Bool) (lo hi : Nat) : OS × String :=
  let e' : Env := { e with K := max e.K hi }
  let keys := (List.range (hi - lo)).map (· + lo)
  let next := dedupStates e' (os.states.flatMap (burstState e' t m un keys 0))
  (⟨some e', next⟩, showSet (next.map (statusVec e')))

def step (os : OS) (line : String) : OS × String :=
  match words line with
  | "init" :: rest =>
    match parseInit rest with
    | some e => (⟨some e, [State.init]⟩, "ok")
    | none => (⟨none, []⟩, "bad-op")
  | ws =>
    match os.env with
    | none => (os, "bad-op")
    | some e =>
      let single (m : Mode) (un : Bool) (t k : String) : OS × String :=
        match strictNat? t, strictNat? k with
        | some t, some k =>
          if t < e.N && k < e.K then callOp os e t (fun t => if un then .uncall t m [k] else .call t m [k]) else (os, "bad-op")
        | _, _ => (os, "bad-op")
      let multi (m : Mode) (un : Bool) (t ks : String) : OS × String :=
        if !e.multi then (os, "bad-op") else
        match strictNat? t, parseKeys e.K ks with
        | some t, some ks =>
          if t < e.N then callOp os e t (fun t => if un then .uncall t m ks else .call t m ks) else (os, "bad-op")
        | _, _ => (os, "bad-op")
      match ws with
      | ["lock", t, k] => single .w false t k
      | ["rlock", t, k] => single .r false t k
      | ["unlock", t, k] => single .w true t k
      | ["runlock", t, k] => single .r true t k
      | ["locks", t, ks] => multi .w false t ks
      | ["rlocks", t, ks] => multi .r false t ks
      | ["unlocks", t, ks] => multi .w true t ks
      | ["runlocks", t, ks] => multi .r true t ks
      | ["counts", k] =>
        match strictNat? k with
        | some k =>
          if k < e.K then
            (os, showSet (os.states.map fun s => match s.table k with
              | none => "r=0 w=0 p=0"
              | some o => s!"r={(s.objs o).rc} w={(s.objs o).wc} p=1"))
          else (os, "bad-op")
        | none => (os, "bad-op")
      | ["remap", p] =>
        -- the process creates another ReMap / locker with p shards: routing of THIS locker is a pure function of the key
        -- and its own shard count (`sh` is a parameter of the transition system), so nothing changes
        match strictNat? p with
        | some p => if p ≥ 1 && p ≤ 100 then (os, "ok") else (os, "bad-op")
        | none => (os, "bad-op")
      | ["mutate", k] =>
        -- the key object is modified in place (pointer keys): its identity, hence the key, is unchanged
        match strictNat? k with
        | some k => if k < e.K then (os, "ok") else (os, "bad-op")
        | none => (os, "bad-op")
      | ["entries"] =>
        (os, showSet (os.states.map fun s => toString ((List.range e.K).filter (fun k => (s.table k).isSome)).length))
      | [op, t, md, lo, hi] =>
        if op == "lockrange" || op == "unlockrange" then
          match strictNat? t, strictNat? lo, strictNat? hi with
          | some t, some lo, some hi =>
            let m? : Option Mode := if md == "w" then some .w else if md == "r" then some .r else none
            match m? with
            | some m =>
              if t < e.N && e.n == 1 && e.multi && lo < hi && hi ≤ 8192 && hi - lo ≤ 6500 then rangeOp os e t m (op == "unlockrange") lo hi
              else (os, "bad-op")
            | none => (os, "bad-op")
          | _, _, _ => (os, "bad-op")
        else
        if op != "burst" && op != "unburst" then (os, "bad-op") else
        match strictNat? t, strictNat? lo, strictNat? hi with
        | some t, some lo, some hi =>
          let m? : Option Mode := if md == "w" then some .w else if md == "r" then some .r else none
          match m? with
          | some m =>
            if t < e.N && e.n == 1 && lo < hi && hi ≤ 2048 && hi - lo ≤ 1600 then burstOp os e t m (op == "unburst") lo hi
            else (os, "bad-op")
          | none => (os, "bad-op")
        | _, _, _ => (os, "bad-op")
      | ["stress", g, it] =>
        -- a parallel stress run on a fresh locker of the same shape: no model state, answer is `ok` when it ends cleanly
        match strictNat? g, strictNat? it with
        | some g, some it => if g ≥ 1 && g ≤ 16 && it ≥ 1 && it ≤ 5000 then (os, "ok") else (os, "bad-op")
        | _, _ => (os, "bad-op")
      | ["drain"] =>
        let next := (drainLoop e 10000 os.states []).reverse.map ofSnap
        ({ os with states := next }, showSet (next.map (statusVec e)))
      | _ => (os, "bad-op")

def main : IO Unit := oracleMain step ⟨none, []⟩
