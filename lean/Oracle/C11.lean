import Nv.OracleIO
import Nv.Model.C11
import Nv.Spec.C11
import Nv.Gen.C11
/-!
oracle_c11 — line protocol. Every output line has two halves: `T <result> len=<n> d=<unread> ## B <result> len=<n> d=<unread>`;
`T` is the implementation-shaped model of `tex.Buffer` (configuration regenerated from the source), `B` the abstract
buffer (`bytes.Buffer`). `B -` for operations only tex.Buffer has; `B *` once the script left the compared domain
(Unread* while a Grow is the last lastRead-relevant operation — the property's own exclusion —, ReWrite, or a ReadFrom whose
reader may deliver more than MinRead bytes per call: what it delivers then depends on the space offered = capacity policy).
`news n` runs `St.sized n`, which `newSizedBuffer_eq` (Props) proves equal to the model of the constructor's body (make + Reset).

  init:  `new` | `news <size>` | `newb <bytes> <extraCap>`
  ops:   `write <bytes>` `writestr <bytes>` `writebyte <hh>` `writerune <int>` `read <k>` `readbyte` `readrune`
         `unreadbyte` `unreadrune` `next <n>` `truncate <n>` `reset` `grow <n>`
         `readfrom <bytes> eof|err|neg|over[+] <tail> <chunk>*` (`+` = greedy after the chunks; chunk ::= k | k*n, `0*100` = 100 empty reads) `writeto all|over|short|err [k]`
         `len` `bytes` `string` `cap` `off` `rewrite <pos> <bytes>` `rewriteself <pos> <from> <to>` `memprobe <n>` `big <a> <n> <r>`
  <bytes> ::= `-` | hex | `x<a>:<n>` (n bytes (a + 13 i) mod 256)
Byte strings longer than 24 are printed as `#<len>:<fnv1a-64>`.
-/
open Nv Nv.C11

def hexVal (c : Char) : Option Nat :=
  if '0' ≤ c ∧ c ≤ '9' then some (c.toNat - '0'.toNat)
  else if 'a' ≤ c ∧ c ≤ 'f' then some (c.toNat - 'a'.toNat + 10)
  else none

def parseHexList : List Char → Option Bytes
  | [] => some []
  | a :: b :: rest => do
    let x ← hexVal a
    let y ← hexVal b
    let r ← parseHexList rest
    pure (UInt8.ofNat (x * 16 + y) :: r)
  | _ => none

def patBytes (a n : Nat) : Bytes := (List.range n).map (fun i => UInt8.ofNat ((a + 13 * i) % 256))

def parseBytes (s : String) : Option Bytes :=
  if s == "-" then some []
  else if s.startsWith "x" then
    match ((s.drop 1).toString.splitOn ":") with
    | [a, n] => do
      let a ← a.toNat?
      let n ← n.toNat?
      if n > 1000000 then none else pure (patBytes a n)
    | _ => none
  else parseHexList s.toList

def hexDigit (n : Nat) : Char := if n < 10 then Char.ofNat (48 + n) else Char.ofNat (87 + n)
def hexByte (b : UInt8) : String := String.ofList [hexDigit (b.toNat / 16), hexDigit (b.toNat % 16)]

def fnv (d : Bytes) : UInt64 := d.foldl (fun h b => (h ^^^ b.toUInt64) * 0x100000001b3) 0xcbf29ce484222325

def hex64 (x : UInt64) : String :=
  String.ofList ((List.range 16).map (fun i => hexDigit ((x.toNat >>> (4 * (15 - i))) % 16)))

/-- FNV-1a over the pattern bytes `(a + 13 i) mod 256` for `i` in `[lo, hi)`, streamed (no list) -/
def patFnv (a lo hi : Nat) (h : UInt64) : UInt64 := Id.run do
  let mut h := h
  for i in [lo:hi] do
    h := (h ^^^ (UInt8.ofNat ((a + 13 * i) % 256)).toUInt64) * 0x100000001b3
  return h

def showBytes (d : Bytes) : String :=
  if d.isEmpty then "-"
  else if d.length ≤ 24 then String.join (d.map hexByte)
  else s!"#{d.length}:{hex64 (fnv d)}"

def showErr : Err → String
  | .nil => "nil" | .eof => "EOF" | .unreadByte => "unreadbyte" | .unreadRune => "unreadrune"
  | .shortWrite => "short" | .readerErr => "rerr" | .writerErr => "werr"

def showPan : Pan → String
  | .truncateRange => "truncate-range" | .growNegative => "grow-negative" | .tooLarge => "too-large"
  | .negativeRead => "negative-read" | .invalidWriteCount => "invalid-write-count"
  | .sliceBounds => "slice-bounds" | .makeslice => "makeslice"

def showOut : Out → String
  | .ok => "ok"
  | .nErr n e => s!"n={n} err={showErr e}"
  | .err e => s!"err={showErr e}"
  | .readRes n d e => s!"n={n} d={showBytes d} err={showErr e}"
  | .byteRes b e => s!"b={hexByte b} err={showErr e}"
  | .runeRes r sz e => s!"r={r} size={sz} err={showErr e}"
  | .data d => s!"d={showBytes d}"
  | .int n => s!"{n}"
  | .wrote n got e => s!"n={n} got={match got with | some d => showBytes d | none => "none"} err={showErr e}"
  | .panic p => s!"panic:{showPan p}"

def view (d : Bytes) : String := s!"len={d.length} d={showBytes d}"

structure O where
  impl : St
  spec : Spec.SSt
  taint : Bool      -- a Grow happened and no operation since has (re)assigned lastRead
  desync : Bool     -- the script left the domain compared with bytes.Buffer
  started : Bool

def O.init : O := ⟨St.zero, Spec.SSt.empty, false, false, false⟩

/-- chunk token `<k>` or `<k>*<n>` (n consecutive calls delivering up to k bytes each; `0*100` = 100 empty reads) -/
def parseChunk (t : String) : Option (List Nat) :=
  match t.splitOn "*" with
  | [k] => (parseNat? k).map (fun k => [k])
  | [k, n] => do
    let k ← parseNat? k
    let n ← parseNat? n
    if n > 1000 then none else pure (List.replicate n k)
  | _ => none

def parseOp (ws : List String) : Option Op :=
  match ws with
  | ["write", b] => (parseBytes b).map .write
  | ["writestr", b] => (parseBytes b).map .writeString
  | ["writebyte", b] => match parseBytes b with | some [x] => some (.writeByte x) | _ => none
  | ["writerune", r] => (parseInt? r).bind (fun r => if -2147483648 ≤ r ∧ r ≤ 2147483647 then some (.writeRune r) else none)
  | ["read", k] => (parseNat? k).map .read
  | ["readbyte"] => some .readByte
  | ["readrune"] => some .readRune
  | ["unreadbyte"] => some .unreadByte
  | ["unreadrune"] => some .unreadRune
  | ["next", n] => (parseInt? n).map .next
  | ["truncate", n] => (parseInt? n).map .truncate
  | ["reset"] => some .reset
  | ["grow", n] => (parseInt? n).map .grow
  | "readfrom" :: b :: t :: tail :: ks => do
    let d ← parseBytes b
    let greedy := t.endsWith "+"
    let t := if greedy then String.ofList t.toList.dropLast else t
    let term ← (match t with | "eof" => some RTerm.eof | "err" => some .err | "neg" => some .neg | "over" => some .over | _ => none)
    let tail ← parseNat? tail
    let ks ← (ks.mapM parseChunk).map List.flatten
    pure (.readFrom ⟨d, ks, tail, term, greedy⟩)
  | ["writeto", "all"] => some (.writeTo .all)
  | ["writeto", "over"] => some (.writeTo .over)
  | ["writeto", "short", k] => (parseNat? k).map (fun k => .writeTo (.short k))
  | ["writeto", "err", k] => (parseNat? k).map (fun k => .writeTo (.err k))
  | ["len"] => some .len
  | ["bytes"] => some .bytes
  | ["string"] => some .string
  | ["cap"] => some .cap
  | ["off"] => some .off
  | ["rewrite", pos, b] => do
    let pos ← parseInt? pos
    let d ← parseBytes b
    pure (.rewrite pos d)
  | _ => none

def texOnly : Op → Bool
  | .cap | .off | .rewrite _ _ => true
  | _ => false

def isUnread : Op → Bool
  | .unreadByte | .unreadRune => true
  | _ => false

def keepsTaint : Op → Bool
  | .len | .bytes | .string | .cap | .off | .rewrite _ _ => true
  | _ => false

def isGrow : Op → Bool
  | .grow _ => true
  | _ => false

/-- a scripted reader that may hand over more than `MinRead` bytes in one call: how much it delivers then depends on
    the size of the slice it was offered, i.e. on the capacity policy — outside the compared domain like `Cap()` -/
def spaceDependent : Op → Bool
  | .readFrom r => r.sizes.any (fun k => k > Nv.Gen.C11.cfg.minRead) || r.tail > Nv.Gen.C11.cfg.minRead
  | _ => false

def line (ti : St) (to : Out) (b : String) : String := s!"T {showOut to} {view ti.data} ## B {b}"

def step (o : O) (l : String) : O × String :=
  match words l with
  | ["new"] =>
    let o' : O := ⟨St.zero, Spec.SSt.empty, false, false, true⟩
    (o', line o'.impl .ok s!"ok {view []}")
  | ["news", n] =>
    match parseInt? n with
    | some n =>
      if n < 0 ∨ n > (allocLimit : Int) then
        let o' : O := ⟨St.zero, Spec.SSt.empty, false, false, true⟩
        (o', line o'.impl (.panic .makeslice) s!"ok {view []}")
      else
        let o' : O := ⟨St.sized n.toNat, Spec.SSt.empty, false, false, true⟩
        (o', line o'.impl .ok s!"ok {view []}")
    | none => (o, "bad-op")
  | ["newb", b, extra] =>
    match parseBytes b, parseNat? extra with
    | some d, some e =>
      let o' : O := ⟨St.ofBytes d e, Spec.SSt.ofBytes d, false, false, true⟩
      (o', line o'.impl .ok s!"ok {view d}")
    | _, _ => (o, "bad-op")
  | ["memprobe", n] =>
    -- T-observable: `Grow(n)` on a zero buffer in a child process with capped memory. The model's allocation rule:
    -- beyond `allocLimit` → ErrTooLarge; below it the request is granted if memory suffices (`MemOk`), else the runtime aborts.
    if !o.started then (o, "bad-op")
    else match parseNat? n with
    | some n => (o, if n > allocLimit then "T too-large ## B too-large" else "{T ok ## B ok|T fatal ## B fatal}")
    | none => (o, "bad-op")
  | ["big", a, n, r] =>
    -- one payload far above what the list model can hold in memory: on FRESH buffers `Write(pat a n); Next(r); Write(pat (a+1) n)`.
    -- Answered from the abstract buffer on (length, digest) — the contents `pat a n [r:] ++ pat (a+1) n` are streamed, never built.
    if !o.started then (o, "bad-op")
    else match parseNat? a, parseNat? n, parseNat? r with
    | some a, some n, some r =>
      if n > 67108864 ∨ r > n then (o, "bad-op")
      else
        let h := patFnv (a + 1) 0 n (patFnv a r n 0xcbf29ce484222325)
        let half := s!"n={n},{n} next={r} len={2 * n - r} h={hex64 h}"
        (o, s!"T {half} ## B {half}")
    | _, _, _ => (o, "bad-op")
  | ["rewriteself", pos, f, t] =>
    -- `ReWrite(pos, b.Bytes()[f:t])` (bounds clamped to the unread length): the payload aliases the storage; `copy` is memmove,
    -- i.e. the bytes written are the OLD values — exactly `rewrite` with the payload read off the current state
    if !o.started then (o, "bad-op")
    else match parseInt? pos, parseNat? f, parseNat? t with
    | some pos, some f, some t =>
      let d := o.impl.data
      let f' := min f d.length
      let t' := min (max t f') d.length
      let (ti, to) := C11.step Nv.Gen.C11.cfg o.impl (.rewrite pos ((d.drop f').take (t' - f')))
      (⟨ti, o.spec, o.taint, true, true⟩, line ti to "*")
    | _, _, _ => (o, "bad-op")
  | ws =>
    if !o.started then (o, "bad-op")
    else match parseOp ws with
    | none => (o, "bad-op")
    | some op =>
      let (ti, to) := C11.step Nv.Gen.C11.cfg o.impl op
      let desync := o.desync || (o.taint && isUnread op) || (match op with | .rewrite _ _ => true | _ => false)
        || spaceDependent op
      let taint := if isGrow op then true else if keepsTaint op then o.taint else false
      if desync then
        (⟨ti, o.spec, taint, true, true⟩, line ti to "*")
      else if texOnly op then
        (⟨ti, o.spec, taint, false, true⟩, line ti to "-")
      else
        let (si, so) := Spec.step o.spec op
        (⟨ti, si, taint, false, true⟩, line ti to s!"{showOut so} {view si.data}")

def main : IO Unit := oracleMain step O.init
