import Nv.OracleIO
import Nv.Model.C07
import Nv.Gen.C07
/-!
oracle_c07 — line protocol (numbers decimal, signed 64-bit):
  `cfg <epochMs> <nodeBits:8|9|10> <nodeAtLowest:0|1>`  (re)initialise                    → `ok`
  `fields <id>`        IDFields                                                         → `<time> <node> <step>`
  `parse <id>`         IDParse                                                          → `<ms> <node> <step>`
  `parsex <id>`        IDParseEx (civil time in Asia/Shanghai)                          → `<Y> <M> <D> <h> <m> <s> <ms> <node> <step>` | `pre-2000`
  `range <sec> <ns>`   TimeIDRange(time.Unix(sec, ns)), 0 ≤ ns < 10^9                    → `<min> <max>`
  `between <b> <bns> <e> <ens>`  TimeBetweenID(time.Unix(b,bns), time.Unix(e,ens))       → `<min> <max>`
  `cn <id>`            CnStyle                                                          → 24 characters | `pre-2000`
  `from <text>`        FromChStyle                                                      → `<id>` | `err` | `pre-2000`
  `rt <id>`            FromChStyle(CnStyle(id))                                         → `<text> <id'>` | `pre-2000`
  `setup <epochMs> <mode> <lowest>`  (re)initialise through the real Setup (epoch 2000…2250)   → `epoch=<e> nb=<n> nal=<b>`
  `warm`               runs the rest of the package's API (must not touch the codec's state)      → `ok`
  `rtpar <id> <g> <k>` round trip of id, id+1, … from g goroutines × k                           → `ok` | `pre-2000`
  `cnbatch <id>+`      CnStyle of every id first, then FromChStyle of every text                  → `ok` | `bad@<i>` | `pre-2000`
  `tzrt <zone> <id>`   the same round trip in a child process started with TZ=<zone> (the codec's zone is fixed: the
                       host's zone must not matter)                                                → as `rt`
  `cmp <a> <b>`        order of (timestamp, remaining bits) pairs                       → `-1` | `0` | `1`
`pre-2000`: the instant is outside the fixed-offset part of the zone the calendar models.
The accessor configuration is the one regenerated from the source (`Nv.Gen.C07.cfg`).
-/
open Nv Nv.C07 Nv.C06

structure OState where
  ready : Bool := false
  epoch : BitVec 64 := 0#64
  nb : BitVec 8 := 10#8
  nal : Bool := false

def isDec (s : String) : Bool :=
  match s.toList with
  | '-' :: d :: ds => (d :: ds).all Char.isDigit
  | d :: ds => (d :: ds).all Char.isDigit
  | [] => false

def parseI64 (s : String) : Option (BitVec 64) :=
  if !isDec s then none else
  match s.toInt? with
  | some i => if decide (-9223372036854775808 ≤ i) && decide (i ≤ 9223372036854775807) then some (BitVec.ofInt 64 i) else none
  | none => none

/-- a nanosecond part `0 ≤ ns < 10^9` (so that `time.Unix(sec, ns).Unix() = sec`) -/
def parseNs (s : String) : Bool :=
  isDec s && !(s.startsWith "-") && (match s.toNat? with | some n => decide (n < 1000000000) | none => false)

def showId (b : BitVec 64) : String := toString b.toInt

def ms2000 : Int := 946684800000

def show3 (f : BitVec 64 × BitVec 64 × BitVec 64) : String := s!"{showId f.1} {showId f.2.1} {showId f.2.2}"
def show2 (f : BitVec 64 × BitVec 64) : String := s!"{showId f.1} {showId f.2}"

/-- zone names the runner accepts: `[A-Za-z_]+(/[A-Za-z_]+)?` -/
def isZone (z : String) : Bool :=
  let okPart (p : String) : Bool := !p.isEmpty && p.toList.all (fun c => c.isAlpha || c == '_')
  match z.splitOn "/" with
  | [a] => okPart a
  | [a, b] => okPart a && okPart b
  | _ => false

/-- `FromChStyle (CnStyle id)` as the `rt` / `tzrt` lines print it -/
def rtLine (s : OState) (id : String) : OState × String :=
  let c := Nv.Gen.C07.cfg
  match parseI64 id with
  | some id =>
    if (cnMs s.nb s.epoch id).toInt < ms2000 then (s, "pre-2000") else
    let v := cnStyle shanghai s.nb s.epoch id
    match fromChStyle c shanghai s.nb s.epoch v with
    | some id' => (s, s!"{String.ofList v} {showId id'}")
    | none => (s, s!"{String.ofList v} err")
  | none => (s, "bad-op")

def step (s : OState) (line : String) : OState × String :=
  let c := Nv.Gen.C07.cfg
  match words line with
  | ["cfg", e, nb, nal] =>
    match parseI64 e, nb, nal with
    | some e, nb, "0" | some e, nb, "1" =>
      if nb == "8" || nb == "9" || nb == "10" then
        ({ ready := true, epoch := e, nb := BitVec.ofNat 8 nb.toNat!, nal := nal == "1" }, "ok")
      else (s, "bad-op")
    | _, _, _ => (s, "bad-op")
  | ["setup", e, mode, lowest] =>
    -- the package's own configuration path (Setup/UseEpoch/UseNodeMode/NodeAtLowest on the defaults); epochs of the codec's
    -- domain only (2000…2250), where every accessor form of UseEpoch yields the epoch asked for
    match parseI64 e, (if isDec mode then mode.toNat? else none), lowest with
    | some e, some mode, "0" | some e, some mode, "1" =>
      if mode > 255 || e.toInt < 946684800000 || e.toInt > 8835984000000 then (s, "bad-op") else
      let r := Nv.C06.setupCfg ⟨.unixMilli, .unixMilli, .unixMilli⟩ e (BitVec.ofNat 8 mode) (lowest == "1")
      ({ ready := true, epoch := r.1, nb := r.2.1, nal := r.2.2 }, s!"epoch={showId r.1} nb={r.2.1.toNat} nal={if r.2.2 then 1 else 0}")
    | _, _, _ => (s, "bad-op")
  | _ =>
  if !s.ready then (s, "bad-op") else
  match words line with
  | ["fields", id] =>
    match parseI64 id with
    | some id => (s, show3 (idFields id s.nb s.nal))
    | none => (s, "bad-op")
  | ["parse", id] =>
    match parseI64 id with
    | some id => (s, show3 (idParse id s.nb s.nal s.epoch))
    | none => (s, "bad-op")
  | ["parsex", id] =>
    match parseI64 id with
    | some id =>
      let p := idParse id s.nb s.nal s.epoch
      if p.1.toInt < ms2000 then (s, "pre-2000") else
      let c := shanghai.toCivil p.1.toInt
      (s, s!"{c.year} {c.month} {c.day} {c.hour} {c.minute} {c.second} {c.milli} {showId p.2.1} {showId p.2.2}")
    | none => (s, "bad-op")
  | ["range", sec, ns] =>
    match parseI64 sec, parseNs ns with
    | some sec, true => (s, show2 (timeIDRange s.nb s.epoch sec))
    | _, _ => (s, "bad-op")
  | ["between", b, bns, e, ens] =>
    match parseI64 b, parseNs bns, parseI64 e, parseNs ens with
    | some b, true, some e, true => (s, show2 (timeBetweenID s.nb s.epoch b e))
    | _, _, _, _ => (s, "bad-op")
  | ["cn", id] =>
    match parseI64 id with
    | some id =>
      if (cnMs s.nb s.epoch id).toInt < ms2000 then (s, "pre-2000")
      else (s, String.ofList (cnStyle shanghai s.nb s.epoch id))
    | none => (s, "bad-op")
  | ["from", v] =>
    let cs := v.toList
    if cs.length == 24 && (match atoi (cs.take 4) with | some y => decide (y < 2000) | none => false) then (s, "pre-2000")
    else match fromChStyle c shanghai s.nb s.epoch cs with
      | some id => (s, showId id)
      | none => (s, "err")
  | ["tzrt", z, id] => if isZone z then rtLine s id else (s, "bad-op")
  | ["rt", id] => rtLine s id
  | ["warm"] => (s, "ok")   -- the runner exercises the rest of the package (NewNode, NewMonoNode, Generate, IDParseEx): no effect on the codec
  | ["rtpar", id, g, k] =>
    -- FromChStyle(CnStyle(id+i)) from g goroutines × k ids each: pure functions, so the answer is that of `rt` for every id
    match parseI64 id, (if isDec g then g.toNat? else none), (if isDec k then k.toNat? else none) with
    | some id, some g, some k =>
      if g < 1 || g > 64 || k < 1 || k > 100000 || id.toInt < 0 || id.toInt > 4611686018427387904 then (s, "bad-op")
      else if (cnMs s.nb s.epoch id).toInt < ms2000 then (s, "pre-2000") else (s, "ok")
    | _, _, _ => (s, "bad-op")
  | "cnbatch" :: ids =>
    -- format a batch of ids, then convert every text back (a date form must stay valid while others are produced)
    match ids.mapM parseI64 with
    | some ids =>
      if ids.isEmpty || ids.length > 64 then (s, "bad-op") else
      if ids.any (fun id => decide ((cnMs s.nb s.epoch id).toInt < ms2000)) then (s, "pre-2000") else
      let bad := (ids.zipIdx.filter (fun p => fromChStyle c shanghai s.nb s.epoch (cnStyle shanghai s.nb s.epoch p.1) != some p.1)).map (·.2)
      (s, match bad with | [] => "ok" | i :: _ => s!"bad@{i}")
    | none => (s, "bad-op")
  | ["cmp", a, b] =>
    match parseI64 a, parseI64 b with
    | some a, some b => (s, toString (lexCmp s.nb s.nal a b))
    | _, _ => (s, "bad-op")
  | _ => (s, "bad-op")

def main : IO Unit := oracleMain step {}
