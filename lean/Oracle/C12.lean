import Nv.OracleIO
import Nv.Model.C12
import Nv.Gen.C12
/-!
oracle_c12 — line protocol (one queue per script; the first line creates it):
  `new q <cap>` | `new async <cap>` | `new mux <cap>` | `new mq <ctrlCap> <reqCap>` | `new syncq` | `new priq <cap>` → `ok`
  list queues: `add x` `prior x` `addc x` `priorc x` `addany x p|c` `addcany x p|c` (the *Anyway adds; if the queue is full the
               retry loop is resolved by PopAnyway-ing until there is room (p) or by Close (c)) `pop` `popany` `trypop`
               `close` `tryclose` `tryclear` `size?` `waitclose` `waitclear`
               `len` `closed?` `cleared?`
  priq:        `push x p` `pop` `len`
results: `ok` `closed` `full` `ctrl-full` `v:<x>` `nil` `none` `would-block` `true|false` `<n>` `bad-op`.
The configuration is the one regenerated from the source (`Nv.Gen.C12.cfg`).
-/
open Nv Nv.C12

inductive St
  | none
  | lq (s : LQ)
  | pq (s : PQ)

def showOut : Out → String
  | .ok => "ok" | .closed => "closed" | .full => "full" | .ctrlFull => "ctrl-full"
  | .val x => s!"v:{x}" | .nil => "nil" | .none => "none" | .wouldBlock => "would-block"
  | .bool b => if b then "true" else "false" | .num n => s!"{n}" | .badOp => "bad-op"
  | .spun l fin => "spun:" ++ showList (fun v => s!"v:{v}") l ++ ":" ++
      (match fin with | .ok => "ok" | .closed => "closed" | .forever => "forever")

def parseKind (s : String) : Option Kind :=
  if s == "q" then some .q else if s == "async" then some .async else if s == "mux" then some .mux
  else none

def parseOp : List String → Option Op
  | ["add", x] => (parseNat? x).map .add
  | ["prior", x] => (parseNat? x).map .prior
  | ["addc", x] => (parseNat? x).map .addCtrl
  | ["priorc", x] => (parseNat? x).map .priorCtrl
  | ["addany", x, r] => if r == "p" || r == "c" then (parseNat? x).map (fun x => .addAny x (r == "p")) else none
  | ["addcany", x, r] => if r == "p" || r == "c" then (parseNat? x).map (fun x => .addCtrlAny x (r == "p")) else none
  | ["size?"] => some .size
  | ["waitclose"] => some .waitClose
  | ["waitclear"] => some .waitClear
  | ["pop"] => some .pop
  | ["popany"] => some .popAnyway
  | ["trypop"] => some .tryPop
  | ["close"] => some .close
  | ["tryclose"] => some .tryClose
  | ["tryclear"] => some .tryClear
  | ["len"] => some .len
  | ["closed?"] => some .isClosed
  | ["cleared?"] => some .isCleared
  | _ => none

def parsePOp : List String → Option POp
  | ["push", x, p] => match parseNat? x, parseInt? p with
    | some x, some p => some (.push x p)
    | _, _ => none
  | ["pop"] => some .pop
  | ["len"] => some .len
  | _ => none

def step (st : St) (line : String) : St × String :=
  match words line with
  | ["new", "mq", a, b] => match parseInt? a, parseInt? b with
    | some a, some b => (.lq (LQ.new .mq a b), "ok")
    | _, _ => (.none, "bad-op")
  | ["new", "syncq"] => (.lq (LQ.new .syncq 0 0), "ok")
  | ["new", "priq", a] => match parseInt? a with
    | some a => (.pq (PQ.new a), "ok")
    | none => (.none, "bad-op")
  | ["new", k, a] => match parseKind k, parseInt? a with
    | some k, some a => (.lq (LQ.new k 0 a), "ok")
    | _, _ => (.none, "bad-op")
  | "new" :: _ => (.none, "bad-op")      -- an ill-formed `new` leaves no queue
  | ws => match st with
    | .none => (st, "bad-op")
    | .lq s => match parseOp ws with
      | some op => let r := Nv.C12.step Nv.Gen.C12.cfg s op; (.lq r.1, showOut r.2)
      | none => (st, "bad-op")
    | .pq s => match parsePOp ws with
      | some op => let r := pstep Nv.Gen.C12.cfg.priq s op; (.pq r.1, showOut r.2)
      | none => (st, "bad-op")

def main : IO Unit := oracleMain step St.none
