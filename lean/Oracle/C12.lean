import Nv.OracleIO
import Nv.Model.C12
import Nv.Gen.C12
import Oracle.C13Lib
/-!
oracle_c12 — line protocol (one queue per script; the first line creates it):
  `new q <cap>` | `new async <cap>` | `new mux <cap>` | `new mq <ctrlCap> <reqCap>` | `new syncq` | `new priq <cap>` → `ok`
  list queues: `add x` `prior x` `addc x` `priorc x` `addany x p|c` `addcany x p|c` (the *Anyway adds; if the queue is full the
               retry loop is resolved by PopAnyway-ing until there is room (p) or by Close (c)) `pop` `popany` `trypop`
               `close` `tryclose` `tryclear` `size?` `waitclose` `waitclear`
               `len` `closed?` `cleared?`
  priq:        `push x p` `pop` `len`
results: `ok` `closed` `full` `ctrl-full` `v:<x>` `nil` `none` `would-block` `true|false` `<n>` `bad-op`.
The configuration is the one regenerated from the source (`Nv.Gen.C12.cfg`).
-/
open Nv Nv.C12

inductive St
  | none
  | lq (s : LQ)
  | pq (s : PQ)
  | conc (s : C13O.St)   -- a concurrency script (`cnew …`): the transition system of C13, explored by `Oracle.C13Lib`

def showOut : Out → String
  | .ok => "ok" | .closed => "closed" | .full => "full" | .ctrlFull => "ctrl-full"
  | .val x => (if x == 0 then "v:nil" else s!"v:{x}") | .nil => "nil" | .none => "none" | .wouldBlock => "would-block"
  | .bool b => if b then "true" else "false" | .num n => s!"{n}" | .badOp => "bad-op"
  | .spun l fin => "spun:" ++ showList (fun v => if v == 0 then "v:nil" else s!"v:{v}") l ++ ":" ++
      (match fin with | .ok => "ok" | .closed => "closed" | .forever => "forever")

def parseKind (s : String) : Option Kind :=
  if s == "q" then some .q else if s == "async" then some .async else if s == "mux" then some .mux
  else none

/-- an item: a positive number, or `nil` (value 0 in the model) -/
def parseItem (s : String) : Option Nat :=
  if s == "nil" then some 0 else match parseNat? s with
    | some 0 => none
    | r => r

def parseOp : List String → Option Op
  | ["add", x] => (parseItem x).map .add
  | ["prior", x] => (parseItem x).map .prior
  | ["addc", x] => (parseItem x).map .addCtrl
  | ["priorc", x] => (parseItem x).map .priorCtrl
  | ["addany", x, r] => if r == "p" || r == "c" then (parseItem x).map (fun x => .addAny x (r == "p")) else none
  | ["addcany", x, r] => if r == "p" || r == "c" then (parseItem x).map (fun x => .addCtrlAny x (r == "p")) else none
  | ["size?"] => some .size
  | ["waitclose"] => some .waitClose
  | ["waitclear"] => some .waitClear
  | ["pop"] => some .pop
  | ["popany"] => some .popAnyway
  | ["trypop"] => some .tryPop
  | ["close"] => some .close
  | ["tryclose"] => some .tryClose
  | ["tryclear"] => some .tryClear
  | ["len"] => some .len
  | ["closed?"] => some .isClosed
  | ["cleared?"] => some .isCleared
  | _ => none

def parsePOp : List String → Option POp
  | ["push", x, p] => match parseNat? x, parseInt? p with
    | some x, some p => some (.push x p)
    | _, _ => none
  | ["pop"] => some .pop
  | ["len"] => some .len
  | _ => none

def step (st : St) (line : String) : St × String :=
  match words line with
  | ["new", "mq", a, b] => match parseInt? a, parseInt? b with
    | some a, some b => (.lq (LQ.new .mq a b), "ok")
    | _, _ => (.none, "bad-op")
  | ["new", "syncq"] => (.lq (LQ.new .syncq 0 0), "ok")
  | ["new", "priq", a] => match parseInt? a with
    | some a => (.pq (PQ.new a), "ok")
    | none => (.none, "bad-op")
  | ["new", k, a] => match parseKind k, parseInt? a with
    | some k, some a => (.lq (LQ.new k 0 a), "ok")
    | _, _ => (.none, "bad-op")
  | "new" :: _ => (.none, "bad-op")      -- an ill-formed `new` leaves no queue
  | "stress" :: rest => if C13O.stressOk ("stress" :: rest) then (.none, "ok") else (.none, "bad-op")
  | "cnew" :: rest =>
    let r := C13O.step C13O.St.none (" ".intercalate ("new" :: rest))
    (match r.1 with
    | .none => (.none, r.2)
    | st' => (.conc st', r.2))
  | ws => match st with
    | .none => (st, "bad-op")
    | .conc cs => let r := C13O.step cs line; (.conc r.1, r.2)
    | .lq s =>
      -- bulk forms: folds of single operations of the model
      match ws with
      | ["addn", n, x] =>
        (match parseNat? n, parseNat? x with
        | some n, some x =>
          if n ≤ 100000 && 0 < x then
            let r := (List.range n).foldl (fun (acc : LQ × Nat) i =>
              let r := Nv.C12.step Nv.Gen.C12.cfg acc.1 (.add (x + i))
              (r.1, acc.2 + (if r.2 == Out.ok then 1 else 0))) (s, 0)
            (.lq r.1, s!"ok={r.2}")
          else (st, "bad-op")
        | _, _ => (st, "bad-op"))
      | ["drain"] =>
        if s.kind == .syncq then
          let r := (List.range s.req.length).foldl (fun (acc : LQ × Nat) _ =>
            match Nv.C12.step Nv.Gen.C12.cfg acc.1 .tryPop with
            | (s', .val _) => (s', acc.2 + 1)
            | (s', _) => (s', acc.2)) (s, 0)
          (.lq r.1, s!"n:{r.2}")
        else (st, "bad-op")
      | _ =>
      if s.kind == .syncq && ws.getLast? == some "nil" then (st, "bad-op") else
      match parseOp ws with
      | some op => let r := Nv.C12.step Nv.Gen.C12.cfg s op; (.lq r.1, showOut r.2)
      | none => (st, "bad-op")
    | .pq s => match parsePOp ws with
      | some op => let r := pstep Nv.Gen.C12.cfg.priq s op; (.pq r.1, showOut r.2)
      | none => (st, "bad-op")

def main : IO Unit := oracleMain step St.none
