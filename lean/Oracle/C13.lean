import Nv.OracleIO
import Nv.Model.C13
import Nv.Gen.C12
import Nv.Gen.C13
/-!
oracle_c13 — line protocol (one queue per script; the first line creates it). Every line is one *event*: an atomic
step of the transition system followed by resuming woken consumers until nobody is woken (quiescence).
  `new q|async|mux <cap>` | `new mq <ctrlCap> <reqCap>` | `new syncq` | `new priq <cap>` → `ok`
  list queues: `pop` `popany` (a NEW blocking consumer) → `ret:<r>` | `parked`
               `waitclose` (mux, mq) `waitclear` (mq): a NEW caller blocked in WaitClose/WaitClear → `ret:ok` | `parked`
               `add x` `prior x` `addc x` `priorc x` `close` `tryclose` `tryclear` `trypop` → `<result>`
               `atomic <ev> ; <ev> …` (ev ∈ add/prior/addc/priorc/close/tryclose): a burst of producer events → `<r1>;<r2>…`
  priq:        `push x p` `pop` `len` → `<result>`;  `recv` → `got` | `empty`;  `waitlen` → `0` | `1`;
               `consume` (a NEW consumer: receive from WaitCh, then Pop) → `ret:<r>` | `parked`
every answer is followed by ` ret=[<sorted results of the OTHER consumers that returned during the event>] parked=<n>`.
Scheduling is never decided by the oracle: for every line it explores ALL runs of the transition system — every choice
a Signal has, every order in which woken consumers resume, and for a burst every placement of those resumes before,
between and after its events — and answers with the single outcome or the set `{a|b|…}` of outcomes; it carries the
set of states those runs can end in to the next line. Consumers are anonymous (counts per call kind).
Configuration: `Nv.Gen.C13.cfg` (wake primitives) and `Nv.Gen.C12.cfg` (shapes), both regenerated from the source.
-/
open Nv Nv.C12 Nv.C13

/-- oracle state of a list queue with anonymous consumers: the queue and how many Pop / PopAnyway consumers are parked
    or woken (thread identities are not observable) -/
structure AS where
  q : LQ
  pp : Nat      -- parked in Pop
  pa : Nat      -- parked in PopAnyway
  wp : Nat      -- woken, called Pop
  wa : Nat      -- woken, called PopAnyway
  wc : Nat      -- callers blocked in WaitClose (released when `stopChan` is closed, i.e. when the queue is closed)
  wl : Nat      -- callers blocked in WaitClear (MQ; released when the queue is cleared)
deriving DecidableEq

inductive St
  | none
  | lq (P : Par) (ss : List AS)        -- the SET of states the transition system allows after the lines so far
  | pq (s : PS) (waiters : Nat)

def showOut : Out → String
  | .ok => "ok" | .closed => "closed" | .full => "full" | .ctrlFull => "ctrl-full"
  | .val x => s!"v:{x}" | .nil => "nil" | .none => "none" | .wouldBlock => "would-block"
  | .bool b => if b then "true" else "false" | .num n => s!"{n}" | .badOp => "bad-op"
  | .spun _ _ => "spun"

def insertS (x : String) : List String → List String
  | [] => [x]
  | y :: r => if x < y then x :: y :: r else y :: insertS x r
def sortS (l : List String) : List String := l.foldr insertS []

def suffix (rets : List String) (parked : Nat) : String :=
  " ret=[" ++ ",".intercalate (sortS rets) ++ "] parked=" ++ toString parked

def parseKind (s : String) : Option Kind :=
  if s == "q" then some .q else if s == "async" then some .async else if s == "mux" then some .mux else none

def mkPar (k : Kind) : Par := ⟨k, Nv.Gen.C12.cfg.shape k, Nv.Gen.C12.cfg.syncq, Nv.Gen.C13.cfg.wake k⟩

/-- a concrete LTS state for an anonymous one: parked threads 1…, woken threads 1001…, nothing done yet -/
def concretize (a : AS) : CS :=
  ⟨a.q,
   (List.range a.pp).map (fun i => (i + 1, false)) ++ (List.range a.pa).map (fun i => (a.pp + i + 1, true)),
   (List.range a.wp).map (fun i => (1001 + i, false)) ++ (List.range a.wa).map (fun i => (1001 + a.wp + i, true)),
   [], []⟩

def countKind (k : Bool) (l : List (Tid × Bool)) : Nat := (l.filter (fun e => e.2 == k)).length

def abstractS (s : CS) (wc wl : Nat) : AS :=
  ⟨s.q, countKind false s.parked, countKind true s.parked, countKind false s.woken, countKind true s.woken, wc, wl⟩

def firstOfKind (k : Bool) (l : List (Tid × Bool)) : Option Tid := (l.find? (fun e => e.2 == k)).map (·.1)

/-- a producer-side event: its LTS action (Signal's choice `w` given) and its result text -/
def producer (P : Par) (s : CS) (w : Tid) (ws : List String) : Option (Act × String) :=
  match ws with
  | ["add", x] => (parseNat? x).map fun x =>
      (.add x w, if P.kind == .syncq then "ok" else showOut (addReq P.sh s.q x).2)
  | ["prior", x] => (parseNat? x).map fun x => (.prior x w, showOut (addPrior P.sh s.q x).2)
  | ["addc", x] => (parseNat? x).map fun x => (.addCtrl x w, showOut (addCtrl P.sh s.q x).2)
  | ["priorc", x] => (parseNat? x).map fun x => (.priorCtrl x w, showOut (addPriorCtrl P.sh s.q x).2)
  | ["close"] => some (.close w, "ok")
  | ["tryclose"] => some (.tryClose w, showOut (tryClose s.q).2)
  | ["tryclear"] => some (.tryClear, showOut (tryClear s.q).2)
  | ["trypop"] => some (.tryPop, showOut (syncTryPop P.ssh s.q).2)
  | _ => none

def splitSemi : List String → List String → List (List String)
  | [], cur => [cur.reverse]
  | w :: r, cur => if w == ";" then cur.reverse :: splitSemi r [] else splitSemi r (w :: cur)

def burstEv (ws : List String) : Bool :=
  match ws with
  | op :: _ => op == "add" || op == "prior" || op == "addc" || op == "priorc" || op == "close" || op == "tryclose"
  | [] => false

/-- are all events of the line well formed and enabled for this queue type? (does not depend on the state) -/
def eventsOk (P : Par) (atomic : Bool) : List (List String) → CS → Bool
  | [], _ => true
  | ev :: r, s =>
    (!atomic || burstEv ev) &&
    match producer P s 0 ev with
    | none => false
    | some (a, _) => match Nv.C13.step P { s with parked := [] } a with
      | none => false
      | some s' => eventsOk P atomic r s'

/-- a point of the exploration of one line: anonymous state, events still to come, results so far (reversed), results
    of the consumers that returned so far -/
structure Cfg1 where
  a : AS
  evs : List (List String)
  res : List String
  rets : List String
deriving DecidableEq

def addNew (x : Cfg1) (l : List Cfg1) : List Cfg1 := if l.contains x then l else x :: l

/-- successors of a point: the next event (with every choice a Signal has), or the resume of a woken consumer of
    either kind — i.e. woken consumers may run before, between and after the events of a burst -/
def expand (P : Par) (c : Cfg1) : List Cfg1 :=
  let s := concretize c.a
  let evSucc : List Cfg1 :=
    match c.evs with
    | [] => []
    | ev :: r =>
      let ws : List Tid := match firstOfKind false s.parked, firstOfKind true s.parked with
        | some t1, some t2 => [t1, t2]
        | some t1, none => [t1]
        | none, some t2 => [t2]
        | none, none => [0]
      ws.filterMap fun w =>
        match producer P s w ev with
        | none => none
        | some (act, r1) => match Nv.C13.step P s act with
          | none => none
          | some s' => some ⟨abstractS s' c.a.wc c.a.wl, r, r1 :: c.res, sortS (c.rets ++ s'.done.map (fun d => showOut d.2))⟩
  let rsSucc : List Cfg1 :=
    ([firstOfKind false s.woken, firstOfKind true s.woken].filterMap id).filterMap fun t =>
      match Nv.C13.step P s (.resume t) with
      | none => none
      | some s' => some ⟨abstractS s' c.a.wc c.a.wl, c.evs, c.res, sortS (c.rets ++ s'.done.map (fun d => showOut d.2))⟩
  evSucc ++ rsSucc

def isTerminal (c : Cfg1) : Bool := c.evs.isEmpty && c.a.wp == 0 && c.a.wa == 0

/-- breadth-first exploration with de-duplication; every step consumes an event or a woken consumer, so it ends -/
def explore (P : Par) : Nat → List Cfg1 → List Cfg1 → List Cfg1
  | 0, _, done => done
  | n + 1, frontier, done =>
    match frontier with
    | [] => done
    | _ =>
      let term := frontier.filter isTerminal
      let rest := frontier.filter (fun c => !isTerminal c)
      let next := (rest.flatMap (expand P)).foldr addNew []
      explore P n next (term.foldr addNew done)

/-- at the end of a line: WaitClose callers return once the queue is closed, WaitClear callers once it is cleared
    (the channels are closed in the same critical sections that set the flags — a regenerated fact) -/
def release (c : Cfg1) : Cfg1 :=
  let c1 := if c.a.q.closed && c.a.wc > 0 then
      { c with a := { c.a with wc := 0 }, rets := sortS (c.rets ++ List.replicate c.a.wc "ok") } else c
  if c1.a.q.cleared && c1.a.wl > 0 then
    { c1 with a := { c1.a with wl := 0 }, rets := sortS (c1.rets ++ List.replicate c1.a.wl "ok") } else c1

def outOf (c : Cfg1) : String := ";".intercalate c.res.reverse ++ suffix c.rets (c.a.pp + c.a.pa + c.a.wc + c.a.wl)

def dedupS (l : List String) : List String := l.foldr (fun x acc => if acc.contains x then acc else x :: acc) []
def dedupA (l : List AS) : List AS := l.foldr (fun x acc => if acc.contains x then acc else x :: acc) []

/-- one answer line: a single outcome, or the set `{a|b|…}` of outcomes the transition system allows -/
def showSet (outs : List String) : String :=
  match sortS (dedupS outs) with
  | [o] => o
  | os => "{" ++ "|".intercalate os ++ "}"

def lqLine (P : Par) (ss : List AS) (ws : List String) : St × String :=
  match ws with
  | ["pop"] | ["popany"] =>
    let anyway := ws == ["popany"]
    if anyway && P.kind == .syncq then (.lq P ss, "bad-op") else
    let rs := ss.map fun a =>
      let s := concretize a
      match Nv.C13.step P s (.popCall 999 anyway) with
      | none => (a, "bad-op")
      | some s1 =>
        let r := match s1.done with
          | (_, o) :: _ => "ret:" ++ showOut o
          | [] => "parked"
        (abstractS s1 a.wc a.wl, r ++ suffix [] (s1.parked.length + a.wc + a.wl))
    (.lq P (dedupA (rs.map (·.1))), showSet (rs.map (·.2)))
  | ["waitclose"] | ["waitclear"] =>
    let clear := ws == ["waitclear"]
    if (clear && P.kind != .mq) || (!clear && P.kind != .mq && P.kind != .mux) then (.lq P ss, "bad-op") else
    let rs := ss.map fun a =>
      let done := if clear then a.q.cleared else a.q.closed
      if done then (a, "ret:ok" ++ suffix [] (a.pp + a.pa + a.wc + a.wl))
      else
        let a' := if clear then { a with wl := a.wl + 1 } else { a with wc := a.wc + 1 }
        (a', "parked" ++ suffix [] (a'.pp + a'.pa + a'.wc + a'.wl))
    (.lq P (dedupA (rs.map (·.1))), showSet (rs.map (·.2)))
  | _ =>
    let atomic := ws.head? == some "atomic"
    let evs := if atomic then splitSemi (ws.drop 1) [] else [ws]
    match ss with
    | [] => (.lq P ss, "bad-op")
    | a0 :: _ =>
      if !eventsOk P atomic evs (concretize a0) then (.lq P ss, "bad-op") else
      let finals := (explore P 400 (ss.map fun a => ⟨a, evs, [], []⟩) []).map release
      (.lq P (dedupA (finals.map (·.a))), showSet (finals.map outOf))

/-! priq -/

def popMacro (sh : PriShape) (pc : PriCfg) (s : PS) (holder : Bool) : PS × String :=
  match pstepC sh pc s (.popLock holder) with
  | none => (s, "bad-op")
  | some s1 =>
    let r := match (pqPop sh s.q).2 with
      | some m => s!"v:{m.item}"
      | none => "nil"
    match pstepC sh pc s1 .popSignal with
    | some s2 => (s2, r)
    | none => (s1, r)

/-- parked consumers proceed while the channel is readable: receive, Pop, re-signal -/
def serve (sh : PriShape) (pc : PriCfg) : Nat → PS → Nat → List String → PS × Nat × List String
  | 0, s, w, acc => (s, w, acc)
  | n + 1, s, w, acc =>
    if w = 0 then (s, w, acc) else
    match pstepC sh pc s .recv with
    | none => (s, w, acc)
    | some s1 =>
      let r := popMacro sh pc s1 true
      serve sh pc n r.1 (w - 1) (r.2 :: acc)

def pqFinish (sh : PriShape) (pc : PriCfg) (s : PS) (w : Nat) (res : String) : St × String :=
  let r := serve sh pc w s w []
  (.pq r.1 r.2.1, res ++ suffix r.2.2 r.2.1)

def pqLine (s : PS) (w : Nat) (ws : List String) : St × String :=
  let sh := Nv.Gen.C12.cfg.priq
  let pc := Nv.Gen.C13.cfg.priq
  match ws with
  | ["push", x, p] => match parseNat? x, parseInt? p with
    | some x, some p =>
      match pstepC sh pc s (.pushLock x p) with
      | none => (.pq s w, "bad-op")
      | some s1 =>
        let res := showOut (pqPush sh s.q x p).2
        let s2 := match pstepC sh pc s1 .pushSignal with | some s2 => s2 | none => s1
        pqFinish sh pc s2 w res
    | _, _ => (.pq s w, "bad-op")
  | ["pop"] =>
    let r := popMacro sh pc s (decide (0 < s.holders))
    pqFinish sh pc r.1 w r.2
  | ["recv"] => match pstepC sh pc s .recv with
    | some s1 => pqFinish sh pc s1 w "got"
    | none => pqFinish sh pc s w "empty"
  | ["waitlen"] => pqFinish sh pc s w (if s.token then "1" else "0")
  | ["len"] => pqFinish sh pc s w (toString s.q.entries.length)
  | ["consume"] => match pstepC sh pc s .recv with
    | some s1 =>
      let r := popMacro sh pc s1 true
      pqFinish sh pc r.1 w ("ret:" ++ r.2)
    | none => (.pq s (w + 1), "parked" ++ suffix [] (w + 1))
  | _ => (.pq s w, "bad-op")

def step (st : St) (line : String) : St × String :=
  match words line with
  | ["new", "mq", a, b] => match parseInt? a, parseInt? b with
    | some a, some b => (.lq (mkPar .mq) [⟨LQ.new .mq a b, 0, 0, 0, 0, 0, 0⟩], "ok")
    | _, _ => (.none, "bad-op")
  | ["new", "syncq"] => (.lq (mkPar .syncq) [⟨LQ.new .syncq 0 0, 0, 0, 0, 0, 0, 0⟩], "ok")
  | ["new", "priq", a] => match parseInt? a with
    | some a => (.pq (PS.init a) 0, "ok")
    | none => (.none, "bad-op")
  | ["new", k, a] => match parseKind k, parseInt? a with
    | some k, some a => (.lq (mkPar k) [⟨LQ.new k 0 a, 0, 0, 0, 0, 0, 0⟩], "ok")
    | _, _ => (.none, "bad-op")
  | "new" :: _ => (.none, "bad-op")
  | ws => match st with
    | .none => (st, "bad-op")
    | .lq P ss => lqLine P ss ws
    | .pq s w => pqLine s w ws

def main : IO Unit := oracleMain step St.none
