import Nv.OracleIO
import Nv.Model.C13
import Nv.Gen.C12
import Nv.Gen.C13
/-!
oracle_c13 — line protocol (one queue per script; the first line creates it). Every line is one *event*: an atomic
step of the transition system followed by resuming woken consumers until nobody is woken (quiescence).
  `new q|async|mux <cap>` | `new mq <ctrlCap> <reqCap>` | `new syncq` | `new priq <cap>` → `ok`
  list queues: `pop` `popany` (a NEW blocking consumer) → `ret:<r>` | `parked`
               `add x` `prior x` `addc x` `priorc x` `close` `tryclose` `tryclear` `trypop` → `<result>`
               `atomic <ev> ; <ev> …` (ev ∈ add/prior/addc/priorc/close/tryclose): the events back to back, no woken
               consumer resuming in between → `<r1>;<r2>…`
  priq:        `push x p` `pop` `len` → `<result>`;  `recv` → `got` | `empty`;  `waitlen` → `0` | `1`;
               `consume` (a NEW consumer: receive from WaitCh, then Pop) → `ret:<r>` | `parked`
every answer is followed by ` ret=[<sorted results of the OTHER consumers that returned during the event>] parked=<n>`.
Which waiter a Signal wakes / which woken consumer wins is not observable in this output (multisets and counts).
Configuration: `Nv.Gen.C13.cfg` (wake primitives) and `Nv.Gen.C12.cfg` (shapes), both regenerated from the source.
-/
open Nv Nv.C12 Nv.C13

inductive St
  | none
  | lq (P : Par) (s : CS) (next : Nat)
  | pq (s : PS) (waiters : Nat)

def showOut : Out → String
  | .ok => "ok" | .closed => "closed" | .full => "full" | .ctrlFull => "ctrl-full"
  | .val x => s!"v:{x}" | .nil => "nil" | .none => "none" | .wouldBlock => "would-block"
  | .bool b => if b then "true" else "false" | .num n => s!"{n}" | .badOp => "bad-op"

def insertS (x : String) : List String → List String
  | [] => [x]
  | y :: r => if x < y then x :: y :: r else y :: insertS x r
def sortS (l : List String) : List String := l.foldr insertS []

def suffix (rets : List String) (parked : Nat) : String :=
  " ret=[" ++ ",".intercalate (sortS rets) ++ "] parked=" ++ toString parked

def parseKind (s : String) : Option Kind :=
  if s == "q" then some .q else if s == "async" then some .async else if s == "mux" then some .mux else none

def mkPar (k : Kind) : Par := ⟨k, Nv.Gen.C12.cfg.shape k, Nv.Gen.C12.cfg.syncq, Nv.Gen.C13.cfg.wake k⟩

def firstParked (s : CS) : Tid := match s.parked with | e :: _ => e.1 | [] => 0

/-- run one producer-side event: step, then settle; answer with the results of consumers that returned -/
def lqEvent (P : Par) (s : CS) (next : Nat) (a : Act) (res : String) : St × String :=
  match Nv.C13.step P s a with
  | none => (.lq P s next, "bad-op")
  | some s1 =>
    let s2 := settle P s1.woken.length s1
    let newDone := s2.done.take (s2.done.length - s.done.length)
    (.lq P s2 next, res ++ suffix (newDone.map (fun d => showOut d.2)) s2.parked.length)

/-- a producer-side event: its LTS action (Signal's choice = first parked thread) and its result text -/
def producer (P : Par) (s : CS) (ws : List String) : Option (Act × String) :=
  let w := firstParked s
  match ws with
  | ["add", x] => (parseNat? x).map fun x =>
      (.add x w, if P.kind == .syncq then "ok" else showOut (addReq P.sh s.q x).2)
  | ["prior", x] => (parseNat? x).map fun x => (.prior x w, showOut (addPrior P.sh s.q x).2)
  | ["addc", x] => (parseNat? x).map fun x => (.addCtrl x w, showOut (addCtrl P.sh s.q x).2)
  | ["priorc", x] => (parseNat? x).map fun x => (.priorCtrl x w, showOut (addPriorCtrl P.sh s.q x).2)
  | ["close"] => some (.close w, "ok")
  | ["tryclose"] => some (.tryClose w, showOut (tryClose s.q).2)
  | ["tryclear"] => some (.tryClear, showOut (tryClear s.q).2)
  | ["trypop"] => some (.tryPop, showOut (syncTryPop P.ssh s.q).2)
  | _ => none

def splitSemi : List String → List String → List (List String)
  | [], cur => [cur.reverse]
  | w :: r, cur => if w == ";" then cur.reverse :: splitSemi r [] else splitSemi r (w :: cur)

def burstEv (ws : List String) : Bool :=
  match ws with
  | op :: _ => op == "add" || op == "prior" || op == "addc" || op == "priorc" || op == "close" || op == "tryclose"
  | [] => false

/-- a burst of producer events without any resume in between; `none` if one of them is ill-formed or not enabled -/
def atomicRun (P : Par) : List (List String) → CS → List String → Option (CS × List String)
  | [], s, acc => some (s, acc.reverse)
  | ev :: r, s, acc =>
    if burstEv ev then
      match producer P s ev with
      | none => none
      | some (a, res) => match Nv.C13.step P s a with
        | none => none
        | some s' => atomicRun P r s' (res :: acc)
    else none

def lqLine (P : Par) (s : CS) (next : Nat) (ws : List String) : St × String :=
  match ws with
  | ["pop"] | ["popany"] =>
    let anyway := ws == ["popany"]
    match Nv.C13.step P s (.popCall next anyway) with
    | none => (.lq P s next, "bad-op")
    | some s1 =>
      let r := match s1.done with
        | (t, o) :: _ => if t == next then "ret:" ++ showOut o else "parked"
        | [] => "parked"
      (.lq P s1 (next + 1), r ++ suffix [] s1.parked.length)
  | "atomic" :: rest =>
    -- producer events executed back to back: no woken consumer resumes in between (the runner holds them back)
    match atomicRun P (splitSemi rest []) s [] with
    | none => (.lq P s next, "bad-op")
    | some (s1, rs) =>
      let s2 := settle P s1.woken.length s1
      let newDone := s2.done.take (s2.done.length - s.done.length)
      (.lq P s2 next, ";".intercalate rs ++ suffix (newDone.map (fun d => showOut d.2)) s2.parked.length)
  | _ =>
    match producer P s ws with
    | some (a, res) => lqEvent P s next a res
    | none => (.lq P s next, "bad-op")

/-! priq -/

def popMacro (sh : PriShape) (pc : PriCfg) (s : PS) (holder : Bool) : PS × String :=
  match pstepC sh pc s (.popLock holder) with
  | none => (s, "bad-op")
  | some s1 =>
    let r := match (pqPop sh s.q).2 with
      | some m => s!"v:{m.item}"
      | none => "nil"
    match pstepC sh pc s1 .popSignal with
    | some s2 => (s2, r)
    | none => (s1, r)

/-- parked consumers proceed while the channel is readable: receive, Pop, re-signal -/
def serve (sh : PriShape) (pc : PriCfg) : Nat → PS → Nat → List String → PS × Nat × List String
  | 0, s, w, acc => (s, w, acc)
  | n + 1, s, w, acc =>
    if w = 0 then (s, w, acc) else
    match pstepC sh pc s .recv with
    | none => (s, w, acc)
    | some s1 =>
      let r := popMacro sh pc s1 true
      serve sh pc n r.1 (w - 1) (r.2 :: acc)

def pqFinish (sh : PriShape) (pc : PriCfg) (s : PS) (w : Nat) (res : String) : St × String :=
  let r := serve sh pc w s w []
  (.pq r.1 r.2.1, res ++ suffix r.2.2 r.2.1)

def pqLine (s : PS) (w : Nat) (ws : List String) : St × String :=
  let sh := Nv.Gen.C12.cfg.priq
  let pc := Nv.Gen.C13.cfg.priq
  match ws with
  | ["push", x, p] => match parseNat? x, parseInt? p with
    | some x, some p =>
      match pstepC sh pc s (.pushLock x p) with
      | none => (.pq s w, "bad-op")
      | some s1 =>
        let res := showOut (pqPush sh s.q x p).2
        let s2 := match pstepC sh pc s1 .pushSignal with | some s2 => s2 | none => s1
        pqFinish sh pc s2 w res
    | _, _ => (.pq s w, "bad-op")
  | ["pop"] =>
    let r := popMacro sh pc s (decide (0 < s.holders))
    pqFinish sh pc r.1 w r.2
  | ["recv"] => match pstepC sh pc s .recv with
    | some s1 => pqFinish sh pc s1 w "got"
    | none => pqFinish sh pc s w "empty"
  | ["waitlen"] => pqFinish sh pc s w (if s.token then "1" else "0")
  | ["len"] => pqFinish sh pc s w (toString s.q.entries.length)
  | ["consume"] => match pstepC sh pc s .recv with
    | some s1 =>
      let r := popMacro sh pc s1 true
      pqFinish sh pc r.1 w ("ret:" ++ r.2)
    | none => (.pq s (w + 1), "parked" ++ suffix [] (w + 1))
  | _ => (.pq s w, "bad-op")

def step (st : St) (line : String) : St × String :=
  match words line with
  | ["new", "mq", a, b] => match parseInt? a, parseInt? b with
    | some a, some b => (.lq (mkPar .mq) (CS.init (LQ.new .mq a b)) 1, "ok")
    | _, _ => (.none, "bad-op")
  | ["new", "syncq"] => (.lq (mkPar .syncq) (CS.init (LQ.new .syncq 0 0)) 1, "ok")
  | ["new", "priq", a] => match parseInt? a with
    | some a => (.pq (PS.init a) 0, "ok")
    | none => (.none, "bad-op")
  | ["new", k, a] => match parseKind k, parseInt? a with
    | some k, some a => (.lq (mkPar k) (CS.init (LQ.new k 0 a)) 1, "ok")
    | _, _ => (.none, "bad-op")
  | "new" :: _ => (.none, "bad-op")
  | ws => match st with
    | .none => (st, "bad-op")
    | .lq P s next => lqLine P s next ws
    | .pq s w => pqLine s w ws

def main : IO Unit := oracleMain step St.none
