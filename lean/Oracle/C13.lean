import Oracle.C13Lib
/-! oracle_c13 — the line protocol and the exploration are in `Oracle/C13Lib.lean` (shared with oracle_c12, which runs the same
transition system for its concurrency scripts). -/
def main : IO Unit := Nv.oracleMain C13O.step C13O.St.none
