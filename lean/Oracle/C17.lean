import Nv.OracleIO
import Nv.Model.C17Glue
import Nv.Model.C04
/-!
oracle_c17 — line protocol. A key token is `<ty>:<value>:<hash>` with `ty` one of
u8 i8 i16 u16 i32 u32 i64 u64 int uint hit (decimal value) | str bytes bs (hex bytes) | other (value 0),
and `hash` = the key's xxhash as computed by the real package (xxhash itself is not modelled).
  `reset`                                 → `ok`
  `firstuse <n> <rounds> <threads>`       → `ok`                 concurrent first users of a fresh router (child process)
  `remap <n>`                             → `ok` | `panic` (n = 0: division by zero)
  `search <x>`                            → `<index>`            SearchIndex
  `simple <key>` / `xhash <key>`          → `<index>` | `panic`  SimpleIndex / XHashIndex
  `cont <map|lru|tlru> <n> <simple|xhash>`→ `ok`                 sharded container (LRUs with a huge capacity)
  `set <key> <v>` `get <key>` `peek <key>` `exist <key>` `del <key>`
  `lock <klock|tklock-i64|tklock-str|semap> <n> <simple|xhash>` → `ok`
  `lk <key>` / `rlk <key>`                → `ok`                 acquire+release twice through the group
Routing uses the regenerated kernels (`Nv.Gen.C17`): boundaries, clamp, SimpleIndex arms and tail.
-/
open Nv Nv.C17

def parseTy (s : String) : Option (KType × Nat × Bool) :=   -- type, width, signed
  match s with
  | "u8" => some (.u8, 8, false) | "i8" => some (.i8, 8, true) | "i16" => some (.i16, 16, true)
  | "u16" => some (.u16, 16, false) | "i32" => some (.i32, 32, true) | "u32" => some (.u32, 32, false)
  | "i64" => some (.i64, 64, true) | "u64" => some (.u64, 64, false) | "int" => some (.int, 64, true)
  | "uint" => some (.uint, 64, false) | "hit" => some (.hit, 64, false)
  | _ => none

def isHexLower (s : String) : Bool :=
  s.length % 2 == 0 && s.toList.all (fun c => c.isDigit || ('a' ≤ c && c ≤ 'f'))

def isDecimal (s : String) : Bool := !s.isEmpty && s.toList.all Char.isDigit && s.length ≤ 20

def parseKey (tok : String) : Option Key :=
  match tok.splitOn ":" with
  | [ty, v, h] =>
    if !isDecimal h then none else
    match h.toNat? with
    | none => none
    | some hash =>
      if hash ≥ 2 ^ 64 then none else
      match parseTy ty with
      | some (kt, w, signed) =>
        let body := if signed && v.startsWith "-" then (v.drop 1).toString else v
        if !isDecimal body || v == "-0" then none else
        match v.toInt? with
        | none => none
        | some i =>
          let lo : Int := if signed then -(2 ^ (w - 1) : Int) else 0
          let hi : Int := if signed then (2 ^ (w - 1) : Int) else (2 ^ w : Int)
          if lo ≤ i ∧ i < hi then some ⟨kt, (i % (2 ^ w : Int)).toNat, "", hash⟩ else none
      | none =>
        if ty == "str" || ty == "bytes" || ty == "bs" then
          if isHexLower v then
            some ⟨if ty == "str" then .str else if ty == "bytes" then .bytes else .bs, 0, v, hash⟩
          else none
        else if ty == "other" && v == "0" then some ⟨.other, 0, "", hash⟩
        else none
  | _ => none

inductive St
  | none
  | remap (n : Nat)
  | cont (kind : String) (n : Nat) (xhash : Bool) (shards : List MapSt)
  | lock (kind : String) (n : Nat) (xhash : Bool)
  | wl (kd : Nv.C04.Kind) (n : Nat) (xhash : Bool) (shards : List Nv.C04.Lru) (seen : List Key)
  | locks (kind : String) (n : Nat) (xhash : Bool) (cap : Nat) (ls : LockSt)

def showOut : Out → String
  | .idx i => toString i
  | .panic => "panic"

def parseN (s : String) : Option Nat :=
  if isDecimal s && s.length ≤ 9 then s.toNat?.bind (fun n => if n ≤ 2 ^ 20 then some n else none) else none

def route (n : Nat) (xhash : Bool) (k : Key) : Out := if xhash then genXHash n k else genSimple n k

def showResp (lru : Bool) (req : MReq) (present : Bool) : MResp → String
  | .unit => if lru && req == .delete then (if present then "true" else "false") else "ok"
  | .val (some v) => s!"v={v}"
  | .val none => "miss"
  | .bool b => if b then "true" else "false"

/-- the configurations of the two LRU packages the C04 theorems are proved for (hand-written here: the LRU
internals are C04's subject; this check is about the wide wrapper) -/
def lruCfg : Nv.C04.Kind → Nv.C04.Cfg
  | .sized => ⟨.gt, true, false, true, true⟩
  | .tiny => ⟨.gt, true, false, true, false⟩

def insertSeen (k : Key) : List Key → List Key
  | [] => [k]
  | x :: xs => if x.bits = k.bits then x :: xs else if k.bits < x.bits then k :: x :: xs else x :: insertSeen k xs

def showLruOut : Nv.C04.Out → String
  | .unit => "ok"
  | .val (some v) => s!"v={v}"
  | .val none => "miss"
  | .bool b => if b then "true" else "false"
  | .panic => "panic"
  | _ => "?"

def wlDump (n : Nat) (xh : Bool) (shards : List Nv.C04.Lru) (seen : List Key) : String :=
  showList id (seen.filterMap fun k =>
    match route n xh k with
    | .idx i => (shards[i]?).bind fun s => (Nv.C04.find? k.bits s.list).map fun e => s!"{k.bits}:{e.val}"
    | .panic => none)

def parseKeys (s : String) : Option (List Key) := (s.splitOn ",").mapM parseKey

def lockKeyOk (kind : String) (k : Key) : Bool :=
  !(k.ty == .bytes || k.ty == .other) &&
  !((kind == "tklock-i64" && k.ty != .i64) || (kind == "tklock-str" && k.ty != .str))

/-- api token → (write?, multi-key API?) -/
def parseApi (s : String) : Option (Bool × Bool) :=
  match s with
  | "w" => some (true, false) | "r" => some (false, false) | "ws" => some (true, true) | "rs" => some (false, true)
  | _ => none

/-- `bset` / `bdel` / `bprobe` over the int keys a … a+cnt-1 (value key+1) on the sharded map model, modulo routing -/
def bulk (op : String) (n a cnt : Nat) (shards : List MapSt) : Option (List MapSt × Nat × Nat) :=
  (List.range cnt).foldl (fun acc i =>
    match acc with
    | none => none
    | some (sh, present, sum) =>
      let key : Key := ⟨.int, a + i, "", 0⟩
      match genSimple n key with
      | .panic => none
      | .idx j =>
        match sh[j]? with
        | none => none
        | some m =>
          if op == "bset" then some (sh.set j (mapStep m key (.set (a + i + 1))).1, present, sum)
          else if op == "bdel" then some (sh.set j (mapStep m key .delete).1, present, sum)
          else match mlookup key m with
            | some v => some (sh, present + 1, sum + v)
            | none => some (sh, present, sum)) (some (shards, 0, 0))

def stepRest (st : St) (line : String) : St × String :=
  match words line with
  | ["reset"] => (.none, "ok")
  | ["firstuse", n, r, t] =>
    -- concurrent first users of a fresh router: routing does not depend on who comes first (the model has no such state)
    match parseN n, (if isDecimal r && r.length ≤ 9 then r.toNat? else none), (if isDecimal t && t.length ≤ 9 then t.toNat? else none) with
    | some n, some r, some t => if n = 0 ∨ r < 1 ∨ r > 200 ∨ t < 2 ∨ t > 16 then (st, "bad-op") else (st, "ok")
    | _, _, _ => (st, "bad-op")
  | ["wl", kind, cap, n, r] =>
    match parseN n, (if isDecimal cap && cap.length ≤ 19 then cap.toNat?.bind (fun c => if c < 2 ^ 63 then some c else none) else none) with
    | some n, some cap =>
      if n = 0 ∨ n > 4096 ∨ ¬ (r == "simple" || r == "xhash") ∨ ¬ (kind == "lru" || kind == "tlru") then (st, "bad-op")
      else (.wl (if kind == "lru" then .sized else .tiny) n (r == "xhash")
              (List.replicate n (Nv.C04.Lru.new (Nv.C04.shardCap cap n))) [], "ok")
    | _, _ => (st, "bad-op")
  | ["locks", kind, n, r] =>
    match parseN n with
    | some n =>
      -- `semap` = default read/write ratio 10; `semap-r1|2|3` = WithRwRatio(1|2|3) on both the wide and the single map
      let cap : Option Nat := match kind with
        | "klock" | "tklock-i64" | "tklock-str" => some 0
        | "semap" => some 10 | "semap-r1" => some 1 | "semap-r2" => some 2 | "semap-r3" => some 3
        | _ => none
      match cap with
      | some cap =>
        if n = 0 ∨ n > 4096 ∨ ¬ (r == "simple" || r == "xhash") then (st, "bad-op")
        else (.locks kind n (r == "xhash") cap LockSt.empty, "ok")
      | none => (st, "bad-op")
    | none => (st, "bad-op")
  | ["remap", "d"] => (.remap 73, "ok")   -- NewReMap() without options: the documented default, independent of earlier users
  | ["remap", n] =>
    match parseN n with
    | some 0 => (.none, "panic")
    | some n => (.remap n, "ok")
    | none => (st, "bad-op")
  | ["search", x] =>
    match st with
    | .remap n =>
      if !isDecimal x then (st, "bad-op") else
      match x.toNat? with
      | some x => if x < 2 ^ 64 then (st, toString (genSearchIndex n x)) else (st, "bad-op")
      | none => (st, "bad-op")
    | _ => (st, "bad-op")
  | ["simple", k] =>
    match st, parseKey k with
    | .remap n, some k => (st, showOut (genSimple n k))
    | _, _ => (st, "bad-op")
  | ["xhash", k] =>
    match st, parseKey k with
    | .remap n, some k => (st, showOut (genXHash n k))
    | _, _ => (st, "bad-op")
  | ["cont", kind, n, r] =>
    match parseN n with
    | some n =>
      if n = 0 ∨ n > 4096 ∨ ¬ (r == "simple" || r == "xhash") ∨ ¬ (kind == "map" || kind == "lru" || kind == "tlru") then (st, "bad-op")
      else (.cont kind n (r == "xhash") (List.replicate n []), "ok")
    | none => (st, "bad-op")
  | ["lock", kind, n, r] =>
    match parseN n with
    | some n =>
      if n = 0 ∨ n > 4096 ∨ ¬ (r == "simple" || r == "xhash") ∨
          ¬ (kind == "klock" || kind == "tklock-i64" || kind == "tklock-str" || kind == "semap") then (st, "bad-op")
      else (.lock kind n (r == "xhash"), "ok")
    | none => (st, "bad-op")
  | [op, t, api, ks] =>
    match st with
    | .locks kind n xh cap ls =>
      match parseNat? t, parseApi api, parseKeys ks with
      | some t, some (write, multi), some keys =>
        if !(op == "acq" || op == "rel" || op == "acqx" || op == "acqd") || ((op == "acqx" || op == "acqd") && !kind.startsWith "semap") || t > 3 || !isDecimal (toString t) || !keys.all (lockKeyOk kind) ||
            (!multi && keys.length != 1) || (multi && !(kind == "tklock-i64" || kind == "tklock-str")) then (st, "bad-op")
        else if keys.any (fun k => match route n xh k with | .idx i => decide (i ≥ n) | .panic => true) then (st, "panic")
        else if op == "acqx" || op == "acqd" then
          -- the context is already cancelled (`acqx`) / its deadline has passed (`acqd`)
          match ls.acquireDone cap t keys write with
          | some (ls', granted) => (.locks kind n xh cap ls', if granted then "ret" else "err")
          | none => (st, "bad-op")
        else if op == "acq" then
          match ls.acquire cap t keys write with
          | some (ls', granted) => (.locks kind n xh cap ls', if granted then "ret" else "parked")
          | none => (st, "bad-op")
        else
          match ls.release cap t keys write with
          | some (ls', some w) => (.locks kind n xh cap ls', s!"ret wake:{w}")
          | some (ls', none) => (.locks kind n xh cap ls', "ret")
          | none => (st, "bad-op")
      | _, _, _ => (st, "bad-op")
    | .wl kd n xh shards seen =>
      -- `set <key> <v> <size>` on a wide LRU
      match parseKey t with
      | some key =>
        if op != "set" || key.ty != .int || key.bits ≥ 2 ^ 62 || !isDecimal api || api.length > 9 || !isDecimal ks || ks.length > 4 then (st, "bad-op")
        else
          match api.toNat?, ks.toNat?, route n xh key with
          | some v, some sz, .idx i =>
            match shards[i]? with
            | some sh =>
              let r := Nv.C04.step (lruCfg kd) kd sh (.set key.bits v sz)
              let shards' := shards.set i r.1
              let seen' := insertSeen key seen
              (.wl kd n xh shards' seen', s!"{showLruOut r.2} | P={wlDump n xh shards' seen'}")
            | none => (st, "panic")
          | _, _, _ => (st, "bad-op")
      | none => (st, "bad-op")
    | _ => (st, "bad-op")
  | op :: k :: rest =>
    match st, parseKey k with
    | .wl kd n xh shards seen, some key =>
      if key.ty != .int || key.bits ≥ 2 ^ 62 || !rest.isEmpty then (st, "bad-op") else
      let lop : Option Nv.C04.Op := match op with
        | "get" => some (.get key.bits) | "peek" => some (.peek key.bits)
        | "exist" => some (.exist key.bits) | "del" => some (.delete key.bits) | _ => none
      match lop, route n xh key with
      | some lop, .idx i =>
        match shards[i]? with
        | some sh =>
          let r := Nv.C04.step (lruCfg kd) kd sh lop
          let shards' := shards.set i r.1
          let seen' := insertSeen key seen
          (.wl kd n xh shards' seen', s!"{showLruOut r.2} | P={wlDump n xh shards' seen'}")
        | none => (st, "panic")
      | _, _ => (st, "bad-op")
    | .cont kind n xh shards, some key =>
      if key.ty == .bytes || key.ty == .other then (st, "bad-op") else
      let req : Option MReq := match op, rest with
        | "set", [v] => if isDecimal v && v.length ≤ 9 then v.toNat?.map MReq.set else none
        | "get", [] => some .get
        | "peek", [] => if kind == "map" then none else some .get
        | "exist", [] => some .exist
        | "del", [] => some .delete
        | _, _ => none
      match req with
      | none => (st, "bad-op")
      | some req =>
        match route n xh key with
        | .panic => (st, "panic")
        | .idx i =>
          match shards[i]? with
          | none => (st, "panic")      -- index outside the shard slice
          | some sh =>
            let key0 := { key with hash := 0 }   -- identity of a key in the map: type and value (the hash is routing data)
            let present := (mlookup key0 sh).isSome
            let r := mapStep sh key0 req
            (.cont kind n xh (shards.set i r.1), showResp (kind != "map") req present r.2)
    | .lock kind n xh, some key =>
      if key.ty == .bytes || key.ty == .other then (st, "bad-op")
      else if (kind == "tklock-i64" && key.ty != .i64) || (kind == "tklock-str" && key.ty != .str) then (st, "bad-op")
      else if !(op == "lk" || op == "rlk") || !rest.isEmpty then (st, "bad-op")
      else
        match route n xh key with
        | .panic => (st, "panic")
        | .idx i => if i < n then (st, "ok") else (st, "panic")
    | _, _ => (st, "bad-op")
  | _ => (st, "bad-op")

def step (st : St) (line : String) : St × String :=
  match words line with
  | [op, a, cnt] =>
    if op == "bset" || op == "bdel" || op == "bprobe" then
      match st, (if isDecimal a && a.length ≤ 9 then a.toNat? else none), (if isDecimal cnt && cnt.length ≤ 9 then cnt.toNat? else none) with
      | .cont kind n false shards, some a, some cnt =>
        if cnt = 0 ∨ cnt > 20000 ∨ a > 1000000 then (st, "bad-op") else
        match bulk op n a cnt shards with
        | some (sh, present, sum) => (.cont kind n false sh, if op == "bprobe" then s!"present={present} sum={sum}" else "ok")
        | none => (st, "panic")
      | _, _, _ => (st, "bad-op")
    else stepRest st line
  | _ => stepRest st line

def main : IO Unit := oracleMain step St.none
