import Nv.OracleIO
import Nv.Model.C13
import Nv.Gen.C12
import Nv.Gen.C13
/-!
oracle_c13 — line protocol (one queue per script; the first line creates it). Every line is one *event*: an atomic
step of the transition system followed by resuming woken consumers until nobody is woken (quiescence).
  `new q|async|mux <cap>` | `new mq <ctrlCap> <reqCap>` | `new syncq` | `new priq <cap>` → `ok`
  list queues: `pop` `popany` (a NEW blocking consumer) → `ret:<r>` | `parked`
               `waitclose` (mux, mq) `waitclear` (mq): a NEW caller blocked in WaitClose/WaitClear → `ret:ok` | `parked`
               `add x` `prior x` `addc x` `priorc x` `close` `tryclose` `tryclear` `trypop` → `<result>`
               `atomic <ev> ; <ev> …` (ev ∈ add/prior/addc/priorc/close/tryclose): a burst of producer events → `<r1>;<r2>…`
  priq:        `push x p` `pop` `len` → `<result>`;  `recv` → `got` | `empty`;  `waitlen` → `0` | `1`;
               `consume` (a NEW consumer: receive from WaitCh, then Pop) → `ret:<r>` | `parked`
every answer is followed by ` ret=[<sorted results of the OTHER consumers that returned during the event>] parked=<n>`.
Scheduling is never decided by the oracle: for every line it explores ALL runs of the transition system — every choice
a Signal has, every order in which woken consumers resume, and for a burst every placement of those resumes before,
between and after its events — and answers with the single outcome or the set `{a|b|…}` of outcomes; it carries the
set of states those runs can end in to the next line. Consumers are anonymous (counts per call kind).
Configuration: `Nv.Gen.C13.cfg` (wake primitives) and `Nv.Gen.C12.cfg` (shapes), both regenerated from the source.
-/
open Nv Nv.C12 Nv.C13
namespace C13O


/-- oracle state of a list queue with anonymous consumers: the queue and how many Pop / PopAnyway consumers are parked
    or woken (thread identities are not observable) -/
structure AS where
  q : LQ
  pp : Nat      -- parked in Pop
  pa : Nat      -- parked in PopAnyway
  wp : Nat      -- woken, called Pop
  wa : Nat      -- woken, called PopAnyway
  wc : Nat      -- callers blocked in WaitClose (released when `stopChan` is closed, i.e. when the queue is closed)
  wl : Nat      -- callers blocked in WaitClear (MQ; released when the queue is cleared)
  sp : List Nat -- items of `*Anyway` adds still in their retry loop (sorted)
deriving DecidableEq

inductive St
  | none
  | lq (P : Par) (ss : List AS)        -- the SET of states the transition system allows after the lines so far
  | pq (s : PS) (waiters : Nat)

def showOut : Out → String
  | .ok => "ok" | .closed => "closed" | .full => "full" | .ctrlFull => "ctrl-full"
  | .val x => (if x == 0 then "v:nil" else s!"v:{x}") | .nil => "nil" | .none => "none" | .wouldBlock => "would-block"
  | .bool b => if b then "true" else "false" | .num n => s!"{n}" | .badOp => "bad-op"
  | .spun _ _ => "spun"

/-- an item: a positive number, or `nil` (a legal `interface{}` item; value 0 in the model) -/
def parseItem (s : String) : Option Nat :=
  if s == "nil" then some 0 else match parseNat? s with
    | some 0 => none
    | r => r

def insertS (x : String) : List String → List String
  | [] => [x]
  | y :: r => if x < y then x :: y :: r else y :: insertS x r
def sortS (l : List String) : List String := l.foldr insertS []

def suffix (rets : List String) (parked : Nat) : String :=
  " ret=[" ++ ",".intercalate (sortS rets) ++ "] parked=" ++ toString parked

def parseKind (s : String) : Option Kind :=
  if s == "q" then some .q else if s == "async" then some .async else if s == "mux" then some .mux else none

def mkPar (k : Kind) : Par := ⟨k, Nv.Gen.C12.cfg.shape k, Nv.Gen.C12.cfg.syncq, Nv.Gen.C13.cfg.wake k⟩

/-- a concrete LTS state for an anonymous one: parked threads 1…, woken threads 1001…, nothing done yet -/
def concretize (a : AS) : CS :=
  ⟨a.q,
   (List.range a.pp).map (fun i => (i + 1, false)) ++ (List.range a.pa).map (fun i => (a.pp + i + 1, true)),
   (List.range a.wp).map (fun i => (1001 + i, false)) ++ (List.range a.wa).map (fun i => (1001 + a.wp + i, true)),
   [], []⟩

def countKind (k : Bool) (l : List (Tid × Bool)) : Nat := (l.filter (fun e => e.2 == k)).length

def abstractS (s : CS) (wc wl : Nat) (sp : List Nat := []) : AS :=
  ⟨s.q, countKind false s.parked, countKind true s.parked, countKind false s.woken, countKind true s.woken, wc, wl, sp⟩

def firstOfKind (k : Bool) (l : List (Tid × Bool)) : Option Tid := (l.find? (fun e => e.2 == k)).map (·.1)

/-- a producer-side event: its LTS action (Signal's choice `w` given) and its result text -/
def producer (P : Par) (s : CS) (w : Tid) (ws : List String) : Option (Act × String) :=
  -- SyncQueue cannot carry nil items (its Pop/TryPop answer nil for "closed")
  if P.kind == .syncq && ws.getLast? == some "nil" then none else
  match ws with
  | ["add", x] => (parseItem x).map fun x =>
      (.add x w, if P.kind == .syncq then "ok" else showOut (addReq P.sh s.q x).2)
  | ["prior", x] => (parseItem x).map fun x => (.prior x w, showOut (addPrior P.sh s.q x).2)
  | ["addc", x] => (parseItem x).map fun x => (.addCtrl x w, showOut (addCtrl P.sh s.q x).2)
  | ["priorc", x] => (parseItem x).map fun x => (.priorCtrl x w, showOut (addPriorCtrl P.sh s.q x).2)
  | ["close"] => some (.close w, "ok")
  | ["tryclose"] => some (.tryClose w, showOut (tryClose s.q).2)
  | ["tryclear"] => some (.tryClear, showOut (tryClear s.q).2)
  | ["trypop"] => some (.tryPop, showOut (syncTryPop P.ssh s.q).2)
  | _ => none

def splitSemi : List String → List String → List (List String)
  | [], cur => [cur.reverse]
  | w :: r, cur => if w == ";" then cur.reverse :: splitSemi r [] else splitSemi r (w :: cur)

def burstEv (ws : List String) : Bool :=
  match ws with
  | op :: _ => op == "add" || op == "prior" || op == "addc" || op == "priorc" || op == "close" || op == "tryclose" ||
      op == "trypop"      -- SyncQueue: a barging TryPop between a push and the resume of the consumer it signalled
  | [] => false

/-- `addn n x0` = the adds `x0, x0+1, …, x0+n-1` one after the other; `drain` (SyncQueue) = TryPop until nothing is left -/
def bulkOk (P : Par) (ev : List String) : Bool :=
  match ev with
  | ["addn", n, x] => match parseNat? n, parseNat? x with
    | some n, some x => decide (n ≤ 100000) && decide (0 < x)
    | _, _ => false
  | ["drain"] => P.kind == .syncq
  | _ => false

/-- lines that start a NEW caller (consumer, WaitClose/WaitClear caller, `*Anyway` producer), and `settle` -/
def callerOk (P : Par) (ev : List String) : Bool :=
  match ev with
  | ["pop"] => true
  | ["popany"] => P.kind != .syncq
  | ["waitclose"] => P.kind == .mq || P.kind == .mux
  | ["waitclear"] => P.kind == .mq
  | ["addany", x] => P.kind != .syncq && (parseItem x).isSome
  | ["settle"] => true
  | _ => false

/-- are all events of the line well formed and enabled for this queue type? (does not depend on the state) -/
def eventsOk (P : Par) (atomic : Bool) : List (List String) → CS → Bool
  | [], _ => true
  | ev :: r, s =>
    if !atomic && (bulkOk P ev || callerOk P ev) then eventsOk P atomic r s else
    (!atomic || burstEv ev) &&
    match producer P s 0 ev with
    | none => false
    | some (a, _) => match Nv.C13.step P { s with parked := [] } a with
      | none => false
      | some s' => eventsOk P atomic r s'

/-- a point of the exploration of one line: anonymous state, events still to come, results so far (reversed), results
    of the callers that returned so far, a counter for bulk events, and whether a consumer resumed or a retrying
    `*Anyway` add made an attempt while events of the line were still to come -/
structure Cfg1 where
  a : AS
  evs : List (List String)
  res : List String
  rets : List String
  cnt : Nat
  early : Bool
deriving DecidableEq

def addNew (x : Cfg1) (l : List Cfg1) : List Cfg1 := if l.contains x then l else x :: l

def insertN (x : Nat) : List Nat → List Nat
  | [] => [x]
  | y :: r => if x ≤ y then x :: y :: r else y :: insertN x r

def signalChoices (s : CS) : List Tid :=
  match firstOfKind false s.parked, firstOfKind true s.parked with
  | some t1, some t2 => [t1, t2]
  | some t1, none => [t1]
  | none, some t2 => [t2]
  | none, none => [0]

def retsOf (c : Cfg1) (s' : CS) : List String := sortS (c.rets ++ s'.done.map (fun d => showOut d.2))

/-- successors of a point: the next event (with every choice a Signal has), the resume of a woken consumer of either
    kind, or a retry of a pending `*Anyway` add — woken consumers and retries may run before, between and after the
    events of the line -/
def expand (P : Par) (c : Cfg1) : List Cfg1 :=
  let s := concretize c.a
  let keep (s' : CS) : AS := abstractS s' c.a.wc c.a.wl c.a.sp
  let evSucc : List Cfg1 :=
    match c.evs with
    | [] => []
    | ["addn", n, x] :: r =>
      (match parseNat? n, parseNat? x with
      | some 0, _ => [{ c with evs := r, res := s!"ok={c.cnt}" :: c.res, cnt := 0 }]
      | some (n + 1), some x =>
        (signalChoices s).filterMap fun w =>
          match producer P s w ["add", toString x] with
          | none => none
          | some (act, r1) => match Nv.C13.step P s act with
            | none => none
            | some s' => some { c with a := keep s', evs := ["addn", toString n, toString (x + 1)] :: r,
                                       rets := retsOf c s', cnt := c.cnt + (if r1 == "ok" then 1 else 0) }
      | _, _ => [])
    | ["drain"] :: r =>
      -- TryPop by the script's own thread until the buffer is empty: one item per step
      (match s.q.req with
      | [] => [{ c with evs := r, res := s!"n:{c.cnt}" :: c.res, cnt := 0 }]
      | _ :: _ => match Nv.C13.step P s .tryPop with
        | none => []
        | some s' => [{ c with a := keep s', cnt := c.cnt + 1 }])
    | ["settle"] :: r => [{ c with evs := r, res := "ok" :: c.res }]
    | ["pop"] :: r | ["popany"] :: r =>
      (match Nv.C13.step P s (.popCall 999 (c.evs.head? == some ["popany"])) with
      | none => []
      | some s' => match s'.done with
        | (_, o) :: _ => [{ c with a := keep s', evs := r, res := ("ret:" ++ showOut o) :: c.res }]
        | [] => [{ c with a := keep s', evs := r, res := "parked" :: c.res }])
    | ["waitclose"] :: r =>
      if c.a.q.closed then [{ c with evs := r, res := "ret:ok" :: c.res }]
      else [{ c with a := { c.a with wc := c.a.wc + 1 }, evs := r, res := "parked" :: c.res }]
    | ["waitclear"] :: r =>
      if c.a.q.cleared then [{ c with evs := r, res := "ret:ok" :: c.res }]
      else [{ c with a := { c.a with wl := c.a.wl + 1 }, evs := r, res := "parked" :: c.res }]
    | ["addany", x] :: r =>
      -- the first attempt of a NEW `*Anyway` add: refused for capacity → it stays in its retry loop
      (match parseItem x with
      | none => []
      | some x =>
        (signalChoices s).filterMap fun w =>
          match producer P s w ["add", if x == 0 then "nil" else toString x] with
          | none => none
          | some (act, r1) =>
            if r1 == "full" then some { c with a := { c.a with sp := insertN x c.a.sp }, evs := r, res := "parked" :: c.res }
            else match Nv.C13.step P s act with
              | none => none
              | some s' => some { c with a := keep s', evs := r, res := ("ret:" ++ r1) :: c.res, rets := retsOf c s' })
    | ev :: r =>
      (signalChoices s).filterMap fun w =>
        match producer P s w ev with
        | none => none
        | some (act, r1) => match Nv.C13.step P s act with
          | none => none
          | some s' => some { c with a := keep s', evs := r, res := r1 :: c.res, rets := retsOf c s' }
  let pending := !c.evs.isEmpty
  let rsSucc : List Cfg1 :=
    ([firstOfKind false s.woken, firstOfKind true s.woken].filterMap id).filterMap fun t =>
      match Nv.C13.step P s (.resume t) with
      | none => none
      | some s' => some { c with a := keep s', rets := retsOf c s', early := c.early || pending }
  -- a retry of a pending `*Anyway` add: refused for capacity → nothing changes; otherwise it returns
  let spSucc : List Cfg1 :=
    (c.a.sp.eraseDups).flatMap fun x =>
      (signalChoices s).filterMap fun w =>
        match producer P s w ["add", if x == 0 then "nil" else toString x] with
        | none => none
        | some (act, r1) =>
          if r1 == "full" then none else
          match Nv.C13.step P s act with
          | none => none
          | some s' => some { c with a := { keep s' with sp := c.a.sp.erase x }, rets := sortS (retsOf c s' ++ [r1]),
                                     early := c.early || pending }
  evSucc ++ rsSucc ++ spSucc

def isTerminal (c : Cfg1) : Bool := c.evs.isEmpty && c.a.wp == 0 && c.a.wa == 0

/-- breadth-first exploration with de-duplication; every step consumes (part of) an event, a woken consumer or a
    pending retry, so it ends. Quiescent points with retries still pending are outcomes too (the retry may come later). -/
def explore (P : Par) : Nat → List Cfg1 → List Cfg1 → List Cfg1
  | 0, _, done => done
  | n + 1, frontier, done =>
    match frontier with
    | [] => done
    | _ =>
      let term := frontier.filter isTerminal
      let next := (frontier.flatMap (expand P)).foldr addNew []
      explore P n next (term.foldr addNew done)

/-- at the end of a line: WaitClose callers return once the queue is closed, WaitClear callers once it is cleared
    (the channels are closed in the same critical sections that set the flags — a regenerated fact) -/
def release (c : Cfg1) : Cfg1 :=
  let c1 := if c.a.q.closed && c.a.wc > 0 then
      { c with a := { c.a with wc := 0 }, rets := sortS (c.rets ++ List.replicate c.a.wc "ok") } else c
  if c1.a.q.cleared && c1.a.wl > 0 then
    { c1 with a := { c1.a with wl := 0 }, rets := sortS (c1.rets ++ List.replicate c1.a.wl "ok") } else c1

def parkedOf (a : AS) : Nat := a.pp + a.pa + a.wc + a.wl + a.sp.length

def outOf (c : Cfg1) : String := ";".intercalate c.res.reverse ++ suffix c.rets (parkedOf c.a)

def dedupS (l : List String) : List String := l.foldr (fun x acc => if acc.contains x then acc else x :: acc) []
def dedupA (l : List AS) : List AS := l.foldr (fun x acc => if acc.contains x then acc else x :: acc) []

/-- one answer line: a single outcome, or the set `{a|b|…}` of outcomes the transition system allows -/
def showSet (outs : List String) : String :=
  match sortS (dedupS outs) with
  | [o] => o
  | os => "{" ++ "|".intercalate os ++ "}"

def bulkFuel : List (List String) → Nat
  | [] => 0
  | ["addn", n, _] :: r => (parseNat? n).getD 0 + 2 + bulkFuel r
  | _ :: r => 2 + bulkFuel r

def lqLine (P : Par) (ss : List AS) (ws : List String) : St × String :=
  match ws with
  | _ =>
    let atomic := ws.head? == some "atomic"
    let evs := if atomic then splitSemi (ws.drop 1) [] else [ws]
    match ss with
    | [] => (.lq P ss, "bad-op")
    | a0 :: _ =>
      if !eventsOk P atomic evs (concretize a0) then (.lq P ss, "bad-op") else
      let backlog := ss.foldl (fun m a => max m a.q.req.length) 0
      let finals := (explore P (400 + bulkFuel evs + backlog) (ss.map fun a => ⟨a, evs, [], [], 0, false⟩) []).map release
      -- a burst line also says whether the runner could certify that nobody ran before its last event returned
      let outs := if atomic then
          (finals.filter (fun c => !c.early)).map (fun c => outOf c ++ " held=1") ++ finals.map (fun c => outOf c ++ " held=0")
        else finals.map outOf
      (.lq P (dedupA (finals.map (·.a))), showSet outs)

/-! priq -/

def popMacro (sh : PriShape) (pc : PriCfg) (s : PS) (holder : Bool) : PS × String :=
  match pstepC sh pc s (.popLock holder) with
  | none => (s, "bad-op")
  | some s1 =>
    let r := match (pqPop sh s.q).2 with
      | some m => s!"v:{m.item}"
      | none => "nil"
    match pstepC sh pc s1 .popSignal with
    | some s2 => (s2, r)
    | none => (s1, r)

/-- parked consumers proceed while the channel is readable: receive, Pop, re-signal -/
def serve (sh : PriShape) (pc : PriCfg) : Nat → PS → Nat → List String → PS × Nat × List String
  | 0, s, w, acc => (s, w, acc)
  | n + 1, s, w, acc =>
    if w = 0 then (s, w, acc) else
    match pstepC sh pc s .recv with
    | none => (s, w, acc)
    | some s1 =>
      let r := popMacro sh pc s1 true
      serve sh pc n r.1 (w - 1) (r.2 :: acc)

def pqFinish (sh : PriShape) (pc : PriCfg) (s : PS) (w : Nat) (res : String) : St × String :=
  let r := serve sh pc w s w []
  (.pq r.1 r.2.1, res ++ suffix r.2.2 r.2.1)

def pqLine (s : PS) (w : Nat) (ws : List String) : St × String :=
  let sh := Nv.Gen.C12.cfg.priq
  let pc := Nv.Gen.C13.cfg.priq
  match ws with
  | ["push", x, p] => match parseNat? x, parseInt? p with
    | some x, some p =>
      match pstepC sh pc s (.pushLock x p) with
      | none => (.pq s w, "bad-op")
      | some s1 =>
        let res := showOut (pqPush sh s.q x p).2
        let s2 := match pstepC sh pc s1 .pushSignal with | some s2 => s2 | none => s1
        pqFinish sh pc s2 w res
    | _, _ => (.pq s w, "bad-op")
  | ["pop"] =>
    let r := popMacro sh pc s (decide (0 < s.holders))
    pqFinish sh pc r.1 w r.2
  | ["recv"] => match pstepC sh pc s .recv with
    | some s1 => pqFinish sh pc s1 w "got"
    | none => pqFinish sh pc s w "empty"
  | ["waitlen"] => pqFinish sh pc s w (if s.token then "1" else "0")
  | ["len"] => pqFinish sh pc s w (toString s.q.entries.length)
  | ["consume"] => match pstepC sh pc s .recv with
    | some s1 =>
      let r := popMacro sh pc s1 true
      pqFinish sh pc r.1 w ("ret:" ++ r.2)
    | none => (.pq s (w + 1), "parked" ++ suffix [] (w + 1))
  | _ => (.pq s w, "bad-op")


/-- `stress <class> <kind> <rounds>`: the parallel stress class of the harness. Its invariants (capacity under parallel
    adds, results ∈ {item, closed}, each item handed out once, nobody parked beside an item or on a closed queue) hold
    in every run of the transition system, so the answer is always `ok`. -/
def stressOk (ws : List String) : Bool :=
  match ws with
  | ["stress", cls, kind, n] =>
    let okKind := match cls with
      | "cap" => kind == "q" || kind == "async" || kind == "mux" || kind == "mq" || kind == "priq"
      | "pop" => kind == "q" || kind == "async" || kind == "mux" || kind == "mq"
      | "trypop" => kind == "syncq"
      | "wake" => kind == "q" || kind == "async" || kind == "mux" || kind == "mq" || kind == "syncq"
      | "runner" => kind == "async"
      | "runnercap" => kind == "async"
      | _ => false
    okKind && (match Nv.parseNat? n with
      | some k => decide (1 ≤ k) && decide (k ≤ 10000000) && toString k == n
      | none => false)
  | _ => false

def step (st : St) (line : String) : St × String :=
  match words line with
  | "stress" :: rest => if stressOk ("stress" :: rest) then (.none, "ok") else (.none, "bad-op")
  | ["new", "mq", a, b] => match parseInt? a, parseInt? b with
    | some a, some b => (.lq (mkPar .mq) [⟨LQ.new .mq a b, 0, 0, 0, 0, 0, 0, []⟩], "ok")
    | _, _ => (.none, "bad-op")
  | ["new", "syncq"] => (.lq (mkPar .syncq) [⟨LQ.new .syncq 0 0, 0, 0, 0, 0, 0, 0, []⟩], "ok")
  | ["new", "priq", a] => match parseInt? a with
    | some a => (.pq (PS.init a) 0, "ok")
    | none => (.none, "bad-op")
  | ["new", k, a] => match parseKind k, parseInt? a with
    | some k, some a => (.lq (mkPar k) [⟨LQ.new k 0 a, 0, 0, 0, 0, 0, 0, []⟩], "ok")
    | _, _ => (.none, "bad-op")
  | "new" :: _ => (.none, "bad-op")
  | ws => match st with
    | .none => (st, "bad-op")
    | .lq P ss => lqLine P ss ws
    | .pq s w => pqLine s w ws


end C13O
