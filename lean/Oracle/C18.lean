import Nv.OracleIO
import Nv.Model.C18
import Nv.Gen.C18
/-!
oracle_c18 — line protocol:
  `tx <beginOk:0|1> <commitOk:0|1> <rollbackOk:0|1> <step>*`   step ::= ok | e<k> | p<k> | pn
      → `events=<e,…> result=<r>`
  `combine <step>*` → `ran=<n> out=<step>`
  `combinen <step>* (/ <step>*)*` → `ran=<n> out=<step>` for Combine(Combine(g1…), Combine(g2…), …)
  `txn <pre:0-3> <b:0|1> <c:0|1> <r:0|1> <step>*` → the output of `tx <b> <c> <r> <step>*` (Transact on the shared handle of gormx.New; pre = history on the handle)
  `soak <n>` (n ≤ 200000) → the output of `tx 1 1 1 ok p1 ok` after n failing transactions in the same process
  `par <n> tx …` (1 ≤ n ≤ 64) → the output of the `tx` line (n concurrent calls, each on its own connection)
The configuration is the one regenerated from the source (`Nv.Gen.C18.cfg`).
-/
open Nv Nv.C18

def parseStep (s : String) : Option StepOutcome :=
  if s == "ok" then some .ok
  else if s == "pn" then some .panicNil
  else if s.startsWith "e" then (s.drop 1).toString.toNat?.map .err
  else if s.startsWith "p" then (s.drop 1).toString.toNat?.map .panic
  else none

def parseSteps (l : List String) : Option (List StepOutcome) := l.mapM parseStep

/-- begin flag: 1 = succeeds; 0 = fails; 2, 3, 4 = the first attempt fails with a well-known transient error (a retry
    would succeed) — `Transact` makes one attempt, so for the model all of them are "begin failed" -/
def parseBool (s : String) : Option Bool :=
  if s == "1" then some true else if s == "0" || s == "2" || s == "3" || s == "4" then some false else none

/-- commit / rollback flag: 1 = succeeds; 0, 2, 3, 4 = fails (with the fake's own error or a well-known sentinel —
    the model does not distinguish the kinds: the outcome may not depend on which error the driver returns) -/
def parseFinish (s : String) : Option Bool :=
  if s == "1" then some true
  else if s == "0" || s == "2" || s == "3" || s == "4" || s == "5" || s == "6" then some false else none

def showEvent : Event → String
  | .begin => "begin" | .step i => s!"s{i}" | .commit => "commit" | .rollback => "rollback"

def showResult : Result → String
  | .nil => "nil" | .stepErr e => s!"stepErr:{e}" | .panicErr (some v) => s!"panicErr:{v}"
  | .panicErr none => "panicErr:nil" | .beginErr => "beginErr" | .commitErr => "commitErr"

def showStep : StepOutcome → String
  | .ok => "ok" | .err e => s!"e{e}" | .panic v => s!"p{v}" | .panicNil => "pn"

def splitGroups : List String → List (List String)
  | [] => [[]]
  | t :: rest =>
    if t == "/" then [] :: splitGroups rest
    else match splitGroups rest with
      | g :: gs => (t :: g) :: gs
      | [] => [[t]]

def stepW : List String → String
  | "tx" :: b :: c :: r :: steps =>
    match parseBool b, parseFinish c, parseFinish r, parseSteps steps with
    | some b, some c, some _, some steps =>
      let out := transact Nv.Gen.C18.cfg b c steps
      s!"events={",".intercalate (out.1.map showEvent)} result={showResult out.2}"
    | _, _, _, _ => "bad-op"
  | "combine" :: steps =>
    match parseSteps steps with
    | some steps => s!"ran={combineRan steps} out={showStep (combine steps)}"
    | none => "bad-op"
  | _ => "bad-op"

/-- `par <n> tx …`: n concurrent calls on n connections — calls share no state, so each behaves like the single call. -/
def step (_ : Unit) (line : String) : Unit × String :=
  match words line with
  | "par" :: n :: "tx" :: rest =>
    match n.toNat? with
    | some k => if 1 ≤ k ∧ k ≤ 64 then ((), stepW ("tx" :: rest)) else ((), "bad-op")
    | none => ((), "bad-op")
  | "combinen" :: rest =>
    -- groups separated by "/": the nested Combine must equal Combine over the flat list (theorems combine_flatten,
    -- nested_ran_flatten); the oracle computes it the NESTED way
    match (splitGroups rest).mapM parseSteps with
    | some gs => ((), s!"ran={nestedRan gs} out={showStep (combine (gs.map combine))}")
    | none => ((), "bad-op")
  | "txn" :: pre :: rest =>
    -- the shared handle made by gormx.New: what happened on it before (pre ∈ 0…3) does not matter
    if pre == "0" || pre == "1" || pre == "2" || pre == "3" then
      match rest with
      | b :: c :: r :: steps =>
        if (b == "0" || b == "1") && (c == "0" || c == "1") && (r == "0" || r == "1") then ((), stepW ("tx" :: b :: c :: r :: steps))
        else ((), "bad-op")
      | _ => ((), "bad-op")
    else ((), "bad-op")
  | ["soak", n] =>
    match n.toNat? with
    | some k => if k ≤ 200000 then ((), stepW ["tx", "1", "1", "1", "ok", "p1", "ok"]) else ((), "bad-op")
    | none => ((), "bad-op")
  | ws => ((), stepW ws)

def main : IO Unit := oracleMain step ()
