import Nv.OracleIO
import Nv.Model.C20
import Nv.Gen.C20
/-!
oracle_c20 — line protocol (every line is self-contained, there is no state):
  `<ty>.dec t:<tok>`      ty ∈ i64 u64 utime ntime stamp dur byte     → `ok <v>` | `err:<kind>` | `panic`
  `<ty>.rt <v>`           marshal then unmarshal                        → `enc=t:<tok> dec=<as above>`
  `hex.dec <16|32> <s|u> t:<tok>`, `hex.rt <16|32> <s|u> <v>`
  `b64.dec t:<tok>` → `ok x:<hex>` | `err:other`;  `b64.rt x:<hex>` → `enc=t:<tok> dec=ok x:<hex>`
  `sql.scan <nano|unix|stamp|t2u> <i32|u32|i64|u64|int|uint|f64|bool|bytes|str|time|null> <v>` → `ok <sec>:<nsec>` (nano, unix) | `ok <stamp>`
  `sql.rt <nano|unix|stamp|t2u> <v>`, `sql.rtt <nano|unix> <sec> <nsec> <how>` → `val=<driver value> scan=…`
  `ntime.rtt|utime.rtt <sec> <nsec> <how>` → `enc=t:<tok> dec=ok <sec>:<nsec>`   (how ∈ unix | zero | date<Y>: how the runner builds the time.Time)
  `tostr <i64w|u64w|i64|u64|int|uint|dur|tdur> <v>` → `t:<text>` (tex.ToString = MapVal2String = ToStringList element)
  `dur.toml t:<tok>|k:<kind>`, `byte.fromstr t:<tok>`, `b64.scankind <kind>`; `dur.rt` also prints `get=` (Duration()) and `toml=`, `byte.rt` also `str=` (ToString) and `fs=` (FromString)
Tokens are escaped: bytes outside 0x21…0x7E and `%` are written `%XX`.
The configuration is the one regenerated from the source (`Nv.Gen.C20.cfg`).
-/
open Nv Nv.C20

def hexDigit? (c : Char) : Option Nat :=
  if '0' ≤ c ∧ c ≤ '9' then some (c.toNat - 48)
  else if 'a' ≤ c ∧ c ≤ 'f' then some (c.toNat - 87)
  else if 'A' ≤ c ∧ c ≤ 'F' then some (c.toNat - 55)
  else none

def unescape : List Char → Option Bytes
  | [] => some []
  | '%' :: a :: b :: rest =>
    match hexDigit? a, hexDigit? b, unescape rest with
    | some x, some y, some r => some ((x * 16 + y) :: r)
    | _, _, _ => none
  | '%' :: _ => none
  | c :: rest =>
    if 33 ≤ c.toNat ∧ c.toNat ≤ 126 then (unescape rest).map (c.toNat :: ·) else none

def hexChar (n : Nat) : Char := Char.ofNat (if n < 10 then 48 + n else 55 + n)

def escape (b : Bytes) : String :=
  String.ofList (b.flatMap fun c =>
    if 33 ≤ c ∧ c ≤ 126 ∧ c ≠ 37 then [Char.ofNat c] else ['%', hexChar (c / 16 % 16), hexChar (c % 16)])

def tok? (s : String) : Option Bytes :=
  match s.toList with
  | 't' :: ':' :: rest => unescape rest
  | _ => none

def showTok (b : Bytes) : String := "t:" ++ escape b

def hexBytes? : List Char → Option Bytes
  | [] => some []
  | a :: b :: rest =>
    match hexDigit? a, hexDigit? b, hexBytes? rest with
    | some x, some y, some r => some ((x * 16 + y) :: r)
    | _, _, _ => none
  | _ => none

def xbytes? (s : String) : Option Bytes :=
  match s.toList with
  | 'x' :: ':' :: rest => hexBytes? rest
  | _ => none

def lowHex (n : Nat) : Char := Char.ofNat (if n < 10 then 48 + n else 87 + n)
def showX (b : Bytes) : String := "x:" ++ String.ofList (b.flatMap fun c => [lowHex (c / 16 % 16), lowHex (c % 16)])

def showErr : Err → String
  | .invalid => "err:invalid" | .syntax => "err:syntax" | .range => "err:range" | .other => "err:other"
  | .byteRange => "{err:invalid|err:range|err:other}"

def showRes {α} (f : α → String) : Res α → String
  | .ok v => "ok " ++ f v
  | .err e => showErr e
  | .panic => "panic"

def showInt (i : Int) : String := toString i
def showNats (l : List Nat) : String := showList toString l

def inI64 (v : Int) : Bool := -(2 ^ 63 : Int) ≤ v && v < 2 ^ 63

def wrapOf (ty : String) : Option Wrap :=
  let c := Nv.Gen.C20.cfg
  if ty == "i64" then some c.i64 else if ty == "u64" then some c.u64
  else if ty == "utime" then some c.unixTime else if ty == "ntime" then some c.nanoTime
  else if ty == "stamp" then some c.stamp else none

def parseNatList (s : String) : Option (List Nat) :=
  if s == "-" then some [] else (s.splitOn ",").mapM (·.toNat?)

def parseTime? (v : String) : Option Time :=
  match v.splitOn ":" with
  | [a, b] =>
    match a.toInt?, b.toNat? with
    | some s, some n => if n < 1000000000 then some ⟨s, n⟩ else none
    | _, _ => none
  | _ => none

def sqlVal? (ty v : String) : Option SqlVal :=
  if ty == "i32" then v.toInt?.map .i32 else if ty == "u32" then v.toNat?.map .u32
  else if ty == "i64" then v.toInt?.map .i64 else if ty == "u64" then v.toNat?.map .u64
  else if ty == "int" then v.toInt?.map .int else if ty == "uint" then v.toNat?.map .uint
  else if ty == "f64" then v.toInt?.map .f64
  else if ty == "bool" then (if v == "1" then some (.bool true) else if v == "0" then some (.bool false) else none)
  else if ty == "bytes" then (tok? v).map .bytes else if ty == "str" then (tok? v).map .str
  else if ty == "time" then (parseTime? v).map .time
  else if ty == "null" then (if v == "-" then some .null else none)
  else none

def showTime (t : Time) : String := s!"{t.sec}:{t.nsec}"

def howOk (how : String) (t : Time) : Bool :=
  how == "unix" || (how == "zero" && t == Time.zero) ||
  (how.startsWith "date" && (how.drop 4).toString.toNat?.isSome && t.nsec == 0)

def scanTarget (target : String) (sv : SqlVal) : Option String :=
  let cfg := Nv.Gen.C20.cfg
  if target == "nano" then some (showRes showTime (scanNano cfg.scanInt sv))
  else if target == "unix" then some (showRes showTime (scanUnix cfg.scanInt sv))
  else if target == "stamp" || target == "t2u" then some (showRes showInt (scanStamp cfg.scanStamp 7 sv))
  else none

def answer (line : String) : String :=
  let cfg := Nv.Gen.C20.cfg
  match words line with
  | [op, a] =>
    if op == "dur.dec" then
      match tok? a with | some b => showRes showInt (decodeDur cfg.dur b) | none => "bad-op"
    else if op == "byte.dec" then
      match tok? a with | some b => showRes showNats (decodeBytes cfg.byte cfg.byteConv b) | none => "bad-op"
    else if op == "byte.fromstr" then
      match tok? a with | some b => showRes showNats (fromString cfg.byteConv b) | none => "bad-op"
    else if op == "dur.toml" then
      match tok? a with
      | some b => showRes showInt (parseDuration b)
      | none => if a == "k:int" || a == "k:bytes" || a == "k:nil" || a == "k:float" then "err:invalid" else "bad-op"
    else if op == "b64.scankind" then
      if a == "int" || a == "nil" || a == "float" || a == "time" then "err:other" else "bad-op"
    else if op == "b64.dec" then
      match tok? a with | some b => showRes showX (b64Decode b) | none => "bad-op"
    else if op == "b64.rt" then
      match xbytes? a with
      | some b => let e := b64Encode b; s!"enc={showTok e} dec={showRes showX (b64Decode e)}"
      | none => "bad-op"
    else if op == "dur.rt" then
      match a.toInt? with
      | some d => if inI64 d then let e := encodeDur d; s!"enc={showTok e} dec={showRes showInt (decodeDur cfg.dur e)} get={d} toml={showRes showInt (parseDuration (durString d))}" else "bad-op"
      | none => "bad-op"
    else if op == "byte.rt" then
      match parseNatList a with
      | some l => if l.all (· < 256) then let e := encodeBytes l; s!"enc={showTok e} dec={showRes showNats (decodeBytes cfg.byte cfg.byteConv e)} str={showTok (toJS l)} fs={showRes showNats (fromString cfg.byteConv (toJS l))}" else "bad-op"
      | none => "bad-op"
    else if op == "u64.rt" then
      match a.toNat? with
      | some v => if v < 2 ^ 64 then let e := encodeNat v; s!"enc={showTok e} dec={showRes showInt (decodeInt cfg.u64 e)}" else "bad-op"
      | none => "bad-op"
    else
      match op.splitOn "." with
      | [ty, "dec"] =>
        match wrapOf ty, tok? a with
        | some w, some b => showRes showInt (decodeInt w b)
        | _, _ => "bad-op"
      | [ty, "rt"] =>
        match wrapOf ty, a.toInt? with
        | some w, some v => if inI64 v then let e := encodeInt v; s!"enc={showTok e} dec={showRes showInt (decodeInt w e)}" else "bad-op"
        | _, _ => "bad-op"
      | _ => "bad-op"
  | ["hex.dec", base, sg, a] =>
    match base.toNat?, tok? a with
    | some bs, some b =>
      if bs ≠ 16 ∧ bs ≠ 32 then "bad-op"
      else if sg == "s" then showRes showInt (parseInt bs 64 b)
      else if sg == "u" then showRes toString (parseUint bs 64 b)
      else "bad-op"
    | _, _ => "bad-op"
  | ["hex.rt", base, sg, a] =>
    match base.toNat? with
    | some bs =>
      if bs ≠ 16 ∧ bs ≠ 32 then "bad-op"
      else if sg == "s" then
        match a.toInt? with
        | some v => if inI64 v then let e := fmtInt bs v; s!"enc={showTok e} dec={showRes showInt (parseInt bs 64 e)}" else "bad-op"
        | none => "bad-op"
      else if sg == "u" then
        match a.toNat? with
        | some v => if v < 2 ^ 64 then let e := fmtNat bs v; s!"enc={showTok e} dec={showRes toString (parseUint bs 64 e)}" else "bad-op"
        | none => "bad-op"
      else "bad-op"
    | none => "bad-op"
  | ["tostr", kind, v] =>
    -- tex.ToString / MapVal2String / ToStringList of an integer kind
    if kind == "u64w" || kind == "u64" || kind == "uint" then
      match v.toNat? with
      | some n => if n < 2 ^ 64 then showTok (toStrNum cfg.toStr (n : Int)) else "bad-op"
      | none => "bad-op"
    else if kind == "i64w" || kind == "i64" || kind == "int" || kind == "dur" || kind == "tdur" then
      match v.toInt? with
      | some x => if inI64 x then showTok (toStrNum cfg.toStr x) else "bad-op"
      | none => "bad-op"
    else "bad-op"
  | ["sql.scan", target, ty, v] =>
    match sqlVal? ty v with
    | some sv => (scanTarget target sv).getD "bad-op"
    | none => "bad-op"
  | ["sql.rt", target, v] =>
    match v.toInt? with
    | some x =>
      if !inI64 x then "bad-op"
      else if target == "nano" || target == "unix" then
        s!"val={x} scan={(scanTarget target (.i64 x)).getD "bad-op"}"
      else if target == "stamp" || target == "t2u" then
        s!"val={x} scan={(scanTarget target (.time (timeUnix x 0))).getD "bad-op"}"
      else "bad-op"
    | none => "bad-op"
  | ["sql.rtt", target, a, b, how] =>
    match parseTime? (a ++ ":" ++ b) with
    | some t =>
      if !howOk how t || !inI64 t.sec then "bad-op"
      else if target == "nano" then s!"val={t.unixNano} scan={(scanTarget target (.i64 t.unixNano)).getD "bad-op"}"
      else if target == "unix" then s!"val={t.sec} scan={(scanTarget target (.i64 t.sec)).getD "bad-op"}"
      else "bad-op"
    | none => "bad-op"
  | [op, a, b, how] =>
    match parseTime? (a ++ ":" ++ b) with
    | some t =>
      if !howOk how t || !inI64 t.sec then "bad-op"
      else if op == "ntime.rtt" then
        let e := encodeNanoTime t; s!"enc={showTok e} dec={showRes showTime (decodeNanoTime cfg.nanoTime e)}"
      else if op == "utime.rtt" then
        let e := encodeUnixTime t; s!"enc={showTok e} dec={showRes showTime (decodeUnixTime cfg.unixTime e)}"
      else "bad-op"
    | none => "bad-op"
  | _ => "bad-op"

def main : IO Unit := oracleMain (fun (_ : Unit) l => ((), answer l)) ()
