import Nv.OracleIO
import Nv.Model.C05
import Nv.Gen.C05
/-!
oracle_c05 — line protocol (keys `k<n>`, values are naturals, clock in unix milliseconds):
  `new <mem|rds|both> <size> <dttl> <clockMs>`            → `ok`        (first line of every script)
  `set <k> <v> <ttl|-> <mustNotExist:0|1> <keepTTL:0|1>`  → `ok` | `exists` | `err`
  `get <k> <remove:0|1> <updateTTL|->`                    → `val:<v>` | `notfound`
  `del <k>` | `clear`                                     → `ok`
  `tick <ms>`                                             → `ok`
  `cset …` | `cget …` | `cdel <k>` | `cclear`   the same call with an ALREADY CANCELLED context: the in-memory cache
                   ignores it; the redis-backed one changes nothing and answers `err` (`cclear`: `ok`)
  `fset <k> <v>` | `fget <k>`   (modes rds, both) a key of ANOTHER cache (other prefix, no expiry) on the same redis:
                   → `ok` | `val:<v>` | `notfound`; nothing this cache does (Clear included) touches it
  `stress <mem|rds> <size≤64> <seed> <goroutines 1..32> <opsEach 1..5000> <keys 1..16>` racing callers on a fresh
                   cache in a child process; every schedule must keep the property → `stress-ok`
  `smoke`          a child WITHOUT the clock hook: ttl 1 s gone after 2.1 s of real time, ttl 600 s still served → `smoke-ok`
  `race <k> <n>`   n concurrent remove-after-get readers of one key → `wins:<0|1>` (every schedule is a sequence
                   of critical sections, so at most the first reader in lock order succeeds)
In mode `both` a result is `<mem> <rds>`. The configuration is the regenerated `Nv.Gen.C05.cfg`.
-/
open Nv Nv.C05

inductive Mode | mem | rds | both
deriving DecidableEq

structure OSt where
  mode : Mode
  sys : Sys
  started : Bool
  foreign : List (Nat × Nat) := []

def parseKey (s : String) : Option Nat :=
  if s.startsWith "k" then (s.drop 1).toString.toNat? else none

def parseBool (s : String) : Option Bool :=
  if s == "1" then some true else if s == "0" then some false else none

def parseOptInt (s : String) : Option (Option Int) :=
  if s == "-" then some none else s.toInt?.map some

def showOut : Out → String
  | .ok => "ok" | .value v => s!"val:{v}" | .notFound => "notfound" | .exists_ => "exists" | .err => "err"

def render (m : Mode) (o : Out × Out) : String :=
  match m with
  | .mem => showOut o.1
  | .rds => showOut o.2
  | .both => showOut o.1 ++ " " ++ showOut o.2

def parseOp (ws : List String) : Option Op :=
  match ws with
  | ["set", k, v, ttl, mne, keep] =>
    match parseKey k, v.toNat?, parseOptInt ttl, parseBool mne, parseBool keep with
    | some k, some v, some ttl, some mne, some keep => some (.set k v ⟨ttl, mne, keep⟩)
    | _, _, _, _, _ => none
  | ["get", k, rm, upd] =>
    match parseKey k, parseBool rm, parseOptInt upd with
    | some k, some rm, some upd => some (.get k ⟨rm, upd⟩)
    | _, _, _ => none
  | ["del", k] => (parseKey k).map .remove
  | ["clear"] => some .clear
  | ["tick", n] => n.toNat?.map .tick
  | _ => none

def isValue : Out → Bool
  | .value _ => true
  | _ => false

def step (s : OSt) (line : String) : OSt × String :=
  match words line with
  | ["new", m, size, dttl, clock] =>
    let mode : Option Mode := if m == "mem" then some .mem else if m == "rds" then some .rds
      else if m == "both" then some .both else none
    match mode, size.toNat?, dttl.toInt?, clock.toNat? with
    | some mode, some size, some dttl, some clock => (⟨mode, Sys.new clock size dttl, true, []⟩, "ok")
    | _, _, _, _ => ({ s with started := false }, "bad-op")
  | "new" :: _ => ({ s with started := false }, "bad-op")
  | ["smoke"] => if !s.started then (s, "bad-op") else (s, "smoke-ok")
  | ["stress", b, size, seed, g, n, nk] =>
    if !s.started then (s, "bad-op") else
    match size.toNat?, seed.toNat?, g.toNat?, n.toNat?, nk.toNat? with
    | some size, some seed, some g, some n, some nk =>
      if (b == "mem" || b == "rds") && size ≤ 64 && seed ≤ 1099511627776 && 1 ≤ g && g ≤ 32 && 1 ≤ n && n ≤ 5000
          && 1 ≤ nk && nk ≤ 16 then (s, "stress-ok") else (s, "bad-op")
    | _, _, _, _, _ => (s, "bad-op")
  | ["fset", k, v] =>
    if !s.started || s.mode == .mem then (s, "bad-op") else
    match parseKey k, v.toNat? with
    | some k, some v => ({ s with foreign := (k, v) :: s.foreign.filter (fun e => e.1 != k) }, "ok")
    | _, _ => (s, "bad-op")
  | ["fget", k] =>
    if !s.started || s.mode == .mem then (s, "bad-op") else
    match parseKey k with
    | some k =>
      match s.foreign.find? (fun e => e.1 == k) with
      | some e => (s, s!"val:{e.2}")
      | none => (s, "notfound")
    | none => (s, "bad-op")
  | ["race", k, n] =>
    if !s.started then (s, "bad-op") else
    match parseKey k, n.toNat? with
    | some k, some n =>
      if n == 0 then (s, "bad-op") else
      -- n sequential remove-after-get reads (any interleaving of the callers is such a sequence)
      let ops := List.replicate n (Op.get k ⟨true, none⟩)
      let r := runOps (Sys.step Nv.Gen.C05.cfg) s.sys ops
      let wm := (r.2.filter (fun o => isValue o.1)).length
      let wr := (r.2.filter (fun o => isValue o.2)).length
      let out := match s.mode with
        | .mem => s!"wins:{wm}"
        | .rds => s!"wins:{wr}"
        | .both => s!"wins:{wm} wins:{wr}"
      ({ s with sys := r.1 }, out)
    | _, _ => (s, "bad-op")
  | "cset" :: rest | "cget" :: rest | "cdel" :: rest | "cclear" :: rest =>
    -- the same call with an already cancelled context
    if !s.started then (s, "bad-op") else
    let base := match words line with
      | w :: _ => (w.drop 1).toString
      | [] => ""
    match parseOp (base :: rest) with
    | some op =>
      let r := Sys.stepCancelled Nv.Gen.C05.cfg s.sys op
      ({ s with sys := r.1 }, render s.mode r.2)
    | none => (s, "bad-op")
  | ws =>
    if !s.started then (s, "bad-op") else
    match parseOp ws with
    | some op =>
      let r := Sys.step Nv.Gen.C05.cfg s.sys op
      ({ s with sys := r.1 }, render s.mode r.2)
    | none => (s, "bad-op")

def main : IO Unit := oracleMain step ⟨.mem, Sys.new 0 0 0, false, []⟩
