import Nv.OracleIO
import Nv.Model.C01
import Nv.Gen.C01
/-!
oracle_c01 — line protocol (one result line per input line; the first line of a script is `new …`):
  `new <single|wide|xhash> <rw ≥ 1 | d> <prime>` → `ok`         (re)initialises; `d` = the package default ratio
                                                                 (regenerated `Nv.Gen.C01.defaultRatio`); the routing of the
                                                                 sharded variants is not observable, all three share the model
  `acqR <t> <key>` / `acqW <t> <key>`         → `granted` | `parked`          fresh caller id `t`
  `acqRx <t> <key>` / `acqWx <t> <key>`       → `granted` | `ctx woke=[…]`    same with an already cancelled context
  `rel <t>`                                   → `ok woke=[…]`                 `t` must be inside; woke = callers admitted by it
  `cancel <t>`                                → `ctx woke=[…]` (was waiting) | `noop` (holding or finished)
  `relx <t> <u>`                              → `ok woke=[…] then=<nil|ctx|noop>`   release by `t`; `u`'s context ends
                                                 while that release is in its critical section: the release's
                                                 grant wins (`nil`), otherwise `u` leaves the queue (`ctx`)
  `inside <key>`                              → `r=<readers> w=<writers>`     callers inside the critical section
  `who`                                       → `in=[…] parked=[…]`           all callers, sorted by id
  `entries`                                   → number of entries the container keeps
  `state <key>`                               → `cur=<n> waiters=<n> present=<0|1>`   (T-observable, through a hook)
  `obj <t>`                                   → `cur=<n> waiters=<n> inmap=<0|1>`     (T) the `*Weighted` caller `t` holds,
                                                 whether or not the map still refers to it (`t` must be inside)
  `stress <variant> <rw> <prime> <goroutines ≤ 64> <keys ≤ 8> <ms ≤ 5000> <seed>` → `ok`   parallel run (child process)
Keys (all valid Go map keys with reflexive equality; the token is the key's identity): `i<int>`, `l<int64>`, `h<int32>`,
`b<uint8>`, `s<text>` (routable by remap); `t<int>:<text>` struct, `p<n>` pointer to object n, `f<int>` / `f-0` float64
(`f-0` is the same key as `f0`): on wide / xhash maps an Acquire* on these → `panic:unroutable` (remap.ToBytes, before
any lock; the caller id is used up, nothing is stored).  `poke <n>` → `ok` (pointee of `p<n>` changed, key unchanged).
`newmap <variant> <rw ≥ 1> <prime>` → `ok`   another container is created and used while this one is in use (no effect here).
`burst <variant> <rw> <prime> <n ≤ 20000>` → `live=<n> after=<0>`   n distinct keys held at once, then all released.
Ill-formed or not-enabled lines → `bad-op`.
The delete guard is the one regenerated from the source (`Nv.Gen.C01.cfg`).
-/
open Nv Nv.C01

structure OSt where
  started : Bool
  single : Bool                       -- the `single` variant (struct keys are routable only there)
  rw : Nat
  st : State
  keys : List String                  -- interned key tokens; position = model key
  calls : List (Tid × Key × Bool)     -- every caller id used since `new`: (id, key, write)

def OSt.empty : OSt := ⟨false, true, 1, Nv.C01.init, [], []⟩

def cfg : Cfg := Nv.Gen.C01.cfg

/-- canonical decimal natural of at most `maxLen` digits -/
def natCanon (s : String) (maxLen : Nat) : Option Nat :=
  if s.length == 0 || s.length > maxLen then none
  else if !s.toList.all Char.isDigit then none
  else match s.toNat? with
    | some n => if toString n == s then some n else none
    | none => none

/-- canonical decimal integer in [lo, hi] -/
def intCanon (body : String) (lo hi : Int) : Bool :=
  if body.length == 0 || body.length > 20 then false else
  match body.toInt? with
  | some v => toString v == body && decide (lo ≤ v) && decide (v ≤ hi)
  | none => false

/-- key tokens: `i` int, `l` int64, `h` int32, `b` uint8, `s` string (routable by remap); `t<int>:<text>` struct,
    `p<n>` pointer to object n, `f<int -1000..1000>` / `f-0` float64 (valid map keys remap cannot route) -/
def validKey (s : String) : Bool :=
  match s.toList with
  | 's' :: _ => true
  | 'i' :: rest => intCanon (String.ofList rest) (-9223372036854775808) 9223372036854775807
  | 'l' :: rest => intCanon (String.ofList rest) (-9223372036854775808) 9223372036854775807
  | 'h' :: rest => intCanon (String.ofList rest) (-2147483648) 2147483647
  | 'b' :: rest => intCanon (String.ofList rest) 0 255
  | 't' :: rest =>
    rest.contains ':' &&
      intCanon (String.ofList (rest.takeWhile (· != ':'))) (-9223372036854775808) 9223372036854775807
  | 'p' :: rest => (natCanon (String.ofList rest) 3).isSome
  | 'f' :: rest => String.ofList rest == "-0" || intCanon (String.ofList rest) (-1000) 1000
  | _ => false

/-- key kinds `remap.ToBytes` has an arm for -/
def routableTok (s : String) : Bool :=
  match s.toList with
  | 't' :: _ => false
  | 'p' :: _ => false
  | 'f' :: _ => false
  | _ => true

/-- identity of the key: `0.0 == -0.0` is one Go map key -/
def canonTok (s : String) : String := if s == "f-0" then "f0" else s

def findIdx (l : List String) (s : String) : Option Nat :=
  let rec go : List String → Nat → Option Nat
    | [], _ => none
    | x :: xs, i => if x == s then some i else go xs (i+1)
  go l 0

def intern (o : OSt) (tok : String) : OSt × Key :=
  match findIdx o.keys tok with
  | some i => (o, i)
  | none => ({ o with keys := o.keys ++ [tok] }, o.keys.length)

def insertSorted (x : Nat) : List Nat → List Nat
  | [] => [x]
  | y :: ys => if x ≤ y then x :: y :: ys else y :: insertSorted x ys

def sortNat (l : List Nat) : List Nat := l.foldr insertSorted []

def showTids (l : List Nat) : String := showList toString (sortNat l)

/-- callers of key `k` that waited in `s` and hold in `s'` -/
def woke (o : OSt) (k : Key) (s s' : State) : List Nat :=
  (o.calls.filter (fun c => c.2.1 == k && (s k).waits c.1 && (s' k).holds c.1)).map (·.1)

def callOf (o : OSt) (t : Tid) : Option (Tid × Key × Bool) := o.calls.find? (·.1 == t)

def doAcquire (o : OSt) (t : Tid) (tok : String) (wr : Bool) (precancelled : Bool) : OSt × String :=
  let (o, k) := intern o (canonTok tok)
  let o := { o with calls := o.calls ++ [(t, k, wr)] }
  -- sharded map, key kind remap cannot route: panic in `remap.ToBytes` before any lock (`MWR`: no step)
  if !o.single && !routableTok tok then (o, "panic:unroutable") else
  match step cfg o.rw o.st (.acquire t k wr) with
  | none => (o, "bad-op")
  | some s1 =>
    if (s1 k).holds t then ({ o with st := s1 }, "granted")
    else if !precancelled then ({ o with st := s1 }, "parked")
    else match step cfg o.rw s1 (.cancel t k) with
      | none => ({ o with st := s1 }, "ctx woke=[]")      -- doomed caller: never queued
      | some s2 => ({ o with st := s2 }, "ctx woke=" ++ showTids (woke o k s1 s2))

def stepLine (o : OSt) (line : String) : OSt × String :=
  match words line with
  | ["new", v, rw, prime] =>
    if v != "single" && v != "wide" && v != "xhash" then (o, "bad-op") else
    match (if rw == "d" then some Nv.Gen.C01.defaultRatio else natCanon rw 6), natCanon prime 4 with
    | some rw, some _ =>
      if rw == 0 then (o, "bad-op") else ({ OSt.empty with started := true, single := v == "single", rw := rw }, "ok")
    | _, _ => (o, "bad-op")
  | ["stress", v, rw, prime, g, nk, ms, seed] =>
    -- a genuinely parallel run on the implementation: the only correct outcome is `ok`; ends the current map
    let inR (x : Option Nat) (lo hi : Nat) : Bool := match x with | some n => decide (lo ≤ n) && decide (n ≤ hi) | none => false
    if (v == "single" || v == "wide" || v == "xhash") && inR (natCanon rw 6) 1 999999 && inR (natCanon prime 4) 0 9999 &&
        inR (natCanon g 2) 1 64 && inR (natCanon nk 1) 1 8 && inR (natCanon ms 4) 1 5000 && inR (natCanon seed 9) 0 999999999
    then (OSt.empty, "ok") else (o, "bad-op")
  | ["newmap", v, rw, prime] =>
    -- another container is created and used in the process: a different map — nothing changes here
    -- (`sem_wide_pure_routing`: routing is a pure function of the key, `HAct.other` is invisible)
    if !o.started || !(v == "single" || v == "wide" || v == "xhash") then (o, "bad-op") else
    match natCanon rw 6, natCanon prime 4 with
    | some rw, some _ => if rw == 0 then (o, "bad-op") else (o, "ok")
    | _, _ => (o, "bad-op")
  | ["poke", n] =>
    -- the pointee of pointer key `p<n>` changes; the key (a pointer) does not
    if !o.started || (natCanon n 3).isNone then (o, "bad-op") else (o, "ok")
  | ["burst", v, rw, prime, n] =>
    -- n distinct fresh keys held at once (every third as a writer), then all released; keys are independent
    -- (`sem_keys_independent`), so each is run on its own: `live` = entries while all are held, `after` = afterwards
    match natCanon rw 6, natCanon prime 4, natCanon n 5 with
    | some rw, some _, some n =>
      if !(v == "single" || v == "wide" || v == "xhash") || rw == 0 || n == 0 || n > 20000 then (o, "bad-op") else
      let one (i : Nat) : Bool × Bool :=
        let s1 := KS.step cfg rw KS.init (.acquire 0 i (i % 3 == 0))
        let s2 := KS.step cfg rw s1 (.release 0 i)
        (s1.present, s2.present)
      let rs := (List.range n).map one
      (OSt.empty, s!"live={(rs.filter (·.1)).length} after={(rs.filter (·.2)).length}")
    | _, _, _ => (o, "bad-op")
  | ["relx", t, u] =>
    if !o.started then (o, "bad-op") else
    match natCanon t 9, natCanon u 9 with
    | some t, some u =>
      match callOf o t, callOf o u with
      | some (_, k, _), some (_, ku, _) =>
        match step cfg o.rw o.st (.release t k) with
        | none => (o, "bad-op")
        | some s1 =>
          let w1 := woke o k o.st s1
          if (s1 ku).waits u then
            match step cfg o.rw s1 (.cancel u ku) with
            | none => (o, "bad-op")
            | some s2 => ({ o with st := s2 }, s!"ok woke={showTids (w1 ++ woke o ku s1 s2)} then=ctx")
          else
            let res := if (o.st ku).waits u && (s1 ku).holds u then "nil" else "noop"
            ({ o with st := s1 }, s!"ok woke={showTids w1} then={res}")
      | _, _ => (o, "bad-op")
    | _, _ => (o, "bad-op")
  | [op, t, tok] =>
    if !o.started then (o, "bad-op") else
    let kind : Option (Bool × Bool) :=
      if op == "acqR" then some (false, false) else if op == "acqW" then some (true, false)
      else if op == "acqRx" then some (false, true) else if op == "acqWx" then some (true, true) else none
    match kind, natCanon t 9 with
    | some (wr, pc), some t =>
      if !validKey tok || (callOf o t).isSome then (o, "bad-op") else doAcquire o t tok wr pc
    | _, _ => (o, "bad-op")
  | ["rel", t] =>
    if !o.started then (o, "bad-op") else
    match natCanon t 9 with
    | none => (o, "bad-op")
    | some t =>
      match callOf o t with
      | none => (o, "bad-op")
      | some (_, k, _) =>
        match step cfg o.rw o.st (.release t k) with
        | none => (o, "bad-op")
        | some s' => ({ o with st := s' }, "ok woke=" ++ showTids (woke o k o.st s'))
  | ["obj", t] =>
    if !o.started then (o, "bad-op") else
    match natCanon t 9 with
    | none => (o, "bad-op")
    | some t =>
      match callOf o t with
      | none => (o, "bad-op")
      | some (_, k, _) =>
        if !(o.st k).holds t then (o, "bad-op") else
        let inLive := match (o.st k).live with
          | some x => if holdsIn t x then some x else none
          | none => none
        match inLive with
        | some x => (o, s!"cur={x.cur} waiters={x.waiters.length} inmap=1")
        | none =>
          match (o.st k).orphans.find? (holdsIn t) with
          | some x => (o, s!"cur={x.cur} waiters={x.waiters.length} inmap=0")
          | none => (o, "bad-op")
  | ["cancel", t] =>
    if !o.started then (o, "bad-op") else
    match natCanon t 9 with
    | none => (o, "bad-op")
    | some t =>
      match callOf o t with
      | none => (o, "bad-op")
      | some (_, k, _) =>
        if (o.st k).waits t then
          match step cfg o.rw o.st (.cancel t k) with
          | none => (o, "bad-op")
          | some s' => ({ o with st := s' }, "ctx woke=" ++ showTids (woke o k o.st s'))
        else (o, "noop")
  | ["inside", tok] =>
    if !o.started || !validKey tok then (o, "bad-op") else
    match findIdx o.keys (canonTok tok) with
    | none => (o, "r=0 w=0")
    | some k =>
      let hs := o.calls.filter (fun c => c.2.1 == k && (o.st k).holds c.1)
      (o, s!"r={(hs.filter (fun c => !c.2.2)).length} w={(hs.filter (fun c => c.2.2)).length}")
  | ["who"] =>
    if !o.started then (o, "bad-op") else
    let ins := (o.calls.filter (fun c => (o.st c.2.1).holds c.1)).map (·.1)
    let pk := (o.calls.filter (fun c => (o.st c.2.1).waits c.1)).map (·.1)
    (o, s!"in={showTids ins} parked={showTids pk}")
  | ["entries"] =>
    if !o.started then (o, "bad-op") else
    (o, toString ((List.range o.keys.length).filter (fun k => (o.st k).present)).length)
  | ["state", tok] =>
    if !o.started || !validKey tok then (o, "bad-op") else
    match findIdx o.keys (canonTok tok) with
    | none => (o, "cur=0 waiters=0 present=0")
    | some k =>
      match (o.st k).live with
      | none => (o, "cur=0 waiters=0 present=0")
      | some x => (o, s!"cur={x.cur} waiters={x.waiters.length} present=1")
  | _ => (o, "bad-op")

def main : IO Unit := oracleMain stepLine OSt.empty
