import Nv.OracleIO
import Nv.Model.C08
import Nv.Gen.C08
/-!
oracle_c08 — line protocol (state: sparse threshold, one 64-bit word, two 1024-bit registers `a`,`b`):
  new                                   → ok          (re)initialise; threshold := regenerated default
  magic <m>                             → magic=<m>   set the sparse/dense threshold (T-observable: read back through the hook)
  w <hex>                               → ok          load the word
  set64 <i> | unset64 <i>               → <hex>       i : byte
  len64                                 → <len> <nlen> <full>
  alg64 <hex>                           → and=<hex> or=<hex> rev=<hex>
  iter64 <wt> <f|r> <slen> <pos> <add> <n>   → c=<c> s=[…] | panic      wt ∈ i8 i16 i32 u32 i64
  getn64 <wt> <f|r> <n>                 → nil | […] | panic             wt ∈ i8 i16 i32 i64
  load <r> <hex,…16>                    → ok
  seti32|unseti32|seti16|unseti16 <r> <i> → ok
  dump <r>                              → <hex,…16>
  marshal-mutate <r>                    → <hex,…16>   (bitmap after the bytes returned by Marshal were overwritten: unchanged)
  len <r>                               → <len> <nlen>
  and | or | orrev                      → <hex,…16>   (a op b)
  rev <r>                               → <hex,…16>
  eq                                    → true | false
  iter <r> <wt> <f|r> <slen> <pos> <add> <n> → c=<c> s=[…] | panic      wt ∈ i16 i32 u32 i64
  getn <r> <wt> <f|r> <n>               → nil | […] | panic             wt ∈ i16 i32 i64
The test slice is pre-filled with `fill k = 37·k + 11` so that untouched cells are visible.
-/
open Nv Nv.C08

namespace OC08

structure S where
  magic : Int
  word : Bit64
  a : Bit1024
  b : Bit1024

def init : S := ⟨Nv.Gen.C08.cfg.sparseMagic, 0, empty1024, empty1024⟩

def hexDigit (c : Char) : Option Nat :=
  if '0' ≤ c ∧ c ≤ '9' then some (c.toNat - '0'.toNat)
  else if 'a' ≤ c ∧ c ≤ 'f' then some (c.toNat - 'a'.toNat + 10)
  else none

def parseHex? (s : String) : Option Nat :=
  if s.isEmpty || s.length > 16 then none
  else s.toList.foldl (fun acc c => match acc, hexDigit c with
    | some a, some d => some (a * 16 + d)
    | _, _ => none) (some 0)

def hexOf (n : Nat) : String := String.ofList (Nat.toDigits 16 n)
def showWord (w : Bit64) : String := hexOf w.toNat
def showMap (b : Bit1024) : String := ",".intercalate (b.toList.map showWord)

def parseMap? (s : String) : Option Bit1024 :=
  match (s.splitOn ",").mapM parseHex? with
  | some l => if h : l.length = 16 then some ⟨(l.map (BitVec.ofNat 64)).toArray, by simp [h]⟩ else none
  | none => none

/-- element type token → (width, signed) -/
def widthOf (t : String) : Option (Nat × Bool) :=
  if t == "i8" then some (8, true) else if t == "i16" then some (16, true) else if t == "i32" then some (32, true)
  else if t == "u32" then some (32, false) else if t == "i64" then some (64, true) else none

def showVal {w : Nat} (signed : Bool) (v : BitVec w) : String :=
  if signed then toString v.toInt else toString v.toNat

def fill (w : Nat) (len : Nat) : List (BitVec w) := (List.range len).map (fun k => BitVec.ofNat w (37 * k + 11))

def showIter {w : Nat} (signed : Bool) : Option (List (BitVec w) × Nat) → String
  | none => "panic"
  | some (s, c) => s!"c={c} s={showList (showVal signed) s}"

def showGetN {w : Nat} (signed : Bool) : GetN (BitVec w) → String
  | .panic => "panic"
  | .nil => "nil"
  | .slice l => showList (showVal signed) l

def parseDir (s : String) : Option Bool :=
  if s == "f" then some false else if s == "r" then some true else none

def reg (st : S) (r : String) : Option Bit1024 :=
  if r == "a" then some st.a else if r == "b" then some st.b else none

def setReg (st : S) (r : String) (v : Bit1024) : S :=
  if r == "a" then { st with a := v } else { st with b := v }

def inI32 (i : Int) : Bool := -2147483648 ≤ i && i ≤ 2147483647
def inI64 (i : Int) : Bool := -9223372036854775808 ≤ i && i ≤ 9223372036854775807
def inPos (i : Int) : Bool := -4611686018427387904 ≤ i && i ≤ 4611686018427387904
def maxSlice : Nat := 100000
def inI16 (i : Int) : Bool := -32768 ≤ i && i ≤ 32767

def step (st : S) (line : String) : S × String :=
  let cfg := Nv.Gen.C08.cfg
  match words line with
  | ["new"] => (init, "ok")
  | ["probe-api"] => (st, "ok")   -- monitor-only: the Go side calls every exported method once and checks shared state
  | ["magic", m] => match parseInt? m with
    | some m => if inI32 m then ({ st with magic := m }, s!"magic={m}") else (st, "bad-op")
    | none => (st, "bad-op")
  | ["w", h] => match parseHex? h with
    | some n => ({ st with word := BitVec.ofNat 64 n }, "ok")
    | none => (st, "bad-op")
  | ["set64", i] => match parseNat? i with
    | some i => if i < 256 then let w := set64 st.word (BitVec.ofNat 8 i); ({ st with word := w }, showWord w) else (st, "bad-op")
    | none => (st, "bad-op")
  | ["unset64", i] => match parseNat? i with
    | some i => if i < 256 then let w := unset64 st.word (BitVec.ofNat 8 i); ({ st with word := w }, showWord w) else (st, "bad-op")
    | none => (st, "bad-op")
  | ["len64"] => (st, s!"{len64 st.word} {nlen64 st.word} {if full st.word then 1 else 0}")
  | ["alg64", h] => match parseHex? h with
    | some n =>
      let c := BitVec.ofNat 64 n
      (st, s!"and={showWord (and64 st.word c)} or={showWord (or64 st.word c)} rev={showWord (reverse64 st.word)}")
    | none => (st, "bad-op")
  | ["iter64", wt, d, slen, pos, add, n] =>
    match widthOf wt, parseDir d, parseNat? slen, parseInt? pos, parseInt? add, parseInt? n with
    | some (w, sg), some rev, some slen, some pos, some add, some n =>
      if slen > maxSlice || !inPos pos || !inI64 add || !inPos n then (st, "bad-op") else
      (st, showIter sg (iter64 (w := w) st.magic rev st.word (fill w slen) pos (BitVec.ofInt w add) n))
    | _, _, _, _, _, _ => (st, "bad-op")
  | ["getn64", wt, d, n] =>
    match widthOf wt, parseDir d, parseInt? n with
    | some (w, sg), some rev, some n =>
      if wt == "u32" || !inPos n || n > maxSlice then (st, "bad-op") else (st, showGetN sg (getN64 (w := w) st.magic rev st.word n))
    | _, _, _ => (st, "bad-op")
  | ["load", r, m] => match reg st r, parseMap? m with
    | some _, some v => (setReg st r v, "ok")
    | _, _ => (st, "bad-op")
  | [op, r, i] =>
    match reg st r, parseInt? i with
    | some b, some i =>
      if op == "seti32" && inI32 i then (setReg st r (setI32 b (BitVec.ofInt 32 i)), "ok")
      else if op == "unseti32" && inI32 i then (setReg st r (unsetI32 b (BitVec.ofInt 32 i)), "ok")
      else if op == "seti16" && inI16 i then (setReg st r (setI16 b (BitVec.ofInt 16 i)), "ok")
      else if op == "unseti16" && inI16 i then (setReg st r (unsetI16 b (BitVec.ofInt 16 i)), "ok")
      else (st, "bad-op")
    | _, _ => (st, "bad-op")
  | ["marshal-mutate", r] => match reg st r with
    -- the Go side overwrites the bytes `Marshal` returned; a detached result leaves the bitmap as it was
    | some b => (st, showMap b)
    | none => (st, "bad-op")
  | ["dump", r] => match reg st r with
    | some b => (st, showMap b)
    | none => (st, "bad-op")
  | ["len", r] => match reg st r with
    | some b => (st, s!"{len1024 b} {nlen1024 b}")
    | none => (st, "bad-op")
  | ["and"] => (st, showMap (and1024 st.a st.b))
  | ["or"] => (st, showMap (or1024 st.a st.b))
  | ["orrev"] => (st, showMap (orThenReverse1024 st.a st.b))
  | ["rev", r] => match reg st r with
    | some b => (st, showMap (reverse1024 b))
    | none => (st, "bad-op")
  | ["eq"] => (st, if equal1024 st.a st.b then "true" else "false")
  | ["iter", r, wt, d, slen, pos, add, n] =>
    match reg st r, widthOf wt, parseDir d, parseNat? slen, parseInt? pos, parseInt? add, parseInt? n with
    | some b, some (w, sg), some rev, some slen, some pos, some add, some n =>
      if wt == "i8" || slen > maxSlice || !inPos pos || !inI64 add || !inPos n then (st, "bad-op")
      else (st, showIter sg (iter1024 (w := w) cfg st.magic rev b (fill w slen) pos (BitVec.ofInt w add) n))
    | _, _, _, _, _, _, _ => (st, "bad-op")
  | ["getn", r, wt, d, n] =>
    match reg st r, widthOf wt, parseDir d, parseInt? n with
    | some b, some (w, sg), some rev, some n =>
      if wt == "i8" || wt == "u32" || !inPos n || n > maxSlice then (st, "bad-op")
      else (st, showGetN sg (getN1024 (w := w) cfg st.magic rev b n))
    | _, _, _, _ => (st, "bad-op")
  | _ => (st, "bad-op")

end OC08

def main : IO Unit := Nv.oracleMain OC08.step OC08.init
