import Nv.OracleIO
import Nv.Model.C09
import Nv.Gen.C09
/-!
oracle_c09 — line protocol (state: sparse threshold, bitmap registers `a`,`b`, a list of BigU32 blocks, a list of
U32BitTip blocks; block operands are list indices):
  new | magic <m> | load <r> <hex,…16> | dump <r>          as in oracle_c08
  marshal <r>                       → <hexbytes> | - (empty) | panic
  marshal-mutate <r>                → <hexbytes> <hex,…16>   (Marshal, then the returned bytes are overwritten: bitmap unchanged)
  unmarshal <r> <hexbytes|->        → ok | err:range:<n> | err:length:<n> | err:element:<v> | panic   (mutates r)
  roundtrip <r>                     → true | false | panic     (Unmarshal(Marshal r) into a fresh bitmap equals r)
  big.fromi64 <v>                   → ok | err                 (appends a block)
  big.fromdata <start> <hexbytes|-> → ok | err:…               (appends a block)
  big.set <k> <v>                   → ok | err:unsupported | err:start
  big.rev <k>  | bigs.rev           → ok
  big.show <k>                      → start=<s> bits=<hex,…16>
  big.getn <k> <f|r> <n>            → nil | […] | panic
  big.iter <k> <f|r> <slen> <pos> <n> → c=<c> s=[…] | panic
  bigs.getn <f|r> <n>               → nil | […] | panic
  tip.fromu32 <u> | tip.fromdata <start> <hex> | tip.set <k> <u> | tip.rev <k> | tips.rev | tip.show <k>
  tip.getn <k> <f|r> <n> | tip.iter <k> <f|r> <slen> <pos> <n> | tips.getn <f|r> <n>
  stress <unm|many> <n>             → ok   (monitor-only: n-byte payload must be rejected; n single-member blocks)
  stress <big|tip> <blocks> <n>     → ok   (monitor-only: Go checks list forms over many full blocks; not modelled here)
The configuration is the one regenerated from the source (`Nv.Gen.C09.cfg`). When a behaviour-selecting fact of it is
`.unknown` the affected operations (`big.getn`, `big.iter`, `bigs.getn`; `tip.getn`) answer `unknown-cfg`: the oracle never
defaults to a behaviour it was not told.
-/
open Nv Nv.C08 Nv.C09

namespace OC09

structure S where
  magic : Int
  a : Bit1024
  b : Bit1024
  bigs : List Block
  tips : List Block

def cfg : Nv.C09.Cfg := Nv.Gen.C09.cfg
def init : S := ⟨cfg.base.sparseMagic, empty1024, empty1024, [], []⟩

def hexDigit (c : Char) : Option Nat :=
  if '0' ≤ c ∧ c ≤ '9' then some (c.toNat - '0'.toNat)
  else if 'a' ≤ c ∧ c ≤ 'f' then some (c.toNat - 'a'.toNat + 10)
  else none

def parseHex? (s : String) : Option Nat :=
  if s.isEmpty || s.length > 16 then none
  else s.toList.foldl (fun acc c => match acc, hexDigit c with
    | some a, some d => some (a * 16 + d)
    | _, _ => none) (some 0)

def hexOf (n : Nat) : String := String.ofList (Nat.toDigits 16 n)
def showMap (b : Bit1024) : String := ",".intercalate (b.toList.map (fun w => hexOf w.toNat))

def parseMap? (s : String) : Option Bit1024 :=
  match (s.splitOn ",").mapM parseHex? with
  | some l => if h : l.length = 16 then some ⟨(l.map (BitVec.ofNat 64)).toArray, by simp [h]⟩ else none
  | none => none

def parseBytesAux : List Char → Option (List Byte)
  | [] => some []
  | [_] => none
  | hi :: lo :: rest =>
    match hexDigit hi, hexDigit lo, parseBytesAux rest with
    | some h, some l, some r => some (BitVec.ofNat 8 (h * 16 + l) :: r)
    | _, _, _ => none

def parseBytes? (s : String) : Option (List Byte) :=
  if s == "-" then some [] else if s.isEmpty then none else parseBytesAux s.toList

def hex2 (b : Byte) : String :=
  let d := Nat.toDigits 16 b.toNat
  String.ofList (if d.length < 2 then '0' :: d else d)

def showBytes (l : List Byte) : String := if l.isEmpty then "-" else String.join (l.map hex2)

def showVal {w : Nat} (signed : Bool) (v : BitVec w) : String :=
  if signed then toString v.toInt else toString v.toNat

def fill (w : Nat) (len : Nat) : List (BitVec w) := (List.range len).map (fun k => BitVec.ofNat w (37 * k + 11))

def showIter {w : Nat} (signed : Bool) : Option (List (BitVec w) × Nat) → String
  | none => "panic"
  | some (s, c) => s!"c={c} s={showList (showVal signed) s}"

def showGetN {w : Nat} (signed : Bool) : GetN (BitVec w) → String
  | .panic => "panic"
  | .nil => "nil"
  | .slice l => showList (showVal signed) l

def parseDir (s : String) : Option Bool :=
  if s == "f" then some false else if s == "r" then some true else none

def reg (st : S) (r : String) : Option Bit1024 :=
  if r == "a" then some st.a else if r == "b" then some st.b else none

def setReg (st : S) (r : String) (v : Bit1024) : S :=
  if r == "a" then { st with a := v } else { st with b := v }

def inI32 (i : Int) : Bool := -2147483648 ≤ i && i ≤ 2147483647
def inI64 (i : Int) : Bool := -9223372036854775808 ≤ i && i ≤ 9223372036854775807
def inU32 (i : Int) : Bool := 0 ≤ i && i ≤ 4294967295
def inPos (i : Int) : Bool := -4611686018427387904 ≤ i && i ≤ 4611686018427387904
def maxSlice : Nat := 100000

def showUErr : UErr → String
  | .range n => s!"err:range:{n}"
  | .length n => s!"err:length:{n}"
  | .element v => s!"err:element:{v}"

def showSet : SetRes → String
  | .ok => "ok" | .unsupported => "err:unsupported" | .invalidStart => "err:start"

def showBlock (b : Block) : String := s!"start={b.start.toNat} bits={showMap b.bits}"

def setAt (l : List Block) (k : Nat) (b : Block) : List Block := l.set k b

def step (st : S) (line : String) : S × String :=
  match words line with
  | ["new"] => (init, "ok")
  | ["probe-api"] => (st, "ok")   -- monitor-only: the Go side calls every exported method once and checks shared state
  | ["magic", m] => match parseInt? m with
    | some m => if inI32 m then ({ st with magic := m }, s!"magic={m}") else (st, "bad-op")
    | none => (st, "bad-op")
  | ["load", r, m] => match reg st r, parseMap? m with
    | some _, some v => (setReg st r v, "ok")
    | _, _ => (st, "bad-op")
  | ["dump", r] => match reg st r with
    | some b => (st, showMap b)
    | none => (st, "bad-op")
  | ["marshal-mutate", r] => match reg st r with
    -- the Go side overwrites the bytes `Marshal` returned; a detached result leaves the bitmap as it was
    | some b => (st, match marshal cfg st.magic b with | some bs => showBytes bs ++ " " ++ showMap b | none => "panic")
    | none => (st, "bad-op")
  | ["marshal", r] => match reg st r with
    | some b => (st, match marshal cfg st.magic b with | some bs => showBytes bs | none => "panic")
    | none => (st, "bad-op")
  | ["unmarshal", r, h] => match reg st r, parseBytes? h with
    | some b, some bs =>
      if bs.length > 400 then (st, "bad-op") else
      match unmarshal b bs with
      | .ok b' => (setReg st r b', "ok")
      | .err e b' => (setReg st r b', showUErr e)
      | .panic => (st, "panic")
    | _, _ => (st, "bad-op")
  | ["roundtrip", r] => match reg st r with
    | some b => (st, match marshal cfg st.magic b with
      | none => "panic"
      | some bs => match unmarshal empty1024 bs with
        | .ok b' => if equal1024 b' b then "true" else "false"
        | .err _ _ => "false"
        | .panic => "panic")
    | none => (st, "bad-op")
  | ["big.fromi64", v] => match parseInt? v with
    | some v => if !inI64 v then (st, "bad-op") else
      match newBigFromI64 (BitVec.ofInt 64 v) with
      | some b => ({ st with bigs := st.bigs ++ [b] }, "ok")
      | none => (st, "err")
    | none => (st, "bad-op")
  | ["stress", kind, n] =>
    match parseNat? n with
    | some n => if (kind == "unm" || kind == "many") && n ≤ 200000 then (st, "ok") else (st, "bad-op")
    | none => (st, "bad-op")
  | [op, s, h] =>
    if op == "big.fromdata" || op == "tip.fromdata" then
      match parseInt? s, parseBytes? h with
      | some s, some bs =>
        if !inU32 s || bs.length > 400 then (st, "bad-op") else
        match fromData (op == "tip.fromdata") (BitVec.ofInt 32 s) bs with
        | .ok b => (if op == "big.fromdata" then { st with bigs := st.bigs ++ [b] } else { st with tips := st.tips ++ [b] }, "ok")
        | .badStart => (st, "err:start")
        | .err e => (st, showUErr e)
        | .panic => (st, "panic")
      | _, _ => (st, "bad-op")
    else if op == "big.set" then
      match parseNat? s, parseInt? h with
      | some k, some v => match st.bigs[k]? with
        | some b => if !inI64 v then (st, "bad-op") else
          let r := bigSetI64 b (BitVec.ofInt 64 v)
          ({ st with bigs := setAt st.bigs k r.1 }, showSet r.2)
        | none => (st, "bad-op")
      | _, _ => (st, "bad-op")
    else if op == "tip.set" then
      match parseNat? s, parseInt? h with
      | some k, some v => match st.tips[k]? with
        | some b => if !inU32 v then (st, "bad-op") else
          let r := tipSetU32 b (BitVec.ofInt 32 v)
          ({ st with tips := setAt st.tips k r.1 }, showSet r.2)
        | none => (st, "bad-op")
      | _, _ => (st, "bad-op")
    else if op == "bigs.getn" || op == "tips.getn" then
      match parseDir s, parseInt? h with
      | some rev, some n =>
        if !inPos n || n > maxSlice then (st, "bad-op")
        else if op == "bigs.getn" then
          (st, if cfg.offsetsKnown then showGetN true (bigsGetN cfg st.magic rev st.bigs n) else "unknown-cfg")
        else (st, showGetN false (tipsGetN cfg st.magic rev st.tips n))
      | _, _ => (st, "bad-op")
    else (st, "bad-op")
  | ["stress", kind, nb, n] =>
    -- monitor-only operation: the Go side builds `nb` full blocks and checks the list forms against the set-level
    -- expectation itself; the model is not evaluated here (its list writes are quadratic in the 10^5 values involved)
    match parseNat? nb, parseInt? n with
    | some nb, some n =>
      if (kind == "big" || kind == "tip") && 1 ≤ nb && nb ≤ 100 && -200000 ≤ n && n ≤ 200000 then (st, "ok") else (st, "bad-op")
    | _, _ => (st, "bad-op")
  | ["tip.fromu32", u] => match parseInt? u with
    | some u => if !inU32 u then (st, "bad-op") else ({ st with tips := st.tips ++ [newTipFromU32 (BitVec.ofInt 32 u)] }, "ok")
    | none => (st, "bad-op")
  | ["bigs.rev"] => ({ st with bigs := st.bigs.map Block.reverse }, "ok")
  | ["tips.rev"] => ({ st with tips := st.tips.map Block.reverse }, "ok")
  | [op, k] => match parseNat? k with
    | some k =>
      if op == "big.rev" then match st.bigs[k]? with
        | some b => ({ st with bigs := setAt st.bigs k b.reverse }, "ok")
        | none => (st, "bad-op")
      else if op == "tip.rev" then match st.tips[k]? with
        | some b => ({ st with tips := setAt st.tips k b.reverse }, "ok")
        | none => (st, "bad-op")
      else if op == "big.show" then match st.bigs[k]? with
        | some b => (st, showBlock b)
        | none => (st, "bad-op")
      else if op == "tip.show" then match st.tips[k]? with
        | some b => (st, showBlock b)
        | none => (st, "bad-op")
      else (st, "bad-op")
    | none => (st, "bad-op")
  | [op, k, d, n] => match parseNat? k, parseDir d, parseInt? n with
    | some k, some rev, some n =>
      if !inPos n || n > maxSlice then (st, "bad-op")
      else if op == "big.getn" then match st.bigs[k]? with
        | some b => (st, if cfg.offsetsKnown then showGetN true (bigGetN cfg st.magic rev b n) else "unknown-cfg")
        | none => (st, "bad-op")
      else if op == "tip.getn" then match st.tips[k]? with
        | some b => (st, if cfg.dispatchKnown then showGetN false (tipGetN cfg st.magic rev b n) else "unknown-cfg")
        | none => (st, "bad-op")
      else (st, "bad-op")
    | _, _, _ => (st, "bad-op")
  | [op, k, d, slen, pos, n] => match parseNat? k, parseDir d, parseNat? slen, parseInt? pos, parseInt? n with
    | some k, some rev, some slen, some pos, some n =>
      if slen > maxSlice || !inPos pos || !inPos n then (st, "bad-op")
      else if op == "big.iter" then match st.bigs[k]? with
        | some b => (st, if cfg.offsetsKnown then showIter true (bigIter cfg st.magic rev b (fill 64 slen) pos n) else "unknown-cfg")
        | none => (st, "bad-op")
      else if op == "tip.iter" then match st.tips[k]? with
        | some b => (st, showIter false (tipIter cfg st.magic rev b (fill 32 slen) pos n))
        | none => (st, "bad-op")
      else (st, "bad-op")
    | _, _, _, _, _ => (st, "bad-op")
  | _ => (st, "bad-op")

end OC09

def main : IO Unit := Nv.oracleMain OC09.step OC09.init
