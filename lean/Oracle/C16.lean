import Nv.OracleIO
import Nv.Model.C16
import Nv.Gen.C16
/-!
oracle_c16 — line protocol (one world per script; the first line (re)initialises it):
  `init <max> <mode>`                 → `ok`      modes: pipe | rt | wt | tcp | pub | publ | pubx | echo | plog | wlog (pipe with a user-made default logger / WithLogger)
  `conn`                              → `r=acc<k>` | `r=rej` | `r=lost` (accept loop has stopped), then the world
  `burst <n>` (1..8 attempts back to back) → `r=acc<a>,rej<r>[,lost<l>]`, then the world
  `send <k> <hex|->`                  → `r=ok` | `r=closed`, then the world
  `sendn <k> <n>` (n one-byte Sends, 1..400) → `r=ok<accepted>`, then the world
  `close|pclose|drain|hold|pdata|rerr|rto|herr|rdl|hpanic|hpanicnil|werr|wto|wdl|start|cerr|uh|xpanic|xblock <k>` → `r=ok`, then the world
  `wpart|wtemp <k> <n>` (partial write of n bytes, then timeout | temporary error) → `r=ok`, then the world
  `setv <k> str|kz|nilkz` (Session.Set) → `r=ok`; `soak <n>` (n surplus connections in a row, server full) → `r=rej<n>`, then the world
  `aerr` (temporary Accept error) | `afail` (permanent Accept error) → `r=run` | `r=stop`, then the world
  `stress <kind> <seed>`              → `r=done`, then the world (the scenario is judged by the monitors only)
World: ` n=<ConnCount> rej=<closed on accept> / <k>:x<OnExit calls>,c<conn.Close calls>,l<live loops>,d=<hex read by peer>,rd=<handler reads>`
After every line all sessions run to quiescence. Mode `rt`/`pubx`: every read deadline expires before the next
observation; mode `wt`: every blocked write times out before the next observation; `pubx` prints `n=?` (the manager is
created inside NewTCPSrvX); `echo`: Echo sessions (one goroutine; `l` counts it; `pdata` is echoed back).
The accept loop runs with acceptMaxRetry = 3. The configuration is the one regenerated from the source (`Nv.Gen.C16.cfg`).
-/
open Nv Nv.C16

inductive Mode | pipe | rt | wt | tcp | pub | publ | pubx | echo | plog | wlog
deriving DecidableEq

structure OState where
  live : Bool := false
  mode : Mode := .pipe
  w : World := { max := 0 }
  accepting : Bool := true   -- the accept loop is running
  aerrs : Nat := 0           -- consecutive temporary Accept errors

def cfg : Cfg := Nv.Gen.C16.cfg

def hexVal (c : Char) : Option Nat :=
  if '0' ≤ c ∧ c ≤ '9' then some (c.toNat - '0'.toNat)
  else if 'a' ≤ c ∧ c ≤ 'f' then some (c.toNat - 'a'.toNat + 10)
  else none

def parseHexL : List Char → Option (List Nat)
  | [] => some []
  | a :: b :: rest => do
    let x ← hexVal a
    let y ← hexVal b
    let r ← parseHexL rest
    pure ((x * 16 + y) :: r)
  | _ => none

def parseHex (s : String) : Option (List Nat) := if s == "-" then some [] else parseHexL s.toList

def hexDigit (n : Nat) : Char := if n < 10 then Char.ofNat ('0'.toNat + n) else Char.ofNat ('a'.toNat + n - 10)

def showHex (l : List Nat) : String :=
  if l.isEmpty then "-" else String.ofList (l.flatMap fun b => [hexDigit (b / 16 % 16), hexDigit (b % 16)])

def loops (s : Sess) : Nat := (if s.sendPc = .done then 0 else 1) + (if s.recvPc = .done then 0 else 1)

def showSess (m : Mode) (k : Nat) (s : Sess) : String :=
  let l := if m = .echo then (if s.recvPc = .done then 0 else 1) else loops s
  s!"{k}:x{s.exits},c{s.closes},l{l},d={showHex s.delivered},rd={s.reads}" ++ (if s.crashed then ",crash" else "")

def showSessions (m : Mode) : Nat → List Sess → List String
  | _, [] => []
  | k, s :: rest => showSess m k s :: showSessions m (k + 1) rest

def showWorld (m : Mode) (w : World) : String :=
  (if m = .pubx then " n=?" else s!" n={w.count}") ++ s!" rej={w.rejected}" ++
    String.join ((showSessions m 0 w.sess).map (" / " ++ ·))

/-- what real time does between two observations in the timeout modes -/
def timePasses (m : Mode) (s : Sess) : Sess :=
  match m with
  | .rt | .pubx => event cfg s .readFail
  | .wt => match s.sendPc with
    | .writing _ => event cfg s .writeFail
    | _ => s
  | _ => s

def finishLine (st : OState) (w : World) (r : String) : OState × String :=
  let w' := { w with sess := w.sess.map (fun s => timePasses st.mode (settle cfg s)) }
  -- the other extreme schedule (receive loop first): if it ends elsewhere the line is a set of outcomes
  let w2 := { w with sess := w.sess.map (fun s => timePasses st.mode (settleR cfg s)) }
  let a := s!"r={r}" ++ showWorld st.mode w'
  let b := s!"r={r}" ++ showWorld st.mode w2
  -- a panic that escapes a goroutine kills the process: nothing can be observed from then on
  if w'.sess.any (·.crashed) then ({ st with w := w' }, "crash:process-died") else
  ({ st with w := w' }, if a == b then a else "{" ++ a ++ "|" ++ b ++ "}")

def onSess (st : OState) (k : String) (f : Sess → Sess × String) : OState × String :=
  match k.toNat? with
  | none => (st, "bad-op")
  | some k =>
    match st.w.sess[k]? with
    | none => (st, "bad-op")
    | some s =>
      let (s', r) := f s
      finishLine st { st.w with sess := st.w.sess.set k s' } r

def envs (es : List Env) (s : Sess) : Sess × String := (es.foldl (event cfg) s, "ok")

def step (st : OState) (line : String) : OState × String :=
  match words line with
  | ["init", m, mode] =>
    match m.toInt?, (if mode == "pipe" then some Mode.pipe else if mode == "rt" then some Mode.rt
        else if mode == "wt" then some Mode.wt else if mode == "tcp" then some Mode.tcp
        else if mode == "pub" then some Mode.pub else if mode == "publ" then some Mode.publ
        else if mode == "pubx" then some Mode.pubx else if mode == "echo" then some Mode.echo
        else if mode == "plog" then some Mode.plog else if mode == "wlog" then some Mode.wlog else none) with
    | some m, some mode => ({ live := true, mode := mode, w := { max := m } }, "ok")
    | _, _ => (st, "bad-op")
  | op :: args =>
    if !st.live then (st, "bad-op") else
    match op, args with
    | "conn", [] =>
      if !st.accepting then finishLine st st.w "lost" else
      match wstep cfg st.w .connect with
      | some w' =>
        let r := if w'.sess.length > st.w.sess.length then s!"acc{st.w.sess.length}" else "rej"
        finishLine { st with aerrs := 0 } w' r
      | none => (st, "bad-op")
    | "burst", [n] =>
      -- n connection attempts reach the accept loop back to back (it handles them one after the other)
      match n.toNat? with
      | none => (st, "bad-op")
      | some n =>
        if n = 0 ∨ n > 8 then (st, "bad-op") else
        if !st.accepting then finishLine st st.w s!"acc0,rej0,lost{n}" else
        let w' := (List.range n).foldl (fun w _ => (wstep cfg w .connect).getD w) st.w
        finishLine { st with aerrs := 0 } w' s!"acc{w'.sess.length - st.w.sess.length},rej{w'.rejected - st.w.rejected}"
    | "aerr", [] =>
      if st.mode ≠ .pipe ∧ st.mode ≠ .echo ∧ st.mode ≠ .plog ∧ st.mode ≠ .wlog then (st, "bad-op") else
      if !st.accepting then finishLine st st.w "stop" else
      if st.aerrs + 1 ≥ 3 then finishLine { st with accepting := false } st.w "stop"
      else finishLine { st with aerrs := st.aerrs + 1 } st.w "run"
    | "afail", [] =>
      if st.mode ≠ .pipe ∧ st.mode ≠ .echo ∧ st.mode ≠ .plog ∧ st.mode ≠ .wlog then (st, "bad-op") else
      finishLine { st with accepting := false } st.w "stop"
    | "soak", [n] =>
      -- n surplus connections in a row on a full server: all closed on accept
      match n.toNat? with
      | none => (st, "bad-op")
      | some n =>
        if n = 0 ∨ n > 200000 ∨ st.mode = .tcp ∨ st.mode = .pub ∨ st.mode = .publ ∨ st.mode = .pubx then (st, "bad-op") else
        if st.w.max ≥ 0 ∧ st.w.count < st.w.max then (st, "bad-op") else
        if !st.accepting then finishLine st st.w "lost" else
        finishLine { st with aerrs := 0 } { st.w with rejected := st.w.rejected + n } s!"rej{n}"
    | "stress", [_, seed] =>
      match seed.toNat? with
      | some _ => finishLine st st.w "done"
      | none => (st, "bad-op")
    | "send", [k, h] =>
      match parseHex h with
      | none => (st, "bad-op")
      | some bs => onSess st k fun s => (event cfg s (.send bs), if sendAccepted s then "ok" else "closed")
    | "sendn", [k, n] =>
      -- n one-byte Sends in a row (payload i: the byte i mod 250 + 1); result: how many were accepted
      match n.toNat? with
      | none => (st, "bad-op")
      | some n =>
        if n = 0 ∨ n > 400 ∨ st.mode = .echo then (st, "bad-op") else
        onSess st k fun s =>
          let r := (List.range n).foldl (fun (acc : Sess × Nat) i =>
            (event cfg acc.1 (.send [i % 250 + 1]), if sendAccepted acc.1 then acc.2 + 1 else acc.2)) (s, 0)
          (r.1, s!"ok{r.2}")
    | "close", [k] => onSess st k (envs [.close])
    | "pclose", [k] => onSess st k (envs [.peerClose])
    | "drain", [k] => onSess st k (envs [.peerDrain])
    | "hold", [k] => onSess st k (envs [.peerHold])
    | "pdata", [k] =>
      if st.mode = .echo then
        onSess st k fun s =>
          if s.recvPc = .reading ∧ s.peerClosed = false ∧ s.closes = 0 then envs [.peerData, .send [0x64]] s else (s, "ok")
      else onSess st k (envs [.peerData])
    | "rerr", [k] => onSess st k (envs [.readFail])
    | "rto", [k] => onSess st k (envs [.readFail])
    | "herr", [k] => onSess st k (envs [.readFail])
    | "rdl", [k] => onSess st k (envs [.peerData, .readFail])
    | "hpanic", [k] => onSess st k (envs [.handlerPanic])
    | "hpanicnil", [k] => onSess st k (envs [.handlerPanic])
    | "werr", [k] => onSess st k (envs [.writeFail])
    | "wto", [k] => onSess st k (envs [.writeFail])
    | "wdl", [k] => onSess st k (envs [.writeFail])
    | "wpart", [k, n] | "wtemp", [k, n] =>
      -- the next / current Write hands n bytes (fewer than the item) to a reading peer, then fails with a timeout
      -- (`wpart`) or another temporary error (`wtemp`)
      match n.toNat? with
      | some n => onSess st k (envs [.writeFailAfter n])
      | none => (st, "bad-op")
    | "start", [k] => onSess st k (envs [])
    | "cerr", [k] => onSess st k (envs [])   -- conn.Close() will report an error: logged only
    | "setv", [k, v] =>   -- Session.Set(value): no influence on the session's life
      if st.mode = .echo ∨ (v ≠ "str" ∧ v ≠ "kz" ∧ v ≠ "nilkz") then (st, "bad-op") else onSess st k (envs [])
    | "uh", [k] => onSess st k (envs [])     -- UpdateHandler(another handler with the same behaviour)
    | "xpanic", [k] => onSess st k fun s => ({ s with onExit := .panics }, "ok")   -- the handler's OnExit will panic
    | "xblock", [k] => onSess st k fun s => ({ s with onExit := .blocks }, "ok")   -- … will never return
    | _, _ => (st, "bad-op")
  | _ => (st, "bad-op")

def main : IO Unit := oracleMain step {}
