import Nv.OracleIO
import Nv.Model.C16
import Nv.Gen.C16
/-!
oracle_c16 — line protocol (one world per script; the first line (re)initialises it):
  `init <max> <pipe|rt|wt|tcp>`      → `ok`
  `conn`                              → `r=acc<k>` | `r=rej`, then the world
  `burst <n>` (1..8 attempts back to back) → `r=acc<a>,rej<r>`, then the world
  `send <k> <hex|->`                  → `r=ok` | `r=closed`, then the world
  `close|pclose|drain|hold|pdata|rerr|rto|herr|rdl|hpanic|hpanicnil|werr|wto|wdl|start|cerr <k>` → `r=ok`, then the world
World: ` n=<ConnCount> rej=<closed on accept> / <k>:x<OnExit calls>,c<conn.Close calls>,l<live loops>,d=<hex read by peer>,rd=<handler reads>`
After every line all sessions run to quiescence. Mode `rt`: every read deadline expires before the next
observation; mode `wt`: every blocked write times out before the next observation.
The configuration is the one regenerated from the source (`Nv.Gen.C16.cfg`).
-/
open Nv Nv.C16

inductive Mode | pipe | rt | wt | tcp
deriving DecidableEq

structure OState where
  live : Bool := false
  mode : Mode := .pipe
  w : World := { max := 0 }

def cfg : Cfg := Nv.Gen.C16.cfg

def hexVal (c : Char) : Option Nat :=
  if '0' ≤ c ∧ c ≤ '9' then some (c.toNat - '0'.toNat)
  else if 'a' ≤ c ∧ c ≤ 'f' then some (c.toNat - 'a'.toNat + 10)
  else none

def parseHexL : List Char → Option (List Nat)
  | [] => some []
  | a :: b :: rest => do
    let x ← hexVal a
    let y ← hexVal b
    let r ← parseHexL rest
    pure ((x * 16 + y) :: r)
  | _ => none

def parseHex (s : String) : Option (List Nat) := if s == "-" then some [] else parseHexL s.toList

def hexDigit (n : Nat) : Char := if n < 10 then Char.ofNat ('0'.toNat + n) else Char.ofNat ('a'.toNat + n - 10)

def showHex (l : List Nat) : String :=
  if l.isEmpty then "-" else String.ofList (l.flatMap fun b => [hexDigit (b / 16 % 16), hexDigit (b % 16)])

def loops (s : Sess) : Nat := (if s.sendPc = .done then 0 else 1) + (if s.recvPc = .done then 0 else 1)

def showSess (k : Nat) (s : Sess) : String :=
  s!"{k}:x{s.exits},c{s.closes},l{loops s},d={showHex s.delivered},rd={s.reads}" ++ (if s.crashed then ",crash" else "")

def showSessions : Nat → List Sess → List String
  | _, [] => []
  | k, s :: rest => showSess k s :: showSessions (k + 1) rest

def showWorld (w : World) : String :=
  s!" n={w.count} rej={w.rejected}" ++ String.join ((showSessions 0 w.sess).map (" / " ++ ·))

/-- what real time does between two observations in the timeout modes -/
def timePasses (m : Mode) (s : Sess) : Sess :=
  match m with
  | .rt => event cfg s .readFail
  | .wt => match s.sendPc with
    | .writing _ => event cfg s .writeFail
    | _ => s
  | _ => s

def finishLine (st : OState) (w : World) (r : String) : OState × String :=
  let w' := { w with sess := w.sess.map (fun s => timePasses st.mode (settle cfg s)) }
  -- the other extreme schedule (receive loop first): if it ends elsewhere the line is a set of outcomes
  let w2 := { w with sess := w.sess.map (fun s => timePasses st.mode (settleR cfg s)) }
  let a := s!"r={r}" ++ showWorld w'
  let b := s!"r={r}" ++ showWorld w2
  ({ st with w := w' }, if a == b then a else "{" ++ a ++ "|" ++ b ++ "}")

def onSess (st : OState) (k : String) (f : Sess → Sess × String) : OState × String :=
  match k.toNat? with
  | none => (st, "bad-op")
  | some k =>
    match st.w.sess[k]? with
    | none => (st, "bad-op")
    | some s =>
      let (s', r) := f s
      finishLine st { st.w with sess := st.w.sess.set k s' } r

def envs (es : List Env) (s : Sess) : Sess × String := (es.foldl (event cfg) s, "ok")

def step (st : OState) (line : String) : OState × String :=
  match words line with
  | ["init", m, mode] =>
    match m.toInt?, (if mode == "pipe" then some Mode.pipe else if mode == "rt" then some Mode.rt
        else if mode == "wt" then some Mode.wt else if mode == "tcp" then some Mode.tcp else none) with
    | some m, some mode => ({ live := true, mode := mode, w := { max := m } }, "ok")
    | _, _ => (st, "bad-op")
  | op :: args =>
    if !st.live then (st, "bad-op") else
    match op, args with
    | "conn", [] =>
      match wstep cfg st.w .connect with
      | some w' =>
        let r := if w'.sess.length > st.w.sess.length then s!"acc{st.w.sess.length}" else "rej"
        finishLine st w' r
      | none => (st, "bad-op")
    | "burst", [n] =>
      -- n connection attempts reach the accept loop back to back (it handles them one after the other)
      match n.toNat? with
      | none => (st, "bad-op")
      | some n =>
        if n = 0 ∨ n > 8 then (st, "bad-op") else
        let w' := (List.range n).foldl (fun w _ => (wstep cfg w .connect).getD w) st.w
        finishLine st w' s!"acc{w'.sess.length - st.w.sess.length},rej{w'.rejected - st.w.rejected}"
    | "send", [k, h] =>
      match parseHex h with
      | none => (st, "bad-op")
      | some bs => onSess st k fun s => (event cfg s (.send bs), if sendAccepted s then "ok" else "closed")
    | "close", [k] => onSess st k (envs [.close])
    | "pclose", [k] => onSess st k (envs [.peerClose])
    | "drain", [k] => onSess st k (envs [.peerDrain])
    | "hold", [k] => onSess st k (envs [.peerHold])
    | "pdata", [k] => onSess st k (envs [.peerData])
    | "rerr", [k] => onSess st k (envs [.readFail])
    | "rto", [k] => onSess st k (envs [.readFail])
    | "herr", [k] => onSess st k (envs [.readFail])
    | "rdl", [k] => onSess st k (envs [.peerData, .readFail])
    | "hpanic", [k] => onSess st k (envs [.handlerPanic])
    | "hpanicnil", [k] => onSess st k (envs [.handlerPanic])
    | "werr", [k] => onSess st k (envs [.writeFail])
    | "wto", [k] => onSess st k (envs [.writeFail])
    | "wdl", [k] => onSess st k (envs [.writeFail])
    | "start", [k] => onSess st k (envs [])
    | "cerr", [k] => onSess st k (envs [])   -- conn.Close() will report an error: logged only
    | _, _ => (st, "bad-op")
  | _ => (st, "bad-op")

def main : IO Unit := oracleMain step {}
