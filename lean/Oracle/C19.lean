import Nv.OracleIO
import Nv.Model.C19
import Nv.Gen.C19
/-!
oracle_c19 — line protocol (the configuration is the one regenerated from the source, `Nv.Gen.C19.cfg`):
  `new cap=<n> mock=<0|1> len=<int> maxc=<int> maxv=<int> ttl=<ms> mini=<ms> win=<ms> smsfail=<0|1>` → `new`   (durations: integers, any sign, ≤ 15 digits; clock at 0)
  `tick <ms>` → `now=<ms>`   (the clock reads <ms> from now on; a reading below the current one is ignored)
  `send <area> <phone>` → `ok h<k>` | `smsfail h<k>` | `err:tooFreq` | `err:countLimit` | `panic`
  `verify <area> <phone> <cur|wrong|c<k>|lit:<text>>[^<mod>] <hcur|h<k>|hx|h->[^<mod>]` (mod ∈ U sp ts tr ch z fw: a near miss of the referenced value) →
        `ok` | `err:notExist` | `err:retryLimit` | `err:notMatch` | `err:hashNotMatch` | `err:timeout`
  `nonce <base> <len> <v0,v1,…|->` → `out=<string>` | `panic`
  `cover <base>` → `covered=<sorted distinct chars of genNonce base 1 [v], v < 2·|base|+2>` | `panic`
  `sample <base> <len> <count>` → `len-ok=1 alphabet-ok=1 covered=<sorted distinct reachable chars>` | `panic`
`cur`/`hcur` = code / hash of the last accepted send to this (area, phone) pair (script-level bookkeeping,
independent of the key format).  <area>, <phone> and the text of `lit:` are BYTE strings: printable ASCII 0x21–0x7E stands for itself except `%`, any byte may be written
`%XX` (two upper-case hex digits), `_` alone is the empty string.  `_` stands for the empty string in <base> too (alphabets are plain ASCII).
  `bulk <cap> <n> <k>` (n ≤ 200000) → `verify=<r> resend=<r>`: fresh instance (mock, CodeLen 4, MaxCount 3, MaxVerifyCount 3, all durations 9223372037 ms),
      n sends to generated pairs (86, 13900000000+i), then pair k verified with its code and hash and re-sent; answered by the closed form
      `bulkClosed` (= the model run, theorem `bulk_spec`), for n ≤ 300 by the model run itself.
  `race <g> <n> <mock:0|1>` (1 ≤ g ≤ 64, 1 ≤ n ≤ 1000000) → `resend-accepted=0 first-code-verifies=1`: one instance, MinInterval "never", a code sent to one pair, then n
      re-sends to it while g goroutines send and verify on other phones (child process); the answer is what EVERY sequential interleaving gives
      (theorem `vc_resend_refused_any_interleaving`).
  `stress <g> <n>` (1 ≤ g ≤ 64, n ≤ 100000) → `stress=ok`: g concurrent callers on distinct phones in a child process must not crash it (not modelled: the
      property speaks of sequences; the answer is constant).  `k` numbers the accepted sends of the script from 1.
-/
open Nv Nv.C19

structure OState where
  inited : Bool
  pr : Params
  st : State
  cur : List ((Str × Str) × (Code × Nat))  -- code and hash of the last accepted send per (area, phone) pair
  sends : List (Nat × Code)          -- code of accepted send k

def OState.init : OState := ⟨false, ⟨0, false, 0, 0, 0, 0, 0, 0, false⟩, State.init, [], []⟩

def tok (s : String) : Str := if s == "_" then [] else s.toList

def hexVal (c : Char) : Option Nat :=
  if c.isDigit then some (c.toNat - '0'.toNat)
  else if 'A'.toNat ≤ c.toNat ∧ c.toNat ≤ 'F'.toNat then some (c.toNat - 'A'.toNat + 10) else none

/-- `%XX` decoding into bytes (one `Char` < 256 per byte); a stray `%` makes the token ill-formed -/
def unescape : Str → Option Str
  | [] => some []
  | '%' :: a :: b :: rest =>
    match hexVal a, hexVal b, unescape rest with
    | some x, some y, some r => some (Char.ofNat (x * 16 + y) :: r)
    | _, _, _ => none
  | '%' :: _ => none
  | c :: rest => (unescape rest).map (c :: ·)

/-- byte-string token: `_` = empty, else `%XX`-unescaped -/
def tokB (s : String) : Option Str := if s == "_" then some [] else unescape s.toList

/-- strict decimal: 1…9 digits, nothing else (the Go runner parses the same way) -/
def natOf (l : Str) : Option Nat :=
  if l.length = 0 || l.length > 9 || !l.all Char.isDigit then none
  else some (l.foldl (fun acc c => acc * 10 + (c.toNat - '0'.toNat)) 0)
def intOf : Str → Option Int
  | '-' :: rest => (natOf rest).map (fun n => - (n : Int))
  | l => (natOf l).map (fun n => (n : Int))

/-- milliseconds: 1…15 digits -/
def msOf (l : Str) : Option Nat :=
  if l.length = 0 || l.length > 15 || !l.all Char.isDigit then none
  else some (l.foldl (fun acc c => acc * 10 + (c.toNat - '0'.toNat)) 0)
def durOf : Str → Option Int
  | '-' :: rest => (msOf rest).map (fun n => - (n : Int))
  | l => (msOf l).map (fun n => (n : Int))

def field (name : String) (w : String) : Option Str :=
  let p := (name ++ "=").toList
  let l := w.toList
  if l.take p.length == p then some (l.drop p.length) else none

def boolOf (l : Str) : Option Bool := if l == ['1'] then some true else if l == ['0'] then some false else none

def parseNew (ws : List String) : Option Params :=
  match ws with
  | [z, a, b, c, d, e, f, g, h] => do
    let cap ← (field "cap" z).bind natOf
    let mock ← (field "mock" a).bind boolOf
    let len ← (field "len" b).bind intOf
    let maxc ← (field "maxc" c).bind intOf
    let maxv ← (field "maxv" d).bind intOf
    let ttlx ← (field "ttl" e).bind durOf
    let minb ← (field "mini" f).bind durOf
    let winr ← (field "win" g).bind durOf
    let sf ← (field "smsfail" h).bind boolOf
    pure ⟨cap, mock, len, maxc, maxv, ttlx, minb, winr, sf⟩
  | _ => none

def lookupPair (k : Str × Str) : List ((Str × Str) × (Code × Nat)) → Option (Code × Nat)
  | [] => none
  | (k', c) :: rest => if k = k' then some c else lookupPair k rest

def lookupSend (k : Nat) : List (Nat × Code) → Option Code
  | [] => none
  | (k', c) :: rest => if k = k' then some c else lookupSend k rest

def noCode : Code := .lit ['x']

/-- `cur` with its first character replaced by 'x' (or "x"): never equals a generated code -/
def wrongOf : Code → Code
  | .lit (_ :: t) => .lit ('x' :: t)
  | .lit [] => .lit ['x']
  | .sym _ => .lit ['x']

/-- near-miss modifications of a referenced code / hash (`<ref>^<mod>`): the runner builds a string that is
    guaranteed to differ from the referenced one (case flipped, blank added, one character dropped or changed,
    full-width digits); in the model it is simply a value that was never issued -/
def nearMissMods : List String := ["U", "sp", "ts", "tr", "ch", "z", "fw"]

def splitMod (w : String) : Option (String × String) :=
  match w.splitOn "^" with
  | [a, m] => if nearMissMods.contains m then some (a, m) else none
  | _ => none

def parseCodeBase (o : OState) (pair : Str × Str) (w : String) : Option Code :=
  let l := w.toList
  if w == "cur" then some (((lookupPair pair o.cur).map (·.1)).getD noCode)
  else if w == "wrong" then some (wrongOf (((lookupPair pair o.cur).map (·.1)).getD (.lit [])))
  else if l.take 4 == "lit:".toList then (unescape (l.drop 4)).map .lit
  else match l with
    | 'c' :: rest => (natOf rest).map (fun k => (lookupSend k o.sends).getD noCode)
    | _ => none

def parseCode (o : OState) (pair : Str × Str) (w : String) : Option Code :=
  if w.contains '^' then
    match splitMod w with
    | some (a, _) => (parseCodeBase o pair a).map (fun _ => .lit ['x', '^'])
    | none => none
  else parseCodeBase o pair w

def parseHashBase (o : OState) (pair : Str × Str) (w : String) : Option Nat :=
  if w == "hx" || w == "h-" then some 0
  else if w == "hcur" then some (((lookupPair pair o.cur).map (·.2)).getD 0)
  else match w.toList with
    | 'h' :: rest => (natOf rest).map (fun k => if k ≤ o.st.nsent then k else 0)
    | _ => none

def parseHash (o : OState) (pair : Str × Str) (w : String) : Option Nat :=
  if w.contains '^' then
    match splitMod w with
    | some (a, _) => (parseHashBase o pair a).map (fun _ => 0)
    | none => none
  else parseHashBase o pair w

def showSend : SendResult → String
  | .ok h => s!"ok h{h}" | .smsFail h => s!"smsfail h{h}" | .tooFreq => "err:tooFreq" | .countLimit => "err:countLimit"
  | .panic => "panic"

def showVerify : VerifyResult → String
  | .ok => "ok" | .notExist => "err:notExist" | .retryLimit => "err:retryLimit" | .notMatch => "err:notMatch"
  | .hashNotMatch => "err:hashNotMatch" | .timeout => "err:timeout"

def insertSorted (c : Char) : Str → Str
  | [] => [c]
  | d :: rest => if c.toNat < d.toNat then c :: d :: rest else if c = d then d :: rest else d :: insertSorted c rest

def sortDedup (l : Str) : Str := l.foldl (fun acc c => insertSorted c acc) []

def parseVals (w : String) : Option (List Nat) :=
  if w == "-" then some [] else (w.splitOn ",").mapM (fun s => natOf s.toList)

def coverOf (b : NonceBound) (base : Str) : Option Str :=
  (List.range (2 * base.length + 2)).foldl (fun acc v =>
    match acc, genNonce b base 1 [v] with
    | some l, some out => some (l ++ out)
    | _, _ => none) (some [])

def step (o : OState) (line : String) : OState × String :=
  let cfg := Nv.Gen.C19.cfg
  match words line with
  | "new" :: rest =>
    match parseNew rest with
    | some pr => ({ OState.init with inited := true, pr := pr }, "new")
    | none => (OState.init, "bad-op")
  | ["tick", t] =>
    if !o.inited then (o, "bad-op") else
    match msOf t.toList with
    | some t => let st := advance t o.st; ({ o with st := st }, s!"now={st.now}")
    | none => (o, "bad-op")
  | ["send", a, p] =>
    if !o.inited then (o, "bad-op") else
    match tokB a, tokB p with
    | some a, some p =>
      let r := send cfg o.pr o.st a p
      match r.2.accepted with
      | some k =>
        let code := genCode o.pr p k
        ({ o with st := r.1, cur := ((a, p), (code, k)) :: o.cur, sends := (k, code) :: o.sends }, showSend r.2)
      | none => ({ o with st := r.1 }, showSend r.2)
    | _, _ => (o, "bad-op")
  | ["verify", a, p, cw, hw] =>
    if !o.inited then (o, "bad-op") else
    match tokB a, tokB p with
    | some a, some p =>
      match parseCode o (a, p) cw, parseHash o (a, p) hw with
      | some code, some h =>
        let r := verify cfg o.pr o.st a p code h
        ({ o with st := r.1 }, showVerify r.2)
      | _, _ => (o, "bad-op")
    | _, _ => (o, "bad-op")
  | ["race", gw, nw, mw] =>
    match natOf gw.toList, natOf nw.toList with
    | some g, some n =>
      if g < 1 || g > 64 || n < 1 || n > 1000000 || !(mw == "0" || mw == "1") then (o, "bad-op")
      else (o, "resend-accepted=0 first-code-verifies=1")
    | _, _ => (o, "bad-op")
  | ["stress", gw, nw] =>
    match natOf gw.toList, natOf nw.toList with
    | some g, some n => if g < 1 || g > 64 || n > 100000 then (o, "bad-op") else (o, "stress=ok")
    | _, _ => (o, "bad-op")
  | ["bulk", cw, nw, kw] =>
    match natOf cw.toList, natOf nw.toList, natOf kw.toList with
    | some cap, some n, some k =>
      if n > 200000 then (o, "bad-op") else
      let r := if n ≤ 300 then bulkRun cfg cap n k else bulkClosed cap n k
      (o, s!"verify={showVerify r.1} resend={showSend r.2}")
    | _, _, _ => (o, "bad-op")
  | ["nonce", b, n, vs] =>
    match intOf n.toList, parseVals vs with
    | some n, some vals =>
      match genNonce cfg.nonceBound (tok b) n.toNat vals with
      | some out => (o, "out=" ++ String.ofList out)
      | none => (o, "panic")
    | _, _ => (o, "bad-op")
  | ["cover", b] =>
    match coverOf cfg.nonceBound (tok b) with
    | some l => (o, "covered=" ++ String.ofList (sortDedup l))
    | none => (o, "panic")
  | ["sample", b, n, cnt] =>
    let base := tok b
    match natOf n.toList, natOf cnt.toList with
    | some n, some cnt =>
      if base.length = 0 || n = 0 || cnt = 0 || n * cnt < 400 * base.length then (o, "bad-op")
      else if boundOf cfg.nonceBound base.length ≤ 0 then (o, "panic")
      else (o, "len-ok=1 alphabet-ok=1 covered=" ++ String.ofList (sortDedup (reachable cfg.nonceBound base)))
    | _, _ => (o, "bad-op")
  | _ => (o, "bad-op")

def main : IO Unit := oracleMain step OState.init
