module nvharness

go 1.19

require (
	github.com/cespare/xxhash/v2 v2.2.0
	github.com/go-sql-driver/mysql v1.7.1
	github.com/json-iterator/go v1.1.12
	github.com/pinealctx/neptune v0.0.0
	go.uber.org/zap v1.24.0
	gorm.io/driver/mysql v1.5.1
	gorm.io/gorm v1.25.1
)

require (
	github.com/dgryski/go-rendezvous v0.0.0-20200823014737-9f7001d12a5f // indirect
	github.com/eapache/queue v1.1.0 // indirect
	github.com/golang/protobuf v1.5.3 // indirect
	github.com/golang/snappy v0.0.4 // indirect
	github.com/jinzhu/inflection v1.0.0 // indirect
	github.com/jinzhu/now v1.1.5 // indirect
	github.com/modern-go/concurrent v0.0.0-20180228061459-e0a39a4cb421 // indirect
	github.com/modern-go/reflect2 v1.0.2 // indirect
	github.com/redis/go-redis/v9 v9.0.4 // indirect
	github.com/satori/go.uuid v1.2.0 // indirect
	go.uber.org/atomic v1.11.0 // indirect
	go.uber.org/multierr v1.6.0 // indirect
	golang.org/x/crypto v0.9.0 // indirect
	golang.org/x/exp v0.0.0-20230522175609-2e198f4a06a1 // indirect
	google.golang.org/genproto v0.0.0-20230410155749-daa745c078e1 // indirect
	google.golang.org/grpc v1.55.0 // indirect
	google.golang.org/protobuf v1.30.0 // indirect
	gopkg.in/natefinch/lumberjack.v2 v2.2.1 // indirect
)

replace github.com/pinealctx/neptune => /repo
