// Package go2lean translates loop-free integer "kernels" of /repo's Go source into Lean 4
// definitions over BitVec with Go's exact machine semantics (wrap-around + - *, truncated
// signed / and %, shifts, signed/unsigned comparisons, width conversions). The property
// theorems in lean/Nv/Tie/*.lean are stated directly on these regenerated definitions.
//
// Accepted subset: integer / bool parameters, locals, named results; receiver fields and
// package-level variables of integer/bool type (they become extra parameters, written ones
// extra results); assignment, op-assignment, ++/--, := and var declarations, if/else chains,
// return (also bare, also multi-value); calls to other functions of the same package that are
// themselves in the subset; constants (folded by go/types); conversions. A call the subset
// cannot see into (time.Now().UnixNano(), k.HashedInt()) becomes a parameter `ext_<n>` of the
// result's type — each call site a separate parameter. Mutex Lock/Unlock statements
// (also deferred) are dropped and reported as facts. Everything else is rejected with an
// error naming the construct: the caller must then treat the kernel as untranslatable
// (tie broken), never guess.
package go2lean

import (
	"bytes"
	"fmt"
	"go/ast"
	"go/constant"
	"go/importer"
	"go/parser"
	"go/printer"
	"go/token"
	"go/types"
	"os"
	"path/filepath"
	"sort"
	"strings"
)

type Pkg struct {
	Fset  *token.FileSet
	Files []*ast.File
	Info  *types.Info
	Types *types.Package
	funcs map[string]*ast.FuncDecl
	// Subst maps the normalised source of an expression to a Lean expression (over Lean names of the
	// variables in scope) together with its Go type name — an *assumed* equivalence, listed in the trusted base.
	Subst map[string]SubstRule
	done  map[string]*Kernel
	order []string
}

type SubstRule struct {
	Lean string
	Why  string
}

type Var struct {
	Name string // Lean identifier
	Type string // Lean type
	Go   string // Go source form
}

type Kernel struct {
	Key     string // "Recv.Name" or "Name"
	Lean    string // Lean definition name
	Params  []Var  // explicit parameters
	Fields  []Var  // receiver fields / receiver value read or written
	Globals []Var  // package-level variables read or written
	Exts    []Var  // opaque calls turned into parameters
	Results []string
	WFields []Var // written receiver fields (returned after the results)
	WGlob   []Var
	Body    string
	Locks   []string // mutex calls dropped, in source order (e.g. "n.mu.Lock", "defer n.mu.Unlock")
	Src     string
}

type fallbackImporter struct{ src types.Importer }

func (f fallbackImporter) Import(path string) (*types.Package, error) {
	if !strings.Contains(path, ".") { // standard library: type-check from GOROOT sources
		if p, err := f.src.Import(path); err == nil {
			return p, nil
		}
	}
	name := path[strings.LastIndex(path, "/")+1:]
	p := types.NewPackage(path, name)
	p.MarkComplete()
	return p, nil
}

// LoadPkg parses and (permissively) type-checks the non-test files of repo/dir.
func LoadPkg(repo, dir string) (*Pkg, error) {
	fset := token.NewFileSet()
	ents, err := os.ReadDir(filepath.Join(repo, dir))
	if err != nil {
		return nil, err
	}
	var files []*ast.File
	for _, e := range ents {
		n := e.Name()
		if e.IsDir() || !strings.HasSuffix(n, ".go") || strings.HasSuffix(n, "_test.go") || strings.HasPrefix(n, "verif_") {
			continue
		}
		f, err := parser.ParseFile(fset, filepath.Join(repo, dir, n), nil, 0)
		if err != nil {
			return nil, err
		}
		files = append(files, f)
	}
	info := &types.Info{Types: map[ast.Expr]types.TypeAndValue{}, Defs: map[*ast.Ident]types.Object{},
		Uses: map[*ast.Ident]types.Object{}, Selections: map[*ast.SelectorExpr]*types.Selection{}}
	conf := types.Config{Importer: fallbackImporter{importer.ForCompiler(fset, "source", nil)}, Error: func(error) {}}
	tp, _ := conf.Check(dir, fset, files, info)
	p := &Pkg{Fset: fset, Files: files, Info: info, Types: tp, funcs: map[string]*ast.FuncDecl{}, Subst: map[string]SubstRule{}, done: map[string]*Kernel{}}
	for _, f := range files {
		for _, d := range f.Decls {
			if fd, ok := d.(*ast.FuncDecl); ok {
				p.funcs[funcKey(fd)] = fd
			}
		}
	}
	return p, nil
}

func funcKey(fd *ast.FuncDecl) string {
	if fd.Recv == nil || len(fd.Recv.List) == 0 {
		return fd.Name.Name
	}
	t := fd.Recv.List[0].Type
	for {
		switch x := t.(type) {
		case *ast.StarExpr:
			t = x.X
			continue
		case *ast.IndexExpr:
			t = x.X
			continue
		case *ast.Ident:
			return x.Name + "." + fd.Name.Name
		}
		return "?." + fd.Name.Name
	}
}

func (p *Pkg) src(n ast.Node) string {
	var b bytes.Buffer
	_ = printer.Fprint(&b, p.Fset, n)
	return strings.Join(strings.Fields(b.String()), " ")
}

// ---------------------------------------------------------------- types

type ity struct {
	w      int
	signed bool
	isBool bool
}

func basicOf(t types.Type) (ity, bool) {
	if t == nil {
		return ity{}, false
	}
	b, ok := t.Underlying().(*types.Basic)
	if !ok {
		return ity{}, false
	}
	switch b.Kind() {
	case types.Bool, types.UntypedBool:
		return ity{isBool: true}, true
	case types.Int, types.Int64, types.UntypedInt, types.UntypedRune:
		return ity{64, true, false}, true
	case types.Int32:
		return ity{32, true, false}, true
	case types.Int16:
		return ity{16, true, false}, true
	case types.Int8:
		return ity{8, true, false}, true
	case types.Uint, types.Uint64, types.Uintptr:
		return ity{64, false, false}, true
	case types.Uint32:
		return ity{32, false, false}, true
	case types.Uint16:
		return ity{16, false, false}, true
	case types.Uint8:
		return ity{8, false, false}, true
	}
	return ity{}, false
}

func (t ity) lean() string {
	if t.isBool {
		return "Bool"
	}
	return fmt.Sprintf("BitVec %d", t.w)
}

func lit(v constant.Value, t ity) (string, error) {
	if t.isBool {
		if constant.BoolVal(v) {
			return "true", nil
		}
		return "false", nil
	}
	iv := constant.ToInt(v)
	if iv.Kind() != constant.Int {
		return "", fmt.Errorf("non-integer constant %s", v)
	}
	s := iv.ExactString()
	if strings.HasPrefix(s, "-") {
		return fmt.Sprintf("(BitVec.ofInt %d (%s))", t.w, s), nil
	}
	return fmt.Sprintf("%s#%d", s, t.w), nil
}

var leanKeywords = map[string]bool{"end": true, "at": true, "from": true, "open": true, "in": true, "then": true, "fun": true,
	"show": true, "have": true, "do": true, "if": true, "let": true, "by": true, "with": true, "where": true, "match": true,
	"else": true, "def": true, "theorem": true, "instance": true, "structure": true, "namespace": true, "section": true,
	"import": true, "mut": true, "for": true, "return": true, "Type": true, "Prop": true, "max": true, "min": true, "now": false}

func ident(s string) string {
	s = strings.ReplaceAll(s, ".", "_")
	if strings.HasPrefix(s, "_") {
		s = "g" + s
	}
	if leanKeywords[s] {
		s += "_"
	}
	return s
}

// ---------------------------------------------------------------- translation

type fn struct {
	p        *Pkg
	k        *Kernel
	fd       *ast.FuncDecl
	recv     string // receiver identifier
	recvPtrI bool   // receiver is *T with T an integer type: `*b` is the value
	named    []Var  // named results
	seen     map[string]bool
	clash    string // first pair of distinct Go entities that map to one Lean name
}

type unsupported struct{ msg string }

func (u unsupported) Error() string { return u.msg }

func (f *fn) fail(n ast.Node, what string) error {
	return unsupported{fmt.Sprintf("%s: unsupported %s `%s`", f.k.Key, what, f.p.src(n))}
}

func (f *fn) noteVar(list *[]Var, v Var) {
	for _, x := range *list {
		if x.Name == v.Name {
			if x.Go != v.Go && f.clash == "" {
				f.clash = fmt.Sprintf("`%s` and `%s` would share the Lean name %s", x.Go, v.Go, v.Name)
			}
			return
		}
	}
	*list = append(*list, v)
}

// Translate returns the kernel for key ("Recv.Name" or "Name"), translating callees first.
func (p *Pkg) Translate(key string) (*Kernel, error) {
	if k, ok := p.done[key]; ok {
		if k == nil {
			return nil, unsupported{key + ": recursive or previously failed"}
		}
		return k, nil
	}
	fd := p.funcs[key]
	if fd == nil || fd.Body == nil {
		return nil, unsupported{key + ": no such function in package"}
	}
	p.done[key] = nil
	k := &Kernel{Key: key, Lean: leanName(key), Src: p.src(fd)}
	f := &fn{p: p, k: k, fd: fd, seen: map[string]bool{}}
	if fd.Recv != nil && len(fd.Recv.List) > 0 && len(fd.Recv.List[0].Names) > 0 {
		f.recv = fd.Recv.List[0].Names[0].Name
		if st, ok := fd.Recv.List[0].Type.(*ast.StarExpr); ok {
			if t, ok := basicOf(p.Info.TypeOf(st.X)); ok && !t.isBool {
				f.recvPtrI = true
			}
		}
	}
	for _, fl := range fd.Type.Params.List {
		t, ok := basicOf(p.Info.TypeOf(fl.Type))
		for _, n := range fl.Names {
			if !ok {
				// a non-integer parameter may only be used through opaque calls
				continue
			}
			k.Params = append(k.Params, Var{ident(n.Name), t.lean(), n.Name})
		}
	}
	var prelude []string
	if fd.Type.Results != nil {
		for _, fl := range fd.Type.Results.List {
			t, ok := basicOf(p.Info.TypeOf(fl.Type))
			if !ok {
				return nil, f.fail(fl.Type, "result type")
			}
			if len(fl.Names) == 0 {
				k.Results = append(k.Results, t.lean())
			}
			for _, n := range fl.Names {
				k.Results = append(k.Results, t.lean())
				f.named = append(f.named, Var{ident(n.Name), t.lean(), n.Name})
				z := "false"
				if !t.isBool {
					z = fmt.Sprintf("0#%d", t.w)
				}
				prelude = append(prelude, fmt.Sprintf("let %s : %s := %s", ident(n.Name), t.lean(), z))
			}
		}
	}
	// first pass to learn written fields/globals (needed to build return tuples)
	f.scanWrites(fd.Body)
	if err := f.deadCode(fd.Body); err != nil {
		return nil, err
	}
	body, err := f.stmts(fd.Body.List, 1)
	if err != nil {
		return nil, err
	}
	if err := f.nameCheck(); err != nil {
		return nil, err
	}
	ind := "  "
	for _, l := range prelude {
		body = ind + l + "\n" + body
	}
	k.Body = body
	p.done[key] = k
	p.order = append(p.order, key)
	return k, nil
}

// deadCode rejects a statement list that continues after a `return`: the translation stops at the return, so whatever
// follows would be silently ignored (in real source it is dead; in a synthetic kernel made by textual replacement it is
// code the model would not see).
func (f *fn) deadCode(body *ast.BlockStmt) error {
	var err error
	check := func(list []ast.Stmt) {
		for i, s := range list {
			if _, ok := s.(*ast.ReturnStmt); ok && i < len(list)-1 && err == nil {
				err = f.fail(list[i+1], "statement after return")
			}
		}
	}
	ast.Inspect(body, func(n ast.Node) bool {
		switch x := n.(type) {
		case *ast.BlockStmt:
			check(x.List)
		case *ast.CaseClause:
			check(x.Body)
		case *ast.CommClause:
			check(x.Body)
		}
		return true
	})
	return err
}

// nameCheck makes the Go-name → Lean-name mapping injective for this kernel: two different variables (a local and the
// named result it shadows in a nested block, `max` and `max_`, the field n.time and a local n_time, …) must never
// become one Lean variable, because blocks are flattened into one chain of `let`s.
func (f *fn) nameCheck() error {
	if f.clash != "" {
		return unsupported{f.k.Key + ": " + f.clash}
	}
	owner := map[string][]types.Object{}
	nested := func(a, b *types.Scope) bool { // a is b or an ancestor of b
		for s := b; s != nil; s = s.Parent() {
			if s == a {
				return true
			}
		}
		return false
	}
	var err error
	def := func(id *ast.Ident) {
		if id == nil || id.Name == "_" || err != nil {
			return
		}
		obj := f.p.Info.Defs[id]
		v, ok := obj.(*types.Var)
		if !ok || v.IsField() {
			return
		}
		name := ident(id.Name)
		for _, prev := range owner[name] {
			if prev == obj {
				return
			}
			// the same name declared in two disjoint scopes (the two arms of an if) is harmless; anything else is not
			if prev.Name() != id.Name || nested(prev.Parent(), obj.Parent()) || nested(obj.Parent(), prev.Parent()) {
				err = unsupported{fmt.Sprintf("%s: two different variables (`%s` and `%s`) would share the Lean name %s — shadowing or a name clash", f.k.Key, prev.Name(), id.Name, name)}
				return
			}
		}
		owner[name] = append(owner[name], obj)
	}
	ast.Inspect(f.fd, func(n ast.Node) bool {
		if id, ok := n.(*ast.Ident); ok {
			def(id)
		}
		return true
	})
	if err != nil {
		return err
	}
	for _, list := range [][]Var{f.k.Fields, f.k.Globals, f.k.Exts} {
		for _, v := range list {
			if o := owner[v.Name]; len(o) > 0 {
				return unsupported{fmt.Sprintf("%s: local `%s` and `%s` would share the Lean name %s", f.k.Key, o[0].Name(), v.Go, v.Name)}
			}
		}
	}
	all := map[string]string{}
	for _, list := range [][]Var{f.k.Fields, f.k.Globals, f.k.Exts} {
		for _, v := range list {
			if g, ok := all[v.Name]; ok && g != v.Go {
				return unsupported{fmt.Sprintf("%s: `%s` and `%s` would share the Lean name %s", f.k.Key, g, v.Go, v.Name)}
			}
			all[v.Name] = v.Go
		}
	}
	return nil
}

func leanName(key string) string {
	parts := strings.Split(key, ".")
	for i, s := range parts {
		parts[i] = strings.ToLower(s[:1]) + s[1:]
	}
	n := strings.Join(parts, "_")
	return ident(n)
}

func (f *fn) scanWrites(n ast.Node) {
	ast.Inspect(n, func(x ast.Node) bool {
		var lhs []ast.Expr
		switch s := x.(type) {
		case *ast.AssignStmt:
			if s.Tok != token.DEFINE {
				lhs = s.Lhs
			}
		case *ast.IncDecStmt:
			lhs = []ast.Expr{s.X}
		}
		for _, l := range lhs {
			if v, kind, ok := f.lvalue(l); ok {
				switch kind {
				case "field":
					f.noteVar(&f.k.WFields, v)
					f.noteVar(&f.k.Fields, v)
				case "global":
					f.noteVar(&f.k.WGlob, v)
					f.noteVar(&f.k.Globals, v)
				}
			}
		}
		return true
	})
}

// lvalue classifies an assignable expression: local / field / global.
func (f *fn) lvalue(e ast.Expr) (Var, string, bool) {
	switch x := e.(type) {
	case *ast.ParenExpr:
		return f.lvalue(x.X)
	case *ast.Ident:
		t, ok := basicOf(f.p.Info.TypeOf(x))
		if !ok {
			return Var{}, "", false
		}
		obj := f.p.Info.Uses[x]
		if obj == nil {
			obj = f.p.Info.Defs[x]
		}
		if v, isVar := obj.(*types.Var); isVar && v.Parent() == f.p.Types.Scope() {
			return Var{ident(x.Name), t.lean(), x.Name}, "global", true
		}
		return Var{ident(x.Name), t.lean(), x.Name}, "local", true
	case *ast.StarExpr:
		if id, ok := x.X.(*ast.Ident); ok && id.Name == f.recv && f.recvPtrI {
			t, _ := basicOf(f.p.Info.TypeOf(x))
			return Var{ident(f.recv + "_val"), t.lean(), "*" + f.recv}, "field", true
		}
	case *ast.SelectorExpr:
		if id, ok := x.X.(*ast.Ident); ok && id.Name == f.recv {
			if t, ok := basicOf(f.p.Info.TypeOf(x)); ok {
				return Var{ident(f.recv + "_" + x.Sel.Name), t.lean(), f.recv + "." + x.Sel.Name}, "field", true
			}
		}
	}
	return Var{}, "", false
}

// isLockCall recognises x.Lock() / Unlock / RLock / RUnlock — only when the method is the one of sync.Mutex /
// sync.RWMutex (also promoted through embedding). A user-defined method of that name is code, not a lock.
func (f *fn) isLockCall(e ast.Expr) (string, bool) {
	c, ok := e.(*ast.CallExpr)
	if !ok || len(c.Args) != 0 {
		return "", false
	}
	s, ok := c.Fun.(*ast.SelectorExpr)
	if !ok {
		return "", false
	}
	switch s.Sel.Name {
	case "Lock", "Unlock", "RLock", "RUnlock":
		sel := f.p.Info.Selections[s]
		if sel == nil {
			return "", false
		}
		m, ok := sel.Obj().(*types.Func)
		if !ok || m.Pkg() == nil || m.Pkg().Path() != "sync" {
			return "", false
		}
		return s.Sel.Name, true
	}
	return "", false
}

func (f *fn) retTuple(vals []string) string {
	all := append([]string{}, vals...)
	for _, v := range f.k.WFields {
		all = append(all, v.Name)
	}
	for _, v := range f.k.WGlob {
		all = append(all, v.Name)
	}
	if len(all) == 0 {
		return "()"
	}
	if len(all) == 1 {
		return all[0]
	}
	return "(" + strings.Join(all, ", ") + ")"
}

func pad(d int) string { return strings.Repeat("  ", d) }

// stmts translates a statement list (with everything that follows it) into one Lean term.
func (f *fn) stmts(list []ast.Stmt, d int) (string, error) {
	if len(list) == 0 {
		// fell off the end: only legal for functions without results (or with named ones via bare return)
		if len(f.k.Results) != 0 && len(f.named) == 0 {
			return "", unsupported{f.k.Key + ": control reaches end of function without return"}
		}
		var vals []string
		for _, v := range f.named {
			vals = append(vals, v.Name)
		}
		return pad(d) + f.retTuple(vals), nil
	}
	s, rest := list[0], list[1:]
	switch x := s.(type) {
	case *ast.EmptyStmt:
		return f.stmts(rest, d)
	case *ast.BlockStmt:
		return f.stmts(append(append([]ast.Stmt{}, x.List...), rest...), d)
	case *ast.DeferStmt:
		if name, ok := f.isLockCall(x.Call); ok {
			f.k.Locks = append(f.k.Locks, "defer "+f.p.src(x.Call.Fun)[:len(f.p.src(x.Call.Fun))-len(name)]+name)
			return f.stmts(rest, d)
		}
		return "", f.fail(x, "defer")
	case *ast.ExprStmt:
		if name, ok := f.isLockCall(x.X); ok {
			_ = name
			f.k.Locks = append(f.k.Locks, f.p.src(x.X.(*ast.CallExpr).Fun))
			return f.stmts(rest, d)
		}
		return "", f.fail(x, "expression statement")
	case *ast.ReturnStmt:
		var vals []string
		if len(x.Results) == 0 {
			for _, v := range f.named {
				vals = append(vals, v.Name)
			}
		} else if len(x.Results) == 1 && len(f.k.Results) > 1 {
			// return g() with a multi-value callee
			e, err := f.expr(x.Results[0])
			if err != nil {
				return "", err
			}
			if len(f.k.WFields)+len(f.k.WGlob) > 0 {
				return "", f.fail(x, "multi-value tail call in a function that also writes fields/globals")
			}
			return pad(d) + e, nil
		} else {
			for _, r := range x.Results {
				e, err := f.expr(r)
				if err != nil {
					return "", err
				}
				vals = append(vals, e)
			}
		}
		return pad(d) + f.retTuple(vals), nil
	case *ast.DeclStmt:
		gd, ok := x.Decl.(*ast.GenDecl)
		if !ok || gd.Tok != token.VAR {
			if ok && gd.Tok == token.CONST {
				return f.stmts(rest, d) // constants are folded by go/types
			}
			return "", f.fail(x, "declaration")
		}
		var out []string
		for _, sp := range gd.Specs {
			vs := sp.(*ast.ValueSpec)
			if len(vs.Values) == 1 && len(vs.Names) > 1 {
				e, err := f.expr(vs.Values[0])
				if err != nil {
					return "", err
				}
				var ns []string
				for _, n := range vs.Names {
					ns = append(ns, f.declName(n))
				}
				out = append(out, fmt.Sprintf("let (%s) := %s", strings.Join(ns, ", "), e))
				continue
			}
			for i, n := range vs.Names {
				t, ok := basicOf(f.p.Info.TypeOf(n))
				if !ok {
					return "", f.fail(n, "local of non-integer type")
				}
				var e string
				if i < len(vs.Values) {
					var err error
					e, err = f.expr(vs.Values[i])
					if err != nil {
						return "", err
					}
				} else if t.isBool {
					e = "false"
				} else {
					e = fmt.Sprintf("0#%d", t.w)
				}
				out = append(out, fmt.Sprintf("let %s : %s := %s", f.declName(n), t.lean(), e))
			}
		}
		r, err := f.stmts(rest, d)
		if err != nil {
			return "", err
		}
		return pad(d) + strings.Join(out, "\n"+pad(d)) + "\n" + r, nil
	case *ast.IncDecStmt:
		v, _, ok := f.lvalue(x.X)
		if !ok {
			return "", f.fail(x, "inc/dec target")
		}
		cur, err := f.expr(x.X)
		if err != nil {
			return "", err
		}
		t, _ := basicOf(f.p.Info.TypeOf(x.X))
		op := "+"
		if x.Tok == token.DEC {
			op = "-"
		}
		r, err := f.stmts(rest, d)
		if err != nil {
			return "", err
		}
		return fmt.Sprintf("%slet %s := %s %s 1#%d\n%s", pad(d), v.Name, cur, op, t.w, r), nil
	case *ast.AssignStmt:
		line, err := f.assign(x)
		if err != nil {
			return "", err
		}
		r, err := f.stmts(rest, d)
		if err != nil {
			return "", err
		}
		return pad(d) + line + "\n" + r, nil
	case *ast.IfStmt:
		pre := ""
		if x.Init != nil {
			as, ok := x.Init.(*ast.AssignStmt)
			if !ok {
				return "", f.fail(x.Init, "if-init")
			}
			line, err := f.assign(as)
			if err != nil {
				return "", err
			}
			pre = pad(d) + line + "\n"
		}
		c, err := f.expr(x.Cond)
		if err != nil {
			return "", err
		}
		if err := f.noShadow(x.Body); err != nil {
			return "", err
		}
		thenT, err := f.stmts(append(append([]ast.Stmt{}, x.Body.List...), rest...), d+1)
		if err != nil {
			return "", err
		}
		var elseList []ast.Stmt
		switch e := x.Else.(type) {
		case nil:
		case *ast.BlockStmt:
			if err := f.noShadow(e); err != nil {
				return "", err
			}
			elseList = e.List
		case *ast.IfStmt:
			elseList = []ast.Stmt{e}
		}
		elseT, err := f.stmts(append(append([]ast.Stmt{}, elseList...), rest...), d+1)
		if err != nil {
			return "", err
		}
		return fmt.Sprintf("%s%sif %s then\n%s\n%selse\n%s", pre, pad(d), c, thenT, pad(d), elseT), nil
	}
	return "", f.fail(s, "statement")
}

// noShadow rejects a block that declares a name already visible outside it (the continuation is duplicated into
// both branches, so an inner declaration must not capture a later use of the outer variable).
func (f *fn) noShadow(b *ast.BlockStmt) error {
	var err error
	ast.Inspect(b, func(n ast.Node) bool {
		switch s := n.(type) {
		case *ast.AssignStmt:
			if s.Tok == token.DEFINE {
				for _, l := range s.Lhs {
					if id, ok := l.(*ast.Ident); ok && f.seen[id.Name] {
						err = f.fail(s, "shadowing declaration in a nested block")
					}
				}
			}
		case *ast.ValueSpec:
			for _, id := range s.Names {
				if f.seen[id.Name] {
					err = f.fail(id, "shadowing declaration in a nested block")
				}
			}
		}
		return true
	})
	return err
}

func (f *fn) declName(n *ast.Ident) string {
	if n.Name == "_" {
		return "_"
	}
	f.seen[n.Name] = true
	return ident(n.Name)
}

func (f *fn) assign(x *ast.AssignStmt) (string, error) {
	if len(x.Rhs) == 1 && len(x.Lhs) > 1 {
		e, err := f.expr(x.Rhs[0])
		if err != nil {
			return "", err
		}
		var ns []string
		for _, l := range x.Lhs {
			if id, ok := l.(*ast.Ident); ok && id.Name == "_" {
				ns = append(ns, "_")
				continue
			}
			v, _, ok := f.lvalue(l)
			if !ok {
				return "", f.fail(l, "assignment target")
			}
			if id, ok := l.(*ast.Ident); ok && x.Tok == token.DEFINE {
				f.seen[id.Name] = true
			}
			ns = append(ns, v.Name)
		}
		return fmt.Sprintf("let (%s) := %s", strings.Join(ns, ", "), e), nil
	}
	if len(x.Lhs) != len(x.Rhs) {
		return "", f.fail(x, "assignment arity")
	}
	// parallel assignment evaluates all right-hand sides first
	var rhs []string
	for i := range x.Rhs {
		e, err := f.expr(x.Rhs[i])
		if err != nil {
			return "", err
		}
		if x.Tok != token.ASSIGN && x.Tok != token.DEFINE {
			cur, err := f.expr(x.Lhs[i])
			if err != nil {
				return "", err
			}
			t, _ := basicOf(f.p.Info.TypeOf(x.Lhs[i]))
			op := x.Tok.String()
			op = op[:len(op)-1]
			e, err = f.binop(op, cur, e, t, f.p.Info.TypeOf(x.Rhs[i]), x)
			if err != nil {
				return "", err
			}
		}
		rhs = append(rhs, e)
	}
	var ns []string
	for _, l := range x.Lhs {
		if id, ok := l.(*ast.Ident); ok && id.Name == "_" {
			ns = append(ns, "_")
			continue
		}
		v, _, ok := f.lvalue(l)
		if !ok {
			return "", f.fail(l, "assignment target")
		}
		if id, ok := l.(*ast.Ident); ok && x.Tok == token.DEFINE {
			f.seen[id.Name] = true
		}
		ns = append(ns, v.Name)
	}
	if len(ns) == 1 {
		return fmt.Sprintf("let %s := %s", ns[0], rhs[0]), nil
	}
	return fmt.Sprintf("let (%s) := (%s)", strings.Join(ns, ", "), strings.Join(rhs, ", ")), nil
}

func (f *fn) binop(op, a, b string, t ity, rhsT types.Type, n ast.Node) (string, error) {
	switch op {
	case "+", "-", "*":
		return fmt.Sprintf("(%s %s %s)", a, op, b), nil
	case "/":
		if t.signed {
			return fmt.Sprintf("(BitVec.sdiv %s %s)", a, b), nil
		}
		return fmt.Sprintf("(BitVec.udiv %s %s)", a, b), nil
	case "%":
		if t.signed {
			return fmt.Sprintf("(BitVec.srem %s %s)", a, b), nil
		}
		return fmt.Sprintf("(BitVec.umod %s %s)", a, b), nil
	case "&":
		return fmt.Sprintf("(%s &&& %s)", a, b), nil
	case "|":
		return fmt.Sprintf("(%s ||| %s)", a, b), nil
	case "^":
		return fmt.Sprintf("(%s ^^^ %s)", a, b), nil
	case "&^":
		return fmt.Sprintf("(%s &&& ~~~%s)", a, b), nil
	case "<<":
		return fmt.Sprintf("(%s <<< (%s).toNat)", a, b), nil
	case ">>":
		if t.signed {
			return fmt.Sprintf("(BitVec.sshiftRight %s (%s).toNat)", a, b), nil
		}
		return fmt.Sprintf("(%s >>> (%s).toNat)", a, b), nil
	}
	return "", f.fail(n, "operator "+op)
}

func (f *fn) expr(e ast.Expr) (string, error) {
	tv := f.p.Info.Types[e]
	if tv.Value != nil {
		if t, ok := basicOf(tv.Type); ok {
			return lit(tv.Value, t)
		}
	}
	if r, ok := f.p.Subst[f.p.src(e)]; ok {
		return "(" + r.Lean + ")", nil
	}
	switch x := e.(type) {
	case *ast.ParenExpr:
		return f.expr(x.X)
	case *ast.Ident:
		if x.Name == "true" || x.Name == "false" {
			return x.Name, nil
		}
		v, kind, ok := f.lvalue(x)
		if !ok {
			return "", f.fail(x, "identifier of non-integer type")
		}
		if kind == "global" {
			f.noteVar(&f.k.Globals, v)
		}
		return v.Name, nil
	case *ast.StarExpr, *ast.SelectorExpr:
		v, kind, ok := f.lvalue(e)
		if ok && kind == "field" {
			f.noteVar(&f.k.Fields, v)
			return v.Name, nil
		}
		return "", f.fail(e, "selector")
	case *ast.UnaryExpr:
		a, err := f.expr(x.X)
		if err != nil {
			return "", err
		}
		switch x.Op {
		case token.SUB:
			return fmt.Sprintf("(-%s)", a), nil
		case token.ADD:
			return a, nil
		case token.XOR:
			return fmt.Sprintf("(~~~%s)", a), nil
		case token.NOT:
			return fmt.Sprintf("(!%s)", a), nil
		}
		return "", f.fail(x, "unary operator")
	case *ast.BinaryExpr:
		a, err := f.expr(x.X)
		if err != nil {
			return "", err
		}
		b, err := f.expr(x.Y)
		if err != nil {
			return "", err
		}
		lt, ok := basicOf(f.p.Info.TypeOf(x.X))
		if !ok {
			return "", f.fail(x.X, "operand type")
		}
		switch x.Op {
		case token.LAND:
			return fmt.Sprintf("(%s && %s)", a, b), nil
		case token.LOR:
			return fmt.Sprintf("(%s || %s)", a, b), nil
		case token.EQL:
			return fmt.Sprintf("(%s == %s)", a, b), nil
		case token.NEQ:
			return fmt.Sprintf("(%s != %s)", a, b), nil
		case token.LSS, token.LEQ, token.GTR, token.GEQ:
			if lt.isBool {
				return "", f.fail(x, "ordering of booleans")
			}
			pre := "u"
			if lt.signed {
				pre = "s"
			}
			switch x.Op {
			case token.LSS:
				return fmt.Sprintf("(BitVec.%slt %s %s)", pre, a, b), nil
			case token.LEQ:
				return fmt.Sprintf("(BitVec.%sle %s %s)", pre, a, b), nil
			case token.GTR:
				return fmt.Sprintf("(BitVec.%slt %s %s)", pre, b, a), nil
			default:
				return fmt.Sprintf("(BitVec.%sle %s %s)", pre, b, a), nil
			}
		}
		rt, ok := basicOf(f.p.Info.TypeOf(e))
		if !ok {
			return "", f.fail(x, "result type")
		}
		return f.binop(x.Op.String(), a, b, rt, f.p.Info.TypeOf(x.Y), x)
	case *ast.CallExpr:
		// conversion?
		if ftv, ok := f.p.Info.Types[x.Fun]; ok && ftv.IsType() && len(x.Args) == 1 {
			to, ok1 := basicOf(ftv.Type)
			from, ok2 := basicOf(f.p.Info.TypeOf(x.Args[0]))
			if !ok1 || !ok2 || to.isBool || from.isBool {
				return "", f.fail(x, "conversion")
			}
			a, err := f.expr(x.Args[0])
			if err != nil {
				return "", err
			}
			switch {
			case to.w == from.w:
				return a, nil
			case to.w < from.w:
				return fmt.Sprintf("(BitVec.setWidth %d %s)", to.w, a), nil
			case from.signed:
				return fmt.Sprintf("(BitVec.signExtend %d %s)", to.w, a), nil
			default:
				return fmt.Sprintf("(BitVec.setWidth %d %s)", to.w, a), nil
			}
		}
		// call of a function / method of the same package that is itself a kernel
		key := ""
		sameRecv := false
		switch fu := x.Fun.(type) {
		case *ast.Ident:
			key = fu.Name
		case *ast.SelectorExpr:
			if id, ok := fu.X.(*ast.Ident); ok && id.Name == f.recv && f.fd.Recv != nil {
				key = strings.Split(f.k.Key, ".")[0] + "." + fu.Sel.Name
				sameRecv = true
			}
		}
		if key != "" && f.p.funcs[key] != nil {
			callee, err := f.p.Translate(key)
			if err == nil && len(callee.WFields)+len(callee.WGlob) == 0 && (sameRecv || len(callee.Fields) == 0) {
				args := []string{}
				ok := true
				ai := 0
				for _, fl := range f.p.funcs[key].Type.Params.List {
					for range fl.Names {
						if _, isInt := basicOf(f.p.Info.TypeOf(fl.Type)); isInt {
							a, err := f.expr(x.Args[ai])
							if err != nil {
								ok = false
							}
							args = append(args, a)
						}
						ai++
					}
				}
				if ok {
					for _, v := range callee.Fields {
						f.noteVar(&f.k.Fields, v)
						args = append(args, v.Name)
					}
					for _, v := range callee.Globals {
						f.noteVar(&f.k.Globals, v)
						args = append(args, v.Name)
					}
					for _, v := range callee.Exts {
						nv := Var{fmt.Sprintf("ext_%d", len(f.k.Exts)), v.Type, v.Go}
						f.k.Exts = append(f.k.Exts, nv)
						args = append(args, nv.Name)
					}
					return "(" + strings.Join(append([]string{callee.Lean}, args...), " ") + ")", nil
				}
			}
		}
		// opaque call: becomes a parameter of the result's type
		if t, ok := basicOf(f.p.Info.TypeOf(e)); ok {
			nv := Var{fmt.Sprintf("ext_%d", len(f.k.Exts)), t.lean(), f.p.src(e)}
			f.k.Exts = append(f.k.Exts, nv)
			return nv.Name, nil
		}
		return "", f.fail(x, "call")
	}
	return "", f.fail(e, "expression")
}

// ---------------------------------------------------------------- emission

func (k *Kernel) allParams() []Var {
	var all []Var
	all = append(all, k.Params...)
	all = append(all, k.Fields...)
	all = append(all, k.Globals...)
	all = append(all, k.Exts...)
	return all
}

func (k *Kernel) retType() string {
	all := append([]string{}, k.Results...)
	for _, v := range k.WFields {
		all = append(all, v.Type)
	}
	for _, v := range k.WGlob {
		all = append(all, v.Type)
	}
	if len(all) == 0 {
		return "Unit"
	}
	return strings.Join(all, " × ")
}

// Emit renders all kernels translated so far (callees first) as Lean definitions.
func (p *Pkg) Emit() string {
	var b strings.Builder
	for _, key := range p.order {
		k := p.done[key]
		if k == nil {
			continue
		}
		fmt.Fprintf(&b, "/-- translated from `%s`\n", k.Key)
		for _, v := range k.allParams() {
			fmt.Fprintf(&b, "  %s : %s  ⟵ `%s`\n", v.Name, v.Type, v.Go)
		}
		var outs []string
		for i := range k.Results {
			outs = append(outs, fmt.Sprintf("result %d", i))
		}
		for _, v := range k.WFields {
			outs = append(outs, "new `"+v.Go+"`")
		}
		for _, v := range k.WGlob {
			outs = append(outs, "new `"+v.Go+"`")
		}
		fmt.Fprintf(&b, "  returns (%s)", strings.Join(outs, ", "))
		if len(k.Locks) > 0 {
			fmt.Fprintf(&b, "; dropped lock statements: %s", strings.Join(k.Locks, ", "))
		}
		b.WriteString(" -/\n")
		fmt.Fprintf(&b, "def %s", k.Lean)
		for _, v := range k.allParams() {
			fmt.Fprintf(&b, " (%s : %s)", v.Name, v.Type)
		}
		fmt.Fprintf(&b, " : %s :=\n%s\n\n", k.retType(), k.Body)
	}
	return b.String()
}

// Kernels returns the translated kernels in emission order.
func (p *Pkg) Kernels() []*Kernel {
	var ks []*Kernel
	for _, key := range p.order {
		ks = append(ks, p.done[key])
	}
	return ks
}

// TranslateAll translates the given keys; failures are returned per key (the caller reports `untranslatable`).
func (p *Pkg) TranslateAll(keys ...string) map[string]error {
	errs := map[string]error{}
	for _, k := range keys {
		if _, err := p.Translate(k); err != nil {
			errs[k] = err
		}
	}
	return errs
}

// ConstValue returns the exact value of a package-level integer constant (for facts).
func (p *Pkg) ConstValue(name string) (string, bool) {
	if p.Types == nil {
		return "", false
	}
	c, ok := p.Types.Scope().Lookup(name).(*types.Const)
	if !ok {
		return "", false
	}
	return constant.ToInt(c.Val()).ExactString(), true
}

// SortedErrs formats translation errors deterministically.
func SortedErrs(m map[string]error) []string {
	var out []string
	for k, e := range m {
		out = append(out, k+": "+e.Error())
	}
	sort.Strings(out)
	return out
}
