// Package quiet keeps neptune's default logger out of the harness output WITHOUT switching its code off: the default
// logger is replaced by one with the same level (debug), the same encoder and the same options, whose sink discards
// the bytes. Every ulog call in the code under test still evaluates its fields and runs the encoder, so a panic or a
// side effect inside a log statement is exhibited exactly as with the stock logger.
package quiet

import (
	"io"

	"github.com/pinealctx/neptune/ulog"
	"go.uber.org/zap"
	"go.uber.org/zap/zapcore"
)

func init() {
	enc := zap.NewProductionEncoderConfig()
	enc.EncodeTime = zapcore.ISO8601TimeEncoder
	sink := zap.WrapCore(func(zapcore.Core) zapcore.Core {
		return zapcore.NewCore(zapcore.NewJSONEncoder(enc), zapcore.AddSync(io.Discard), zapcore.DebugLevel)
	})
	// ulog's own init uses AddCaller + AddCallerSkip(2) and stores the logger directly; SetDefaultLogger adds one skip.
	ulog.SetDefaultLogger(ulog.NewSimpleLogger(ulog.DebugLevelStr, zap.AddCaller(), zap.AddCallerSkip(1), sink))
}
