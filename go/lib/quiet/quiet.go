// Package quiet silences neptune's default logger so that harness output stays canonical.
package quiet

import (
	"github.com/pinealctx/neptune/ulog"
	"go.uber.org/zap/zapcore"
)

func init() { ulog.SetLogLevel(zapcore.FatalLevel) }
