// Package c17syn builds throw-away Go packages out of *fragments* of /repo's source (one
// statement or expression lifted from inside a loop, a type-switch arm, a constructor) so that
// lib/go2lean can translate them as scalar kernels. The fragment text is printed from the AST of the
// current source on every run; only the function header (parameter names and types, themselves read
// from the source's declarations) is added here. A fragment that does not type-check or leaves the
// go2lean subset is reported as an error per kernel — the caller records `kernelTranslated = false`.
// Used by cmd/c04 (per-shard capacity) and cmd/c17 (remap boundaries, search clamp, SimpleIndex arms).
package c17syn

import (
	"bytes"
	"fmt"
	"go/ast"
	"go/printer"
	"go/token"
	"os"
	"path/filepath"
	"strings"

	"nvharness/lib/go2lean"
)

// Func is one synthesized kernel: `func <Name>(<Params>) <Result> { <Body> }`.
type Func struct {
	Name   string
	Params string // e.g. "capacity int64, numbs uint64"
	Result string // e.g. "int64"
	Body   string // statements, printed from the repo's AST
}

// Print renders an AST node with go/printer.
func Print(fset *token.FileSet, n ast.Node) string {
	var b bytes.Buffer
	_ = printer.Fprint(&b, fset, n)
	return b.String()
}

// Translate writes the functions into a scratch package, runs go2lean over them and returns the Lean text
// of the kernels that translated, plus the errors of those that did not.
func Translate(imports []string, funcs []Func, prelude ...string) (lean string, errs map[string]error) {
	errs = map[string]error{}
	dir, err := os.MkdirTemp("", "nv-c17syn-")
	if err != nil {
		for _, f := range funcs {
			errs[f.Name] = err
		}
		return "", errs
	}
	defer os.RemoveAll(dir)
	var src strings.Builder
	src.WriteString("package synk\n\n")
	for _, im := range imports {
		fmt.Fprintf(&src, "import %q\n", im)
	}
	for _, pl := range prelude {
		src.WriteString("\n" + pl + "\n")
	}
	for _, f := range funcs {
		fmt.Fprintf(&src, "\nfunc %s(%s) %s {\n%s\n}\n", f.Name, f.Params, f.Result, f.Body)
	}
	if err := os.MkdirAll(filepath.Join(dir, "synk"), 0o755); err != nil {
		for _, f := range funcs {
			errs[f.Name] = err
		}
		return "", errs
	}
	if err := os.WriteFile(filepath.Join(dir, "synk", "k.go"), []byte(src.String()), 0o644); err != nil {
		for _, f := range funcs {
			errs[f.Name] = err
		}
		return "", errs
	}
	p, err := go2lean.LoadPkg(dir, "synk")
	if err != nil {
		for _, f := range funcs {
			errs[f.Name] = fmt.Errorf("synthesized package does not parse: %v", err)
		}
		return "", errs
	}
	for _, f := range funcs {
		if _, err := p.Translate(f.Name); err != nil {
			errs[f.Name] = err
		}
	}
	return p.Emit(), errs
}
