// Package c12facts extracts the facts of properties C12/C13 from the six queue implementations
// (syncx/pipe/q, async, mux, mq; queue/syncq; queue/priq).
//
// Two kinds of facts, both regenerated on every run:
//
//  1. Whole-body shape facts. Every method of the queue types is compared, in gofacts' canonical form (locals,
//     parameters and the receiver renamed in order of appearance, `var x = e` ≡ `x := e`) and with the mutex
//     Lock/Unlock statements removed (so `defer Unlock` and explicit `Unlock` spellings are the same text), against
//     the canonical forms of an enumerated family of accepted shapes written below as Go source. The member that
//     matches gives the behaviour-selecting values (order of the closed/bound tests, wake primitive, …); a body that
//     matches no member makes the type `Known = false` and never changes a behaviour value.
//
//  2. Structural facts read from the AST, independent of (1): mutex coverage of every method that touches a guarded
//     field (Lock first; Unlock deferred, or explicit before every return, and no guarded field touched after it),
//     `Wait` only inside a `for` whose condition re-tests emptiness, which list end each method pushes to / takes from,
//     and the method sets of the queue types over ALL files of their packages.
package c12facts

import (
	"fmt"
	"go/ast"
	"go/parser"
	"go/token"
	"os"
	"path/filepath"
	"regexp"
	"sort"
	"strings"

	"nvharness/lib/gofacts"
)

// ---------------------------------------------------------------- canonical bodies

var unlockRe = regexp.MustCompile(`(defer )?\w+ \. (lock|mu) \. (Lock|Unlock) \( \) ;? ?`)

// canonBody: canonical text of a method's body (receiver and parameters renamed too), Lock/Unlock statements removed.
func canonBody(f *gofacts.File, fd *ast.FuncDecl) string {
	if fd == nil || fd.Body == nil {
		return ""
	}
	full := strings.Fields(f.Canon(fd))
	n := len(strings.Fields(f.Canon(fd.Body)))
	if n > len(full) {
		return ""
	}
	// the names inside the body must be the ones assigned while scanning the whole declaration
	body := strings.Join(full[len(full)-n:], " ")
	return strings.TrimSpace(unlockRe.ReplaceAllString(body, ""))
}

func canonOf(src string) string {
	fset := token.NewFileSet()
	af, err := parser.ParseFile(fset, "x.go", "package p\n"+src, parser.SkipObjectResolution)
	if err != nil || len(af.Decls) == 0 {
		panic("c12facts: bad template: " + err.Error() + "\n" + src)
	}
	f := &gofacts.File{Fset: fset, AST: af}
	fd, _ := af.Decls[len(af.Decls)-1].(*ast.FuncDecl)
	return canonBody(f, fd)
}

type variant struct {
	src  string
	vals map[string]string
}

// match returns the values of the first template whose canonical body equals the method's.
func match(f *gofacts.File, recv, name string, vs []variant) (map[string]string, bool) {
	got := canonBody(f, f.Func(recv, name))
	if got == "" {
		return nil, false
	}
	for _, v := range vs {
		if canonOf(v.src) == got {
			return v.vals, true
		}
	}
	return nil, false
}

func wakeStmt(w string) string {
	switch w {
	case "broadcast":
		return "a.cond.Broadcast()\n"
	case "signal":
		return "a.cond.Signal()\n"
	}
	return ""
}

var wakes = []string{"broadcast", "signal", "none"}

// ---------------------------------------------------------------- list queues

// ListQ describes one of the list-based pipe queues (q, async, mux, mq).
type ListQ struct {
	Name string
	File string
	// behaviour-selecting shape (C12)
	AddClosedFirst  bool
	PriorBounded    bool
	PopChecksClosed bool
	CtrlFirst       bool
	Known           bool
	Why             []string // what was not recognised
	// plain shape facts (C12)
	AddPushesBack, PriorPushesFront, PopTakesFront, AnywayNoClosedTest, CloseIdempotent, BoundOnlyIfPositive bool
	TryCloseShape, TryClearShape                                                                             bool // mq only (true for the others)
	AnywayShape                                                                                              bool // the *Anyway adds are retry loops around the classified add
	AccessorShape                                                                                            bool // IsClosed / IsCleared / Size / WaitClose / WaitClear
	ClosesStopChan                                                                                           bool // Close / TryClose close stopChan, TryClear closes clearChan (types that have them)
	MethodSet                                                                                                bool // the type's methods, over all files of its package, are exactly the modelled ones
	// wake primitives (C13): "broadcast" | "signal" | "none" | "unknown"
	AddWake, PriorWake, CloseWake, TryCloseWake string
	// structural (AST) facts
	LockCovered bool
	WaitLoop    bool
	// no method locks twice (critical sections are not split); sibling files never touch the queue's fields
	SectionsAtomic, FieldsPrivate bool
}

type kindInfo struct {
	file, recv, add, prior, addCtrl, priorCtrl, anyway, ctrlAnyway string
	size, errFull, ctrlSize, errCtrlFull                           string
	stopChan, clearChan                                            bool
	methods                                                        []string
}

var kindsInfo = map[string]kindInfo{
	"q": {file: "syncx/pipe/q/q.go", recv: "Q", add: "AddReq", prior: "AddPriorReq", anyway: "AddReqAnyway", size: "reqMaxNum", errFull: "ErrReqQFull",
		methods: []string{"AddPriorReq", "AddReq", "AddReqAnyway", "Close", "Pop", "PopAnyway", "pop"}},
	"async": {file: "syncx/pipe/async/q.go", recv: "Q", add: "Add", prior: "AddPrior", anyway: "AddAnyway", size: "size", errFull: "ErrFull",
		methods: []string{"Add", "AddAnyway", "AddPrior", "Close", "IsClosed", "Pop", "PopAnyway", "Size", "pop"}},
	"mux": {file: "syncx/pipe/mux/q.go", recv: "Q", add: "AddReq", prior: "AddPriorReq", anyway: "AddReqAnyway", size: "reqMaxNum", errFull: "ErrQFull", stopChan: true,
		methods: []string{"AddPriorReq", "AddReq", "AddReqAnyway", "Close", "IsClosed", "Pop", "PopAnyway", "WaitClose"}},
	"mq": {file: "syncx/pipe/mq/mq.go", recv: "MQ", add: "AddReq", prior: "AddPriorReq", addCtrl: "AddCtrl", priorCtrl: "AddPriorCtrl", anyway: "AddReqAnyway",
		ctrlAnyway: "AddCtrlAnyway", size: "reqMaxNum", errFull: "ErrReqQFull", ctrlSize: "ctrlMaxNum", errCtrlFull: "ErrCtrlQFull", stopChan: true, clearChan: true,
		methods: []string{"AddCtrl", "AddCtrlAnyway", "AddPriorCtrl", "AddPriorReq", "AddReq", "AddReqAnyway", "Close", "IsCleared", "IsClosed", "Pop", "PopAnyway",
			"TryClear", "TryClose", "WaitClear", "WaitClose"}},
}

const closedChk = "if a.closed {\nreturn ErrClosed\n}\n"

func boundChk(list, size, errFull string, merged bool) string {
	if merged {
		return fmt.Sprintf("if a.%s > 0 && a.%s.Len() >= a.%s {\nreturn %s\n}\n", size, list, size, errFull)
	}
	return fmt.Sprintf("if a.%s > 0 {\nif a.%s.Len() >= a.%s {\nreturn %s\n}\n}\n", size, list, size, errFull)
}

// addVariants: closed test / bound test in either order or no bound test, nested or merged bound, any wake primitive.
func addVariants(list, push, size, errFull string) []variant {
	var vs []variant
	for _, w := range wakes {
		tail := fmt.Sprintf("a.%s.%s(req)\n%sreturn nil\n}", list, push, wakeStmt(w))
		head := "func (a *T) M(req interface{}) error {\na.lock.Lock()\ndefer a.lock.Unlock()\n"
		for _, merged := range []bool{false, true} {
			b := boundChk(list, size, errFull, merged)
			vs = append(vs, variant{head + closedChk + b + tail, map[string]string{"closedFirst": "true", "bounded": "true", "wake": w}})
			vs = append(vs, variant{head + b + closedChk + tail, map[string]string{"closedFirst": "false", "bounded": "true", "wake": w}})
		}
		vs = append(vs, variant{head + closedChk + tail, map[string]string{"closedFirst": "true", "bounded": "false", "wake": w}})
	}
	return vs
}

const popChk = "if a.closed {\nreturn nil, ErrClosed\n}\n"

func takeSrc(first bool, list string) string {
	v := "front = "
	if first {
		v = "var front = "
	}
	return fmt.Sprintf("%sa.%s.Front()\nif front != nil {\na.%s.Remove(front)\nreturn front.Value, nil\n}\n", v, list, list)
}

// popVariants: the wait loop, then the closed test (always / `if checkClose` / never), then the take order.
func popVariants(mq bool, withParam bool) []variant {
	empty := "a.reqList.Len() == 0"
	if mq {
		empty = "a.ctrlList.Len() == 0 && a.reqList.Len() == 0"
	}
	head := "func (a *T) M() (interface{}, error) {\n"
	if withParam {
		head = "func (a *T) M(checkClose bool) (interface{}, error) {\n"
	}
	head += "a.lock.Lock()\ndefer a.lock.Unlock()\nfor " + empty + " {\n" + popChk + "a.cond.Wait()\n}\n"
	takes := map[string]string{"true": takeSrc(true, "reqList")}
	if mq {
		takes = map[string]string{"true": takeSrc(true, "ctrlList") + takeSrc(false, "reqList"), "false": takeSrc(true, "reqList") + takeSrc(false, "ctrlList")}
	}
	chks := map[string]string{"always": popChk, "never": ""}
	if withParam {
		chks["ifCheckClose"] = "if checkClose {\n" + popChk + "}\n"
	}
	var vs []variant
	for cf, t := range takes {
		for c, chk := range chks {
			vs = append(vs, variant{head + chk + t + "return nil, ErrSync\n}", map[string]string{"chk": c, "ctrlFirst": cf}})
		}
	}
	return vs
}

func closeVariants(stopChan bool) []variant {
	var vs []variant
	for _, w := range wakes {
		for _, sc := range []bool{true, false} {
			s := "func (a *T) Close() {\na.lock.Lock()\ndefer a.lock.Unlock()\nif a.closed {\nreturn\n}\n"
			if sc {
				if !stopChan {
					continue
				}
				s += "close(a.stopChan)\n"
			}
			s += "a.closed = true\n" + wakeStmt(w) + "}"
			vs = append(vs, variant{s, map[string]string{"wake": w, "stopChan": fmt.Sprint(sc || !stopChan)}})
		}
	}
	return vs
}

func tryCloseVariants() []variant {
	var vs []variant
	for _, w := range wakes {
		for _, sc := range []bool{true, false} {
			for _, ret := range []string{"a.closed", "true"} {
				s := "func (a *T) TryClose() bool {\na.lock.Lock()\ndefer a.lock.Unlock()\nif a.closed {\nreturn " + ret + "\n}\nif a.ctrlList.Len() == 0 && a.reqList.Len() == 0 {\n"
				if sc {
					s += "close(a.stopChan)\n"
				}
				s += "a.closed = true\n" + wakeStmt(w) + "}\nreturn a.closed\n}"
				vs = append(vs, variant{s, map[string]string{"wake": w, "stopChan": fmt.Sprint(sc)}})
			}
		}
	}
	return vs
}

func anywaySrc(add, errFull string) string {
	return fmt.Sprintf("func (a *T) M(req interface{}, ts time.Duration) error {\nvar err error\nfor {\nerr = a.%s(req)\nif err == %s {\ntime.Sleep(ts)\n} else {\nreturn err\n}\n}\n}", add, errFull)
}

func waitSrc(ch string) string {
	return fmt.Sprintf("func (a *T) M(ctx context.Context) error {\nselect {\ncase <-ctx.Done():\nreturn ctx.Err()\ncase <-a.%s:\nreturn nil\n}\n}", ch)
}

func getterSrc(field string) string {
	return fmt.Sprintf("func (a *T) M() bool {\na.lock.Lock()\ndefer a.lock.Unlock()\nreturn a.%s\n}", field)
}

func one(src string) []variant { return []variant{{src, map[string]string{}}} }

// LoadListQ classifies one list queue. kind: "q", "async", "mux", "mq".
func LoadListQ(repo, kind string) ListQ {
	ki := kindsInfo[kind]
	q := ListQ{Name: kind, File: ki.file, Known: true, CtrlFirst: true, AddClosedFirst: true, PopChecksClosed: true,
		TryCloseShape: true, TryClearShape: true, AnywayShape: true, AccessorShape: true, ClosesStopChan: true,
		TryCloseWake: "none", AddWake: "unknown", PriorWake: "unknown", CloseWake: "unknown"}
	f, err := gofacts.Load(repo, ki.file)
	if err != nil {
		q.Known = false
		q.Why = append(q.Why, "parse:"+err.Error())
		return q
	}
	unk := func(what string) { q.Known = false; q.Why = append(q.Why, what) }
	isMQ := kind == "mq"

	// ordinary add / prior add (request list)
	if v, ok := match(f, ki.recv, ki.add, addVariants("reqList", "PushBack", ki.size, ki.errFull)); ok && v["bounded"] == "true" {
		q.AddClosedFirst, q.AddWake = v["closedFirst"] == "true", v["wake"]
		if v["wake"] == "none" {
			q.AddWake = "none"
		}
	} else {
		unk(ki.add)
	}
	if v, ok := match(f, ki.recv, ki.prior, addVariants("reqList", "PushFront", ki.size, ki.errFull)); ok {
		q.PriorBounded, q.PriorWake = v["bounded"] == "true", v["wake"]
	} else {
		unk(ki.prior)
	}
	if isMQ {
		if v, ok := match(f, ki.recv, ki.addCtrl, addVariants("ctrlList", "PushBack", ki.ctrlSize, ki.errCtrlFull)); ok && v["bounded"] == "true" &&
			(v["closedFirst"] == "true") == q.AddClosedFirst {
			q.AddWake = mixWake(q.AddWake, v["wake"])
		} else {
			unk(ki.addCtrl)
		}
		if v, ok := match(f, ki.recv, ki.priorCtrl, addVariants("ctrlList", "PushFront", ki.ctrlSize, ki.errCtrlFull)); ok && (v["bounded"] == "true") == q.PriorBounded {
			q.PriorWake = mixWake(q.PriorWake, v["wake"])
		} else {
			unk(ki.priorCtrl)
		}
	}
	// Pop / PopAnyway (direct bodies, or both delegating to pop(checkClose))
	popChkV, anyChkV, cf := "", "", "true"
	okPop := false
	vp, ok1 := match(f, ki.recv, "Pop", one("func (a *T) Pop() (interface{}, error) {\nreturn a.pop(true)\n}"))
	va, ok2 := match(f, ki.recv, "PopAnyway", one("func (a *T) PopAnyway() (interface{}, error) {\nreturn a.pop(false)\n}"))
	_, _ = vp, va
	if ok1 && ok2 {
		if v, ok := match(f, ki.recv, "pop", popVariants(isMQ, true)); ok {
			okPop, cf = true, v["ctrlFirst"]
			switch v["chk"] {
			case "ifCheckClose":
				popChkV, anyChkV = "always", "never"
			default:
				popChkV, anyChkV = v["chk"], v["chk"]
			}
		}
	} else {
		v1, o1 := match(f, ki.recv, "Pop", popVariants(isMQ, false))
		v2, o2 := match(f, ki.recv, "PopAnyway", popVariants(isMQ, false))
		if o1 && o2 && v1["ctrlFirst"] == v2["ctrlFirst"] {
			okPop, cf, popChkV, anyChkV = true, v1["ctrlFirst"], v1["chk"], v2["chk"]
		}
	}
	if okPop {
		q.PopChecksClosed, q.CtrlFirst = popChkV == "always", cf == "true"
		q.AnywayNoClosedTest = anyChkV == "never"
		if anyChkV != "never" {
			unk("PopAnyway")
		}
	} else {
		unk("Pop")
	}
	// Close
	if v, ok := match(f, ki.recv, "Close", closeVariants(ki.stopChan)); ok {
		q.CloseWake, q.CloseIdempotent = v["wake"], true
		if v["stopChan"] != "true" {
			q.ClosesStopChan = false
		}
	} else {
		unk("Close")
	}
	if isMQ {
		if v, ok := match(f, ki.recv, "TryClose", tryCloseVariants()); ok {
			q.TryCloseWake = v["wake"]
			if v["stopChan"] != "true" {
				q.ClosesStopChan = false
			}
		} else {
			q.TryCloseShape, q.TryCloseWake = false, "unknown"
			unk("TryClose")
		}
		tcl := "func (a *T) TryClear() bool {\na.lock.Lock()\ndefer a.lock.Unlock()\nif a.cleared {\nreturn a.cleared\n}\nif a.closed {\nif a.ctrlList.Len() == 0 && a.reqList.Len() == 0 {\nclose(a.clearChan)\na.cleared = true\n}\n}\nreturn a.cleared\n}"
		if _, ok := match(f, ki.recv, "TryClear", one(tcl)); !ok {
			q.TryClearShape = false
			unk("TryClear")
		}
	}
	// *Anyway adds: retry loops around the classified adds
	if _, ok := match(f, ki.recv, ki.anyway, one(anywaySrc(ki.add, ki.errFull))); !ok {
		q.AnywayShape = false
		unk(ki.anyway)
	}
	if isMQ {
		if _, ok := match(f, ki.recv, ki.ctrlAnyway, one(anywaySrc(ki.addCtrl, ki.errCtrlFull))); !ok {
			q.AnywayShape = false
			unk(ki.ctrlAnyway)
		}
	}
	// accessors
	acc := map[string]string{}
	switch kind {
	case "async":
		acc["IsClosed"] = getterSrc("closed")
		acc["Size"] = "func (a *T) Size() int {\nreturn a.size\n}"
	case "mux":
		acc["IsClosed"], acc["WaitClose"] = getterSrc("closed"), waitSrc("stopChan")
	case "mq":
		acc["IsClosed"], acc["IsCleared"] = getterSrc("closed"), getterSrc("cleared")
		acc["WaitClose"], acc["WaitClear"] = waitSrc("stopChan"), waitSrc("clearChan")
	}
	for name, src := range acc {
		if _, ok := match(f, ki.recv, name, one(src)); !ok {
			q.AccessorShape = false
			unk(name)
		}
	}
	// structural facts from the AST
	guarded := []string{"reqList", "ctrlList", "closed", "cleared"}
	q.LockCovered = lockCoveredAll(f, ki.recv, "lock", guarded)
	q.SectionsAtomic = sectionsAtomic(f, ki.recv, "lock")
	q.FieldsPrivate = fieldsPrivate(repo, filepath.Dir(ki.file), filepath.Base(ki.file), ki.recv,
		[]string{"reqList", "ctrlList", "closed", "cleared", "lock", "cond", "stopChan", "clearChan"})
	if !q.SectionsAtomic {
		q.Why = append(q.Why, "critical-section-split")
	}
	if !q.FieldsPrivate {
		q.Why = append(q.Why, "fields-used-outside-"+filepath.Base(ki.file))
	}
	q.WaitLoop = waitLoops(f, ki.recv, "Len")
	q.AddPushesBack = callsOnly(f, ki.recv, []string{ki.add, ki.addCtrl}, "PushBack", "PushFront")
	q.PriorPushesFront = callsOnly(f, ki.recv, []string{ki.prior, ki.priorCtrl}, "PushFront", "PushBack")
	takers := []string{"Pop", "PopAnyway"}
	if f.Func(ki.recv, "pop") != nil {
		takers = []string{"pop"}
	}
	q.PopTakesFront = callsOnly(f, ki.recv, takers, "Front", "Back")
	q.BoundOnlyIfPositive = boundGuarded(f, ki.recv, []string{ki.add, ki.addCtrl})
	q.MethodSet = methodSetIs(repo, filepath.Dir(ki.file), ki.recv, ki.methods)
	if !q.LockCovered {
		q.Why = append(q.Why, "lock-coverage")
	}
	if !q.MethodSet {
		q.Why = append(q.Why, "method-set")
	}
	return q
}

func mixWake(a, b string) string {
	if a == b {
		return a
	}
	if a == "unknown" || b == "unknown" {
		return "unknown"
	}
	if a == "none" || b == "none" {
		return "none"
	}
	return "signal"
}

// ---------------------------------------------------------------- structural facts (AST)

func selName(e ast.Expr) (string, bool) { // x.f -> "f"
	if s, ok := e.(*ast.SelectorExpr); ok {
		return s.Sel.Name, true
	}
	return "", false
}

// isMutexCall: `<x>.<mu>.<op>()`
func isMutexCall(st ast.Stmt, mu, op string) bool {
	es, ok := st.(*ast.ExprStmt)
	if !ok {
		return false
	}
	return isMutexCallExpr(es.X, mu, op)
}

func isMutexCallExpr(e ast.Expr, mu, op string) bool {
	c, ok := e.(*ast.CallExpr)
	if !ok || len(c.Args) != 0 {
		return false
	}
	s, ok := c.Fun.(*ast.SelectorExpr)
	if !ok || s.Sel.Name != op {
		return false
	}
	n, ok := selName(s.X)
	return ok && n == mu
}

func mentions(n ast.Node, fields []string) bool {
	found := false
	ast.Inspect(n, func(x ast.Node) bool {
		if s, ok := x.(*ast.SelectorExpr); ok {
			for _, f := range fields {
				if s.Sel.Name == f {
					found = true
				}
			}
		}
		return !found
	})
	return found
}

// walk checks a statement list starting in state `locked`: no return while locked, no guarded field touched while
// unlocked. It returns the lock state at the end and whether the list is fine. Aliases of guarded (pointer) fields
// taken before the lock (`buffer := q.buffer`) are treated as guarded names.
func walk(stmts []ast.Stmt, locked bool, mu string, guarded []string, aliases map[string]bool) (bool, bool) {
	touches := func(n ast.Node) bool {
		if mentions(n, guarded) {
			return true
		}
		hit := false
		ast.Inspect(n, func(x ast.Node) bool {
			if id, ok := x.(*ast.Ident); ok && aliases[id.Name] {
				hit = true
			}
			return !hit
		})
		return hit
	}
	for _, st := range stmts {
		switch s := st.(type) {
		case *ast.ExprStmt:
			if isMutexCall(s, mu, "Lock") {
				if locked {
					return locked, false
				}
				locked = true
				continue
			}
			if isMutexCall(s, mu, "Unlock") {
				if !locked {
					return locked, false
				}
				locked = false
				continue
			}
			if !locked && touches(s) {
				return locked, false
			}
		case *ast.ReturnStmt:
			if locked {
				return locked, false
			}
			if touches(s) {
				return locked, false
			}
		case *ast.IfStmt:
			if !locked && (touches(s.Cond) || (s.Init != nil && touches(s.Init))) {
				return locked, false
			}
			l1, ok := walk(s.Body.List, locked, mu, guarded, aliases)
			if !ok {
				return locked, false
			}
			l2 := locked
			if s.Else != nil {
				var els []ast.Stmt
				switch e := s.Else.(type) {
				case *ast.BlockStmt:
					els = e.List
				default:
					els = []ast.Stmt{e}
				}
				l2, ok = walk(els, locked, mu, guarded, aliases)
				if !ok {
					return locked, false
				}
			}
			// a branch that ends in return does not continue; otherwise both branches must agree
			if !endsInReturn(s.Body.List) && l1 != locked {
				return locked, false
			}
			if s.Else != nil && l2 != locked {
				if b, ok := s.Else.(*ast.BlockStmt); !ok || !endsInReturn(b.List) {
					return locked, false
				}
			}
		case *ast.ForStmt:
			if !locked && s.Cond != nil && touches(s.Cond) {
				return locked, false
			}
			l1, ok := walk(s.Body.List, locked, mu, guarded, aliases)
			if !ok || l1 != locked {
				return locked, false
			}
		case *ast.BlockStmt:
			var ok bool
			locked, ok = walk(s.List, locked, mu, guarded, aliases)
			if !ok {
				return locked, false
			}
		default:
			if !locked && touches(st) {
				return locked, false
			}
		}
	}
	return locked, true
}

func endsInReturn(l []ast.Stmt) bool {
	if len(l) == 0 {
		return false
	}
	_, ok := l[len(l)-1].(*ast.ReturnStmt)
	return ok
}

// lockCovered: "n/a" (touches no guarded field), "defer", "explicit" or "none".
func lockCovered(fd *ast.FuncDecl, mu string, guarded []string) string {
	if fd == nil || fd.Body == nil {
		return "none"
	}
	stmts := fd.Body.List
	aliases := map[string]bool{}
	i := 0
	// leading `x := recv.field` copies of (immutable) pointer fields
	for ; i < len(stmts); i++ {
		as, ok := stmts[i].(*ast.AssignStmt)
		if !ok || as.Tok != token.DEFINE || len(as.Lhs) != 1 || len(as.Rhs) != 1 {
			break
		}
		if _, ok := as.Rhs[0].(*ast.SelectorExpr); !ok {
			break
		}
		if id, ok := as.Lhs[0].(*ast.Ident); ok && mentions(as.Rhs[0], guarded) {
			aliases[id.Name] = true
		}
	}
	rest := stmts[i:]
	if !mentions(fd.Body, guarded) {
		return "n/a"
	}
	if len(rest) == 0 || !isMutexCall(rest[0], mu, "Lock") {
		return "none"
	}
	if len(rest) > 1 {
		if d, ok := rest[1].(*ast.DeferStmt); ok && isMutexCallExpr(d.Call, mu, "Unlock") {
			// deferred unlock: nothing else may touch the mutex
			bad := false
			for _, st := range rest[2:] {
				ast.Inspect(st, func(x ast.Node) bool {
					if c, ok := x.(*ast.CallExpr); ok && (isMutexCallExpr(c, mu, "Lock") || isMutexCallExpr(c, mu, "Unlock")) {
						bad = true
					}
					return !bad
				})
			}
			if bad {
				return "none"
			}
			return "defer"
		}
	}
	locked, ok := walk(rest, false, mu, guarded, aliases)
	if !ok || locked {
		return "none"
	}
	return "explicit"
}

func methodsOf(f *gofacts.File, recv string) []*ast.FuncDecl {
	var out []*ast.FuncDecl
	for _, d := range f.AST.Decls {
		if fd, ok := d.(*ast.FuncDecl); ok && fd.Recv != nil && f.Func(recv, fd.Name.Name) == fd {
			out = append(out, fd)
		}
	}
	return out
}

// sectionsAtomic: no method of recv takes its mutex more than once — a critical section is never cut in two by an
// `Unlock(); Lock()` pair (only `cond.Wait()` may release the lock inside a method). Together with `lockCovered` this is
// what makes every method one atomic step of the Lean transition system.
func sectionsAtomic(f *gofacts.File, recv, mu string) bool {
	for _, fd := range methodsOf(f, recv) {
		locks := 0
		ast.Inspect(fd.Body, func(x ast.Node) bool {
			if c, ok := x.(*ast.CallExpr); ok && isMutexCallExpr(c, mu, "Lock") {
				locks++
			}
			return true
		})
		if locks > 1 {
			return false
		}
	}
	return true
}

// fieldsPrivate: in the files of package dir other than the anchored one, no selector `<x>.<field>` where <x> is a
// variable, parameter or struct field declared with the queue type (by name) and <field> is one of the queue's mutable
// or synchronisation fields — sibling code uses the queue only through its methods.
func fieldsPrivate(repo, dir, anchored, typ string, fields []string) bool {
	ents, err := os.ReadDir(filepath.Join(repo, dir))
	if err != nil {
		return false
	}
	isQ := func(e ast.Expr) bool {
		for {
			switch t := e.(type) {
			case *ast.StarExpr:
				e = t.X
				continue
			case *ast.Ident:
				return t.Name == typ
			}
			return false
		}
	}
	for _, e := range ents {
		if e.IsDir() || !strings.HasSuffix(e.Name(), ".go") || strings.HasSuffix(e.Name(), "_test.go") || e.Name() == anchored {
			continue
		}
		f, err := gofacts.Load(repo, filepath.Join(dir, e.Name()))
		if err != nil {
			return false
		}
		names := map[string]bool{}
		ast.Inspect(f.AST, func(x ast.Node) bool {
			switch n := x.(type) {
			case *ast.Field:
				if isQ(n.Type) {
					for _, id := range n.Names {
						names[id.Name] = true
					}
				}
			case *ast.ValueSpec:
				if n.Type != nil && isQ(n.Type) {
					for _, id := range n.Names {
						names[id.Name] = true
					}
				}
			case *ast.AssignStmt:
				// x := NewQ(...) / &Q{...}
				if n.Tok == token.DEFINE && len(n.Lhs) == 1 && len(n.Rhs) == 1 {
					src := f.Src(n.Rhs[0])
					if id, ok := n.Lhs[0].(*ast.Ident); ok && (strings.HasPrefix(src, "New"+typ+"(") || strings.HasPrefix(src, "&"+typ+"{")) {
						names[id.Name] = true
					}
				}
			}
			return true
		})
		// aliases: `var q = c.q`, `q := c.q`, `q := other` where the right-hand side is already known to be a queue
		isKnown := func(e ast.Expr) bool {
			switch b := e.(type) {
			case *ast.Ident:
				return names[b.Name]
			case *ast.SelectorExpr:
				return names[b.Sel.Name]
			}
			return false
		}
		for changed := true; changed; {
			changed = false
			ast.Inspect(f.AST, func(x ast.Node) bool {
				switch n := x.(type) {
				case *ast.ValueSpec:
					for i, id := range n.Names {
						if i < len(n.Values) && isKnown(n.Values[i]) && !names[id.Name] {
							names[id.Name], changed = true, true
						}
					}
				case *ast.AssignStmt:
					for i, l := range n.Lhs {
						if id, ok := l.(*ast.Ident); ok && i < len(n.Rhs) && isKnown(n.Rhs[i]) && !names[id.Name] {
							names[id.Name], changed = true, true
						}
					}
				}
				return true
			})
		}
		bad := false
		ast.Inspect(f.AST, func(x ast.Node) bool {
			s, ok := x.(*ast.SelectorExpr)
			if !ok {
				return true
			}
			isField := false
			for _, fl := range fields {
				if s.Sel.Name == fl {
					isField = true
				}
			}
			if !isField {
				return true
			}
			switch b := s.X.(type) {
			case *ast.Ident:
				if names[b.Name] {
					bad = true
				}
			case *ast.SelectorExpr:
				if names[b.Sel.Name] {
					bad = true
				}
			}
			return !bad
		})
		if bad {
			return false
		}
	}
	return true
}

func lockCoveredAll(f *gofacts.File, recv, mu string, guarded []string) bool {
	ms := methodsOf(f, recv)
	if len(ms) == 0 {
		return false
	}
	for _, fd := range ms {
		if lockCovered(fd, mu, guarded) == "none" {
			return false
		}
	}
	return true
}

// waitLoops: there is a `.Wait()` call in a method of recv, and every one is directly inside a `for` whose condition
// is present and re-tests emptiness (a call of lenName() compared with 0).
func waitLoops(f *gofacts.File, recv, lenName string) bool {
	n, good := 0, 0
	for _, fd := range methodsOf(f, recv) {
		var stack []ast.Node
		ast.Inspect(fd.Body, func(x ast.Node) bool {
			if x == nil {
				stack = stack[:len(stack)-1]
				return true
			}
			stack = append(stack, x)
			c, ok := x.(*ast.CallExpr)
			if !ok {
				return true
			}
			s, ok := c.Fun.(*ast.SelectorExpr)
			if !ok || s.Sel.Name != "Wait" || len(c.Args) != 0 {
				return true
			}
			n++
			for i := len(stack) - 2; i >= 0; i-- {
				if _, isIf := stack[i].(*ast.IfStmt); isIf {
					break // a Wait under an `if` inside the loop is not re-tested unconditionally
				}
				if fs, ok := stack[i].(*ast.ForStmt); ok {
					if fs.Cond != nil && strings.Contains(f.Src(fs.Cond), lenName+"() == 0") {
						good++
					}
					break
				}
			}
			return true
		})
	}
	return n > 0 && n == good
}

// callsOnly: each named method calls .want( at least once and never .never(.
func callsOnly(f *gofacts.File, recv string, names []string, want, never string) bool {
	for _, name := range names {
		if name == "" {
			continue
		}
		fd := f.Func(recv, name)
		if fd == nil || fd.Body == nil {
			return false
		}
		w, nv := false, false
		ast.Inspect(fd.Body, func(x ast.Node) bool {
			if c, ok := x.(*ast.CallExpr); ok {
				if s, ok := c.Fun.(*ast.SelectorExpr); ok {
					if s.Sel.Name == want {
						w = true
					}
					if s.Sel.Name == never {
						nv = true
					}
				}
			}
			return true
		})
		if !w || nv {
			return false
		}
	}
	return true
}

// boundGuarded: every comparison `….Len() >= a.X` in the adds is under a test `a.X > 0` (nested if or `&&`).
func boundGuarded(f *gofacts.File, recv string, names []string) bool {
	re := regexp.MustCompile(`(\w+)\.(\w+) > 0 (?:\{ if|&&) (\w+)\.(\w+)\.Len\(\) >= (\w+)\.(\w+) `)
	for _, name := range names {
		if name == "" {
			continue
		}
		body := f.Body(recv, name)
		if strings.Count(body, ".Len() >=") != 1 {
			return false
		}
		m := re.FindStringSubmatch(body)
		if m == nil || m[2] != m[6] || m[1] != m[5] {
			return false
		}
	}
	return true
}

// methodSetIs: the methods declared on type recv in ALL non-test files of the package directory are exactly want.
func methodSetIs(repo, dir, recv string, want []string) bool {
	ents, err := os.ReadDir(filepath.Join(repo, dir))
	if err != nil {
		return false
	}
	var got []string
	for _, e := range ents {
		if e.IsDir() || !strings.HasSuffix(e.Name(), ".go") || strings.HasSuffix(e.Name(), "_test.go") {
			continue
		}
		f, err := gofacts.Load(repo, filepath.Join(dir, e.Name()))
		if err != nil {
			return false
		}
		for _, fd := range methodsOf(f, recv) {
			got = append(got, fd.Name.Name)
		}
	}
	sort.Strings(got)
	w := append([]string{}, want...)
	sort.Strings(w)
	return strings.Join(got, ",") == strings.Join(w, ",")
}

// ---------------------------------------------------------------- SyncQueue

// SyncQ describes queue/syncq.SyncQueue.
type SyncQ struct {
	PushGuardsClosed, TryPopItemsFirst, Known, Fifo, LockCovered, WaitLoop, MethodSet, SectionsAtomic, FieldsPrivate bool
	PushWake, CloseWake                                                                                              string
	Why                                                                                                              []string
}

func LoadSyncQ(repo string) SyncQ {
	s := SyncQ{Known: true, PushGuardsClosed: true, TryPopItemsFirst: true, PushWake: "unknown", CloseWake: "unknown"}
	f, err := gofacts.Load(repo, "queue/syncq/syncqueue.go")
	if err != nil {
		s.Known = false
		s.Why = append(s.Why, "parse")
		return s
	}
	unk := func(w string) { s.Known = false; s.Why = append(s.Why, w) }
	wk := func(w string) string {
		switch w {
		case "broadcast":
			return "q.popable.Broadcast()\n"
		case "signal":
			return "q.popable.Signal()\n"
		}
		return ""
	}
	var pushVs, closeVs []variant
	for _, w := range wakes {
		pushVs = append(pushVs,
			variant{"func (q *T) Push(v interface{}) {\nq.lock.Lock()\nif !q.closed {\nq.buffer.Add(v)\n" + wk(w) + "}\nq.lock.Unlock()\n}", map[string]string{"guard": "true", "wake": w}},
			variant{"func (q *T) Push(v interface{}) {\nq.lock.Lock()\nq.buffer.Add(v)\n" + wk(w) + "q.lock.Unlock()\n}", map[string]string{"guard": "false", "wake": w}})
		closeVs = append(closeVs, variant{"func (q *T) Close() {\nq.lock.Lock()\nif !q.closed {\nq.closed = true\n" + wk(w) + "}\nq.lock.Unlock()\n}", map[string]string{"wake": w}})
	}
	if v, ok := match(f, "SyncQueue", "Push", pushVs); ok {
		s.PushGuardsClosed, s.PushWake = v["guard"] == "true", v["wake"]
	} else {
		unk("Push")
	}
	if v, ok := match(f, "SyncQueue", "Close", closeVs); ok {
		s.CloseWake = v["wake"]
	} else {
		unk("Close")
	}
	pop := "func (q *T) Pop() (v interface{}) {\nc := q.popable\nbuffer := q.buffer\nq.lock.Lock()\nfor buffer.Length() == 0 && !q.closed {\nc.Wait()\n}\nif buffer.Length() > 0 {\nv = buffer.Peek()\nbuffer.Remove()\n}\nq.lock.Unlock()\nreturn\n}"
	if _, ok := match(f, "SyncQueue", "Pop", one(pop)); !ok {
		unk("Pop")
	}
	tps := []variant{
		{"func (q *T) TryPop() (v interface{}, ok bool) {\nbuffer := q.buffer\nq.lock.Lock()\nif buffer.Length() > 0 {\nv = buffer.Peek()\nbuffer.Remove()\nok = true\n} else if q.closed {\nok = true\n}\nq.lock.Unlock()\nreturn\n}", map[string]string{"itemsFirst": "true"}},
		{"func (q *T) TryPop() (v interface{}, ok bool) {\nbuffer := q.buffer\nq.lock.Lock()\nif q.closed {\nok = true\n} else if buffer.Length() > 0 {\nv = buffer.Peek()\nbuffer.Remove()\nok = true\n}\nq.lock.Unlock()\nreturn\n}", map[string]string{"itemsFirst": "false"}},
		{"func (q *T) TryPop() (v interface{}, ok bool) {\nbuffer := q.buffer\nq.lock.Lock()\nif q.closed {\nreturn nil, true\n}\nif buffer.Length() > 0 {\nv = buffer.Peek()\nbuffer.Remove()\nok = true\n}\nreturn\n}", map[string]string{"itemsFirst": "false"}},
	}
	if v, ok := match(f, "SyncQueue", "TryPop", tps); ok {
		s.TryPopItemsFirst = v["itemsFirst"] == "true"
	} else {
		unk("TryPop")
	}
	lens := []variant{
		{"func (q *T) Len() (l int) {\nq.lock.Lock()\nl = q.buffer.Length()\nq.lock.Unlock()\nreturn\n}", nil},
		{"func (q *T) Len() int {\nq.lock.Lock()\ndefer q.lock.Unlock()\nreturn q.buffer.Length()\n}", nil},
	}
	if _, ok := match(f, "SyncQueue", "Len", lens); !ok {
		unk("Len")
	}
	nq := f.Body("", "NewSyncQueue")
	if !gofacts.Has(nq, "buffer: queue.New()") || !gofacts.Has(nq, "ch.popable = sync.NewCond(&ch.lock)") {
		unk("NewSyncQueue")
	}
	// structural
	guarded := []string{"buffer", "closed"}
	s.LockCovered = lockCoveredAll(f, "SyncQueue", "lock", guarded)
	s.SectionsAtomic = sectionsAtomic(f, "SyncQueue", "lock")
	s.FieldsPrivate = fieldsPrivate(repo, "queue/syncq", "syncqueue.go", "SyncQueue", []string{"buffer", "closed", "lock", "popable"})
	if !s.SectionsAtomic {
		s.Why = append(s.Why, "critical-section-split")
	}
	if !s.FieldsPrivate {
		s.Why = append(s.Why, "fields-used-outside-syncqueue.go")
	}
	s.WaitLoop = waitLoops(f, "SyncQueue", "Length")
	s.Fifo = callsOnly(f, "SyncQueue", []string{"Push"}, "Add", "Remove") && callsOnly(f, "SyncQueue", []string{"Pop", "TryPop"}, "Peek", "Add") &&
		callsOnly(f, "SyncQueue", []string{"Pop", "TryPop"}, "Remove", "Get")
	s.MethodSet = methodSetIs(repo, "queue/syncq", "SyncQueue", []string{"Close", "Len", "Pop", "Push", "TryPop"})
	if !s.LockCovered {
		s.Why = append(s.Why, "lock-coverage")
	}
	if !s.MethodSet {
		s.Why = append(s.Why, "method-set")
	}
	return s
}

// ---------------------------------------------------------------- PriQueue

// PriQ describes queue/priq.PriQueue.
type PriQ struct {
	HigherFirst, OlderFirstOnTie, FullAtCap, Known bool
	SeqIncrements, Heap, LockCovered, MethodSet    bool
	SectionsAtomic, FieldsPrivate                  bool
	// C13
	PushSignals  bool // Push calls tyrSignal after every successful push
	PopResignals bool // Pop calls tyrSignal iff entries remain
	TrySignalNB  bool // tyrSignal is a non-blocking send on the signal channel
	ChanCap1     bool // signal channel has capacity 1
	Why          []string
}

func LoadPriQ(repo string) PriQ {
	p := PriQ{Known: true, HigherFirst: true, OlderFirstOnTie: true, FullAtCap: true, PushSignals: true, PopResignals: true}
	f, err := gofacts.Load(repo, "queue/priq/priority_queue.go")
	if err != nil {
		p.Known = false
		p.Why = append(p.Why, "parse")
		return p
	}
	unk := func(w string) { p.Known = false; p.Why = append(p.Why, w) }
	var lessVs, pushVs []variant
	for _, so := range []string{"<", ">"} {
		for _, po := range []string{">", "<"} {
			lessVs = append(lessVs, variant{"func (e T) Less(i, j int) bool {\npi := e[i].entry.GetPriority()\npj := e[j].entry.GetPriority()\nif pi == pj {\nreturn e[i].seq " + so + " e[j].seq\n} else {\nreturn pi " + po + " pj\n}\n}",
				map[string]string{"older": fmt.Sprint(so == "<"), "higher": fmt.Sprint(po == ">")}})
		}
	}
	if v, ok := match(f, "EntryList", "Less", lessVs); ok {
		p.OlderFirstOnTie, p.HigherFirst = v["older"] == "true", v["higher"] == "true"
	} else {
		unk("Less")
	}
	for _, cmp := range []string{">=", ">"} {
		for _, sig := range []bool{true, false} {
			for _, lit := range []string{"&wrapEntry{entry: e, seq: pq.curSeq}", "&wrapEntry{\nentry: e,\nseq: pq.curSeq,\n}"} { // one line or one field per line
				s := "func (pq *T) Push(e IEntry) error {\npq.mu.Lock()\nif len(pq.entries) " + cmp + " pq.capacity {\npq.mu.Unlock()\nreturn ErrQueueIsFull\n}\npq.curSeq++\nheap.Push(&pq.entries, " + lit + ")\npq.mu.Unlock()\n"
				if sig {
					s += "pq.tyrSignal()\n"
				}
				pushVs = append(pushVs, variant{s + "return nil\n}", map[string]string{"atCap": fmt.Sprint(cmp == ">="), "signals": fmt.Sprint(sig)}})
			}
		}
	}
	if v, ok := match(f, "PriQueue", "Push", pushVs); ok {
		p.FullAtCap, p.PushSignals, p.SeqIncrements = v["atCap"] == "true", v["signals"] == "true", true
	} else {
		unk("Push")
	}
	head := "func (pq *T) Pop() IEntry {\npq.mu.Lock()\nif len(pq.entries) == 0 {\npq.mu.Unlock()\nreturn nil\n}\ne := heap.Pop(&pq.entries).(*wrapEntry)\n"
	popVs := []variant{
		{head + "needSignal := len(pq.entries) > 0\npq.mu.Unlock()\nif needSignal {\npq.tyrSignal()\n}\nreturn e.entry\n}", map[string]string{"resignal": "true"}},
		{head + "pq.mu.Unlock()\nreturn e.entry\n}", map[string]string{"resignal": "false"}},
		{head + "needSignal := len(pq.entries) > 0\npq.mu.Unlock()\n_ = needSignal\nreturn e.entry\n}", map[string]string{"resignal": "false"}},
	}
	if v, ok := match(f, "PriQueue", "Pop", popVs); ok {
		p.PopResignals = v["resignal"] == "true"
	} else {
		unk("Pop")
	}
	if _, ok := match(f, "PriQueue", "tyrSignal", one("func (pq *T) tyrSignal() {\nselect {\ncase pq.signal <- struct{}{}:\ndefault:\n}\n}")); ok {
		p.TrySignalNB = true
	} else {
		unk("tyrSignal")
	}
	nb := f.Body("", "NewPriQueue")
	if gofacts.Has(nb, "p.signal = make(chan struct{}, 1)") && gofacts.Has(nb, "p.capacity = capability") {
		p.ChanCap1 = true
	} else {
		unk("NewPriQueue")
	}
	glue := map[string]string{
		"Len":  "func (e T) Len() int {\nreturn len(e)\n}",
		"Swap": "func (e T) Swap(i, j int) {\ne[i], e[j] = e[j], e[i]\n}",
		"Push": "func (e *T) Push(x interface{}) {\n*e = append(*e, x.(*wrapEntry))\n}",
		"Pop":  "func (e *T) Pop() interface{} {\nhead := (*e)[len(*e)-1]\n(*e)[len(*e)-1] = nil\n*e = (*e)[:len(*e)-1]\nreturn head\n}",
	}
	p.Heap = true
	for name, src := range glue {
		if _, ok := match(f, "EntryList", name, one(src)); !ok {
			p.Heap = false
			unk("EntryList." + name)
		}
	}
	lens := []variant{{"func (pq *T) Len() int {\npq.mu.Lock()\ndefer pq.mu.Unlock()\nreturn len(pq.entries)\n}", nil}}
	if _, ok := match(f, "PriQueue", "Len", lens); !ok {
		unk("Len")
	}
	if _, ok := match(f, "PriQueue", "WaitCh", one("func (pq *T) WaitCh() <-chan struct{} {\nreturn pq.signal\n}")); !ok {
		unk("WaitCh")
	}
	p.LockCovered = lockCoveredAll(f, "PriQueue", "mu", []string{"entries", "curSeq"})
	p.SectionsAtomic = sectionsAtomic(f, "PriQueue", "mu")
	p.FieldsPrivate = fieldsPrivate(repo, "queue/priq", "priority_queue.go", "PriQueue", []string{"entries", "curSeq", "mu", "signal", "capacity"})
	if !p.SectionsAtomic {
		p.Why = append(p.Why, "critical-section-split")
	}
	if !p.FieldsPrivate {
		p.Why = append(p.Why, "fields-used-outside-priority_queue.go")
	}
	p.MethodSet = methodSetIs(repo, "queue/priq", "PriQueue", []string{"Len", "Pop", "Push", "WaitCh", "tyrSignal"}) &&
		methodSetIs(repo, "queue/priq", "EntryList", []string{"Len", "Less", "Pop", "Push", "Swap"})
	if !p.LockCovered {
		p.Why = append(p.Why, "lock-coverage")
	}
	if !p.MethodSet {
		p.Why = append(p.Why, "method-set")
	}
	return p
}

// ---------------------------------------------------------------- rendering lean/Nv/Gen/C12.lean and C13.lean

func lb(v bool) string {
	if v {
		return "true"
	}
	return "false"
}

func shapeLean(q ListQ) string {
	return fmt.Sprintf("⟨%s, %s, %s, %s, %s⟩", lb(q.AddClosedFirst), lb(q.PriorBounded), lb(q.PopChecksClosed), lb(q.CtrlFirst), lb(q.Known))
}

type all struct {
	qs []ListQ
	sq SyncQ
	pr PriQ
}

func load(repo string) all {
	var a all
	for _, k := range []string{"q", "async", "mux", "mq"} {
		a.qs = append(a.qs, LoadListQ(repo, k))
	}
	a.sq, a.pr = LoadSyncQ(repo), LoadPriQ(repo)
	return a
}

func (a all) every(f func(ListQ) bool) bool {
	for _, q := range a.qs {
		if !f(q) {
			return false
		}
	}
	return true
}

func (a all) why() []string {
	var why []string
	for _, q := range a.qs {
		for _, w := range q.Why {
			why = append(why, q.Name+"."+w)
		}
	}
	for _, w := range a.sq.Why {
		why = append(why, "syncq."+w)
	}
	for _, w := range a.pr.Why {
		why = append(why, "priq."+w)
	}
	return why
}

// GenC12 renders lean/Nv/Gen/C12.lean (used by `c12 extract`, and by `c13 extract` whose oracle runs the same shapes)
// and a one-line summary.
func GenC12(repo string) (text, summary string) {
	a := load(repo)
	facts := []bool{
		a.every(func(q ListQ) bool { return q.AddPushesBack }),
		a.every(func(q ListQ) bool { return q.PriorPushesFront }),
		a.every(func(q ListQ) bool { return q.PopTakesFront }),
		a.every(func(q ListQ) bool { return q.AnywayNoClosedTest }),
		a.every(func(q ListQ) bool { return q.CloseIdempotent }),
		a.qs[3].TryCloseShape, a.qs[3].TryClearShape,
		a.every(func(q ListQ) bool { return q.BoundOnlyIfPositive }),
		a.sq.Fifo, a.pr.SeqIncrements, a.pr.Heap,
		a.every(func(q ListQ) bool { return q.AnywayShape }),
		a.every(func(q ListQ) bool { return q.AccessorShape }),
		a.every(func(q ListQ) bool { return q.ClosesStopChan }),
		a.every(func(q ListQ) bool { return q.LockCovered }) && a.sq.LockCovered && a.pr.LockCovered,
		a.every(func(q ListQ) bool { return q.MethodSet }) && a.sq.MethodSet && a.pr.MethodSet,
		a.every(func(q ListQ) bool { return q.FieldsPrivate }) && a.sq.FieldsPrivate && a.pr.FieldsPrivate,
	}
	atomic := a.every(func(q ListQ) bool { return q.SectionsAtomic }) && a.sq.SectionsAtomic && a.pr.SectionsAtomic
	var fs []string
	for _, f := range facts {
		fs = append(fs, lb(f))
	}
	text = fmt.Sprintf(`import Nv.Model.C12
set_option linter.unusedVariables false
/-! GENERATED by `+"`c12 extract`"+` from syncx/pipe/{q,async,mux,mq}, queue/syncq, queue/priq — do not edit. -/
namespace Nv.Gen.C12
def cfg : Nv.C12.Cfg :=
  { q := %s, async := %s, mux := %s, mq := %s,
    syncq := ⟨%s, %s, %s⟩,
    priq := ⟨%s, %s, %s, %s⟩,
    sectionsAtomic := %s }
def facts : Nv.C12.Facts := ⟨%s⟩
end Nv.Gen.C12
`, shapeLean(a.qs[0]), shapeLean(a.qs[1]), shapeLean(a.qs[2]), shapeLean(a.qs[3]),
		lb(a.sq.PushGuardsClosed), lb(a.sq.TryPopItemsFirst), lb(a.sq.Known),
		lb(a.pr.HigherFirst), lb(a.pr.OlderFirstOnTie), lb(a.pr.FullAtCap), lb(a.pr.Known), lb(atomic), strings.Join(fs, ", "))
	summary = fmt.Sprintf("extract C12: sectionsAtomic=%v shape(addClosedFirst,priorBounded,popChecksClosed,ctrlFirst,known) q=%s async=%s mux=%s mq=%s syncq=%v,%v,%v priq(higherFirst,olderFirstOnTie,fullAtCap,known)=%v,%v,%v,%v facts=%s unrecognised=%v",
		atomic, shapeLean(a.qs[0]), shapeLean(a.qs[1]), shapeLean(a.qs[2]), shapeLean(a.qs[3]), a.sq.PushGuardsClosed, a.sq.TryPopItemsFirst, a.sq.Known,
		a.pr.HigherFirst, a.pr.OlderFirstOnTie, a.pr.FullAtCap, a.pr.Known, strings.Join(fs, ","), a.why())
	return text, summary
}

func wkLean(s string) string {
	switch s {
	case "broadcast", "signal", "none":
		return "." + s
	}
	return ".unknown"
}

// GenC13 renders lean/Nv/Gen/C13.lean and a one-line summary.
func GenC13(repo string) (text, summary string) {
	a := load(repo)
	var wcs, cfs []string
	for _, q := range a.qs {
		wcs = append(wcs, fmt.Sprintf("⟨%s, %s, %s, %s⟩", wkLean(q.AddWake), wkLean(q.PriorWake), wkLean(q.CloseWake), wkLean(q.TryCloseWake)))
		cfs = append(cfs, fmt.Sprintf("⟨%s, %s⟩", lb(q.LockCovered), lb(q.WaitLoop)))
	}
	// SyncQueue has no prior add: the model never uses `.prior` for it; `ProvedWake` needs a waking value there, so the
	// push primitive is repeated
	wcs = append(wcs, fmt.Sprintf("⟨%s, %s, %s, .none⟩", wkLean(a.sq.PushWake), wkLean(a.sq.PushWake), wkLean(a.sq.CloseWake)))
	cfs = append(cfs, fmt.Sprintf("⟨%s, %s⟩", lb(a.sq.LockCovered), lb(a.sq.WaitLoop)))
	stop := a.every(func(q ListQ) bool { return q.ClosesStopChan })
	msets := a.every(func(q ListQ) bool { return q.MethodSet }) && a.sq.MethodSet && a.pr.MethodSet
	atomic := a.every(func(q ListQ) bool { return q.SectionsAtomic }) && a.sq.SectionsAtomic && a.pr.SectionsAtomic
	priv := a.every(func(q ListQ) bool { return q.FieldsPrivate }) && a.sq.FieldsPrivate && a.pr.FieldsPrivate
	text = fmt.Sprintf(`import Nv.Model.C13
set_option linter.unusedVariables false
/-! GENERATED by `+"`c13 extract`"+` from syncx/pipe/{q,async,mux,mq}, queue/syncq, queue/priq — do not edit. -/
namespace Nv.Gen.C13
def cfg : Nv.C13.Cfg :=
  { q := %s, async := %s, mux := %s, mq := %s, syncq := %s,
    priq := ⟨%s, %s⟩, sectionsAtomic := %s }
def facts : Nv.C13.Facts :=
  { q := %s, async := %s, mux := %s, mq := %s, syncq := %s,
    priq := ⟨%s, %s, %s⟩, closesStopChan := %s, methodSets := %s, priqLockCovered := %s, fieldsPrivate := %s }
end Nv.Gen.C13
`, wcs[0], wcs[1], wcs[2], wcs[3], wcs[4], lb(a.pr.PushSignals), lb(a.pr.PopResignals), lb(atomic),
		cfs[0], cfs[1], cfs[2], cfs[3], cfs[4], lb(a.pr.TrySignalNB), lb(a.pr.ChanCap1), lb(a.pr.Known), lb(stop), lb(msets), lb(a.pr.LockCovered), lb(priv))
	summary = fmt.Sprintf("extract C13: sectionsAtomic=%v fieldsPrivate=%v wake(add,prior,close,tryClose) q=%s async=%s mux=%s mq=%s syncq=%s priq(pushSignals,popResignals)=%v,%v facts(lockCovered,waitLoop)=%s priqfacts=%v,%v,%v closesStopChan=%v methodSets=%v unrecognised=%v",
		atomic, priv, wcs[0], wcs[1], wcs[2], wcs[3], wcs[4], a.pr.PushSignals, a.pr.PopResignals, strings.Join(cfs, ""), a.pr.TrySignalNB, a.pr.ChanCap1, a.pr.Known, stop, msets, a.why())
	return text, summary
}
