// Package c12facts classifies the method bodies of the six queue implementations of properties C12/C13
// (syncx/pipe/q, async, mux, mq; queue/syncq; queue/priq) on their normalised source text.
// A body that matches none of the known shapes makes the queue `Known = false` (reported, never guessed).
package c12facts

import (
	"fmt"
	"regexp"
	"strings"

	"nvharness/lib/gofacts"
)

// ListQ describes one of the list-based pipe queues (q, async, mux, mq).
type ListQ struct {
	Name string
	File string
	// behaviour-selecting shape (C12)
	AddClosedFirst  bool
	PriorBounded    bool
	PopChecksClosed bool
	CtrlFirst       bool
	Known           bool
	Why             []string // what was not recognised
	// plain shape facts (C12)
	AddPushesBack, PriorPushesFront, PopTakesFront, AnywayNoClosedTest, CloseIdempotent, BoundOnlyIfPositive bool
	TryCloseShape, TryClearShape                                                                             bool // mq only (true for the others)
	// wake primitives (C13): "broadcast" | "signal" | "none" | "unknown"
	AddWake, PriorWake, CloseWake, TryCloseWake string
	// every public method body is `lock.Lock(); defer lock.Unlock()` first (C13: critical sections are atomic)
	LockCovered bool
	// the wait loop is `for <empty> { if closed { return }; cond.Wait() }` (re-tested after every wake-up)
	WaitLoop bool
}

const lockRe = `a\.lock\.Lock\(\) defer a\.lock\.Unlock\(\)`
const closedRe = `if a\.closed \{ return ErrClosed \}`

func boundRe(list string) string {
	// nested form as written today, or the equivalent merged condition
	return `(?:if a\.(\w+) > 0 \{ if a\.` + list + `\.Len\(\) >= a\.(\w+) \{ return (\w+) \} \}|if a\.(\w+) > 0 && a\.` + list + `\.Len\(\) >= a\.(\w+) \{ return (\w+) \})`
}

func wakeOf(s string) string {
	switch s {
	case "Broadcast":
		return "broadcast"
	case "Signal":
		return "signal"
	}
	return "unknown"
}

// classifyAdd: returns (closedFirst, wake, ok)
func classifyAdd(body, list, push string) (closedFirst bool, bounded bool, wake string, ok bool) {
	tail := ` a\.` + list + `\.` + push + `\((\w+)\) a\.cond\.(Broadcast|Signal)\(\) return nil \}$`
	a := regexp.MustCompile(`^\{ ` + lockRe + ` ` + closedRe + ` ` + boundRe(list) + tail)
	b := regexp.MustCompile(`^\{ ` + lockRe + ` ` + boundRe(list) + ` ` + closedRe + tail)
	c := regexp.MustCompile(`^\{ ` + lockRe + ` ` + closedRe + tail)
	same := func(m []string) bool { return m[1] == m[2] && m[4] == m[5] } // the same field on both sides of the bound
	if m := a.FindStringSubmatch(body); m != nil && same(m) {
		return true, true, wakeOf(m[8]), true
	}
	if m := b.FindStringSubmatch(body); m != nil && same(m) {
		return false, true, wakeOf(m[8]), true
	}
	if m := c.FindStringSubmatch(body); m != nil {
		return true, false, wakeOf(m[2]), true
	}
	return false, false, "unknown", false
}

const chkRe = `if a\.closed \{ return nil, ErrClosed \}`

func takeRe(first bool, list string) string {
	v := `front = `
	if first {
		v = `var front = `
	}
	return v + `a\.` + list + `\.Front\(\) if front != nil \{ a\.` + list + `\.Remove\(front\) return front\.Value, nil \}`
}

// classifyPop on an explicit Pop/PopAnyway/pop body. Returns checksClosed ("always", "ifCheckClose", "never"), ctrlFirst, ok.
func classifyPop(body string, mq bool) (chk string, ctrlFirst bool, ok bool) {
	empty := `a\.reqList\.Len\(\) == 0`
	if mq {
		empty = `a\.ctrlList\.Len\(\) == 0 && a\.reqList\.Len\(\) == 0`
	}
	loop := `for ` + empty + ` \{ ` + chkRe + ` a\.cond\.Wait\(\) \}`
	takes := []struct {
		re        string
		ctrlFirst bool
	}{{takeRe(true, "reqList"), true}}
	if mq {
		takes = []struct {
			re        string
			ctrlFirst bool
		}{{takeRe(true, "ctrlList") + ` ` + takeRe(false, "reqList"), true}, {takeRe(true, "reqList") + ` ` + takeRe(false, "ctrlList"), false}}
	}
	for _, t := range takes {
		for _, c := range []struct{ re, name string }{{` ` + chkRe, "always"}, {` if checkClose \{ ` + chkRe + ` \}`, "ifCheckClose"}, {``, "never"}} {
			re := regexp.MustCompile(`^\{ ` + lockRe + ` ` + loop + c.re + ` ` + t.re + ` return nil, ErrSync \}$`)
			if re.MatchString(body) {
				return c.name, t.ctrlFirst, true
			}
		}
	}
	return "", true, false
}

type names struct{ add, prior, addCtrl, priorCtrl string }

// LoadListQ classifies one list queue. kind: "q", "async", "mux", "mq".
func LoadListQ(repo, kind string) ListQ {
	files := map[string]string{"q": "syncx/pipe/q/q.go", "async": "syncx/pipe/async/q.go", "mux": "syncx/pipe/mux/q.go", "mq": "syncx/pipe/mq/mq.go"}
	recv := map[string]string{"q": "Q", "async": "Q", "mux": "Q", "mq": "MQ"}[kind]
	nm := map[string]names{"q": {"AddReq", "AddPriorReq", "", ""}, "async": {"Add", "AddPrior", "", ""}, "mux": {"AddReq", "AddPriorReq", "", ""},
		"mq": {"AddReq", "AddPriorReq", "AddCtrl", "AddPriorCtrl"}}[kind]
	q := ListQ{Name: kind, File: files[kind], Known: true, CtrlFirst: true, AddClosedFirst: true, PopChecksClosed: true,
		TryCloseShape: true, TryClearShape: true, TryCloseWake: "none", AddWake: "unknown", PriorWake: "unknown", CloseWake: "unknown"}
	f, err := gofacts.Load(repo, files[kind])
	if err != nil {
		q.Known = false
		q.Why = append(q.Why, "parse:"+err.Error())
		return q
	}
	unk := func(what string) { q.Known = false; q.Why = append(q.Why, what) }
	isMQ := kind == "mq"

	// Add (request list)
	cf, bounded, wake, ok := classifyAdd(f.Body(recv, nm.add), "reqList", "PushBack")
	if !ok || !bounded {
		unk(nm.add)
	}
	q.AddWake, q.AddPushesBack, q.BoundOnlyIfPositive = wake, ok, ok && bounded
	if ok { // an unrecognised body never changes a behaviour-selecting field (Known=false breaks the tie instead)
		q.AddClosedFirst = cf
	}
	// AddPrior
	_, pb, pwake, ok := classifyAdd(f.Body(recv, nm.prior), "reqList", "PushFront")
	if !ok {
		unk(nm.prior)
	}
	q.PriorWake, q.PriorPushesFront = pwake, ok
	if ok {
		q.PriorBounded = pb
	}
	if isMQ {
		cf2, b2, w2, ok2 := classifyAdd(f.Body(recv, nm.addCtrl), "ctrlList", "PushBack")
		if !ok2 || !b2 || cf2 != q.AddClosedFirst {
			unk(nm.addCtrl)
		}
		if w2 != q.AddWake {
			q.AddWake = mixWake(q.AddWake, w2)
		}
		_, pb2, pw2, ok3 := classifyAdd(f.Body(recv, nm.priorCtrl), "ctrlList", "PushFront")
		if !ok3 || pb2 != q.PriorBounded {
			unk(nm.priorCtrl)
		}
		if pw2 != q.PriorWake {
			q.PriorWake = mixWake(q.PriorWake, pw2)
		}
	}
	// Pop / PopAnyway
	popBody, anyBody := f.Body(recv, "Pop"), f.Body(recv, "PopAnyway")
	var popChk, anyChk string
	var cf1, cfa bool
	var ok1, oka bool
	if popBody == "{ return a.pop(true) }" && anyBody == "{ return a.pop(false) }" {
		chk, c1, okp := classifyPop(f.Body(recv, "pop"), isMQ)
		ok1, oka, cf1, cfa = okp, okp, c1, c1
		switch chk {
		case "ifCheckClose":
			popChk, anyChk = "always", "never"
		case "never":
			popChk, anyChk = "never", "never"
		case "always":
			popChk, anyChk = "always", "always"
		}
		fd := f.Func(recv, "pop")
		if fd == nil || !strings.HasPrefix(f.Src(fd.Type), "func(checkClose bool)") {
			ok1 = false
		}
	} else {
		popChk, cf1, ok1 = classifyPop(popBody, isMQ)
		anyChk, cfa, oka = classifyPop(anyBody, isMQ)
	}
	if !ok1 || popChk == "ifCheckClose" {
		unk("Pop")
	}
	if !oka || anyChk == "ifCheckClose" || cfa != cf1 {
		unk("PopAnyway")
	}
	if ok1 {
		q.PopChecksClosed = popChk == "always"
	}
	q.AnywayNoClosedTest = oka && anyChk == "never"
	if ok1 {
		q.CtrlFirst = cf1
	}
	q.PopTakesFront = ok1 && oka
	q.WaitLoop = ok1 && oka
	// Close
	closeRe := regexp.MustCompile(`^\{ ` + lockRe + ` if a\.closed \{ return \}( close\(a\.stopChan\))? a\.closed = true a\.cond\.(Broadcast|Signal)\(\) \}$`)
	closeNoWake := regexp.MustCompile(`^\{ ` + lockRe + ` if a\.closed \{ return \}( close\(a\.stopChan\))? a\.closed = true \}$`)
	cb := f.Body(recv, "Close")
	if m := closeRe.FindStringSubmatch(cb); m != nil {
		q.CloseWake, q.CloseIdempotent = wakeOf(m[2]), true
	} else if closeNoWake.MatchString(cb) {
		q.CloseWake, q.CloseIdempotent = "none", true
	} else {
		unk("Close")
	}
	if isMQ {
		tc := regexp.MustCompile(`^\{ ` + lockRe + ` if a\.closed \{ return a\.closed \} if a\.ctrlList\.Len\(\) == 0 && a\.reqList\.Len\(\) == 0 \{ close\(a\.stopChan\) a\.closed = true( a\.cond\.(Broadcast|Signal)\(\))? \} return a\.closed \}$`)
		if m := tc.FindStringSubmatch(f.Body(recv, "TryClose")); m != nil {
			q.TryCloseWake = "none"
			if m[1] != "" {
				q.TryCloseWake = wakeOf(m[2])
			}
		} else {
			q.TryCloseShape, q.TryCloseWake = false, "unknown"
			unk("TryClose")
		}
		tcl := `{ a.lock.Lock() defer a.lock.Unlock() if a.cleared { return a.cleared } if a.closed { if a.ctrlList.Len() == 0 && a.reqList.Len() == 0 { close(a.clearChan) a.cleared = true } } return a.cleared }`
		if f.Body(recv, "TryClear") != tcl {
			q.TryClearShape = false
			unk("TryClear")
		}
	}
	q.LockCovered = q.Known // every recognised shape starts with Lock + defer Unlock
	return q
}

func mixWake(a, b string) string {
	if a == b {
		return a
	}
	if a == "unknown" || b == "unknown" {
		return "unknown"
	}
	// the two add methods of MQ differ: report the weaker one (signal < broadcast); "none" is weakest
	if a == "none" || b == "none" {
		return "none"
	}
	return "signal"
}

// SyncQ describes queue/syncq.SyncQueue.
type SyncQ struct {
	PushGuardsClosed, TryPopItemsFirst, Known, Fifo, LockCovered, WaitLoop bool
	PushWake, CloseWake                                                    string
	Why                                                                    []string
}

func LoadSyncQ(repo string) SyncQ {
	s := SyncQ{Known: true, PushGuardsClosed: true, TryPopItemsFirst: true, PushWake: "unknown", CloseWake: "unknown"}
	f, err := gofacts.Load(repo, "queue/syncq/syncqueue.go")
	if err != nil {
		s.Known = false
		s.Why = append(s.Why, "parse")
		return s
	}
	unk := func(w string) { s.Known = false; s.Why = append(s.Why, w) }
	push := f.Body("SyncQueue", "Push")
	pm := regexp.MustCompile(`^\{ q\.lock\.Lock\(\) if !q\.closed \{ q\.buffer\.Add\(v\)( q\.popable\.(Signal|Broadcast)\(\))? \} q\.lock\.Unlock\(\) \}$`).FindStringSubmatch(push)
	pm2 := regexp.MustCompile(`^\{ q\.lock\.Lock\(\) q\.buffer\.Add\(v\)( q\.popable\.(Signal|Broadcast)\(\))? q\.lock\.Unlock\(\) \}$`).FindStringSubmatch(push)
	switch {
	case pm != nil:
		s.PushGuardsClosed = true
		s.PushWake = "none"
		if pm[1] != "" {
			s.PushWake = wakeOf(pm[2])
		}
	case pm2 != nil:
		s.PushGuardsClosed = false
		s.PushWake = "none"
		if pm2[1] != "" {
			s.PushWake = wakeOf(pm2[2])
		}
	default:
		unk("Push")
	}
	cm := regexp.MustCompile(`^\{ q\.lock\.Lock\(\) if !q\.closed \{ q\.closed = true( q\.popable\.(Signal|Broadcast)\(\))? \} q\.lock\.Unlock\(\) \}$`).FindStringSubmatch(f.Body("SyncQueue", "Close"))
	if cm != nil {
		s.CloseWake = "none"
		if cm[1] != "" {
			s.CloseWake = wakeOf(cm[2])
		}
	} else {
		unk("Close")
	}
	pop := `{ c := q.popable buffer := q.buffer q.lock.Lock() for buffer.Length() == 0 && !q.closed { c.Wait() } if buffer.Length() > 0 { v = buffer.Peek() buffer.Remove() } q.lock.Unlock() return }`
	if f.Body("SyncQueue", "Pop") != pop {
		unk("Pop")
	}
	tp := `{ buffer := q.buffer q.lock.Lock() if buffer.Length() > 0 { v = buffer.Peek() buffer.Remove() ok = true } else if q.closed { ok = true } q.lock.Unlock() return }`
	tp2 := `{ buffer := q.buffer q.lock.Lock() if q.closed { ok = true } else if buffer.Length() > 0 { v = buffer.Peek() buffer.Remove() ok = true } q.lock.Unlock() return }`
	switch f.Body("SyncQueue", "TryPop") {
	case tp:
		s.TryPopItemsFirst = true
	case tp2:
		s.TryPopItemsFirst = false
	default:
		unk("TryPop")
	}
	if f.Body("SyncQueue", "Len") != `{ q.lock.Lock() l = q.buffer.Length() q.lock.Unlock() return }` {
		unk("Len")
	}
	nq := f.Body("", "NewSyncQueue")
	if !gofacts.Has(nq, "buffer: queue.New()") || !gofacts.Has(nq, "ch.popable = sync.NewCond(&ch.lock)") {
		unk("NewSyncQueue")
	}
	s.Fifo, s.LockCovered, s.WaitLoop = s.Known, s.Known, s.Known
	return s
}

// PriQ describes queue/priq.PriQueue.
type PriQ struct {
	HigherFirst, OlderFirstOnTie, FullAtCap, Known bool
	SeqIncrements, Heap                            bool
	// C13
	PushSignals  bool // Push calls tyrSignal after every successful push (after Unlock)
	PopResignals bool // Pop calls tyrSignal iff entries remain
	TrySignalNB  bool // tyrSignal is a non-blocking send on the signal channel
	ChanCap1     bool // signal channel has capacity 1
	Why          []string
}

func LoadPriQ(repo string) PriQ {
	p := PriQ{Known: true, HigherFirst: true, OlderFirstOnTie: true, FullAtCap: true}
	f, err := gofacts.Load(repo, "queue/priq/priority_queue.go")
	if err != nil {
		p.Known = false
		p.Why = append(p.Why, "parse")
		return p
	}
	unk := func(w string) { p.Known = false; p.Why = append(p.Why, w) }
	less := f.Body("EntryList", "Less")
	lm := regexp.MustCompile(`^\{ pi := e\[i\]\.entry\.GetPriority\(\) pj := e\[j\]\.entry\.GetPriority\(\) if pi == pj \{ return e\[i\]\.seq (<|>) e\[j\]\.seq \} else \{ return pi (<|>) pj \} \}$`).FindStringSubmatch(less)
	if lm != nil {
		p.OlderFirstOnTie = lm[1] == "<"
		p.HigherFirst = lm[2] == ">"
	} else {
		unk("Less")
	}
	push := f.Body("PriQueue", "Push")
	pm := regexp.MustCompile(`^\{ pq\.mu\.Lock\(\) if len\(pq\.entries\) (>=|>) pq\.capacity \{ pq\.mu\.Unlock\(\) return ErrQueueIsFull \} pq\.curSeq\+\+ heap\.Push\(&pq\.entries, &wrapEntry\{ ?entry: e, seq: pq\.curSeq,? ?\}\) pq\.mu\.Unlock\(\)( pq\.tyrSignal\(\))? return nil \}$`).FindStringSubmatch(push)
	if pm != nil {
		p.FullAtCap = pm[1] == ">="
		p.PushSignals = pm[2] != ""
		p.SeqIncrements = true
	} else {
		unk("Push")
	}
	pop := f.Body("PriQueue", "Pop")
	popA := `{ pq.mu.Lock() if len(pq.entries) == 0 { pq.mu.Unlock() return nil } e := heap.Pop(&pq.entries).(*wrapEntry) needSignal := len(pq.entries) > 0 pq.mu.Unlock() if needSignal { pq.tyrSignal() } return e.entry }`
	popB := `{ pq.mu.Lock() if len(pq.entries) == 0 { pq.mu.Unlock() return nil } e := heap.Pop(&pq.entries).(*wrapEntry) pq.mu.Unlock() return e.entry }`
	popC := `{ pq.mu.Lock() if len(pq.entries) == 0 { pq.mu.Unlock() return nil } e := heap.Pop(&pq.entries).(*wrapEntry) needSignal := len(pq.entries) > 0 pq.mu.Unlock() return e.entry }`
	switch pop {
	case popA:
		p.PopResignals = true
	case popB, popC:
		p.PopResignals = false
	default:
		if strings.Contains(pop, "heap.Pop(&pq.entries)") && !strings.Contains(pop, "tyrSignal") {
			p.PopResignals = false
		}
		unk("Pop")
	}
	if f.Body("PriQueue", "tyrSignal") == `{ select { case pq.signal <- struct{}{}: default: } }` {
		p.TrySignalNB = true
	} else {
		unk("tyrSignal")
	}
	if gofacts.Has(f.Body("", "NewPriQueue"), "p.signal = make(chan struct{}, 1)") && gofacts.Has(f.Body("", "NewPriQueue"), "p.capacity = capability") {
		p.ChanCap1 = true
	} else {
		unk("NewPriQueue")
	}
	heapOK := f.Body("EntryList", "Len") == `{ return len(e) }` &&
		f.Body("EntryList", "Swap") == `{ e[i], e[j] = e[j], e[i] }` &&
		f.Body("EntryList", "Push") == `{ *e = append(*e, x.(*wrapEntry)) }` &&
		f.Body("EntryList", "Pop") == `{ head := (*e)[len(*e)-1] (*e)[len(*e)-1] = nil *e = (*e)[:len(*e)-1] return head }`
	if !heapOK {
		unk("EntryList")
	}
	p.Heap = heapOK
	if f.Body("PriQueue", "Len") != `{ pq.mu.Lock() defer pq.mu.Unlock() return len(pq.entries) }` {
		unk("Len")
	}
	if f.Body("PriQueue", "WaitCh") != `{ return pq.signal }` {
		unk("WaitCh")
	}
	return p
}

func lb(v bool) string {
	if v {
		return "true"
	}
	return "false"
}

func shapeLean(q ListQ) string {
	return fmt.Sprintf("⟨%s, %s, %s, %s, %s⟩", lb(q.AddClosedFirst), lb(q.PriorBounded), lb(q.PopChecksClosed), lb(q.CtrlFirst), lb(q.Known))
}

// GenC12 renders lean/Nv/Gen/C12.lean (used by `c12 extract`, and by `c13 extract` whose oracle runs the same shapes)
// and a one-line summary.
func GenC12(repo string) (text, summary string) {
	var qs []ListQ
	all := func(f func(ListQ) bool) bool {
		for _, q := range qs {
			if !f(q) {
				return false
			}
		}
		return true
	}
	for _, k := range []string{"q", "async", "mux", "mq"} {
		qs = append(qs, LoadListQ(repo, k))
	}
	sq := LoadSyncQ(repo)
	pr := LoadPriQ(repo)
	facts := []bool{
		all(func(q ListQ) bool { return q.AddPushesBack }),
		all(func(q ListQ) bool { return q.PriorPushesFront }),
		all(func(q ListQ) bool { return q.PopTakesFront }),
		all(func(q ListQ) bool { return q.AnywayNoClosedTest }),
		all(func(q ListQ) bool { return q.CloseIdempotent }),
		qs[3].TryCloseShape, qs[3].TryClearShape,
		all(func(q ListQ) bool { return q.BoundOnlyIfPositive }),
		sq.Fifo, pr.SeqIncrements, pr.Heap,
	}
	var fs []string
	for _, f := range facts {
		fs = append(fs, lb(f))
	}
	text = fmt.Sprintf(`import Nv.Model.C12
set_option linter.unusedVariables false
/-! GENERATED by `+"`c12 extract`"+` from syncx/pipe/{q,async,mux,mq}, queue/syncq, queue/priq — do not edit. -/
namespace Nv.Gen.C12
def cfg : Nv.C12.Cfg :=
  { q := %s, async := %s, mux := %s, mq := %s,
    syncq := ⟨%s, %s, %s⟩,
    priq := ⟨%s, %s, %s, %s⟩ }
def facts : Nv.C12.Facts := ⟨%s⟩
end Nv.Gen.C12
`, shapeLean(qs[0]), shapeLean(qs[1]), shapeLean(qs[2]), shapeLean(qs[3]),
		lb(sq.PushGuardsClosed), lb(sq.TryPopItemsFirst), lb(sq.Known),
		lb(pr.HigherFirst), lb(pr.OlderFirstOnTie), lb(pr.FullAtCap), lb(pr.Known), strings.Join(fs, ", "))
	var why []string
	for _, q := range qs {
		for _, w := range q.Why {
			why = append(why, q.Name+"."+w)
		}
	}
	for _, w := range sq.Why {
		why = append(why, "syncq."+w)
	}
	for _, w := range pr.Why {
		why = append(why, "priq."+w)
	}
	summary = fmt.Sprintf("extract C12: shape(addClosedFirst,priorBounded,popChecksClosed,ctrlFirst,known) q=%s async=%s mux=%s mq=%s syncq=%v,%v,%v priq(higherFirst,olderFirstOnTie,fullAtCap,known)=%v,%v,%v,%v facts=%s unrecognised=%v",
		shapeLean(qs[0]), shapeLean(qs[1]), shapeLean(qs[2]), shapeLean(qs[3]), sq.PushGuardsClosed, sq.TryPopItemsFirst, sq.Known,
		pr.HigherFirst, pr.OlderFirstOnTie, pr.FullAtCap, pr.Known, strings.Join(fs, ","), why)
	return text, summary
}
