package c12stress

import (
	"bytes"
	"context"
	"fmt"
	"os"
	"os/exec"
	"strconv"
	"strings"
	"time"

	"nvharness/lib/corr"
)

// Line executes the script line `stress <class> <kind> <rounds>` in a child process of the same binary (a panic may
// leave a mutex locked; a hang must not take the runner with it). Output `ok` (what the oracle answers: the invariants
// are theorems of the model), `violated` plus a monitor hit, or `bad-op`.
func Line(prop string, f []string) (string, []corr.Hit) {
	if len(f) != 4 || !Valid(f[1], f[2]) {
		return "bad-op", nil
	}
	n, err := strconv.Atoi(f[3])
	if err != nil || n < 1 || n > 10000000 || strconv.Itoa(n) != f[3] {
		return "bad-op", nil
	}
	ctx, cancel := context.WithTimeout(context.Background(), 120*time.Second)
	defer cancel()
	cmd := exec.CommandContext(ctx, os.Args[0], "stressrun", f[1], f[2], f[3])
	var out, errb bytes.Buffer
	cmd.Stdout, cmd.Stderr = &out, &errb
	runErr := cmd.Run()
	site := map[string]string{"priq": "PriQueue", "syncq": "SyncQueue"}[f[2]]
	if site == "" {
		site = "Q"
	}
	lines := strings.Split(strings.TrimSpace(out.String()), "\n")
	last := lines[len(lines)-1]
	switch {
	case last == "ok" && runErr == nil:
		return "ok", nil
	case strings.HasPrefix(last, "violation\t"):
		p := strings.SplitN(last, "\t", 3)
		return "violated", []corr.Hit{{Key: prop + ":" + f[2] + "." + p[1], What: "parallel stress `" + strings.Join(f, " ") + "`: " + p[2]}}
	case strings.HasPrefix(last, "harness\t"):
		fmt.Fprintln(os.Stderr, "harness error: parallel stress `"+strings.Join(f, " ")+"`:", last)
		os.Exit(2)
	case ctx.Err() != nil:
		return "violated", []corr.Hit{{Key: prop + ":" + f[2] + ".stress:hang", What: "parallel stress `" + strings.Join(f, " ") + "` did not finish within 120 s"}}
	}
	tail := errb.String()
	if len(tail) > 400 {
		tail = tail[:400]
	}
	return "violated", []corr.Hit{{Key: prop + ":" + f[2] + ".stress:crash", What: "parallel stress `" + strings.Join(f, " ") + "` died: " + tail}}
}

// Cases lists the stress lines of a tier, each as a one-line script. withCap: include the capacity class (C12).
// Rounds: quick a few thousand per line (whole class ≈ 1–2 s of CPU, spread over the shards), thorough ×5, search ×25.
func Cases(tier string, withCap bool) []corr.Case {
	scale := 1
	switch tier {
	case "thorough":
		scale = 5
	case "search":
		scale = 25
	}
	var out []corr.Case
	add := func(class, kind string, rounds, copies int) {
		for i := 0; i < copies; i++ {
			out = append(out, corr.Case{Tag: "stress-" + class, Lines: []string{"stress " + class + " " + kind + " " + strconv.Itoa(rounds*scale)}})
		}
	}
	if withCap {
		for _, k := range []string{"priq", "q", "async", "mux", "mq"} {
			add("cap", k, 10000, 2)
		}
		add("trypop", "syncq", 10000, 2)
		add("runner", "async", 400, 2)
		out = append(out, corr.Case{Tag: "stress-runnercap", Lines: []string{"stress runnercap async 1"}})
	} else {
		add("runner", "async", 400, 1)
	}
	for _, k := range []string{"q", "async", "mux", "mq"} {
		add("pop", k, 5000, 2)
	}
	for _, k := range []string{"syncq", "q", "async", "mux", "mq"} {
		add("wake", k, 40000, 2)
	}
	return out
}
