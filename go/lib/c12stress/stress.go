// Package c12stress is the parallel stress class of properties C12/C13: many goroutines act on ONE real queue at the
// same time, released together by a barrier, round after round, and invariants that hold for every interleaving of
// whole critical sections are checked:
//
//	cap     accepted ordinary adds on a queue nobody pops from ≤ capacity (exactly min(adds, capacity)); Len() agrees
//	pop     k consumers (Pop and PopAnyway) + a producer adding m items + a Close: every consumer returns, with an
//	        accepted item handed out at most once or with `closed`; nothing else, no panic
//	trypop  n items, many TryPop at once (SyncQueue): each item handed out exactly once, the others report empty
//	runner  async.RunnerQ (same package as async.Q, uses it through its methods): calls queued behind a running one, then
//	        Stop: every queued call is still executed (the loop drains with PopAnyway) and the loop ends; Stop with an
//	        idle loop blocked in PopAnyway: the loop ends
//	runnercap  (sequential) the queue size a RunnerQ is built with: size 0 or negative = unbounded (more than DefaultQSize
//	        calls are accepted), the default and explicit positive sizes refuse exactly the call after the capacity
//	wake    one consumer and one producer released together: once the add has returned the consumer returns the item;
//	        k consumers and a Close released together: once Close has returned every consumer leaves
//
// These are properties of the proved transition system (one label = one uninterrupted critical section); a critical
// section cut in two by `Unlock(); Lock()` breaks them only under real parallelism. "Still parked" is decided from a
// goroutine snapshot (c12sched.Settle), never from elapsed time. The caller runs this in a CHILD process: a panic can
// leave a mutex locked and hang everything after it.
package c12stress

import (
	"context"
	"fmt"
	"runtime"
	"sync"
	"sync/atomic"
	"time"

	"github.com/pinealctx/neptune/queue/priq"
	"github.com/pinealctx/neptune/queue/syncq"
	"github.com/pinealctx/neptune/syncx/pipe/async"
	"github.com/pinealctx/neptune/syncx/pipe/mq"
	"github.com/pinealctx/neptune/syncx/pipe/mux"
	pq "github.com/pinealctx/neptune/syncx/pipe/q"

	"nvharness/lib/c12sched"
)

// queue is the common face of the five list queues. Results: "v:<n>", "closed", "full", "ok", "none", "nil", "err:<text>".
type queue interface {
	add(x int) string
	pop() string
	popany() string // "" when the type has no PopAnyway
	trypop() string // "" when the type has no TryPop
	close()
}

func errs(err error, closed, full error) string {
	switch {
	case err == nil:
		return "ok"
	case err == closed:
		return "closed"
	case err == full:
		return "full"
	}
	return "err:" + err.Error()
}

func val(v interface{}, err error, closed error) string {
	if err != nil {
		if err == closed {
			return "closed"
		}
		return "err:" + err.Error()
	}
	if i, ok := v.(int); ok {
		return fmt.Sprintf("v:%d", i)
	}
	return fmt.Sprintf("v?%v", v)
}

type qQ struct{ q *pq.Q }

func (a qQ) add(x int) string { return errs(a.q.AddReq(x), pq.ErrClosed, pq.ErrReqQFull) }
func (a qQ) pop() string      { v, e := a.q.Pop(); return val(v, e, pq.ErrClosed) }
func (a qQ) popany() string   { v, e := a.q.PopAnyway(); return val(v, e, pq.ErrClosed) }
func (a qQ) trypop() string   { return "" }
func (a qQ) close()           { a.q.Close() }

type asyncQ struct{ q *async.Q }

func (a asyncQ) add(x int) string { return errs(a.q.Add(x), async.ErrClosed, async.ErrFull) }
func (a asyncQ) pop() string      { v, e := a.q.Pop(); return val(v, e, async.ErrClosed) }
func (a asyncQ) popany() string   { v, e := a.q.PopAnyway(); return val(v, e, async.ErrClosed) }
func (a asyncQ) trypop() string   { return "" }
func (a asyncQ) close()           { a.q.Close() }

type muxQ struct{ q *mux.Q }

func (a muxQ) add(x int) string { return errs(a.q.AddReq(x), mux.ErrClosed, mux.ErrQFull) }
func (a muxQ) pop() string      { v, e := a.q.Pop(); return val(v, e, mux.ErrClosed) }
func (a muxQ) popany() string   { v, e := a.q.PopAnyway(); return val(v, e, mux.ErrClosed) }
func (a muxQ) trypop() string   { return "" }
func (a muxQ) close()           { a.q.Close() }

type mqQ struct{ q *mq.MQ }

func (a mqQ) add(x int) string { return errs(a.q.AddReq(x), mq.ErrClosed, mq.ErrReqQFull) }
func (a mqQ) pop() string      { v, e := a.q.Pop(); return val(v, e, mq.ErrClosed) }
func (a mqQ) popany() string   { v, e := a.q.PopAnyway(); return val(v, e, mq.ErrClosed) }
func (a mqQ) trypop() string   { return "" }
func (a mqQ) close()           { a.q.Close() }

type syncQ struct{ q *syncq.SyncQueue }

func (a syncQ) add(x int) string { a.q.Push(x); return "ok" }
func (a syncQ) pop() string {
	v := a.q.Pop()
	if v == nil {
		return "closed"
	}
	return val(v, nil, nil)
}
func (a syncQ) popany() string { return "" }
func (a syncQ) trypop() string {
	v, ok := a.q.TryPop()
	switch {
	case !ok:
		return "none"
	case v == nil:
		return "closed"
	}
	return val(v, nil, nil)
}
func (a syncQ) close() { a.q.Close() }

func newQ(kind string, capacity int) queue {
	switch kind {
	case "q":
		return qQ{pq.NewQ(pq.WithSize(capacity))}
	case "async":
		return asyncQ{async.NewQ(capacity)}
	case "mux":
		return muxQ{mux.NewQ(capacity)}
	case "mq":
		return mqQ{mq.NewMQ(mq.WithQReqSize(capacity))}
	case "syncq":
		return syncQ{syncq.NewSyncQueue()}
	}
	return nil
}

type ent struct{ item, prio int }

func (e ent) GetPriority() int { return e.prio }

// Valid reports whether a class exists for a queue kind.
func Valid(class, kind string) bool {
	switch class {
	case "cap":
		return kind == "q" || kind == "async" || kind == "mux" || kind == "mq" || kind == "priq"
	case "pop":
		return kind == "q" || kind == "async" || kind == "mux" || kind == "mq"
	case "trypop":
		return kind == "syncq"
	case "wake":
		return kind == "q" || kind == "async" || kind == "mux" || kind == "mq" || kind == "syncq"
	case "runner", "runnercap":
		return kind == "async"
	}
	return false
}

// violation is what Run returns on failure: a stable key and a description with the round.
type Violation struct{ Key, What string }

type group struct {
	start sync.WaitGroup
	done  sync.WaitGroup
	left  int64 // goroutines that have not returned yet
	mu    sync.Mutex
	pan   string
}

func (g *group) run(fn func()) {
	g.done.Add(1)
	atomic.AddInt64(&g.left, 1)
	go func() {
		defer g.done.Done()
		defer atomic.AddInt64(&g.left, -1)
		defer func() {
			if p := recover(); p != nil {
				g.mu.Lock()
				g.pan = fmt.Sprint(p)
				g.mu.Unlock()
			}
		}()
		g.start.Wait()
		fn()
	}()
}

// wait returns "" when every goroutine has returned, "panic:<v>" after a panic, or "parked" when a quiescent snapshot
// shows somebody blocked for good.
func (g *group) wait() string {
	for i := 0; ; i++ {
		if atomic.LoadInt64(&g.left) == 0 {
			g.mu.Lock()
			p := g.pan
			g.mu.Unlock()
			if p != "" {
				return "panic:" + p
			}
			return ""
		}
		g.mu.Lock()
		p := g.pan
		g.mu.Unlock()
		if p != "" {
			return "panic:" + p // the others may be blocked on a mutex the panicking call left locked
		}
		if i < 2000 {
			runtime.Gosched()
			continue
		}
		if err := c12sched.Settle(10 * time.Second); err != nil {
			return "never-quiesces" // bounded wait: some call keeps running (a wait loop without Wait, a livelock)
		}
		if atomic.LoadInt64(&g.left) != 0 {
			return "parked"
		}
	}
}

// Run executes `rounds` rounds of one class on one queue kind and returns the first violation (nil: none).
func Run(class, kind string, rounds int) *Violation {
	for round := 0; round < rounds; round++ {
		var v *Violation
		switch class {
		case "cap":
			v = capRound(kind, round)
		case "pop":
			v = popRound(kind, round)
		case "trypop":
			v = tryPopRound(round)
		case "wake":
			v = wakeRound(kind, round)
		case "runner":
			v = runnerRound(round)
		case "runnercap":
			v = runnerCapRound(round)
		}
		if v != nil {
			v.What = fmt.Sprintf("round %d: %s", round, v.What)
			return v
		}
	}
	return nil
}

func capRound(kind string, round int) *Violation {
	capacity := 1 + round%2
	const adders = 8
	var g group
	g.start.Add(1)
	var accepted int64
	var other atomic.Value
	var lenNow func() int
	if kind == "priq" {
		q := priq.NewPriQueue(capacity)
		lenNow = q.Len
		for i := 0; i < adders; i++ {
			i := i
			g.run(func() {
				switch err := q.Push(ent{i, i % 2}); err {
				case nil:
					atomic.AddInt64(&accepted, 1)
				case priq.ErrQueueIsFull:
				default:
					other.Store(err.Error())
				}
			})
		}
	} else {
		q := newQ(kind, capacity)
		for i := 0; i < adders; i++ {
			i := i
			g.run(func() {
				switch r := q.add(i + 1); r {
				case "ok":
					atomic.AddInt64(&accepted, 1)
				case "full":
				default:
					other.Store(r)
				}
			})
		}
	}
	g.start.Done()
	if w := g.wait(); w != "" {
		return &Violation{"add:" + keyOf(w), fmt.Sprintf("%d parallel adds on a queue of capacity %d: %s", adders, capacity, w)}
	}
	if o := other.Load(); o != nil {
		return &Violation{"add:result", fmt.Sprintf("an add on an open queue returned %v", o)}
	}
	if int(accepted) != capacity {
		return &Violation{"add:capacity-exceeded-under-parallel-adds", fmt.Sprintf("capacity %d, %d parallel adds, %d accepted", capacity, adders, accepted)}
	}
	if lenNow != nil && lenNow() != capacity {
		return &Violation{"add:capacity-exceeded-under-parallel-adds", fmt.Sprintf("capacity %d, Len()=%d after %d parallel pushes", capacity, lenNow(), adders)}
	}
	return nil
}

func keyOf(w string) string {
	if len(w) > 5 && w[:6] == "panic:" {
		return "panic"
	}
	return w
}

// checkResults: every result is an accepted item (handed out at most once) or `closed` / an allowed empty answer.
func checkResults(site string, res []string, items int, allowed map[string]bool) *Violation {
	seen := map[string]bool{}
	for _, r := range res {
		if allowed[r] {
			continue
		}
		ok := false
		for x := 1; x <= items; x++ {
			if r == fmt.Sprintf("v:%d", x) {
				ok = true
			}
		}
		if !ok {
			return &Violation{site + ":result-neither-item-nor-closed", fmt.Sprintf("a consumer returned %q (items 1..%d were added)", r, items)}
		}
		if seen[r] {
			return &Violation{site + ":item-handed-out-twice", fmt.Sprintf("item %s was handed to two consumers", r)}
		}
		seen[r] = true
	}
	return nil
}

func popRound(kind string, round int) *Violation {
	q := newQ(kind, 0)
	const consumers, items = 6, 3
	var g group
	g.start.Add(1)
	res := make([]string, consumers)
	for i := 0; i < consumers; i++ {
		i := i
		g.run(func() {
			if i%2 == 0 {
				res[i] = q.popany()
			} else {
				res[i] = q.pop()
			}
		})
	}
	g.run(func() {
		for x := 1; x <= items; x++ {
			q.add(x)
		}
		q.close()
	})
	g.start.Done()
	if w := g.wait(); w != "" {
		if w == "parked" {
			return &Violation{"Close:blocked-consumer-not-released", fmt.Sprintf("%d consumers, %d adds, Close returned: a consumer is still parked", consumers, items)}
		}
		return &Violation{"Pop:" + keyOf(w), w}
	}
	return checkResults("Pop", res, items, map[string]bool{"closed": true})
}

func tryPopRound(round int) *Violation {
	q := syncQ{syncq.NewSyncQueue()}
	items := 1 + round%2
	for x := 1; x <= items; x++ {
		q.add(x)
	}
	const poppers = 8
	var g group
	g.start.Add(1)
	res := make([]string, poppers)
	for i := 0; i < poppers; i++ {
		i := i
		g.run(func() { res[i] = q.trypop() })
	}
	g.start.Done()
	if w := g.wait(); w != "" {
		return &Violation{"TryPop:" + keyOf(w), fmt.Sprintf("%d item(s), %d parallel TryPop: %s", items, poppers, w)}
	}
	if v := checkResults("TryPop", res, items, map[string]bool{"none": true}); v != nil {
		return v
	}
	got := 0
	for _, r := range res {
		if r != "none" {
			got++
		}
	}
	if got != items {
		return &Violation{"TryPop:item-withheld", fmt.Sprintf("%d item(s) queued, %d handed out by %d parallel TryPop", items, got, poppers)}
	}
	return nil
}

func wakeRound(kind string, round int) *Violation {
	q := newQ(kind, 0)
	var g group
	g.start.Add(1)
	if kind == "syncq" && round%3 == 2 {
		// barging: a consumer, a producer pushing two items one after the other, and a TryPop that may take the first item
		// before the signalled consumer runs. Whoever gets what: once everybody else has returned, the consumer must not
		// sleep beside an item.
		var got, stolen string
		g.run(func() { got = q.pop() })
		g.run(func() { q.add(1); runtime.Gosched(); q.add(2) })
		g.run(func() { stolen = q.trypop() })
		g.start.Done()
		if w := g.wait(); w != "" {
			if w == "parked" {
				return &Violation{"Pop:consumer-parked-beside-item", "a consumer, two pushes and a barging TryPop (took " + stolen + "): both pushes returned, the consumer sleeps beside an item"}
			}
			return &Violation{"Pop:" + keyOf(w), w}
		}
		return checkResults("Pop", []string{got, stolen}, 2, map[string]bool{"none": true})
	}
	if round%2 == 0 {
		// one consumer, one producer
		var got string
		g.run(func() { got = q.pop() })
		g.run(func() { q.add(1) })
		g.start.Done()
		if w := g.wait(); w != "" {
			if w == "parked" {
				return &Violation{"Pop:consumer-parked-beside-item", "a consumer and a producer started together: the add returned, the consumer sleeps beside the item"}
			}
			return &Violation{"Pop:" + keyOf(w), w}
		}
		if got != "v:1" {
			return &Violation{"Pop:result-neither-item-nor-closed", "the consumer returned " + got}
		}
		return nil
	}
	const consumers = 4
	res := make([]string, consumers)
	for i := 0; i < consumers; i++ {
		i := i
		g.run(func() { res[i] = q.pop() })
	}
	g.run(func() { q.close() })
	g.start.Done()
	if w := g.wait(); w != "" {
		if w == "parked" {
			return &Violation{"Close:blocked-consumer-not-released", fmt.Sprintf("%d consumers and a Close started together: Close returned, a consumer is still parked", consumers)}
		}
		return &Violation{"Pop:" + keyOf(w), w}
	}
	return checkResults("Pop", res, 0, map[string]bool{"closed": true})
}

// ChildMain is `<cmd> stressrun <class> <kind> <rounds>`: prints `ok` or `violation<TAB>key<TAB>description`.
func ChildMain(args []string) {
	if len(args) != 3 || !Valid(args[0], args[1]) {
		fmt.Println("bad-op")
		return
	}
	n := 0
	fmt.Sscanf(args[2], "%d", &n)
	if v := Run(args[0], args[1], n); v != nil {
		fmt.Printf("violation\t%s\t%s\n", v.Key, v.What)
		return
	}
	fmt.Println("ok")
}

type gateProc struct {
	gate chan struct{}
	ran  *int64
}

func (p gateProc) Do(ctx context.Context) (interface{}, error) {
	if p.gate != nil {
		<-p.gate
	}
	atomic.AddInt64(p.ran, 1)
	return nil, nil
}

// runnerRound: what the queue's clauses (nothing lost; PopAnyway drains after close; close releases the blocked
// consumer) mean for the one in-package user of async.Q.
func runnerRound(round int) *Violation {
	r := async.NewRunnerQ(async.WithQSize(0))
	r.Run()
	var ran int64
	var g group
	g.start.Add(1)
	m := round % 4
	gate := make(chan struct{})
	if m > 0 {
		g.run(func() { _, _ = r.AsyncProc(context.Background(), gateProc{gate, &ran}) })
	}
	g.start.Done()
	// the loop is now inside the gated call (or idle in PopAnyway); queue m-1 more calls behind it
	for i := 1; i < m; i++ {
		g.run(func() { _, _ = r.AsyncProc(context.Background(), gateProc{nil, &ran}) })
	}
	if err := c12sched.Settle(10 * time.Second); err != nil {
		return &Violation{"RunnerQ.Stop:no-quiescence", err.Error()}
	}
	r.Stop()
	close(gate)
	g.run(func() { r.WaitStop() })
	switch w := g.wait(); {
	case w == "parked" && int(atomic.LoadInt64(&ran)) < m:
		return &Violation{"RunnerQ.Stop:queued-call-lost", fmt.Sprintf("%d calls were accepted before Stop, %d were executed; a caller waits for ever", m, ran)}
	case w == "parked":
		return &Violation{"RunnerQ.Stop:loop-not-ended", "Stop returned, the runner loop is still blocked (WaitStop does not return)"}
	case w != "":
		return &Violation{"RunnerQ.Stop:" + keyOf(w), w}
	}
	if int(ran) != m {
		return &Violation{"RunnerQ.Stop:queued-call-lost", fmt.Sprintf("%d calls were accepted before Stop, %d were executed", m, ran)}
	}
	return nil
}

// runnerCapRound: RunnerQ passes its size option to async.NewQ, whose contract is "0 (or negative) = no limit".
// Calls are issued with an already cancelled context: the add happens first, then the caller returns ctx.Err().
func runnerCapRound(round int) *Violation {
	ctx, cancel := context.WithCancel(context.Background())
	cancel()
	var ran int64
	fill := func(r *async.RunnerQ, n int) (accepted int, firstRefusal string) {
		for i := 0; i < n; i++ {
			_, err := r.AsyncProc(ctx, gateProc{nil, &ran})
			switch {
			case err == context.Canceled:
				accepted++
			case firstRefusal == "":
				firstRefusal = errs(err, async.ErrClosed, async.ErrFull)
			}
		}
		return
	}
	for _, size := range []int{0, -1, -8192} {
		r := async.NewRunnerQ(async.WithQSize(size))
		n := async.DefaultQSize + 10
		if acc, ref := fill(r, n); acc != n {
			return &Violation{"RunnerQ.Add:size-0-is-not-unbounded", fmt.Sprintf("NewRunnerQ(WithQSize(%d)) — 0 or less means no limit — accepted %d of %d calls, then answered %s (Size()=%d)", size, acc, n, ref, r.Size())}
		}
		if r.Size() != 0 {
			return &Violation{"RunnerQ.Size:value", fmt.Sprintf("NewRunnerQ(WithQSize(%d)).Size() = %d, the queue is unbounded", size, r.Size())}
		}
	}
	for _, size := range []int{1, 5, async.DefaultQSize} {
		r := async.NewRunnerQ(async.WithQSize(size))
		if acc, ref := fill(r, size+3); acc != size || ref != "full" {
			return &Violation{"RunnerQ.Add:full-iff-at-capacity", fmt.Sprintf("NewRunnerQ(WithQSize(%d)): %d of %d calls accepted, first refusal %q", size, acc, size+3, ref)}
		}
	}
	r := async.NewRunnerQ()
	if acc, ref := fill(r, async.DefaultQSize+3); acc != async.DefaultQSize || ref != "full" || r.Size() != async.DefaultQSize {
		return &Violation{"RunnerQ.Add:full-iff-at-capacity", fmt.Sprintf("NewRunnerQ() (default size %d): %d calls accepted, first refusal %q, Size()=%d", async.DefaultQSize, acc, ref, r.Size())}
	}
	return nil
}
