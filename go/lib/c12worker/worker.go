// Package c12worker runs the scripts of C12/C13 in a WORKER child process of the same binary, so that nothing the code
// under test does can kill or hang the correspondence runner: a fatal error (`unlock of unlocked mutex`, `all goroutines
// are asleep - deadlock!`, concurrent map writes …) or a call that never returns (forgotten Unlock with other goroutines
// alive, a wait loop without Wait) ends the worker or trips the watchdog — both become a monitor hit whose replay is
// the script, and a fresh worker takes the next script.
package c12worker

import (
	"bufio"
	"bytes"
	"encoding/json"
	"fmt"
	"io"
	"os"
	"os/exec"
	"strings"
	"sync"
	"time"

	"nvharness/lib/corr"
)

type request struct {
	Lines []string `json:"lines"`
	Tag   string   `json:"tag"`
}

type reply struct {
	Outs     []string   `json:"outs"`
	Hits     []corr.Hit `json:"hits"`
	Poisoned bool       `json:"poisoned"` // the worker leaves goroutines behind it cannot stop: replace it
}

// Poisoned is set by a runner (in the worker) when the script left something behind that would disturb later scripts
// (a goroutine spinning for ever, a mutex locked for good): the worker answers and exits.
var Poisoned bool

// Serve is `<cmd> runworker`: one JSON request per line on stdin, one JSON reply per line on stdout.
func Serve(run func(corr.Case) corr.Result) {
	in := bufio.NewReaderSize(os.Stdin, 1<<20)
	out := bufio.NewWriter(os.Stdout)
	for {
		line, err := in.ReadBytes('\n')
		if len(line) > 0 {
			var rq request
			if json.Unmarshal(line, &rq) != nil {
				os.Exit(3)
			}
			res := run(corr.Case{Lines: rq.Lines, Tag: rq.Tag})
			b, _ := json.Marshal(reply{Outs: res.Outs, Hits: res.Hits, Poisoned: Poisoned})
			out.Write(b)
			out.WriteByte('\n')
			out.Flush()
			if Poisoned {
				os.Exit(0)
			}
		}
		if err != nil {
			return
		}
	}
}

type worker struct {
	cmd    *exec.Cmd
	stdin  io.WriteCloser
	stdout *bufio.Reader
	stderr *bytes.Buffer
}

var (
	mu      sync.Mutex
	cur     *worker
	hangs   int // scripts that tripped the watchdog in this process
	Timeout = 30 * time.Second
)

// SettleTimeout is the bound a runner gives the quiescence test: 6 s, or 2 s once a script of this run has already been
// reported as never quiescing / never returning (the same cause would otherwise be paid for again and again).
func SettleTimeout() time.Duration {
	if os.Getenv("NV_FAST_FAIL") != "" {
		return 2 * time.Second
	}
	return 6 * time.Second
}

var fastFail bool

var (
	strikes = map[string]int{}    // "<kind>|<what>" → how often
	broken  = map[string]string{} // kind → the fatal outcome that reached three strikes
)

func strike(kind, what string) {
	strikes[kind+"|"+what]++
	if strikes[kind+"|"+what] >= 3 {
		broken[kind] = what
	}
}

func start() (*worker, error) {
	cmd := exec.Command(os.Args[0], "runworker")
	if fastFail {
		cmd.Env = append(os.Environ(), "NV_FAST_FAIL=1")
	}
	stdin, err := cmd.StdinPipe()
	if err != nil {
		return nil, err
	}
	so, err := cmd.StdoutPipe()
	if err != nil {
		return nil, err
	}
	w := &worker{cmd: cmd, stdin: stdin, stdout: bufio.NewReaderSize(so, 1<<20), stderr: &bytes.Buffer{}}
	cmd.Stderr = w.stderr
	if err := cmd.Start(); err != nil {
		return nil, err
	}
	return w, nil
}

func (w *worker) kill() {
	_ = w.stdin.Close()
	if w.cmd.Process != nil {
		_ = w.cmd.Process.Kill()
	}
	_ = w.cmd.Wait()
}

func kindOf(c corr.Case) string {
	if len(c.Lines) > 0 {
		f := strings.Fields(c.Lines[0])
		if len(f) >= 2 && (f[0] == "new" || f[0] == "cnew") {
			return f[1]
		}
	}
	return "none"
}

// errTail: the informative part of what the dead worker wrote (the fatal error line and the first frames).
func errTail(s string) string {
	if i := strings.Index(s, "fatal error:"); i >= 0 {
		s = s[i:]
	} else if i := strings.Index(s, "panic:"); i >= 0 {
		s = s[i:]
	}
	lines := strings.Split(s, "\n")
	if len(lines) > 12 {
		lines = lines[:12]
	}
	return strings.Join(lines, " / ")
}

// Run executes one script in the worker. A dead worker or a tripped watchdog gives a result with a hit.
func Run(prop string, c corr.Case) corr.Result {
	mu.Lock()
	defer mu.Unlock()
	fail := func(out, what, detail string) corr.Result {
		if out != "skipped" {
			strike(kindOf(c), what)
		}
		res := corr.Result{Hits: []corr.Hit{{Key: prop + ":" + kindOf(c) + ":" + what, What: detail}}}
		for range c.Lines {
			res.Outs = append(res.Outs, out)
		}
		return res
	}
	// circuit breaker: once the same fatal outcome has been reported three times for a queue type, further scripts on
	// that type are not run any more (each would cost a watchdog / quiescence bound and say the same thing)
	if k := kindOf(c); broken[k] != "" && strikes[k+"|"+broken[k]] >= 3 {
		return fail("skipped", "not-run-after-repeated-"+broken[k], "not run: three earlier scripts on this queue type already ended with `"+broken[k]+"` (see that hit for the replay)")
	}
	if cur == nil {
		w, err := start()
		if err != nil {
			fmt.Fprintln(os.Stderr, "harness error: cannot start the worker:", err)
			os.Exit(2)
		}
		cur = w
	}
	w := cur
	b, _ := json.Marshal(request{Lines: c.Lines, Tag: c.Tag})
	if _, err := w.stdin.Write(append(b, '\n')); err != nil {
		cur = nil
		w.kill()
		return fail("crashed", "crash", "the worker process was gone before the script started: "+errTail(w.stderr.String()))
	}
	type answer struct {
		line []byte
		err  error
	}
	ch := make(chan answer, 1)
	go func() {
		line, err := w.stdout.ReadBytes('\n')
		ch <- answer{line, err}
	}()
	limit := Timeout
	if hangs > 0 {
		limit = 8 * time.Second // do not pay the full watchdog again and again for the same cause
	}
	select {
	case a := <-ch:
		if a.err != nil || len(a.line) == 0 {
			cur = nil
			w.kill()
			tail := w.stderr.String()
			if strings.Contains(tail, "harness error") && !strings.Contains(tail, "fatal error:") {
				fmt.Fprintln(os.Stderr, tail)
				os.Exit(2)
			}
			return fail("crashed", "fatal-error-or-crash", "the process running this script died: "+errTail(tail))
		}
		var rp reply
		if json.Unmarshal(a.line, &rp) != nil {
			cur = nil
			w.kill()
			return fail("crashed", "fatal-error-or-crash", "unreadable answer from the worker: "+errTail(w.stderr.String()))
		}
		if rp.Poisoned {
			cur = nil
			w.kill()
			fastFail = true
			for _, h := range rp.Hits {
				if i := strings.LastIndex(h.Key, ":"); i >= 0 && (strings.HasSuffix(h.Key, "never-quiesces") || strings.HasSuffix(h.Key, "does-not-terminate")) {
					strike(kindOf(c), h.Key[i+1:])
				}
			}
		}
		return corr.Result{Outs: rp.Outs, Hits: rp.Hits}
	case <-time.After(limit):
		hangs++
		fastFail = true
		cur = nil
		w.kill()
		return fail("hung", "call-never-returns", fmt.Sprintf("the script did not finish within %v: a call of the queue API on the script's own thread never returned (a lock that is never released, or a loop that never ends)", limit))
	}
}
