// Package c08x holds what the C08 and C09 commands share: canonical printing of iterator results,
// the boolean-array reference used by the Go-side property monitors, the sparse-threshold hook
// handling, and the extractor helpers (shape facts + synthetic scalar kernels for go2lean).
package c08x

import (
	"fmt"
	"reflect"
	"strconv"
	"strings"

	"github.com/pinealctx/neptune/bitmap1024"
)

// Elem is the set of element types of the bitmap iterators.
type Elem interface {
	~int8 | ~int16 | ~int32 | ~uint32 | ~int64
}

// DefaultMagic is the threshold found at process start (before any script changed it).
var DefaultMagic = bitmap1024.VerifSparseMagic()

// SetMagic clamps to int32 (the oracle keeps the unclamped Int; generators stay inside int32).
func SetMagic(m int64) { bitmap1024.VerifSetSparseMagic(int32(m)) }

// Fill is the content of the test slice before an iterator runs (same formula in the oracle).
func Fill[T Elem](n int) []T {
	s := make([]T, n)
	for k := range s {
		s[k] = T(37*k + 11)
	}
	return s
}

func ShowVals[T Elem](s []T) string {
	var b strings.Builder
	b.WriteByte('[')
	for i, v := range s {
		if i > 0 {
			b.WriteByte(',')
		}
		b.WriteString(strconv.FormatInt(int64(v), 10))
	}
	b.WriteByte(']')
	return b.String()
}

// IterCall runs one Iter*/RIter* call on a freshly filled slice. ok=false: the call panicked.
func IterCall[T Elem](slen, pos int, add int64, n int, f func(s []T, pos int, add T, n int) int) (s []T, c int, ok bool) {
	s = Fill[T](slen)
	defer func() {
		if r := recover(); r != nil {
			ok = false
		}
	}()
	c = f(s, pos, T(add), n)
	return s, c, true
}

func ShowIter[T Elem](s []T, c int, ok bool) string {
	if !ok {
		return "panic"
	}
	return fmt.Sprintf("c=%d s=%s", c, ShowVals(s))
}

// GetNCall runs one GetNAs*/RGetNAs* call.
func GetNCall[T Elem](n int, f func(n int) []T) (s []T, ok bool) {
	defer func() {
		if r := recover(); r != nil {
			ok = false
		}
	}()
	return f(n), true
}

func ShowGetN[T Elem](s []T, ok bool) string {
	if !ok {
		return "panic"
	}
	if s == nil {
		return "nil"
	}
	return ShowVals(s)
}

// ---------------------------------------------------------------- reference (boolean array)

// Members64 lists the set bits of a word, ascending (plain shifts; independent of math/bits).
func Members64(w uint64) []int {
	var out []int
	for i := 0; i < 64; i++ {
		if (w>>uint(i))&1 == 1 {
			out = append(out, i)
		}
	}
	return out
}

// Members1024 lists the members of a bitmap read word by word.
func Members1024(b bitmap1024.Bit1024) []int {
	var out []int
	for k := 0; k < len(b); k++ {
		for _, i := range Members64(uint64(b[k])) {
			out = append(out, 64*k+i)
		}
	}
	return out
}

func Reversed(xs []int) []int {
	out := make([]int, len(xs))
	for i, x := range xs {
		out[len(xs)-1-i] = x
	}
	return out
}

// ExpectIter is the property restated: the first min(n, len) members in the direction's order, each offset by
// add (in T's arithmetic), written from pos; everything else untouched; that count returned.
// applicable=false when the precondition (pos >= 0 and room in the slice) does not hold.
func ExpectIter[T Elem](members []int, rev bool, slen, pos int, add int64, n int) (want []T, cnt int, applicable bool) {
	ms := members
	if rev {
		ms = Reversed(members)
	}
	k := n
	if k < 0 {
		k = 0
	}
	if k > len(ms) {
		k = len(ms)
	}
	if k > 0 && (pos < 0 || pos+k > slen) {
		return nil, 0, false
	}
	want = Fill[T](slen)
	for j := 0; j < k; j++ {
		want[pos+j] = T(int64(ms[j])) + T(add)
	}
	return want, k, true
}

func EqualVals[T Elem](a, b []T) bool {
	if len(a) != len(b) {
		return false
	}
	for i := range a {
		if a[i] != b[i] {
			return false
		}
	}
	return true
}

// ExpectGetN: the list a GetN call must return (nil when empty).
func ExpectGetN[T Elem](members []int, rev bool, add int64, n int) []T {
	ms := members
	if rev {
		ms = Reversed(members)
	}
	if n > len(ms) {
		n = len(ms)
	}
	if n <= 0 {
		return nil
	}
	out := make([]T, n)
	for j := 0; j < n; j++ {
		out[j] = T(int64(ms[j])) + T(add)
	}
	return out
}

// ---------------------------------------------------------------- parsing

func ParseHex64(s string) (uint64, bool) {
	if s == "" || len(s) > 16 || strings.ToLower(s) != s {
		return 0, false
	}
	v, err := strconv.ParseUint(s, 16, 64)
	return v, err == nil
}

func ParseMap(s string) (bitmap1024.Bit1024, bool) {
	parts := strings.Split(s, ",")
	if len(parts) != 16 {
		return nil, false
	}
	b := bitmap1024.NewBit1024()
	for i, p := range parts {
		v, ok := ParseHex64(p)
		if !ok {
			return nil, false
		}
		b[i] = bitmap1024.Bit64(v)
	}
	return b, true
}

func ShowMap(b bitmap1024.Bit1024) string {
	parts := make([]string, len(b))
	for i := range b {
		parts[i] = strconv.FormatUint(uint64(b[i]), 16)
	}
	return strings.Join(parts, ",")
}

// ParseInt accepts a decimal integer within [lo, hi].
func ParseInt(s string, lo, hi int64) (int64, bool) {
	if s == "" || s[0] == '+' {
		return 0, false
	}
	v, err := strconv.ParseInt(s, 10, 64)
	if err != nil || v < lo || v > hi {
		return 0, false
	}
	return v, true
}

func ParseDir(s string) (rev bool, ok bool) {
	switch s {
	case "f":
		return false, true
	case "r":
		return true, true
	}
	return false, false
}

// ---------------------------------------------------------------- process-wide invariants

// MaskTableIntact checks by behaviour that the package's single-bit mask table is what every theorem assumes
// (`u64Tab[i] = 1 << i`): on a fresh word, Set(i) yields exactly 1<<i with Len 1, and Unset(i) clears exactly bit i of a
// full word. The table is package state: anything in the process that scribbles over it breaks every bitmap.
func MaskTableIntact() (bool, string) {
	for i := 0; i < 64; i++ {
		var w bitmap1024.Bit64
		w.Set(byte(i))
		if uint64(w) != 1<<uint(i) || w.Len() != 1 {
			return false, fmt.Sprintf("fresh word after Set(%d) is %x (Len %d), expected %x", i, uint64(w), w.Len(), uint64(1)<<uint(i))
		}
		f := ^bitmap1024.Bit64(0)
		f.Unset(byte(i))
		if uint64(f) != ^(uint64(1) << uint(i)) {
			return false, fmt.Sprintf("full word after Unset(%d) is %x, expected %x", i, uint64(f), ^(uint64(1) << uint(i)))
		}
	}
	return true, ""
}

// Held is a result returned earlier by the code under test, together with a private copy taken at that moment.
// Recheck reports whether the returned slice still has its original content (a result that shares storage with a
// package-level buffer, with the receiver or with a later result is silently rewritten by later calls).
type Held struct {
	Site    string
	Recheck func() (bool, string)
}

func Hold[T Elem](site string, s []T) Held {
	snap := append([]T(nil), s...)
	return Held{Site: site, Recheck: func() (bool, string) {
		if EqualVals(s, snap) {
			return true, ""
		}
		return false, fmt.Sprintf("the slice returned earlier was %s and now reads %s", ShowVals(snap), ShowVals(s))
	}}
}

// ProbeAPI calls every exported method of the package's types once, reflectively, on throw-away values with small
// arguments, and reports the methods after which the process-wide mask table is no longer intact. It exists for
// methods the scripts do not know about (added after the model was written): whatever they compute, they must not
// damage state shared by every bitmap in the process. Panics of the probed calls are ignored.
func ProbeAPI() []string {
	big, _ := bitmap1024.NewBigU32FromI64(3*1024 + 5)
	tip := bitmap1024.NewU32BitTipFromU32(3*1024 + 5)
	bm := bitmap1024.NewBit1024()
	bm.SetI32(5)
	w := bitmap1024.Bit64(0x21)
	targets := []interface{}{big, bitmap1024.BigU32s{big}, tip, bitmap1024.U32BitTips{tip}, bm, w, &w}
	var bad []string
	if ok, _ := MaskTableIntact(); !ok {
		return nil // already damaged before the probe: nothing can be attributed
	}
	for _, tgt := range targets {
		v := reflect.ValueOf(tgt)
		t := v.Type()
		for i := 0; i < t.NumMethod(); i++ {
			m := t.Method(i)
			mt := v.Method(i).Type()
			args := make([]reflect.Value, mt.NumIn())
			for k := range args {
				args[k] = probeArg(mt.In(k))
			}
			func() {
				defer func() { _ = recover() }()
				if mt.IsVariadic() {
					v.Method(i).CallSlice(args)
				} else {
					v.Method(i).Call(args)
				}
			}()
			if ok, what := MaskTableIntact(); !ok {
				bad = append(bad, fmt.Sprintf("%s.%s: %s", t.String(), m.Name, what))
				return bad // the table stays damaged: later methods cannot be judged
			}
		}
	}
	return bad
}

func probeArg(t reflect.Type) reflect.Value {
	v := reflect.New(t).Elem()
	switch t.Kind() {
	case reflect.Int8, reflect.Uint8:
		if t.Kind() == reflect.Int8 {
			v.SetInt(5)
		} else {
			v.SetUint(5)
		}
	case reflect.Int, reflect.Int16, reflect.Int32, reflect.Int64:
		v.SetInt(3*1024 + 5)
	case reflect.Uint, reflect.Uint16, reflect.Uint32, reflect.Uint64:
		v.SetUint(3*1024 + 5)
	case reflect.Slice:
		v.Set(reflect.MakeSlice(t, 8, 8))
	case reflect.Ptr:
		v.Set(reflect.New(t.Elem()))
	}
	return v
}
