// Package c08x holds what the C08 and C09 commands share: canonical printing of iterator results,
// the boolean-array reference used by the Go-side property monitors, the sparse-threshold hook
// handling, and the extractor helpers (shape facts + synthetic scalar kernels for go2lean).
package c08x

import (
	"fmt"
	"strconv"
	"strings"

	"github.com/pinealctx/neptune/bitmap1024"
)

// Elem is the set of element types of the bitmap iterators.
type Elem interface {
	~int8 | ~int16 | ~int32 | ~uint32 | ~int64
}

// DefaultMagic is the threshold found at process start (before any script changed it).
var DefaultMagic = bitmap1024.VerifSparseMagic()

// SetMagic clamps to int32 (the oracle keeps the unclamped Int; generators stay inside int32).
func SetMagic(m int64) { bitmap1024.VerifSetSparseMagic(int32(m)) }

// Fill is the content of the test slice before an iterator runs (same formula in the oracle).
func Fill[T Elem](n int) []T {
	s := make([]T, n)
	for k := range s {
		s[k] = T(37*k + 11)
	}
	return s
}

func ShowVals[T Elem](s []T) string {
	var b strings.Builder
	b.WriteByte('[')
	for i, v := range s {
		if i > 0 {
			b.WriteByte(',')
		}
		b.WriteString(strconv.FormatInt(int64(v), 10))
	}
	b.WriteByte(']')
	return b.String()
}

// IterCall runs one Iter*/RIter* call on a freshly filled slice. ok=false: the call panicked.
func IterCall[T Elem](slen, pos int, add int64, n int, f func(s []T, pos int, add T, n int) int) (s []T, c int, ok bool) {
	s = Fill[T](slen)
	defer func() {
		if r := recover(); r != nil {
			ok = false
		}
	}()
	c = f(s, pos, T(add), n)
	return s, c, true
}

func ShowIter[T Elem](s []T, c int, ok bool) string {
	if !ok {
		return "panic"
	}
	return fmt.Sprintf("c=%d s=%s", c, ShowVals(s))
}

// GetNCall runs one GetNAs*/RGetNAs* call.
func GetNCall[T Elem](n int, f func(n int) []T) (s []T, ok bool) {
	defer func() {
		if r := recover(); r != nil {
			ok = false
		}
	}()
	return f(n), true
}

func ShowGetN[T Elem](s []T, ok bool) string {
	if !ok {
		return "panic"
	}
	if s == nil {
		return "nil"
	}
	return ShowVals(s)
}

// ---------------------------------------------------------------- reference (boolean array)

// Members64 lists the set bits of a word, ascending (plain shifts; independent of math/bits).
func Members64(w uint64) []int {
	var out []int
	for i := 0; i < 64; i++ {
		if (w>>uint(i))&1 == 1 {
			out = append(out, i)
		}
	}
	return out
}

// Members1024 lists the members of a bitmap read word by word.
func Members1024(b bitmap1024.Bit1024) []int {
	var out []int
	for k := 0; k < len(b); k++ {
		for _, i := range Members64(uint64(b[k])) {
			out = append(out, 64*k+i)
		}
	}
	return out
}

func Reversed(xs []int) []int {
	out := make([]int, len(xs))
	for i, x := range xs {
		out[len(xs)-1-i] = x
	}
	return out
}

// ExpectIter is the property restated: the first min(n, len) members in the direction's order, each offset by
// add (in T's arithmetic), written from pos; everything else untouched; that count returned.
// applicable=false when the precondition (pos >= 0 and room in the slice) does not hold.
func ExpectIter[T Elem](members []int, rev bool, slen, pos int, add int64, n int) (want []T, cnt int, applicable bool) {
	ms := members
	if rev {
		ms = Reversed(members)
	}
	k := n
	if k < 0 {
		k = 0
	}
	if k > len(ms) {
		k = len(ms)
	}
	if k > 0 && (pos < 0 || pos+k > slen) {
		return nil, 0, false
	}
	want = Fill[T](slen)
	for j := 0; j < k; j++ {
		want[pos+j] = T(int64(ms[j])) + T(add)
	}
	return want, k, true
}

func EqualVals[T Elem](a, b []T) bool {
	if len(a) != len(b) {
		return false
	}
	for i := range a {
		if a[i] != b[i] {
			return false
		}
	}
	return true
}

// ExpectGetN: the list a GetN call must return (nil when empty).
func ExpectGetN[T Elem](members []int, rev bool, add int64, n int) []T {
	ms := members
	if rev {
		ms = Reversed(members)
	}
	if n > len(ms) {
		n = len(ms)
	}
	if n <= 0 {
		return nil
	}
	out := make([]T, n)
	for j := 0; j < n; j++ {
		out[j] = T(int64(ms[j])) + T(add)
	}
	return out
}

// ---------------------------------------------------------------- parsing

func ParseHex64(s string) (uint64, bool) {
	if s == "" || len(s) > 16 || strings.ToLower(s) != s {
		return 0, false
	}
	v, err := strconv.ParseUint(s, 16, 64)
	return v, err == nil
}

func ParseMap(s string) (bitmap1024.Bit1024, bool) {
	parts := strings.Split(s, ",")
	if len(parts) != 16 {
		return nil, false
	}
	b := bitmap1024.NewBit1024()
	for i, p := range parts {
		v, ok := ParseHex64(p)
		if !ok {
			return nil, false
		}
		b[i] = bitmap1024.Bit64(v)
	}
	return b, true
}

func ShowMap(b bitmap1024.Bit1024) string {
	parts := make([]string, len(b))
	for i := range b {
		parts[i] = strconv.FormatUint(uint64(b[i]), 16)
	}
	return strings.Join(parts, ",")
}

// ParseInt accepts a decimal integer within [lo, hi].
func ParseInt(s string, lo, hi int64) (int64, bool) {
	if s == "" || s[0] == '+' {
		return 0, false
	}
	v, err := strconv.ParseInt(s, 10, 64)
	if err != nil || v < lo || v > hi {
		return 0, false
	}
	return v, true
}

func ParseDir(s string) (rev bool, ok bool) {
	switch s {
	case "f":
		return false, true
	case "r":
		return true, true
	}
	return false, false
}
