package c08x

import (
	"bytes"
	"fmt"
	"go/ast"
	"go/printer"
	"go/scanner"
	"go/token"
	"os"
	"path/filepath"
	"regexp"
	"strings"

	"nvharness/lib/go2lean"
	"nvharness/lib/gofacts"
)

// ---------------------------------------------------------------- shape facts

var intTypes = map[string]bool{"int8": true, "int16": true, "int32": true, "int64": true, "int": true,
	"uint8": true, "uint16": true, "uint32": true, "uint64": true, "uint": true, "byte": true}
var signedTypes = map[string]bool{"int8": true, "int16": true, "int32": true, "int64": true, "int": true}

// ---- comparison of a function body with an expected text, up to a consistent renaming of local identifiers

// localsOf collects the identifiers declared inside a function: receiver, parameters, results, `:=`, `var`, range.
func localsOf(fd *ast.FuncDecl) map[string]bool {
	locals := map[string]bool{}
	addFields := func(fl *ast.FieldList) {
		if fl == nil {
			return
		}
		for _, f := range fl.List {
			for _, id := range f.Names {
				locals[id.Name] = true
			}
		}
	}
	addFields(fd.Recv)
	addFields(fd.Type.Params)
	addFields(fd.Type.Results)
	ast.Inspect(fd.Body, func(x ast.Node) bool {
		switch s := x.(type) {
		case *ast.FuncLit:
			addFields(s.Type.Params)
			addFields(s.Type.Results)
		case *ast.AssignStmt:
			if s.Tok == token.DEFINE {
				for _, l := range s.Lhs {
					if id, ok := l.(*ast.Ident); ok {
						locals[id.Name] = true
					}
				}
			}
		case *ast.ValueSpec:
			for _, id := range s.Names {
				locals[id.Name] = true
			}
		case *ast.RangeStmt:
			if s.Tok == token.DEFINE {
				for _, e := range []ast.Expr{s.Key, s.Value} {
					if id, ok := e.(*ast.Ident); ok {
						locals[id.Name] = true
					}
				}
			}
		}
		return true
	})
	delete(locals, "_")
	return locals
}

type tok struct {
	t   token.Token
	lit string
}

func tokens(src string) []tok {
	var sc scanner.Scanner
	fs := token.NewFileSet()
	b := []byte(src)
	sc.Init(fs.AddFile("", fs.Base(), len(b)), b, nil, 0)
	var out []tok
	for {
		_, t, l := sc.Scan()
		if t == token.EOF {
			return out
		}
		if t == token.SEMICOLON {
			continue // statement separators are implied by the token sequence; inserted ones are not compared
		}
		if l == "" {
			l = t.String()
		}
		out = append(out, tok{t, l})
	}
}

// alphaEq: the token sequence of the actual text equals the expected one, except that identifiers declared locally in the
// actual function may be renamed consistently (a bijection; selectors after `.` and all other identifiers must match
// literally, and a local may not take the name of something else that occurs in the text).
func alphaEq(actual, expected string, locals map[string]bool) bool {
	a, e := tokens(actual), tokens(expected)
	if len(a) != len(e) {
		return false
	}
	fwd, bwd := map[string]string{}, map[string]string{}
	for i := range a {
		if a[i].t != e[i].t {
			return false
		}
		if a[i].t != token.IDENT {
			if a[i].lit != e[i].lit {
				return false
			}
			continue
		}
		afterDot := i > 0 && a[i-1].t == token.PERIOD
		x, y := a[i].lit, e[i].lit
		if x != y && (afterDot || !locals[x]) {
			return false
		}
		if afterDot {
			continue
		}
		if m, ok := fwd[x]; ok && m != y {
			return false
		}
		if m, ok := bwd[y]; ok && m != x {
			return false
		}
		fwd[x], bwd[y] = y, x
	}
	return true
}

// bodyMatches compares the body of fd with an expected (white-space-normalised) body text up to local renaming.
func bodyMatches(f *gofacts.File, fd *ast.FuncDecl, want string) bool {
	if fd == nil || fd.Body == nil {
		return false
	}
	return alphaEq(f.Src(fd.Body), want, localsOf(fd))
}

// sigOK checks `func (_ <recv>) Name(_ []T, _ int, _ T, _ int) int` (parameter names are free: they are locals).
func sigOK(f *gofacts.File, fd *ast.FuncDecl, recv, elem string) bool {
	if fd == nil || fd.Recv == nil || len(fd.Recv.List) != 1 {
		return false
	}
	fl := fd.Recv.List[0]
	if len(fl.Names) != 1 || f.Src(fl.Type) != recv {
		return false
	}
	var types []string
	for _, p := range fd.Type.Params.List {
		for range p.Names {
			types = append(types, f.Src(p.Type))
		}
	}
	res := ""
	if fd.Type.Results != nil && len(fd.Type.Results.List) == 1 && len(fd.Type.Results.List[0].Names) == 0 {
		res = f.Src(fd.Type.Results.List[0].Type)
	}
	return strings.Join(types, ",") == "[]"+elem+",int,"+elem+",int" && res == "int"
}

// paramNames returns the receiver and parameter names in order (the templates below are written with b, s, pos, add, n).
func iterTemplate64(rev bool, loopT, dval, elem string) string {
	loop, first := "for i := "+loopT+"(0); i < 64; i++", "i = bits.TrailingZeros64(uint64(w))"
	if rev {
		loop, first = "for i := "+loopT+"(63); i >= 0; i--", "i = bits.Len64(uint64(w)) - 1"
	}
	return `{ var l = b.Len() if l == 0 { return 0 } var ( c = 0 cursor = pos dirIter = sparseMagic.Load() w = b ) if l > int(dirIter) { ` + loop +
		` { if w&u64Tab[i] != 0 { if c >= n || c >= l { break } s[cursor] = ` + dval + ` + add cursor++ c++ w &= ^u64Tab[i] if w == 0 { break } } } } else { var i int for w != 0 { ` + first +
		` if c >= n || c >= l { break } s[cursor] = ` + elem + `(i) + add cursor++ c++ w &= ^u64Tab[i] } } return c }`
}

func iterTemplate1024(rev bool, callee, loopT, val string) string {
	loop := "for i := " + loopT + "(0); i < L16; i++"
	if rev {
		loop = "for i := " + loopT + "(L16 - 1); i >= 0; i--"
	}
	return `{ var ( iterN = 0 left = n cursor = pos eIterN int ) ` + loop + ` { if iterN >= n { break } eIterN = b[i].` + callee +
		`(s, cursor, B64*` + val + `+add, left) iterN += eIterN cursor += eIterN left = n - iterN } return iterN }`
}

var loopTypes = []string{"int8", "int16", "int32", "int64", "int", "uint8", "uint16", "uint32", "uint64", "uint", "byte"}

// iterShape: the body is the template for some admissible loop-variable type (any integer type going forward, a signed
// one going backward — `i >= 0` must terminate) and value form (`i` when the loop variable has the element type,
// `T(i)` otherwise or as well).
func iterShape(f *gofacts.File, recv, name, elem string, rev bool, tmpl func(loopT, val string) string) (string, string) {
	fd := f.Func(recv, name)
	want := "fwd"
	if rev {
		want = "rev"
	}
	if !sigOK(f, fd, recv, elem) {
		return "unknown", recv + "." + name + ": signature"
	}
	for _, lt := range loopTypes {
		if rev && !signedTypes[lt] {
			continue
		}
		vals := []string{elem + "(i)"}
		if lt == elem {
			vals = append(vals, "i")
		}
		for _, v := range vals {
			if bodyMatches(f, fd, tmpl(lt, v)) {
				return want, ""
			}
		}
	}
	return "unknown", recv + "." + name + ": body differs from the " + want + " template"
}

// Iter64Shape classifies one of the ten Bit64 iterator bodies.
func Iter64Shape(f *gofacts.File, name, elem string, rev bool) (string, string) {
	return iterShape(f, "Bit64", name, elem, rev, func(lt, v string) string { return iterTemplate64(rev, lt, v, elem) })
}

func Iter1024Shape(f *gofacts.File, name, elem string, rev bool) (string, string) {
	return iterShape(f, "Bit1024", name, elem, rev, func(lt, v string) string { return iterTemplate1024(rev, name, lt, v) })
}

// BodyIs compares a function body with the expected text (white space and local identifier names are free).
func BodyIs(f *gofacts.File, recv, name, want string) (string, string) {
	if bodyMatches(f, f.Func(recv, name), want) {
		return "ok", ""
	}
	n := name
	if recv != "" {
		n = recv + "." + name
	}
	return "unknown", n + ": body differs from the expected text"
}

func getNBody(elem, suffix string, thirdArg bool) string {
	a := "(s, 0, 0, n)"
	if !thirdArg {
		a = "(s, 0, n)"
	}
	return fmt.Sprintf(`{ var s = make([]%s, n) var iterN int if reverse { iterN = b.RIterAs%s%s } else { iterN = b.IterAs%s%s } if iterN == 0 { return nil } return s[:iterN] }`,
		elem, suffix, a, suffix, a)
}

type shapes struct {
	list []string
	devs []string
}

func (s *shapes) add(shape, dev string) {
	s.list = append(s.list, shape)
	if dev != "" {
		s.devs = append(s.devs, dev)
	}
}

func (s *shapes) lean() string {
	parts := make([]string, len(s.list))
	for i, x := range s.list {
		parts[i] = "." + x
	}
	return "[" + strings.Join(parts, ", ") + "]"
}

// ---------------------------------------------------------------- synthetic kernels

// Synth collects Go source of scalar kernels cut out of functions the translator cannot take whole
// (they index slices, allocate, build errors). Each kernel is assembled from expressions/statements printed from the
// current AST, so it is regenerated from the source on every run; anything not found makes the kernel absent.
type Synth struct {
	Locks  int // Lock/Unlock statements the translator dropped (none of the bitmap kernels has a mutex: must stay 0)
	consts []string
	funcs  []string
	Errs   []string
}

func printNode(fset *token.FileSet, n ast.Node) string {
	var b bytes.Buffer
	_ = printer.Fprint(&b, fset, n)
	return b.String()
}

// AddConsts copies every package-level const declaration of the file.
func (s *Synth) AddConsts(f *gofacts.File) {
	for _, d := range f.AST.Decls {
		if gd, ok := d.(*ast.GenDecl); ok && gd.Tok == token.CONST {
			s.consts = append(s.consts, printNode(f.Fset, gd))
		}
	}
}

func (s *Synth) AddFunc(src string) { s.funcs = append(s.funcs, src) }

func (s *Synth) fail(format string, a ...interface{}) {
	s.Errs = append(s.Errs, fmt.Sprintf(format, a...))
}

// Translate writes the synthetic package to a scratch directory and runs go2lean over the named kernels.
func (s *Synth) Translate(keys ...string) (string, map[string]error) {
	dir, err := os.MkdirTemp("", "nv-synth-")
	if err != nil {
		return "", map[string]error{"synth": err}
	}
	defer os.RemoveAll(dir)
	src := "package k\n\nimport \"math\"\n\nvar _ = math.MaxInt8\n\ntype BigU32 struct{ Start uint32 }\ntype U32BitTip struct{ Start uint32 }\n\n" +
		strings.Join(s.consts, "\n") + "\n\n" + strings.Join(s.funcs, "\n\n") + "\n"
	if err := os.WriteFile(filepath.Join(dir, "k.go"), []byte(src), 0o644); err != nil {
		return "", map[string]error{"synth": err}
	}
	p, err := go2lean.LoadPkg(dir, ".")
	if err != nil {
		return "", map[string]error{"synth": fmt.Errorf("synthetic package does not parse: %v", err)}
	}
	errs := p.TranslateAll(keys...)
	for _, k := range p.Kernels() {
		if k != nil {
			s.Locks += len(k.Locks)
		}
	}
	return p.Emit(), errs
}

// selKernel cuts the index arithmetic out of Bit1024.SetI32-like methods: the call statement `b[index].<call>(mod)`
// becomes `return true, index, mod`, falling off the end becomes `return false, 0, 0`.
func (s *Synth) selKernel(f *gofacts.File, name, param, call string) {
	fd := f.Func("Bit1024", name)
	if fd == nil || fd.Body == nil {
		s.fail("Bit1024.%s: missing", name)
		return
	}
	if got := f.Src(fd.Type); got != "func(i "+param+")" {
		s.fail("Bit1024.%s: signature %s", name, got)
		return
	}
	body := printNode(f.Fset, fd.Body)
	stmt := "b[index]." + call + "(mod)"
	if strings.Count(body, stmt) != 1 {
		s.fail("Bit1024.%s: statement `%s` not found exactly once", name, stmt)
		return
	}
	body = strings.Replace(body, stmt, "return true, index, mod", 1)
	body = strings.TrimSpace(body)
	body = strings.TrimSuffix(strings.TrimPrefix(body, "{"), "}")
	s.AddFunc(fmt.Sprintf("func %s_sel(i %s) (bool, %s, byte) {%s\n\treturn false, 0, 0\n}", name, param, param, body))
}

// callArg returns the source of argument idx of the single call `<recvExpr>.<method>(…)` in the function body.
func callArg(f *gofacts.File, fd *ast.FuncDecl, sel string, idx int) (string, bool) {
	var found []string
	if fd == nil || fd.Body == nil {
		return "", false
	}
	ast.Inspect(fd.Body, func(n ast.Node) bool {
		if c, ok := n.(*ast.CallExpr); ok && f.Src(c.Fun) == sel && len(c.Args) > idx {
			found = append(found, printNode(f.Fset, c.Args[idx]))
		}
		return true
	})
	if len(found) != 1 {
		return "", false
	}
	return found[0], true
}

// varInit returns the initialiser of `var <name> = <expr>` at the top level of the body.
func varInit(f *gofacts.File, fd *ast.FuncDecl, name string) (string, bool) {
	if fd == nil || fd.Body == nil {
		return "", false
	}
	for _, st := range fd.Body.List {
		ds, ok := st.(*ast.DeclStmt)
		if !ok {
			continue
		}
		gd, ok := ds.Decl.(*ast.GenDecl)
		if !ok || gd.Tok != token.VAR {
			continue
		}
		for _, sp := range gd.Specs {
			vs := sp.(*ast.ValueSpec)
			if len(vs.Names) == 1 && vs.Names[0].Name == name && len(vs.Values) == 1 && vs.Type == nil {
				return printNode(f.Fset, vs.Values[0]), true
			}
		}
	}
	return "", false
}

// firstGuard returns the condition of the first statement when it is `if <cond> { return …error… }`.
func firstGuard(f *gofacts.File, fd *ast.FuncDecl) (string, bool) {
	if fd == nil || fd.Body == nil || len(fd.Body.List) == 0 {
		return "", false
	}
	is, ok := fd.Body.List[0].(*ast.IfStmt)
	if !ok || is.Init != nil || is.Else != nil || len(is.Body.List) != 1 {
		return "", false
	}
	if _, ok := is.Body.List[0].(*ast.ReturnStmt); !ok {
		return "", false
	}
	return printNode(f.Fset, is.Cond), true
}

// ---------------------------------------------------------------- C08

type BaseCfg struct {
	Magic    string
	B64, L16 string
	L128     string
	OK       bool
	Note     string
}

var reMagic = regexp.MustCompile(`sparseMagic = atomic\.NewInt32\((-?\d+|[A-Za-z_]\w*)\)`)

// Base extracts the constants both properties depend on.
func Base(repo string) BaseCfg {
	var c BaseCfg
	src, err := os.ReadFile(filepath.Join(repo, "bitmap1024/internal/bit64.go"))
	if err != nil {
		c.Note = err.Error()
		return c
	}
	f := gofacts.MustLoad(repo, "bitmap1024/internal/bit64.go")
	var decl string
	for _, d := range f.AST.Decls {
		if gd, ok := d.(*ast.GenDecl); ok && gd.Tok == token.VAR {
			decl += f.Src(gd) + " "
		}
	}
	_ = src
	m := reMagic.FindAllStringSubmatch(decl, -1)
	if len(m) != 1 {
		c.Note = "sparseMagic initialiser not recognised"
		return c
	}
	c.Magic = m[0][1]
	if c.Magic[0] != '-' && (c.Magic[0] < '0' || c.Magic[0] > '9') {
		// a named constant of the internal package
		ip, err := go2lean.LoadPkg(repo, "bitmap1024/internal")
		v, ok := "", false
		if err == nil {
			v, ok = ip.ConstValue(c.Magic)
		}
		if !ok {
			c.Note = "sparseMagic initialiser " + c.Magic + " is not an integer constant"
			return c
		}
		c.Magic = v
	}
	p, err := go2lean.LoadPkg(repo, "bitmap1024")
	if err != nil {
		c.Note = err.Error()
		return c
	}
	var ok1, ok2 bool
	c.B64, ok1 = p.ConstValue("B64")
	c.L16, ok2 = p.ConstValue("L16")
	var ok3 bool
	c.L128, ok3 = p.ConstValue("L128")
	if !ok1 || !ok2 || !ok3 {
		c.Note = "constants B64/L16/L128 not found"
		return c
	}
	c.OK = true
	return c
}

func (c BaseCfg) Lean() string {
	if !c.OK {
		return "⟨0, 0, 0⟩" // not in Proved: the tie breaks
	}
	m := c.Magic
	if strings.HasPrefix(m, "-") {
		m = "(" + m + ")"
	}
	return fmt.Sprintf("⟨%s, %s, %s⟩", m, c.B64, c.L16)
}

// U64TabSubst is the one assumed equivalence handed to the translator (validated by the correspondence; see Trusted).
var U64TabSubst = go2lean.SubstRule{Lean: "1#64 <<< i.toNat", Why: "init() fills u64Tab[i] = 1 << i for i in [0,64) (fact tabInit); only used under the guard i <= 63"}

// ExtractC08Quiet regenerates Nv/Gen/C08.lean without printing the summary line (used by `c09 extract`, whose Tie
// module imports it).
func ExtractC08Quiet(repo, leanDir string) { extractC08(repo, leanDir, false) }

func ExtractC08(repo, leanDir string) { extractC08(repo, leanDir, true) }

func extractC08(repo, leanDir string, verbose bool) {
	f64 := gofacts.MustLoad(repo, "bitmap1024/internal/bit64.go")
	f1k := gofacts.MustLoad(repo, "bitmap1024/bit1024.go")
	base := Base(repo)

	var it64, rit64, it1k, rit1k, gn64, gn1k, al64, al1k shapes
	for _, e := range [][2]string{{"I64", "int64"}, {"I32", "int32"}, {"U32", "uint32"}, {"I16", "int16"}, {"I8", "int8"}} {
		it64.add(Iter64Shape(f64, "IterAs"+e[0], e[1], false))
		rit64.add(Iter64Shape(f64, "RIterAs"+e[0], e[1], true))
	}
	for _, e := range [][2]string{{"I64", "int64"}, {"I32", "int32"}, {"U32", "uint32"}, {"I16", "int16"}} {
		it1k.add(Iter1024Shape(f1k, "IterAs"+e[0], e[1], false))
		rit1k.add(Iter1024Shape(f1k, "RIterAs"+e[0], e[1], true))
	}
	for _, e := range [][2]string{{"I64", "int64"}, {"I32", "int32"}, {"I16", "int16"}, {"I8", "int8"}} {
		gn64.add(BodyIs(f64, "Bit64", "getNAs"+e[0], getNBody(e[1], e[0], true)))
		gn64.add(BodyIs(f64, "Bit64", "GetNAs"+e[0], "{ return b.getNAs"+e[0]+"(n, false) }"))
		gn64.add(BodyIs(f64, "Bit64", "RGetNAs"+e[0], "{ return b.getNAs"+e[0]+"(n, true) }"))
	}
	for _, e := range [][2]string{{"I64", "int64"}, {"I32", "int32"}, {"I16", "int16"}} {
		gn1k.add(BodyIs(f1k, "Bit1024", "getNAs"+e[0], getNBody(e[1], e[0], true)))
		gn1k.add(BodyIs(f1k, "Bit1024", "GetNAs"+e[0], "{ return b.getNAs"+e[0]+"(n, false) }"))
		gn1k.add(BodyIs(f1k, "Bit1024", "RGetNAs"+e[0], "{ return b.getNAs"+e[0]+"(n, true) }"))
	}
	al64.add(BodyIs(f64, "Bit64", "Len", "{ if b.Full() { return 64 } return bits.OnesCount64(uint64(b)) }"))
	al64.add(BodyIs(f64, "Bit64", "NLen", "{ return 64 - b.Len() }"))
	al64.add(BodyIs(f64, "Bit64", "Full", "{ return b == ^Bit64(0) }"))
	al64.add(BodyIs(f64, "Bit64", "Reverse", "{ return ^b }"))
	al64.add(BodyIs(f64, "Bit64", "And", "{ return b & c }"))
	al64.add(BodyIs(f64, "Bit64", "Or", "{ return b | c }"))
	al1k.add(BodyIs(f1k, "Bit1024", "Len", "{ var c int for i := 0; i < L16; i++ { c += b[i].Len() } return c }"))
	al1k.add(BodyIs(f1k, "Bit1024", "NLen", "{ return 1024 - b.Len() }"))
	al1k.add(BodyIs(f1k, "Bit1024", "Reverse", "{ var c = make([]Bit64, L16) for i := 0; i < L16; i++ { c[i] = b[i].Reverse() } return c }"))
	al1k.add(BodyIs(f1k, "Bit1024", "OrThenReverse", "{ var d = make([]Bit64, L16) for i := 0; i < L16; i++ { d[i] = b[i].Or(c[i]).Reverse() } return d }"))
	al1k.add(BodyIs(f1k, "Bit1024", "And", "{ var d = make([]Bit64, L16) for i := 0; i < L16; i++ { d[i] = b[i].And(c[i]) } return d }"))
	al1k.add(BodyIs(f1k, "Bit1024", "Or", "{ var d = make([]Bit64, L16) for i := 0; i < L16; i++ { d[i] = b[i].Or(c[i]) } return d }"))
	al1k.add(BodyIs(f1k, "Bit1024", "Equal", "{ for i := 0; i < L16; i++ { if b[i] != c[i] { return false } } return true }"))
	al1k.add(BodyIs(f1k, "", "NewBit1024", "{ return make([]Bit64, L16) }"))
	// the one `init` of internal/bit64.go, whole body (a substring test would accept anything appended to it)
	tab, tabDev := BodyIs(f64, "", "init", "{ for i := uint64(0); i < 64; i++ { u64Tab[i] = 1 << i } for i := byte(0); i < 64; i++ { seq64Buf[i] = i } }")
	nInit := 0
	for _, d := range f64.AST.Decls {
		if fd, ok := d.(*ast.FuncDecl); ok && fd.Recv == nil && fd.Name.Name == "init" {
			nInit++
		}
	}
	if nInit != 1 {
		tab, tabDev = "unknown", fmt.Sprintf("internal/bit64.go declares %d init functions", nInit)
	}
	// the four setters, whole bodies: index arithmetic, guard, and NOTHING after the Set/Unset call
	var setters shapes
	for _, e := range [][3]string{{"SetI32", "Set", ""}, {"UnsetI32", "Unset", ""}, {"SetI16", "Set", ""}, {"UnsetI16", "Unset", ""}} {
		setters.add(BodyIs(f1k, "Bit1024", e[0], "{ var index = i / B64 if index >= 0 && index < L16 { var mod = byte(i % B64) b[index]."+e[1]+"(mod) } }"))
	}

	// kernels: Bit64.Set/Unset straight from the package; the four index computations as synthetic kernels
	var kernels strings.Builder
	var kerrs []string
	kernelLocks := 0
	if p, err := go2lean.LoadPkg(repo, "bitmap1024/internal"); err != nil {
		kerrs = append(kerrs, "internal: "+err.Error())
	} else {
		for _, m := range []string{"Set", "Unset"} {
			// keyed by the method's own parameter name, so that renaming it does not make the kernel untranslatable
			if fd := f64.Func("Bit64", m); fd != nil && len(fd.Type.Params.List) == 1 && len(fd.Type.Params.List[0].Names) == 1 {
				pn := fd.Type.Params.List[0].Names[0].Name
				p.Subst["u64Tab["+pn+"]"] = go2lean.SubstRule{Lean: "1#64 <<< " + pn + ".toNat", Why: U64TabSubst.Why}
			}
		}
		kerrs = append(kerrs, go2lean.SortedErrs(p.TranslateAll("Bit64.Set", "Bit64.Unset"))...)
		kernels.WriteString(p.Emit())
		for _, k := range p.Kernels() {
			if k != nil {
				kernelLocks += len(k.Locks)
			}
		}
	}
	var syn Synth
	syn.AddConsts(f1k)
	syn.selKernel(f1k, "SetI32", "int32", "Set")
	syn.selKernel(f1k, "UnsetI32", "int32", "Unset")
	syn.selKernel(f1k, "SetI16", "int16", "Set")
	syn.selKernel(f1k, "UnsetI16", "int16", "Unset")
	kerrs = append(kerrs, syn.Errs...)
	emit, errs := syn.Translate("SetI32_sel", "UnsetI32_sel", "SetI16_sel", "UnsetI16_sel")
	kerrs = append(kerrs, go2lean.SortedErrs(errs)...)
	kernels.WriteString(emit)
	kernelLocks += syn.Locks

	var devs []string
	if kernelLocks != 0 {
		devs = append(devs, fmt.Sprintf("%d Lock/Unlock statements in the set/unset kernels", kernelLocks))
	}
	for _, s := range []*shapes{&it64, &rit64, &it1k, &rit1k, &gn64, &gn1k, &al64, &al1k, &setters} {
		devs = append(devs, s.devs...)
	}
	if tabDev != "" {
		devs = append(devs, tabDev)
	}
	if !base.OK {
		devs = append(devs, "cfg: "+base.Note)
	}

	out := "import Nv.Model.C08\nset_option linter.unusedVariables false\n" +
		"/-! GENERATED by `c08 extract` from bitmap1024/internal/bit64.go + bitmap1024/bit1024.go — do not edit. -/\n" +
		"namespace Nv.Gen.C08\n" +
		"def cfg : Nv.C08.Cfg := " + base.Lean() + "\n" +
		"def facts : Nv.C08.Facts where\n" +
		"  iter64 := " + it64.lean() + "\n  riter64 := " + rit64.lean() + "\n  iter1024 := " + it1k.lean() + "\n  riter1024 := " + rit1k.lean() +
		"\n  getN64 := " + gn64.lean() + "\n  getN1024 := " + gn1k.lean() + "\n  algebra64 := " + al64.lean() + "\n  algebra1024 := " + al1k.lean() +
		"\n  tabInit := ." + tab + "\n  setters := " + setters.lean() + fmt.Sprintf("\n  kernelLocks := %d\n\n", kernelLocks) +
		"/-! kernels translated by go2lean (assumed: `u64Tab[i]` = `1#64 <<< i.toNat`) -/\n" + kernels.String() +
		"end Nv.Gen.C08\n"
	if err := gofacts.WriteIfChanged(filepath.Join(leanDir, "Nv/Gen/C08.lean"), out); err != nil {
		fmt.Fprintln(os.Stderr, err)
		os.Exit(2)
	}
	if verbose {
		fmt.Printf("extract C08: cfg=%s deviations=%v untranslatable=%v\n", base.Lean(), devs, kerrs)
	}
}

// ---------------------------------------------------------------- C09

func classifyOffset(arg string) string {
	switch strings.ReplaceAll(gofacts.Norm(arg), " ", "") {
	case "int64(b.Start*C1K)", "int64(C1K*b.Start)":
		return "u32mul"
	case "int64(b.Start)*C1K", "C1K*int64(b.Start)", "int64(b.Start)<<10":
		return "i64mul" // exact 64-bit product; the kernel tie proves `toNat = Start*1024` for whichever spelling it is
	}
	return "unknown"
}

var reSparseBelow = regexp.MustCompile(`if \w+ < (\d+) \{ var \w+ = make\(\[\]byte, \w+\*2\)`)

const marshalBody = `{ var n = b.Len() if n == 0 { return nil } if n < NNN { var buf = make([]byte, n*2) var s = b.GetNAsI16(n) for i := 0; i < n; i++ { binary.LittleEndian.PutUint16(buf[i*2:], uint16(s[i])) } return buf } var buf = make([]byte, L128) for i := 0; i < L16; i++ { binary.LittleEndian.PutUint64(buf[i*8:], uint64(b[i])) } return buf }`
const unmarshalBody = `{ var n = len(buf) if n == 0 { return nil } if n > L128 { return fmt.Errorf("bit.1024.out.of.range:%+v", n) } if n%2 != 0 { return fmt.Errorf("bit.1024.invalid.length:%+v", n) } if n < L128 { var en = n / 2 for i := 0; i < en; i++ { var i16 = int16(binary.LittleEndian.Uint16(buf[i*2:])) if i16 < 0 || i16 > 1023 { return fmt.Errorf("bit.1024.invalid.element:%+v", i16) } b.SetI16(i16) } return nil } for i := 0; i < L16; i++ { var b64 = Bit64(binary.LittleEndian.Uint64(buf[i*8:])) b[i] = b64 } return nil }`

func listGetNBody(elem, callF, callR string, both bool) string {
	loop := "for i := 0; i < l; i++"
	return fmt.Sprintf(`{ var l = len(b) if l == 0 { return nil } var s = make([]%s, n) var ( iterN = 0 left = n pos = 0 eIterN int ) %s { if iterN >= n { break } %s iterN += eIterN pos += eIterN left = n - iterN } return s[:iterN] }`,
		elem, loop, callF)
}

func ExtractC09(repo, leanDir string) {
	f1k := gofacts.MustLoad(repo, "bitmap1024/bit1024.go")
	fb := gofacts.MustLoad(repo, "bitmap1024/bigu32.go")
	ft := gofacts.MustLoad(repo, "bitmap1024/u32bittip.go")
	base := Base(repo)
	var devs []string

	// ---- Cfg
	offset, roffset := "unknown", "unknown"
	argF, okF := callArg(fb, fb.Func("BigU32", "IterAsI64"), "b.B1024.IterAsI64", 2)
	argR, okR := callArg(fb, fb.Func("BigU32", "RIterAsI64"), "b.B1024.RIterAsI64", 2)
	if okF {
		offset = classifyOffset(argF)
	}
	if okR {
		roffset = classifyOffset(argR)
	}
	// dispatch of U32BitTip.getNAsU32: which whole-body template (see below) the function is
	tipTmpl := func(first, second string) string {
		return "{ var s = make([]uint32, n) var iterN int if reverse { iterN = b." + first + "(s, 0, n) } else { iterN = b." + second + "(s, 0, n) } if iterN == 0 { return nil } return s[:iterN] }"
	}
	dispatch := "unknown"
	if sh, _ := BodyIs(ft, "U32BitTip", "getNAsU32", tipTmpl("RIterAsU32", "IterAsU32")); sh == "ok" {
		dispatch = "straight"
	} else if sh, _ := BodyIs(ft, "U32BitTip", "getNAsU32", tipTmpl("IterAsU32", "RIterAsU32")); sh == "ok" {
		dispatch = "swapped"
	}
	c1k, sparseBelow := "0", "0"
	if p, err := go2lean.LoadPkg(repo, "bitmap1024"); err == nil {
		if v, ok := p.ConstValue("C1K"); ok {
			c1k = v
		}
	}
	mBody := f1k.Body("Bit1024", "Marshal")
	if m := reSparseBelow.FindStringSubmatch(mBody); m != nil {
		sparseBelow = m[1]
	}

	// ---- shape facts
	var bigCtor, bigGetN, tipCtor, tipIter shapes
	one := func(shape, dev string) string {
		if dev != "" {
			devs = append(devs, dev)
		}
		return shape
	}
	marshal := one(BodyIs(f1k, "Bit1024", "Marshal", strings.Replace(marshalBody, "NNN", sparseBelow, 1)))
	unmarshal := one(BodyIs(f1k, "Bit1024", "Unmarshal", unmarshalBody))
	blockRev := func(t string) string {
		return "{ return &" + t + "{ Start: b.Start, B1024: b.B1024.Reverse(), } }"
	}
	listRev := func(t, elem string) string {
		return "{ var l = len(b) if l == 0 { return nil } var c = make(" + t + ", l) for i := 0; i < l; i++ { c[i] = &" + elem + "{} c[i].Start = b[i].Start c[i].B1024 = b[i].B1024.Reverse() } return c }"
	}
	bigCtor.add(BodyIs(fb, "", "NewBigU32", "{ return &BigU32{ B1024: NewBit1024(), } }"))
	bigCtor.add(BodyIs(fb, "", "NewBigU32FromData", "{ var b = &BigU32{} b.Start = start b.B1024 = NewBit1024() var err = b.B1024.Unmarshal(buf) if err != nil { return nil, err } return b, nil }"))
	bigCtor.add(BodyIs(fb, "", "NewBigU32FromI64", `{ if i64 < 0 || i64 >= math.MaxUint32*1024 { return nil, fmt.Errorf("big.u32.unsupport.i64:%+v", i64) } var u32 = uint32(i64 / C1K) var mod = int16(i64 % C1K) var b = &BigU32{ Start: u32, B1024: NewBit1024(), } b.B1024.SetI16(mod) return b, nil }`))
	bigCtor.add(BodyIs(fb, "BigU32", "SetI64", `{ if i64 < 0 || i64 >= math.MaxUint32*1024 { return fmt.Errorf("big.u32.set.unsupport.i64:%+v", i64) } var u32 = uint32(i64 / C1K) if u32 != b.Start { return fmt.Errorf("big.u32.set.invalid.start:%+v -- %+v", u32, i64) } var mod = int16(i64 % C1K) b.B1024.SetI16(mod) return nil }`))
	bigCtor.add(BodyIs(fb, "BigU32", "Reverse", blockRev("BigU32")))
	bigGetN.add(BodyIs(fb, "BigU32", "getNAsI64", getNBody("int64", "I64", false)))
	bigGetN.add(BodyIs(fb, "BigU32", "GetNAsI64", "{ return b.getNAsI64(n, false) }"))
	bigGetN.add(BodyIs(fb, "BigU32", "RGetNAsI64", "{ return b.getNAsI64(n, true) }"))
	bigGetN.add(BodyIs(fb, "BigU32s", "getNAsI64", listGetNBody("int64", "if reverse { eIterN = b[i].RIterAsI64(s, pos, left) } else { eIterN = b[i].IterAsI64(s, pos, left) }", "", true)))
	bigGetN.add(BodyIs(fb, "BigU32s", "GetNAsI64", "{ return b.getNAsI64(n, false) }"))
	bigGetN.add(BodyIs(fb, "BigU32s", "RGetNAsI64", "{ return b.getNAsI64(n, true) }"))
	bigGetN.add(BodyIs(fb, "BigU32s", "Reverse", listRev("BigU32s", "BigU32")))
	tipCtor.add(BodyIs(ft, "", "NewU32BitTip", "{ return &U32BitTip{ B1024: NewBit1024(), } }"))
	tipCtor.add(BodyIs(ft, "", "NewU32BitTipFromData", `{ if start > MaxU32TipStart { return nil, fmt.Errorf("u32.unsupport.start:%+v", start) } var b = &U32BitTip{} b.Start = start b.B1024 = NewBit1024() var err = b.B1024.Unmarshal(buf) if err != nil { return nil, err } return b, nil }`))
	tipCtor.add(BodyIs(ft, "", "NewU32BitTipFromU32", "{ var start = u32 / C1K var mod = int16(u32 % C1K) var b = &U32BitTip{ Start: start, B1024: NewBit1024(), } b.B1024.SetI16(mod) return b }"))
	tipCtor.add(BodyIs(ft, "U32BitTip", "SetU32", `{ var start = u32 / C1K if start != b.Start { return fmt.Errorf("u32.set.invalid.start:%+v -- %+v", u32, u32) } var mod = int16(u32 % C1K) b.B1024.SetI16(mod) return nil }`))
	tipCtor.add(BodyIs(ft, "U32BitTip", "Reverse", blockRev("U32BitTip")))
	tipIter.add(BodyIs(ft, "U32BitTip", "IterAsU32", "{ return b.B1024.IterAsU32(s, pos, b.Start*C1K, n) }"))
	tipIter.add(BodyIs(ft, "U32BitTip", "RIterAsU32", "{ return b.B1024.RIterAsU32(s, pos, b.Start*C1K, n) }"))
	tipIter.add(BodyIs(ft, "U32BitTip", "GetNAsU32", "{ return b.getNAsU32(n, false) }"))
	tipIter.add(BodyIs(ft, "U32BitTip", "RGetNAsU32", "{ return b.getNAsU32(n, true) }"))
	tipIter.add(BodyIs(ft, "U32BitTips", "GetNAsU32", listGetNBody("uint32", "eIterN = b[i].IterAsU32(s, pos, left)", "", false)))
	tipIter.add(BodyIs(ft, "U32BitTips", "RGetNAsU32", strings.Replace(listGetNBody("uint32", "eIterN = b[i].RIterAsU32(s, pos, left)", "", false), "for i := 0; i < l; i++", "for i := l - 1; i >= 0; i--", 1)))
	tipIter.add(BodyIs(ft, "U32BitTips", "Reverse", listRev("U32BitTips", "U32BitTip")))
	// whole bodies of the single-block iterators: exactly one call, with the receiver's bitmap, s, pos, <offset>, n
	if okF {
		bigGetN.add(BodyIs(fb, "BigU32", "IterAsI64", "{ return b.B1024.IterAsI64(s, pos, "+gofacts.Norm(argF)+", n) }"))
	} else {
		bigGetN.add("unknown", "BigU32.IterAsI64: not a single call of b.B1024.IterAsI64")
	}
	if okR {
		bigGetN.add(BodyIs(fb, "BigU32", "RIterAsI64", "{ return b.B1024.RIterAsI64(s, pos, "+gofacts.Norm(argR)+", n) }"))
	} else {
		bigGetN.add("unknown", "BigU32.RIterAsI64: not a single call of b.B1024.RIterAsI64")
	}
	// U32BitTip.getNAsU32: the whole body is one of the two dispatch templates (which one is the Cfg fact `tipDispatch`)
	if dispatch != "unknown" {
		tipIter.add("ok", "")
	} else {
		tipIter.add("unknown", "U32BitTip.getNAsU32: body is neither dispatch template")
	}
	for _, s := range []*shapes{&bigCtor, &bigGetN, &tipCtor, &tipIter} {
		devs = append(devs, s.devs...)
	}
	if !base.OK {
		devs = append(devs, "cfg: "+base.Note)
	}

	// ---- kernels (synthetic: expressions cut out of the constructors / iterators)
	var syn Synth
	var keys []string
	syn.AddConsts(f1k)
	syn.AddConsts(fb)
	syn.AddConsts(ft)
	if okF {
		syn.AddFunc("func (b *BigU32) IterOffset() int64 {\n\treturn " + argF + "\n}")
		keys = append(keys, "BigU32.IterOffset")
	} else {
		syn.fail("BigU32.IterAsI64: offset argument not found")
	}
	if okR {
		syn.AddFunc("func (b *BigU32) RIterOffset() int64 {\n\treturn " + argR + "\n}")
		keys = append(keys, "BigU32.RIterOffset")
	} else {
		syn.fail("BigU32.RIterAsI64: offset argument not found")
	}
	for _, m := range [][2]string{{"IterAsU32", "IterOffset"}, {"RIterAsU32", "RIterOffset"}} {
		if a, ok := callArg(ft, ft.Func("U32BitTip", m[0]), "b.B1024."+m[0], 2); ok {
			syn.AddFunc("func (b *U32BitTip) " + m[1] + "() uint32 {\n\treturn " + a + "\n}")
			keys = append(keys, "U32BitTip."+m[1])
		} else {
			syn.fail("U32BitTip.%s: offset argument not found", m[0])
		}
	}
	selI64 := func(name string, fd *ast.FuncDecl) {
		g, ok1 := firstGuard(fb, fd)
		u, ok2 := varInit(fb, fd, "u32")
		m, ok3 := varInit(fb, fd, "mod")
		if !ok1 || !ok2 || !ok3 {
			syn.fail("%s: guard / u32 / mod not found", name)
			return
		}
		syn.AddFunc(fmt.Sprintf("func %s_sel(i64 int64) (bool, uint32, int16) {\n\tif %s {\n\t\treturn false, 0, 0\n\t}\n\tvar u32 = %s\n\tvar mod = %s\n\treturn true, u32, mod\n}", name, g, u, m))
		keys = append(keys, name+"_sel")
	}
	selI64("NewBigU32FromI64", fb.Func("", "NewBigU32FromI64"))
	selI64("BigU32SetI64", fb.Func("BigU32", "SetI64"))
	selU32 := func(name string, fd *ast.FuncDecl) {
		st, ok1 := varInit(ft, fd, "start")
		m, ok2 := varInit(ft, fd, "mod")
		if !ok1 || !ok2 {
			syn.fail("%s: start / mod not found", name)
			return
		}
		syn.AddFunc(fmt.Sprintf("func %s_sel(u32 uint32) (uint32, int16) {\n\tvar start = %s\n\tvar mod = %s\n\treturn start, mod\n}", name, st, m))
		keys = append(keys, name+"_sel")
	}
	selU32("NewU32BitTipFromU32", ft.Func("", "NewU32BitTipFromU32"))
	selU32("U32BitTipSetU32", ft.Func("U32BitTip", "SetU32"))
	syn.AddFunc("func MaxTipStart() uint32 {\n\treturn MaxU32TipStart\n}")
	keys = append(keys, "MaxTipStart")
	emit, errs := syn.Translate(keys...)
	kerrs := append(append([]string{}, syn.Errs...), go2lean.SortedErrs(errs)...)

	l128 := base.L128
	if l128 == "" {
		l128 = "0"
	}
	cfg := fmt.Sprintf("⟨%s, .%s, .%s, .%s, %s, %s, %s⟩", base.Lean(), offset, roffset, dispatch, c1k, sparseBelow, l128)
	out := "import Nv.Model.C09\nset_option linter.unusedVariables false\n" +
		"/-! GENERATED by `c09 extract` from bitmap1024/{bit1024,bigu32,u32bittip}.go + internal/bit64.go — do not edit. -/\n" +
		"namespace Nv.Gen.C09\n" +
		"def cfg : Nv.C09.Cfg := " + cfg + "\n" +
		"def facts : Nv.C09.Facts where\n" +
		"  marshal := ." + marshal + "\n  unmarshal := ." + unmarshal + "\n  bigCtor := " + bigCtor.lean() + "\n  bigGetN := " + bigGetN.lean() +
		"\n  tipCtor := " + tipCtor.lean() + "\n  tipIter := " + tipIter.lean() + "\n\n" +
		"/-! kernels translated by go2lean from expressions cut out of the constructors and iterators -/\n" + emit +
		"end Nv.Gen.C09\n"
	if err := gofacts.WriteIfChanged(filepath.Join(leanDir, "Nv/Gen/C09.lean"), out); err != nil {
		fmt.Fprintln(os.Stderr, err)
		os.Exit(2)
	}
	fmt.Printf("extract C09: cfg=%s deviations=%v untranslatable=%v\n", cfg, devs, kerrs)
	// the C09 theorems are built on the C08 model: regenerate its facts and kernels too (Nv/Tie/C09 re-checks them)
	ExtractC08(repo, leanDir)
}
