package c06wrap

import (
	"encoding/json"
	"go/scanner"
	"go/token"
	"math/bits"
	"os"
	"path/filepath"
	"sort"
	"strconv"
	"strings"
)

// MineConsts returns the integer literals (value ≥ 256) that occur in the given source files of repo and are NOT in
// `baseline` (the literals of the code the model was written against). A literal that appears in an edited function is
// the cheapest hint at a data-dependent branch ("one timestamp in 2^20"): the generators of C06/C07 build boundary
// scripts around such values (a fuzzing dictionary), so that a broken tie comes with a concrete failing input.
// On the unchanged tree the result is empty and nothing is added.
func MineConsts(repo string, files []string, baseline []uint64) []uint64 {
	base := map[uint64]bool{}
	for _, b := range baseline {
		base[b] = true
	}
	seen := map[uint64]bool{}
	var out []uint64
	for _, f := range files {
		if strings.Contains(filepath.Base(f), "verif_") {
			continue
		}
		src, err := os.ReadFile(filepath.Join(repo, f))
		if err != nil {
			continue
		}
		fset := token.NewFileSet()
		var s scanner.Scanner
		s.Init(fset.AddFile(f, fset.Base(), len(src)), src, nil, 0)
		for {
			_, tok, lit := s.Scan()
			if tok == token.EOF {
				break
			}
			if tok != token.INT {
				continue
			}
			v, err := strconv.ParseUint(strings.ReplaceAll(lit, "_", ""), 0, 64)
			if err != nil || v < 256 || base[v] || seen[v] {
				continue
			}
			seen[v] = true
			out = append(out, v)
		}
	}
	sort.Slice(out, func(i, j int) bool { return out[i] < out[j] })
	if len(out) > 12 {
		out = out[:12]
	}
	return out
}

// Patterns turns mined constants into candidate values for a timestamp / clock offset / second count:
// K, K±1 and values whose low bits are K under every mask 2^m-1 ≥ K that is itself mined or is K's own bit length,
// with a few different high parts.
func Patterns(consts []uint64) []int64 {
	seen := map[int64]bool{}
	var out []int64
	add := func(v uint64) {
		if v >= 1<<62 {
			return
		}
		if x := int64(v); !seen[x] {
			seen[x] = true
			out = append(out, x)
		}
	}
	for _, k := range consts {
		add(k)
		add(k + 1)
		add(k - 1)
		widths := map[int]bool{bits.Len64(k): true}
		for _, m := range consts {
			if m >= k && m&(m+1) == 0 { // a mask 2^w-1
				widths[bits.Len64(m)] = true
			}
		}
		for w := range widths {
			for _, h := range []uint64{1, 2, 1024, 1564, 1600, 65536, 1 << 20} {
				if w+bits.Len64(h) < 62 {
					add(h<<uint(w) | k)
				}
			}
		}
	}
	sort.Slice(out, func(i, j int) bool { return out[i] < out[j] })
	if len(out) > 60 {
		out = out[:60]
	}
	return out
}

// constsPath: next to the harness binary (.build/<key>/<P>/bin/<cmd> → …/out/<P>.mined.json); extract writes, corr reads.
func constsPath(prop string) string {
	exe, err := os.Executable()
	if err != nil {
		return ""
	}
	return filepath.Join(filepath.Dir(filepath.Dir(exe)), "out", prop+".mined.json")
}

func SaveConsts(prop string, consts []uint64) {
	if p := constsPath(prop); p != "" {
		_ = os.MkdirAll(filepath.Dir(p), 0o755)
		b, _ := json.Marshal(consts)
		_ = os.WriteFile(p, b, 0o644)
	}
}

func LoadConsts(prop string) []uint64 {
	var out []uint64
	if b, err := os.ReadFile(constsPath(prop)); err == nil {
		_ = json.Unmarshal(b, &out)
	}
	return out
}
