// Package c06wrap (helper of the C06/C07 commands) gives a kernel translated by lib/go2lean a canonical
// calling convention. go2lean orders receiver fields / package globals by first use in the source and written
// fields by first write, so a harmless reordering of statements changes the positional signature. The wrapper
// emitted here takes its parameters in a fixed order chosen by the caller, passes them to the kernel *by the Go
// form they stand for* (`n.time`, `_nodeBits`, `begin.Unix()` …) and returns the results followed by the new
// values of the named fields in a fixed order (a field the kernel never writes is returned unchanged).
package c06wrap

import (
	"fmt"
	"strings"

	"nvharness/lib/go2lean"
)

// Param is one parameter of the canonical signature.
type Param struct {
	Lean string // Lean identifier in the wrapper
	Type string // Lean type
	Go   string // the Go form it stands for (matched against go2lean.Var.Go)
}

func proj(v string, i, n int) string {
	if n == 1 {
		return v
	}
	s := v + strings.Repeat(".2", i)
	if i < n-1 {
		s += ".1"
	}
	return s
}

// Wrapper renders `def <name> <params> : <results × outs> := …` calling kernel k.
// outs are the Go forms of receiver fields whose new values are returned after the kernel's own results.
func Wrapper(k *go2lean.Kernel, name string, params []Param, outs []string) (string, error) {
	find := func(goForm string) *Param {
		for i := range params {
			if params[i].Go == goForm {
				return &params[i]
			}
		}
		return nil
	}
	var all []go2lean.Var
	all = append(all, k.Params...)
	all = append(all, k.Fields...)
	all = append(all, k.Globals...)
	all = append(all, k.Exts...)
	var args []string
	for _, v := range all {
		p := find(v.Go)
		if p == nil {
			return "", fmt.Errorf("%s reads `%s`, which the canonical signature of %s does not provide", k.Key, v.Go, name)
		}
		if p.Type != v.Type {
			return "", fmt.Errorf("%s: `%s` has type %s, the canonical signature of %s says %s", k.Key, v.Go, v.Type, name, p.Type)
		}
		args = append(args, p.Lean)
	}
	if len(k.WGlob) > 0 {
		return "", fmt.Errorf("%s writes the package variable `%s`", k.Key, k.WGlob[0].Go)
	}
	written := k.WFields
	for _, w := range written {
		ok := false
		for _, o := range outs {
			if o == w.Go {
				ok = true
			}
		}
		if !ok {
			return "", fmt.Errorf("%s writes `%s`, which the canonical signature of %s does not return", k.Key, w.Go, name)
		}
	}
	nres := len(k.Results)
	total := nres + len(written)
	var comps, types []string
	for i := 0; i < nres; i++ {
		comps = append(comps, proj("r", i, total))
		types = append(types, k.Results[i])
	}
	for _, o := range outs {
		p := find(o)
		if p == nil {
			return "", fmt.Errorf("canonical signature of %s lacks `%s`", name, o)
		}
		idx := -1
		for i, w := range written {
			if w.Go == o {
				idx = i
			}
		}
		if idx < 0 {
			comps = append(comps, p.Lean) // never written: unchanged
		} else {
			comps = append(comps, proj("r", nres+idx, total))
		}
		types = append(types, p.Type)
	}
	var b strings.Builder
	fmt.Fprintf(&b, "/-- canonical calling convention of `%s` (arguments passed by the Go form they stand for) -/\ndef %s", k.Lean, name)
	for _, p := range params {
		fmt.Fprintf(&b, " (%s : %s)", p.Lean, p.Type)
	}
	fmt.Fprintf(&b, " : %s :=\n  let r := %s %s\n  (%s)\n\n", strings.Join(types, " × "), k.Lean, strings.Join(args, " "), strings.Join(comps, ", "))
	return b.String(), nil
}
