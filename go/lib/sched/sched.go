// Package sched drives blocking calls of the code under test deterministically: each call
// runs in its own goroutine and the script proceeds only when the process is *quiescent* —
// a stop-the-world runtime.Stack snapshot shows every goroutine that has a frame of the code
// under test or of the harness either gone or parked on a synchronisation primitive.
// Because each call runs until it returns or parks, a script is a sequence of critical-section
// executions, i.e. a path of the Lean transition system.
//
// It never guesses: an unknown goroutine state, or no quiescent snapshot within the deadline,
// is an error (harness error, exit 2), not a verdict.
package sched

import (
	"bytes"
	"fmt"
	"regexp"
	"runtime"
	"strconv"
	"strings"
	"sync"
	"time"
)

// states in which a goroutine cannot make progress by itself
var parked = map[string]bool{
	"chan receive": true, "chan send": true, "select": true, "select (no cases)": true,
	"sync.Cond.Wait": true, "sync.Mutex.Lock": true, "sync.RWMutex.RLock": true, "sync.RWMutex.Lock": true,
	"semacquire": true, "sync.WaitGroup.Wait": true, "IO wait": true,
	"chan receive (nil chan)": true, "chan send (nil chan)": true,
}

// states in which a goroutine is (about to be) running
var active = map[string]bool{"running": true, "runnable": true, "syscall": true, "sleep": true, "waiting": true,
	"GC assist wait": true, "GC sweep wait": true, "GC scavenge wait": true, "GC worker (idle)": true, "GC assist marking": true,
	"preempted": true, "copystack": true, "force gc (idle)": true, "finalizer wait": true, "debug call": true,
	"GC mark termination": true, "stopping the world": true, "trace reader (blocked)": true, "GC background sweeper wait": true,
	"GC weak to strong wait": true, "flushing proc caches": true, "GC worker (active)": true}

type Task struct {
	Name string
	id   uint64
	mu   sync.Mutex
	done bool
	res  string
}

// Done reports whether the call returned, and its canonical result.
func (t *Task) Done() (bool, string) {
	t.mu.Lock()
	defer t.mu.Unlock()
	return t.done, t.res
}

// State is "ret:<result>" or "parked".
func (t *Task) State() string {
	if d, r := t.Done(); d {
		return "ret:" + r
	}
	return "parked"
}

type S struct {
	// Markers select the goroutines that matter: any goroutine whose stack text contains one of them.
	Markers []string
	// Ignore: goroutines whose stack contains one of these are not considered (e.g. long-lived background loops known to be idle).
	Ignore  []string
	Timeout time.Duration
	tasks   []*Task
}

func New() *S {
	// "/go/cmd/c" matches the file paths of a harness command's own `main` package (its frames print as `main.f`)
	return &S{Markers: []string{"github.com/pinealctx/neptune/", "nvharness/", "/go/cmd/c"}, Timeout: 10 * time.Second}
}

// isParked: the goroutine cannot make progress by itself. `semacquire` counts only when the goroutine sits in
// package sync (WaitGroup.Wait, …): a goroutine that allocates while the snapshot's own stop-the-world holds
// runtime.worldsema (mallocgc → gcStart → semacquire) also shows as [semacquire], with a user frame on top
// (runtime frames are hidden) — it resumes as soon as the snapshot ends, so it is active.
func isParked(g G) bool {
	if !parked[g.State] {
		return false
	}
	if g.State == "semacquire" {
		lines := strings.SplitN(g.Text, "\n", 3)
		return len(lines) >= 2 && strings.HasPrefix(lines[1], "sync.")
	}
	return true
}

var goidRe = regexp.MustCompile(`^goroutine (\d+) \[`)

func goid() uint64 {
	var buf [64]byte
	n := runtime.Stack(buf[:], false)
	m := goidRe.FindSubmatch(buf[:n])
	if m == nil {
		return 0
	}
	id, _ := strconv.ParseUint(string(m[1]), 10, 64)
	return id
}

// Go starts fn in its own goroutine. fn returns the canonical result of the call.
// A panic in fn is captured as result "panic:<value>".
func (s *S) Go(name string, fn func() string) *Task {
	t := &Task{Name: name}
	started := make(chan struct{})
	go func() {
		t.id = goid()
		close(started)
		var r string
		defer func() {
			if p := recover(); p != nil {
				r = fmt.Sprintf("panic:%v", p)
			}
			t.mu.Lock()
			t.done, t.res = true, r
			t.mu.Unlock()
		}()
		r = fn()
	}()
	<-started
	s.tasks = append(s.tasks, t)
	return t
}

type G struct {
	ID    uint64
	State string
	Text  string
}

var hdrRe = regexp.MustCompile(`(?m)^goroutine (\d+) \[([^\]]+)\]:$`)

var (
	snapMu  sync.Mutex
	snapBuf = make([]byte, 1<<20) // reused: allocating 1 MB per snapshot made settle-heavy runs an order of magnitude slower
)

// Snapshot returns all goroutines (stop-the-world).
func Snapshot() []G {
	snapMu.Lock()
	defer snapMu.Unlock()
	var buf []byte
	for {
		n := runtime.Stack(snapBuf, true)
		if n < len(snapBuf) {
			buf = snapBuf[:n]
			break
		}
		snapBuf = make([]byte, 2*len(snapBuf))
	}
	var gs []G
	for _, blk := range bytes.Split(buf, []byte("\n\n")) {
		m := hdrRe.FindSubmatch(blk)
		if m == nil {
			continue
		}
		id, _ := strconv.ParseUint(string(m[1]), 10, 64)
		st := string(m[2])
		if i := strings.Index(st, ","); i >= 0 {
			st = st[:i]
		}
		gs = append(gs, G{ID: id, State: strings.TrimSpace(st), Text: string(blk)})
	}
	return gs
}

func (s *S) relevant(g G, self uint64) bool {
	if g.ID == self {
		return false
	}
	for _, ig := range s.Ignore {
		if strings.Contains(g.Text, ig) {
			return false
		}
	}
	for _, m := range s.Markers {
		if strings.Contains(g.Text, m) {
			return true
		}
	}
	return false
}

// Settle waits for quiescence. It returns an error when the deadline passes or an unknown state is seen.
func (s *S) Settle() error {
	self := goid()
	deadline := time.Now().Add(s.Timeout)
	sleep := 20 * time.Microsecond
	var last string
	for {
		runtime.Gosched()
		quiet := true
		for _, g := range Snapshot() {
			if !s.relevant(g, self) {
				continue
			}
			if isParked(g) {
				continue
			}
			if !active[g.State] && !parked[g.State] {
				return fmt.Errorf("sched: unknown goroutine state %q:\n%s", g.State, g.Text)
			}
			quiet = false
			last = g.Text
			break
		}
		if quiet {
			// a finished task's goroutine may still be unwinding without any marker frame: make sure flags are final
			return nil
		}
		if time.Now().After(deadline) {
			return fmt.Errorf("sched: no quiescent snapshot within %v; still active:\n%s", s.Timeout, last)
		}
		time.Sleep(sleep)
		if sleep < 2*time.Millisecond {
			sleep *= 2
		}
	}
}

// Parked lists the goroutines with a marker frame that are parked, with their states (for diagnostics / monitors).
func (s *S) Parked() []G {
	self := goid()
	var out []G
	for _, g := range Snapshot() {
		if s.relevant(g, self) && isParked(g) {
			out = append(out, g)
		}
	}
	return out
}

// CountParkedIn counts parked goroutines whose stack contains substr (e.g. a function name of the code under test).
func (s *S) CountParkedIn(substr string) int {
	n := 0
	for _, g := range s.Parked() {
		if strings.Contains(g.Text, substr) {
			n++
		}
	}
	return n
}

// Tasks returns the tasks started so far.
func (s *S) Tasks() []*Task { return s.tasks }

// Leaked returns the tasks still parked (never returned) — after a script's final Settle these are stuck callers.
func (s *S) Leaked() []*Task {
	var out []*Task
	for _, t := range s.tasks {
		if d, _ := t.Done(); !d {
			out = append(out, t)
		}
	}
	return out
}
