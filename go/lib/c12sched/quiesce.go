// Package c12sched is the quiescence test used by the C12/C13 runners. It is lib/sched's Settle with one difference,
// found while building C13: a goroutine shown as `[semacquire]` is NOT treated as parked. None of the queues under
// test parks on a bare semaphore (they use sync.Mutex, sync.Cond and channels, which have their own wait reasons), but
// a consumer goroutine that allocates while the harness goroutine is inside runtime.Stack(all) can block in
// runtime.gcStart / stopTheWorld on a runtime-internal semaphore — it is then about to continue by itself, and
// counting it as parked produced a premature "quiescent" verdict in about 1 of 2000 scripts.
// As in lib/sched nothing is guessed: an unknown state or no quiescent snapshot within the deadline is an error.
package c12sched

import (
	"fmt"
	"regexp"
	"runtime"
	"strconv"
	"strings"
	"time"

	"nvharness/lib/sched"
)

var parked = map[string]bool{
	"chan receive": true, "chan send": true, "select": true, "select (no cases)": true,
	"sync.Cond.Wait": true, "sync.Mutex.Lock": true, "sync.RWMutex.RLock": true, "sync.RWMutex.Lock": true,
	"sync.WaitGroup.Wait": true, "chan receive (nil chan)": true, "chan send (nil chan)": true,
}

var active = map[string]bool{"running": true, "runnable": true, "syscall": true, "sleep": true, "waiting": true,
	"GC assist wait": true, "GC sweep wait": true, "GC scavenge wait": true, "GC worker (idle)": true, "GC assist marking": true,
	"preempted": true, "copystack": true, "force gc (idle)": true, "finalizer wait": true, "debug call": true,
	"GC mark termination": true, "stopping the world": true, "trace reader (blocked)": true, "GC background sweeper wait": true,
	"GC weak to strong wait": true, "flushing proc caches": true, "GC worker (active)": true, "IO wait": true,
	"semacquire": true}

var markers = []string{"github.com/pinealctx/neptune/", "nvharness/"}

var goidRe = regexp.MustCompile(`^goroutine (\d+) \[`)

func goid() uint64 {
	var buf [64]byte
	n := runtime.Stack(buf[:], false)
	m := goidRe.FindSubmatch(buf[:n])
	if m == nil {
		return 0
	}
	id, _ := strconv.ParseUint(string(m[1]), 10, 64)
	return id
}

// RetryFrames: a goroutine asleep in time.Sleep under one of these frames is in a retry loop (an *Anyway add refused for
// capacity): it cannot make progress until somebody else acts, so it counts as parked. Set by the C13 runner.
var RetryFrames []string

func retrying(g sched.G) bool {
	if g.State != "sleep" || !strings.Contains(g.Text, "time.Sleep") {
		return false
	}
	for _, f := range RetryFrames {
		if strings.Contains(g.Text, f) {
			return true
		}
	}
	return false
}

// Ignore: goroutines with one of these frames are not considered (set by a runner after it has reported a call that
// never terminates and had to leave its goroutine behind).
var Ignore []string

func relevant(g sched.G, self uint64) bool {
	if g.ID == self {
		return false
	}
	for _, ig := range Ignore {
		if strings.Contains(g.Text, ig) {
			return false
		}
	}
	for _, m := range markers {
		if strings.Contains(g.Text, m) {
			return true
		}
	}
	return false
}

// Settle waits until one stop-the-world snapshot shows every goroutine with a frame of the code under test or of the
// harness (other than the caller) parked on a synchronisation primitive of the code under test.
func Settle(timeout time.Duration) error {
	self := goid()
	deadline := time.Now().Add(timeout)
	sleep := 10 * time.Microsecond
	var last string
	for {
		runtime.Gosched()
		quiet := true
		for _, g := range sched.Snapshot() {
			if !relevant(g, self) || parked[g.State] || retrying(g) {
				continue
			}
			if !active[g.State] {
				return fmt.Errorf("c12sched: unknown goroutine state %q:\n%s", g.State, g.Text)
			}
			quiet, last = false, g.Text
			break
		}
		if quiet {
			return nil
		}
		if time.Now().After(deadline) {
			return fmt.Errorf("c12sched: no quiescent snapshot within %v; still active:\n%s", timeout, last)
		}
		time.Sleep(sleep) // pacing only; the verdict comes from the snapshot
		if sleep < time.Millisecond {
			sleep *= 2
		}
	}
}

// DoneOrRetrying waits until done() holds, or until a snapshot shows a goroutine with one of the given frames asleep in
// time.Sleep — i.e. the call has been refused at least once and is in its retry loop. It reports which; the verdict
// comes from the snapshot (the goroutine's state and frames), never from elapsed time.
func DoneOrRetrying(done func() bool, frames []string, timeout time.Duration) (retrying bool, err error) {
	deadline := time.Now().Add(timeout)
	for {
		if done() {
			return false, nil
		}
		runtime.Gosched()
		for _, g := range sched.Snapshot() {
			if g.State != "sleep" || !strings.Contains(g.Text, "time.Sleep") {
				continue
			}
			for _, f := range frames {
				if strings.Contains(g.Text, f) {
					if done() { // it may have finished meanwhile (a different goroutine was seen)
						return false, nil
					}
					return true, nil
				}
			}
		}
		if time.Now().After(deadline) {
			return false, fmt.Errorf("c12sched: call neither returned nor entered its retry loop within %v", timeout)
		}
		time.Sleep(20 * time.Microsecond)
	}
}

// Fingerprint maps every relevant goroutine (frames of the code under test or of the harness, the caller excluded) to
// the top frame of its stack: function line and file:line+offset. A goroutine that is parked — or was made runnable
// but has not executed a single instruction since — keeps its fingerprint; one that ran does not (it is gone, or
// stopped somewhere else). Used to certify that nobody ran during a burst of producer calls.
func Fingerprint() map[uint64]string {
	self := goid()
	out := map[uint64]string{}
	for _, g := range sched.Snapshot() {
		if !relevant(g, self) {
			continue
		}
		lines := strings.SplitN(g.Text, "\n", 4)
		fp := ""
		if len(lines) >= 3 {
			fp = lines[1] + "|" + strings.TrimSpace(lines[2])
		}
		out[g.ID] = fp
	}
	return out
}

// SameFingerprints: exactly the same goroutines with exactly the same top frames.
func SameFingerprints(a, b map[uint64]string) bool {
	if len(a) != len(b) {
		return false
	}
	for id, fp := range a {
		if b[id] != fp {
			return false
		}
	}
	return true
}
