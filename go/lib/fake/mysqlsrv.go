package fake

import (
	"context"
	"io"
	"net"
	"strings"
	"sync"
)

// MySQLServer is a tiny in-memory MySQL protocol server (handshake, COM_PING, COM_QUERY, COM_QUIT) reached through
// go-sql-driver's RegisterDialContext. It records every statement and can be told to fail the transaction statements,
// so that code which builds its handle from a DSN (gormx.New) can be driven without a database.
//
//	statements containing "dup_me" fail with 1062 (duplicate entry);
//	FailBegin / FailCommit / FailRollback make START TRANSACTION / COMMIT / ROLLBACK fail with 1205.
type MySQLServer struct {
	mu           sync.Mutex
	log          []string
	FailBegin    bool
	FailCommit   bool
	FailRollback bool
}

func (f *MySQLServer) Queries() []string {
	f.mu.Lock()
	defer f.mu.Unlock()
	return append([]string(nil), f.log...)
}

func (f *MySQLServer) ResetLog() {
	f.mu.Lock()
	f.log = nil
	f.mu.Unlock()
}

func (f *MySQLServer) Set(failBegin, failCommit, failRollback bool) {
	f.mu.Lock()
	f.FailBegin, f.FailCommit, f.FailRollback = failBegin, failCommit, failRollback
	f.mu.Unlock()
}

// Dial is the function to register: gomysql.RegisterDialContext(name, srv.Dial).
func (f *MySQLServer) Dial(context.Context, string) (net.Conn, error) {
	cli, srv := net.Pipe()
	go f.serve(srv)
	return cli, nil
}

func errPacket(code uint16, state, msg string) []byte {
	p := []byte{0xff, byte(code), byte(code >> 8), '#'}
	p = append(p, state...)
	return append(p, msg...)
}

func (f *MySQLServer) serve(c net.Conn) {
	defer c.Close()
	write := func(seq byte, p []byte) {
		n := len(p)
		_, _ = c.Write(append([]byte{byte(n), byte(n >> 8), byte(n >> 16), seq}, p...))
	}
	read := func() ([]byte, error) {
		var hdr [4]byte
		if _, err := io.ReadFull(c, hdr[:]); err != nil {
			return nil, err
		}
		p := make([]byte, int(hdr[0])|int(hdr[1])<<8|int(hdr[2])<<16)
		_, err := io.ReadFull(c, p)
		return p, err
	}
	ok := []byte{0, 0, 0, 2, 0, 0, 0}
	eof := []byte{0xfe, 0, 0, 2, 0}
	caps := uint32(0x1 | 0x200 | 0x2000 | 0x8000 | 0x80000)
	hs := []byte{10}
	hs = append(hs, "8.0.30\x00"...)
	hs = append(hs, 1, 0, 0, 0)
	hs = append(hs, "abcdefgh\x00"...)
	hs = append(hs, byte(caps), byte(caps>>8), 45, 2, 0, byte(caps>>16), byte(caps>>24), 21)
	hs = append(hs, make([]byte, 10)...)
	hs = append(hs, "ijklmnopqrst\x00mysql_native_password\x00"...)
	write(0, hs)
	if _, err := read(); err != nil {
		return
	}
	write(2, ok)
	for {
		p, err := read()
		if err != nil || len(p) == 0 || p[0] == 0x01 {
			return
		}
		if p[0] != 0x03 {
			write(1, ok)
			continue
		}
		q := string(p[1:])
		f.mu.Lock()
		f.log = append(f.log, q)
		fb, fc, fr := f.FailBegin, f.FailCommit, f.FailRollback
		f.mu.Unlock()
		switch {
		case strings.Contains(q, "dup_me"):
			write(1, errPacket(1062, "23000", "Duplicate entry 'dup_me'"))
		case q == "START TRANSACTION" && fb, q == "COMMIT" && fc, q == "ROLLBACK" && fr:
			write(1, errPacket(1205, "HY000", "Lock wait timeout exceeded; try restarting transaction"))
		case strings.HasPrefix(q, "SELECT VERSION()"):
			write(1, []byte{1})
			col := []byte("\x03def\x00\x00\x00\x09VERSION()\x00\x0c")
			col = append(col, 45, 0, 60, 0, 0, 0, 0xfd, 0, 0, 0, 0, 0)
			write(2, col)
			write(3, eof)
			write(4, []byte("\x068.0.30"))
			write(5, eof)
		default:
			write(1, ok)
		}
	}
}
