// Package fake holds in-process stand-ins for external services.
// sqldrv.go: a database/sql driver that records Begin/Exec/Commit/Rollback and can fail each.
package fake

import (
	"context"
	"database/sql/driver"
	"errors"
	"io"
	"strings"
	"sync"
)

type SQLLog struct {
	mu           sync.Mutex
	Events       []string
	FailBegin    bool
	// BeginErrs[i], when non-nil, is what the i-th begin ATTEMPT returns (transient failures: the first attempt fails,
	// a retry would succeed); attempts beyond the list follow FailBegin
	BeginErrs []error
	begins    int
	FailCommit   bool
	FailRollback bool
	// CommitErr / RollbackErr, when set, are returned instead of ErrCommit / ErrRollback (well-known sentinel errors)
	CommitErr   error
	RollbackErr error
}

func (l *SQLLog) add(e string) {
	l.mu.Lock()
	l.Events = append(l.Events, e)
	l.mu.Unlock()
}

func (l *SQLLog) Snapshot() []string {
	l.mu.Lock()
	defer l.mu.Unlock()
	return append([]string{}, l.Events...)
}

var (
	ErrBegin    = errors.New("fake: begin failed")
	ErrCommit   = errors.New("fake: commit failed")
	ErrRollback = errors.New("fake: rollback failed")
)

type SQLConnector struct{ Log *SQLLog }

func (c SQLConnector) Connect(context.Context) (driver.Conn, error) { return &sqlConn{log: c.Log}, nil }
func (c SQLConnector) Driver() driver.Driver                        { return sqlDriver{} }

type sqlDriver struct{}

func (sqlDriver) Open(string) (driver.Conn, error) { return nil, errors.New("fake: use connector") }

type sqlConn struct{ log *SQLLog }

func (c *sqlConn) Prepare(q string) (driver.Stmt, error) { return &sqlStmt{c: c, q: q}, nil }
func (c *sqlConn) Close() error                          { return nil }
func (c *sqlConn) Begin() (driver.Tx, error) {
	return c.BeginTx(context.Background(), driver.TxOptions{})
}
func (c *sqlConn) BeginTx(context.Context, driver.TxOptions) (driver.Tx, error) {
	c.log.add("begin")
	c.log.mu.Lock()
	i := c.log.begins
	c.log.begins++
	var berr error
	if i < len(c.log.BeginErrs) {
		berr = c.log.BeginErrs[i]
	} else if c.log.FailBegin {
		berr = ErrBegin
	}
	c.log.mu.Unlock()
	if berr != nil {
		return nil, berr
	}
	return &sqlTx{c: c}, nil
}
func (c *sqlConn) ExecContext(_ context.Context, q string, _ []driver.NamedValue) (driver.Result, error) {
	c.log.add("exec:" + strings.TrimSpace(q))
	return driver.RowsAffected(1), nil
}
func (c *sqlConn) QueryContext(_ context.Context, q string, _ []driver.NamedValue) (driver.Rows, error) {
	c.log.add("query:" + strings.TrimSpace(q))
	return emptyRows{}, nil
}
func (c *sqlConn) Ping(context.Context) error { return nil }

type sqlTx struct{ c *sqlConn }

func (t *sqlTx) Commit() error {
	t.c.log.add("commit")
	if t.c.log.FailCommit {
		if t.c.log.CommitErr != nil {
			return t.c.log.CommitErr
		}
		return ErrCommit
	}
	return nil
}
func (t *sqlTx) Rollback() error {
	t.c.log.add("rollback")
	if t.c.log.FailRollback {
		if t.c.log.RollbackErr != nil {
			return t.c.log.RollbackErr
		}
		return ErrRollback
	}
	return nil
}

type sqlStmt struct {
	c *sqlConn
	q string
}

func (s *sqlStmt) Close() error  { return nil }
func (s *sqlStmt) NumInput() int { return -1 }
func (s *sqlStmt) Exec([]driver.Value) (driver.Result, error) {
	s.c.log.add("exec:" + strings.TrimSpace(s.q))
	return driver.RowsAffected(1), nil
}
func (s *sqlStmt) Query([]driver.Value) (driver.Rows, error) {
	s.c.log.add("query:" + strings.TrimSpace(s.q))
	return emptyRows{}, nil
}

type emptyRows struct{}

func (emptyRows) Columns() []string         { return []string{"x"} }
func (emptyRows) Close() error              { return nil }
func (emptyRows) Next([]driver.Value) error { return io.EOF }
