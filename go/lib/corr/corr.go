// Package corr is the correspondence driver shared by all properties: it runs
// generated operation scripts on the real implementation (through a Runner
// supplied by the property's command) and on the compiled Lean oracle, diffs
// the two canonical output streams, shrinks disagreements and monitor hits, and
// writes one result file that bin/check turns into the verdict and the evidence.
package corr

import (
	"bufio"
	"bytes"
	"crypto/sha256"
	"encoding/hex"
	"encoding/json"
	"flag"
	"fmt"
	"os"
	"os/exec"
	"path/filepath"
	"sort"
	"strconv"
	"strings"
	"time"

	"nvharness/lib/rng"
)

// Case is one script: one operation per line. The first line must (re)initialise the oracle state.
type Case struct {
	Lines []string
	// Tag names the generator class that produced it (for the distribution table).
	Tag string
}

// Hit is a property-monitor violation observed on the real implementation, independent of the Lean model.
type Hit struct {
	Key  string `json:"key"`  // stable identifier of the failing input class / call site (matched against known_findings.json)
	What string `json:"what"` // human-readable description
}

// Result of running one case on the implementation.
type Result struct {
	Outs []string // exactly one canonical line per input line
	Hits []Hit    // monitor violations (P-observables only)
}

// Spec is what a property command supplies.
type Spec struct {
	Property string
	// Gen produces case i for the tier ("quick", "thorough", "search"). Must draw randomness only from r.
	Gen func(r *rng.R, tier string, i int) Case
	// Count of cases per tier.
	Count func(tier string) int
	// Fixed cases always run first (witnesses of known defects, boundary cases).
	Fixed func() []Case
	// Run executes a case on the real implementation. Must not panic (recover inside).
	Run func(c Case) Result
	// NonTrivial tells whether a case counts as non-trivial for the evidence.
	NonTrivial func(c Case, r Result) bool
	Rule       string
	// TOnly reports whether line i of a script is a T-observable (internal) — a disagreement there is a broken tie, not a P violation.
	TOnly func(line string) bool
	// Accept lets a property accept an oracle line that denotes a set of outcomes, e.g. "{a|b}". Default: set syntax + equality.
	Accept func(oracle, impl string) bool
	// Classify gives the known-findings key for a P-disagreement (line, expected, observed). Default "<prop>:corr:<op>".
	Classify    func(c Case, line int, want, got string) string
	Assumptions []string
	// Shards (optional) splits the generated cases over that many child processes of the same binary (case i goes to
	// shard i mod n); useful for scheduler-driven scripts, which cannot run concurrently inside one process.
	Shards func(tier string) int
	// Trusted lists property-specific additions to the trusted base (modelled-not-verified libraries etc.).
	Trusted []string
}

type Disagreement struct {
	Kind   string   `json:"kind"` // "P" or "T"
	Key    string   `json:"key"`
	Script []string `json:"script"`
	Line   int      `json:"line"`
	Want   string   `json:"oracle"`
	Got    string   `json:"impl"`
	Tag    string   `json:"tag"`
}

type MonitorHit struct {
	Key    string   `json:"key"`
	What   string   `json:"what"`
	Script []string `json:"script"`
	Tag    string   `json:"tag"`
}

type Output struct {
	Property           string         `json:"property"`
	Tier               string         `json:"tier"`
	Seed               uint64         `json:"seed"`
	Evaluations        int            `json:"evaluations"`
	DistinctNonTrivial int            `json:"distinct_nontrivial"`
	Ops                int            `json:"ops"`
	Rule               string         `json:"rule"`
	Samples            [][]string     `json:"samples"`
	SampleOutputs      [][]string     `json:"sample_outputs"`
	Distribution       map[string]int `json:"distribution"`
	OutputKinds        map[string]int `json:"output_kinds"`
	Disagreements      []Disagreement `json:"disagreements"`
	MonitorHits        []MonitorHit   `json:"monitor_hits"`
	Assumptions        []string       `json:"assumptions"`
	Trusted            []string       `json:"trusted"`
	WallS              float64        `json:"wall_s"`
	OracleCmd          string         `json:"oracle_cmd"`
	HarnessError       string         `json:"harness_error,omitempty"`
	Unreproduced       int            `json:"unreproduced_disagreements"` // seen once, not reproducible in 3 re-runs: not reported
	NTHashes           []string       `json:"nt_hashes,omitempty"`        // shard mode only: hashes of the distinct non-trivial cases
}

// RunOracle feeds all lines to the oracle executable and returns its output lines.
func RunOracle(oracle string, lines []string) ([]string, error) {
	cmd := exec.Command(oracle)
	var in bytes.Buffer
	for _, l := range lines {
		in.WriteString(l)
		in.WriteByte('\n')
	}
	cmd.Stdin = &in
	var out, errb bytes.Buffer
	cmd.Stdout = &out
	cmd.Stderr = &errb
	if err := cmd.Run(); err != nil {
		return nil, fmt.Errorf("oracle %s: %v: %s", oracle, err, errb.String())
	}
	var res []string
	sc := bufio.NewScanner(&out)
	sc.Buffer(make([]byte, 1<<20), 1<<28)
	for sc.Scan() {
		res = append(res, sc.Text())
	}
	if len(res) != len(lines) {
		return nil, fmt.Errorf("oracle %s: %d output lines for %d input lines", oracle, len(res), len(lines))
	}
	return res, nil
}

// DefaultAccept: the oracle line is either equal to the implementation line or a set "{a|b|c}" containing it.
func DefaultAccept(oracle, impl string) bool {
	if oracle == impl {
		return true
	}
	if strings.HasPrefix(oracle, "{") && strings.HasSuffix(oracle, "}") {
		for _, alt := range strings.Split(oracle[1:len(oracle)-1], "|") {
			if alt == impl {
				return true
			}
		}
	}
	return false
}

func opOf(line string) string {
	f := strings.Fields(line)
	if len(f) == 0 {
		return ""
	}
	return f[0]
}

func outKind(line string) string {
	// first token up to '=' / ':' / ' ' — enough to see which result kinds were hit
	for i, c := range line {
		if c == ' ' || c == ':' || c == '=' || c == '[' {
			if i == 0 {
				return string(c)
			}
			return line[:i]
		}
	}
	if _, err := strconv.ParseInt(line, 10, 64); err == nil {
		return "<int>"
	}
	return line
}

func hashCase(c Case) string {
	h := sha256.New()
	for _, l := range c.Lines {
		h.Write([]byte(l))
		h.Write([]byte{'\n'})
	}
	return hex.EncodeToString(h.Sum(nil)[:12])
}

type engine struct {
	spec   Spec
	oracle string
}

// firstMismatch runs impl + oracle on the case and returns the first disagreeing line (or -1).
func (e *engine) firstMismatch(c Case) (int, string, string, Result, error) {
	res := e.spec.Run(c)
	if len(res.Outs) != len(c.Lines) {
		return -1, "", "", res, fmt.Errorf("runner returned %d lines for %d ops", len(res.Outs), len(c.Lines))
	}
	want, err := RunOracle(e.oracle, c.Lines)
	if err != nil {
		return -1, "", "", res, err
	}
	acc := e.spec.Accept
	if acc == nil {
		acc = DefaultAccept
	}
	for i := range want {
		if !acc(want[i], res.Outs[i]) {
			return i, want[i], res.Outs[i], res, nil
		}
	}
	return -1, "", "", res, nil
}

// shrink removes lines (never line 0, the init line) while pred stays true.
func shrink(c Case, pred func(Case) bool, budget time.Duration) Case {
	deadline := time.Now().Add(budget)
	cur := c
	n := 2
	for len(cur.Lines) > 2 && time.Now().Before(deadline) {
		body := cur.Lines[1:]
		chunk := (len(body) + n - 1) / n
		reduced := false
		for start := 0; start < len(body); start += chunk {
			end := start + chunk
			if end > len(body) {
				end = len(body)
			}
			cand := Case{Tag: cur.Tag, Lines: append([]string{cur.Lines[0]}, append(append([]string{}, body[:start]...), body[end:]...)...)}
			if len(cand.Lines) < len(cur.Lines) && pred(cand) {
				cur = cand
				if n > 2 {
					n--
				}
				reduced = true
				break
			}
			if time.Now().After(deadline) {
				break
			}
		}
		if !reduced {
			if chunk <= 1 {
				break
			}
			n *= 2
			if n > len(body) {
				n = len(body)
			}
		}
	}
	return cur
}

// Main is the entry point of `<cmd> corr …`.
func Main(spec Spec, args []string) {
	fs := flag.NewFlagSet("corr", flag.ExitOnError)
	oracle := fs.String("oracle", "", "path of the compiled Lean oracle")
	seed := fs.Uint64("seed", 1, "PRNG seed")
	tier := fs.String("tier", "quick", "quick | thorough | search")
	out := fs.String("out", "", "result JSON")
	corpus := fs.String("corpus", "", "directory of *.ops corpus scripts (run first)")
	replay := fs.String("replay", "", "replay one script file (ops, one per line) and print both streams")
	maxDis := fs.Int("max-disagreements", 5, "stop collecting after this many")
	shard := fs.String("shard", "", "internal: i/n — run only the generated cases with index ≡ i mod n")
	_ = fs.Parse(args)
	start := time.Now()
	e := &engine{spec: spec, oracle: *oracle}
	shardI, shardN := 0, 1
	if *shard != "" {
		fmt.Sscanf(*shard, "%d/%d", &shardI, &shardN)
	} else if spec.Shards != nil && *replay == "" {
		if n := spec.Shards(*tier); n > 1 {
			os.Exit(runSharded(n, args, *out, start))
		}
	}

	if *replay != "" {
		os.Exit(replayFile(e, *replay))
	}

	o := Output{Property: spec.Property, Tier: *tier, Seed: *seed, Rule: spec.Rule, Distribution: map[string]int{},
		OutputKinds: map[string]int{}, Assumptions: spec.Assumptions, Trusted: spec.Trusted, OracleCmd: *oracle,
		Disagreements: []Disagreement{}, MonitorHits: []MonitorHit{}}
	fail := func(err error) {
		o.HarnessError = err.Error()
		o.WallS = time.Since(start).Seconds()
		writeJSON(*out, o)
		fmt.Fprintln(os.Stderr, "harness error:", err)
		os.Exit(2)
	}

	var cases []Case
	if *corpus != "" {
		files, _ := filepath.Glob(filepath.Join(*corpus, "*.ops"))
		sort.Strings(files)
		for _, f := range files {
			b, err := os.ReadFile(f)
			if err != nil {
				continue
			}
			var ls []string
			for _, l := range strings.Split(string(b), "\n") {
				if strings.TrimSpace(l) != "" && !strings.HasPrefix(l, "#") {
					ls = append(ls, l)
				}
			}
			if len(ls) > 0 {
				cases = append(cases, Case{Lines: ls, Tag: "corpus"})
			}
		}
	}
	if spec.Fixed != nil {
		cases = append(cases, spec.Fixed()...)
	}
	if shardN > 1 { // corpus + fixed cases are split like the generated ones
		var mine []Case
		for i, c := range cases {
			if i%shardN == shardI {
				mine = append(mine, c)
			}
		}
		cases = mine
	}
	root := rng.New(*seed)
	n := spec.Count(*tier)
	for i := 0; i < n; i++ {
		if i%shardN != shardI {
			continue
		}
		cases = append(cases, spec.Gen(root.Fork(uint64(i)), *tier, i))
	}

	// run the implementation
	results := make([]Result, len(cases))
	var all []string
	for i, c := range cases {
		results[i] = spec.Run(c)
		if len(results[i].Outs) != len(c.Lines) {
			fail(fmt.Errorf("runner returned %d lines for %d ops in case %d (%v)", len(results[i].Outs), len(c.Lines), i, c.Lines))
		}
		all = append(all, c.Lines...)
	}
	var want []string
	if *oracle != "" {
		var err error
		want, err = RunOracle(*oracle, all)
		if err != nil {
			fail(err)
		}
	}
	acc := spec.Accept
	if acc == nil {
		acc = DefaultAccept
	}
	seen := map[string]bool{}
	pos := 0
	hitKeys := map[string]bool{}
	disKeys := map[string]bool{}
	for i, c := range cases {
		o.Evaluations++
		o.Ops += len(c.Lines)
		o.Distribution["case:"+c.Tag]++
		for j, l := range c.Lines {
			o.Distribution["op:"+opOf(l)]++
			o.OutputKinds[outKind(results[i].Outs[j])]++
		}
		h := hashCase(c)
		if !seen[h] {
			seen[h] = true
			if spec.NonTrivial == nil || spec.NonTrivial(c, results[i]) {
				o.DistinctNonTrivial++
				if shardN > 1 {
					o.NTHashes = append(o.NTHashes, h)
				}
			}
		}
		if len(o.Samples) < 3 && len(c.Lines) > 1 && c.Tag != "corpus" && (i%7 == 3 || len(cases) < 10) {
			o.Samples = append(o.Samples, c.Lines)
			o.SampleOutputs = append(o.SampleOutputs, results[i].Outs)
		}
		// monitor hits
		for _, hit := range results[i].Hits {
			if hitKeys[hit.Key] || len(o.MonitorHits) >= *maxDis {
				continue
			}
			hitKeys[hit.Key] = true
			key := hit.Key
			small := shrink(c, func(cand Case) bool {
				for _, h2 := range spec.Run(cand).Hits {
					if h2.Key == key {
						return true
					}
				}
				return false
			}, 5*time.Second)
			what := hit.What
			for _, h2 := range spec.Run(small).Hits {
				if h2.Key == key {
					what = h2.What
				}
			}
			o.MonitorHits = append(o.MonitorHits, MonitorHit{Key: key, What: what, Script: small.Lines, Tag: c.Tag})
		}
		// disagreements
		for j := range c.Lines {
			if want == nil {
				break // no oracle (it did not build): monitors only
			}
			w, g := want[pos+j], results[i].Outs[j]
			if acc(w, g) {
				continue
			}
			kind := "P"
			if spec.TOnly != nil && spec.TOnly(c.Lines[j]) {
				kind = "T"
			}
			key := spec.Property + ":corr:" + opOf(c.Lines[j])
			if spec.Classify != nil {
				key = spec.Classify(c, j, w, g)
			}
			if disKeys[key] || len(o.Disagreements) >= *maxDis {
				break
			}
			// a disagreement must reproduce: the script is run again (up to 3 times); if the implementation and the oracle
			// agree every time, it was a scheduling artefact of that one run — counted, reported to stderr, not a verdict
			repro := false
			for try := 0; try < 3 && !repro; try++ {
				k, _, _, _, err := e.firstMismatch(c)
				repro = err == nil && k >= 0
			}
			if !repro {
				o.Unreproduced++
				fmt.Fprintf(os.Stderr, "corr: disagreement did not reproduce in 3 re-runs (ignored): %v line %d oracle=%q impl=%q\n", c.Lines, j, w, g)
				break
			}
			disKeys[key] = true
			small := shrink(c, func(cand Case) bool {
				k, _, _, _, err := e.firstMismatch(cand)
				return err == nil && k >= 0
			}, 8*time.Second)
			k, w2, g2, _, err := e.firstMismatch(small)
			if err != nil || k < 0 {
				small, k, w2, g2 = c, j, w, g
			}
			if spec.TOnly != nil {
				kind = "P"
				if spec.TOnly(small.Lines[k]) {
					kind = "T"
				}
			}
			if spec.Classify != nil {
				key = spec.Classify(small, k, w2, g2)
			}
			o.Disagreements = append(o.Disagreements, Disagreement{Kind: kind, Key: key, Script: small.Lines, Line: k, Want: w2, Got: g2, Tag: c.Tag})
			break
		}
		pos += len(c.Lines)
	}
	if len(o.Samples) == 0 && len(cases) > 0 {
		o.Samples = append(o.Samples, cases[len(cases)-1].Lines)
		o.SampleOutputs = append(o.SampleOutputs, results[len(cases)-1].Outs)
	}
	o.WallS = time.Since(start).Seconds()
	writeJSON(*out, o)
	fmt.Printf("corr %s tier=%s seed=%d cases=%d ops=%d distinct_nontrivial=%d disagreements=%d monitor_hits=%d wall=%.1fs\n",
		spec.Property, *tier, *seed, o.Evaluations, o.Ops, o.DistinctNonTrivial, len(o.Disagreements), len(o.MonitorHits), o.WallS)
}

// runSharded re-executes this binary n times with -shard i/n and merges the result files.
func runSharded(n int, args []string, out string, start time.Time) int {
	type child struct {
		cmd  *exec.Cmd
		path string
		log  bytes.Buffer
	}
	var kids []*child
	for i := 0; i < n; i++ {
		c := &child{path: fmt.Sprintf("%s.shard%d", out, i)}
		a := append([]string{"corr"}, args...)
		a = append(a, "-shard", fmt.Sprintf("%d/%d", i, n), "-out", c.path)
		c.cmd = exec.Command(os.Args[0], a...)
		c.cmd.Stdout = &c.log
		c.cmd.Stderr = &c.log
		if err := c.cmd.Start(); err != nil {
			fmt.Fprintln(os.Stderr, "shard start:", err)
			return 2
		}
		kids = append(kids, c)
	}
	var m Output
	first := true
	rc := 0
	keys := map[string]bool{}
	nt := map[string]bool{}
	for _, c := range kids {
		if err := c.cmd.Wait(); err != nil {
			rc = 2
		}
		b, err := os.ReadFile(c.path)
		var o Output
		if err != nil || json.Unmarshal(b, &o) != nil {
			fmt.Fprintln(os.Stderr, "shard failed:", c.log.String())
			rc = 2
			continue
		}
		os.Remove(c.path)
		for _, h := range o.NTHashes {
			nt[h] = true
		}
		if first {
			m = o
			first = false
			for _, d := range m.Disagreements {
				keys["d:"+d.Key] = true
			}
			for _, h := range m.MonitorHits {
				keys["h:"+h.Key] = true
			}
			continue
		}
		m.Evaluations += o.Evaluations
		m.DistinctNonTrivial += o.DistinctNonTrivial // shards run disjoint case indices
		m.Ops += o.Ops
		m.Unreproduced += o.Unreproduced
		for k, v := range o.Distribution {
			m.Distribution[k] += v
		}
		for k, v := range o.OutputKinds {
			m.OutputKinds[k] += v
		}
		for _, d := range o.Disagreements {
			if !keys["d:"+d.Key] {
				keys["d:"+d.Key] = true
				m.Disagreements = append(m.Disagreements, d)
			}
		}
		for _, h := range o.MonitorHits {
			if !keys["h:"+h.Key] {
				keys["h:"+h.Key] = true
				m.MonitorHits = append(m.MonitorHits, h)
			}
		}
		if o.HarnessError != "" {
			m.HarnessError = o.HarnessError
		}
	}
	m.DistinctNonTrivial = len(nt) // distinct across shards
	m.NTHashes = nil
	m.WallS = time.Since(start).Seconds()
	writeJSON(out, m)
	fmt.Printf("corr %s tier=%s seed=%d shards=%d cases=%d ops=%d distinct_nontrivial=%d disagreements=%d monitor_hits=%d wall=%.1fs\n",
		m.Property, m.Tier, m.Seed, n, m.Evaluations, m.Ops, m.DistinctNonTrivial, len(m.Disagreements), len(m.MonitorHits), m.WallS)
	return rc
}

func replayFile(e *engine, path string) int {
	b, err := os.ReadFile(path)
	if err != nil {
		fmt.Fprintln(os.Stderr, err)
		return 2
	}
	var lines []string
	if strings.HasSuffix(path, ".json") {
		var v struct {
			Script []string `json:"script"`
		}
		if err := json.Unmarshal(b, &v); err != nil {
			fmt.Fprintln(os.Stderr, err)
			return 2
		}
		lines = v.Script
	} else {
		for _, l := range strings.Split(string(b), "\n") {
			if strings.TrimSpace(l) != "" && !strings.HasPrefix(l, "#") {
				lines = append(lines, l)
			}
		}
	}
	c := Case{Lines: lines, Tag: "replay"}
	res := e.spec.Run(c)
	want, err := RunOracle(e.oracle, c.Lines)
	if err != nil {
		fmt.Fprintln(os.Stderr, err)
		return 2
	}
	rc := 0
	acc := e.spec.Accept
	if acc == nil {
		acc = DefaultAccept
	}
	for i, l := range c.Lines {
		mark := "  "
		if i < len(res.Outs) && !acc(want[i], res.Outs[i]) {
			mark = "!!"
			rc = 1
		}
		got := ""
		if i < len(res.Outs) {
			got = res.Outs[i]
		}
		fmt.Printf("%s %-40s impl=%s oracle=%s\n", mark, l, got, want[i])
	}
	for _, h := range res.Hits {
		fmt.Printf("MONITOR %s: %s\n", h.Key, h.What)
		rc = 1
	}
	return rc
}

func writeJSON(path string, v interface{}) {
	b, _ := json.MarshalIndent(v, "", " ")
	if path == "" {
		os.Stdout.Write(b)
		return
	}
	_ = os.MkdirAll(filepath.Dir(path), 0o755)
	_ = os.WriteFile(path, b, 0o644)
}
