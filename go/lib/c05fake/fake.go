// Package c05fake is an in-process redis fake for property C05: a RESP2 server behind net.Pipe that a real
// go-redis client talks to, with a virtual millisecond clock. It implements exactly the commands the
// redis-backed TTL cache issues (SET [PX|EX|KEEPTTL] [NX], SETNX, GET, GETDEL, EXPIRE, multi-key DEL, cursor-paged
// SCAN MATCH/COUNT) with
// the semantics of redis 6.2+ as read from its documentation/source: a key is expired when now > when
// (keyIsExpired), expiry is evaluated lazily on access, a non-positive SET expire time is an error,
// EXPIRE with a non-positive time deletes the key. HELLO is answered with an error so that the client
// falls back to RESP2. Every command received is appended to a log (a T-observable of the check).
package c05fake

import (
	"bufio"
	"context"
	"fmt"
	"io"
	"net"
	"sort"
	"strconv"
	"strings"
	"sync"
	"time"

	"github.com/redis/go-redis/v9"
)

type entry struct {
	val    []byte
	when   int64 // absolute unix ms
	hasExp bool
}

type Server struct {
	mu    sync.Mutex
	clock func() int64 // unix milliseconds
	data  map[string]*entry
	log   []string
	// open SCAN iterations: cursor id -> where to resume
	cursors    map[uint64]scanState
	nextCursor uint64
}

type scanState struct {
	after string // resume with keys > after ("" = from the start)
	page  int    // number of pages already served in this iteration
}

func New(clock func() int64) *Server {
	return &Server{clock: clock, data: map[string]*entry{}, cursors: map[uint64]scanState{}}
}

type nopLogger struct{}

func (nopLogger) Printf(context.Context, string, ...interface{}) {}

func init() { redis.SetLogger(nopLogger{}) }

// Client returns a real go-redis client whose connections are served by this fake.
func (s *Server) Client() *redis.Client {
	return redis.NewClient(&redis.Options{
		Addr:       "c05fake",
		MaxRetries: -1,
		// real time must never decide a result: generous timeouts, so a starved machine cannot turn a round trip
		// into an i/o-timeout error (the harness watchdog reports a genuine hang as a harness error, not a verdict)
		DialTimeout:  120 * time.Second,
		ReadTimeout:  60 * time.Second,
		WriteTimeout: 60 * time.Second,
		PoolTimeout:  120 * time.Second,
		Dialer: func(ctx context.Context, network, addr string) (net.Conn, error) {
			a, b := net.Pipe()
			go s.serve(b)
			return a, nil
		},
	})
}

// Log returns the commands received so far (lower-cased command name, arguments verbatim).
func (s *Server) Log() []string {
	s.mu.Lock()
	defer s.mu.Unlock()
	return append([]string{}, s.log...)
}

// ResetLog clears the command log.
func (s *Server) ResetLog() {
	s.mu.Lock()
	defer s.mu.Unlock()
	s.log = nil
}

// Keys lists the unexpired keys (sorted).
func (s *Server) Keys() []string {
	s.mu.Lock()
	defer s.mu.Unlock()
	var ks []string
	for k := range s.data {
		if s.live(k) != nil {
			ks = append(ks, k)
		}
	}
	sort.Strings(ks)
	return ks
}

func readCommand(r *bufio.Reader) ([]string, error) {
	line, err := r.ReadString('\n')
	if err != nil {
		return nil, err
	}
	line = strings.TrimRight(line, "\r\n")
	if len(line) == 0 || line[0] != '*' {
		return nil, fmt.Errorf("c05fake: expected array, got %q", line)
	}
	n, err := strconv.Atoi(line[1:])
	if err != nil {
		return nil, err
	}
	args := make([]string, 0, n)
	for i := 0; i < n; i++ {
		h, err := r.ReadString('\n')
		if err != nil {
			return nil, err
		}
		h = strings.TrimRight(h, "\r\n")
		if len(h) == 0 || h[0] != '$' {
			return nil, fmt.Errorf("c05fake: expected bulk string, got %q", h)
		}
		l, err := strconv.Atoi(h[1:])
		if err != nil {
			return nil, err
		}
		buf := make([]byte, l+2)
		if _, err := io.ReadFull(r, buf); err != nil {
			return nil, err
		}
		args = append(args, string(buf[:l]))
	}
	return args, nil
}

func (s *Server) serve(c net.Conn) {
	defer c.Close()
	r := bufio.NewReader(c)
	for {
		args, err := readCommand(r)
		if err != nil {
			return
		}
		reply := s.exec(args)
		if _, err := c.Write([]byte(reply)); err != nil {
			return
		}
	}
}

// live returns the entry of k unless it is absent or expired (expired entries are deleted). Caller holds mu.
func (s *Server) live(k string) *entry {
	e := s.data[k]
	if e == nil {
		return nil
	}
	if e.hasExp && s.clock() > e.when {
		delete(s.data, k)
		return nil
	}
	return e
}

// globMatch is redis' stringmatchlen for the subset `*`, `?`, `[...]` (with ranges and ^) and `\\` escapes;
// unlike path.Match, `*` also matches `/`.
func globMatch(pat, s string) bool {
	for len(pat) > 0 {
		switch pat[0] {
		case '*':
			for len(pat) > 1 && pat[1] == '*' {
				pat = pat[1:]
			}
			if len(pat) == 1 {
				return true
			}
			for i := 0; i <= len(s); i++ {
				if globMatch(pat[1:], s[i:]) {
					return true
				}
			}
			return false
		case '?':
			if len(s) == 0 {
				return false
			}
			s, pat = s[1:], pat[1:]
		case '[':
			if len(s) == 0 {
				return false
			}
			p := pat[1:]
			not := len(p) > 0 && p[0] == '^'
			if not {
				p = p[1:]
			}
			match := false
			for len(p) > 0 && p[0] != ']' {
				switch {
				case p[0] == '\\' && len(p) >= 2:
					if p[1] == s[0] {
						match = true
					}
					p = p[2:]
				case len(p) >= 3 && p[1] == '-' && p[2] != ']':
					lo, hi := p[0], p[2]
					if lo > hi {
						lo, hi = hi, lo
					}
					if s[0] >= lo && s[0] <= hi {
						match = true
					}
					p = p[3:]
				default:
					if p[0] == s[0] {
						match = true
					}
					p = p[1:]
				}
			}
			if len(p) > 0 {
				p = p[1:] // the closing bracket
			}
			if match == not {
				return false
			}
			s, pat = s[1:], p
		case '\\':
			if len(pat) >= 2 {
				pat = pat[1:]
			}
			fallthrough
		default:
			if len(s) == 0 || s[0] != pat[0] {
				return false
			}
			s, pat = s[1:], pat[1:]
		}
	}
	return len(s) == 0
}

func bulk(b []byte) string { return "$" + strconv.Itoa(len(b)) + "\r\n" + string(b) + "\r\n" }

const nilBulk = "$-1\r\n"

func (s *Server) exec(args []string) string {
	if len(args) == 0 {
		return "-ERR empty command\r\n"
	}
	cmd := strings.ToLower(args[0])
	s.mu.Lock()
	defer s.mu.Unlock()
	if cmd != "hello" {
		s.log = append(s.log, strings.Join(append([]string{cmd}, args[1:]...), " "))
	}
	switch cmd {
	case "hello":
		return "-ERR unknown command 'HELLO'\r\n"
	case "ping":
		return "+PONG\r\n"
	case "set":
		if len(args) < 3 {
			return "-ERR wrong number of arguments for 'set' command\r\n"
		}
		key, val := args[1], args[2]
		var nx, keep, hasExp bool
		var dur int64
		for i := 3; i < len(args); i++ {
			switch strings.ToLower(args[i]) {
			case "nx":
				nx = true
			case "keepttl":
				keep = true
			case "px", "ex":
				if i+1 >= len(args) {
					return "-ERR syntax error\r\n"
				}
				n, err := strconv.ParseInt(args[i+1], 10, 64)
				if err != nil {
					return "-ERR value is not an integer or out of range\r\n"
				}
				if n <= 0 {
					return "-ERR invalid expire time in 'set' command\r\n"
				}
				if strings.ToLower(args[i]) == "ex" {
					n *= 1000
				}
				dur, hasExp = n, true
				i++
			default:
				return "-ERR syntax error\r\n"
			}
		}
		cur := s.live(key)
		if nx && cur != nil {
			return nilBulk
		}
		e := &entry{val: []byte(val)}
		switch {
		case hasExp:
			e.hasExp, e.when = true, s.clock()+dur
		case keep && cur != nil:
			e.hasExp, e.when = cur.hasExp, cur.when
		}
		s.data[key] = e
		return "+OK\r\n"
	case "setnx":
		if len(args) != 3 {
			return "-ERR wrong number of arguments for 'setnx' command\r\n"
		}
		if s.live(args[1]) != nil {
			return ":0\r\n"
		}
		s.data[args[1]] = &entry{val: []byte(args[2])}
		return ":1\r\n"
	case "get", "getdel":
		if len(args) != 2 {
			return "-ERR wrong number of arguments\r\n"
		}
		e := s.live(args[1])
		if e == nil {
			return nilBulk
		}
		if cmd == "getdel" {
			delete(s.data, args[1])
		}
		return bulk(e.val)
	case "expire":
		if len(args) != 3 {
			return "-ERR wrong number of arguments for 'expire' command\r\n"
		}
		n, err := strconv.ParseInt(args[2], 10, 64)
		if err != nil {
			return "-ERR value is not an integer or out of range\r\n"
		}
		e := s.live(args[1])
		if e == nil {
			return ":0\r\n"
		}
		if n <= 0 {
			delete(s.data, args[1])
			return ":1\r\n"
		}
		e.hasExp, e.when = true, s.clock()+n*1000
		return ":1\r\n"
	case "del":
		cnt := 0
		for _, k := range args[1:] {
			if s.live(k) != nil {
				cnt++
			}
			delete(s.data, k)
		}
		return ":" + strconv.Itoa(cnt) + "\r\n"
	case "scan":
		// SCAN cursor [MATCH pat] [COUNT n] — paged like real redis: COUNT (default 10) bounds the keys *examined*
		// per call, MATCH filters what was examined (so a page may hold fewer than COUNT keys, or none, with a
		// non-zero cursor), the iteration ends with cursor 0, and every key present during the whole iteration is
		// returned. A cursor stands for "resume after key X" in key order, so deletions between calls lose nothing.
		if len(args) < 2 {
			return "-ERR wrong number of arguments for 'scan' command\r\n"
		}
		cur, err := strconv.ParseUint(args[1], 10, 64)
		if err != nil {
			return "-ERR invalid cursor\r\n"
		}
		pat, count := "*", 10
		for i := 2; i+1 < len(args); i += 2 {
			switch strings.ToLower(args[i]) {
			case "match":
				pat = args[i+1]
			case "count":
				n, err := strconv.Atoi(args[i+1])
				if err != nil || n < 1 {
					return "-ERR value is not an integer or out of range\r\n"
				}
				count = n
			default:
				return "-ERR syntax error\r\n"
			}
		}
		after, page := "", 0
		if cur != 0 {
			st, ok := s.cursors[cur]
			if !ok {
				return "*2\r\n$1\r\n0\r\n*0\r\n" // unknown cursor: iteration is over
			}
			after, page = st.after, st.page
			delete(s.cursors, cur)
		}
		var all []string
		for k := range s.data {
			if s.live(k) != nil && (cur == 0 || k > after) {
				all = append(all, k)
			}
		}
		sort.Strings(all)
		// how many keys this call examines: COUNT, except that every third follow-up page is short and every
		// fourth is empty (real redis gives no lower bound per call)
		work := count
		switch {
		case page > 0 && page%4 == 2:
			work = 0
		case page > 0 && page%3 == 1 && count > 3:
			work = count - 3
		}
		if work > len(all) {
			work = len(all)
		}
		var ks []string
		for _, k := range all[:work] {
			if globMatch(pat, k) {
				ks = append(ks, k)
			}
		}
		next := uint64(0)
		if work < len(all) {
			s.nextCursor++
			next = s.nextCursor
			if work > 0 {
				after = all[work-1]
			}
			s.cursors[next] = scanState{after: after, page: page + 1}
		}
		var b strings.Builder
		cs := strconv.FormatUint(next, 10)
		b.WriteString("*2\r\n" + bulk([]byte(cs)) + "*" + strconv.Itoa(len(ks)) + "\r\n")
		for _, k := range ks {
			b.WriteString(bulk([]byte(k)))
		}
		return b.String()
	}
	return "-ERR unknown command '" + args[0] + "'\r\n"
}
