// Package rng is the single source of randomness of the harness: a splitmix64
// generator seeded from VERIF_SEED, so every run replays exactly.
package rng

type R struct{ s uint64 }

func New(seed uint64) *R { return &R{s: seed*0x9E3779B97F4A7C15 + 0x1234567} }

func (r *R) U64() uint64 {
	r.s += 0x9E3779B97F4A7C15
	z := r.s
	z = (z ^ (z >> 30)) * 0xBF58476D1CE4E5B9
	z = (z ^ (z >> 27)) * 0x94D049BB133111EB
	return z ^ (z >> 31)
}

// Intn returns a value in [0,n); n must be > 0.
func (r *R) Intn(n int) int { return int(r.U64() % uint64(n)) }

// Range returns a value in [lo,hi].
func (r *R) Range(lo, hi int) int { return lo + r.Intn(hi-lo+1) }

func (r *R) Bool() bool { return r.U64()&1 == 1 }

// Chance is true with probability num/den.
func (r *R) Chance(num, den int) bool { return r.Intn(den) < num }

func (r *R) I64() int64 { return int64(r.U64()) }

// Fork derives an independent generator (per case), so case i does not depend on how many draws case i-1 made.
func (r *R) Fork(i uint64) *R { return New(r.s ^ (i+1)*0xD6E8FEB86659FD93) }

// Pick returns one of the strings.
func (r *R) Pick(xs ...string) string { return xs[r.Intn(len(xs))] }

// PickInt returns one of the ints.
func (r *R) PickInt(xs ...int) int { return xs[r.Intn(len(xs))] }

// PickI64 returns one of the values.
func (r *R) PickI64(xs ...int64) int64 { return xs[r.Intn(len(xs))] }
