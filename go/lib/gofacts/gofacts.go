// Package gofacts extracts shape facts from /repo's current Go source: it parses
// files with go/parser (comments dropped), locates declarations, and answers
// questions on the *normalised* source text of a declaration (go/printer output
// with all white-space runs collapsed to one blank). Anything it cannot classify
// must be reported by the caller as `unknown`, never guessed.
package gofacts

import (
	"bytes"
	"fmt"
	"go/ast"
	"go/parser"
	"go/printer"
	"go/scanner"
	"go/token"
	"os"
	"path/filepath"
	"reflect"
	"regexp"
	"strings"
)

type File struct {
	Fset *token.FileSet
	AST  *ast.File
	Path string
}

// Load parses repo/rel. Comments are not kept, so they never influence a fact.
func Load(repo, rel string) (*File, error) {
	fset := token.NewFileSet()
	p := filepath.Join(repo, rel)
	f, err := parser.ParseFile(fset, p, nil, parser.SkipObjectResolution)
	if err != nil {
		return nil, err
	}
	return &File{Fset: fset, AST: f, Path: p}, nil
}

// MustLoad exits with status 2 (harness error) when the file cannot be parsed.
func MustLoad(repo, rel string) *File {
	f, err := Load(repo, rel)
	if err != nil {
		fmt.Fprintln(os.Stderr, "extract:", err)
		os.Exit(2)
	}
	return f
}

func recvName(fd *ast.FuncDecl) string {
	if fd.Recv == nil || len(fd.Recv.List) == 0 {
		return ""
	}
	t := fd.Recv.List[0].Type
	for {
		switch x := t.(type) {
		case *ast.StarExpr:
			t = x.X
		case *ast.IndexExpr:
			t = x.X
		case *ast.IndexListExpr:
			t = x.X
		case *ast.Ident:
			return x.Name
		default:
			return "?"
		}
	}
}

// Func finds a function (recv == "") or method by name; nil if absent.
func (f *File) Func(recv, name string) *ast.FuncDecl {
	for _, d := range f.AST.Decls {
		if fd, ok := d.(*ast.FuncDecl); ok && fd.Name.Name == name && recvName(fd) == recv {
			return fd
		}
	}
	return nil
}

var ws = regexp.MustCompile(`\s+`)

// Norm collapses white space.
func Norm(s string) string { return strings.TrimSpace(ws.ReplaceAllString(s, " ")) }

// Src prints a node and normalises white space.
func isNilNode(n ast.Node) bool {
	if n == nil {
		return true
	}
	v := reflect.ValueOf(n)
	return v.Kind() == reflect.Ptr && v.IsNil()
}

func (f *File) Src(n ast.Node) string {
	if isNilNode(n) {
		return ""
	}
	var b bytes.Buffer
	_ = printer.Fprint(&b, f.Fset, n)
	return Norm(b.String())
}

// Body is the normalised source of a function body ("" when absent).
func (f *File) Body(recv, name string) string {
	fd := f.Func(recv, name)
	if fd == nil || fd.Body == nil {
		return ""
	}
	return f.Src(fd.Body)
}

// Has reports whether normalised text s contains the normalised pattern.
func Has(s, pat string) bool { return strings.Contains(s, Norm(pat)) }

// Before reports whether pattern a occurs in s and its first occurrence precedes the first occurrence of b.
func Before(s, a, b string) bool {
	i := strings.Index(s, Norm(a))
	j := strings.Index(s, Norm(b))
	return i >= 0 && j >= 0 && i < j
}

// After returns the part of s after the first occurrence of pat ("" if absent).
func After(s, pat string) string {
	i := strings.Index(s, Norm(pat))
	if i < 0 {
		return ""
	}
	return s[i+len(Norm(pat)):]
}

// Defers returns the normalised sources of the deferred calls of a function, in source order.
func (f *File) Defers(fd *ast.FuncDecl) []string {
	var out []string
	if fd == nil || fd.Body == nil {
		return out
	}
	for _, st := range fd.Body.List {
		if d, ok := st.(*ast.DeferStmt); ok {
			out = append(out, f.Src(d.Call))
		}
	}
	return out
}

// LockCovered reports whether the method body starts (after optional simple declarations) by locking
// `<recvVar>.<mu>` and defers the matching unlock, or unlocks explicitly before every return.
// kind: "defer", "explicit", "none".
func (f *File) LockCovered(fd *ast.FuncDecl, lockCall, unlockCall string) string {
	if fd == nil || fd.Body == nil {
		return "none"
	}
	body := f.Src(fd.Body)
	if !Has(body, lockCall) {
		return "none"
	}
	if Has(body, "defer "+unlockCall) && Before(body, lockCall, "defer "+unlockCall) {
		return "defer"
	}
	if Has(body, unlockCall) {
		return "explicit"
	}
	return "none"
}

// GoDirective returns the `go X.Y` version of repo/go.mod as (major, minor).
func GoDirective(repo string) (int, int) {
	b, err := os.ReadFile(filepath.Join(repo, "go.mod"))
	if err != nil {
		return 0, 0
	}
	m := regexp.MustCompile(`(?m)^go\s+(\d+)\.(\d+)`).FindSubmatch(b)
	if m == nil {
		return 0, 0
	}
	var a, c int
	fmt.Sscanf(string(m[1]), "%d", &a)
	fmt.Sscanf(string(m[2]), "%d", &c)
	return a, c
}

// LeanBool renders a Go bool as a Lean literal.
func LeanBool(b bool) string {
	if b {
		return "true"
	}
	return "false"
}

// WriteIfChanged writes content to path only when it differs, so an unchanged repo costs no Lean rebuild.
func WriteIfChanged(path, content string) error {
	old, err := os.ReadFile(path)
	if err == nil && string(old) == content {
		return nil
	}
	if err := os.MkdirAll(filepath.Dir(path), 0o755); err != nil {
		return err
	}
	tmp := path + ".tmp"
	if err := os.WriteFile(tmp, []byte(content), 0o644); err != nil {
		return err
	}
	return os.Rename(tmp, path)
}

// Canon prints a declaration (or any node) with every locally declared identifier — parameters, named results,
// := / var / range / type-switch bindings, function-literal parameters — renamed to v1, v2, … in order of first
// appearance, `var x = e` written as `x := e`, and white space collapsed. Two bodies that differ only in the names of
// locals have the same canonical text, so exact-shape facts do not alarm on a rename.
func (f *File) Canon(n ast.Node) string {
	if isNilNode(n) { // also a typed nil, e.g. the *ast.FuncDecl of a function that no longer exists
		return ""
	}
	locals := map[string]bool{}
	addFields := func(fl *ast.FieldList) {
		if fl == nil {
			return
		}
		for _, fd := range fl.List {
			for _, id := range fd.Names {
				locals[id.Name] = true
			}
		}
	}
	ast.Inspect(n, func(x ast.Node) bool {
		switch s := x.(type) {
		case *ast.FuncDecl:
			addFields(s.Recv)
			addFields(s.Type.Params)
			addFields(s.Type.Results)
		case *ast.FuncLit:
			addFields(s.Type.Params)
			addFields(s.Type.Results)
		case *ast.AssignStmt:
			if s.Tok == token.DEFINE {
				for _, l := range s.Lhs {
					if id, ok := l.(*ast.Ident); ok {
						locals[id.Name] = true
					}
				}
			}
		case *ast.ValueSpec:
			for _, id := range s.Names {
				locals[id.Name] = true
			}
		case *ast.RangeStmt:
			if s.Tok == token.DEFINE {
				for _, e := range []ast.Expr{s.Key, s.Value} {
					if id, ok := e.(*ast.Ident); ok {
						locals[id.Name] = true
					}
				}
			}
		}
		return true
	})
	delete(locals, "_")
	var b bytes.Buffer
	_ = printer.Fprint(&b, f.Fset, n)
	src := b.Bytes()
	var sc scanner.Scanner
	fs := token.NewFileSet()
	file := fs.AddFile("", fs.Base(), len(src))
	sc.Init(file, src, nil, 0)
	names := map[string]string{}
	var out []string
	prev := token.ILLEGAL
	for {
		_, tok, lit := sc.Scan()
		if tok == token.EOF {
			break
		}
		switch {
		case tok == token.SEMICOLON && lit == "\n":
			out = append(out, ";")
		case tok == token.IDENT && locals[lit] && prev != token.PERIOD:
			if _, ok := names[lit]; !ok {
				names[lit] = fmt.Sprintf("v%d", len(names)+1)
			}
			out = append(out, names[lit])
		case tok == token.IDENT && placeholder.MatchString(lit):
			// a real identifier that looks like a placeholder (a global or a field named v3) must not be confused with one
			out = append(out, "$"+lit)
		case lit != "":
			out = append(out, lit)
		default:
			out = append(out, tok.String())
		}
		prev = tok
	}
	s := strings.Join(out, " ")
	// `var x = e` and `x := e` are the same declaration
	s = regexp.MustCompile(`var (v\d+) = `).ReplaceAllString(s, "$1 := ")
	return s
}

var placeholder = regexp.MustCompile(`^v\d+$`)

// CanonText canonicalises a source fragment given as text (a function declaration or a statement list wrapped by the
// caller in `func _() { … }`), for writing expectations next to the extractor.
func CanonText(src string) (string, error) {
	fset := token.NewFileSet()
	f, err := parser.ParseFile(fset, "x.go", "package p\n"+src, parser.SkipObjectResolution)
	if err != nil {
		return "", err
	}
	file := &File{Fset: fset, AST: f}
	if len(f.Decls) == 0 {
		return "", fmt.Errorf("no declaration")
	}
	return file.Canon(f.Decls[len(f.Decls)-1]), nil
}
