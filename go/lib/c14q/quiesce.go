// Package c14q: quiescence detection shared by the C14 and C15 runners.
package c14q

import (
	"bytes"
	"fmt"
	"regexp"
	"runtime"
	"strings"
	"time"
)

// Quiescence detection for the C14 scripts. Same idea as lib/sched.Settle (one stop-the-world goroutine
// snapshot must show every goroutine with a neptune/harness frame parked or gone) with two refinements:
//   - a goroutine in state "semacquire" counts as parked only when its innermost frame is one of sync's
//     semaphore entry points: a goroutine that allocates while the snapshot itself holds the runtime's
//     world semaphore (mallocgc → gcStart) is shown as "semacquire" too and resumes right after the snapshot;
//   - the snapshot buffer is reused, so taking snapshots does not itself keep the collector busy.
// An unknown state is never guessed: it counts as active and ends in a harness error after the deadline.

var qParked = map[string]bool{
	"chan receive": true, "chan send": true, "select": true, "select (no cases)": true,
	"sync.Cond.Wait": true, "sync.Mutex.Lock": true, "sync.RWMutex.RLock": true, "sync.RWMutex.Lock": true,
	"semacquire": true, "sync.WaitGroup.Wait": true,
	"chan receive (nil chan)": true, "chan send (nil chan)": true,
}

var qHdr = regexp.MustCompile(`^goroutine (\d+) \[([^\]]+)\]:\n`)
var qBuf = make([]byte, 1<<20)

type gInfo struct {
	state string
	text  []byte
}

func qSnapshot() []gInfo {
	var n int
	for {
		n = runtime.Stack(qBuf, true)
		if n < len(qBuf) {
			break
		}
		qBuf = make([]byte, 2*len(qBuf))
	}
	var gs []gInfo
	for i, blk := range bytes.Split(qBuf[:n], []byte("\n\n")) {
		if i == 0 {
			continue // the goroutine taking the snapshot
		}
		m := qHdr.FindSubmatch(blk)
		if m == nil {
			continue
		}
		st := string(m[2])
		if j := strings.Index(st, ","); j >= 0 {
			st = st[:j]
		}
		gs = append(gs, gInfo{state: strings.TrimSpace(st), text: blk})
	}
	return gs
}

// a goroutine of the runner commands that has not yet entered library code is recognised by its source path
var qMarkers = [][]byte{[]byte("github.com/pinealctx/neptune/"), []byte("nvharness/"), []byte("/cmd/c14/"), []byte("/cmd/c15/")}

func qRelevant(g gInfo) bool {
	for _, m := range qMarkers {
		if bytes.Contains(g.text, m) {
			return true
		}
	}
	return false
}

func qIsParked(g gInfo) bool {
	if !qParked[g.state] {
		return false
	}
	if g.state == "semacquire" {
		// innermost frame = second line of the block
		lines := bytes.SplitN(g.text, []byte("\n"), 3)
		if len(lines) < 2 || !bytes.HasPrefix(lines[1], []byte("sync.runtime_Semacquire")) {
			return false
		}
	}
	return true
}

// Quiesce waits until two consecutive snapshots are quiet.
func Quiesce(timeout time.Duration) error {
	deadline := time.Now().Add(timeout)
	sleep := 10 * time.Microsecond
	quietRuns := 0
	var last []byte
	for {
		runtime.Gosched()
		quiet := true
		for _, g := range qSnapshot() {
			if !qRelevant(g) || qIsParked(g) {
				continue
			}
			quiet = false
			last = append(last[:0], g.text...)
			break
		}
		if quiet {
			quietRuns++
			if quietRuns >= 2 {
				return nil
			}
			continue
		}
		quietRuns = 0
		if time.Now().After(deadline) {
			return fmt.Errorf("quiesce: no quiescent snapshot within %v; still active:\n%s", timeout, last)
		}
		time.Sleep(sleep)
		if sleep < time.Millisecond {
			sleep *= 2
		}
	}
}

// CountIn counts the goroutines whose stack contains substr (e.g. a function name of the code under test).
func CountIn(substr string) int {
	n := 0
	for _, g := range qSnapshot() {
		if bytes.Contains(g.text, []byte(substr)) {
			n++
		}
	}
	return n
}
