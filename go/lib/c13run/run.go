// Package c13run is the scheduler-driven runner of properties C13 and (for its concurrency scripts) C12: it executes a
// script of blocking consumers, producer events and bursts on the real queues, brings the process to quiescence after
// every line by goroutine-state snapshots, and evaluates the quiescence monitors. The property name only prefixes the
// monitor keys.
package c13run

import (
	"context"
	"fmt"
	"os"
	"reflect"
	"runtime"
	"sort"
	"strconv"
	"strings"
	"sync"
	"time"
	"unsafe"

	"github.com/pinealctx/neptune/queue/priq"
	"github.com/pinealctx/neptune/queue/syncq"
	"github.com/pinealctx/neptune/syncx/pipe/async"
	"github.com/pinealctx/neptune/syncx/pipe/mq"
	"github.com/pinealctx/neptune/syncx/pipe/mux"
	pq "github.com/pinealctx/neptune/syncx/pipe/q"

	"nvharness/lib/c12sched"
	"nvharness/lib/c12stress"
	"nvharness/lib/c12worker"
	"nvharness/lib/corr"
	"nvharness/lib/sched"
)

// ---------------------------------------------------------------- the real queues

type listQ interface {
	add(x int) string
	prior(x int) (string, bool)
	addc(x int) (string, bool)
	priorc(x int) (string, bool)
	pop() string
	popany() (string, bool)
	addany(x int, ts time.Duration) (string, bool) // the *Anyway add on the request list
	close()
}

func errName(err error, closed, full, ctrlFull error) string {
	switch {
	case err == nil:
		return "ok"
	case err == closed:
		return "closed"
	case err == full:
		return "full"
	case ctrlFull != nil && err == ctrlFull:
		return "ctrl-full"
	}
	return "err:" + err.Error()
}

func valName(v interface{}, err error, closed error) string {
	if err != nil {
		if err == closed {
			return "closed"
		}
		return "err:" + err.Error()
	}
	if v == nil {
		return "v:nil"
	}
	if i, ok := v.(int); ok {
		return "v:" + strconv.Itoa(i)
	}
	return fmt.Sprintf("v?%v", v)
}

type qQ struct{ q *pq.Q }

func (a qQ) add(x int) string { return errName(a.q.AddReq(item(x)), pq.ErrClosed, pq.ErrReqQFull, nil) }
func (a qQ) prior(x int) (string, bool) {
	return errName(a.q.AddPriorReq(item(x)), pq.ErrClosed, pq.ErrReqQFull, nil), true
}
func (a qQ) addc(int) (string, bool)   { return "", false }
func (a qQ) priorc(int) (string, bool) { return "", false }
func (a qQ) pop() string               { v, e := a.q.Pop(); return valName(v, e, pq.ErrClosed) }
func (a qQ) popany() (string, bool) {
	v, e := a.q.PopAnyway()
	return valName(v, e, pq.ErrClosed), true
}
func (a qQ) addany(x int, ts time.Duration) (string, bool) {
	return errName(a.q.AddReqAnyway(item(x), ts), pq.ErrClosed, pq.ErrReqQFull, nil), true
}
func (a qQ) close() { a.q.Close() }

type asyncQ struct{ q *async.Q }

func (a asyncQ) add(x int) string {
	return errName(a.q.Add(item(x)), async.ErrClosed, async.ErrFull, nil)
}
func (a asyncQ) prior(x int) (string, bool) {
	return errName(a.q.AddPrior(item(x)), async.ErrClosed, async.ErrFull, nil), true
}
func (a asyncQ) addc(int) (string, bool)   { return "", false }
func (a asyncQ) priorc(int) (string, bool) { return "", false }
func (a asyncQ) pop() string               { v, e := a.q.Pop(); return valName(v, e, async.ErrClosed) }
func (a asyncQ) popany() (string, bool) {
	v, e := a.q.PopAnyway()
	return valName(v, e, async.ErrClosed), true
}
func (a asyncQ) addany(x int, ts time.Duration) (string, bool) {
	return errName(a.q.AddAnyway(item(x), ts), async.ErrClosed, async.ErrFull, nil), true
}
func (a asyncQ) close() { a.q.Close() }

type muxQ struct{ q *mux.Q }

func (a muxQ) add(x int) string {
	return errName(a.q.AddReq(item(x)), mux.ErrClosed, mux.ErrQFull, nil)
}
func (a muxQ) prior(x int) (string, bool) {
	return errName(a.q.AddPriorReq(item(x)), mux.ErrClosed, mux.ErrQFull, nil), true
}
func (a muxQ) addc(int) (string, bool)   { return "", false }
func (a muxQ) priorc(int) (string, bool) { return "", false }
func (a muxQ) pop() string               { v, e := a.q.Pop(); return valName(v, e, mux.ErrClosed) }
func (a muxQ) popany() (string, bool) {
	v, e := a.q.PopAnyway()
	return valName(v, e, mux.ErrClosed), true
}
func (a muxQ) addany(x int, ts time.Duration) (string, bool) {
	return errName(a.q.AddReqAnyway(item(x), ts), mux.ErrClosed, mux.ErrQFull, nil), true
}
func (a muxQ) close() { a.q.Close() }

type mqQ struct{ q *mq.MQ }

func (a mqQ) add(x int) string {
	return errName(a.q.AddReq(item(x)), mq.ErrClosed, mq.ErrReqQFull, mq.ErrCtrlQFull)
}
func (a mqQ) prior(x int) (string, bool) {
	return errName(a.q.AddPriorReq(item(x)), mq.ErrClosed, mq.ErrReqQFull, mq.ErrCtrlQFull), true
}
func (a mqQ) addc(x int) (string, bool) {
	return errName(a.q.AddCtrl(item(x)), mq.ErrClosed, mq.ErrReqQFull, mq.ErrCtrlQFull), true
}
func (a mqQ) priorc(x int) (string, bool) {
	return errName(a.q.AddPriorCtrl(item(x)), mq.ErrClosed, mq.ErrReqQFull, mq.ErrCtrlQFull), true
}
func (a mqQ) pop() string { v, e := a.q.Pop(); return valName(v, e, mq.ErrClosed) }
func (a mqQ) popany() (string, bool) {
	v, e := a.q.PopAnyway()
	return valName(v, e, mq.ErrClosed), true
}
func (a mqQ) addany(x int, ts time.Duration) (string, bool) {
	return errName(a.q.AddReqAnyway(item(x), ts), mq.ErrClosed, mq.ErrReqQFull, mq.ErrCtrlQFull), true
}
func (a mqQ) close() { a.q.Close() }

type syncQ struct{ q *syncq.SyncQueue }

func (a syncQ) add(x int) string          { a.q.Push(x); return "ok" }
func (a syncQ) prior(int) (string, bool)  { return "", false }
func (a syncQ) addc(int) (string, bool)   { return "", false }
func (a syncQ) priorc(int) (string, bool) { return "", false }
func (a syncQ) pop() string {
	v := a.q.Pop()
	if v == nil {
		return "nil"
	}
	return valName(v, nil, nil)
}
func (a syncQ) popany() (string, bool) { return "", false }
func (a syncQ) addany(x int, ts time.Duration) (string, bool) {
	return "", false
}
func (a syncQ) close() { a.q.Close() }

// wakeAllForCleanup releases consumers a defective Close left behind, AFTER all observations of the script were made
// (only so that goroutines do not accumulate over thousands of scripts). It reaches the queue's unexported condition
// variable (`popable *sync.Cond` in SyncQueue, `cond sync.Cond` in the pipe queues) through reflect/unsafe.
func wakeAllForCleanup(adapter interface{}) {
	q := reflect.ValueOf(adapter).Field(0) // the adapters are one-field structs holding the queue pointer
	if q.Kind() != reflect.Ptr || q.IsNil() {
		return
	}
	v := q.Elem()
	if f := v.FieldByName("popable"); f.IsValid() && f.Kind() == reflect.Ptr && !f.IsNil() {
		if c := *(**sync.Cond)(unsafe.Pointer(f.UnsafeAddr())); c != nil {
			c.Broadcast()
		}
	}
	if f := v.FieldByName("cond"); f.IsValid() && f.Kind() == reflect.Struct && f.Type() == reflect.TypeOf(sync.Cond{}) {
		(*sync.Cond)(unsafe.Pointer(f.UnsafeAddr())).Broadcast()
	}
}

type entry struct{ item, prio int }

func (e entry) GetPriority() int { return e.prio }

// ---------------------------------------------------------------- running a script, with the monitors

type runner struct {
	prop      string
	kind      string
	lq        listQ
	pq        *priq.PriQueue
	s         *sched.S
	tasks     []*sched.Task
	seenRet   map[*sched.Task]bool
	spinItem  map[*sched.Task]int    // tasks running an *Anyway add → the item
	waiter    map[*sched.Task]string // tasks blocked in WaitClose / WaitClear ("close" / "clear")
	cleared   bool
	skipState string // state of the caller started by the current line, as of the quiescent cut
	spinners  int    // *Anyway adds started by `addany` that have not returned yet
	ctx       context.Context
	cancel    context.CancelFunc
	quit      chan struct{}
	hits      []corr.Hit
	seen      map[string]bool
	dead      string
	// what the monitors need, all taken from results of the real calls
	closed   bool
	accepted map[int]int // how often each item value was accepted by an add (scripts may repeat a value)
	handed   map[int]int // how often it was handed out
	holders  int         // priq: successful `recv`s not yet followed by a `pop`
}

func (r *runner) hit(site, what, detail string) {
	key := r.prop + ":" + r.kind + "." + site + ":" + what
	if r.seen[key] {
		return
	}
	r.seen[key] = true
	r.hits = append(r.hits, corr.Hit{Key: key, What: detail})
}

// parseItem: a positive number, or `nil` (value 0; a legal interface{} item — not for SyncQueue, whose Pop/TryPop
// cannot tell a nil item from "closed").
func parseItem(s string, noNil bool) (int, bool) {
	if s == "nil" {
		return 0, !noNil
	}
	n, ok := atoiStrict(s, false)
	return n, ok && n > 0
}

// item is what is handed to the queue: the number, or an untyped nil for 0.
func item(x int) interface{} {
	if x == 0 {
		return nil
	}
	return x
}

func atoiStrict(s string, neg bool) (int, bool) {
	// digits only (optional leading '-' when neg); the whole int64 range is accepted (extreme priorities), nothing beyond
	if s == "" || len(s) > 20 {
		return 0, false
	}
	t := s
	if neg && t[0] == '-' {
		t = t[1:]
	}
	if t == "" {
		return 0, false
	}
	for _, c := range t {
		if c < '0' || c > '9' {
			return 0, false
		}
	}
	n, err := strconv.ParseInt(s, 10, 64)
	return int(n), err == nil
}

func (r *runner) create(f []string) string {
	r.lq, r.pq, r.kind = nil, nil, "none"
	switch {
	case len(f) == 4 && f[1] == "mq":
		a, ok1 := atoiStrict(f[2], true)
		c, ok2 := atoiStrict(f[3], true)
		if !ok1 || !ok2 {
			return "bad-op"
		}
		r.kind, r.lq = "mq", mqQ{mq.NewMQ(mq.WithQCtrlSize(a), mq.WithQReqSize(c))}
	case len(f) == 2 && f[1] == "syncq":
		r.kind, r.lq = "syncq", syncQ{syncq.NewSyncQueue()}
	case len(f) == 3 && (f[1] == "q" || f[1] == "async" || f[1] == "mux" || f[1] == "priq"):
		a, ok := atoiStrict(f[2], true)
		if !ok {
			return "bad-op"
		}
		r.kind = f[1]
		switch f[1] {
		case "q":
			r.lq = qQ{pq.NewQ(pq.WithSize(a))}
		case "async":
			r.lq = asyncQ{async.NewQ(a)}
		case "mux":
			r.lq = muxQ{mux.NewQ(a)}
		case "priq":
			r.pq = priq.NewPriQueue(a)
		}
	default:
		return "bad-op"
	}
	return "ok"
}

// quiesce waits until every consumer goroutine has returned or is parked, and reports the results of the consumers
// that returned since the last call (except `skip`) and the number still parked.
func (r *runner) quiesce(skip *sched.Task) (rets []string, parked int, ok bool) {
	live := false
	for _, t := range r.tasks {
		if !r.seenRet[t] {
			live = true
		}
	}
	// which calls have returned: read at a quiescent point; with retry loops pending (they act on their own timer) the
	// flags are read twice around a second quiescence test and must agree, so that the cut is consistent
	flags := func() []bool {
		v := make([]bool, len(r.tasks))
		for i, t := range r.tasks {
			v[i], _ = t.Done()
		}
		return v
	}
	var done []bool
	for round := 0; ; round++ {
		if live {
			if err := c12sched.Settle(c12worker.SettleTimeout()); err != nil {
				if strings.Contains(err.Error(), "no quiescent snapshot") {
					// a verdict, not a harness error: some call keeps running for ever (a wait loop without Wait, a retry
					// loop that cannot end) — everything else is parked or done and it still does not come to rest
					r.hit("quiescence", "never-quiesces", "the queue's callers never come to rest: "+strings.SplitN(err.Error(), "\n", 2)[0]+" — "+lastFrames(err.Error()))
					r.dead = "never-quiesces"
					c12worker.Poisoned = true
					return nil, 0, false
				}
				r.dead = "harness:" + strings.SplitN(err.Error(), "\n", 2)[0]
				return nil, 0, false
			}
		}
		v := flags()
		same := done != nil && len(done) == len(v)
		for i := 0; same && i < len(v); i++ {
			same = done[i] == v[i]
		}
		done = v
		if same || r.spinners == 0 || round > 1000 {
			break
		}
	}
	// the new caller's own state belongs to the same cut as everything else (never re-read it later)
	r.skipState = "parked"
	// retry loops first: an item they got accepted may already have been handed to a consumer
	for pass := 0; pass < 2; pass++ {
		for i, t := range r.tasks {
			_, isSpin := r.spinItem[t]
			if r.seenRet[t] || isSpin != (pass == 0) {
				continue
			}
			if !done[i] {
				parked++
				continue
			}
			_, res := t.Done()
			r.seenRet[t] = true
			if strings.HasPrefix(res, "panic:") {
				// a call panicked — it may have left the queue's mutex locked: report it and never touch this queue again
				r.hit(t.Name, "panic", fmt.Sprintf("a %s call panicked: %s", t.Name, res))
				r.dead = "panic"
			}
			if t == skip {
				r.skipState = "ret:" + res
			}
			if isSpin {
				r.spinners--
				if res == "ok" {
					r.accepted[r.spinItem[t]]++
				}
			}
			r.noteHanded(res)
			if t != skip {
				rets = append(rets, res)
			}
		}
	}
	sort.Strings(rets)
	return rets, parked, true
}

func (r *runner) noteHanded(res string) {
	if !strings.HasPrefix(res, "v:") {
		return
	}
	v, err := strconv.Atoi(res[2:])
	if res == "v:nil" {
		v, err = 0, nil
	}
	if err != nil {
		return
	}
	if r.handed[v] >= r.accepted[v] {
		r.hit("Pop", "item-duplicated-or-invented", fmt.Sprintf("a consumer returned item %d (accepted %d time(s), already handed out %d time(s))", v, r.accepted[v], r.handed[v]))
	}
	r.handed[v]++
}

func (r *runner) outstanding() int {
	n := 0
	for v, a := range r.accepted {
		if a > r.handed[v] {
			n += a - r.handed[v]
		}
	}
	return n
}

func suffix(rets []string, parked int) string {
	return " ret=[" + strings.Join(rets, ",") + "] parked=" + strconv.Itoa(parked)
}

// monitorQuiescent: the property on the observable state at a quiescent point of a list queue
func (r *runner) monitorQuiescent(op string, _ int) {
	consumers, wclose, wclear := 0, 0, 0
	for _, t := range r.tasks {
		if d, _ := t.Done(); d {
			continue
		}
		if _, isSpin := r.spinItem[t]; isSpin {
			continue
		}
		switch r.waiter[t] {
		case "close":
			wclose++
		case "clear":
			wclear++
		default:
			consumers++
		}
	}
	if r.closed && wclose > 0 {
		r.hit("Close", "WaitClose-not-released", fmt.Sprintf("after `%s`: the queue is closed and %d caller(s) are still blocked in WaitClose", op, wclose))
	}
	if r.cleared && wclear > 0 {
		r.hit("TryClear", "WaitClear-not-released", fmt.Sprintf("after `%s`: the queue is cleared and %d caller(s) are still blocked in WaitClear", op, wclear))
	}
	if consumers == 0 {
		return
	}
	if r.closed {
		r.hit("Close", "blocked-consumer-not-released", fmt.Sprintf("after `%s`: the queue is closed and %d consumer(s) are still parked in Pop", op, consumers))
	} else if n := r.outstanding(); n > 0 {
		r.hit("Pop", "consumer-parked-beside-item", fmt.Sprintf("after `%s`: %d consumer(s) parked in Pop while %d accepted item(s) have not been handed out", op, consumers, n))
	}
}

func (r *runner) line(l string) string {
	f := strings.Fields(l)
	if len(f) == 0 {
		return "bad-op"
	}
	if f[0] == "new" {
		return r.create(f)
	}
	if r.lq == nil && r.pq == nil {
		return "bad-op"
	}
	if r.dead != "" {
		return "aborted:" + r.dead
	}
	if r.pq != nil {
		return r.priLine(f, l)
	}
	isMQ, isSync := r.kind == "mq", r.kind == "syncq"
	finish := func(res string) string {
		rets, parked, ok := r.quiesce(nil)
		if !ok {
			return "harness-error"
		}
		r.monitorQuiescent(l, parked)
		return res + suffix(rets, parked)
	}
	// producer-side events usable inside an `atomic` burst: validated first, executed by the returned closure
	burstEv := func(ev []string) func() string {
		if len(ev) == 0 {
			return nil
		}
		switch ev[0] {
		case "add", "prior", "addc", "priorc":
			if len(ev) != 2 {
				return nil
			}
			x, ok := parseItem(ev[1], isSync)
			if !ok || (ev[0] == "prior" && isSync) || ((ev[0] == "addc" || ev[0] == "priorc") && !isMQ) {
				return nil
			}
			op := ev[0]
			return func() string {
				var res string
				switch op {
				case "add":
					res = r.lq.add(x)
				case "prior":
					res, _ = r.lq.prior(x)
				case "addc":
					res, _ = r.lq.addc(x)
				default:
					res, _ = r.lq.priorc(x)
				}
				if res == "ok" && !(isSync && r.closed) {
					r.accepted[x]++
				}
				return res
			}
		case "trypop":
			// SyncQueue: a barging TryPop — in a burst it runs between a push and the resume of the consumer it signalled
			if len(ev) != 1 || !isSync {
				return nil
			}
			return func() string {
				v, ok := r.lq.(syncQ).q.TryPop()
				res := "none"
				if ok && v == nil {
					res = "closed"
				} else if ok {
					res = valName(v, nil, nil)
					r.noteHanded(res)
				}
				return res
			}
		case "close":
			if len(ev) != 1 {
				return nil
			}
			return func() string { r.lq.close(); r.closed = true; return "ok" }
		case "tryclose":
			if len(ev) != 1 || !isMQ {
				return nil
			}
			return func() string {
				got := r.lq.(mqQ).q.TryClose()
				if got {
					r.closed = true
				}
				return strconv.FormatBool(got)
			}
		}
		return nil
	}
	switch f[0] {
	case "atomic":
		// The events run back to back on a single P so that consumers woken by one of them USUALLY cannot resume before
		// the last one returned — this makes the window between a wake-up and the woken consumer's re-acquisition of the
		// lock likely to be hit on the real code. Nothing depends on it being hit: the oracle answers a burst with the set
		// of outcomes of all placements of the resumes, and window defects are reported by the quiescence monitors.
		var segs [][]string
		cur := []string{}
		for _, w := range f[1:] {
			if w == ";" {
				segs = append(segs, cur)
				cur = []string{}
			} else {
				cur = append(cur, w)
			}
		}
		segs = append(segs, cur)
		var fns []func() string
		for _, ev := range segs {
			fn := burstEv(ev)
			if fn == nil {
				return "bad-op"
			}
			fns = append(fns, fn)
		}
		var outs []string
		before := c12sched.Fingerprint()
		doneBefore, poppers := 0, 0
		for _, t := range r.tasks {
			if d, _ := t.Done(); d {
				doneBefore++
			} else if t.Name == "pop" {
				poppers++
			}
		}
		wasClosed := r.closed
		prev := runtime.GOMAXPROCS(1)
		// one trip through the scheduler on the P we ended up on: sysmon's record of that P may be stale (it was idle
		// while we ran elsewhere) and would otherwise let it preempt us at once, resuming a woken consumer mid-burst
		runtime.Gosched()
		for _, fn := range fns {
			outs = append(outs, fn())
		}
		// certificate (taken before anybody else can get the P): every goroutine that was parked before the burst is
		// still where it was — parked, or made runnable without having executed an instruction — and nobody retries in
		// an *Anyway loop. Then every consumer woken by the burst resumes after its last event (`held=1`).
		doneAfter := 0
		for _, t := range r.tasks {
			if d, _ := t.Done(); d {
				doneAfter++
			}
		}
		held := r.spinners == 0 && doneAfter == doneBefore && c12sched.SameFingerprints(before, c12sched.Fingerprint())
		runtime.GOMAXPROCS(prev)
		rets, parked, ok := r.quiesce(nil)
		if !ok {
			return "harness-error"
		}
		r.monitorQuiescent(l, parked)
		if held && !isSync && r.closed && !wasClosed && poppers > 0 {
			// close semantics for a Pop that was blocked: it resumed after the Close of this burst, so it must fail even
			// if items remain (PopAnyway consumers may take them)
			items := 0
			for _, x := range rets {
				if strings.HasPrefix(x, "v:") {
					items++
				}
			}
			anyways := 0
			for _, t := range r.tasks {
				if t.Name == "popany" {
					anyways++
				}
			}
			if items > anyways {
				r.hit("Pop", "blocked-pop-returns-item-after-close", fmt.Sprintf("after `%s` (no consumer ran before the Close returned): %d item(s) were handed out although at most %d PopAnyway caller(s) exist — a blocked Pop returned an item from a closed queue", l, items, anyways))
			}
		}
		h := " held=0"
		if held {
			h = " held=1"
		}
		return strings.Join(outs, ";") + suffix(rets, parked) + h
	case "addn":
		// `addn n x0`: the adds x0 … x0+n-1 one after the other (no quiescence in between)
		if len(f) != 3 {
			return "bad-op"
		}
		n, ok1 := atoiStrict(f[1], false)
		x0, ok2 := atoiStrict(f[2], false)
		if !ok1 || !ok2 || n > 100000 || x0 <= 0 {
			return "bad-op"
		}
		k := 0
		for i := 0; i < n; i++ {
			if res := r.lq.add(x0 + i); res == "ok" {
				k++
				if !(isSync && r.closed) {
					r.accepted[x0+i]++
				}
			}
		}
		return finish("ok=" + strconv.Itoa(k))
	case "drain":
		// SyncQueue: TryPop by the script's own thread until the buffer is empty
		if len(f) != 1 || !isSync {
			return "bad-op"
		}
		q := r.lq.(syncQ).q
		k := 0
		for q.Len() > 0 {
			v, ok := q.TryPop()
			if !ok || v == nil {
				r.hit("TryPop", "item-withheld", fmt.Sprintf("TryPop returned (%v,%v) with Len()=%d", v, ok, q.Len()))
				break
			}
			r.noteHanded(valName(v, nil, nil))
			k++
		}
		return finish("n:" + strconv.Itoa(k))
	case "addany":
		// a NEW producer in the *Anyway add (retry pause 2 ms); it returns or stays in its retry loop
		if len(f) != 2 || isSync {
			return "bad-op"
		}
		x, ok := parseItem(f[1], false)
		if !ok {
			return "bad-op"
		}
		var t *sched.Task
		t = r.s.Go("addany", func() string {
			res, _ := r.lq.addany(x, 2*time.Millisecond)
			return res
		})
		r.tasks = append(r.tasks, t)
		r.spinItem[t] = x
		r.spinners++
		rets, parked, ok := r.quiesce(t)
		if !ok {
			return "harness-error"
		}
		r.monitorQuiescent(l, parked)
		return r.skipState + suffix(rets, parked)
	case "settle":
		// give pending retry loops a few pauses, then wait for quiescence (the oracle allows both: retried or not yet)
		if len(f) != 1 {
			return "bad-op"
		}
		if r.spinners > 0 {
			time.Sleep(8 * time.Millisecond)
		}
		return finish("ok")
	case "pop", "popany":
		if len(f) != 1 || (f[0] == "popany" && isSync) {
			return "bad-op"
		}
		var t *sched.Task
		if f[0] == "pop" {
			t = r.s.Go("pop", r.lq.pop)
		} else {
			t = r.s.Go("popany", func() string { s, _ := r.lq.popany(); return s })
		}
		r.tasks = append(r.tasks, t)
		rets, parked, ok := r.quiesce(t)
		if !ok {
			return "harness-error"
		}
		r.monitorQuiescent(l, parked)
		return r.skipState + suffix(rets, parked)
	case "add", "prior", "addc", "priorc":
		if len(f) != 2 {
			return "bad-op"
		}
		x, ok := parseItem(f[1], isSync)
		if !ok {
			return "bad-op"
		}
		var res string
		has := true
		switch f[0] {
		case "add":
			res = r.lq.add(x)
		case "prior":
			res, has = r.lq.prior(x)
		case "addc":
			res, has = r.lq.addc(x)
		case "priorc":
			res, has = r.lq.priorc(x)
		}
		if !has {
			return "bad-op"
		}
		if res == "ok" && !(isSync && r.closed) {
			r.accepted[x]++
		}
		return finish(res)
	case "close":
		if len(f) != 1 {
			return "bad-op"
		}
		r.lq.close()
		r.closed = true
		return finish("ok")
	case "tryclose", "tryclear":
		if len(f) != 1 || !isMQ {
			return "bad-op"
		}
		m := r.lq.(mqQ).q
		var got bool
		if f[0] == "tryclose" {
			got = m.TryClose()
			if got {
				r.closed = true
			}
		} else {
			got = m.TryClear()
			if got {
				r.cleared = true
			}
		}
		return finish(strconv.FormatBool(got))
	case "waitclose", "waitclear":
		if len(f) != 1 {
			return "bad-op"
		}
		var call func(context.Context) error
		switch q := r.lq.(type) {
		case muxQ:
			if f[0] == "waitclose" {
				call = q.q.WaitClose
			}
		case mqQ:
			call = q.q.WaitClose
			if f[0] == "waitclear" {
				call = q.q.WaitClear
			}
		}
		if call == nil {
			return "bad-op"
		}
		ctx := r.ctx
		t := r.s.Go(f[0], func() string {
			if err := call(ctx); err != nil {
				return "err:" + err.Error()
			}
			return "ok"
		})
		r.tasks = append(r.tasks, t)
		r.waiter[t] = strings.TrimPrefix(f[0], "wait")
		rets, parked, ok := r.quiesce(t)
		if !ok {
			return "harness-error"
		}
		r.monitorQuiescent(l, parked)
		return r.skipState + suffix(rets, parked)
	case "trypop":
		if len(f) != 1 || !isSync {
			return "bad-op"
		}
		v, ok := r.lq.(syncQ).q.TryPop()
		res := "none"
		if ok && v == nil {
			res = "closed"
		} else if ok {
			res = valName(v, nil, nil)
			r.noteHanded(res)
		}
		return finish(res)
	}
	return "bad-op"
}

func (r *runner) priLine(f []string, l string) (out string) {
	defer func() {
		if p := recover(); p != nil {
			r.hit(f[0], "panic", fmt.Sprintf("`%s` panicked: %v", l, p))
			r.dead = "panic" // the mutex may be left locked: abandon this queue
			out = fmt.Sprintf("panic:%v", p)
		}
	}()
	finish := func(res string, skip *sched.Task) string {
		rets, parked, ok := r.quiesce(skip)
		if !ok {
			return "harness-error"
		}
		if r.dead != "" {
			return res + suffix(rets, parked)
		}
		// the property at a quiescent point: no Push/Pop in progress (calls are sequential), no unfollowed signal held
		n, w := r.pq.Len(), len(r.pq.WaitCh())
		if n > 0 && r.holders == 0 && w == 0 {
			r.hit("WaitCh", "not-readable-beside-items", fmt.Sprintf("after `%s`: %d entries queued, nobody holds a signal, yet len(WaitCh())=0", l, n))
		}
		if n > 0 && parked > 0 && r.holders == 0 {
			r.hit("WaitCh", "consumer-sleeps-beside-items", fmt.Sprintf("after `%s`: %d consumer(s) blocked on WaitCh() while %d entries are queued", l, parked, n))
		}
		if skip != nil {
			res = r.skipState // as of the quiescent cut
		}
		return res + suffix(rets, parked)
	}
	switch f[0] {
	case "push":
		if len(f) != 3 {
			return "bad-op"
		}
		x, ok1 := atoiStrict(f[1], false)
		p, ok2 := atoiStrict(f[2], true)
		if !ok1 || !ok2 {
			return "bad-op"
		}
		err := r.pq.Push(entry{x, p})
		res := "ok"
		if err == priq.ErrQueueIsFull {
			res = "full"
		} else if err != nil {
			res = "err:" + err.Error()
		} else {
			r.accepted[x]++
		}
		return finish(res, nil)
	case "pop":
		if len(f) != 1 {
			return "bad-op"
		}
		e := r.pq.Pop()
		if r.holders > 0 {
			r.holders--
		}
		res := "nil"
		if e != nil {
			res = "v:" + strconv.Itoa(e.(entry).item)
			r.noteHanded(res)
		}
		return finish(res, nil)
	case "recv":
		if len(f) != 1 {
			return "bad-op"
		}
		res := "empty"
		select {
		case <-r.pq.WaitCh():
			res = "got"
			r.holders++
		default:
		}
		return finish(res, nil)
	case "waitlen":
		if len(f) != 1 {
			return "bad-op"
		}
		return finish(strconv.Itoa(len(r.pq.WaitCh())), nil)
	case "len":
		if len(f) != 1 {
			return "bad-op"
		}
		return finish(strconv.Itoa(r.pq.Len()), nil)
	case "consume":
		if len(f) != 1 {
			return "bad-op"
		}
		q, quit := r.pq, r.quit
		t := r.s.Go("consume", func() string {
			select {
			case <-q.WaitCh():
				e := q.Pop()
				if e == nil {
					return "nil"
				}
				return "v:" + strconv.Itoa(e.(entry).item)
			case <-quit:
				return "quit"
			}
		})
		r.tasks = append(r.tasks, t)
		return finish("", t)
	}
	return "bad-op"
}

func init() { c12sched.RetryFrames = []string{"AddReqAnyway", "AddAnyway", "AddCtrlAnyway"} }

// lastFrames: the neptune frames of the goroutine that was still active (from the quiescence error text).
func lastFrames(e string) string {
	var fr []string
	for _, l := range strings.Split(e, "\n") {
		if strings.Contains(l, "github.com/pinealctx/neptune/") && !strings.HasPrefix(l, "\t") {
			fr = append(fr, strings.TrimSpace(l))
		}
	}
	if len(fr) > 3 {
		fr = fr[:3]
	}
	return strings.Join(fr, " < ")
}

// RunCase executes one script. prop ("C12" / "C13") prefixes the monitor keys.
func RunCase(prop string, c corr.Case) (res corr.Result) {
	if len(c.Lines) == 1 && strings.HasPrefix(c.Lines[0], "stress ") {
		out, hits := c12stress.Line(prop, strings.Fields(c.Lines[0]))
		return corr.Result{Outs: []string{out}, Hits: hits}
	}
	r := &runner{prop: prop, s: sched.New(), seen: map[string]bool{}, seenRet: map[*sched.Task]bool{}, waiter: map[*sched.Task]string{}, spinItem: map[*sched.Task]int{}, accepted: map[int]int{}, handed: map[int]int{},
		quit: make(chan struct{})}
	r.ctx, r.cancel = context.WithCancel(context.Background())
	reset := func() {
		r.cleanup()
		r.tasks, r.seenRet, r.accepted, r.handed = nil, map[*sched.Task]bool{}, map[int]int{}, map[int]int{}
		r.waiter, r.cleared = map[*sched.Task]string{}, false
		r.spinItem, r.spinners = map[*sched.Task]int{}, 0
		r.ctx, r.cancel = context.WithCancel(context.Background())
		r.closed, r.holders, r.dead, r.quit = false, 0, "", make(chan struct{})
	}
	defer func() {
		if p := recover(); p != nil {
			for len(res.Outs) < len(c.Lines) {
				res.Outs = append(res.Outs, fmt.Sprintf("panic:%v", p))
			}
			res.Hits = append(r.hits, corr.Hit{Key: r.prop + ":" + r.kind + ":panic", What: fmt.Sprint(p)})
		}
		r.cleanup()
	}()
	for _, l := range c.Lines {
		if strings.HasPrefix(l, "new") {
			reset()
		}
		out := r.line(l)
		if out == "harness-error" && r.dead == "never-quiesces" {
			out = "never-quiesces"
		}
		if strings.HasPrefix(out, "aborted:harness") || out == "harness-error" {
			fmt.Fprintln(os.Stderr, "harness error:", r.dead, "in", c.Lines)
			os.Exit(2)
		}
		res.Outs = append(res.Outs, out)
	}
	res.Hits = r.hits
	return res
}

// cleanup releases whatever is still parked, after all observations: close the queue, and for a consumer a defective
// SyncQueue.Close left behind, broadcast on its condition variable.
func (r *runner) cleanup() {
	pending := false
	for _, t := range r.tasks {
		if d, _ := t.Done(); !d {
			pending = true
		}
	}
	if !pending {
		return
	}
	if r.cancel != nil {
		r.cancel() // WaitClose / WaitClear callers a defective Close left behind
	}
	if r.lq != nil && r.dead != "panic" && r.dead != "never-quiesces" {
		r.lq.close()
		_ = c12sched.Settle(c12worker.SettleTimeout())
		for _, t := range r.tasks {
			if d, _ := t.Done(); !d { // somebody is still parked beside a closed queue (already reported by the monitor)
				wakeAllForCleanup(r.lq)
				break
			}
		}
	}
	if r.pq != nil {
		close(r.quit)
	}
	_ = c12sched.Settle(c12worker.SettleTimeout())
}
