// Command c15: extractor and correspondence runner for property C15 (mux worker group:
// write-through cache coherent with the store).
package main

import (
	"bufio"
	"bytes"
	"context"
	"crypto/sha1"
	"encoding/hex"
	"encoding/json"
	"errors"
	"fmt"
	"hash/crc32"
	"math"
	"os"
	osexec "os/exec"
	"path/filepath"
	"reflect"
	"sort"
	"strconv"
	"strings"
	"sync"
	"time"

	"github.com/pinealctx/neptune/syncx/pipe/mux"

	"nvharness/lib/c14q"
	"nvharness/lib/corr"
	"nvharness/lib/go2lean"
	"nvharness/lib/gofacts"
	_ "nvharness/lib/quiet"
	"nvharness/lib/rng"
)

func main() {
	if len(os.Args) < 2 {
		fmt.Fprintln(os.Stderr, "usage: c15 extract|corr …")
		os.Exit(2)
	}
	switch os.Args[1] {
	case "extract":
		extract(os.Args[2], os.Args[3])
	case "corr":
		corr.Main(spec(), os.Args[2:])
	case "shapes":
		printShapes(os.Args[2])
	case "runscript":
		runScriptChild()
	default:
		os.Exit(2)
	}
}

// ---------------------------------------------------------------- extract

func all(bs ...bool) bool {
	for _, b := range bs {
		if !b {
			return false
		}
	}
	return true
}

// Whole-body shape facts (see cmd/c14): every function the model is written against is pinned by the hash of its
// canonical text (gofacts.Canon). `c15 shapes <repo>` prints the table for a tree.
type fnRef struct{ file, recv, name string }

func (r fnRef) key() string { return r.file + "|" + r.recv + "." + r.name }

var shapeFiles = map[string]*gofacts.File{}

func fileOf(repo, rel string) *gofacts.File {
	f := shapeFiles[repo+"|"+rel]
	if f == nil {
		f = gofacts.MustLoad(repo, rel)
		shapeFiles[repo+"|"+rel] = f
	}
	return f
}

func hashText(t string) string {
	sum := sha1.Sum([]byte(t))
	return hex.EncodeToString(sum[:])[:12]
}

func shapeOf(repo string, r fnRef) string {
	f := fileOf(repo, r.file)
	fd := f.Func(r.recv, r.name)
	if fd == nil {
		return "absent"
	}
	return hashText(f.Canon(fd))
}

func refs(file string, names ...string) []fnRef {
	var out []fnRef
	for _, n := range names {
		recv, name := "", n
		if i := strings.Index(n, "."); i >= 0 {
			recv, name = n[:i], n[i+1:]
		}
		out = append(out, fnRef{file, recv, name})
	}
	return out
}

func cat(ls ...[]fnRef) []fnRef {
	var out []fnRef
	for _, l := range ls {
		out = append(out, l...)
	}
	return out
}

const (
	fWorker, fGroup, fGas = "syncx/pipe/mux/worker.go", "syncx/pipe/mux/wgroup.go", "syncx/pipe/mux/gas.go"
	fFacade, fMQ, fOpt    = "syncx/pipe/mux/cacheex.go", "syncx/pipe/mux/q.go", "syncx/pipe/mux/opt.go"
	fMap, fLRU            = "cache/map.go", "cache/lru.go"
)

var doNames = []string{"DoGet", "DoAdd", "DoUpdate", "DoDelete", "DoUpdOrAddIfNull", "DoUpsertThenLoad", "DoUpsertThenRenewInCache"}

func prefixed(pfx string, names []string) []string {
	var out []string
	for _, n := range names {
		out = append(out, pfx+n)
	}
	return out
}

// groups of pinned functions, one Lean fact each (order = field order of Nv.C15.Facts)
var factGroups = []struct {
	name string
	fns  []fnRef
}{
	{"handlers", refs(fWorker, "Worker.handleAsync", "Worker.handleLoad", "Worker.handleAdd", "Worker.handleUpdate", "Worker.handleMixUpdOrAddIfNull",
		"Worker.handleMixUpsertThenLoad", "Worker.handleMixUpsertThenRenewInCache")},
	{"workerApi", cat(refs(fWorker, append(prefixed("Worker.", doNames), "NewWorker", "Worker.Stop", "Worker.asyncCall", "Worker.runLoop")...),
		refs(fGas, "NewAsync", "AsyncC.SetR", "AsyncC.R", "NewLoad", "NewAdd", "NewUpdate", "NewDelete", "NewMixUpdOrAddIfNull", "NewMixUpsertThenLoad", "NewMixUpsertThenRenewInCache"))},
	{"groupRouting", cat(refs(fGroup, append(prefixed("WorkerGrp.", doNames), "NewWorkGrp", "NewWorkGrpWithMapCache", "NewWorkGrpWithLRU", "buildWorkGrp",
		"WorkerGrp.Start", "WorkerGrp.Stop", "WorkerGrp.stop", "WorkerGrp.signalExit", "WorkerGrp.WaitStop", "WorkerGrp.MuxSize", "WorkerGrp.DeepSize")...),
		refs(fOpt, "WithSize", "WithDeep"))},
	{"facadeShape", refs(fFacade, "NewFacadeMap", "FacadeMap.Peek", "_wrapper.Size", "NewFacadeLRU", "FacadeLRU.Peek", "FacadeLRU.Get", "FacadeLRU.Set", "FacadeLRU.Delete")},
	{"queueBodies", refs(fMQ, "NewQ", "Q.AddReqAnyway", "Q.AddReq", "Q.AddPriorReq", "Q.Pop", "Q.PopAnyway", "Q.Close", "Q.WaitClose", "Q.IsClosed")},
	{"cacheBodies", cat(refs(fMap, "NewMap", "Map.Init", "Map.Set", "Map.Get", "Map.Exist", "Map.Delete"),
		refs(fLRU, "NewLRUCache", "LRUCache.Init", "LRUCache.Get", "LRUCache.Peek", "LRUCache.Set", "LRUCache.Delete", "LRUCache.updateInPlace", "LRUCache.addNew", "LRUCache.checkCapacity"))},
}

// configuration-selecting functions: shape -> value (alternate shapes are hashed from their canonical source text below)
var cfgShapes = map[string]map[string]string{}

func init() {
	alt := func(src string) string {
		t, err := gofacts.CanonText(src)
		if err != nil {
			panic(err)
		}
		return hashText(t)
	}
	cfgShapes[fWorker+"|Worker.handleDelete"] = map[string]string{
		alt(`func (w *Worker) handleDelete(c *AsyncC, op *OpDelete) { var err = op.deleteFn(c.ctx, op.k); if err != nil { c.SetR(nil, err); return }; w.ca.Delete(op.k); c.SetR(nil, nil) }`): "storeFirst",
		alt(`func (w *Worker) handleDelete(c *AsyncC, op *OpDelete) { w.ca.Delete(op.k); var err = op.deleteFn(c.ctx, op.k); if err != nil { c.SetR(nil, err); return }; c.SetR(nil, nil) }`): "cacheFirst",
		alt(`func (w *Worker) handleDelete(c *AsyncC, op *OpDelete) { var err = op.deleteFn(c.ctx, op.k); if err != nil { c.SetR(nil, err); return }; c.SetR(nil, nil) }`):                    "noDelete",
	}
	cfgShapes[fWorker+"|Worker.Start"] = map[string]string{
		alt("func (w *Worker) Start() {\n\tgo w.runLoop()\n}"):                                    "unguarded",
		alt("func (w *Worker) Start() {\n\tw.startOnce.Do(func() {\n\t\tgo w.runLoop()\n\t})\n}"): "once",
	}
}

// lock coverage: state-touching methods of mux.Q, cache.Map and cache.LRUCache
var locked = []struct {
	r            fnRef
	lock, unlock string
}{
	{fnRef{fMQ, "Q", "AddReq"}, "a.lock.Lock()", "a.lock.Unlock()"}, {fnRef{fMQ, "Q", "AddPriorReq"}, "a.lock.Lock()", "a.lock.Unlock()"},
	{fnRef{fMQ, "Q", "Pop"}, "a.lock.Lock()", "a.lock.Unlock()"}, {fnRef{fMQ, "Q", "PopAnyway"}, "a.lock.Lock()", "a.lock.Unlock()"},
	{fnRef{fMQ, "Q", "Close"}, "a.lock.Lock()", "a.lock.Unlock()"}, {fnRef{fMQ, "Q", "IsClosed"}, "a.lock.Lock()", "a.lock.Unlock()"},
	{fnRef{fMap, "Map", "Set"}, "m.lock.Lock()", "m.lock.Unlock()"}, {fnRef{fMap, "Map", "Delete"}, "m.lock.Lock()", "m.lock.Unlock()"},
	{fnRef{fMap, "Map", "Get"}, "m.lock.RLock()", "m.lock.RUnlock()"}, {fnRef{fMap, "Map", "Exist"}, "m.lock.RLock()", "m.lock.RUnlock()"},
	{fnRef{fLRU, "LRUCache", "Get"}, "lru.mu.Lock()", "lru.mu.Unlock()"}, {fnRef{fLRU, "LRUCache", "Peek"}, "lru.mu.Lock()", "lru.mu.Unlock()"},
	{fnRef{fLRU, "LRUCache", "Set"}, "lru.mu.Lock()", "lru.mu.Unlock()"}, {fnRef{fLRU, "LRUCache", "Delete"}, "lru.mu.Lock()", "lru.mu.Unlock()"},
}

func printShapes(repo string) {
	for _, g := range factGroups {
		for _, r := range g.fns {
			fmt.Printf("\t%q: %q,\n", r.key(), shapeOf(repo, r))
		}
	}
}

func extract(repo, leanDir string) {
	p, err := go2lean.LoadPkg(repo, "syncx/pipe/mux")
	if err != nil {
		fmt.Fprintln(os.Stderr, "extract:", err)
		os.Exit(2)
	}
	kernel, kmsg := "", "translated"
	if errs := p.TranslateAll("Int.HashedInt", "WorkerGrp.locHash"); len(errs) > 0 {
		kmsg = "UNTRANSLATABLE " + strings.Join(go2lean.SortedErrs(errs), "; ")
		kernel = "-- locHash / Int.HashedInt left the translatable subset: " + strings.ReplaceAll(kmsg, "\n", " ") + "\n"
	} else {
		var hk, lk *go2lean.Kernel
		for _, k := range p.Kernels() {
			switch k.Lean {
			case "int_hashedInt":
				hk = k
			case "workerGrp_locHash":
				lk = k
			}
		}
		// the key type's hash: a value receiver of integer type is the kernel's only input
		hf := fileOf(repo, "syncx/pipe/mux/hasher.go").Func("Int", "HashedInt")
		recv := ""
		if hf != nil && hf.Recv != nil && len(hf.Recv.List) == 1 && len(hf.Recv.List[0].Names) == 1 {
			recv = hf.Recv.List[0].Names[0].Name
		}
		okShape := hk != nil && lk != nil && recv != "" && len(hk.Params)+len(hk.Fields)+len(hk.Globals)+len(hk.Exts) == 0 &&
			len(lk.Params) == 0 && len(lk.Globals) == 0 && len(lk.Fields) == 1 && lk.Fields[0].Go == "w.muxSize" &&
			len(lk.Exts) == 1 && lk.Exts[0].Go == "k.HashedInt()" && len(lk.WFields) == 0
		if okShape {
			emitted := strings.Replace(p.Emit(), "def int_hashedInt : BitVec 64 :=", "def int_hashedInt ("+recv+" : BitVec 64) : BitVec 64 :=", 1)
			kernel = emitted + "/-- (muxSize, key) ↦ worker index: `locHash` applied to `Int(key).HashedInt()` -/\n" +
				"def loc : Nv.C15.Loc := fun n h => workerGrp_locHash n (int_hashedInt h)\n"
		} else {
			kmsg = "UNEXPECTED-SIGNATURE"
			kernel = "-- locHash / Int.HashedInt: unexpected inputs after translation\n"
		}
	}

	var fs, changed []string
	for _, g := range factGroups {
		ok := true
		for _, r := range g.fns {
			if shapeOf(repo, r) != expectedShapes[r.key()] {
				ok = false
				changed = append(changed, r.key())
			}
		}
		if !ok && g.name == "facadeShape" {
			// the whole group may have the key-normalising shape instead
			alt := true
			for k, want := range facadeWithKeyNormalisation {
				parts := strings.SplitN(k, "|", 2)
				recv, name := "", parts[1]
				if i := strings.Index(name, "."); i >= 0 {
					recv, name = name[:i], name[i+1:]
				}
				alt = alt && shapeOf(repo, fnRef{parts[0], recv, name}) == want
			}
			if alt {
				ok = true
				var keep []string
				for _, c := range changed {
					if !strings.HasPrefix(c, fFacade+"|") {
						keep = append(keep, c)
					}
				}
				changed = keep
			}
		}
		fs = append(fs, gofacts.LeanBool(ok))
	}
	locks := true
	for _, l := range locked {
		f := fileOf(repo, l.r.file)
		if f.LockCovered(f.Func(l.r.recv, l.r.name), l.lock, l.unlock) == "none" {
			locks = false
			changed = append(changed, l.r.key()+":lock")
		}
	}
	fs = append(fs, gofacts.LeanBool(locks))

	cfgOf := func(file, recv, name string) string {
		if v, ok := cfgShapes[file+"|"+recv+"."+name][shapeOf(repo, fnRef{file, recv, name})]; ok {
			return v
		}
		return "unknown"
	}
	del := cfgOf(fWorker, "Worker", "handleDelete")
	start := cfgOf(fWorker, "Worker", "Start")

	out := "import Nv.Model.C15\nset_option linter.unusedVariables false\n" +
		"/-! GENERATED by `c15 extract` from syncx/pipe/mux/*.go, cache/{map,lru}.go — do not edit. -/\n" +
		"namespace Nv.Gen.C15\n" + kernel +
		"def cfg : Nv.C15.Cfg := ⟨." + del + ", ." + start + "⟩\n" +
		"def facts : Nv.C15.Facts := ⟨" + strings.Join(fs, ", ") + "⟩\n" +
		"end Nv.Gen.C15\n"
	if err := gofacts.WriteIfChanged(filepath.Join(leanDir, "Nv/Gen/C15.lean"), out); err != nil {
		fmt.Fprintln(os.Stderr, err)
		os.Exit(2)
	}
	fmt.Printf("extract C15: kernel locHash∘Int.HashedInt %s; delOrder=%s startGuard=%s facts=%s changed=%v\n", kmsg, del, start, strings.Join(fs, ","), changed)
}

// ---------------------------------------------------------------- instrumented store

var (
	errInj      = errors.New("injected")
	errNotFound = errors.New("not-found")
	errExists   = errors.New("exists")
)

type pair struct{ k, v int }

type store struct {
	mu             sync.Mutex
	m              map[int]int
	faults         []byte        // one token per callback invocation: '0' ok, '1' fail, 'c' ok but the caller's context is cancelled meanwhile
	cancel         func()        // cancels the context of the operation in flight
	block          chan struct{} // when set, the next callback parks on it once (pile)
	applied        map[int][]int // key -> data values applied by upsert callbacks, in order (pile)
	trace          []string
	busy           map[int]bool // key -> a callback for it is executing (serialisation monitor)
	bad            map[int]bool // keys already reported incoherent in this group (later sightings are consequences)
	hits           map[string]string
	slow           bool // stress: widen the window inside callbacks
	extraConsumers bool // a second Start() added consumers to this group
	sized          bool // values implement cache.Value with Size() = v%3+1
}

// model value 0 is the Go value nil: a callback may legitimately hand back (nil, nil) for an existing row
func iface(v int) interface{} {
	if v == 0 {
		return nil
	}
	return v
}

// sizedVal: a value that reports its own size to the LRU cache (facade kind `lrus`)
type sizedVal int

// rows of size 0, 1 or 2 (model: `vsize`): an LRU may hold nothing but zero-sized rows
func (v sizedVal) Size() int { return int(v) % 3 }

func (s *store) wrap(v int) interface{} {
	if v != 0 && s.sized {
		return sizedVal(v)
	}
	return iface(v)
}

func unwrapVal(e interface{}) (int, bool) {
	switch x := e.(type) {
	case nil:
		return 0, true
	case int:
		return x, true
	case sizedVal:
		return int(x), true
	}
	return 0, false
}

func newStore() *store {
	return &store{applied: map[int][]int{}, m: map[int]int{}, busy: map[int]bool{}, bad: map[int]bool{}, hits: map[string]string{}}
}

func (s *store) hit(key, what string) {
	if s.extraConsumers && key != "C15:WorkerGrp.Start:second-call-adds-consumer" {
		// whatever else goes wrong in a group with two consumers per worker is a consequence of that one root cause
		key, what = "C15:WorkerGrp.Start:two-consumers-break-serial-application", "with the extra consumer(s) running: "+what
	}
	if _, ok := s.hits[key]; !ok {
		s.hits[key] = what
	}
}

// enter: log the callback, consume one fault bit, check that no other callback for the key is in flight
func (s *store) enter(cb string, k int) (fault bool, leave func()) {
	s.mu.Lock()
	s.trace = append(s.trace, cb)
	var tok byte = '0'
	if len(s.faults) > 0 {
		tok = s.faults[0]
		s.faults = s.faults[1:]
	}
	fault = tok == '1'
	cancel := s.cancel
	block := s.block
	s.block = nil
	if s.busy[k] {
		s.hit("C15:mux:same-key-callbacks-overlap", fmt.Sprintf("callback %s for key %d entered while another callback for that key was executing", cb, k))
	}
	s.busy[k] = true
	s.mu.Unlock()
	if tok == 'c' && cancel != nil {
		cancel()
	}
	if block != nil {
		<-block
	}
	if s.slow {
		time.Sleep(20 * time.Microsecond)
	}
	return fault, func() { s.mu.Lock(); delete(s.busy, k); s.mu.Unlock() }
}

func (s *store) load(ctx context.Context, d interface{}) (interface{}, error) {
	k := keyToInt(d)
	f, leave := s.enter("load", k)
	defer leave()
	if f {
		return nil, errInj
	}
	s.mu.Lock()
	defer s.mu.Unlock()
	if v, ok := s.m[k]; ok {
		return s.wrap(v), nil
	}
	return nil, errNotFound
}

func (s *store) add(ctx context.Context, d interface{}) (interface{}, error) {
	p := d.(pair)
	f, leave := s.enter("add", p.k)
	defer leave()
	if f {
		return nil, errInj
	}
	s.mu.Lock()
	defer s.mu.Unlock()
	if _, ok := s.m[p.k]; ok {
		return nil, errExists
	}
	s.m[p.k] = p.v
	return s.wrap(p.v), nil
}

// staleCheck: an existing item handed to a callback must be what the store holds (coherence at the moment of use)
func (s *store) staleCheck(cb string, k int, e interface{}, nilIsZero bool) {
	if e == nil && !nilIsZero {
		return
	}
	cur, ok := s.m[k]
	ev, isInt := unwrapVal(e)
	if (!isInt || !ok || ev != cur) && !s.bad[k] {
		s.bad[k] = true
		s.hit("C15:"+cb+":stale-item-handed-to-callback", fmt.Sprintf("%s for key %d received existing item %v, the store holds %v (present=%v)", cb, k, e, cur, ok))
	}
}

// merge is how the callbacks combine data with a row (model: `merge`): data 0 — the Go value nil — resets the row to the
// nil row, so an update or upsert of a cached key may legitimately hand back (nil, nil); any other data is added
func merge(e, v int) int {
	if v == 0 {
		return 0
	}
	return e + v
}

func (s *store) upd(ctx context.Context, d interface{}, e interface{}) (interface{}, error) {
	p := d.(pair)
	f, leave := s.enter("upd", p.k)
	defer leave()
	if f {
		return nil, errInj
	}
	s.mu.Lock()
	defer s.mu.Unlock()
	s.staleCheck("updFn", p.k, e, true)
	if _, ok := s.m[p.k]; !ok {
		return nil, errNotFound
	}
	ev, _ := unwrapVal(e)
	s.m[p.k] = merge(ev, p.v)
	return s.wrap(merge(ev, p.v)), nil
}

func (s *store) upsert(ctx context.Context, d interface{}, e interface{}) (interface{}, error) {
	p := d.(pair)
	f, leave := s.enter("upsert", p.k)
	defer leave()
	if f {
		return nil, errInj
	}
	s.mu.Lock()
	defer s.mu.Unlock()
	s.staleCheck("upsertFn", p.k, e, false)
	s.applied[p.k] = append(s.applied[p.k], p.v)
	if e == nil {
		// no existing row in hand (cache miss): merge in the store, hand back only what was given — the partial row
		s.m[p.k] = merge(s.m[p.k], p.v)
		return s.wrap(p.v), nil
	}
	base, _ := unwrapVal(e)
	s.m[p.k] = merge(base, p.v)
	return s.wrap(merge(base, p.v)), nil
}

func (s *store) del(ctx context.Context, d interface{}) error {
	k := keyToInt(d)
	f, leave := s.enter("del", k)
	defer leave()
	if f {
		return errInj
	}
	s.mu.Lock()
	defer s.mu.Unlock()
	delete(s.m, k)
	return nil
}

func isNotFound(err error) bool { return err == errNotFound }

// ---------------------------------------------------------------- the group under test

type group struct {
	g           *mux.WorkerGrp
	st          *store
	facades     []mux.CacheFacade
	keys        map[int]bool
	home        map[int]int // key -> worker whose cache was seen holding it
	extra       int         // consumer goroutines added by Start() calls after the first
	gates       []*gateFacade
	justDeleted map[int]bool // key -> the last operation on it was a successful delete
}

// startAgain: the script called `start`: groups (also the fresh ones of stress / pile) get Start() a second time
var startAgain bool

func newGroup(lru bool, capN, workers int) *group { return newGroupDeep(lru, capN, workers, 256) }

// start calls Start() again; a second call must not add consumers (goroutines inside runLoop are counted)
func (gr *group) start() {
	_ = c14q.Quiesce(10 * time.Second) // goroutines of the first Start() show their runLoop frame only once they ran
	before := c14q.CountIn("mux.(*Worker).runLoop")
	gr.g.Start()
	_ = c14q.Quiesce(10 * time.Second)
	if after := c14q.CountIn("mux.(*Worker).runLoop"); after > before {
		gr.extra += after - before
		gr.st.mu.Lock()
		gr.st.extraConsumers = true
		gr.st.hit("C15:WorkerGrp.Start:second-call-adds-consumer", fmt.Sprintf("a second Start() started %d more consumer goroutine(s) for %d worker(s)", after-before, len(gr.facades)))
		gr.st.mu.Unlock()
	}
}

// gateFacade passes everything through to the real facade; when armed, the next Set is held open until released,
// so the harness can look at the world between "the handler decided to write the cache" and the write itself
type gateFacade struct {
	inner            mux.CacheFacade
	mu               sync.Mutex
	armed            bool
	entered, release chan struct{}
}

func (g *gateFacade) Peek(k interface{}) (interface{}, bool) { return g.inner.Peek(k) }
func (g *gateFacade) Get(k interface{}) (interface{}, bool)  { return g.inner.Get(k) }
func (g *gateFacade) Delete(k interface{})                   { g.inner.Delete(k) }
func (g *gateFacade) Set(k interface{}, v interface{}) {
	g.mu.Lock()
	if g.armed {
		g.armed = false
		ent, rel := g.entered, g.release
		g.mu.Unlock()
		close(ent)
		<-rel
	} else {
		g.mu.Unlock()
	}
	g.inner.Set(k, v)
}

// sizedGroups: the facade kind of the script in flight is `lrus`
var sizedGroups bool

func newGroupDeep(lru bool, capN, workers, deep int) *group {
	gr := &group{st: newStore(), keys: map[int]bool{}, home: map[int]int{}, justDeleted: map[int]bool{}}
	gr.st.sized = sizedGroups && lru
	gr.g = mux.NewWorkGrp(func() mux.CacheFacade {
		var f mux.CacheFacade
		if lru {
			f = mux.NewFacadeLRU(int64(capN))
		} else {
			f = mux.NewFacadeMap()
		}
		g := &gateFacade{inner: f}
		gr.facades = append(gr.facades, f)
		gr.gates = append(gr.gates, g)
		return g
	}, mux.WithSize(workers), mux.WithDeep(deep))
	gr.g.Start()
	if startAgain {
		gr.start()
	}
	return gr
}

func (gr *group) close() {
	if gr.extra > 0 {
		return // extra consumers: Stop would drive the wait group negative inside the library; leave the goroutines behind
	}
	gr.g.Stop()
	ctx, cancel := context.WithTimeout(context.Background(), 5*time.Second)
	_ = gr.g.WaitStop(ctx)
	cancel()
}

func canonRes(op string, r interface{}, err error) string {
	switch {
	case err == nil && r == nil && op == "del":
		return "nil"
	case err == nil && r == nil:
		return "ok:0"
	case err == context.Canceled:
		return "err:ctx"
	case err == mux.ErrQFull:
		return "err:full"
	case err == nil:
		if v, ok := unwrapVal(r); ok {
			return "ok:" + strconv.Itoa(v)
		}
		return fmt.Sprintf("ok?%v", r)
	case err == mux.ErrDupKey:
		return "err:dup"
	case err == errInj:
		return "err:inj"
	case err == errNotFound:
		return "err:nf"
	case err == errExists:
		return "err:exists"
	}
	return "err?" + err.Error()
}

// keyTypes: the key types of hasher.go the scripts can use; the store and the monitors stay keyed by int
var keyTypes = map[string]func(k int) mux.Hashed2Int{
	"int": func(k int) mux.Hashed2Int { return mux.Int(k) }, "int64": func(k int) mux.Hashed2Int { return mux.Int64(k) },
	"uint64": func(k int) mux.Hashed2Int { return mux.UInt64(uint64(k)) }, "intcrc": func(k int) mux.Hashed2Int { return mux.IntCRC(k) },
	"int64crc": func(k int) mux.Hashed2Int { return mux.Int64CRC(k) }, "uint64crc": func(k int) mux.Hashed2Int { return mux.UInt64CRC(uint64(k)) },
	"string": func(k int) mux.Hashed2Int { return mux.String(strconv.Itoa(k)) },
	// strmix: one group serving three row kinds whose key types are all string-kind: script keys 3t, 3t+1, 3t+2 are the
	// DIFFERENT keys mux.String("t"), userID("t"), teamID("t") — equal text, different Go types, hence different cache keys
	"strmix": func(k int) mux.Hashed2Int {
		t, r := floorDivMod3(k)
		switch r {
		case 0:
			return mux.String(strconv.Itoa(t))
		case 1:
			return userID(strconv.Itoa(t))
		}
		return teamID(strconv.Itoa(t))
	},
}

type userID string
type teamID string

func (v userID) HashedInt() int { return int(crc32.ChecksumIEEE([]byte(v))) }
func (v teamID) HashedInt() int { return int(crc32.ChecksumIEEE([]byte(v))) }

func floorDivMod3(k int) (int, int) {
	t := k / 3
	if k%3 < 0 {
		t--
	}
	return t, k - 3*t
}

// scriptKeyType: the key type selected by `keytype <t>` for the script in flight
var scriptKeyType = "int"

func mkKey(k int) mux.Hashed2Int { return keyTypes[scriptKeyType](k) }

func keyToInt(d interface{}) int {
	switch x := d.(type) {
	case mux.Int:
		return int(x)
	case mux.Int64:
		return int(x)
	case mux.UInt64:
		return int(x)
	case mux.IntCRC:
		return int(x)
	case mux.Int64CRC:
		return int(x)
	case mux.UInt64CRC:
		return int(x)
	case mux.String:
		n, _ := strconv.Atoi(string(x))
		if scriptKeyType == "strmix" {
			return 3 * n
		}
		return n
	case userID:
		n, _ := strconv.Atoi(string(x))
		return 3*n + 1
	case teamID:
		n, _ := strconv.Atoi(string(x))
		return 3*n + 2
	}
	panic(fmt.Sprintf("harness: unexpected key %T", d))
}

// barrierKey hashes like key h but is never a cache key of the scripts: an operation on it goes through the same worker
type barrierKey struct{ of mux.Hashed2Int }

func (b barrierKey) HashedInt() int { return b.of.HashedInt() }

// barrier returns when the worker of key k has finished everything queued before (FIFO, one consumer)
func (gr *group) barrier(k int) {
	defer func() { _ = recover() }()
	_, _ = gr.g.DoGet(context.Background(), func(context.Context, interface{}) (interface{}, error) { return nil, errInj }, barrierKey{mkKey(k)})
}

func (gr *group) do(op string, k, v int) (res string) {
	ctx, cancel := context.WithCancel(context.Background())
	defer cancel()
	key := mkKey(k)
	st := gr.st
	st.mu.Lock()
	st.cancel = cancel
	st.mu.Unlock()
	done := make(chan string, 1)
	go func() {
		defer func() {
			if p := recover(); p != nil {
				msg := fmt.Sprint(p)
				if strings.Contains(msg, "index out of range") {
					st.mu.Lock()
					st.hit("C15:WorkerGrp.locHash:out-of-range", fmt.Sprintf("%s on key %d with %d workers: panic: %s", op, k, len(gr.facades), msg))
					st.mu.Unlock()
				} else {
					st.mu.Lock()
					st.hit("C15:mux:caller-panic", msg)
					st.mu.Unlock()
				}
				done <- "panic"
			}
		}()
		var r interface{}
		var err error
		switch op {
		case "get":
			r, err = gr.g.DoGet(ctx, st.load, key)
		case "add":
			r, err = gr.g.DoAdd(ctx, st.add, key, pair{k, v})
		case "upd":
			r, err = gr.g.DoUpdate(ctx, st.load, st.upd, key, pair{k, v})
		case "del":
			r, err = gr.g.DoDelete(ctx, st.del, key)
		case "uoa":
			r, err = gr.g.DoUpdOrAddIfNull(ctx, st.load, st.upd, st.add, isNotFound, key, pair{k, v})
		case "utl":
			r, err = gr.g.DoUpsertThenLoad(ctx, st.upsert, st.load, key, pair{k, v})
		case "utr":
			r, err = gr.g.DoUpsertThenRenewInCache(ctx, st.upsert, key, pair{k, v})
		}
		done <- canonRes(op, r, err)
	}()
	select {
	case res = <-done:
	case <-time.After(5 * time.Second):
		// the code under test hangs: an observation (the parent turns exit status 3 into a monitor hit)
		fmt.Fprintf(os.Stderr, "OBSERVATION never-completes: %s on key %d did not return within 5 s\n", op, k)
		os.Exit(3)
	}
	return res
}

// peek reads every worker's cache without touching recency
// rawPeek reads a facade's underlying cache directly (not through the facade methods under test); nil reads as 0
func rawPeek(f mux.CacheFacade, key interface{}) (interface{}, bool) {
	norm := func(v interface{}) interface{} {
		if v == nil {
			return 0
		}
		return v
	}
	switch x := f.(type) {
	case *mux.FacadeMap:
		v, ok := x.Map.Get(key)
		return norm(v), ok
	case *mux.FacadeLRU:
		w, ok := x.LRUCache.Peek(key)
		if !ok {
			return nil, false
		}
		rv := reflect.ValueOf(w)
		if rv.Kind() == reflect.Struct && rv.NumField() == 1 && rv.Field(0).Kind() == reflect.Interface {
			fv := rv.Field(0)
			if fv.IsNil() {
				return 0, true
			}
			if e := fv.Elem(); e.CanInt() {
				return int(e.Int()), true
			}
			return "?" + fv.Elem().Kind().String(), true
		}
		return "?" + rv.Kind().String(), true
	}
	v, ok := f.Peek(key)
	return norm(v), ok
}

func (gr *group) peek(k int) (where []int, vals []interface{}) {
	for i, f := range gr.facades {
		if v, ok := rawPeek(f, mkKey(k)); ok {
			where = append(where, i)
			vals = append(vals, v)
		}
	}
	return
}

// coherence monitor: the property restated on the real objects
func (gr *group) checkCoherent(site string) {
	st := gr.st
	var ks []int
	for k := range gr.keys {
		ks = append(ks, k)
	}
	sort.Ints(ks)
	for _, k := range ks {
		where, vals := gr.peek(k)
		st.mu.Lock()
		cur, present := st.m[k]
		for j, w := range where {
			if v, ok := vals[j].(int); (!ok || !present || v != cur) && !st.bad[k] {
				st.bad[k] = true
				st.hit("C15:"+site+":cache-differs-from-store", fmt.Sprintf("after %s: worker %d caches key %d = %v, the store holds %v (present=%v)", site, w, k, vals[j], cur, present))
			}
			if h, seen := gr.home[k]; seen && h != w {
				st.hit("C15:locHash:key-cached-by-two-workers", fmt.Sprintf("key %d cached by worker %d and by worker %d", k, h, w))
			}
			gr.home[k] = w
		}
		st.mu.Unlock()
	}
}

var handlerOf = map[string]string{"get": "handleLoad", "add": "handleAdd", "upd": "handleUpdate", "del": "handleDelete",
	"uoa": "handleMixUpdOrAddIfNull", "utl": "handleMixUpsertThenLoad", "utr": "handleMixUpsertThenRenewInCache"}

func (gr *group) op(op string, k, v int, faults []byte) string {
	gr.keys[k] = true
	st := gr.st
	cachedBefore, _ := gr.peek(k)
	st.mu.Lock()
	st.faults, st.trace = faults, nil
	st.mu.Unlock()
	res := gr.do(op, k, v)
	if strings.ContainsRune(string(faults), 'c') && res != "panic" {
		gr.barrier(k) // the caller may have left before the handler finished
	}
	st.mu.Lock()
	trace := append([]string{}, st.trace...)
	st.faults = nil
	if op == "get" && gr.justDeleted[k] && !strings.HasPrefix(res, "panic") && (len(trace) == 0 || trace[0] != "load") {
		st.hit("C15:handleDelete:get-after-delete-served-from-cache", fmt.Sprintf("get of key %d right after its successful delete returned %s without consulting the store (callbacks %v)", k, res, trace))
	}
	gr.justDeleted[k] = op == "del" && res == "nil"
	if op == "add" && len(cachedBefore) > 0 && (res != "err:dup" || len(trace) != 0) {
		st.hit("C15:handleAdd:store-touched-for-cached-key", fmt.Sprintf("add on cached key %d: result %s, callbacks %v (expected duplicate-key error and no callback)", k, res, trace))
	}
	st.mu.Unlock()
	if op == "del" && (res == "nil" || (res == "err:ctx" && len(trace) == 1 && !strings.ContainsRune(string(faults), '1'))) {
		if w, _ := gr.peek(k); len(w) > 0 {
			st.mu.Lock()
			st.hit("C15:handleDelete:entry-still-cached", fmt.Sprintf("delete of key %d succeeded but worker %v still caches it", k, w))
			st.mu.Unlock()
		}
	}
	gr.checkCoherent(handlerOf[op])
	return res + " cb=" + strings.Join(trace, ",")
}

// gap runs one operation with every facade's next Set held open. "Completed" means the caller has its result: at that
// moment the cache must already agree with the store. If the caller returns while the Set is still pending, what the
// cache (and DoGet's fast path) serves for the key is compared with the store.
func (gr *group) gap(op string, k, v int) string {
	gr.keys[k] = true
	gr.justDeleted[k] = false
	st := gr.st
	st.mu.Lock()
	st.faults, st.trace = nil, nil
	st.mu.Unlock()
	for _, g := range gr.gates {
		g.mu.Lock()
		g.armed, g.entered, g.release = true, make(chan struct{}), make(chan struct{})
		g.mu.Unlock()
	}
	done := make(chan string, 1)
	go func() { done <- gr.do(op, k, v) }()
	if err := c14q.Quiesce(10 * time.Second); err != nil {
		fmt.Fprintln(os.Stderr, "harness error:", err)
		os.Exit(2)
	}
	var held []*gateFacade
	for _, g := range gr.gates {
		select {
		case <-g.entered:
			held = append(held, g)
		default:
		}
	}
	res, returned := "", false
	select {
	case res = <-done:
		returned = true
	default:
	}
	if returned && len(held) > 0 {
		where, vals := gr.peek(k)
		st.mu.Lock()
		cur, present := st.m[k]
		st.mu.Unlock()
		for j := range where {
			if cv, ok := vals[j].(int); !ok || !present || cv != cur {
				got := fmt.Sprint(vals[j])
				if r, err := gr.g.DoGet(context.Background(), st.load, mkKey(k)); err == nil {
					if gv, ok := unwrapVal(r); ok {
						got = strconv.Itoa(gv)
					}
				}
				st.mu.Lock()
				st.bad[k] = true
				st.hit("C15:"+handlerOf[op]+":result-before-cache-write", fmt.Sprintf("%s on key %d returned %s to its caller while the cache write was still pending: DoGet serves %s, the store holds %d", op, k, res, got, cur))
				st.mu.Unlock()
			}
		}
	}
	for _, g := range gr.gates {
		g.mu.Lock()
		g.armed = false
		g.mu.Unlock()
	}
	for _, g := range held {
		close(g.release)
	}
	if !returned {
		res = <-done
	}
	gr.barrier(k)
	st.mu.Lock()
	trace := append([]string{}, st.trace...)
	st.mu.Unlock()
	gr.checkCoherent(handlerOf[op])
	return res + " cb=" + strings.Join(trace, ",")
}

// stress: a concurrent mix on a fresh group of the same shape; judged by the monitors only.
func stress(lru bool, capN, workers int, seed, n int, hits map[string]string) {
	gr := newGroup(lru, capN, workers)
	gr.st.slow = true
	r := rng.New(uint64(seed)*7919 + 13)
	keys := []int{0, 1, 2, -1, 5}
	for _, k := range keys {
		gr.keys[k] = true
	}
	ops := []string{"get", "add", "upd", "del", "uoa", "utl", "utr"}
	var wg sync.WaitGroup
	for i := 0; i < n; i++ {
		rr := r.Fork(uint64(i))
		wg.Add(1)
		go func() {
			defer wg.Done()
			for j := 0; j < 12; j++ {
				// faults are drawn by whichever callback runs next (shared list): any pattern is a legal fault sequence
				if rr.Chance(1, 4) {
					gr.st.mu.Lock()
					gr.st.faults = append(gr.st.faults, '1')
					gr.st.mu.Unlock()
				}
				gr.do(ops[rr.Intn(len(ops))], keys[rr.Intn(len(keys))], rr.Range(1, 9))
			}
		}()
	}
	fin := make(chan struct{})
	go func() { wg.Wait(); close(fin) }()
	select {
	case <-fin:
	case <-time.After(15 * time.Second):
		fmt.Fprintln(os.Stderr, "OBSERVATION never-completes: a concurrent mix did not finish within 15 s")
		os.Exit(3)
	}
	gr.checkCoherent("concurrent-mix")
	gr.st.slow = false
	routingStress(gr, n)
	// the DoGet fast path reads the cache from caller goroutines while the worker writes it
	{
		var wg2 sync.WaitGroup
		stop := make(chan struct{})
		_, _ = gr.g.DoUpsertThenLoad(context.Background(), gr.st.upsert, gr.st.load, mux.Int(1), pair{1, 1})
		for i := 0; i < 4; i++ {
			wg2.Add(1)
			go func() {
				defer wg2.Done()
				for {
					select {
					case <-stop:
						return
					default:
					}
					_, _ = gr.g.DoGet(context.Background(), gr.st.load, mux.Int(1))
				}
			}()
		}
		gr.st.slow = false
		for j := 0; j < 400*n; j++ {
			k := j%3 + 1
			_, _ = gr.g.DoUpsertThenLoad(context.Background(), gr.st.upsert, gr.st.load, mux.Int(k), pair{k, 1})
			if j%7 == 0 {
				_, _ = gr.g.DoDelete(context.Background(), gr.st.del, mux.Int(k))
			}
		}
		close(stop)
		wg2.Wait()
		gr.barrier(1)
		gr.keys[1], gr.keys[2], gr.keys[3] = true, true, true
		gr.checkCoherent("concurrent-mix")
	}
	gr.close()
	for k, v := range gr.st.hits {
		if _, ok := hits[k]; !ok {
			hits[k] = v
		}
	}
}

// ---------------------------------------------------------------- script runner

func parseKey(s string) (int, bool) {
	if strings.HasPrefix(s, "+") {
		return 0, false
	}
	v, err := strconv.ParseInt(s, 10, 64)
	return int(v), err == nil
}

func parseNat(s string, max int) (int, bool) {
	if s == "" || len(s) > 9 {
		return 0, false
	}
	for _, ch := range s {
		if ch < '0' || ch > '9' {
			return 0, false
		}
	}
	v, _ := strconv.Atoi(s)
	return v, v <= max
}

func parseFaults(s string) ([]byte, bool) {
	if s == "-" {
		return nil, true
	}
	if len(s) > 8 || s == "" {
		return nil, false
	}
	for _, ch := range s {
		if ch != '0' && ch != '1' && ch != 'c' {
			return nil, false
		}
	}
	return []byte(s), true
}

// pile: one worker is kept busy inside a callback, further operations on the same key are submitted one at a time
// (each observed at quiescence: parked = accepted, returned = turned away), then the worker is released.
// The operations must be applied one at a time in acceptance order. Runs on a fresh group; judged by monitors only.
func pile(lru bool, capN, workers, k, m int, hits map[string]string) {
	gr := newGroupDeep(lru, capN, workers, 2)
	st := gr.st
	settle := func() {
		if err := c14q.Quiesce(10 * time.Second); err != nil {
			fmt.Fprintln(os.Stderr, "harness error:", err)
			os.Exit(2)
		}
	}
	type sub struct {
		v    int
		done chan string
		res  string
	}
	submit := func(v int) *sub {
		s := &sub{v: v, done: make(chan string, 1)}
		go func() {
			defer func() {
				if recover() != nil {
					s.done <- "panic"
				}
			}()
			r, err := gr.g.DoUpsertThenRenewInCache(context.Background(), st.upsert, mkKey(k), pair{k, v})
			s.done <- canonRes("utr", r, err)
		}()
		return s
	}
	block := make(chan struct{})
	st.mu.Lock()
	st.block = block
	st.mu.Unlock()
	subs := []*sub{submit(100)}
	settle()
	for i := 1; i <= m; i++ {
		s := submit(i)
		settle()
		select {
		case s.res = <-s.done:
		default:
		}
		subs = append(subs, s)
	}
	close(block)
	for _, s := range subs {
		if s.res == "" {
			select {
			case s.res = <-s.done:
			case <-time.After(5 * time.Second):
				fmt.Fprintln(os.Stderr, "OBSERVATION never-completes: operations piled up behind a released callback did not return within 5 s")
				os.Exit(3)
			}
		}
	}
	gr.barrier(k)
	var want []int
	for _, s := range subs {
		if strings.HasPrefix(s.res, "ok:") {
			want = append(want, s.v)
		}
	}
	st.mu.Lock()
	got := append([]int{}, st.applied[k]...)
	if fmt.Sprint(got) != fmt.Sprint(want) && subs[0].res != "panic" {
		st.hit("C15:asyncCall:same-key-order", fmt.Sprintf("operations on key %d were accepted in order %v (others were turned away) but applied to the store in order %v", k, want, got))
	}
	st.mu.Unlock()
	gr.keys[k] = true
	gr.checkCoherent("pile")
	gr.close()
	for key, v := range st.hits {
		if _, ok := hits[key]; !ok {
			hits[key] = v
		}
	}
}

// backlog: the key's worker is held inside a callback, m further operations on the same key are accepted behind it in a
// known order (from one goroutine, with contexts that are already done: the caller leaves at once, the operation stays
// queued and must still be applied), then the worker is released. Every accepted operation is applied exactly once, in
// acceptance order, and the cache agrees with the store afterwards. Fresh group (unbounded queue); monitors only.
func backlog(lru bool, capN, workers, k, m int, hits map[string]string) {
	gr := newGroupDeep(lru, capN, workers, 0)
	st := gr.st
	block := make(chan struct{})
	st.mu.Lock()
	st.block = block
	st.mu.Unlock()
	first := make(chan string, 1)
	go func() {
		defer func() {
			if recover() != nil {
				first <- "panic"
			}
		}()
		r, err := gr.g.DoUpsertThenRenewInCache(context.Background(), st.upsert, mkKey(k), pair{k, 100})
		first <- canonRes("utr", r, err)
	}()
	if err := c14q.Quiesce(10 * time.Second); err != nil {
		fmt.Fprintln(os.Stderr, "harness error:", err)
		os.Exit(2)
	}
	gone, cancel := context.WithCancel(context.Background())
	cancel()
	want := []int{100}
	func() {
		defer func() { _ = recover() }()
		for i := 1; i <= m; i++ {
			var err error
			if i%2 == 0 {
				_, err = gr.g.DoUpsertThenRenewInCache(gone, st.upsert, mkKey(k), pair{k, i})
			} else {
				_, err = gr.g.DoUpsertThenLoad(gone, st.upsert, st.load, mkKey(k), pair{k, i})
			}
			if err == context.Canceled {
				want = append(want, i)
			}
		}
	}()
	close(block)
	// no barrier through the worker (it may be gone): once everything is parked or gone, what was applied is final
	if err := c14q.Quiesce(10 * time.Second); err != nil {
		fmt.Fprintln(os.Stderr, "harness error:", err)
		os.Exit(2)
	}
	res := "never-returned"
	select {
	case res = <-first:
	default:
	}
	st.mu.Lock()
	got := append([]int{}, st.applied[k]...)
	if fmt.Sprint(got) != fmt.Sprint(want) && res != "panic" {
		n := 0
		for n < len(got) && n < len(want) && got[n] == want[n] {
			n++
		}
		st.hit("C15:asyncCall:same-key-order", fmt.Sprintf("backlog of %d operations on key %d behind a held callback: %d were accepted, %d applied; the first %d agree with the acceptance order", m, k, len(want), len(got), n))
	}
	st.mu.Unlock()
	gr.keys[k] = true
	gr.checkCoherent("backlog")
	gr.close()
	for key, v := range st.hits {
		if _, ok := hits[key]; !ok {
			hits[key] = v
		}
	}
}

// queued: key k is cached, its worker is held inside a callback, and m operations of every queued kind (delete, add,
// update, update-or-add, both upserts) on k are submitted behind it from one goroutine, in a known order, with contexts
// that are already done (the caller leaves at once, the operation stays queued). None of them may be decided on the
// caller's side from what the cache holds before the queued ones ran; after the release the store and the cache must be
// what the same sequence leaves when applied one operation at a time on a fresh group. Monitors only.
var queuedKinds = []string{"del", "add", "upd", "del", "uoa", "utl", "del", "utr", "add", "uoa", "del", "upd"}

func (gr *group) submit(ctx context.Context, op string, k, v int) (interface{}, error) {
	st, key := gr.st, mkKey(k)
	switch op {
	case "add":
		return gr.g.DoAdd(ctx, st.add, key, pair{k, v})
	case "upd":
		return gr.g.DoUpdate(ctx, st.load, st.upd, key, pair{k, v})
	case "del":
		return gr.g.DoDelete(ctx, st.del, key)
	case "uoa":
		return gr.g.DoUpdOrAddIfNull(ctx, st.load, st.upd, st.add, isNotFound, key, pair{k, v})
	case "utl":
		return gr.g.DoUpsertThenLoad(ctx, st.upsert, st.load, key, pair{k, v})
	}
	return gr.g.DoUpsertThenRenewInCache(ctx, st.upsert, key, pair{k, v})
}

func queued(lru bool, capN, workers, k, m int, hits map[string]string) {
	settle := func() {
		if err := c14q.Quiesce(10 * time.Second); err != nil {
			fmt.Fprintln(os.Stderr, "harness error:", err)
			os.Exit(2)
		}
	}
	final := func(gr *group) string {
		where, vals := gr.peek(k)
		gr.st.mu.Lock()
		defer gr.st.mu.Unlock()
		cur, present := gr.st.m[k]
		return fmt.Sprintf("store=%d present=%v cached-by=%d values=%v", cur, present, len(where), vals)
	}
	// the reference: the same sequence, one operation at a time
	ref := newGroupDeep(lru, capN, workers, 0)
	_, _ = ref.submit(context.Background(), "add", k, 7)
	_, _ = ref.submit(context.Background(), "utr", k, 100)
	for i := 1; i <= m; i++ {
		_, _ = ref.submit(context.Background(), queuedKinds[i%len(queuedKinds)], k, i)
	}
	want := final(ref)
	ref.close()

	gr := newGroupDeep(lru, capN, workers, 0)
	st := gr.st
	_, _ = gr.submit(context.Background(), "add", k, 7)
	block := make(chan struct{})
	st.mu.Lock()
	st.block = block
	st.mu.Unlock()
	go func() {
		defer func() { _ = recover() }()
		_, _ = gr.submit(context.Background(), "utr", k, 100)
	}()
	settle()
	gone, cancel := context.WithCancel(context.Background())
	cancel()
	func() {
		defer func() { _ = recover() }()
		for i := 1; i <= m; i++ {
			op := queuedKinds[i%len(queuedKinds)]
			r, err := gr.submit(gone, op, k, i)
			if err != context.Canceled {
				st.mu.Lock()
				st.hit("C15:asyncCall:decided-before-queued-operations", fmt.Sprintf("%s on key %d, submitted while %d earlier operations on the key were still queued behind a held callback, returned %s at once instead of being queued", op, k, i, canonRes(op, r, err)))
				st.mu.Unlock()
			}
		}
	}()
	close(block)
	settle()
	if got := final(gr); got != want {
		st.mu.Lock()
		st.hit("C15:asyncCall:queued-sequence-differs-from-sequential", fmt.Sprintf("%d operations on key %d queued behind a held callback left %s; applied one at a time they leave %s", m, k, got, want))
		st.mu.Unlock()
	}
	gr.keys[k] = true
	gr.checkCoherent("queued")
	gr.close()
	for key, v := range st.hits {
		if _, ok := hits[key]; !ok {
			hits[key] = v
		}
	}
}

// routingStress: parallel callers, each owns one key of a hashing key type (String, IntCRC, Int64CRC): after its own
// completed upsert a caller's DoGet must serve exactly what the upsert left; no key may be cached by two workers.
func routingStress(gr *group, n int) {
	st := gr.st
	mk := []func(i int) mux.Hashed2Int{
		func(i int) mux.Hashed2Int { return mux.String(strconv.Itoa(1000 + i)) },
		func(i int) mux.Hashed2Int { return mux.IntCRC(2000 + i) },
		func(i int) mux.Hashed2Int { return mux.Int64CRC(3000 + i) },
	}
	var wg sync.WaitGroup
	for g := 0; g < 8; g++ {
		g := g
		wg.Add(1)
		go func() {
			defer wg.Done()
			defer func() { _ = recover() }()
			key := mk[g%3](g)
			ik := keyToInt(key)
			for j := 0; j < 20*n; j++ {
				r, err := gr.g.DoUpsertThenLoad(context.Background(), st.upsert, st.load, key, pair{ik, 1})
				if err != nil {
					continue
				}
				want, _ := unwrapVal(r)
				g2, err2 := gr.g.DoGet(context.Background(), st.load, key)
				if got, _ := unwrapVal(g2); err2 == nil && got != want {
					st.mu.Lock()
					st.hit("C15:locHash:routing-unstable", fmt.Sprintf("parallel callers with %T keys: after its own completed upsert left %d, the caller's DoGet served %d", key, want, got))
					st.mu.Unlock()
					return
				}
			}
		}()
	}
	wg.Wait()
	for g := 0; g < 8; g++ {
		key := mk[g%3](g)
		n := 0
		for _, f := range gr.facades {
			if _, ok := rawPeek(f, key); ok {
				n++
			}
		}
		if n > 1 {
			st.mu.Lock()
			st.hit("C15:locHash:key-cached-by-two-workers", fmt.Sprintf("key %v (%T) is cached by %d workers after a parallel run", key, key, n))
			st.mu.Unlock()
		}
	}
}

var probeKeys = map[string]func() mux.Hashed2Int{
	"int": func() mux.Hashed2Int { return mux.Int(7) }, "int64": func() mux.Hashed2Int { return mux.Int64(7) },
	"uint64": func() mux.Hashed2Int { return mux.UInt64(7) }, "intcrc": func() mux.Hashed2Int { return mux.IntCRC(7) },
	"string": func() mux.Hashed2Int { return mux.String("ab") }, "bytes": func() mux.Hashed2Int { return mux.Bytes("ab") },
}

// probe: a key of one of the shipped key types must be usable: get (miss → load), get again (hit, no load).
// Only DoGet is used: its cache access runs in the caller's goroutine, so a panic can be observed.
func probe(lru bool, capN int, keyType string, hits map[string]string) {
	if lru && capN == 0 {
		capN = 1
	}
	gr := newGroup(lru, capN, 2)
	defer gr.close()
	loads := 0
	load := func(ctx context.Context, d interface{}) (interface{}, error) { loads++; return 41, nil }
	res := func() (out string) {
		defer func() {
			if p := recover(); p != nil {
				out = fmt.Sprintf("panic: %v", p)
			}
		}()
		for i := 0; i < 2; i++ {
			r, err := gr.g.DoGet(context.Background(), load, probeKeys[keyType]())
			if err != nil || r != 41 {
				return fmt.Sprintf("DoGet no. %d returned (%v, %v)", i+1, r, err)
			}
		}
		if loads != 1 {
			return fmt.Sprintf("the store was consulted %d times for two gets of one key", loads)
		}
		return ""
	}()
	if res != "" {
		what := fmt.Sprintf("a key of type mux.%s cannot be used: %s", map[string]string{"int": "Int", "int64": "Int64", "uint64": "UInt64", "intcrc": "IntCRC", "string": "String", "bytes": "Bytes"}[keyType], res)
		// one key per failing input = key TYPE (+ kind of failure): a crash of another key type is another finding
		tn := map[string]string{"int": "Int", "int64": "Int64", "uint64": "UInt64", "intcrc": "IntCRC", "string": "String", "bytes": "Bytes"}[keyType]
		key := "C15:mux." + tn + ":key-type-unusable"
		if strings.Contains(res, "unhashable") {
			key = "C15:mux." + tn + ":unhashable-key"
		}
		if _, ok := hits[key]; !ok {
			hits[key] = what
		}
	}
}

func runScript(lines []string) ([]string, map[string]string) {
	startAgain, sizedGroups, scriptKeyType = false, false, "int"
	var gr *group
	var lru bool
	var capN, workers int
	hits := map[string]string{}
	finish := func() {
		if gr != nil {
			gr.close()
			for k, v := range gr.st.hits {
				if _, ok := hits[k]; !ok {
					hits[k] = v
				}
			}
			gr = nil
		}
	}
	var outs []string
	for _, l := range lines {
		var w []string
		for _, x := range strings.Split(l, " ") {
			if x != "" {
				w = append(w, x)
			}
		}
		out := "bad-op"
		switch {
		case len(w) == 4 && w[0] == "new":
			finish()
			c, ok1 := parseNat(w[2], 64)
			n, ok2 := parseNat(w[3], 128)
			if (w[1] == "map" || w[1] == "lru" || w[1] == "lrus") && ok1 && ok2 && n >= 1 {
				lru, capN, workers = w[1] != "map", c, n
				sizedGroups = w[1] == "lrus"
				gr = newGroup(lru, capN, workers)
				out = "ok"
			}
		case len(w) == 3 && (w[0] == "get" || w[0] == "del") && gr != nil:
			k, ok1 := parseKey(w[1])
			f, ok2 := parseFaults(w[2])
			if ok1 && ok2 {
				out = gr.op(w[0], k, 0, f)
			}
		case len(w) == 4 && handlerOf[w[0]] != "" && w[0] != "get" && w[0] != "del" && gr != nil:
			k, ok1 := parseKey(w[1])
			v, ok2 := parseNat(w[2], 999)
			f, ok3 := parseFaults(w[3])
			if ok1 && ok2 && ok3 {
				out = gr.op(w[0], k, v, f)
			}
		case len(w) == 4 && w[0] == "gap" && gr != nil && handlerOf[w[1]] != "" && w[1] != "get" && w[1] != "del":
			k, ok1 := parseKey(w[2])
			v, ok2 := parseNat(w[3], 999)
			if ok1 && ok2 {
				out = gr.gap(w[1], k, v)
			}
		case len(w) == 4 && w[0] == "pile" && gr != nil:
			k, ok1 := parseKey(w[1])
			m, ok2 := parseNat(w[2], 16)
			if ok1 && ok2 && w[3] == "-" {
				pile(lru, capN, workers, k, m, hits)
				out = "done"
			}
		case len(w) == 4 && w[0] == "stress" && gr != nil:
			seed, ok1 := parseNat(w[1], 999999999)
			n, ok2 := parseNat(w[2], 64)
			if ok1 && ok2 && w[3] == "-" {
				stress(lru, capN, workers, seed, n, hits)
				out = "done"
			}
		case len(w) == 2 && w[0] == "peek" && gr != nil:
			if k, ok := parseKey(w[1]); ok {
				_, vals := gr.peek(k)
				var parts []string
				for _, v := range vals {
					parts = append(parts, fmt.Sprintf("cached:%v", v))
				}
				out = "miss"
				if len(parts) > 0 {
					out = strings.Join(parts, ",")
				}
			}
		case len(w) == 2 && w[0] == "where" && gr != nil:
			if k, ok := parseKey(w[1]); ok {
				where, _ := gr.peek(k)
				var parts []string
				for _, i := range where {
					parts = append(parts, fmt.Sprintf("w%d", i))
				}
				out = "nowhere"
				if len(parts) > 0 {
					out = strings.Join(parts, ",")
				}
			}
		case len(w) == 2 && w[0] == "keytype" && gr != nil:
			if keyTypes[w[1]] != nil {
				scriptKeyType = w[1]
				out = "ok"
			}
		case len(w) == 4 && w[0] == "backlog" && gr != nil:
			k, ok1 := parseKey(w[1])
			m, ok2 := parseNat(w[2], 5000)
			if ok1 && ok2 && m >= 1 && w[3] == "-" {
				backlog(lru, capN, workers, k, m, hits)
				out = "done"
			}
		case len(w) == 4 && w[0] == "queued" && gr != nil:
			k, ok1 := parseKey(w[1])
			m, ok2 := parseNat(w[2], 5000)
			if ok1 && ok2 && m >= 1 && w[3] == "-" {
				queued(lru, capN, workers, k, m, hits)
				out = "done"
			}
		case len(w) == 1 && w[0] == "start" && gr != nil:
			startAgain = true
			gr.start()
			out = "ok"
		case len(w) == 2 && w[0] == "probe" && gr != nil:
			if probeKeys[w[1]] != nil {
				probe(lru, capN, w[1], hits)
				out = "ok"
			}
		case len(w) == 2 && w[0] == "store" && gr != nil:
			if k, ok := parseKey(w[1]); ok {
				gr.st.mu.Lock()
				if v, ok := gr.st.m[k]; ok {
					out = strconv.Itoa(v)
				} else {
					out = "none"
				}
				gr.st.mu.Unlock()
			}
		}
		outs = append(outs, out)
	}
	finish()
	return outs, hits
}

type childOut struct {
	Outs []string          `json:"outs"`
	Hits map[string]string `json:"hits"`
}

// runScriptChild: `c15 runscript` — a server loop: one script (JSON array of lines) per input line, one result JSON per
// output line. Every script of the correspondence runs here, in a child process: a panic in a worker goroutine, a runtime
// fatal error or a hang of the code under test is then an observation of the parent, never a harness error.
func runScriptChild() {
	in := bufio.NewScanner(os.Stdin)
	in.Buffer(make([]byte, 1<<20), 1<<26)
	w := bufio.NewWriter(os.Stdout)
	for in.Scan() {
		var lines []string
		if err := json.Unmarshal(in.Bytes(), &lines); err != nil {
			fmt.Fprintln(os.Stderr, "harness error: runscript:", err)
			os.Exit(2)
		}
		outs, hits := runScript(lines)
		b, _ := json.Marshal(childOut{outs, hits})
		w.Write(b)
		w.WriteByte('\n')
		w.Flush()
	}
}

type childProc struct {
	cmd   *osexec.Cmd
	in    *bufio.Writer
	out   *bufio.Scanner
	errb  *bytes.Buffer
	stdin interface{ Close() error }
}

var child *childProc

const childTimeout = 25 * time.Second

func childFail(msg string) {
	fmt.Fprintln(os.Stderr, "harness error:", msg)
	os.Exit(2)
}

func startChild() *childProc {
	cmd := osexec.Command(os.Args[0], "runscript")
	stdin, err := cmd.StdinPipe()
	if err != nil {
		childFail(err.Error())
	}
	stdout, err := cmd.StdoutPipe()
	if err != nil {
		childFail(err.Error())
	}
	errb := &bytes.Buffer{}
	cmd.Stderr = errb
	if err := cmd.Start(); err != nil {
		childFail(err.Error())
	}
	sc := bufio.NewScanner(stdout)
	sc.Buffer(make([]byte, 1<<20), 1<<26)
	return &childProc{cmd: cmd, in: bufio.NewWriter(stdin), out: sc, errb: errb, stdin: stdin}
}

func (c *childProc) stop() {
	_ = c.stdin.Close()
	_ = c.cmd.Process.Kill()
	_ = c.cmd.Wait()
}

func runInChild(lines []string) ([]string, map[string]string) {
	if child == nil {
		child = startChild()
	}
	c := child
	b, _ := json.Marshal(lines)
	c.in.Write(b)
	c.in.WriteByte('\n')
	c.in.Flush()
	timer := time.AfterFunc(childTimeout, func() { _ = c.cmd.Process.Kill() })
	var res childOut
	ok := c.out.Scan() && json.Unmarshal(c.out.Bytes(), &res) == nil && len(res.Outs) == len(lines)
	killed := !timer.Stop()
	if ok {
		if res.Hits == nil {
			res.Hits = map[string]string{}
		}
		if len(res.Hits) > 0 { // goroutines left behind by a misbehaving run: continue in a fresh process
			c.stop()
			child = nil
		}
		return res.Outs, res.Hits
	}
	_ = c.stdin.Close()
	_ = c.cmd.Wait()
	child = nil
	msg := c.errb.String()
	outs := make([]string, len(lines))
	for i := range outs {
		outs[i] = "crashed"
	}
	switch {
	case killed:
		return outs, map[string]string{"C15:mux:operation-never-completes": fmt.Sprintf("the script did not finish within %v; the process was killed", childTimeout)}
	case strings.Contains(msg, "OBSERVATION never-completes"):
		at := msg[strings.Index(msg, "OBSERVATION never-completes"):]
		if i := strings.Index(at, "\n"); i > 0 {
			at = at[:i]
		}
		return outs, map[string]string{"C15:mux:operation-never-completes": strings.TrimPrefix(at, "OBSERVATION never-completes: ")}
	case strings.Contains(msg, "no quiescent snapshot within"):
		return outs, map[string]string{"C15:mux:goroutines-never-quiesce": "goroutines of the code under test keep running without any stimulus"}
	case strings.Contains(msg, "harness error") || !(strings.Contains(msg, "panic:") || strings.Contains(msg, "fatal error:")):
		fmt.Fprintln(os.Stderr, msg)
		childFail(fmt.Sprint("child failed while running ", lines))
	}
	first := ""
	for _, l := range strings.Split(msg, "\n") {
		if strings.HasPrefix(l, "panic:") || strings.HasPrefix(l, "fatal error:") {
			first = l
			break
		}
	}
	key := "C15:mux:process-died"
	switch {
	case strings.Contains(first, "concurrent map"):
		key = "C15:cache:unsynchronised-access"
	case strings.Contains(first, "unhashable type"):
		// the failing input is the key type of the script, not the text of the panic
		key = "C15:mux:unhashable-key:keytype-" + keyTypeOf(lines)
	}
	return outs, map[string]string{key: "the process died while running the script: " + first}
}

func keyTypeOf(lines []string) string {
	t := "int"
	for _, l := range lines {
		if f := strings.Fields(l); len(f) == 2 && f[0] == "keytype" {
			t = f[1]
		}
	}
	return t
}

func runCase(c corr.Case) corr.Result {
	outs, hits := runInChild(c.Lines)
	res := corr.Result{Outs: outs}
	var keys []string
	for k := range hits {
		keys = append(keys, k)
	}
	sort.Strings(keys)
	for _, k := range keys {
		res.Hits = append(res.Hits, corr.Hit{Key: k, What: hits[k]})
	}
	return res
}

// ---------------------------------------------------------------- generator

var keyPool = []int{0, 1, 2, 3, 4, 5, 6, 7, -1, -2, -3, -4, 127, -127, 254, math.MinInt64, math.MinInt64 + 1, math.MaxInt64, math.MinInt32, 1 << 40, -(1 << 40)}

var valueOps = []string{"add", "upd", "uoa", "utl", "utr"}

func genFaults(r *rng.R) string {
	switch r.Intn(8) {
	case 0, 1, 2, 3:
		return "-"
	case 4:
		return "1"
	case 5:
		return "01"
	case 6:
		return r.Pick("001", "10", "11", "011", "c", "c", "0c", "c1", "1c", "c0c")
	}
	n := r.Range(1, 4)
	b := make([]byte, n)
	for i := range b {
		b[i] = "0011c"[r.Intn(5)]
	}
	return string(b)
}

func genScript(r *rng.R, tier string) []string {
	fac := r.Pick("map", "lru", "lru", "lrus")
	capN := r.PickInt(0, 1, 2, 2, 3, 8)
	workers := r.PickInt(1, 2, 2, 3, 3, 4)
	if r.Chance(1, 40) {
		workers = 127
	}
	lines := []string{fmt.Sprintf("new %s %d %d", fac, capN, workers)}
	nk := r.Range(2, 6)
	var keys []int
	for i := 0; i < nk; i++ {
		if r.Chance(3, 4) {
			keys = append(keys, r.Range(-3, 7))
		} else {
			keys = append(keys, keyPool[r.Intn(len(keyPool))])
		}
	}
	n := r.Range(8, 24)
	if tier != "quick" {
		n = r.Range(8, 40)
	}
	for i := 0; i < n; i++ {
		k := keys[r.Intn(len(keys))]
		switch r.Intn(12) {
		case 0, 1:
			lines = append(lines, fmt.Sprintf("get %d %s", k, genFaults(r)))
		case 2:
			lines = append(lines, fmt.Sprintf("del %d %s", k, genFaults(r)))
		case 3, 4, 5, 6, 7, 8:
			v := r.Range(1, 99)
			if r.Chance(1, 6) {
				v = 0 // the nil value
			}
			lines = append(lines, fmt.Sprintf("%s %d %d %s", valueOps[r.Intn(len(valueOps))], k, v, genFaults(r)))
		case 9:
			if r.Bool() {
				lines = append(lines, fmt.Sprintf("gap %s %d %d", valueOps[r.Intn(len(valueOps))], k, r.Range(0, 9)))
			}
			lines = append(lines, fmt.Sprintf("peek %d", k), fmt.Sprintf("where %d", k))
		case 10:
			lines = append(lines, fmt.Sprintf("store %d", k))
		default:
			lines = append(lines, fmt.Sprintf("peek %d", k), fmt.Sprintf("store %d", k))
		}
	}
	for _, k := range keys {
		lines = append(lines, fmt.Sprintf("peek %d", k), fmt.Sprintf("store %d", k))
	}
	return lines
}

// genKeyType: the seven operations with keys of another key type of hasher.go (map facade, or an LRU with one worker:
// which keys share a cache — hence eviction — depends on routing, which the property does not fix)
func genKeyType(r *rng.R, tier string) []string {
	t := r.Pick("string", "string", "strmix", "strmix", "int64", "uint64", "intcrc", "int64crc", "uint64crc")
	first := fmt.Sprintf("new map 0 %d", r.PickInt(1, 2, 3, 5))
	if r.Chance(1, 3) || (t == "strmix" && r.Bool()) {
		first = fmt.Sprintf("new %s %d 1", r.Pick("lru", "lrus"), r.PickInt(1, 2, 3, 8))
	}
	lines := []string{first, "keytype " + t}
	keys := []int{r.Range(-3, 7), r.Range(-3, 7), r.Range(0, 1000000)}
	if t == "strmix" {
		b := 3 * r.Range(-1, 2) // the three keys of one text
		keys = []int{b, b + 1, b + 2, r.Range(-3, 7)}
	}
	for i, n := 0, r.Range(8, 24); i < n; i++ {
		k := keys[r.Intn(len(keys))]
		switch r.Intn(10) {
		case 0, 1:
			lines = append(lines, fmt.Sprintf("get %d %s", k, genFaults(r)))
		case 2, 3:
			lines = append(lines, fmt.Sprintf("del %d %s", k, genFaults(r)), fmt.Sprintf("get %d -", k))
		case 4, 5, 6, 7:
			lines = append(lines, fmt.Sprintf("%s %d %d %s", valueOps[r.Intn(len(valueOps))], k, r.Range(0, 99), genFaults(r)))
		default:
			lines = append(lines, fmt.Sprintf("peek %d", k), fmt.Sprintf("store %d", k))
		}
	}
	for _, k := range keys {
		lines = append(lines, fmt.Sprintf("peek %d", k), fmt.Sprintf("store %d", k))
	}
	return lines
}

func genGarbage(r *rng.R) []string {
	toks := []string{"backlog", "queued", "gap", "lrus", "strmix", "start", "where", "probe", "bytes", "new", "get", "add", "upd", "del", "uoa", "utl", "utr", "peek", "store", "stress", "pile", "c", "0c", "cx", "map", "lru", "0", "1", "-1", "-", "01", "2", "x",
		"99999999999999999999", "1000", "+1", "", "012", "-9223372036854775809"}
	lines := []string{r.Pick("new map 0 1", "new lru 2 2", "new lrus 2 1", "new bogus 1 1", "new lru 65 1", "new map 0 0", "new lru 1 129")}
	for i := 0; i < 8; i++ {
		n := r.Range(0, 5)
		var w []string
		for j := 0; j < n; j++ {
			w = append(w, toks[r.Intn(len(toks))])
		}
		lines = append(lines, strings.Join(w, " "))
	}
	return lines
}

// every handler branch (cache hit / miss × store present / absent) under every fault pattern of length ≤ 3
func enumCases() []corr.Case {
	var cs []corr.Case
	faults := []string{"-", "1", "01", "11", "001", "011", "101", "111", "c", "0c", "c1"}
	setups := map[string][]string{
		"absent":        nil,
		"stored":        {"utr 1 5 -"},              // in the store, not cached
		"nil+cached":    {"add 1 0 -"},              // in the store and cached with the nil value
		"stored+cached": {"add 1 5 -"},              // in the store and cached
		"cached-other":  {"add 2 7 -", "add 3 8 -"}, // other keys cached (LRU pressure), key 1 absent
	}
	var names []string
	for n := range setups {
		names = append(names, n)
	}
	sort.Strings(names)
	for _, fac := range []string{"map 0 1", "lru 2 2", "lru 1 1", "lru 0 3"} {
		for _, sn := range names {
			for _, op := range []string{"get", "add", "upd", "del", "uoa", "utl", "utr"} {
				for _, f := range faults {
					lines := append([]string{"new " + fac}, setups[sn]...)
					if op == "get" || op == "del" {
						lines = append(lines, fmt.Sprintf("%s 1 %s", op, f))
					} else {
						lines = append(lines, fmt.Sprintf("%s 1 3 %s", op, f))
					}
					lines = append(lines, "peek 1", "store 1", "peek 2", "peek 3", "get 1 -", "peek 1")
					cs = append(cs, corr.Case{Tag: "enum-" + sn, Lines: lines})
				}
			}
		}
	}
	return cs
}

func fixedCases() []corr.Case {
	var cs []corr.Case
	add := func(tag string, lines ...string) { cs = append(cs, corr.Case{Tag: tag, Lines: lines}) }
	min := strconv.Itoa(math.MinInt64)
	// F15: the minimum integer as hashed key
	add("witness-F15", "new map 0 3", "get "+min+" -", "add "+min+" 4 -", "peek "+min)
	add("witness-F15", "new lru 8 127", "get "+min+" -", "get -127 -", "get 127 -", "add 254 1 -", "peek 254")
	add("boundary", "new lru 1 1", "add 1 5 -", "add 2 6 -", "peek 1", "peek 2", "add 1 9 -", "upd 1 2 -", "peek 1", "peek 2", "del 1 1", "del 1 -", "peek 1", "store 1")
	add("boundary", "new map 0 2", "uoa 1 5 1", "uoa 1 5 01", "uoa 1 5 -", "uoa 1 2 1", "uoa 1 2 -", "peek 1", "store 1", "utl -1 3 01", "peek -1", "store -1", "utl -1 3 -", "peek -1")
	add("boundary", "new lru 4 1", "add 1 0 -", "peek 1", "add 1 7 -", "upd 1 0 -", "get 1 -", "add 1 3 -", "utl 2 0 -", "add 2 1 -", "uoa 3 0 -", "add 3 2 -", "peek 3", "store 3")
	add("boundary", "new map 0 1", "add 1 5 -", "del 1 c", "peek 1", "store 1", "add 2 5 -", "upd 2 1 c", "peek 2", "utl 3 1 cc", "peek 3", "utl 4 1 c1", "peek 4", "store 4")
	add("witness-start", "new map 0 1", "start", "pile 1 3 -")
	add("witness-start", "new lru 2 2", "add 1 5 -", "start", "upd 1 1 -", "peek 1", "store 1", "stress 3 6 -")
	for _, t := range []string{"int", "int64", "uint64", "intcrc", "string", "bytes"} {
		add("probe", "new map 0 1", "probe "+t)
		add("probe", "new lru 4 1", "probe "+t)
	}
	// values with their own Size() on a small LRU: a row that grows past the capacity must not keep its old copy
	add("boundary-sized", "new lrus 2 1", "add 1 4 -", "peek 1", "upd 1 1 -", "peek 1", "store 1", "add 2 3 -", "upd 2 2 -", "peek 2", "store 2", "utl 2 2 -", "peek 2")
	add("boundary-sized", "new lrus 3 2", "add 1 1 -", "add 2 3 -", "add 3 2 -", "upd 1 1 -", "peek 1", "peek 2", "peek 3", "uoa 3 3 -", "peek 3", "store 3")
	// the cache write is held open: the caller must not have its result before the cache agrees with the store
	for _, f := range []string{"map 0 1", "lru 4 2"} {
		add("boundary-gap", "new "+f, "add 1 5 -", "gap upd 1 2", "peek 1", "store 1", "gap uoa 1 1", "gap utl 1 1", "gap utr 1 1", "gap add 2 3", "gap utl 3 4", "gap uoa 4 1", "peek 1", "store 1")
	}
	// a merging upsert on a cache miss hands back the partial row: it must not end up in the cache
	// a cached non-nil row updated to the nil row through every hit path (data 0 resets the row), then read back; nil row ≠ absent
	for _, f := range []string{"map 0 1", "lru 4 2", "lrus 6 1"} {
		for _, op := range []string{"upd", "uoa", "utl", "utr"} {
			add("boundary-to-nil", "new "+f, "add 1 5 -", op+" 1 0 -", "peek 1", "store 1", "get 1 -", op+" 1 3 -", "peek 1", "store 1", "add 1 2 -", "del 1 -", "peek 1", "store 1")
		}
		add("boundary-to-nil", "new "+f, "add 2 0 -", "peek 2", "store 2", "get 2 -", "upd 2 4 -", "utr 2 0 -", "get 2 -", "peek 2", "store 2", "gap upd 2 0", "gap utl 2 0")
	}
	add("boundary-partial", "new map 0 1", "utr 1 5 -", "utl 1 2 -", "peek 1", "store 1", "del 1 -", "utl 1 3 -", "peek 1", "store 1", "utr 2 4 -", "utr 2 1 -", "peek 2", "store 2", "utl 2 0 -", "peek 2")
	// the same key through all seven operations, negative and extreme keys, several worker counts
	for _, k := range []string{"-1", "-2", "-7", strconv.Itoa(math.MinInt64 + 1), "-9223372036854775807", strconv.Itoa(math.MaxInt64)} {
		for _, w := range []string{"2", "3", "4", "7"} {
			add("boundary-routing", "new map 0 "+w, "add "+k+" 5 -", "where "+k, "get "+k+" -", "upd "+k+" 1 -", "uoa "+k+" 1 -", "utl "+k+" 1 -", "utr "+k+" 1 -", "peek "+k, "store "+k,
				"del "+k+" -", "peek "+k, "store "+k, "add "+k+" 2 -", "utr "+k+" 1 -", "peek "+k, "store "+k, "del "+k+" -", "utl "+k+" 3 -", "get "+k+" -", "peek "+k)
		}
	}
	for _, t := range []string{"string", "int64", "uint64", "intcrc", "int64crc", "uint64crc"} {
		// every operation with a non-Int key type; a get after a successful delete must consult the store
		add("boundary-keytype", "new map 0 3", "keytype "+t, "add 1 5 -", "get 1 -", "upd 1 1 -", "del 1 -", "get 1 -", "peek 1", "add 1 2 -", "uoa 1 1 -", "utl 1 1 -", "utr 1 1 -", "peek 1", "store 1",
			"del 1 -", "peek 1", "utl 2 3 -", "get 2 -", "del 2 1", "get 2 -", "del 2 -", "get 2 -", "add 2 0 -", "del 2 -", "add 2 1 -", "peek 2")
		add("boundary-keytype", "new lru 2 1", "keytype "+t, "utr -1 5 -", "utl -1 1 -", "get -1 -", "gap upd -1 1", "del -1 -", "get -1 -", "uoa -1 4 -", "peek -1", "store -1")
	}
	// three keys with the same text and different string-kind Go types in one worker's cache
	for _, f := range []string{"map 0 1", "lru 4 1", "lrus 6 1"} {
		add("boundary-keytype", "new "+f, "keytype strmix", "add 3 5 -", "add 4 6 -", "add 5 7 -", "get 3 -", "get 4 -", "get 5 -", "peek 3", "peek 4", "peek 5", "upd 4 1 -", "del 5 -",
			"get 3 -", "get 4 -", "get 5 -", "peek 3", "peek 4", "utl 5 2 -", "uoa 3 1 -", "store 3", "store 4", "store 5", "peek 5", "del 3 -", "get 4 -", "add 3 9 -")
	}
	// zero-sized rows (value % 3 = 0) alone in an LRU, deleted and re-added
	add("boundary-sized", "new lrus 2 1", "add 1 3 -", "peek 1", "del 1 -", "peek 1", "get 1 -", "add 1 6 -", "utr 2 9 -", "del 2 -", "del 1 -", "peek 1", "peek 2", "add 2 3 -", "add 1 4 -", "del 2 -", "peek 2")
	add("boundary-sized", "new lrus 0 2", "add 1 3 -", "peek 1", "add 2 6 -", "peek 2", "upd 1 3 -", "peek 1", "del 1 -", "peek 1", "get 1 -", "add 1 1 -", "peek 1", "peek 2")
	add("backlog", "new map 0 1", "backlog 1 70 -", "backlog 1 300 -")
	add("backlog", "new lru 4 2", "keytype string", "backlog 5 130 -")
	add("queued", "new map 0 1", "queued 1 3 -", "queued -2 40 -")
	add("queued", "new lru 3 2", "keytype string", "queued 5 25 -")
	add("pile", "new map 0 1", "pile 1 5 -", "add 1 1 -")
	add("pile", "new lru 2 3", "pile -2 4 -")
	add("stress", "new map 0 2", "stress 1 8 -", "add 1 1 -", "peek 1")
	add("stress", "new lru 2 3", "stress 2 8 -", "get 1 -")
	return append(cs, enumCases()...)
}

func spec() corr.Spec {
	return corr.Spec{
		Property: "C15",
		Fixed:    fixedCases,
		Count: func(tier string) int {
			switch tier {
			case "quick":
				return 3000
			case "thorough":
				return 40000
			}
			return 6000 // search (S7): the fixed enumeration comes first; keep a run through S7 short
		},
		Shards: func(tier string) int {
			if tier == "quick" {
				return 4
			}
			return 10
		},
		Gen: func(r *rng.R, tier string, i int) corr.Case {
			switch {
			case i%40 == 11:
				return corr.Case{Tag: "malformed", Lines: genGarbage(r)}
			case i%10 == 4:
				return corr.Case{Tag: "keytype", Lines: genKeyType(r, tier)}
			case i%307 == 131 || (tier != "quick" && i%101 == 31):
				return corr.Case{Tag: "backlog", Lines: []string{fmt.Sprintf("new %s %d 2", r.Pick("map", "lru"), r.PickInt(2, 8)), fmt.Sprintf("backlog %d %d -", r.Range(-3, 7), r.PickInt(70, 130, 300, 1000, 3000))}}
			case i%211 == 97 || (tier != "quick" && i%103 == 29):
				return corr.Case{Tag: "queued", Lines: []string{fmt.Sprintf("new %s %d %d", r.Pick("map", "lru", "lrus"), r.PickInt(0, 2, 8), r.Range(1, 3)), fmt.Sprintf("queued %d %d -", r.Range(-3, 7), r.PickInt(1, 2, 5, 12, 40, 150))}}
			case i%151 == 71:
				ls := genScript(r, tier)
				at := r.Range(1, len(ls)-1)
				ls = append(ls[:at:at], append([]string{"start"}, ls[at:]...)...)
				ls = append(ls, fmt.Sprintf("pile %d %d -", keyPool[r.Intn(8)], r.Range(2, 6)))
				return corr.Case{Tag: "script+start", Lines: ls}
			case i%101 == 33:
				ls := genScript(r, tier)
				ls = append(ls, fmt.Sprintf("pile %d %d -", keyPool[r.Intn(8)], r.Range(2, 8)))
				return corr.Case{Tag: "script+pile", Lines: ls}
			case i%199 == 57 || (tier != "quick" && i%53 == 7):
				ls := genScript(r, tier)
				ls = append(ls, fmt.Sprintf("stress %d %d -", r.Range(0, 1<<20), r.Range(4, 16)))
				return corr.Case{Tag: "script+stress", Lines: ls}
			}
			ls := genScript(r, tier)
			return corr.Case{Tag: "script-" + strings.Fields(ls[0])[1], Lines: ls}
		},
		Run:   runCase,
		TOnly: func(line string) bool { return strings.HasPrefix(line, "where ") },
		NonTrivial: func(c corr.Case, r corr.Result) bool {
			n := 0
			for _, o := range r.Outs {
				if strings.Contains(o, " cb=") && !strings.HasSuffix(o, " cb=") {
					n++
				}
			}
			return n >= 1 && len(c.Lines) >= 4
		},
		Rule: "sequential mixes of get/add/update/delete/update-or-add/upsert-then-load/upsert-then-renew over 2..6 keys (incl. negatives, MinInt, MaxInt) with a fault bit per callback invocation, map and LRU facades (capacity 0..8), 1..4 or 127 workers, interleaved peek/store observations; plus the exhaustive enumeration of every handler x {absent, stored, stored+cached, other keys cached} x every fault pattern of length <= 3 on four facade shapes; plus concurrent stress lines judged by monitors; a case is non-trivial when at least one store callback ran; distinct = distinct script text",
		Assumptions: []string{
			"store callbacks are the harness's in-memory store: a failing callback leaves the store unchanged (the model's fault oracle)",
			"cache.Map / cache.LRUCache behave as modelled (recency list, eviction from the back, size 1 per entry); validated by the correspondence, proved separately under C04",
			"sequential scripts: each operation is applied atomically (one worker goroutine per key); concurrent mixes are checked by monitors only, their serial order is the subject of the queue theorems and the shape facts",
		},
		Trusted: []string{"go/lib/go2lean (kernel translator)"},
	}
}
