// Command c15: extractor and correspondence runner for property C15 (mux worker group:
// write-through cache coherent with the store).
package main

import (
	"context"
	"errors"
	"fmt"
	"math"
	"os"
	"path/filepath"
	"reflect"
	"sort"
	"strconv"
	"strings"
	"sync"
	"time"

	"github.com/pinealctx/neptune/syncx/pipe/mux"

	"nvharness/lib/c14q"
	"nvharness/lib/corr"
	"nvharness/lib/go2lean"
	"nvharness/lib/gofacts"
	_ "nvharness/lib/quiet"
	"nvharness/lib/rng"
)

func main() {
	if len(os.Args) < 2 {
		fmt.Fprintln(os.Stderr, "usage: c15 extract|corr …")
		os.Exit(2)
	}
	switch os.Args[1] {
	case "extract":
		extract(os.Args[2], os.Args[3])
	case "corr":
		corr.Main(spec(), os.Args[2:])
	default:
		os.Exit(2)
	}
}

// ---------------------------------------------------------------- extract

func all(bs ...bool) bool {
	for _, b := range bs {
		if !b {
			return false
		}
	}
	return true
}

func extract(repo, leanDir string) {
	p, err := go2lean.LoadPkg(repo, "syncx/pipe/mux")
	if err != nil {
		fmt.Fprintln(os.Stderr, "extract:", err)
		os.Exit(2)
	}
	kernel, kmsg := "", "translated"
	if errs := p.TranslateAll("WorkerGrp.locHash"); len(errs) > 0 {
		kmsg = "UNTRANSLATABLE " + strings.Join(go2lean.SortedErrs(errs), "; ")
		kernel = "-- WorkerGrp.locHash left the translatable subset: " + strings.ReplaceAll(kmsg, "\n", " ") + "\n"
	} else {
		ks := p.Kernels()
		k := ks[len(ks)-1]
		if len(ks) == 1 && k.Lean == "workerGrp_locHash" && len(k.Params) == 0 && len(k.Globals) == 0 && len(k.Fields) == 1 && k.Fields[0].Go == "w.muxSize" &&
			len(k.Exts) == 1 && k.Exts[0].Go == "k.HashedInt()" && len(k.WFields) == 0 {
			kernel = p.Emit() + "/-- (muxSize, k.HashedInt()) ↦ worker index -/\ndef loc : Nv.C15.Loc := fun n h => workerGrp_locHash n h\n"
		} else {
			kmsg = "UNEXPECTED-SIGNATURE"
			kernel = "-- WorkerGrp.locHash: unexpected inputs after translation (expected w.muxSize and k.HashedInt() only)\n"
		}
	}

	wk := gofacts.MustLoad(repo, "syncx/pipe/mux/worker.go")
	wg := gofacts.MustLoad(repo, "syncx/pipe/mux/wgroup.go")
	mq := gofacts.MustLoad(repo, "syncx/pipe/mux/q.go")
	gas := gofacts.MustLoad(repo, "syncx/pipe/mux/gas.go")
	sets := func(body string) int { return strings.Count(body, "w.ca.Set(") }
	chk := " if err != nil { c.SetR(nil, err) return } "
	setv := "w.ca.Set(op.k, v) c.SetR(v, nil)"

	bl := wk.Body("Worker", "handleLoad")
	loadOK := sets(bl) == 1 && gofacts.Has(bl, "{ var v, ok = w.ca.Get(op.k) if ok { c.SetR(v, nil) return } var err error v, err = op.loadFn(c.ctx, op.k)"+chk+setv+" }")
	ba := wk.Body("Worker", "handleAdd")
	addPeek := gofacts.Has(ba, "{ var _, exist = w.ca.Peek(op.k) if exist { c.SetR(nil, ErrDupKey) return }") &&
		gofacts.Before(ba, "if exist { c.SetR(nil, ErrDupKey) return }", "op.addFn(")
	addOK := sets(ba) == 1 && gofacts.Has(ba, "var v, err = op.addFn(c.ctx, op.data)"+chk+setv+" }")
	preUpd := "var pre, ok = w.ca.Peek(op.k) if ok { var v, err = op.updFn(c.ctx, op.data, pre)" + chk + setv + " return }"
	bu := wk.Body("Worker", "handleUpdate")
	updOK := sets(bu) == 2 && gofacts.Has(bu, "{ "+preUpd+" var v, err = op.loadFn(c.ctx, op.k)"+chk+"v, err = op.updFn(c.ctx, op.data, v)"+chk+setv+" }")
	bo := wk.Body("Worker", "handleMixUpdOrAddIfNull")
	uoaOK := sets(bo) == 3 && gofacts.Has(bo, "{ "+preUpd+" var v, err = op.loadFn(c.ctx, op.k) if err != nil { if !op.isNotFoundFn(err) { c.SetR(nil, err) return } v, err = op.addFn(c.ctx, op.data)"+chk+setv+" return } v, err = op.updFn(c.ctx, op.data, v)"+chk+setv+" }")
	preUps := "var pre, ok = w.ca.Peek(op.k) if ok { var v, err = op.upsertFn(c.ctx, op.data, pre)" + chk + setv + " return }"
	bt := wk.Body("Worker", "handleMixUpsertThenLoad")
	utlOK := sets(bt) == 2 && gofacts.Has(bt, "{ "+preUps+" var _, err = op.upsertFn(c.ctx, op.data, nil)"+chk+"var v interface{} v, err = op.loadFn(c.ctx, op.k)"+chk+setv+" }")
	br := wk.Body("Worker", "handleMixUpsertThenRenewInCache")
	utrOK := sets(br) == 1 && gofacts.Has(br, "{ "+preUps+" var v, err = op.upsertFn(c.ctx, op.data, nil)"+chk+"c.SetR(v, nil) }")
	fast := gofacts.Has(wk.Body("Worker", "DoGet"), "{ var v, ok = w.ca.Get(k) if ok { return v, nil } return w.asyncCall(ctx, NewLoad(loadFn, k)) }")
	ha := wk.Body("Worker", "handleAsync")
	consumer := all(gofacts.Has(wk.Body("Worker", "Start"), "{ go w.runLoop() }"),
		gofacts.Has(wk.Body("Worker", "runLoop"), "for { e, err = w.workQ.PopAnyway() if err != nil {"),
		gofacts.Has(wk.Body("Worker", "runLoop"), "c = e.(*AsyncC) w.handleAsync(c) }"),
		gofacts.Has(wk.Body("Worker", "asyncCall"), "{ var c = NewAsync(ctx, op) var err = w.workQ.AddReq(c) if err != nil { return nil, err } return c.R() }"),
		gofacts.Has(wg.Body("WorkerGrp", "Start"), "{ for i := 0; i < w.muxSize; i++ { w.ws[i].Start() } }"),
		gofacts.Has(ha, "case *OpLoad: w.handleLoad(c, op) case *OpAdd: w.handleAdd(c, op) case *OpUpdate: w.handleUpdate(c, op) case *OpDelete: w.handleDelete(c, op) case *OpMixUpdOrAddIfNull: w.handleMixUpdOrAddIfNull(c, op) case *OpMixUpsertThenLoad: w.handleMixUpsertThenLoad(c, op) case *OpMixUpsertThenRenewInCache: w.handleMixUpsertThenRenewInCache(c, op)"),
		gofacts.Has(gas.Body("", "NewAsync"), "rChan: make(chan R, 1)"),
		gofacts.Has(gas.Body("AsyncC", "R"), "{ select { case <-a.ctx.Done(): return nil, a.ctx.Err() case re := <-a.rChan: return re.r, re.err } }"))
	route := true
	for _, m := range []string{"DoGet", "DoAdd", "DoUpdate", "DoDelete", "DoUpdOrAddIfNull", "DoUpsertThenLoad", "DoUpsertThenRenewInCache"} {
		b := wg.Body("WorkerGrp", m)
		route = route && strings.HasPrefix(b, "{ return w.ws[w.locHash(k)]."+m+"(ctx, ") && strings.Count(b, "locHash") == 1
	}
	fifo := all(gofacts.Has(mq.Body("Q", "AddReq"), "{ a.lock.Lock() defer a.lock.Unlock() if a.closed { return ErrClosed } if a.reqMaxNum > 0 { if a.reqList.Len() >= a.reqMaxNum { return ErrQFull } } a.reqList.PushBack(req) a.cond.Broadcast() return nil }"),
		gofacts.Has(mq.Body("Q", "PopAnyway"), "{ a.lock.Lock() defer a.lock.Unlock() for a.reqList.Len() == 0 { if a.closed { return nil, ErrClosed } a.cond.Wait() } var front = a.reqList.Front() if front != nil { a.reqList.Remove(front) return front.Value, nil } return nil, ErrSync }"))

	cx := gofacts.MustLoad(repo, "syncx/pipe/mux/cacheex.go")
	eq := func(recv, fn, want string) bool { return gofacts.Norm(cx.Body(recv, fn)) == gofacts.Norm(want) }
	facade := all(eq("", "NewFacadeMap", "{ var m = &FacadeMap{} m.Init() return m }"),
		eq("FacadeMap", "Peek", "{ return m.Get(key) }"),
		cx.Func("FacadeMap", "Get") == nil && cx.Func("FacadeMap", "Set") == nil && cx.Func("FacadeMap", "Delete") == nil,
		eq("_wrapper", "Size", "{ var sizeV, ok = w.v.(cache.Value) if ok { return sizeV.Size() } return 1 }"),
		eq("", "NewFacadeLRU", "{ var m = &FacadeLRU{} m.Init(capacity) return m }"),
		eq("FacadeLRU", "Peek", "{ var w, ok = m.LRUCache.Peek(key) if !ok { return nil, false } return w.(_wrapper).v, true }"),
		eq("FacadeLRU", "Get", "{ var w, ok = m.LRUCache.Get(key) if !ok { return nil, false } return w.(_wrapper).v, true }"),
		eq("FacadeLRU", "Set", "{ m.LRUCache.Set(key, _wrapper{v: value}) }"),
		eq("FacadeLRU", "Delete", "{ m.LRUCache.Delete(key) }"))

	del := "unknown"
	bd := wk.Body("Worker", "handleDelete")
	switch {
	case gofacts.Has(bd, "{ var err = op.deleteFn(c.ctx, op.k)"+chk+"w.ca.Delete(op.k) c.SetR(nil, nil) }"):
		del = "storeFirst"
	case gofacts.Has(bd, "{ w.ca.Delete(op.k) var err = op.deleteFn(c.ctx, op.k)"+chk+"c.SetR(nil, nil) }"):
		del = "cacheFirst"
	}

	facts := []bool{loadOK, addPeek, addOK, updOK, uoaOK, utlOK, utrOK, fast, consumer, route, fifo, facade}
	var fs []string
	for _, b := range facts {
		fs = append(fs, gofacts.LeanBool(b))
	}
	out := "import Nv.Model.C15\nset_option linter.unusedVariables false\n" +
		"/-! GENERATED by `c15 extract` from syncx/pipe/mux/{wgroup,worker,gas,q,cacheex}.go — do not edit. -/\n" +
		"namespace Nv.Gen.C15\n" + kernel +
		"def cfg : Nv.C15.Cfg := ⟨." + del + "⟩\n" +
		"def facts : Nv.C15.Facts := ⟨" + strings.Join(fs, ", ") + "⟩\n" +
		"end Nv.Gen.C15\n"
	if err := gofacts.WriteIfChanged(filepath.Join(leanDir, "Nv/Gen/C15.lean"), out); err != nil {
		fmt.Fprintln(os.Stderr, err)
		os.Exit(2)
	}
	fmt.Printf("extract C15: kernel locHash %s; delOrder=%s facts=%s\n", kmsg, del, strings.Join(fs, ","))
}

// ---------------------------------------------------------------- instrumented store

var (
	errInj      = errors.New("injected")
	errNotFound = errors.New("not-found")
	errExists   = errors.New("exists")
)

type pair struct{ k, v int }

type store struct {
	mu      sync.Mutex
	m       map[int]int
	faults  []byte        // one token per callback invocation: '0' ok, '1' fail, 'c' ok but the caller's context is cancelled meanwhile
	cancel  func()        // cancels the context of the operation in flight
	block   chan struct{} // when set, the next callback parks on it once (pile)
	applied map[int][]int // key -> data values applied by upsert callbacks, in order (pile)
	trace   []string
	busy    map[int]bool // key -> a callback for it is executing (serialisation monitor)
	bad     map[int]bool // keys already reported incoherent in this group (later sightings are consequences)
	hits    map[string]string
	slow    bool // stress: widen the window inside callbacks
}

// model value 0 is the Go value nil: a callback may legitimately hand back (nil, nil) for an existing row
func iface(v int) interface{} {
	if v == 0 {
		return nil
	}
	return v
}

func newStore() *store {
	return &store{applied: map[int][]int{}, m: map[int]int{}, busy: map[int]bool{}, bad: map[int]bool{}, hits: map[string]string{}}
}

func (s *store) hit(key, what string) {
	if _, ok := s.hits[key]; !ok {
		s.hits[key] = what
	}
}

// enter: log the callback, consume one fault bit, check that no other callback for the key is in flight
func (s *store) enter(cb string, k int) (fault bool, leave func()) {
	s.mu.Lock()
	s.trace = append(s.trace, cb)
	var tok byte = '0'
	if len(s.faults) > 0 {
		tok = s.faults[0]
		s.faults = s.faults[1:]
	}
	fault = tok == '1'
	cancel := s.cancel
	block := s.block
	s.block = nil
	if s.busy[k] {
		s.hit("C15:mux:same-key-callbacks-overlap", fmt.Sprintf("callback %s for key %d entered while another callback for that key was executing", cb, k))
	}
	s.busy[k] = true
	s.mu.Unlock()
	if tok == 'c' && cancel != nil {
		cancel()
	}
	if block != nil {
		<-block
	}
	if s.slow {
		time.Sleep(20 * time.Microsecond)
	}
	return fault, func() { s.mu.Lock(); delete(s.busy, k); s.mu.Unlock() }
}

func (s *store) load(ctx context.Context, d interface{}) (interface{}, error) {
	k := int(d.(mux.Int))
	f, leave := s.enter("load", k)
	defer leave()
	if f {
		return nil, errInj
	}
	s.mu.Lock()
	defer s.mu.Unlock()
	if v, ok := s.m[k]; ok {
		return iface(v), nil
	}
	return nil, errNotFound
}

func (s *store) add(ctx context.Context, d interface{}) (interface{}, error) {
	p := d.(pair)
	f, leave := s.enter("add", p.k)
	defer leave()
	if f {
		return nil, errInj
	}
	s.mu.Lock()
	defer s.mu.Unlock()
	if _, ok := s.m[p.k]; ok {
		return nil, errExists
	}
	s.m[p.k] = p.v
	return iface(p.v), nil
}

// staleCheck: an existing item handed to a callback must be what the store holds (coherence at the moment of use)
func (s *store) staleCheck(cb string, k int, e interface{}, nilIsZero bool) {
	if e == nil && !nilIsZero {
		return
	}
	cur, ok := s.m[k]
	ev, isInt := e.(int)
	if e == nil {
		ev, isInt = 0, true
	}
	if (!isInt || !ok || ev != cur) && !s.bad[k] {
		s.bad[k] = true
		s.hit("C15:"+cb+":stale-item-handed-to-callback", fmt.Sprintf("%s for key %d received existing item %v, the store holds %v (present=%v)", cb, k, e, cur, ok))
	}
}

func (s *store) upd(ctx context.Context, d interface{}, e interface{}) (interface{}, error) {
	p := d.(pair)
	f, leave := s.enter("upd", p.k)
	defer leave()
	if f {
		return nil, errInj
	}
	s.mu.Lock()
	defer s.mu.Unlock()
	s.staleCheck("updFn", p.k, e, true)
	if _, ok := s.m[p.k]; !ok {
		return nil, errNotFound
	}
	ev, _ := e.(int)
	s.m[p.k] = ev + p.v
	return iface(ev + p.v), nil
}

func (s *store) upsert(ctx context.Context, d interface{}, e interface{}) (interface{}, error) {
	p := d.(pair)
	f, leave := s.enter("upsert", p.k)
	defer leave()
	if f {
		return nil, errInj
	}
	s.mu.Lock()
	defer s.mu.Unlock()
	s.staleCheck("upsertFn", p.k, e, false)
	s.applied[p.k] = append(s.applied[p.k], p.v)
	base := s.m[p.k]
	if ev, ok := e.(int); ok {
		base = ev
	}
	s.m[p.k] = base + p.v
	return iface(base + p.v), nil
}

func (s *store) del(ctx context.Context, d interface{}) error {
	k := int(d.(mux.Int))
	f, leave := s.enter("del", k)
	defer leave()
	if f {
		return errInj
	}
	s.mu.Lock()
	defer s.mu.Unlock()
	delete(s.m, k)
	return nil
}

func isNotFound(err error) bool { return err == errNotFound }

// ---------------------------------------------------------------- the group under test

type group struct {
	g       *mux.WorkerGrp
	st      *store
	facades []mux.CacheFacade
	keys    map[int]bool
	home    map[int]int // key -> worker whose cache was seen holding it
}

func newGroup(lru bool, capN, workers int) *group { return newGroupDeep(lru, capN, workers, 256) }

func newGroupDeep(lru bool, capN, workers, deep int) *group {
	gr := &group{st: newStore(), keys: map[int]bool{}, home: map[int]int{}}
	gr.g = mux.NewWorkGrp(func() mux.CacheFacade {
		var f mux.CacheFacade
		if lru {
			f = mux.NewFacadeLRU(int64(capN))
		} else {
			f = mux.NewFacadeMap()
		}
		gr.facades = append(gr.facades, f)
		return f
	}, mux.WithSize(workers), mux.WithDeep(deep))
	gr.g.Start()
	return gr
}

func (gr *group) close() {
	gr.g.Stop()
	ctx, cancel := context.WithTimeout(context.Background(), 5*time.Second)
	_ = gr.g.WaitStop(ctx)
	cancel()
}

func canonRes(op string, r interface{}, err error) string {
	switch {
	case err == nil && r == nil && op == "del":
		return "nil"
	case err == nil && r == nil:
		return "ok:0"
	case err == context.Canceled:
		return "err:ctx"
	case err == mux.ErrQFull:
		return "err:full"
	case err == nil:
		if v, ok := r.(int); ok {
			return "ok:" + strconv.Itoa(v)
		}
		return fmt.Sprintf("ok?%v", r)
	case err == mux.ErrDupKey:
		return "err:dup"
	case err == errInj:
		return "err:inj"
	case err == errNotFound:
		return "err:nf"
	case err == errExists:
		return "err:exists"
	}
	return "err?" + err.Error()
}

// barrierKey hashes like key h but is never a cache key of the scripts: an operation on it goes through the same worker
type barrierKey struct{ h int }

func (b barrierKey) HashedInt() int { return b.h }

// barrier returns when the worker of key k has finished everything queued before (FIFO, one consumer)
func (gr *group) barrier(k int) {
	defer func() { _ = recover() }()
	_, _ = gr.g.DoGet(context.Background(), func(context.Context, interface{}) (interface{}, error) { return nil, errInj }, barrierKey{k})
}

func (gr *group) do(op string, k, v int) (res string) {
	ctx, cancel := context.WithCancel(context.Background())
	defer cancel()
	key := mux.Int(k)
	st := gr.st
	st.mu.Lock()
	st.cancel = cancel
	st.mu.Unlock()
	done := make(chan string, 1)
	go func() {
		defer func() {
			if p := recover(); p != nil {
				msg := fmt.Sprint(p)
				if strings.Contains(msg, "index out of range") {
					st.mu.Lock()
					st.hit("C15:WorkerGrp.locHash:out-of-range", fmt.Sprintf("%s on key %d with %d workers: panic: %s", op, k, len(gr.facades), msg))
					st.mu.Unlock()
				} else {
					st.mu.Lock()
					st.hit("C15:mux:caller-panic", msg)
					st.mu.Unlock()
				}
				done <- "panic"
			}
		}()
		var r interface{}
		var err error
		switch op {
		case "get":
			r, err = gr.g.DoGet(ctx, st.load, key)
		case "add":
			r, err = gr.g.DoAdd(ctx, st.add, key, pair{k, v})
		case "upd":
			r, err = gr.g.DoUpdate(ctx, st.load, st.upd, key, pair{k, v})
		case "del":
			r, err = gr.g.DoDelete(ctx, st.del, key)
		case "uoa":
			r, err = gr.g.DoUpdOrAddIfNull(ctx, st.load, st.upd, st.add, isNotFound, key, pair{k, v})
		case "utl":
			r, err = gr.g.DoUpsertThenLoad(ctx, st.upsert, st.load, key, pair{k, v})
		case "utr":
			r, err = gr.g.DoUpsertThenRenewInCache(ctx, st.upsert, key, pair{k, v})
		}
		done <- canonRes(op, r, err)
	}()
	select {
	case res = <-done:
	case <-time.After(20 * time.Second):
		fmt.Fprintln(os.Stderr, "harness error: operation did not return within 20 s:", op, k, v)
		os.Exit(2)
	}
	return res
}

// peek reads every worker's cache without touching recency
// rawPeek reads a facade's underlying cache directly (not through the facade methods under test); nil reads as 0
func rawPeek(f mux.CacheFacade, key interface{}) (interface{}, bool) {
	norm := func(v interface{}) interface{} {
		if v == nil {
			return 0
		}
		return v
	}
	switch x := f.(type) {
	case *mux.FacadeMap:
		v, ok := x.Map.Get(key)
		return norm(v), ok
	case *mux.FacadeLRU:
		w, ok := x.LRUCache.Peek(key)
		if !ok {
			return nil, false
		}
		rv := reflect.ValueOf(w)
		if rv.Kind() == reflect.Struct && rv.NumField() == 1 && rv.Field(0).Kind() == reflect.Interface {
			fv := rv.Field(0)
			if fv.IsNil() {
				return 0, true
			}
			if e := fv.Elem(); e.CanInt() {
				return int(e.Int()), true
			}
			return "?" + fv.Elem().Kind().String(), true
		}
		return "?" + rv.Kind().String(), true
	}
	v, ok := f.Peek(key)
	return norm(v), ok
}

func (gr *group) peek(k int) (where []int, vals []interface{}) {
	for i, f := range gr.facades {
		if v, ok := rawPeek(f, mux.Int(k)); ok {
			where = append(where, i)
			vals = append(vals, v)
		}
	}
	return
}

// coherence monitor: the property restated on the real objects
func (gr *group) checkCoherent(site string) {
	st := gr.st
	var ks []int
	for k := range gr.keys {
		ks = append(ks, k)
	}
	sort.Ints(ks)
	for _, k := range ks {
		where, vals := gr.peek(k)
		st.mu.Lock()
		cur, present := st.m[k]
		for j, w := range where {
			if v, ok := vals[j].(int); (!ok || !present || v != cur) && !st.bad[k] {
				st.bad[k] = true
				st.hit("C15:"+site+":cache-differs-from-store", fmt.Sprintf("after %s: worker %d caches key %d = %v, the store holds %v (present=%v)", site, w, k, vals[j], cur, present))
			}
			if h, seen := gr.home[k]; seen && h != w {
				st.hit("C15:locHash:key-cached-by-two-workers", fmt.Sprintf("key %d cached by worker %d and by worker %d", k, h, w))
			}
			gr.home[k] = w
		}
		st.mu.Unlock()
	}
}

var handlerOf = map[string]string{"get": "handleLoad", "add": "handleAdd", "upd": "handleUpdate", "del": "handleDelete",
	"uoa": "handleMixUpdOrAddIfNull", "utl": "handleMixUpsertThenLoad", "utr": "handleMixUpsertThenRenewInCache"}

func (gr *group) op(op string, k, v int, faults []byte) string {
	gr.keys[k] = true
	st := gr.st
	cachedBefore, _ := gr.peek(k)
	st.mu.Lock()
	st.faults, st.trace = faults, nil
	st.mu.Unlock()
	res := gr.do(op, k, v)
	if strings.ContainsRune(string(faults), 'c') && res != "panic" {
		gr.barrier(k) // the caller may have left before the handler finished
	}
	st.mu.Lock()
	trace := append([]string{}, st.trace...)
	st.faults = nil
	if op == "add" && len(cachedBefore) > 0 && (res != "err:dup" || len(trace) != 0) {
		st.hit("C15:handleAdd:store-touched-for-cached-key", fmt.Sprintf("add on cached key %d: result %s, callbacks %v (expected duplicate-key error and no callback)", k, res, trace))
	}
	st.mu.Unlock()
	if op == "del" && (res == "nil" || (res == "err:ctx" && len(trace) == 1 && !strings.ContainsRune(string(faults), '1'))) {
		if w, _ := gr.peek(k); len(w) > 0 {
			st.mu.Lock()
			st.hit("C15:handleDelete:entry-still-cached", fmt.Sprintf("delete of key %d succeeded but worker %v still caches it", k, w))
			st.mu.Unlock()
		}
	}
	gr.checkCoherent(handlerOf[op])
	return res + " cb=" + strings.Join(trace, ",")
}

// stress: a concurrent mix on a fresh group of the same shape; judged by the monitors only.
func stress(lru bool, capN, workers int, seed, n int, hits map[string]string) {
	gr := newGroup(lru, capN, workers)
	gr.st.slow = true
	r := rng.New(uint64(seed)*7919 + 13)
	keys := []int{0, 1, 2, -1, 5}
	for _, k := range keys {
		gr.keys[k] = true
	}
	ops := []string{"get", "add", "upd", "del", "uoa", "utl", "utr"}
	var wg sync.WaitGroup
	for i := 0; i < n; i++ {
		rr := r.Fork(uint64(i))
		wg.Add(1)
		go func() {
			defer wg.Done()
			for j := 0; j < 12; j++ {
				// faults are drawn by whichever callback runs next (shared list): any pattern is a legal fault sequence
				if rr.Chance(1, 4) {
					gr.st.mu.Lock()
					gr.st.faults = append(gr.st.faults, '1')
					gr.st.mu.Unlock()
				}
				gr.do(ops[rr.Intn(len(ops))], keys[rr.Intn(len(keys))], rr.Range(1, 9))
			}
		}()
	}
	fin := make(chan struct{})
	go func() { wg.Wait(); close(fin) }()
	select {
	case <-fin:
	case <-time.After(30 * time.Second):
		fmt.Fprintln(os.Stderr, "harness error: stress did not finish within 30 s")
		os.Exit(2)
	}
	gr.checkCoherent("concurrent-mix")
	gr.close()
	for k, v := range gr.st.hits {
		if _, ok := hits[k]; !ok {
			hits[k] = v
		}
	}
}

// ---------------------------------------------------------------- script runner

func parseKey(s string) (int, bool) {
	if strings.HasPrefix(s, "+") {
		return 0, false
	}
	v, err := strconv.ParseInt(s, 10, 64)
	return int(v), err == nil
}

func parseNat(s string, max int) (int, bool) {
	if s == "" || len(s) > 9 {
		return 0, false
	}
	for _, ch := range s {
		if ch < '0' || ch > '9' {
			return 0, false
		}
	}
	v, _ := strconv.Atoi(s)
	return v, v <= max
}

func parseFaults(s string) ([]byte, bool) {
	if s == "-" {
		return nil, true
	}
	if len(s) > 8 || s == "" {
		return nil, false
	}
	for _, ch := range s {
		if ch != '0' && ch != '1' && ch != 'c' {
			return nil, false
		}
	}
	return []byte(s), true
}

// pile: one worker is kept busy inside a callback, further operations on the same key are submitted one at a time
// (each observed at quiescence: parked = accepted, returned = turned away), then the worker is released.
// The operations must be applied one at a time in acceptance order. Runs on a fresh group; judged by monitors only.
func pile(lru bool, capN, workers, k, m int, hits map[string]string) {
	gr := newGroupDeep(lru, capN, workers, 2)
	st := gr.st
	settle := func() {
		if err := c14q.Quiesce(20 * time.Second); err != nil {
			fmt.Fprintln(os.Stderr, "harness error:", err)
			os.Exit(2)
		}
	}
	type sub struct {
		v    int
		done chan string
		res  string
	}
	submit := func(v int) *sub {
		s := &sub{v: v, done: make(chan string, 1)}
		go func() {
			defer func() {
				if recover() != nil {
					s.done <- "panic"
				}
			}()
			r, err := gr.g.DoUpsertThenRenewInCache(context.Background(), st.upsert, mux.Int(k), pair{k, v})
			s.done <- canonRes("utr", r, err)
		}()
		return s
	}
	block := make(chan struct{})
	st.mu.Lock()
	st.block = block
	st.mu.Unlock()
	subs := []*sub{submit(100)}
	settle()
	for i := 1; i <= m; i++ {
		s := submit(i)
		settle()
		select {
		case s.res = <-s.done:
		default:
		}
		subs = append(subs, s)
	}
	close(block)
	for _, s := range subs {
		if s.res == "" {
			select {
			case s.res = <-s.done:
			case <-time.After(20 * time.Second):
				fmt.Fprintln(os.Stderr, "harness error: pile did not drain within 20 s")
				os.Exit(2)
			}
		}
	}
	gr.barrier(k)
	var want []int
	for _, s := range subs {
		if strings.HasPrefix(s.res, "ok:") {
			want = append(want, s.v)
		}
	}
	st.mu.Lock()
	got := append([]int{}, st.applied[k]...)
	if fmt.Sprint(got) != fmt.Sprint(want) && subs[0].res != "panic" {
		st.hit("C15:asyncCall:same-key-order", fmt.Sprintf("operations on key %d were accepted in order %v (others were turned away) but applied to the store in order %v", k, want, got))
	}
	st.mu.Unlock()
	gr.keys[k] = true
	gr.checkCoherent("pile")
	gr.close()
	for key, v := range st.hits {
		if _, ok := hits[key]; !ok {
			hits[key] = v
		}
	}
}

func runScript(lines []string) ([]string, map[string]string) {
	var gr *group
	var lru bool
	var capN, workers int
	hits := map[string]string{}
	finish := func() {
		if gr != nil {
			gr.close()
			for k, v := range gr.st.hits {
				if _, ok := hits[k]; !ok {
					hits[k] = v
				}
			}
			gr = nil
		}
	}
	var outs []string
	for _, l := range lines {
		var w []string
		for _, x := range strings.Split(l, " ") {
			if x != "" {
				w = append(w, x)
			}
		}
		out := "bad-op"
		switch {
		case len(w) == 4 && w[0] == "new":
			finish()
			c, ok1 := parseNat(w[2], 64)
			n, ok2 := parseNat(w[3], 128)
			if (w[1] == "map" || w[1] == "lru") && ok1 && ok2 && n >= 1 {
				lru, capN, workers = w[1] == "lru", c, n
				gr = newGroup(lru, capN, workers)
				out = "ok"
			}
		case len(w) == 3 && (w[0] == "get" || w[0] == "del") && gr != nil:
			k, ok1 := parseKey(w[1])
			f, ok2 := parseFaults(w[2])
			if ok1 && ok2 {
				out = gr.op(w[0], k, 0, f)
			}
		case len(w) == 4 && handlerOf[w[0]] != "" && w[0] != "get" && w[0] != "del" && gr != nil:
			k, ok1 := parseKey(w[1])
			v, ok2 := parseNat(w[2], 999)
			f, ok3 := parseFaults(w[3])
			if ok1 && ok2 && ok3 {
				out = gr.op(w[0], k, v, f)
			}
		case len(w) == 4 && w[0] == "pile" && gr != nil:
			k, ok1 := parseKey(w[1])
			m, ok2 := parseNat(w[2], 16)
			if ok1 && ok2 && w[3] == "-" {
				pile(lru, capN, workers, k, m, hits)
				out = "done"
			}
		case len(w) == 4 && w[0] == "stress" && gr != nil:
			seed, ok1 := parseNat(w[1], 999999999)
			n, ok2 := parseNat(w[2], 64)
			if ok1 && ok2 && w[3] == "-" {
				stress(lru, capN, workers, seed, n, hits)
				out = "done"
			}
		case len(w) == 2 && w[0] == "peek" && gr != nil:
			if k, ok := parseKey(w[1]); ok {
				where, vals := gr.peek(k)
				var parts []string
				for j, i := range where {
					parts = append(parts, fmt.Sprintf("w%d:%v", i, vals[j]))
				}
				out = "miss"
				if len(parts) > 0 {
					out = strings.Join(parts, ",")
				}
			}
		case len(w) == 2 && w[0] == "store" && gr != nil:
			if k, ok := parseKey(w[1]); ok {
				gr.st.mu.Lock()
				if v, ok := gr.st.m[k]; ok {
					out = strconv.Itoa(v)
				} else {
					out = "none"
				}
				gr.st.mu.Unlock()
			}
		}
		outs = append(outs, out)
	}
	finish()
	return outs, hits
}

func runCase(c corr.Case) corr.Result {
	outs, hits := runScript(c.Lines)
	res := corr.Result{Outs: outs}
	var keys []string
	for k := range hits {
		keys = append(keys, k)
	}
	sort.Strings(keys)
	for _, k := range keys {
		res.Hits = append(res.Hits, corr.Hit{Key: k, What: hits[k]})
	}
	return res
}

// ---------------------------------------------------------------- generator

var keyPool = []int{0, 1, 2, 3, 4, 5, 6, 7, -1, -2, -3, -4, 127, -127, 254, math.MinInt64, math.MinInt64 + 1, math.MaxInt64, math.MinInt32, 1 << 40, -(1 << 40)}

var valueOps = []string{"add", "upd", "uoa", "utl", "utr"}

func genFaults(r *rng.R) string {
	switch r.Intn(8) {
	case 0, 1, 2, 3:
		return "-"
	case 4:
		return "1"
	case 5:
		return "01"
	case 6:
		return r.Pick("001", "10", "11", "011", "c", "c", "0c", "c1", "1c", "c0c")
	}
	n := r.Range(1, 4)
	b := make([]byte, n)
	for i := range b {
		b[i] = "0011c"[r.Intn(5)]
	}
	return string(b)
}

func genScript(r *rng.R, tier string) []string {
	fac := r.Pick("map", "lru", "lru")
	capN := r.PickInt(0, 1, 2, 2, 3, 8)
	workers := r.PickInt(1, 2, 2, 3, 3, 4)
	if r.Chance(1, 40) {
		workers = 127
	}
	lines := []string{fmt.Sprintf("new %s %d %d", fac, capN, workers)}
	nk := r.Range(2, 6)
	var keys []int
	for i := 0; i < nk; i++ {
		if r.Chance(3, 4) {
			keys = append(keys, r.Range(-3, 7))
		} else {
			keys = append(keys, keyPool[r.Intn(len(keyPool))])
		}
	}
	n := r.Range(8, 24)
	if tier != "quick" {
		n = r.Range(8, 40)
	}
	for i := 0; i < n; i++ {
		k := keys[r.Intn(len(keys))]
		switch r.Intn(12) {
		case 0, 1:
			lines = append(lines, fmt.Sprintf("get %d %s", k, genFaults(r)))
		case 2:
			lines = append(lines, fmt.Sprintf("del %d %s", k, genFaults(r)))
		case 3, 4, 5, 6, 7, 8:
			v := r.Range(1, 99)
			if r.Chance(1, 6) {
				v = 0 // the nil value
			}
			lines = append(lines, fmt.Sprintf("%s %d %d %s", valueOps[r.Intn(len(valueOps))], k, v, genFaults(r)))
		case 9:
			lines = append(lines, fmt.Sprintf("peek %d", k))
		case 10:
			lines = append(lines, fmt.Sprintf("store %d", k))
		default:
			lines = append(lines, fmt.Sprintf("peek %d", k), fmt.Sprintf("store %d", k))
		}
	}
	for _, k := range keys {
		lines = append(lines, fmt.Sprintf("peek %d", k), fmt.Sprintf("store %d", k))
	}
	return lines
}

func genGarbage(r *rng.R) []string {
	toks := []string{"new", "get", "add", "upd", "del", "uoa", "utl", "utr", "peek", "store", "stress", "pile", "c", "0c", "cx", "map", "lru", "0", "1", "-1", "-", "01", "2", "x",
		"99999999999999999999", "1000", "+1", "", "012", "-9223372036854775809"}
	lines := []string{r.Pick("new map 0 1", "new lru 2 2", "new bogus 1 1", "new lru 65 1", "new map 0 0", "new lru 1 129")}
	for i := 0; i < 8; i++ {
		n := r.Range(0, 5)
		var w []string
		for j := 0; j < n; j++ {
			w = append(w, toks[r.Intn(len(toks))])
		}
		lines = append(lines, strings.Join(w, " "))
	}
	return lines
}

// every handler branch (cache hit / miss × store present / absent) under every fault pattern of length ≤ 3
func enumCases() []corr.Case {
	var cs []corr.Case
	faults := []string{"-", "1", "01", "11", "001", "011", "101", "111", "c", "0c", "c1"}
	setups := map[string][]string{
		"absent":        nil,
		"stored":        {"utr 1 5 -"},              // in the store, not cached
		"nil+cached":    {"add 1 0 -"},              // in the store and cached with the nil value
		"stored+cached": {"add 1 5 -"},              // in the store and cached
		"cached-other":  {"add 2 7 -", "add 3 8 -"}, // other keys cached (LRU pressure), key 1 absent
	}
	var names []string
	for n := range setups {
		names = append(names, n)
	}
	sort.Strings(names)
	for _, fac := range []string{"map 0 1", "lru 2 2", "lru 1 1", "lru 0 3"} {
		for _, sn := range names {
			for _, op := range []string{"get", "add", "upd", "del", "uoa", "utl", "utr"} {
				for _, f := range faults {
					lines := append([]string{"new " + fac}, setups[sn]...)
					if op == "get" || op == "del" {
						lines = append(lines, fmt.Sprintf("%s 1 %s", op, f))
					} else {
						lines = append(lines, fmt.Sprintf("%s 1 3 %s", op, f))
					}
					lines = append(lines, "peek 1", "store 1", "peek 2", "peek 3", "get 1 -", "peek 1")
					cs = append(cs, corr.Case{Tag: "enum-" + sn, Lines: lines})
				}
			}
		}
	}
	return cs
}

func fixedCases() []corr.Case {
	var cs []corr.Case
	add := func(tag string, lines ...string) { cs = append(cs, corr.Case{Tag: tag, Lines: lines}) }
	min := strconv.Itoa(math.MinInt64)
	// F15: the minimum integer as hashed key
	add("witness-F15", "new map 0 3", "get "+min+" -", "add "+min+" 4 -", "peek "+min)
	add("witness-F15", "new lru 8 127", "get "+min+" -", "get -127 -", "get 127 -", "add 254 1 -", "peek 254")
	add("boundary", "new lru 1 1", "add 1 5 -", "add 2 6 -", "peek 1", "peek 2", "add 1 9 -", "upd 1 2 -", "peek 1", "peek 2", "del 1 1", "del 1 -", "peek 1", "store 1")
	add("boundary", "new map 0 2", "uoa 1 5 1", "uoa 1 5 01", "uoa 1 5 -", "uoa 1 2 1", "uoa 1 2 -", "peek 1", "store 1", "utl -1 3 01", "peek -1", "store -1", "utl -1 3 -", "peek -1")
	add("boundary", "new lru 4 1", "add 1 0 -", "peek 1", "add 1 7 -", "upd 1 0 -", "get 1 -", "add 1 3 -", "utl 2 0 -", "add 2 1 -", "uoa 3 0 -", "add 3 2 -", "peek 3", "store 3")
	add("boundary", "new map 0 1", "add 1 5 -", "del 1 c", "peek 1", "store 1", "add 2 5 -", "upd 2 1 c", "peek 2", "utl 3 1 cc", "peek 3", "utl 4 1 c1", "peek 4", "store 4")
	add("pile", "new map 0 1", "pile 1 5 -", "add 1 1 -")
	add("pile", "new lru 2 3", "pile -2 4 -")
	add("stress", "new map 0 2", "stress 1 8 -", "add 1 1 -", "peek 1")
	add("stress", "new lru 2 3", "stress 2 8 -", "get 1 -")
	return append(cs, enumCases()...)
}

func spec() corr.Spec {
	return corr.Spec{
		Property: "C15",
		Fixed:    fixedCases,
		Count: func(tier string) int {
			switch tier {
			case "quick":
				return 3000
			case "thorough":
				return 40000
			}
			return 60000
		},
		Shards: func(tier string) int {
			if tier == "quick" {
				return 4
			}
			return 10
		},
		Gen: func(r *rng.R, tier string, i int) corr.Case {
			switch {
			case i%40 == 11:
				return corr.Case{Tag: "malformed", Lines: genGarbage(r)}
			case i%100 == 33:
				ls := genScript(r, tier)
				ls = append(ls, fmt.Sprintf("pile %d %d -", keyPool[r.Intn(8)], r.Range(2, 8)))
				return corr.Case{Tag: "script+pile", Lines: ls}
			case i%200 == 57 || (tier != "quick" && i%50 == 7):
				ls := genScript(r, tier)
				ls = append(ls, fmt.Sprintf("stress %d %d -", r.Range(0, 1<<20), r.Range(4, 16)))
				return corr.Case{Tag: "script+stress", Lines: ls}
			}
			ls := genScript(r, tier)
			return corr.Case{Tag: "script-" + strings.Fields(ls[0])[1], Lines: ls}
		},
		Run: runCase,
		NonTrivial: func(c corr.Case, r corr.Result) bool {
			n := 0
			for _, o := range r.Outs {
				if strings.Contains(o, " cb=") && !strings.HasSuffix(o, " cb=") {
					n++
				}
			}
			return n >= 1 && len(c.Lines) >= 4
		},
		Rule: "sequential mixes of get/add/update/delete/update-or-add/upsert-then-load/upsert-then-renew over 2..6 keys (incl. negatives, MinInt, MaxInt) with a fault bit per callback invocation, map and LRU facades (capacity 0..8), 1..4 or 127 workers, interleaved peek/store observations; plus the exhaustive enumeration of every handler x {absent, stored, stored+cached, other keys cached} x every fault pattern of length <= 3 on four facade shapes; plus concurrent stress lines judged by monitors; a case is non-trivial when at least one store callback ran; distinct = distinct script text",
		Assumptions: []string{
			"store callbacks are the harness's in-memory store: a failing callback leaves the store unchanged (the model's fault oracle)",
			"cache.Map / cache.LRUCache behave as modelled (recency list, eviction from the back, size 1 per entry); validated by the correspondence, proved separately under C04",
			"sequential scripts: each operation is applied atomically (one worker goroutine per key); concurrent mixes are checked by monitors only, their serial order is the subject of the queue theorems and the shape facts",
		},
		Trusted: []string{"go/lib/go2lean (kernel translator)"},
	}
}
