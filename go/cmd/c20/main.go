// Command c20: extractor and correspondence runner for property C20 (tex scalar wrappers).
package main

import (
	"fmt"
	"os"
	"runtime"
	"strings"

	// every package of the module that imports tex or a JSON library is linked in, so that whatever they register at
	// init (global jsoniter codecs, encoders keyed by type name, …) is in force while the wrappers are exercised
	_ "github.com/pinealctx/neptune/dl"
	_ "github.com/pinealctx/neptune/idgen/snowflake"
	_ "github.com/pinealctx/neptune/jsonx"
	_ "github.com/pinealctx/neptune/mpb"
	_ "github.com/pinealctx/neptune/vcode"

	"nvharness/lib/corr"
	_ "nvharness/lib/quiet"
	"nvharness/lib/rng"
)

func main() {
	if len(os.Args) < 2 {
		fmt.Fprintln(os.Stderr, "usage: c20 extract|corr …")
		os.Exit(2)
	}
	switch os.Args[1] {
	case "extract":
		extract(os.Args[2], os.Args[3])
	case "corr":
		// one P: a buffer put back into a sync.Pool is the one the next Get returns, on this or a second goroutine
		runtime.GOMAXPROCS(1)
		mineRepo()
		corr.Main(spec(), os.Args[2:])
	default:
		os.Exit(2)
	}
}

func spec() corr.Spec {
	return corr.Spec{
		Property: "C20",
		Fixed:    fixedCases,
		Count: func(tier string) int {
			switch tier {
			case "quick":
				return 10000
			case "thorough":
				return 120000
			default: // search
				return 160000
			}
		},
		Gen: func(r *rng.R, tier string, i int) corr.Case { return genCase(r, tier, i) },
		Run: func(c corr.Case) corr.Result {
			var res corr.Result
			held = held[:0]
			for _, l := range c.Lines {
				o, hits := runLineGuarded(l)
				res.Outs = append(res.Outs, o)
				res.Hits = append(res.Hits, hits...)
			}
			// encoder results the script still holds must not have been changed by later encodes
			res.Hits = append(res.Hits, guardedHeld()...)
			for k := range res.Hits {
				if len(res.Hits[k].What) > 420 {
					res.Hits[k].What = res.Hits[k].What[:400] + "… (truncated)"
				}
			}
			return res
		},
		NonTrivial: func(c corr.Case, r corr.Result) bool {
			for _, o := range r.Outs {
				if strings.HasPrefix(o, "ok ") || strings.HasPrefix(o, "enc=") || strings.HasPrefix(o, "val=") {
					return true
				}
			}
			return false
		},
		Classify: func(c corr.Case, line int, want, got string) string {
			op := strings.Fields(c.Lines[line] + " ?")[0]
			return "C20:corr:" + op
		},
		Rule: "tokens from a grammar (quoted|bare x sign x leading zeros x 1..25 digits biased to the 2^31/2^63/2^64 edges x blanks/junk x empty; fractions, exponents, null, true, arrays; slash lists with in/out-of-range elements; duration texts) fed to every wrapper directly and — when the token is a JSON value — through encoding/json and jsoniter (all three must agree); marshal→unmarshal round trips on extremes and random values; hex/base-32, base64 and SQL Scan/Value forms; a case is non-trivial when at least one line decodes to a value; distinct = distinct script text",
		Assumptions: []string{
			"strconv (Atoi/ParseInt/ParseUint/Format*), time.ParseDuration/Duration.String, time.Unix/Unix()/UnixNano(), encoding/base64 and strings.Split are modelled in Lean from their source, not verified; the correspondence validates the models on every run",
			"time.ParseDuration computes a fraction's contribution in float64; the model uses exact integer arithmetic, which coincides whenever the fraction has no more digits than the unit resolves (everything Duration.String prints); generated duration tokens stay inside that class",
			"encoding/json and jsoniter hand the raw token bytes to UnmarshalJSON (checked on every generated token that is a JSON value: the three paths must agree)",
			"SQL Scan of an unsupported dynamic type is modelled as coded (nil error, zero / unchanged value); the property's quantifier covers JSON tokens and encoder outputs only",
		},
		Trusted: []string{"math/big reference parse in the monitors (cmd/c20/run.go denoteInt)"},
	}
}
