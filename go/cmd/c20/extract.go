package main

import (
	"embed"
	"fmt"
	"go/parser"
	"go/token"
	"os"
	"path/filepath"

	"nvharness/lib/gofacts"
)

// The extractor compares the WHOLE canonical text (gofacts.Canon: locals renamed, white space collapsed) of every
// function of the anchored files with the two shapes the model is written against: `legacy` (the tree before the
// repairs) and `repaired`. A body that is neither is `unknown` — an inserted statement, a reassigned variable or a
// changed loop bound is therefore a broken tie, never a silently accepted variant.
//
//go:embed shapes/legacy/*.go.txt shapes/repaired/*.go.txt
var shapeFS embed.FS

var anchored = []string{"jsi64", "jsu64", "jsbyte", "jstime", "timestamp", "duration", "base64", "hex"}

func loadShape(kind, name string) *gofacts.File {
	src, err := shapeFS.ReadFile("shapes/" + kind + "/" + name + ".go.txt")
	if err != nil {
		fmt.Fprintln(os.Stderr, "extract:", err)
		os.Exit(2)
	}
	fset := token.NewFileSet()
	f, err := parser.ParseFile(fset, name+".go", src, parser.SkipObjectResolution)
	if err != nil {
		fmt.Fprintln(os.Stderr, "extract:", err)
		os.Exit(2)
	}
	return &gofacts.File{Fset: fset, AST: f}
}

type shapes struct {
	repo, legacy, repaired map[string]*gofacts.File
}

// shapeOf: "legacy", "repaired", "both" (the function is the same in the two snapshots) or "unknown".
func (s *shapes) shapeOf(file, recv, name string) string {
	got := s.repo[file].Canon(s.repo[file].Func(recv, name))
	if got == "" {
		return "unknown"
	}
	l := s.legacy[file].Canon(s.legacy[file].Func(recv, name))
	r := s.repaired[file].Canon(s.repaired[file].Func(recv, name))
	switch {
	case got == l && got == r:
		return "both"
	case got == l:
		return "legacy"
	case got == r:
		return "repaired"
	}
	return "unknown"
}

func known(sh string) bool { return sh != "unknown" }

// wrapFact is the regenerated description of one UnmarshalJSON (Nv.C20.Wrap).
type wrapFact struct {
	kind      string // checkedBare | checkedOnly | unconditional | unknown
	minLen    int
	emptyZero bool
	parser    string // atoi | parseUint64 | parseDuration | fromString | unknown
}

func (w wrapFact) lean() string {
	return fmt.Sprintf("⟨.%s, %d, %s, .%s⟩", w.kind, w.minLen, gofacts.LeanBool(w.emptyZero), w.parser)
}

// wrapOf: what the model knows about the two shapes of each wrapper's UnmarshalJSON.
func wrapOf(shape string, minLen int, parser string) wrapFact {
	switch shape {
	case "legacy":
		return wrapFact{"unconditional", minLen, false, parser}
	case "repaired":
		return wrapFact{"checkedOnly", minLen, false, parser}
	}
	return wrapFact{kind: "unknown", parser: "unknown"}
}

func extract(repo, leanDir string) {
	s := &shapes{map[string]*gofacts.File{}, map[string]*gofacts.File{}, map[string]*gofacts.File{}}
	for _, n := range append(append([]string{}, anchored...), "interface", "map") {
		s.repo[n] = gofacts.MustLoad(repo, "tex/"+n+".go")
		s.legacy[n] = loadShape("legacy", n)
		s.repaired[n] = loadShape("repaired", n)
	}
	sh := s.shapeOf

	// JsInt64.UnmarshalJSON has one shape (checks its quotes, parses a bare token as it is, `""` is 0)
	wI := wrapFact{kind: "unknown", parser: "unknown"}
	if known(sh("jsi64", "JsInt64", "UnmarshalJSON")) {
		wI = wrapFact{"checkedBare", 1, true, "atoi"}
	}
	wU := wrapOf(sh("jsu64", "JsUInt64", "UnmarshalJSON"), 3, "parseUint64")
	wB := wrapOf(sh("jsbyte", "JsByte", "UnmarshalJSON"), 2, "fromString")
	wT := wrapOf(sh("jstime", "JsUnixTime", "UnmarshalJSON"), 3, "atoi")
	wN := wrapOf(sh("jstime", "JsNanoTime", "UnmarshalJSON"), 3, "atoi")
	wS := wrapOf(sh("timestamp", "UnixStamp", "UnmarshalJSON"), 3, "atoi")
	wD := wrapOf(sh("duration", "Duration", "UnmarshalJSON"), 3, "parseDuration")

	fromString := sh("jsbyte", "JsByte", "FromString")
	conv := map[string]string{"legacy": "wrap", "repaired": "rangeChecked"}[fromString]
	if conv == "" {
		conv = "unknown"
	}

	scanShape := "unknown"
	nano, unix := sh("timestamp", "UnixNano2Time", "Scan"), sh("timestamp", "Unix2Time", "Scan")
	switch {
	case nano == "legacy" && unix == "legacy":
		scanShape = "legacy"
	case nano == "repaired" && unix == "repaired" && sh("timestamp", "", "scanInt64") == "repaired":
		scanShape = "strict"
	}
	stampShape := "unknown"
	st, t2u := sh("timestamp", "UnixStamp", "Scan"), sh("timestamp", "SQLTime2Unix", "Scan")
	switch {
	case st == "legacy" && t2u == "legacy":
		stampShape = "legacy"
	case st == "repaired" && t2u == "repaired":
		stampShape = "strict"
	}

	// tex.ToString and the two generic paths that call it (not anchored, but they print wrapper values)
	toStr := "unknown"
	if known(sh("interface", "", "tryNum2Int")) && known(sh("interface", "", "ToStringList")) && known(sh("map", "", "MapVal2String")) {
		switch sh("interface", "", "ToString") {
		case "legacy":
			toStr = "viaInt"
		case "repaired":
			toStr = "exact"
		}
	}

	all := func(fs ...string) bool {
		for _, f := range fs {
			if !known(f) {
				return false
			}
		}
		return true
	}
	marshalQuotedDecimal := all(sh("jsi64", "JsInt64", "MarshalJSON"), sh("jsu64", "JsUInt64", "MarshalJSON"),
		sh("jstime", "JsUnixTime", "MarshalJSON"), sh("jstime", "JsNanoTime", "MarshalJSON"), sh("timestamp", "UnixStamp", "MarshalJSON"))
	durMarshal := all(sh("duration", "Duration", "MarshalJSON"))
	byteMarshal := all(sh("jsbyte", "JsByte", "MarshalJSON"), sh("jsbyte", "JsByte", "ToJS"), sh("jsbyte", "JsByte", "splitBuilder"))
	byteSplit := known(fromString)
	hexBases := all(sh("hex", "", "I64Hex"), sh("hex", "", "U64Hex"), sh("hex", "", "I64HexV2"), sh("hex", "", "U64HexV2"),
		sh("hex", "", "HexI64"), sh("hex", "", "HexU64"), sh("hex", "", "HexI64V2"), sh("hex", "", "HexU64V2"))
	base64Raw := all(sh("base64", "Base64Bytes", "Scan"), sh("base64", "Base64Bytes", "Value"))
	sqlScanValue := all(sh("timestamp", "UnixNano2Time", "Value"), sh("timestamp", "Unix2Time", "Value"),
		sh("timestamp", "UnixStamp", "Value"), sh("timestamp", "SQLTime2Unix", "Value"), nano, unix, st, t2u)
	durToml := all(sh("duration", "Duration", "UnmarshalTOML"))
	durGetter := all(sh("duration", "Duration", "Duration"))
	byteToString := all(sh("jsbyte", "JsByte", "ToString"))

	lb := gofacts.LeanBool
	out := fmt.Sprintf(`import Nv.Model.C20
set_option linter.unusedVariables false
/-! GENERATED by `+"`c20 extract`"+` from tex/{jsi64,jsu64,jsbyte,jstime,timestamp,duration,base64,hex}.go — do not edit. -/
namespace Nv.Gen.C20
def cfg : Nv.C20.Cfg :=
  { i64 := %s, u64 := %s, byte := %s, unixTime := %s, nanoTime := %s, stamp := %s, dur := %s,
    byteConv := .%s, scanInt := .%s, scanStamp := .%s, toStr := .%s }
def facts : Nv.C20.Facts := ⟨%s, %s, %s, %s, %s, %s, %s, %s, %s, %s⟩
end Nv.Gen.C20
`, wI.lean(), wU.lean(), wB.lean(), wT.lean(), wN.lean(), wS.lean(), wD.lean(), conv, scanShape, stampShape, toStr,
		lb(marshalQuotedDecimal), lb(durMarshal), lb(byteMarshal), lb(byteSplit), lb(hexBases), lb(base64Raw), lb(sqlScanValue),
		lb(durToml), lb(durGetter), lb(byteToString))
	if err := gofacts.WriteIfChanged(filepath.Join(leanDir, "Nv/Gen/C20.lean"), out); err != nil {
		fmt.Fprintln(os.Stderr, err)
		os.Exit(2)
	}
	fmt.Printf("extract C20 (whole-body shapes): toStr=%s scanInt=%s scanStamp=%s byteConv=%s facts=%v,%v,%v,%v,%v,%v,%v,%v,%v,%v i64=%v u64=%v byte=%v unixTime=%v nanoTime=%v stamp=%v dur=%v\n",
		toStr, scanShape, stampShape, conv, marshalQuotedDecimal, durMarshal, byteMarshal, byteSplit, hexBases, base64Raw, sqlScanValue, durToml, durGetter, byteToString,
		wI, wU, wB, wT, wN, wS, wD)
}
